import AslModel.Model.DataTI
import AslModel.Lemmas.DataWord
/-! Helper lemmas for `Props/C09_TI.lean`: the byte callbacks of `pseudo_store` keep the invariant
"cells = the packed image of the bytes stored so far, `adr` = their number". -/
namespace AslModel.DataTILemmas
open AslModel.PFile (Byte b)
open AslModel.Data AslModel.DataModel AslModel.DataX AslModel.DataXModel AslModel.DataXLemmas
open AslModel.DataW AslModel.DataWModel AslModel.DataWLemmas AslModel.DataTI AslModel.DataTIModel

theorem longInt_id (v : Int) (h : -(2 : Int) ^ 31 ≤ v ∧ v < (2 : Int) ^ 31) : longInt v = v := by
  unfold longInt
  simp only [Int.reducePow] at h ⊢
  omega

theorem rc8 (v : Int) : rangeCheck v Generated.itInt8 = inRange 8 v :=
  rangeCheck_cfg Generated.itInt8 8 .perWord false (by decide) v (by intro h; cases h)

theorem rc16 (v : Int) : rangeCheck v Generated.itInt16 = inRange 16 v :=
  rangeCheck_cfg Generated.itInt16 16 .twoPerWord false (by decide) v (by intro h; cases h)

theorem twos8_lt (v : Int) : twos 8 v < 256 := by
  unfold twos
  simp only [Int.reducePow]
  omega

theorem low8 (v : Int) : largeWord v &&& 0xff = twos 8 v := by
  have := word_cfg 8 (by simp) v
  simpa using this

theorem low16 (v : Int) : largeWord v % 65536 = twos 16 v := by
  simp only [largeWord, twos, Int.reducePow]
  omega

theorem shl8 (v : Int) : (largeWord v <<< 8) % 65536 = 256 * twos 8 v := by
  rw [Nat.shiftLeft_eq]
  simp only [largeWord, twos, Int.reducePow, Nat.reducePow]
  omega

/-- a byte into the empty lower half -/
theorem or_low (h x : Nat) (hx : x < 256) : (256 * h) ||| x = 256 * h + x := by
  have := or_shift8 x h hx
  rw [Nat.or_comm, show 256 * h = h <<< 8 from by rw [Nat.shiftLeft_eq]; omega]
  omega

/-- a byte into the empty upper half -/
theorem or_high (l x : Nat) (hl : l < 256) : l ||| (256 * x) = l + 256 * x := by
  have := or_shift8 l x hl
  rw [show 256 * x = x <<< 8 from by rw [Nat.shiftLeft_eq]; omega]
  omega

theorem packHiLo_ne_nil (bs : List Nat) (h : bs ≠ []) : packHiLo bs ≠ [] := by
  match bs, h with
  | [_], _ => simp [packHiLo]
  | _ :: _ :: _, _ => simp [packHiLo]

theorem packLoHi_ne_nil (bs : List Nat) (h : bs ≠ []) : packLoHi bs ≠ [] := by
  match bs, h with
  | [_], _ => simp [packLoHi]
  | _ :: _ :: _, _ => simp [packLoHi]

/-- STRING: the next byte goes to a new word's upper half (even count) or into the last word's lower half (odd count) -/
theorem packHiLo_snoc (bs : List Nat) (x : Nat) (hx : x < 256) :
    packHiLo (bs ++ [x]) = if bs.length % 2 = 1 then orLast (packHiLo bs) x else packHiLo bs ++ [256 * x] := by
  induction bs using packHiLo.induct with
  | case1 b0 b1 r ih =>
    have e : (b0 :: b1 :: r).length % 2 = r.length % 2 := by simp only [List.length_cons]; omega
    simp only [List.cons_append, packHiLo, ih, e]
    split
    · rename_i hodd
      have hr : r ≠ [] := by intro h; subst h; simp at hodd
      have := orLast_append [256 * b0 + b1] (packHiLo r) x (packHiLo_ne_nil r hr)
      simpa using this.symm
    · rfl
  | case2 b0 => simp [packHiLo, orLast, or_low b0 x hx]
  | case3 => simp [packHiLo]

/-- RSTRING: the next byte goes to a new word's lower half (even count) or into the last word's upper half (odd count) -/
theorem packLoHi_snoc (bs : List Nat) (hb : ∀ y ∈ bs, y < 256) (x : Nat) :
    packLoHi (bs ++ [x]) = if bs.length % 2 = 1 then orLast (packLoHi bs) (256 * x) else packLoHi bs ++ [x] := by
  induction bs using packLoHi.induct with
  | case1 b0 b1 r ih =>
    have e : (b0 :: b1 :: r).length % 2 = r.length % 2 := by simp only [List.length_cons]; omega
    have hr' : ∀ y ∈ r, y < 256 := fun y hy => hb y (by simp [hy])
    simp only [List.cons_append, packLoHi, ih hr', e]
    split
    · rename_i hodd
      have hr : r ≠ [] := by intro h; subst h; simp at hodd
      have := orLast_append [b0 + 256 * b1] (packLoHi r) (256 * x) (packLoHi_ne_nil r hr)
      simpa using this.symm
    · rfl
  | case2 b0 =>
    have h0 : b0 < 256 := hb b0 (by simp)
    simp [packLoHi, orLast, or_high b0 x h0]
  | case3 => simp [packLoHi]

/-- element width 8 or 16, one cell or half a cell per element -/
def Packed : TIOp → Prop
  | .long => False
  | _ => True

/-- **the callback's step**: with the cells holding the image of the elements `es` stored so far and `adr` their
number, a value in the element's range adds exactly its own element; any other value is refused. -/
theorem callback_step (o : TIOp) (ho : Packed o) (es : List Nat) (hes : ∀ y ∈ es, y < 256 ∨ o = .word) (v : Int) :
    callback o (layout o es, es.length) v =
      if inRange o.bits v then some (layout o (es ++ [twos o.bits v]), es.length + 1) else none := by
  cases o with
  | long => exact absurd ho (by simp [Packed])
  | string =>
    simp only [callback, rc8, TIOp.bits, layout, low8, shl8, packHiLo_snoc es _ (twos8_lt v)]
    cases inRange 8 v <;> simp
    split <;> simp_all
  | rstring =>
    have hb : ∀ y ∈ es, y < 256 := fun y hy => (hes y hy).resolve_right (by simp)
    simp only [callback, rc8, TIOp.bits, layout, low8, shl8, packLoHi_snoc es hb]
    cases inRange 8 v <;> simp
    split <;> simp_all
  | byte =>
    simp only [callback, rc8, TIOp.bits, layout, low8]
    by_cases h : inRange 8 v = true <;> simp [h]
  | word =>
    simp only [callback, rc16, TIOp.bits, layout, low16]
    by_cases h : inRange 16 v = true <;> simp [h]


/-! ## the whole statement: `pseudo_store` = the manual's elements in their lanes -/

/-- `adr` after `n` elements (`wr_code_long` counts two words per element) -/
def adrOf : TIOp → Nat → Nat
  | .long, n => 2 * n
  | _, n => n

/-- the state of `pseudo_store` when the elements `es` have been stored -/
def stOf (o : TIOp) (es : List Nat) : TISt := (layout o es, adrOf o es.length)

/-- elements that fit a byte lane (STRING / RSTRING / BYTE) -/
def ElemsOK (o : TIOp) (es : List Nat) : Prop := ∀ y ∈ es, y < 256 ∨ o = .word ∨ o = .long

/-- what a callback makes of the 32-bit value it receives: its element, or a refusal -/
def cbElem (o : TIOp) (v : Int) : Option Nat :=
  match o with
  | .long => some (twos 32 v)
  | _ => if inRange o.bits v then some (twos o.bits v) else none

theorem long_lo (v : Int) : largeWord v &&& 0xffff = twos 32 v % 65536 := by
  rw [show (0xffff : Nat) = 2 ^ 16 - 1 from rfl, Nat.and_two_pow_sub_one_eq_mod]
  simp only [largeWord, twos, Int.reducePow, Nat.reducePow]
  omega

theorem long_hi (v : Int) : (largeWord v >>> 16) % 65536 = twos 32 v / 65536 := by
  rw [Nat.shiftRight_eq_div_pow]
  simp only [largeWord, twos, Int.reducePow, Nat.reducePow]
  omega

theorem layout_long_snoc (es : List Nat) (e : Nat) :
    layout .long (es ++ [e]) = layout .long es ++ [e % 65536, e / 65536] := by
  simp [layout]

/-- **one callback, every statement kind** -/
theorem callback_all (o : TIOp) (es : List Nat) (hes : ElemsOK o es) (v : Int) :
    callback o (stOf o es) v = (cbElem o v).map fun e => stOf o (es ++ [e]) := by
  cases o with
  | long =>
    simp only [stOf, adrOf, callback, cbElem, Option.map_some, layout_long_snoc, long_lo, long_hi, List.length_append,
      List.length_cons, List.length_nil]
    congr 2
  | string =>
    have h := callback_step .string (by simp [Packed]) es (fun y hy => (hes y hy).elim Or.inl (by simp)) v
    simp only [stOf, adrOf, cbElem, List.length_append, List.length_cons, List.length_nil] at h ⊢
    rw [h]
    split <;> rfl
  | rstring =>
    have h := callback_step .rstring (by simp [Packed]) es (fun y hy => (hes y hy).elim Or.inl (by simp)) v
    simp only [stOf, adrOf, cbElem, List.length_append, List.length_cons, List.length_nil] at h ⊢
    rw [h]
    split <;> rfl
  | byte =>
    have h := callback_step .byte (by simp [Packed]) es (fun y hy => (hes y hy).elim Or.inl (by simp)) v
    simp only [stOf, adrOf, cbElem, List.length_append, List.length_cons, List.length_nil] at h ⊢
    rw [h]
    split <;> rfl
  | word =>
    have h := callback_step .word (by simp [Packed]) es (fun y _ => Or.inr rfl) v
    simp only [stOf, adrOf, cbElem, List.length_append, List.length_cons, List.length_nil] at h ⊢
    rw [h]
    split <;> rfl

theorem twos_lt (w : Nat) (v : Int) : twos w v < 2 ^ w := by
  unfold twos
  have hp : (0 : Int) < (2 : Int) ^ w := Int.pow_pos (by decide)
  have h1 := Int.emod_lt_of_pos v hp
  have h2 := Int.emod_nonneg v (Int.ne_of_gt hp)
  have : ((v % (2 : Int) ^ w).toNat : Int) < ((2 ^ w : Nat) : Int) := by
    rw [Int.toNat_of_nonneg h2]; simpa using h1
  exact Int.ofNat_lt.mp this

theorem cbElem_ok (o : TIOp) (v : Int) (e : Nat) (h : cbElem o v = some e) : e < 256 ∨ o = .word ∨ o = .long := by
  cases o with
  | long => exact Or.inr (Or.inr rfl)
  | word => exact Or.inr (Or.inl rfl)
  | string | rstring | byte =>
    simp only [cbElem] at h
    split at h
    · cases h; exact Or.inl (twos8_lt v)
    · cases h

theorem ElemsOK_snoc (o : TIOp) (es : List Nat) (e : Nat) (hes : ElemsOK o es) (he : e < 256 ∨ o = .word ∨ o = .long) :
    ElemsOK o (es ++ [e]) := by
  intro y hy
  simp only [List.mem_append, List.mem_cons, List.mem_nil_iff, or_false] at hy
  rcases hy with hy | rfl
  · exact hes y hy
  · exact he

theorem ElemsOK_append (o : TIOp) (es xs : List Nat) (hes : ElemsOK o es) (hxs : ElemsOK o xs) : ElemsOK o (es ++ xs) := by
  intro y hy
  rcases List.mem_append.mp hy with hy | hy
  · exact hes y hy
  · exact hxs y hy

/-- the elements of a list of values handed to the callback one after the other (all, or a refusal) -/
def valsElems (cut : Bool) (o : TIOp) : List Int → Option (List Nat)
  | [] => some []
  | v :: vs =>
    match cbElem o (cutVal cut v), valsElems cut o vs with
    | some e, some r => some (e :: r)
    | _, _ => none

theorem valsElems_ok (cut : Bool) (o : TIOp) (vs : List Int) (xs : List Nat) (h : valsElems cut o vs = some xs) : ElemsOK o xs := by
  induction vs generalizing xs with
  | nil => simp only [valsElems, Option.some.injEq] at h; subst h; intro y hy; cases hy
  | cons v vs ih =>
    simp only [valsElems] at h
    cases h1 : cbElem o (cutVal cut v) with
    | none => simp [h1] at h
    | some e =>
      cases h2 : valsElems cut o vs with
      | none => simp [h1, h2] at h
      | some r =>
        simp only [h1, h2, Option.some.injEq] at h
        subst h
        intro y hy
        rcases List.mem_cons.mp hy with rfl | hy
        · exact cbElem_ok o _ _ h1
        · exact ih r h2 y hy

/-- **the callback loop**: from the image of `es`, the values `vs` add exactly their elements -/
theorem callbacks_elems (cut : Bool) (o : TIOp) (es : List Nat) (hes : ElemsOK o es) (vs : List Int) :
    callbacks cut o (stOf o es) vs = (valsElems cut o vs).map fun xs => stOf o (es ++ xs) := by
  induction vs generalizing es with
  | nil => simp [callbacks, valsElems]
  | cons v vs ih =>
    simp only [callbacks, valsElems, callback_all o es hes]
    cases h1 : cbElem o (cutVal cut v) with
    | none => simp
    | some e =>
      simp only [Option.map_some]
      rw [ih (es ++ [e]) (ElemsOK_snoc o es e hes (cbElem_ok o _ _ h1))]
      cases valsElems cut o vs <;> simp


/-! ### one argument -/

theorem cut_id8 (x : Int) (h : inRange 8 x = true) : longInt x = x := by
  simp only [inRange, Int.reducePow, Nat.reduceSub, decide_eq_true_eq] at h
  exact longInt_id x (by simp only [Int.reducePow]; omega)

theorem cut_id16 (x : Int) (h : inRange 16 x = true) : longInt x = x := by
  simp only [inRange, Int.reducePow, Nat.reduceSub, decide_eq_true_eq] at h
  exact longInt_id x (by simp only [Int.reducePow]; omega)

theorem twos32_cut (x : Int) : twos 32 (longInt x) = twos 32 x := by
  simp only [twos, longInt, Int.reducePow]
  omega

/-- a refusal-or-element for a value whose cut is harmless, 8- and 16-bit elements -/
theorem single_small (w : Nat) (hw : w = 8 ∨ w = 16) (x : Int)
    (h : longInt x = x ∨ inRange w (longInt x) = false) :
    (if inRange w (longInt x) = true then some (twos w (longInt x)) else none) =
      if inRange w x = true then some (twos w x) else none := by
  rcases h with h | h
  · rw [h]
  · have hx : inRange w x = false := by
      cases hr : inRange w x with
      | false => rfl
      | true =>
        have : longInt x = x := by
          rcases hw with rfl | rfl
          · exact cut_id8 x hr
          · exact cut_id16 x hr
        rw [this, hr] at h
        cases h
    simp [h, hx]

/-- **one value**: handed to the callback it gives the manual's element (or the manual's error) -/
theorem single_core (cut : Bool) (o : TIOp) (x : Int) (h : okCut cut o x = true) : valsElems cut o [x] = specElem o.bits x := by
  have key : cbElem o (cutVal cut x) = if inRange o.bits x = true then some (twos o.bits x) else none := by
    cases cut with
    | false =>
      cases o with
      | long =>
        simp only [okCut] at h
        simp only [cbElem, cutVal, TIOp.bits, h, if_true, Bool.false_eq_true, if_false]
      | string | rstring | byte | word => simp only [cbElem, cutVal, Bool.false_eq_true, if_false]
    | true =>
      cases o with
      | long =>
        simp only [okCut] at h
        simp only [cbElem, cutVal, TIOp.bits, h, if_true, twos32_cut]
      | string | rstring | byte =>
        simp only [okCut, Bool.not_true, Bool.false_or, Bool.or_eq_true, decide_eq_true_eq, Bool.not_eq_true'] at h
        exact single_small 8 (Or.inl rfl) x h
      | word =>
        simp only [okCut, Bool.not_true, Bool.false_or, Bool.or_eq_true, decide_eq_true_eq, Bool.not_eq_true'] at h
        exact single_small 16 (Or.inr rfl) x h
  simp only [valsElems, key, specElem]
  cases inRange o.bits x <;> simp

theorem charFold_lt (t : CharMap) (cs : List Byte) (acc : Nat) :
    cs.foldl (fun acc c => acc * 256 + (t.ap c).toNat) acc < (acc + 1) * 256 ^ cs.length := by
  induction cs generalizing acc with
  | nil => simp
  | cons c cs ih =>
    simp only [List.foldl_cons, List.length_cons]
    have h1 := ih (acc * 256 + (t.ap c).toNat)
    have h2 : acc * 256 + (t.ap c).toNat + 1 ≤ (acc + 1) * 256 := by
      have := UInt8.toNat_lt (t.ap c)
      omega
    have h3 := Nat.mul_le_mul_right (256 ^ cs.length) h2
    calc _ < (acc * 256 + (t.ap c).toNat + 1) * 256 ^ cs.length := h1
      _ ≤ (acc + 1) * 256 * 256 ^ cs.length := h3
      _ = (acc + 1) * 256 ^ (cs.length + 1) := by rw [Nat.pow_succ, Nat.mul_assoc, Nat.mul_comm 256]

/-- a character constant of `n` characters is below `256^n` -/
theorem charConst_lt (t : CharMap) (cs : List Byte) (k : Nat) (h : cs.length ≤ k) :
    0 ≤ charConst t cs ∧ charConst t cs < (256 : Int) ^ k := by
  unfold charConst
  have h1 := charFold_lt t cs 0
  have h2 : 256 ^ cs.length ≤ 256 ^ k := Nat.pow_le_pow_right (by decide) h
  refine ⟨Int.natCast_nonneg _, ?_⟩
  have : cs.foldl (fun acc c => acc * 256 + (t.ap c).toNat) 0 < 256 ^ k := by omega
  have h3 := Int.ofNat_lt.mpr this
  rw [Int.natCast_pow] at h3
  exact h3

/-- a character constant no longer than the operand size passes the cut -/
theorem okCut_charConst (cut : Bool) (o : TIOp) (t : CharMap) (cs : List Byte) (h : cs.length ≤ o.chars) :
    okCut cut o (charConst t cs) = true := by
  have hb := charConst_lt t cs o.chars h
  cases o with
  | long =>
    simp only [TIOp.chars, TIOp.bits, Nat.reduceDiv, Int.reducePow] at hb
    simp only [okCut, inRange, Int.reducePow, Nat.reduceSub, decide_eq_true_eq]
    omega
  | string | rstring | byte =>
    simp only [TIOp.chars, TIOp.bits, Nat.reduceDiv, Int.reducePow] at hb
    simp only [okCut, Bool.or_eq_true, decide_eq_true_eq]
    exact Or.inl (Or.inr (longInt_id _ (by simp only [Int.reducePow]; omega)))
  | word =>
    simp only [TIOp.chars, TIOp.bits, Nat.reduceDiv, Int.reducePow] at hb
    simp only [okCut, Bool.or_eq_true, decide_eq_true_eq]
    exact Or.inl (Or.inr (longInt_id _ (by simp only [Int.reducePow]; omega)))

theorem cbElem_byte (cut : Bool) (o : TIOp) (n : Nat) (h : n < 256) : cbElem o (cutVal cut (n : Int)) = some n := by
  have hl : cutVal cut (n : Int) = (n : Int) := by
    unfold cutVal
    split
    · exact longInt_id _ (by simp only [Int.reducePow]; omega)
    · rfl
  have r8 : inRange 8 (n : Int) = true := by
    simp only [inRange, Int.reducePow, Nat.reduceSub, decide_eq_true_eq]; omega
  have r16 : inRange 16 (n : Int) = true := by
    simp only [inRange, Int.reducePow, Nat.reduceSub, decide_eq_true_eq]; omega
  have t8 : twos 8 (n : Int) = n := by simp only [twos, Int.reducePow]; omega
  have t16 : twos 16 (n : Int) = n := by simp only [twos, Int.reducePow]; omega
  have t32 : twos 32 (n : Int) = n := by simp only [twos, Int.reducePow]; omega
  rw [hl]
  cases o with
  | long => simp only [cbElem, t32]
  | word => simp only [cbElem, TIOp.bits, r16, t16, if_true]
  | string | rstring | byte => simp only [cbElem, TIOp.bits, r8, t8, if_true]

/-- the characters of a string: one element each, the translated character -/
theorem valsElems_chars (cut : Bool) (o : TIOp) (f : Byte → Byte) (cs : List Byte) :
    valsElems cut o (cs.map fun c => ((f c).toNat : Int)) = some (cs.map fun c => (f c).toNat) := by
  induction cs with
  | nil => rfl
  | cons c cs ih =>
    simp only [List.map_cons, valsElems, ih, cbElem_byte cut o _ (UInt8.toNat_lt (f c))]

theorem maxLen_chars (o : TIOp) : maxMultCharLen o = o.chars := by cases o <;> rfl

/-- **one argument**: the values `pseudo_store` hands to the callback give the manual's elements -/
theorem arg_elems (cut : Bool) (o : TIOp) (t : List Byte) (ht : t.length = 256) (a : WArg) (ha : tiArgOK cut o a = true) :
    (argVals o t a).bind (valsElems cut o) = specArgE o t a := by
  cases a with
  | flt x => rfl
  | int v =>
    simp only [tiArgOK, Bool.and_eq_true, decide_eq_true_eq] at ha
    simp only [argVals, Option.bind_some, largeInt_id v ha.1, specArgE]
    exact single_core cut o v ha.2
  | str cs =>
    simp only [argVals, Option.bind_some, specArgE]
    have hmap : (cs.map fun c => ((ctt t c).toNat : Int)) = cs.map fun c => ((CharMap.ap t c).toNat : Int) :=
      List.map_congr_left fun c _ => by rw [ctt_eq_ap t ht c]
    rw [hmap]
    exact valsElems_chars cut o (CharMap.ap t) cs
  | chr cs =>
    simp only [tiArgOK, decide_eq_true_eq] at ha
    simp only [argVals, specArgE, maxLen_chars]
    by_cases hl : cs.length ≤ o.chars
    · rw [multiChar_some t ht _ cs hl]
      simp only [Option.bind_some, ha, hl, and_self, if_true]
      exact single_core cut o _ (okCut_charConst cut o t cs hl)
    · rw [multiChar_none t _ cs hl]
      simp only [Option.bind_some, hl, and_false, if_false]
      have hmap : (cs.map fun c => ((ctt t c).toNat : Int)) = cs.map fun c => ((CharMap.ap t c).toNat : Int) :=
        List.map_congr_left fun c _ => by rw [ctt_eq_ap t ht c]
      rw [hmap]
      exact valsElems_chars cut o (CharMap.ap t) cs

theorem tiArg_elems (cut : Bool) (o : TIOp) (t : List Byte) (ht : t.length = 256) (es : List Nat) (hes : ElemsOK o es) (a : WArg)
    (ha : tiArgOK cut o a = true) :
    tiArg cut o t (stOf o es) a = (specArgE o t a).map fun xs => stOf o (es ++ xs) := by
  rw [← arg_elems cut o t ht a ha]
  unfold tiArg
  cases argVals o t a with
  | none => rfl
  | some vs => simp only [Option.bind_some]; exact callbacks_elems cut o es hes vs

theorem specArgE_ok (cut : Bool) (o : TIOp) (t : List Byte) (ht : t.length = 256) (a : WArg) (ha : tiArgOK cut o a = true) (xs : List Nat)
    (h : specArgE o t a = some xs) : ElemsOK o xs := by
  rw [← arg_elems cut o t ht a ha] at h
  cases hv : argVals o t a with
  | none => simp [hv] at h
  | some vs =>
    simp only [hv, Option.bind_some] at h
    exact valsElems_ok cut o vs xs h

/-- **the argument loop** (`forallargs`): from the image of `es`, the arguments add the manual's elements -/
theorem tiArgs_elems (cut : Bool) (o : TIOp) (t : List Byte) (ht : t.length = 256) (as : List WArg) (ha : ∀ a ∈ as, tiArgOK cut o a = true)
    (es : List Nat) (hes : ElemsOK o es) :
    tiArgs cut o t (stOf o es) as = (specElems o t as).map fun xs => stOf o (es ++ xs) := by
  induction as generalizing es with
  | nil => simp [tiArgs, specElems]
  | cons a as ih =>
    have ha1 := ha a (by simp)
    have ha2 : ∀ a' ∈ as, tiArgOK cut o a' = true := fun a' h => ha a' (by simp [h])
    simp only [tiArgs, specElems, tiArg_elems cut o t ht es hes a ha1]
    cases h1 : specArgE o t a with
    | none => simp
    | some x =>
      simp only [Option.map_some]
      rw [ih ha2 (es ++ x) (ElemsOK_append o es x hes (specArgE_ok cut o t ht a ha1 x h1))]
      cases specElems o t as <;> simp

/-- **the statement** -/
theorem decodeTI_eq_spec (cut : Bool) (o : TIOp) (t : List Byte) (ht : t.length = 256) (as : List WArg)
    (ha : ∀ a ∈ as, tiArgOK cut o a = true) : decodeTI cut o t as = specTI o t as := by
  have h := tiArgs_elems cut o t ht as ha [] (by intro y hy; cases hy)
  have h0 : stOf o [] = ([], 0) := by cases o <;> rfl
  rw [h0] at h
  unfold decodeTI specTI
  rw [h]
  cases specElems o t as <;> simp [stOf]


/-! ### the cut hypothesis is exact -/

theorem int_stmt_model (cut : Bool) (o : TIOp) (t : List Byte) (v : Int) :
    decodeTI cut o t [.int v] = (cbElem o (cutVal cut (largeInt v))).map fun e => layout o [e] := by
  have h0 : stOf o [] = ([], 0) := by cases o <;> rfl
  have h := callback_all o [] (by intro y hy; cases hy) (cutVal cut (largeInt v))
  rw [h0] at h
  simp only [decodeTI, tiArgs, tiArg, argVals, callbacks, h]
  cases cbElem o (cutVal cut (largeInt v)) <;> simp [stOf]

theorem int_stmt_spec (o : TIOp) (m : CharMap) (v : Int) :
    specTI o m [.int v] = if inRange o.bits v = true then some (layout o [twos o.bits v]) else none := by
  simp only [specTI, specElems, specArgE, specElem]
  cases inRange o.bits v <;> simp

/-- outside `okCut` the transcription lays something where the manual's range rule says error -/
theorem int_stmt_cut (cut : Bool) (o : TIOp) (t : List Byte) (m : CharMap) (v : Int) (hv : -(2 : Int) ^ 63 ≤ v ∧ v < (2 : Int) ^ 63)
    (h : okCut cut o v = false) : (decodeTI cut o t [.int v]).isSome = true ∧ specTI o m [.int v] = none := by
  rw [int_stmt_model, int_stmt_spec, largeInt_id v hv]
  have small : ∀ w, (w = 8 ∨ w = 16) → ¬ longInt v = v → inRange w (longInt v) = true → inRange w v = false := by
    intro w hw h1 _
    cases hr : inRange w v with
    | false => rfl
    | true =>
      exfalso
      rcases hw with rfl | rfl
      · exact h1 (cut_id8 v hr)
      · exact h1 (cut_id16 v hr)
  cases o with
  | long =>
    simp only [okCut] at h
    simp [cbElem, TIOp.bits, h]
  | string | rstring | byte =>
    simp only [okCut, Bool.or_eq_false_iff, decide_eq_false_iff_not, Bool.not_eq_false', Bool.not_eq_eq_eq_not, Bool.not_false] at h
    obtain ⟨⟨hc, h1⟩, h2⟩ := h
    subst hc
    have h2' : inRange 8 (longInt v) = true := h2
    simp [cbElem, cutVal, TIOp.bits, h2', small 8 (Or.inl rfl) h1 h2']
  | word =>
    simp only [okCut, Bool.or_eq_false_iff, decide_eq_false_iff_not, Bool.not_eq_false', Bool.not_eq_eq_eq_not, Bool.not_false] at h
    obtain ⟨⟨hc, h1⟩, h2⟩ := h
    subst hc
    have h2' : inRange 16 (longInt v) = true := h2
    simp [cbElem, cutVal, TIOp.bits, h2', small 16 (Or.inr rfl) h1 h2']

/-- a 32-bit value is never cut -/
theorem okCut_of_32bit (cut : Bool) (o : TIOp) (v : Int) (h : -(2 : Int) ^ 31 ≤ v ∧ v < (2 : Int) ^ 31) : okCut cut o v = true := by
  cases o with
  | long =>
    simp only [Int.reducePow] at h
    simp only [okCut, inRange, Int.reducePow, Nat.reduceSub, decide_eq_true_eq]
    omega
  | string | rstring | byte | word =>
    simp only [okCut, Bool.or_eq_true, decide_eq_true_eq]
    exact Or.inl (Or.inr (longInt_id v h))


theorem specElems_append (o : TIOp) (m : CharMap) (as bs : List WArg) :
    specElems o m (as ++ bs) =
      match specElems o m as, specElems o m bs with
      | some x, some y => some (x ++ y)
      | _, _ => none := by
  induction as with
  | nil => simp only [List.nil_append, specElems]; cases specElems o m bs <;> simp
  | cons a as ih =>
    simp only [List.cons_append, specElems, ih]
    cases specArgE o m a <;> cases specElems o m as <;> cases specElems o m bs <;> simp


/-! ## the slot: statements at consecutive addresses, 16-bit units as bytes of the code file -/

theorem runT_cons (cut : Bool) (d : DCtx) (hm : d.mask = 0xffff) (lg : Nat) (turn : Bool) (pc : Nat) (st : TIStmt) (rest : List TIStmt) :
    modelRunT cut d 2 lg turn pc (st :: rest) =
      match modelStmt cut d st with
      | none => none
      | some cells =>
        match modelRunT cut d 2 lg turn (pc + cells.length) rest with
        | none => none
        | some (r, pcEnd) => some (cellsAt (pc * 2) (dataBytes 0xffff 2 lg turn cells) ++ r, pcEnd) := by
  cases st with
  | data as =>
    simp only [modelRunT, hm]
    cases DataTIModel.modelStmt cut d (TIStmt.data as) with
    | none => rfl
    | some cells => cases modelRunT cut d 2 lg turn (pc + cells.length) rest <;> rfl
  | ti o as =>
    simp only [modelRunT]
    cases DataTIModel.modelStmt cut d (TIStmt.ti o as) with
    | none => rfl
    | some cells => cases modelRunT cut d 2 lg turn (pc + cells.length) rest <;> rfl

/-- **the slot**: when every statement is laid as the manual says, the bytes handed to the code file are the manual's
units at the manual's addresses, each unit as its two bytes -/
theorem run_units (cut : Bool) (d : DCtx) (hm : d.mask = 0xffff) (c : WCfg) (lg : Nat) (turn : Bool) (stmts : List TIStmt)
    (h : ∀ st ∈ stmts, modelStmt cut d st = specStmt c st) (pc : Nat) :
    modelRunT cut d 2 lg turn pc stmts =
      (specRunT c pc stmts).map fun r => (unitCells (swapOf lg turn) r.1, r.2) := by
  induction stmts generalizing pc with
  | nil => rfl
  | cons st rest ih =>
    have hst := h st (by simp)
    have hrest : ∀ s ∈ rest, modelStmt cut d s = specStmt c s := fun s hs => h s (by simp [hs])
    rw [runT_cons cut d hm, hst]
    simp only [specRunT]
    cases hs : specStmt c st with
    | none => rfl
    | some ws =>
      simp only [ih hrest (pc + ws.length)]
      rw [dataBytes16 0xffff (by decide) (by decide), cells_units]
      cases specRunT c (pc + ws.length) rest with
      | none => rfl
      | some r => simp only [Option.map_some, unitCells_append]


/-- `DATA` of the same targets (`DecodeDATA_TI`: `Int16, Int16`): model = spec, whole statement -/
theorem data16_eq_spec (t : List Byte) (ht : t.length = 256) (as : List WArg) (ha : ∀ a ∈ as, ArgOK 16 false a) :
    decodeDATA ⟨Generated.itInt16, 2 ^ 16 - 1, (16 + 7) / 8, t⟩ as = specData ⟨16, .twoPerWord, t⟩ as := by
  rw [decode_join, spec_join]
  congr 1
  apply List.map_congr_left
  intro a hmem
  rw [decode_single, spec_single]
  exact arg_cfg Generated.itInt16 16 .twoPerWord false (by decide) t ht a (ha a hmem)

theorem dataArgOK16_ok (a : WArg) (h : dataArgOK16 a = true) : ArgOK 16 false a := by
  cases a with
  | int v =>
    simp only [dataArgOK16, decide_eq_true_eq] at h
    exact ⟨h.1, h.2, fun hf => by cases hf⟩
  | chr cs =>
    simp only [dataArgOK16, decide_eq_true_eq] at h
    exact ⟨h, by omega⟩
  | str cs => trivial
  | flt x => trivial

/-- statements the slot theorem is stated for (`stmtOKb`, `Model/DataTI.lean`, is the decidable form the driver evaluates) -/
def StmtOK (cut : Bool) : TIStmt → Prop
  | .data as => ∀ a ∈ as, ArgOK 16 false a
  | .ti o as => ∀ a ∈ as, tiArgOK cut o a = true

theorem stmtOKb_ok (cut : Bool) (st : TIStmt) (h : stmtOKb cut st = true) : StmtOK cut st := by
  cases st with
  | data as =>
    intro a ha
    simp only [stmtOKb, List.all_eq_true] at h
    exact dataArgOK16_ok a (h a ha)
  | ti o as =>
    intro a ha
    simp only [stmtOKb, List.all_eq_true] at h
    exact h a ha

theorem stmt_eq_spec (cut : Bool) (t : List Byte) (ht : t.length = 256) (st : TIStmt) (h : StmtOK cut st) :
    modelStmt cut ⟨Generated.itInt16, 2 ^ 16 - 1, (16 + 7) / 8, t⟩ st = specStmt ⟨16, .twoPerWord, t⟩ st := by
  cases st with
  | data as => exact data16_eq_spec t ht as h
  | ti o as => exact decodeTI_eq_spec cut o t ht as h

theorem slot_eq_spec (cut : Bool) (t : List Byte) (ht : t.length = 256) (lg : Nat) (turn : Bool) (stmts : List TIStmt)
    (h : ∀ st ∈ stmts, StmtOK cut st) (pc : Nat) :
    (mkCtx Generated.itInt16 t).bind (fun d => modelRunT cut d 2 lg turn pc stmts) =
      (specRunT ⟨16, .twoPerWord, t⟩ pc stmts).map fun r => (unitCells (swapOf lg turn) r.1, r.2) := by
  rw [ctx_of Generated.itInt16 16 .twoPerWord false (by decide) t]
  simp only [Option.bind_some]
  exact run_units cut _ rfl _ lg turn stmts (fun st hst => stmt_eq_spec cut t ht st (h st hst)) pc

/-- integers that are 32-bit values, single-quoted strings that are not empty -/
def tiArg32 : WArg → Bool
  | .int v => decide (-(2 : Int) ^ 31 ≤ v ∧ v < (2 : Int) ^ 31)
  | .chr cs => decide (1 ≤ cs.length)
  | _ => true

/-- integers that are 64-bit values, single-quoted strings that are not empty -/
def tiArg64 : WArg → Bool
  | .int v => decide (-(2 : Int) ^ 63 ≤ v ∧ v < (2 : Int) ^ 63)
  | .chr cs => decide (1 ≤ cs.length)
  | _ => true

end AslModel.DataTILemmas
