import AslModel.Model.PosFiles
import AslModel.Lemmas.FileOut
/-! Helper lemmas of C20, part "files" (`Props/C20_Files.lean`): what `deliver` leaves in the file it writes to, the handle
discipline of `PosFiles.run`, and the link `PosFiles.run true` = `FileOut.assembleFiles`. -/
namespace AslModel.PosFiles
open AslModel.FileOut

/-- delivery through a handle open on `ch`: the handle stays, the messages are appended -/
theorem deliver_open (ch : Chan) (msgs : List Msg) : ∀ st : List Msg,
    (deliver ch (some ch) msgs).1 = some ch ∧ content ch (some st) (deliver ch (some ch) msgs).2 = some (st ++ msgs) := by
  induction msgs with
  | nil => intro st; simp [deliver, content]
  | cons m r ih =>
    intro st
    obtain ⟨h1, h2⟩ := ih (st ++ [m])
    refine ⟨by simpa [deliver] using h1, ?_⟩
    simp only [deliver, content, if_true, Option.getD_some]
    rw [h2]; simp

/-- delivery through a closed handle into a file that does not hold anything: nothing happens without messages; the first message
opens (creates, truncates) the file -/
theorem deliver_closed (ch : Chan) (m : Msg) (r : List Msg) (st : Option (List Msg)) :
    (deliver ch none (m :: r)).1 = some ch ∧ content ch st (deliver ch none (m :: r)).2 = some (m :: r) := by
  obtain ⟨h1, h2⟩ := deliver_open ch r [m]
  refine ⟨by simpa [deliver] using h1, ?_⟩
  simp only [deliver, content, if_true, Option.getD_some, List.nil_append]
  rw [h2]; simp

theorem headEvs_shared (o : Opts) (hd : o.dest ≠ .perFile) (idx : Nat) : headEvs o idx = [] := by
  simp [headEvs, hd]

theorem afterFile_guarded_shared (o : Opts) (hd : o.dest ≠ .perFile) (h : Option Chan) : afterFile true o h = h := by
  simp [afterFile, hd]

/-- the invariant of a run with one destination: either the handle is closed and nothing was written, or it is open on the
destination, which holds everything written so far -/
def Inv (ch : Chan) (h : Option Chan) (st : Option (List Msg)) : Prop :=
  (h = none ∧ st = none) ∨ (h = some ch ∧ st.isSome = true)

/-- one destination, guarded close: the destination holds, behind what it held, the messages of all sources in order -/
theorem run_shared_content (o : Opts) (hd : o.dest ≠ .perFile) (srcs : List (Nat × List Msg)) :
    ∀ (h : Option Chan) (st : Option (List Msg)), Inv (errName o 0) h st →
      (content (errName o 0) st (run true o h srcs)).getD [] = st.getD [] ++ srcs.flatMap (·.2) := by
  induction srcs with
  | nil => intro h st _; simp [run, content]
  | cons s rest ih =>
    intro h st hinv
    obtain ⟨idx, msgs⟩ := s
    simp only [run, headEvs_shared o hd, List.nil_append, content_append, afterFile_guarded_shared o hd,
      errName_shared o hd idx 0, List.flatMap_cons]
    rcases hinv with ⟨hh, hs⟩ | ⟨hh, hs⟩
    · subst hh hs
      cases msgs with
      | nil =>
        have := ih none none (Or.inl ⟨rfl, rfl⟩)
        simpa [deliver, content] using this
      | cons m r =>
        obtain ⟨h1, h2⟩ := deliver_closed (errName o 0) m r none
        rw [h1, h2, ih (some (errName o 0)) (some (m :: r)) (Or.inr ⟨rfl, rfl⟩)]
        simp
    · subst hh
      cases st with
      | none => simp at hs
      | some l =>
        obtain ⟨h1, h2⟩ := deliver_open (errName o 0) msgs l
        rw [h1, h2, ih (some (errName o 0)) (some (l ++ msgs)) (Or.inr ⟨rfl, rfl⟩)]
        simp

/-! ## one log per source -/

theorem afterFile_perFile (g : Bool) (o : Opts) (hd : o.dest = .perFile) (hc : o.closePerFile = true) (h : Option Chan) :
    afterFile g o h = none := by
  simp [afterFile, hd, hc]

/-- the events of one source that finds the handle closed -/
def block (o : Opts) (s : Nat × List Msg) : List Ev := headEvs o s.1 ++ (deliver (errName o s.1) none s.2).2

theorem run_perFile (g : Bool) (o : Opts) (hd : o.dest = .perFile) (hc : o.closePerFile = true) (srcs : List (Nat × List Msg)) :
    run g o none srcs = srcs.flatMap (block o) := by
  induction srcs with
  | nil => rfl
  | cons s rest ih =>
    obtain ⟨idx, msgs⟩ := s
    simp only [run, afterFile_perFile g o hd hc, ih, List.flatMap_cons, block, List.append_assoc]

theorem block_chan (o : Opts) (hd : o.dest = .perFile) (s : Nat × List Msg) : ∀ e ∈ block o s, e.chan = .log s.1 := by
  intro e he
  unfold block at he
  rw [errName_perFile o hd] at he
  rcases List.mem_append.mp he with he | he
  · simp [headEvs, hd] at he
    subst he
    rfl
  · exact deliver_chan (.log s.1) none (Or.inl rfl) _ e he

/-- what the own block of a source leaves in its log: nothing (the log does not exist) or exactly its messages -/
theorem block_content (o : Opts) (hd : o.dest = .perFile) (s : Nat × List Msg) :
    content (.log s.1) none (block o s) = if s.2 = [] then none else some s.2 := by
  obtain ⟨idx, msgs⟩ := s
  simp only [block, headEvs, hd, errName_perFile o hd, content_append]
  cases msgs with
  | nil => simp [deliver, content]
  | cons m r =>
    have h2 := (deliver_closed (.log idx) m r (content (.log idx) none [.unlink (.log idx)])).2
    simpa using h2

end AslModel.PosFiles

namespace AslModel.PosFiles
open AslModel.FileOut

/-! ## numbering of the sources, payload of the messages -/

theorem sources_keys (kinds : List (List Bool)) : ∀ n, (sources n kinds).map (·.1) = List.range' n kinds.length := by
  induction kinds with
  | nil => intro n; rfl
  | cons k r ih => intro n; simp [sources, ih, List.range'_succ]

theorem sources_mem (kinds : List (List Bool)) : ∀ n i, (hi : i < kinds.length) →
    (n + i, msgsOf (n + i) kinds[i]) ∈ sources n kinds := by
  induction kinds with
  | nil => intro n i hi; simp at hi
  | cons k r ih =>
    intro n i hi
    cases i with
    | zero => simp [sources]
    | succ j =>
      have := ih (n + 1) j (by simpa using hi)
      simp only [sources, List.mem_cons, List.getElem_cons_succ]
      right
      have e : n + (j + 1) = n + 1 + j := by omega
      rw [e]; exact this

theorem range_filterMap_getElem? {α : Type} (l : List α) : (List.range l.length).filterMap (fun k => l[k]?) = l := by
  induction l with
  | nil => rfl
  | cons a r ih =>
    rw [List.length_cons, List.range_succ_eq_map, List.filterMap_cons]
    simp only [List.getElem?_cons_zero, List.filterMap_map]
    simpa [Function.comp_def] using ih

/-- the payloads of the messages of source `n` are its diagnostics -/
theorem msgsOf_payload {α : Type} (per : List (List α)) (n : Nat) (l : List α) (hl : per.getD n [] = l) (ks : List Bool)
    (hk : ks.length = l.length) : (msgsOf n ks).filterMap (payload per) = l := by
  unfold msgsOf
  rw [List.filterMap_map, hk]
  have : (payload per ∘ fun k => Msg.m n k (!ks.getD k false)) = fun k => l[k]? := by
    funext k; subst hl; simp [payload]
  rw [this]
  exact range_filterMap_getElem? l

/-- … and so for all sources of a run -/
theorem sources_payload {α : Type} (w : α → Bool) (rest : List (List α)) : ∀ pre : List (List α),
    ((sources pre.length (rest.map (·.map w))).flatMap (·.2)).filterMap (payload (pre ++ rest)) = rest.flatten := by
  induction rest with
  | nil => intro pre; simp [sources]
  | cons l r ih =>
    intro pre
    have h := ih (pre ++ [l])
    simp only [List.length_append, List.length_cons, List.length_nil, Nat.zero_add, List.append_assoc, List.cons_append,
      List.nil_append] at h
    simp only [List.map_cons, sources, List.flatMap_cons, List.filterMap_append, List.flatten_cons, h]
    congr 1
    apply msgsOf_payload
    · simp [List.getD_eq_getElem?_getD]
    · simp

end AslModel.PosFiles

namespace AslModel.PosFiles
open AslModel.FileOut

/-! ## the link: `run true` is the error channel of `FileOut.assembleFiles` -/

/-- the messages of a source (statement list of `Model/FileOut.lean`) assembled alone -/
def msgsAlone (o : Opts) (s : Source) : List Msg := (passLoop o s.1 s.2 16 0 (startState boot)).2.msgs

theorem assembleFile_eq_finish (o : Opts) (hj : o.resetJmpPerPass = true) (c : Carry) (hd : c.dead = false) (s : Source) :
    assembleFile o c s = finish o s.1 c.errFile (passLoop o s.1 s.2 16 0 (startState boot)) := by
  unfold assembleFile
  simp only [hd, Bool.false_eq_true, if_false]
  rw [passLoop_start o hj c boot]

theorem finish_not_stopped (o : Opts) (idx : Nat) (h : Option Chan) (r : Nat × PSt) (hs : (finish o idx h r).1.status ≠ 3) :
    r.2.stopped = false := by
  unfold finish at hs
  cases hx : r.2.stopped with
  | false => rfl
  | true => simp [hx] at hs

theorem finish_handle (o : Opts) (idx : Nat) (h : Option Chan) (r : Nat × PSt) (hs : r.2.stopped = false) :
    (finish o idx h r).2.errFile = afterFile true o (deliver (errName o idx) h r.2.msgs).1 ∧ (finish o idx h r).2.dead = false := by
  unfold finish afterFile
  simp only [hs, Bool.false_eq_true, if_false]
  cases o.closePerFile <;> cases (o.dest == ErrDest.perFile) <;> simp

/-- **Link.**  For every list of sources none of which ends the process, from every live state: the events `FileOut.assembleFiles`
produces are those of `run true` on the messages the sources have when assembled alone. -/
theorem run_eq_assembleFiles (o : Opts) (hj : o.resetJmpPerPass = true) (srcs : List Source) :
    ∀ c : Carry, c.dead = false → (∀ s ∈ srcs, (assembleFile o boot s).1.status ≠ 3) →
      allEvs (assembleFiles o c srcs).1 = run true o c.errFile (srcs.map fun s => (s.1, msgsAlone o s)) := by
  induction srcs with
  | nil => intro c _ _; rfl
  | cons s rest ih =>
    intro c hd hnf
    have e1 := assembleFile_eq_finish o hj c hd s
    have e0 := assembleFile_eq_finish o hj boot rfl s
    have hs0 : (finish o s.1 boot.errFile (passLoop o s.1 s.2 16 0 (startState boot))).1.status ≠ 3 := by
      rw [← e0]; exact hnf s (by simp)
    have hns := finish_not_stopped o _ _ _ hs0
    obtain ⟨hh, hdd⟩ := finish_handle o s.1 c.errFile _ hns
    have h2 := ih (assembleFile o c s).2 (by rw [e1]; exact hdd) (fun t ht => hnf t (by simp [ht]))
    simp only [assembleFiles, FilesSpec.runFiles, allEvs, List.flatMap_cons, List.map_cons, run] at h2 ⊢
    rw [h2, e1, hh, finish_evs]
    simp [msgsAlone, List.append_assoc]

end AslModel.PosFiles
