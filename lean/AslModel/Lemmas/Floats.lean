import AslModel.Lemmas.Data
import AslModel.Model.Floats
import AslModel.Spec.Floats
/-! Helper lemmas for the float part of C09 (`Props/C09_Floats.lean`). -/
namespace AslModel.FloatLemmas
open AslModel.Data AslModel.DataLemmas AslModel.Floats AslModel.FloatModel AslModel.PFile

/-! ## powers of two -/

theorem two_pow_pos' (k : Nat) : 0 < 2 ^ k := Nat.two_pow_pos k

theorem pow_le_of_le {a b : Nat} (h : a ≤ b) : 2 ^ a ≤ 2 ^ b := Nat.pow_le_pow_right (by omega) h

theorem pow_lt_of_lt {a b : Nat} (h : a < b) : 2 ^ a < 2 ^ b := Nat.pow_lt_pow_right (by omega) h

theorem pow_succ' (k : Nat) : 2 ^ (k + 1) = 2 * 2 ^ k := by rw [Nat.pow_succ, Nat.mul_comm]

/-! ## rounding -/

/-- a value below half of the rounding unit rounds to zero -/
theorem rneDiv_small (m k : Nat) (hk : 0 < k) (h : m < 2 ^ (k - 1)) : rneDiv m k = 0 := by
  unfold rneDiv
  have hk0 : k ≠ 0 := by omega
  have hlt : 2 ^ (k - 1) < 2 ^ k := pow_lt_of_lt (by omega)
  have hq : m / 2 ^ k = 0 := Nat.div_eq_of_lt (by omega)
  have hr : m % 2 ^ k = m := Nat.mod_eq_of_lt (by omega)
  simp only [hk0, if_false, hq, hr]
  have : ¬ (m > 2 ^ (k - 1) ∨ m = 2 ^ (k - 1) ∧ 0 % 2 = 1) := by omega
  simp only [this, if_false]

/-- **rounding with a sticky flag**: nearest-even rounding of `sig` at bit `a + c` can be computed from
`M = sig / 2^a` and the single bit of information "`sig % 2^a ≠ 0`" -/
theorem rneDiv_split (sig a c : Nat) (hc : 0 < c) :
    rneDiv sig (a + c) =
      if sig / 2 ^ a % 2 ^ c > 2 ^ (c - 1) ∨
          (sig / 2 ^ a % 2 ^ c = 2 ^ (c - 1) ∧ (sig % 2 ^ a ≠ 0 ∨ sig / 2 ^ a / 2 ^ c % 2 = 1))
      then sig / 2 ^ a / 2 ^ c + 1 else sig / 2 ^ a / 2 ^ c := by
  unfold rneDiv
  have hk0 : a + c ≠ 0 := by omega
  simp only [hk0, if_false]
  have hq : sig / 2 ^ (a + c) = sig / 2 ^ a / 2 ^ c := by
    rw [Nat.pow_add, Nat.div_div_eq_div_mul]
  have hr : sig % 2 ^ (a + c) = sig % 2 ^ a + 2 ^ a * (sig / 2 ^ a % 2 ^ c) := by
    rw [Nat.pow_add, Nat.mod_mul]
  have hh : 2 ^ (a + c - 1) = 2 ^ a * 2 ^ (c - 1) := by
    rw [← Nat.pow_add]; congr 1; omega
  rw [hq, hr, hh]
  generalize sig / 2 ^ a / 2 ^ c = q
  generalize hrr : sig / 2 ^ a % 2 ^ c = r
  generalize hH : 2 ^ (c - 1) = h
  have hA : 0 < 2 ^ a := two_pow_pos' a
  have hlo : sig % 2 ^ a < 2 ^ a := Nat.mod_lt _ hA
  generalize sig % 2 ^ a = lo at *
  generalize 2 ^ a = A at *
  -- compare lo + A*r with A*h
  rcases Nat.lt_trichotomy r h with hlt | heq | hgt
  · have h1 : A * (r + 1) ≤ A * h := Nat.mul_le_mul_left A hlt
    rw [Nat.mul_succ] at h1
    rw [if_neg (by omega), if_neg (by omega)]
  · subst heq
    by_cases hl : lo = 0
    · subst hl
      by_cases hq2 : q % 2 = 1
      · rw [if_pos (by omega), if_pos (by omega)]
      · rw [if_neg (by omega), if_neg (by omega)]
    · rw [if_pos (by omega), if_pos (by omega)]
  · have h1 : A * (h + 1) ≤ A * r := Nat.mul_le_mul_left A hgt
    rw [Nat.mul_succ] at h1
    rw [if_pos (by omega), if_pos (by omega)]

/-! ## `Double_2_ieee2` -/

theorem h2Loop_ge (f : Nat) (e : Int) (m : Nat) (h : -15 ≤ e) : h2Loop f e m = (e, m) := by
  cases f with
  | zero => rfl
  | succ f => simp [h2Loop]; intro h'; omega

/-- the result of nearest-even rounding at bit 18 from `M` and a sticky flag -/
def rnd18 (M f : Nat) : Nat :=
  if M % 2 ^ 18 > 2 ^ 17 ∨ (M % 2 ^ 18 = 2 ^ 17 ∧ (f ≠ 0 ∨ M / 2 ^ 18 % 2 = 1)) then M / 2 ^ 18 + 1 else M / 2 ^ 18

theorem h2RoundUp_iff (M f : Nat) :
    h2RoundUp M f = decide (M % 2 ^ 18 > 2 ^ 17 ∨ (M % 2 ^ 18 = 2 ^ 17 ∧ (f ≠ 0 ∨ M / 2 ^ 18 % 2 = 1))) := by
  unfold h2RoundUp
  by_cases h1 : M / 0x20000 % 2 = 1
  · simp only [h1, if_true]
    by_cases h2 : M % 0x20000 ≠ 0 ∨ f ≠ 0
    · simp only [h2, if_true]
      symm; rw [decide_eq_true_iff]; omega
    · simp only [h2, if_false]
      apply decide_eq_decide.mpr
      omega
  · simp only [h1, if_false]
    symm; rw [decide_eq_false_iff_not]; omega

theorem h2_den (s M f : Nat) (hs : s < 2) (hM : M < 2 ^ 28) :
    h2Pack true s (h2Rounded true M f (-15)).1 (h2Rounded true M f (-15)).2 = some (s * 2 ^ 15 + rnd18 M f) := by
  unfold h2Rounded rnd18
  rw [h2RoundUp_iff]
  by_cases hr : M % 2 ^ 18 > 2 ^ 17 ∨ (M % 2 ^ 18 = 2 ^ 17 ∧ (f ≠ 0 ∨ M / 2 ^ 18 % 2 = 1))
  · simp only [hr, decide_true, if_true]
    have hc : ¬ ((M + (0x40000 - M % 0x40000)) / 0x20000000 % 2 = 1) := by omega
    simp only [hc, if_false]
    by_cases hb : (M + (0x40000 - M % 0x40000)) / 0x10000000 % 2 = 1
    · simp only [hb, and_self, if_true]
      unfold h2Pack
      rw [h2Loop_ge _ _ _ (by omega)]
      simp
      omega
    · simp only [hb, and_false, if_false]
      unfold h2Pack
      rw [h2Loop_ge _ _ _ (by omega)]
      simp
      omega
  · simp only [hr, decide_false, if_false, Bool.false_eq_true]
    unfold h2Pack
    rw [h2Loop_ge _ _ _ (by omega)]
    simp
    omega


/-- normal results: biased exponent field and 10 mantissa bits, or a carry into the next binade -/
theorem h2_norm (s M f : Nat) (e : Int) (hs : s < 2) (hM1 : 2 ^ 28 ≤ M) (hM2 : M < 2 ^ 29) (he1 : -14 ≤ e) (he2 : e ≤ 15) :
    h2Pack false s (h2Rounded false M f e).1 (h2Rounded false M f e).2 =
      if rnd18 M f = 2 ^ 11 then (if e = 15 then none else some (s * 2 ^ 15 + (e + 16).toNat * 2 ^ 10))
      else some (s * 2 ^ 15 + (e + 15).toNat * 2 ^ 10 + (rnd18 M f - 2 ^ 10)) := by
  unfold h2Rounded rnd18
  rw [h2RoundUp_iff]
  by_cases hr : M % 2 ^ 18 > 2 ^ 17 ∨ (M % 2 ^ 18 = 2 ^ 17 ∧ (f ≠ 0 ∨ M / 2 ^ 18 % 2 = 1))
  · simp only [hr, decide_true, if_true, Bool.false_eq_true, false_and, if_false]
    by_cases hc : (M + (0x40000 - M % 0x40000)) / 0x20000000 % 2 = 1
    · simp only [hc, if_true]
      have h11 : M / 2 ^ 18 + 1 = 2 ^ 11 := by omega
      simp only [h11, if_true]
      unfold h2Pack
      by_cases h15 : e = 15
      · subst h15; simp
      · have : ¬ (e + 1 > 15) := by omega
        simp only [this, h15, if_false]
        rw [h2Loop_ge _ _ _ (by omega)]
        have h1 : ¬ (e + 1 < -15) := by omega
        have h2 : ¬ (e + 1 = -15) := by omega
        simp only [h1, h2, if_false, false_and]
        refine congrArg some ?_
        have : (e + 1 + 15).toNat = (e + 16).toNat := by omega
        rw [this]
        generalize (e + 16).toNat = n at *
        have : n ≤ 31 := by omega
        omega
    · simp only [hc, if_false]
      have h11 : ¬ (M / 2 ^ 18 + 1 = 2 ^ 11) := by omega
      simp only [h11, if_false]
      unfold h2Pack
      have : ¬ (e > 15) := by omega
      simp only [this, if_false]
      rw [h2Loop_ge _ _ _ (by omega)]
      have h1 : ¬ (e < -15) := by omega
      have h2 : ¬ (e = -15) := by omega
      simp only [h1, h2, if_false, false_and]
      refine congrArg some ?_
      generalize hn : (e + 15).toNat = n
      have : n ≤ 30 := by omega
      omega
  · simp only [hr, decide_false, if_false, Bool.false_eq_true]
    have h11 : ¬ (M / 2 ^ 18 = 2 ^ 11) := by omega
    simp only [h11, if_false]
    unfold h2Pack
    have : ¬ (e > 15) := by omega
    simp only [this, if_false]
    rw [h2Loop_ge _ _ _ (by omega)]
    have h1 : ¬ (e < -15) := by omega
    have h2 : ¬ (e = -15) := by omega
    simp only [h1, h2, if_false, false_and]
    refine congrArg some ?_
    generalize hn : (e + 15).toNat = n
    have : n ≤ 30 := by omega
    omega

/-- overrange: the exponent never decreases in the rounding step -/
theorem h2_over (s M f : Nat) (e : Int) (he : 15 < e) :
    h2Pack false s (h2Rounded false M f e).1 (h2Rounded false M f e).2 = none := by
  unfold h2Rounded
  have key : ∀ x : Int, 15 < x → ∀ m, h2Pack false s m x = none := by
    intro x hx m; unfold h2Pack; simp [hx]
  split
  · simp only [Bool.false_eq_true, false_and, if_false]
    split
    · exact key _ (by simp; omega) _
    · exact key _ he _
  · exact key _ he _


/-! ## magnitudes -/

theorem ltMag_true (r : Nat) (q L : Int) (a : Nat) (hr : r < 2 ^ a) (h : q + a ≤ L) : ltMag r q 1 L = true := by
  unfold ltMag
  rw [decide_eq_true_iff]
  have hq : q ≤ L := by omega
  have e1 : (q - min q L).toNat = 0 := by omega
  rw [e1, Nat.pow_zero, Nat.mul_one, Nat.one_mul]
  have : 2 ^ a ≤ 2 ^ (L - min q L).toNat := pow_le_of_le (by omega)
  omega

theorem ltMag_false (r : Nat) (q L : Int) (a : Nat) (hr : 2 ^ a ≤ r) (h : L ≤ q + a) : ltMag r q 1 L = false := by
  unfold ltMag
  rw [decide_eq_false_iff_not]
  by_cases hq : q ≤ L
  · have e1 : (q - min q L).toNat = 0 := by omega
    rw [e1, Nat.pow_zero, Nat.mul_one, Nat.one_mul]
    have : 2 ^ (L - min q L).toNat ≤ 2 ^ a := pow_le_of_le (by omega)
    omega
  · have e1 : (L - min q L).toNat = 0 := by omega
    rw [e1, Nat.pow_zero, Nat.mul_one]
    have h1 : 0 < 2 ^ a := two_pow_pos' a
    have h2 : 0 < 2 ^ (q - min q L).toNat := two_pow_pos' _
    have : 1 ≤ r * 2 ^ (q - min q L).toNat := Nat.mul_pos (by omega) h2
    omega

theorem sameMag_refl (m : Nat) (e : Int) : sameMag m e m e = true := by
  unfold sameMag; simp

/-- `m·2^(q+k) = (m·2^k)·2^q` -/
theorem sameMag_shift (m : Nat) (q : Int) (k : Nat) : sameMag m (q + k) (m * 2 ^ k) q = true := by
  unfold sameMag
  have e1 : (q + k - min (q + k) q).toNat = k := by omega
  have e2 : (q - min (q + k) q).toNat = 0 := by omega
  rw [e1, e2]; simp

theorem sameMag_shift' (m : Nat) (q : Int) (k : Nat) : sameMag (m * 2 ^ k) q m (q + k) = true := by
  unfold sameMag
  have e1 : (q + k - min q (q + k)).toNat = k := by omega
  have e2 : (q - min q (q + k)).toNat = 0 := by omega
  rw [e1, e2]; simp

/-! ## bit length -/

theorem bitLen_eq (m k : Nat) (h1 : 2 ^ k ≤ m) (h2 : m < 2 ^ (k + 1)) : bitLen m = k + 1 := by
  unfold bitLen
  have h0 : m ≠ 0 := by have := two_pow_pos' k; omega
  simp only [h0, if_false]
  rw [(Nat.log2_eq_iff h0).mpr ⟨h1, h2⟩]

theorem bitLen_le (m k : Nat) (h : m < 2 ^ k) : bitLen m ≤ k := by
  unfold bitLen
  by_cases h0 : m = 0
  · simp [h0]
  · simp only [h0, if_false]
    have := (Nat.log2_lt h0).mpr h
    omega

/-! ## the double -/

theorem dbl_fields (s E m : Nat) (hs : s < 2) (hE : E < 2048) (hm : m < 2 ^ 52) :
    (s * 2 ^ 63 + E * 2 ^ 52 + m) / 2 ^ 63 % 2 = s ∧ (s * 2 ^ 63 + E * 2 ^ 52 + m) / 2 ^ 52 % 2048 = E ∧
    (s * 2 ^ 63 + E * 2 ^ 52 + m) % 2 ^ 52 = m := by
  refine ⟨by omega, by omega, by omega⟩

theorem decodeDouble_eq (s E m : Nat) (hs : s < 2) (hE : E < 2048) (hm : m < 2 ^ 52) :
    decodeDouble (s * 2 ^ 63 + E * 2 ^ 52 + m) =
      if E = 2047 then (if m = 0 then .inf (s == 1) else .nan)
      else if E = 0 then .fin (s == 1) m (-1074) else .fin (s == 1) (2 ^ 52 + m) ((E : Int) - 1075) := by
  obtain ⟨h1, h2, h3⟩ := dbl_fields s E m hs hE hm
  unfold decodeDouble decodeIEEE
  simp only [Nat.reduceAdd, Nat.reduceSub, Nat.reducePow] at *
  simp only [h1, h2, h3]
  split
  · rfl
  · split
    · rfl
    · congr 1; omega


theorem dissect_eq (s E m : Nat) (hs : s < 2) (hE : E < 2048) (hm : m < 2 ^ 52) :
    dissect (s * 2 ^ 63 + E * 2 ^ 52 + m) = ⟨s, (E : Int) - 1023, m / 2 ^ 24, m % 2 ^ 24⟩ := by
  unfold dissect
  have h1 : (s * 2 ^ 63 + E * 2 ^ 52 + m) / 2 ^ 63 % 2 = s := by omega
  have h2 : (s * 2 ^ 63 + E * 2 ^ 52 + m) / 2 ^ 52 % 2048 = E := by omega
  have h3 : (s * 2 ^ 63 + E * 2 ^ 52 + m) / 2 ^ 24 % 2 ^ 28 = m / 2 ^ 24 := by omega
  have h4 : (s * 2 ^ 63 + E * 2 ^ 52 + m) % 2 ^ 24 = m % 2 ^ 24 := by omega
  rw [h1, h2, h3, h4]

theorem decodeHalf_eq (s ef t : Nat) (hs : s < 2) (he : ef < 32) (ht : t < 1024) :
    decodeHalf (s * 2 ^ 15 + ef * 2 ^ 10 + t) =
      if ef = 31 then (if t = 0 then .inf (s == 1) else .nan)
      else if ef = 0 then .fin (s == 1) t (-24) else .fin (s == 1) (1024 + t) ((ef : Int) - 25) := by
  have h1 : (s * 2 ^ 15 + ef * 2 ^ 10 + t) / 2 ^ 15 % 2 = s := by omega
  have h2 : (s * 2 ^ 15 + ef * 2 ^ 10 + t) / 2 ^ 10 % 32 = ef := by omega
  have h3 : (s * 2 ^ 15 + ef * 2 ^ 10 + t) % 2 ^ 10 = t := by omega
  unfold decodeHalf decodeIEEE
  simp only [Nat.reduceAdd, Nat.reduceSub, Nat.reducePow] at *
  simp only [h1, h2, h3]
  split
  · rfl
  · split
    · rfl
    · congr 1; omega

theorem rnd18_congr (M f g : Nat) (h : f ≠ 0 ↔ g ≠ 0) : rnd18 M f = rnd18 M g := by
  unfold rnd18; simp only [h]

theorem rnd18_rne (sig a : Nat) : rnd18 (sig / 2 ^ a) (sig % 2 ^ a) = rneDiv sig (a + 18) := by
  rw [rneDiv_split sig a 18 (by omega)]; rfl

/-- (1g): the mantissa shifted by `S`, the sticky information kept in `Fraction` -/
theorem h2Denorm_shift (sig : Nat) (e : Int) (he : e < -14) (hS : (-14 - e).toNat ≤ 31) :
    (h2Denorm (sig / 2 ^ 24) (sig % 2 ^ 24) e).1 = sig / 2 ^ (24 + (-14 - e).toNat) ∧
    ((h2Denorm (sig / 2 ^ 24) (sig % 2 ^ 24) e).2.1 ≠ 0 ↔ sig % 2 ^ (24 + (-14 - e).toNat) ≠ 0) ∧
    (h2Denorm (sig / 2 ^ 24) (sig % 2 ^ 24) e).2.2 = -15 := by
  unfold h2Denorm
  generalize (-14 - e).toNat = S at *
  have h31 : ¬ (S > 31) := by omega
  simp only [he, if_true, h31, if_false]
  refine ⟨?_, ?_, trivial⟩
  · rw [Nat.pow_add, Nat.div_div_eq_div_mul]
  · rw [Nat.pow_add, Nat.mod_mul]
    have hp : 0 < 2 ^ 24 := by omega
    by_cases hz : sig / 2 ^ 24 % 2 ^ S = 0
    · simp only [hz, ne_eq, not_true_eq_false, if_false, Nat.mul_zero, Nat.add_zero]
    · simp only [hz, ne_eq, not_false_eq_true, if_true]
      constructor
      · intro _
        have : 0 < 2 ^ 24 * (sig / 2 ^ 24 % 2 ^ S) := Nat.mul_pos hp (by omega)
        omega
      · intro _ h0
        have := (Nat.or_eq_zero_iff.mp h0).2
        omega

theorem quantum_bin (qmin q0 : Int) : quantum qmin 1 q0 = if q0 ≤ qmin then qmin else q0 := by
  unfold quantum
  split
  · rfl
  · simp; omega

theorem same_fin (s : Bool) (m1 : Nat) (e1 : Int) (m2 : Nat) (e2 : Int) (h : sameMag m1 e1 m2 e2 = true) :
    (FVal.fin s m1 e1).same (.fin s m2 e2) = true := by
  simp [FVal.same, h]

theorem ieee2_fin (s E m : Nat) (hs : s < 2) (hE : E < 2047) (hm : m < 2 ^ 52) :
    ieee2 (s * 2 ^ 63 + E * 2 ^ 52 + m) =
      h2Pack (decide ((E : Int) - 1023 < -14)) s
        (h2Rounded (decide ((E : Int) - 1023 < -14))
          (h2Denorm (hidden ((E : Int) - 1023) (m / 2 ^ 24)) (m % 2 ^ 24) ((E : Int) - 1023)).1
          (h2Denorm (hidden ((E : Int) - 1023) (m / 2 ^ 24)) (m % 2 ^ 24) ((E : Int) - 1023)).2.1
          (h2Denorm (hidden ((E : Int) - 1023) (m / 2 ^ 24)) (m % 2 ^ 24) ((E : Int) - 1023)).2.2).1
        (h2Rounded (decide ((E : Int) - 1023 < -14))
          (h2Denorm (hidden ((E : Int) - 1023) (m / 2 ^ 24)) (m % 2 ^ 24) ((E : Int) - 1023)).1
          (h2Denorm (hidden ((E : Int) - 1023) (m / 2 ^ 24)) (m % 2 ^ 24) ((E : Int) - 1023)).2.1
          (h2Denorm (hidden ((E : Int) - 1023) (m / 2 ^ 24)) (m % 2 ^ 24) ((E : Int) - 1023)).2.2).2 := by
  unfold ieee2
  rw [dissect_eq s E m hs (by omega) hm]
  have : ¬ ((E : Int) - 1023 = 1024) := by omega
  simp only [this, if_false]

theorem hidden_normal (E m : Nat) (hE : 0 < E) (hm : m < 2 ^ 52) :
    hidden ((E : Int) - 1023) (m / 2 ^ 24) = (2 ^ 52 + m) / 2 ^ 24 ∧ m % 2 ^ 24 = (2 ^ 52 + m) % 2 ^ 24 := by
  unfold hidden
  have : (E : Int) - 1023 ≠ -1023 := by omega
  simp only [this, ne_eq, not_false_eq_true, if_true]
  omega

theorem rne42_bounds (sig : Nat) (h1 : 2 ^ 52 ≤ sig) (h2 : sig < 2 ^ 53) :
    2 ^ 10 ≤ rneDiv sig 42 ∧ rneDiv sig 42 ≤ 2 ^ 11 := by
  have := rneDiv_spec sig 42 (by omega)
  omega

/-- normal results -/
theorem half_sem_normal (s E m : Nat) (hs : s < 2) (he1 : 1009 ≤ E) (he2 : E ≤ 1038) (hm : m < 2 ^ 52) :
    sameOpt ((ieee2 (s * 2 ^ 63 + E * 2 ^ 52 + m)).map decodeHalf)
      (roundHalf (decodeDouble (s * 2 ^ 63 + E * 2 ^ 52 + m))) = true := by
  rw [ieee2_fin s E m hs (by omega) hm, decodeDouble_eq s E m hs (by omega) hm]
  have hE1 : ¬ (E = 2047) := by omega
  have hE0 : ¬ (E = 0) := by omega
  simp only [hE1, hE0, if_false]
  obtain ⟨hh, hf⟩ := hidden_normal E m (by omega) hm
  rw [hh, hf]
  generalize hsig : 2 ^ 52 + m = sig
  have hs1 : 2 ^ 52 ≤ sig := by omega
  have hs2 : sig < 2 ^ 53 := by omega
  have hden : ¬ ((E : Int) - 1023 < -14) := by omega
  have hdn : h2Denorm (sig / 2 ^ 24) (sig % 2 ^ 24) ((E : Int) - 1023) = (sig / 2 ^ 24, sig % 2 ^ 24, (E : Int) - 1023) := by
    unfold h2Denorm; simp only [hden, if_false]
  simp only [hden, decide_false, hdn]
  have hM1 : 2 ^ 28 ≤ sig / 2 ^ 24 := by omega
  have hM2 : sig / 2 ^ 24 < 2 ^ 29 := by omega
  have hx1 : -14 ≤ (E : Int) - 1023 := by omega
  have hx2 : (E : Int) - 1023 ≤ 15 := by omega
  rw [h2_norm s (sig / 2 ^ 24) (sig % 2 ^ 24) _ hs hM1 hM2 hx1 hx2]
  rw [rnd18_rne sig 24]
  obtain ⟨hR1, hR2⟩ := rne42_bounds sig hs1 hs2
  -- the specification side
  unfold roundHalf roundFin fmtBinary16
  simp only []
  have hbl : bitLen sig = 53 := bitLen_eq sig 52 hs1 hs2
  have hq : quantum (-24) 1 (ulpExp 11 sig ((E : Int) - 1075)) = (E : Int) - 1033 := by
    rw [quantum_bin]; unfold ulpExp; rw [hbl]
    split <;> omega
  rw [hq]
  have hr : rneAt ((E : Int) - 1033) sig ((E : Int) - 1075) = rneDiv sig 42 := by
    unfold rneAt
    have : ¬ ((E : Int) - 1033 ≤ (E : Int) - 1075) := by omega
    simp only [this, if_false]
    congr 1; omega
  rw [hr]
  generalize hR : rneDiv sig (24 + 18) = R at *
  by_cases hc : R = 2 ^ 11
  · simp only [hc, if_true]
    by_cases h15 : (E : Int) - 1023 = 15
    · simp only [h15, if_true, Option.map_none]
      rw [ltMag_false (2 ^ 11) _ 16 11 (by omega) (by omega)]
      simp [sameOpt]
    · simp only [h15, if_false, Option.map_some]
      rw [ltMag_true (2 ^ 11) _ 16 12 (by omega) (by omega)]
      simp only [if_true, sameOpt]
      have hw : s * 2 ^ 15 + ((E : Int) - 1023 + 16).toNat * 2 ^ 10 = s * 2 ^ 15 + (E - 1007) * 2 ^ 10 + 0 := by omega
      rw [hw, decodeHalf_eq s (E - 1007) 0 hs (by omega) (by omega)]
      have c1 : ¬ (E - 1007 = 31) := by omega
      have c2 : ¬ (E - 1007 = 0) := by omega
      simp only [c1, c2, if_false]
      apply same_fin
      have := sameMag_shift 1024 ((E : Int) - 1033) 1
      have e1 : ((E - 1007 : Nat) : Int) - 25 = (E : Int) - 1033 + (1 : Nat) := by omega
      rw [e1]
      exact this
  · simp only [hc, if_false, Option.map_some]
    rw [ltMag_true R _ 16 11 (by omega) (by omega)]
    simp only [if_true, sameOpt]
    have hw : s * 2 ^ 15 + ((E : Int) - 1023 + 15).toNat * 2 ^ 10 + (R - 2 ^ 10) = s * 2 ^ 15 + (E - 1008) * 2 ^ 10 + (R - 1024) := by omega
    rw [hw, decodeHalf_eq s (E - 1008) (R - 1024) hs (by omega) (by omega)]
    have c1 : ¬ (E - 1008 = 31) := by omega
    have c2 : ¬ (E - 1008 = 0) := by omega
    simp only [c1, c2, if_false]
    apply same_fin
    have e1 : ((E - 1008 : Nat) : Int) - 25 = (E : Int) - 1033 := by omega
    have e2 : 1024 + (R - 1024) = R := by omega
    rw [e1, e2]
    exact sameMag_refl _ _


/-- results in the subnormal range of the half format (shift 1..31) -/
theorem half_sem_sub (s E m : Nat) (hs : s < 2) (he1 : 978 ≤ E) (he2 : E ≤ 1008) (hm : m < 2 ^ 52) :
    sameOpt ((ieee2 (s * 2 ^ 63 + E * 2 ^ 52 + m)).map decodeHalf)
      (roundHalf (decodeDouble (s * 2 ^ 63 + E * 2 ^ 52 + m))) = true := by
  rw [ieee2_fin s E m hs (by omega) hm, decodeDouble_eq s E m hs (by omega) hm]
  have hE1 : ¬ (E = 2047) := by omega
  have hE0 : ¬ (E = 0) := by omega
  simp only [hE1, hE0, if_false]
  obtain ⟨hh, hf⟩ := hidden_normal E m (by omega) hm
  rw [hh, hf]
  generalize hsig : 2 ^ 52 + m = sig
  have hs1 : 2 ^ 52 ≤ sig := by omega
  have hs2 : sig < 2 ^ 53 := by omega
  have hden : ((E : Int) - 1023 < -14) := by omega
  have hS : (-14 - ((E : Int) - 1023)).toNat = 1009 - E := by omega
  obtain ⟨d1, d2, d3⟩ := h2Denorm_shift sig ((E : Int) - 1023) hden (by omega)
  rw [hS] at d1 d2
  simp only [hden, decide_true, d1, d3]
  generalize hS' : 1009 - E = S at *
  have hS1 : 1 ≤ S := by omega
  have hS2 : S ≤ 31 := by omega
  -- M < 2^28
  have hM : sig / 2 ^ (24 + S) < 2 ^ 28 := by
    rw [Nat.pow_add, ← Nat.div_div_eq_div_mul]
    have h1 : sig / 2 ^ 24 < 2 ^ 29 := by omega
    have h2 : 2 ^ 1 ≤ 2 ^ S := pow_le_of_le hS1
    have h3 : sig / 2 ^ 24 / 2 ^ S ≤ sig / 2 ^ 24 / 2 ^ 1 := Nat.div_le_div_left h2 (by omega)
    omega
  rw [h2_den s _ _ hs hM, rnd18_congr _ _ _ d2, rnd18_rne sig (24 + S)]
  -- R ≤ 2^10
  have hk : 24 + S + 18 = 42 + S := by omega
  rw [hk]
  have hR : rneDiv sig (42 + S) ≤ 2 ^ 10 := by
    have h0 := rneDiv_spec sig (42 + S) (by omega)
    have hp : 2 ^ (42 + S) = 2 ^ 43 * 2 ^ (S - 1) := by rw [← Nat.pow_add]; congr 1; omega
    have hpos : 0 < 2 ^ (S - 1) := two_pow_pos' _
    rw [hp] at h0
    generalize 2 ^ (S - 1) = P at *
    generalize rneDiv sig (42 + S) = R at *
    -- 2 * (2^43 * P * R) ≤ 2 * sig + 2^43 * P, sig < 2^53
    by_cases hc : R ≤ 2 ^ 10
    · exact hc
    · exfalso
      have h1 : 2 ^ 43 * P * (2 ^ 10 + 1) ≤ 2 ^ 43 * P * R := Nat.mul_le_mul_left _ (by omega)
      have h2 : 2 ^ 43 * P * (2 ^ 10 + 1) = 2 ^ 53 * P + 2 ^ 43 * P := by
        rw [Nat.mul_add, Nat.mul_one]; congr 1
        rw [Nat.mul_comm (2 ^ 43) P, Nat.mul_assoc, Nat.mul_comm P]
      have h3 : 2 ^ 53 * 1 ≤ 2 ^ 53 * P := Nat.mul_le_mul_left _ hpos
      omega
  -- specification side
  unfold roundHalf roundFin fmtBinary16
  simp only []
  have hbl : bitLen sig = 53 := bitLen_eq sig 52 hs1 hs2
  have hq : quantum (-24) 1 (ulpExp 11 sig ((E : Int) - 1075)) = -24 := by
    rw [quantum_bin]; unfold ulpExp; rw [hbl]
    split <;> omega
  rw [hq]
  have hr : rneAt (-24) sig ((E : Int) - 1075) = rneDiv sig (42 + S) := by
    unfold rneAt
    have : ¬ ((-24 : Int) ≤ (E : Int) - 1075) := by omega
    simp only [this, if_false]
    congr 1; omega
  rw [hr]
  generalize rneDiv sig (42 + S) = R at *
  rw [ltMag_true R (-24) 16 11 (by omega) (by omega)]
  simp only [if_true, sameOpt, Option.map_some]
  by_cases hc : R = 2 ^ 10
  · have hw : s * 2 ^ 15 + R = s * 2 ^ 15 + 1 * 2 ^ 10 + 0 := by omega
    rw [hw, decodeHalf_eq s 1 0 hs (by omega) (by omega)]
    simp only [show ¬ ((1 : Nat) = 31) by omega, show ¬ ((1 : Nat) = 0) by omega, if_false]
    apply same_fin
    subst hc
    exact sameMag_refl _ _
  · have hw : s * 2 ^ 15 + R = s * 2 ^ 15 + 0 * 2 ^ 10 + R := by omega
    rw [hw, decodeHalf_eq s 0 R hs (by omega) (by omega)]
    simp only [show ¬ ((0 : Nat) = 31) by omega, if_false, if_true]
    apply same_fin
    exact sameMag_refl _ _

/-- a value below half of the smallest subnormal (shift > 31), and zero/subnormal doubles: signed zero -/
theorem half_sem_tiny (s E m : Nat) (hs : s < 2) (he2 : E ≤ 977) (hm : m < 2 ^ 52) :
    sameOpt ((ieee2 (s * 2 ^ 63 + E * 2 ^ 52 + m)).map decodeHalf)
      (roundHalf (decodeDouble (s * 2 ^ 63 + E * 2 ^ 52 + m))) = true := by
  rw [ieee2_fin s E m hs (by omega) hm, decodeDouble_eq s E m hs (by omega) hm]
  have hE1 : ¬ (E = 2047) := by omega
  simp only [hE1, if_false]
  have hden : ((E : Int) - 1023 < -14) := by omega
  have hS : (-14 - ((E : Int) - 1023)).toNat > 31 := by omega
  have hdn : ∀ M f, h2Denorm M f ((E : Int) - 1023) = (0, f ||| M, -15) := by
    intro M f; unfold h2Denorm; simp only [hden, if_true, hS]
  simp only [hden, decide_true, hdn]
  have hz : ∀ f, h2Rounded true 0 f (-15) = (0, -15) := by
    intro f; unfold h2Rounded h2RoundUp; simp
  rw [hz]
  have hp : h2Pack true s 0 (-15) = some (s * 2 ^ 15 + 0 * 2 ^ 10 + 0) := by
    unfold h2Pack
    rw [h2Loop_ge _ _ _ (by omega)]
    simp
    omega
  rw [hp, Option.map_some, decodeHalf_eq s 0 0 hs (by omega) (by omega)]
  simp only [show ¬ ((0 : Nat) = 31) by omega, if_false, if_true]
  -- specification: the rounded significand is 0 at quantum 2^-24
  have key : ∀ (sig : Nat) (e : Int) (B : Nat), sig < 2 ^ B → e + B ≤ -25 →
      roundHalf (.fin (s == 1) sig e) = some (.fin (s == 1) 0 (-24)) := by
    intro sig e B hB he
    unfold roundHalf roundFin fmtBinary16
    simp only []
    have hbl : bitLen sig ≤ B := bitLen_le sig B hB
    have hq : quantum (-24) 1 (ulpExp 11 sig e) = -24 := by
      rw [quantum_bin]; unfold ulpExp
      split <;> omega
    rw [hq]
    have hr : rneAt (-24) sig e = 0 := by
      unfold rneAt
      have : ¬ ((-24 : Int) ≤ e) := by omega
      simp only [this, if_false]
      apply rneDiv_small _ _ (by omega)
      have : 2 ^ B ≤ 2 ^ ((-24 - e).toNat - 1) := pow_le_of_le (by omega)
      omega
    rw [hr, ltMag_true 0 (-24) 16 0 (by omega) (by omega)]
    simp
  by_cases hE0 : E = 0
  · simp only [hE0, if_true]
    rw [key m (-1074) 52 hm (by omega)]
    simp [sameOpt, FVal.same, sameMag]
  · simp only [hE0, if_false]
    rw [key (2 ^ 52 + m) ((E : Int) - 1075) 53 (by omega) (by omega)]
    simp [sameOpt, FVal.same, sameMag]


/-- magnitudes of 2^16 and above: rejected -/
theorem half_sem_over (s E m : Nat) (hs : s < 2) (he1 : 1039 ≤ E) (he2 : E ≤ 2046) (hm : m < 2 ^ 52) :
    sameOpt ((ieee2 (s * 2 ^ 63 + E * 2 ^ 52 + m)).map decodeHalf)
      (roundHalf (decodeDouble (s * 2 ^ 63 + E * 2 ^ 52 + m))) = true := by
  rw [ieee2_fin s E m hs (by omega) hm, decodeDouble_eq s E m hs (by omega) hm]
  have hE1 : ¬ (E = 2047) := by omega
  have hE0 : ¬ (E = 0) := by omega
  simp only [hE1, hE0, if_false]
  have hden : ¬ ((E : Int) - 1023 < -14) := by omega
  have hdn : ∀ M f, h2Denorm M f ((E : Int) - 1023) = (M, f, (E : Int) - 1023) := by
    intro M f; unfold h2Denorm; simp only [hden, if_false]
  simp only [hden, decide_false, hdn]
  rw [h2_over s _ _ _ (by omega)]
  generalize hsig : 2 ^ 52 + m = sig
  have hs1 : 2 ^ 52 ≤ sig := by omega
  have hs2 : sig < 2 ^ 53 := by omega
  unfold roundHalf roundFin fmtBinary16
  simp only []
  have hbl : bitLen sig = 53 := bitLen_eq sig 52 hs1 hs2
  have hq : quantum (-24) 1 (ulpExp 11 sig ((E : Int) - 1075)) = (E : Int) - 1033 := by
    rw [quantum_bin]; unfold ulpExp; rw [hbl]
    split <;> omega
  rw [hq]
  have hr : rneAt ((E : Int) - 1033) sig ((E : Int) - 1075) = rneDiv sig 42 := by
    unfold rneAt
    have : ¬ ((E : Int) - 1033 ≤ (E : Int) - 1075) := by omega
    simp only [this, if_false]
    congr 1; omega
  rw [hr]
  obtain ⟨hR1, _⟩ := rne42_bounds sig hs1 hs2
  rw [ltMag_false _ _ 16 10 hR1 (by omega)]
  simp [sameOpt]

/-- infinities and quiet NaNs -/
theorem half_sem_special (s E m : Nat) (hs : s < 2) (hE : E = 2047) (hm : m < 2 ^ 52) (hq : m ≠ 0 → 2 ^ 51 ≤ m) :
    sameOpt ((ieee2 (s * 2 ^ 63 + E * 2 ^ 52 + m)).map decodeHalf)
      (roundHalf (decodeDouble (s * 2 ^ 63 + E * 2 ^ 52 + m))) = true := by
  rw [decodeDouble_eq s E m hs (by omega) hm, if_pos hE]
  unfold ieee2
  rw [dissect_eq s E m hs (by omega) hm]
  have hx : (E : Int) - 1023 = 1024 := by omega
  simp only []
  rw [if_pos hx]
  have hnan : ∀ t, t ≠ 0 → t < 1024 → sameOpt (Option.map decodeHalf (some (s * 2 ^ 15 + 31 * 2 ^ 10 + t))) (some FVal.nan) = true := by
    intro t ht0 ht
    rw [Option.map_some, decodeHalf_eq s 31 t hs (by omega) ht]
    simp [sameOpt, FVal.same, ht0]
  by_cases h0 : m = 0
  · have c1 : ¬ (m / 2 ^ 24 = 0x0fffffff ∧ m % 2 ^ 24 = 0x00ffffff) := by omega
    have c2 : ¬ (m / 2 ^ 24 / 2 ^ 27 % 2 = 1) := by omega
    have c3 : ¬ (m / 2 ^ 24 % 2 = 1) := by omega
    rw [if_neg c1, if_neg c2, if_neg c3, if_pos h0]
    have hw : (s * 128 + 0x7c + 0) * 256 + 0 = s * 2 ^ 15 + 31 * 2 ^ 10 + 0 := by omega
    rw [hw, Option.map_some, decodeHalf_eq s 31 0 hs (by omega) (by omega)]
    simp [sameOpt, FVal.same, roundHalf]
  · have hq' := hq h0
    rw [if_neg h0]
    simp only [roundHalf]
    by_cases hall : m / 2 ^ 24 = 0x0fffffff ∧ m % 2 ^ 24 = 0x00ffffff
    · rw [if_pos hall]
      have hw : (s * 128 + 0x7c + 3) * 256 + 0xff = s * 2 ^ 15 + 31 * 2 ^ 10 + 1023 := by omega
      rw [hw]
      exact hnan 1023 (by omega) (by omega)
    · rw [if_neg hall]
      have hb : m / 2 ^ 24 / 2 ^ 27 % 2 = 1 := by omega
      rw [if_pos hb]
      by_cases hl : m / 2 ^ 24 % 2 = 1
      · rw [if_pos hl]
        have hw : (s * 128 + 0x7c + 2) * 256 + 1 = s * 2 ^ 15 + 31 * 2 ^ 10 + 513 := by omega
        rw [hw]
        exact hnan 513 (by omega) (by omega)
      · rw [if_neg hl]
        have hw : (s * 128 + 0x7c + 2) * 256 + 0 = s * 2 ^ 15 + 31 * 2 ^ 10 + 512 := by omega
        rw [hw]
        exact hnan 512 (by omega) (by omega)

/-- **`Double_2_ieee2` is roundTiesToEven into binary16** for every double except NaNs whose quiet
bit is clear: zero, subnormal and normal results, overflow rejection, infinities, quiet NaNs -/
theorem half_sem (s E m : Nat) (hs : s < 2) (hE : E < 2048) (hm : m < 2 ^ 52)
    (hq : E = 2047 → m ≠ 0 → 2 ^ 51 ≤ m) :
    sameOpt ((ieee2 (s * 2 ^ 63 + E * 2 ^ 52 + m)).map decodeHalf)
      (roundHalf (decodeDouble (s * 2 ^ 63 + E * 2 ^ 52 + m))) = true := by
  by_cases h1 : E ≤ 977
  · exact half_sem_tiny s E m hs h1 hm
  · by_cases h2 : E ≤ 1008
    · exact half_sem_sub s E m hs (by omega) h2 hm
    · by_cases h3 : E ≤ 1038
      · exact half_sem_normal s E m hs (by omega) h3 hm
      · by_cases h4 : E ≤ 2046
        · exact half_sem_over s E m hs (by omega) h4 hm
        · have h5 : E = 2047 := by omega
          exact half_sem_special s E m hs h5 hm (hq h5)

/-! ## `Double_2_ieee10` -/

theorem bytes_sum (B0 B1 B2 B3 B4 B5 B6 B7 : Nat) (h0 : B0 < 256) (h1 : B1 < 256) (h2 : B2 < 256) (h3 : B3 < 256)
    (h4 : B4 < 256) (h5 : B5 < 256) (h6 : B6 < 256) (h7 : B7 < 256) :
    let sum := B0 + 256 * B1 + 65536 * B2 + 16777216 * B3 + 4294967296 * B4 + 1099511627776 * B5 +
      281474976710656 * B6 + 72057594037927936 * B7
    sum / 9223372036854775808 = B7 / 128 ∧
    sum / 4503599627370496 % 2048 = B6 / 16 + B7 % 128 * 16 ∧
    sum % 4503599627370496 = B0 + 256 * B1 + 65536 * B2 + 16777216 * B3 + 4294967296 * B4 + 1099511627776 * B5 +
      281474976710656 * (B6 % 16) := by
  intro sum
  refine ⟨by omega, by omega, by omega⟩

theorem i10_lemA (Y6 H5 : Nat) (h1 : Y6 < 16) (h2 : H5 < 8) :
    ((Y6 + 16) % 32 * 8 + H5) % 256 = (Y6 + 16) * 8 + H5 ∧ (Y6 % 32 * 8 + H5) % 256 = Y6 * 8 + H5 := by
  omega

theorem i10_lemB (S X : Nat) (h1 : S < 2) (h2 : X < 32768) :
    X % 256 % 256 + 256 * ((S * 128 + X / 256 % 128) % 256 + 0) = S * 32768 + X := by
  omega

theorem i10_lin16 (H0 L0 H1 L1 H2 L2 H3 L3 H4 L4 H5 L5 Y S X : Nat) :
    0 % 256 + 256 * (L0 * 8 + 256 * (L1 * 8 + H0 + 256 * (L2 * 8 + H1 + 256 * (L3 * 8 + H2 + 256 * (L4 * 8 + H3 +
      256 * (L5 * 8 + H4 + 256 * ((Y + 16) * 8 + H5 + 256 * (S * 32768 + X)))))))) =
    S * 604462909807314587353088 + X * 18446744073709551616 +
      (4503599627370496 + (32 * H0 + L0 + 256 * (32 * H1 + L1) + 65536 * (32 * H2 + L2) + 16777216 * (32 * H3 + L3) +
        4294967296 * (32 * H4 + L4) + 1099511627776 * (32 * H5 + L5) + 281474976710656 * Y)) * 2048 := by
  omega

theorem i10_lin0 (H0 L0 H1 L1 H2 L2 H3 L3 H4 L4 H5 L5 Y S X : Nat) :
    0 % 256 + 256 * (L0 * 8 + 256 * (L1 * 8 + H0 + 256 * (L2 * 8 + H1 + 256 * (L3 * 8 + H2 + 256 * (L4 * 8 + H3 +
      256 * (L5 * 8 + H4 + 256 * (Y * 8 + H5 + 256 * (S * 32768 + X)))))))) =
    S * 604462909807314587353088 + X * 18446744073709551616 +
      (0 + (32 * H0 + L0 + 256 * (32 * H1 + L1) + 65536 * (32 * H2 + L2) + 16777216 * (32 * H3 + L3) +
        4294967296 * (32 * H4 + L4) + 1099511627776 * (32 * H5 + L5) + 281474976710656 * Y)) * 2048 := by
  omega

/-- closed form of `Double_2_ieee10` -/
theorem ieee10_bits (bits : Nat) (hb : bits < 2 ^ 64) :
    ieee10 bits =
      (bits / 2 ^ 63) * 2 ^ 79 + (if bits / 2 ^ 52 % 2048 = 2047 then 32767 else bits / 2 ^ 52 % 2048 + 15360) * 2 ^ 64 +
        ((if bits / 2 ^ 52 % 2048 = 0 then 0 else 2 ^ 52) + bits % 2 ^ 52) * 2 ^ 11 := by
  unfold ieee10 DataModel.ieee10Bytes
  simp only [encLE, List.map, b_toNat, decLE, if_false, Bool.false_eq_true, Nat.reduceSub, Nat.reduceEqDiff,
    List.getD_cons_zero, List.getD_cons_succ, if_true, Nat.div_div_eq_div_mul, Nat.reduceMul, Nat.reducePow]
  have hB : bits = bits % 256 + 256 * (bits / 256 % 256) + 65536 * (bits / 65536 % 256) + 16777216 * (bits / 16777216 % 256) +
      4294967296 * (bits / 4294967296 % 256) + 1099511627776 * (bits / 1099511627776 % 256) +
      281474976710656 * (bits / 281474976710656 % 256) + 72057594037927936 * (bits / 72057594037927936 % 256) := by
    omega
  have l0 : bits % 256 < 256 := by omega
  have l1 : bits / 256 % 256 < 256 := by omega
  have l2 : bits / 65536 % 256 < 256 := by omega
  have l3 : bits / 16777216 % 256 < 256 := by omega
  have l4 : bits / 4294967296 % 256 < 256 := by omega
  have l5 : bits / 1099511627776 % 256 < 256 := by omega
  have l6 : bits / 281474976710656 % 256 < 256 := by omega
  have l7 : bits / 72057594037927936 % 256 < 256 := by omega
  generalize bits % 256 = B0 at *
  generalize bits / 256 % 256 = B1 at *
  generalize bits / 65536 % 256 = B2 at *
  generalize bits / 16777216 % 256 = B3 at *
  generalize bits / 4294967296 % 256 = B4 at *
  generalize bits / 1099511627776 % 256 = B5 at *
  generalize bits / 281474976710656 % 256 = B6 at *
  generalize bits / 72057594037927936 % 256 = B7 at *
  subst hB
  obtain ⟨e1, e2, e3⟩ := bytes_sum B0 B1 B2 B3 B4 B5 B6 B7 l0 l1 l2 l3 l4 l5 l6 l7
  rw [e1, e2, e3]
  clear e1 e2 e3 hb
  have s0 : B0 = 32 * (B0 / 32) + B0 % 32 := by omega
  have s1 : B1 = 32 * (B1 / 32) + B1 % 32 := by omega
  have s2 : B2 = 32 * (B2 / 32) + B2 % 32 := by omega
  have s3 : B3 = 32 * (B3 / 32) + B3 % 32 := by omega
  have s4 : B4 = 32 * (B4 / 32) + B4 % 32 := by omega
  have s5 : B5 = 32 * (B5 / 32) + B5 % 32 := by omega
  have s6 : B6 = 16 * (B6 / 16) + B6 % 16 := by omega
  have s7 : B7 = 128 * (B7 / 128) + B7 % 128 := by omega
  have t0 : B0 % 32 < 32 := by omega
  have t1 : B1 % 32 < 32 := by omega
  have t2 : B2 % 32 < 32 := by omega
  have t3 : B3 % 32 < 32 := by omega
  have t4 : B4 % 32 < 32 := by omega
  have t5 : B5 % 32 < 32 := by omega
  have t6 : B6 % 16 < 16 := by omega
  have t7 : B7 % 128 < 128 := by omega
  generalize B0 / 32 = H0 at *
  generalize B0 % 32 = L0 at *
  generalize B1 / 32 = H1 at *
  generalize B1 % 32 = L1 at *
  generalize B2 / 32 = H2 at *
  generalize B2 % 32 = L2 at *
  generalize B3 / 32 = H3 at *
  generalize B3 % 32 = L3 at *
  generalize B4 / 32 = H4 at *
  generalize B4 % 32 = L4 at *
  generalize B5 / 32 = H5 at *
  generalize B5 % 32 = L5 at *
  generalize B6 / 16 = X6 at *
  generalize B6 % 16 = Y6 at *
  generalize B7 / 128 = S at *
  generalize B7 % 128 = X7 at *
  have m0 : L0 * 8 % 256 = L0 * 8 := by omega
  have m1 : (L1 * 8 + H0) % 256 = L1 * 8 + H0 := by omega
  have m2 : (L2 * 8 + H1) % 256 = L2 * 8 + H1 := by omega
  have m3 : (L3 * 8 + H2) % 256 = L3 * 8 + H2 := by omega
  have m4 : (L4 * 8 + H3) % 256 = L4 * 8 + H3 := by omega
  have m5 : (L5 * 8 + H4) % 256 = L5 * 8 + H4 := by omega
  rw [m0, m1, m2, m3, m4, m5]
  have hS : S < 2 := by omega
  have g0 : H0 < 8 := by omega
  have g1 : H1 < 8 := by omega
  have g2 : H2 < 8 := by omega
  have g3 : H3 < 8 := by omega
  have g4 : H4 < 8 := by omega
  have g5 : H5 < 8 := by omega
  have hX6 : X6 < 16 := by omega
  subst s0 s1 s2 s3 s4 s5
  clear s6 s7 l0 l1 l2 l3 l4 l5 l6 l7 m0 m1 m2 m3 m4 m5
  obtain ⟨a1, a2⟩ := i10_lemA Y6 H5 t6 g5
  have hE2 : X6 + X7 * 16 < 2048 := by omega
  by_cases h1 : X6 + X7 * 16 = 2047
  · have h0 : ¬ (X6 + X7 * 16 = 0) := by omega
    simp only [if_pos h1, if_neg h0]
    rw [a1, i10_lemB S 32767 hS (by omega)]
    exact i10_lin16 H0 L0 H1 L1 H2 L2 H3 L3 H4 L4 H5 L5 Y6 S 32767
  · by_cases h0 : X6 + X7 * 16 = 0
    · simp only [if_neg h1, if_pos h0]
      rw [a2, i10_lemB S (X6 + X7 * 16 + 15360) hS (by omega)]
      exact i10_lin0 H0 L0 H1 L1 H2 L2 H3 L3 H4 L4 H5 L5 Y6 S (X6 + X7 * 16 + 15360)
    · simp only [if_neg h1, if_neg h0]
      rw [a1, i10_lemB S (X6 + X7 * 16 + 15360) hS (by omega)]
      exact i10_lin16 H0 L0 H1 L1 H2 L2 H3 L3 H4 L4 H5 L5 Y6 S (X6 + X7 * 16 + 15360)


theorem ieee10_eq (s E m : Nat) (hs : s < 2) (hE : E < 2048) (hm : m < 2 ^ 52) :
    ieee10 (s * 2 ^ 63 + E * 2 ^ 52 + m) =
      s * 2 ^ 79 + (if E = 2047 then 32767 else E + 15360) * 2 ^ 64 + ((if E = 0 then 0 else 2 ^ 52) + m) * 2 ^ 11 := by
  rw [ieee10_bits _ (by omega)]
  have h1 : (s * 2 ^ 63 + E * 2 ^ 52 + m) / 2 ^ 63 = s := by omega
  obtain ⟨_, h2, h3⟩ := dbl_fields s E m hs hE hm
  rw [h1, h2, h3]

theorem decode80_eq (s X sig : Nat) (hs : s < 2) (hX : X < 32768) (hsig : sig < 2 ^ 64) :
    decode80 (s * 2 ^ 79 + X * 2 ^ 64 + sig) =
      if X = 0 then some (.fin (s == 1) sig (-16382 - 63))
      else if sig < 2 ^ 63 then none
      else if X = 32767 then (if sig = 2 ^ 63 then some (.inf (s == 1)) else some .nan)
      else some (.fin (s == 1) sig ((X : Int) - 16383 - 63)) := by
  have f1 : (s * 2 ^ 79 + X * 2 ^ 64 + sig) / 2 ^ 79 % 2 = s := by omega
  have f2 : (s * 2 ^ 79 + X * 2 ^ 64 + sig) / 2 ^ 64 % 2 ^ 15 = X := by omega
  have f3 : (s * 2 ^ 79 + X * 2 ^ 64 + sig) % 2 ^ 64 = sig := by omega
  unfold decode80
  simp only [f1, f2, f3]

/-- **`Double_2_ieee10` preserves the value** of every normal double, of the infinities and of NaNs -/
theorem ext80_sem (s E m : Nat) (hs : s < 2) (hE1 : 1 ≤ E) (hE : E < 2048) (hm : m < 2 ^ 52) :
    sameOpt (decode80 (ieee10 (s * 2 ^ 63 + E * 2 ^ 52 + m))) (some (decodeDouble (s * 2 ^ 63 + E * 2 ^ 52 + m))) = true := by
  rw [ieee10_eq s E m hs hE hm, decodeDouble_eq s E m hs hE hm]
  have hE0 : ¬ (E = 0) := by omega
  rw [if_neg hE0, if_neg hE0]
  have hsig : (2 ^ 52 + m) * 2 ^ 11 < 2 ^ 64 := by omega
  have hsig2 : ¬ ((2 ^ 52 + m) * 2 ^ 11 < 2 ^ 63) := by omega
  by_cases h1 : E = 2047
  · rw [if_pos h1, if_pos h1, decode80_eq s 32767 _ hs (by omega) hsig]
    rw [if_neg (by omega), if_neg hsig2, if_pos rfl]
    by_cases h0 : m = 0
    · rw [if_pos h0, if_pos (by omega)]
      simp [sameOpt, FVal.same]
    · rw [if_neg h0, if_neg (by omega)]
      simp [sameOpt, FVal.same]
  · rw [if_neg h1, if_neg h1, decode80_eq s (E + 15360) _ hs (by omega) hsig]
    rw [if_neg (by omega), if_neg hsig2, if_neg (by omega)]
    simp only [sameOpt]
    apply same_fin
    have := sameMag_shift' (2 ^ 52 + m) ((E : Int) - 1086) 11
    have e1 : (E : Int) - 1086 + (11 : Nat) = (E : Int) - 1075 := by omega
    have e2 : ((E + 15360 : Nat) : Int) - 16383 - 63 = (E : Int) - 1086 := by omega
    rw [e1] at this
    rw [e2]
    exact this

/-- the recorded finding as a theorem about the whole input class: for a zero or subnormal double the
80-bit image has exponent field $3C00 and integer bit 0 — not a valid extended operand -/
theorem ext80_zero_or_subnormal (s m : Nat) (hs : s < 2) (hm : m < 2 ^ 52) :
    ieee10 (s * 2 ^ 63 + 0 * 2 ^ 52 + m) = s * 2 ^ 79 + 0x3c00 * 2 ^ 64 + m * 2 ^ 11 ∧
    decode80 (ieee10 (s * 2 ^ 63 + 0 * 2 ^ 52 + m)) = none := by
  have h := ieee10_eq s 0 m hs (by omega) hm
  rw [if_neg (by omega), if_pos rfl] at h
  have h' : ieee10 (s * 2 ^ 63 + 0 * 2 ^ 52 + m) = s * 2 ^ 79 + 15360 * 2 ^ 64 + m * 2 ^ 11 := by
    rw [h]; omega
  refine ⟨by rw [h'], ?_⟩
  rw [h', decode80_eq s 15360 (m * 2 ^ 11) hs (by omega) (by omega)]
  rw [if_neg (by omega), if_pos (by omega)]

/-! ## `Double2IBMFloat` -/

theorem ibmAlign_succ (n m f : Nat) (e : Int) :
    ibmAlign (n + 1) m f e =
      if m / 0x10000000 % 2 = 1 ∨ e % 4 ≠ 0 then
        ibmAlign n (m / 2) ((if m % 2 = 1 then f + 0x1000000 else f) / 2) (e + 1)
      else (m, f, e) := rfl

theorem ibmStep_f (m f : Nat) : (if m % 2 = 1 then f + 0x1000000 else f) / 2 = (f + m % 2 * 2 ^ 24) / 2 := by
  split <;> omega

/-- step (2) for a normal double: `t = 4 - (Exponent mod 4)` shifts -/
theorem ibmAlign_normal (M f : Nat) (e : Int) (t : Nat) (hM1 : 2 ^ 28 ≤ M) (hM2 : M < 2 ^ 29) (hf : f < 2 ^ 24)
    (ht : t = 1 ∨ t = 2 ∨ t = 3 ∨ t = 4) (he : (e + t) % 4 = 0) :
    ibmAlign 8 M f e = (M / 2 ^ t, (f + M % 2 ^ t * 2 ^ 24) / 2 ^ t, e + t) := by
  have hbit : M / 0x10000000 % 2 = 1 := by omega
  rcases ht with rfl | rfl | rfl | rfl
  · rw [show (8 : Nat) = 6 + 1 + 1 from rfl, ibmAlign_succ, if_pos (Or.inl hbit), ibmStep_f,
      ibmAlign_succ, if_neg (by omega)]
    simp only [Prod.mk.injEq]
    refine ⟨?_, ?_, ?_⟩ <;> first | trivial | omega
  · rw [show (8 : Nat) = 5 + 1 + 1 + 1 from rfl, ibmAlign_succ, if_pos (Or.inl hbit), ibmStep_f,
      ibmAlign_succ, if_pos (Or.inr (by omega)), ibmStep_f, ibmAlign_succ, if_neg (by omega)]
    simp only [Prod.mk.injEq]
    refine ⟨?_, ?_, ?_⟩ <;> first | trivial | omega
  · rw [show (8 : Nat) = 4 + 1 + 1 + 1 + 1 from rfl, ibmAlign_succ, if_pos (Or.inl hbit), ibmStep_f,
      ibmAlign_succ, if_pos (Or.inr (by omega)), ibmStep_f, ibmAlign_succ, if_pos (Or.inr (by omega)), ibmStep_f,
      ibmAlign_succ, if_neg (by omega)]
    simp only [Prod.mk.injEq]
    refine ⟨?_, ?_, ?_⟩ <;> first | trivial | omega
  · rw [show (8 : Nat) = 3 + 1 + 1 + 1 + 1 + 1 from rfl, ibmAlign_succ, if_pos (Or.inl hbit), ibmStep_f,
      ibmAlign_succ, if_pos (Or.inr (by omega)), ibmStep_f, ibmAlign_succ, if_pos (Or.inr (by omega)), ibmStep_f,
      ibmAlign_succ, if_pos (Or.inr (by omega)), ibmStep_f, ibmAlign_succ, if_neg (by omega)]
    simp only [Prod.mk.injEq]
    refine ⟨?_, ?_, ?_⟩ <;> first | trivial | omega


theorem ibmLoop_ge (n : Nat) (e : Int) (m : Nat) (h : -64 ≤ e) : ibmLoop n e m = (e, m) := by
  cases n with
  | zero => rfl
  | succ n => simp [ibmLoop]; intro h'; omega

/-- nearest-even rounding at bit 4 from `M` and a sticky flag -/
def rnd4 (M f : Nat) : Nat :=
  if M % 2 ^ 4 > 2 ^ 3 ∨ (M % 2 ^ 4 = 2 ^ 3 ∧ (f ≠ 0 ∨ M / 2 ^ 4 % 2 = 1)) then M / 2 ^ 4 + 1 else M / 2 ^ 4

theorem rnd4_congr (M f g : Nat) (h : f ≠ 0 ↔ g ≠ 0) : rnd4 M f = rnd4 M g := by
  unfold rnd4; simp only [h]

theorem rnd4_rne (sig a : Nat) : rnd4 (sig / 2 ^ a) (sig % 2 ^ a) = rneDiv sig (a + 4) := by
  rw [rneDiv_split sig a 4 (by omega)]; rfl

theorem ibmRoundUp_iff (M f : Nat) :
    ibmRoundUp M f = decide (M % 2 ^ 4 > 2 ^ 3 ∨ (M % 2 ^ 4 = 2 ^ 3 ∧ (f ≠ 0 ∨ M / 2 ^ 4 % 2 = 1))) := by
  unfold ibmRoundUp
  by_cases h1 : M / 8 % 2 = 1
  · simp only [h1, if_true]
    by_cases h2 : M % 8 ≠ 0 ∨ f ≠ 0
    · simp only [h2, if_true]
      symm; rw [decide_eq_true_iff]; omega
    · simp only [h2, if_false]
      apply decide_eq_decide.mpr
      omega
  · simp only [h1, if_false]
    symm; rw [decide_eq_false_iff_not]; omega

/-- (2a): the rounded mantissa (24 bits, or 2^20 after a carry into the next hexadecimal digit) -/
theorem ibmRound_eq (M f : Nat) (j : Int) (hM : M < 2 ^ 28) :
    (ibmRound M f j).1 < 2 ^ 28 ∧
    ((ibmRound M f j).1 / 16, (ibmRound M f j).2.2) =
      if rnd4 M f = 2 ^ 24 then (2 ^ 20, j + 1) else (rnd4 M f, j) := by
  unfold ibmRound rnd4
  rw [ibmRoundUp_iff]
  by_cases hr : M % 2 ^ 4 > 2 ^ 3 ∨ (M % 2 ^ 4 = 2 ^ 3 ∧ (f ≠ 0 ∨ M / 2 ^ 4 % 2 = 1))
  · simp only [hr, decide_true, if_true]
    by_cases hc : (M + (16 - M % 16)) / 0x10000000 % 2 = 1
    · have h24 : M / 2 ^ 4 + 1 = 2 ^ 24 := by omega
      simp only [hc, h24, if_true]
      refine ⟨by omega, ?_⟩
      simp only [Prod.mk.injEq, and_true]
      omega
    · have h24 : ¬ (M / 2 ^ 4 + 1 = 2 ^ 24) := by omega
      simp only [hc, h24, if_false]
      refine ⟨by omega, ?_⟩
      simp only [Prod.mk.injEq, and_true]
      omega
  · have h24 : ¬ (M / 2 ^ 4 = 2 ^ 24) := by omega
    simp only [hr, decide_false, h24, if_false, Bool.false_eq_true]
    exact ⟨hM, trivial⟩

/-- (3): short format word for an exponent in range -/
theorem ibmPack_short (s mant frac : Nat) (j : Int) (hs : s < 2) (hm : mant < 2 ^ 28) (hj1 : -64 ≤ j) (hj2 : j ≤ 63) :
    ibmPack false s mant frac j = some (s * 2 ^ 31 + (j + 64).toNat * 2 ^ 24 + mant / 16) := by
  unfold ibmPack
  rw [if_neg (by omega), ibmLoop_ge _ _ _ hj1]
  simp only [Bool.false_eq_true, if_false]
  rw [if_neg (by omega)]
  refine congrArg some ?_
  generalize hn : (j + 64).toNat = n
  have : n < 128 := by omega
  omega

theorem ibmPack_over (td : Bool) (s mant frac : Nat) (j : Int) (hj : 63 < j) : ibmPack td s mant frac j = none := by
  unfold ibmPack
  rw [if_pos hj]

theorem decodeIBM24_eq (s c F : Nat) (hs : s < 2) (hc : c < 128) (hF : F < 2 ^ 24) :
    decodeIBM 24 (s * 2 ^ 31 + c * 2 ^ 24 + F) = .fin (s == 1) F (4 * ((c : Int) - 64) - (24 : Nat)) := by
  unfold decodeIBM
  have f1 : (s * 2 ^ 31 + c * 2 ^ 24 + F) / 2 ^ (24 + 7) % 2 = s := by omega
  have f2 : (s * 2 ^ 31 + c * 2 ^ 24 + F) / 2 ^ 24 % 128 = c := by omega
  have f3 : (s * 2 ^ 31 + c * 2 ^ 24 + F) % 2 ^ 24 = F := by omega
  simp only [f1, f2, f3]

theorem decodeIBM56_eq (s c F : Nat) (hs : s < 2) (hc : c < 128) (hF : F < 2 ^ 56) :
    decodeIBM 56 (s * 2 ^ 63 + c * 2 ^ 56 + F) = .fin (s == 1) F (4 * ((c : Int) - 64) - (56 : Nat)) := by
  unfold decodeIBM
  have f1 : (s * 2 ^ 63 + c * 2 ^ 56 + F) / 2 ^ (56 + 7) % 2 = s := by omega
  have f2 : (s * 2 ^ 63 + c * 2 ^ 56 + F) / 2 ^ 56 % 128 = c := by omega
  have f3 : (s * 2 ^ 63 + c * 2 ^ 56 + F) % 2 ^ 56 = F := by omega
  simp only [f1, f2, f3]

theorem quantum_hex (j : Int) (t : Nat) (ht : t = 1 ∨ t = 2 ∨ t = 3 ∨ t = 4) (hj : -64 ≤ j) :
    quantum (-280) 4 (4 * j - t - 23) = 4 * j - 24 := by
  unfold quantum
  split
  · omega
  · have : ((4 : Nat) : Int) = 4 := rfl
    rw [this]
    omega

/-- short format, doubles of magnitude `16^-65` and above -/
theorem ibm_short_sem (s E m t : Nat) (hs : s < 2) (hE1 : 763 ≤ E) (hE2 : E ≤ 2046) (hm : m < 2 ^ 52)
    (ht : t = 1 ∨ t = 2 ∨ t = 3 ∨ t = 4) (het : ((E : Int) - 1023 + t) % 4 = 0) :
    sameOpt ((ibmFloat false (s * 2 ^ 63 + E * 2 ^ 52 + m)).map (decodeIBM 24))
      (roundIBM fmtIBMShort (decodeDouble (s * 2 ^ 63 + E * 2 ^ 52 + m / 2 ^ t * 2 ^ t))) = true := by
  obtain ⟨j, hj⟩ : ∃ j : Int, (E : Int) - 1023 + t = 4 * j := ⟨((E : Int) - 1023 + t) / 4, by omega⟩
  have hm' : m / 2 ^ t * 2 ^ t < 2 ^ 52 := by
    have : m / 2 ^ t * 2 ^ t ≤ m := Nat.div_mul_le_self m (2 ^ t)
    omega
  rw [decodeDouble_eq s E _ hs (by omega) hm', if_neg (by omega), if_neg (by omega)]
  unfold ibmFloat
  rw [dissect_eq s E m hs (by omega) hm]
  simp only []
  obtain ⟨hh, hf⟩ := hidden_normal E m (by omega) hm
  rw [hh, hf]
  generalize hsig : 2 ^ 52 + m = sig
  have hs1 : 2 ^ 52 ≤ sig := by omega
  have hs2 : sig < 2 ^ 53 := by omega
  rw [ibmAlign_normal (sig / 2 ^ 24) (sig % 2 ^ 24) _ t (by omega) (by omega) (by omega) ht het]
  simp only [Bool.false_eq_true, if_false]
  have he16 : ((E : Int) - 1023 + t) / 4 = j := by omega
  rw [he16]
  -- the rounding input is `sig` with its low `t` bits cleared
  have hsig' : 2 ^ 52 + m / 2 ^ t * 2 ^ t = sig / 2 ^ t * 2 ^ t := by
    rcases ht with rfl | rfl | rfl | rfl <;> omega
  rw [hsig']
  generalize hsg' : sig / 2 ^ t * 2 ^ t = sig'
  have hs1' : 2 ^ 52 ≤ sig' := by rcases ht with rfl | rfl | rfl | rfl <;> omega
  have hs2' : sig' < 2 ^ 53 := by rcases ht with rfl | rfl | rfl | rfl <;> omega
  have hMa : sig / 2 ^ 24 / 2 ^ t = sig' / 2 ^ (24 + t) := by
    rcases ht with rfl | rfl | rfl | rfl <;> omega
  have hfa : ((sig % 2 ^ 24 + sig / 2 ^ 24 % 2 ^ t * 2 ^ 24) / 2 ^ t ≠ 0 ↔ sig' % 2 ^ (24 + t) ≠ 0) := by
    rcases ht with rfl | rfl | rfl | rfl <;> omega
  have hMlt : sig / 2 ^ 24 / 2 ^ t < 2 ^ 28 := by rcases ht with rfl | rfl | rfl | rfl <;> omega
  have hR := ibmRound_eq (sig / 2 ^ 24 / 2 ^ t) ((sig % 2 ^ 24 + sig / 2 ^ 24 % 2 ^ t * 2 ^ 24) / 2 ^ t) j hMlt
  generalize hr1 : (ibmRound (sig / 2 ^ 24 / 2 ^ t) ((sig % 2 ^ 24 + sig / 2 ^ 24 % 2 ^ t * 2 ^ 24) / 2 ^ t) j) = rr at hR ⊢
  obtain ⟨r1, r2, r3⟩ := rr
  obtain ⟨hlt, hreq⟩ := hR
  simp only [] at hlt hreq ⊢
  have hk : 24 + t + 4 = 28 + t := by omega
  rw [rnd4_congr _ _ _ hfa, hMa, rnd4_rne sig' (24 + t), hk] at hreq
  have hRb : 2 ^ 20 ≤ rneDiv sig' (28 + t) ∧ rneDiv sig' (28 + t) ≤ 2 ^ 24 := by
    have := rneDiv_spec sig' (28 + t) (by omega)
    rcases ht with rfl | rfl | rfl | rfl <;> omega
  -- specification side
  unfold roundIBM roundFin fmtIBMShort
  simp only []
  have hbl : bitLen sig' = 53 := bitLen_eq sig' 52 hs1' hs2'
  have hq : quantum (-280) 4 (ulpExp 24 sig' ((E : Int) - 1075)) = 4 * j - 24 := by
    unfold ulpExp; rw [hbl]
    have : (E : Int) - 1075 + (53 : Nat) - (24 : Nat) = 4 * j - t - 23 := by omega
    rw [this]
    exact quantum_hex j t ht (by omega)
  rw [hq]
  have hr : rneAt (4 * j - 24) sig' ((E : Int) - 1075) = rneDiv sig' (28 + t) := by
    unfold rneAt
    have : ¬ (4 * j - 24 ≤ (E : Int) - 1075) := by omega
    simp only [this, if_false]
    congr 1; omega
  rw [hr]
  generalize rneDiv sig' (28 + t) = R at *
  by_cases hc : R = 2 ^ 24
  · rw [if_pos hc] at hreq
    obtain ⟨q1, q2⟩ := Prod.mk.inj hreq
    subst q2
    by_cases hov : 63 < j + 1
    · rw [ibmPack_over _ _ _ _ _ hov, ltMag_false R _ 252 24 (by omega) (by omega)]
      simp [sameOpt]
    · rw [ibmPack_short s r1 r2 (j + 1) hs hlt (by omega) (by omega), ltMag_true R _ 252 25 (by omega) (by omega)]
      simp only [if_true, Option.map_some, sameOpt]
      rw [q1]
      have hc' : (j + 1 + 64).toNat < 128 := by omega
      rw [decodeIBM24_eq s _ (2 ^ 20) hs hc' (by omega)]
      apply same_fin
      have := sameMag_shift (2 ^ 20) (4 * j - 24) 4
      have e1 : 4 * ((((j + 1 + 64).toNat : Nat) : Int) - 64) - (24 : Nat) = 4 * j - 24 + (4 : Nat) := by omega
      have e2 : R = 2 ^ 20 * 2 ^ 4 := by omega
      rw [e1, e2]
      exact this
  · rw [if_neg hc] at hreq
    obtain ⟨q1, q2⟩ := Prod.mk.inj hreq
    subst q2
    by_cases hov : 63 < r3
    · rw [ibmPack_over _ _ _ _ _ hov, ltMag_false R _ 252 20 (by omega) (by omega)]
      simp [sameOpt]
    · rw [ibmPack_short s r1 r2 r3 hs hlt (by omega) (by omega), ltMag_true R _ 252 24 (by omega) (by omega)]
      simp only [if_true, Option.map_some, sameOpt]
      rw [q1]
      have hc' : (r3 + 64).toNat < 128 := by omega
      rw [decodeIBM24_eq s _ R hs hc' (by omega)]
      apply same_fin
      have e1 : 4 * ((((r3 + 64).toNat : Nat) : Int) - 64) - (24 : Nat) = 4 * r3 - 24 := by omega
      rw [e1]
      exact sameMag_refl _ _


theorem quantum_hex_long (j : Int) (t : Nat) (ht : t = 1 ∨ t = 2 ∨ t = 3 ∨ t = 4) (hj : -64 ≤ j) :
    quantum (-312) 4 (4 * j - t - 55) = 4 * j - 56 := by
  unfold quantum
  split
  · omega
  · have : ((4 : Nat) : Int) = 4 := rfl
    rw [this]
    omega

theorem ibmPack_long (s mant frac : Nat) (j : Int) (hs : s < 2) (hm : mant < 2 ^ 28) (hf : frac < 2 ^ 24)
    (hj1 : -64 ≤ j) (hj2 : j ≤ 63) :
    ibmPack true s mant frac j = some (s * 2 ^ 63 + (j + 64).toNat * 2 ^ 56 + (mant * 2 ^ 28 + frac * 16)) := by
  unfold ibmPack
  rw [if_neg (by omega), ibmLoop_ge _ _ _ hj1]
  simp only [if_true]
  rw [if_neg (by omega)]
  refine congrArg some ?_
  generalize hn : (j + 64).toNat = n
  have : n < 128 := by omega
  omega

/-- long format: the value is kept exactly, except that the lowest `t` bits of the double are dropped -/
theorem ibm_long_sem (s E m t : Nat) (hs : s < 2) (hE1 : 763 ≤ E) (hE2 : E ≤ 2046) (hm : m < 2 ^ 52)
    (ht : t = 1 ∨ t = 2 ∨ t = 3 ∨ t = 4) (het : ((E : Int) - 1023 + t) % 4 = 0) :
    sameOpt ((ibmFloat true (s * 2 ^ 63 + E * 2 ^ 52 + m)).map (decodeIBM 56))
      (roundIBM fmtIBMLong (decodeDouble (s * 2 ^ 63 + E * 2 ^ 52 + m / 2 ^ t * 2 ^ t))) = true := by
  obtain ⟨j, hj⟩ : ∃ j : Int, (E : Int) - 1023 + t = 4 * j := ⟨((E : Int) - 1023 + t) / 4, by omega⟩
  have hm' : m / 2 ^ t * 2 ^ t < 2 ^ 52 := by
    have : m / 2 ^ t * 2 ^ t ≤ m := Nat.div_mul_le_self m (2 ^ t)
    omega
  rw [decodeDouble_eq s E _ hs (by omega) hm', if_neg (by omega), if_neg (by omega)]
  unfold ibmFloat
  rw [dissect_eq s E m hs (by omega) hm]
  simp only []
  obtain ⟨hh, hf⟩ := hidden_normal E m (by omega) hm
  rw [hh, hf]
  generalize hsig : 2 ^ 52 + m = sig
  have hs1 : 2 ^ 52 ≤ sig := by omega
  have hs2 : sig < 2 ^ 53 := by omega
  rw [ibmAlign_normal (sig / 2 ^ 24) (sig % 2 ^ 24) _ t (by omega) (by omega) (by omega) ht het]
  simp only [if_true]
  have he16 : ((E : Int) - 1023 + t) / 4 = j := by omega
  rw [he16]
  have hsig' : 2 ^ 52 + m / 2 ^ t * 2 ^ t = sig / 2 ^ t * 2 ^ t := by
    rcases ht with rfl | rfl | rfl | rfl <;> omega
  rw [hsig']
  have hs1' : 2 ^ 52 ≤ sig / 2 ^ t * 2 ^ t := by rcases ht with rfl | rfl | rfl | rfl <;> omega
  have hs2' : sig / 2 ^ t * 2 ^ t < 2 ^ 53 := by rcases ht with rfl | rfl | rfl | rfl <;> omega
  have hMlt : sig / 2 ^ 24 / 2 ^ t < 2 ^ 28 := by rcases ht with rfl | rfl | rfl | rfl <;> omega
  have hflt : (sig % 2 ^ 24 + sig / 2 ^ 24 % 2 ^ t * 2 ^ 24) / 2 ^ t < 2 ^ 24 := by
    rcases ht with rfl | rfl | rfl | rfl <;> omega
  have hF : sig / 2 ^ 24 / 2 ^ t * 2 ^ 28 + (sig % 2 ^ 24 + sig / 2 ^ 24 % 2 ^ t * 2 ^ 24) / 2 ^ t * 16 =
      sig / 2 ^ t * 2 ^ t * 2 ^ (4 - t) := by
    rcases ht with rfl | rfl | rfl | rfl <;> omega
  -- specification side
  unfold roundIBM roundFin fmtIBMLong
  simp only []
  have hbl : bitLen (sig / 2 ^ t * 2 ^ t) = 53 := bitLen_eq _ 52 hs1' hs2'
  have hq : quantum (-312) 4 (ulpExp 56 (sig / 2 ^ t * 2 ^ t) ((E : Int) - 1075)) = 4 * j - 56 := by
    unfold ulpExp; rw [hbl]
    have : (E : Int) - 1075 + (53 : Nat) - (56 : Nat) = 4 * j - t - 55 := by omega
    rw [this]
    exact quantum_hex_long j t ht (by omega)
  rw [hq]
  have hr : rneAt (4 * j - 56) (sig / 2 ^ t * 2 ^ t) ((E : Int) - 1075) = sig / 2 ^ t * 2 ^ t * 2 ^ (4 - t) := by
    unfold rneAt
    have : (4 * j - 56 ≤ (E : Int) - 1075) := by omega
    simp only [this, if_true]
    congr 2; omega
  rw [hr, ← hF]
  generalize hFF : sig / 2 ^ 24 / 2 ^ t * 2 ^ 28 + (sig % 2 ^ 24 + sig / 2 ^ 24 % 2 ^ t * 2 ^ 24) / 2 ^ t * 16 = F at *
  have hF1 : 2 ^ 52 ≤ F := by
    have : 1 ≤ 2 ^ (4 - t) := two_pow_pos' _
    have := Nat.mul_le_mul_left (sig / 2 ^ t * 2 ^ t) this
    omega
  have hF2 : F < 2 ^ 56 := by omega
  by_cases hov : 63 < j
  · rw [ibmPack_over _ _ _ _ _ hov, ltMag_false F _ 252 52 hF1 (by omega)]
    simp [sameOpt]
  · rw [ibmPack_long s _ _ j hs hMlt hflt (by omega) (by omega), ltMag_true F _ 252 56 hF2 (by omega)]
    simp only [if_true, Option.map_some, sameOpt]
    rw [hFF]
    have hc' : (j + 64).toNat < 128 := by omega
    rw [decodeIBM56_eq s _ F hs hc' hF2]
    apply same_fin
    have e1 : 4 * ((((j + 64).toNat : Nat) : Int) - 64) - (56 : Nat) = 4 * j - 56 := by omega
    rw [e1]
    exact sameMag_refl _ _


/-- infinities and NaNs have no IBM encoding: both conversions report a range error -/
theorem ibm_special (td : Bool) (s E m : Nat) (hs : s < 2) (hE : E = 2047) (hm : m < 2 ^ 52) :
    sameOpt ((ibmFloat td (s * 2 ^ 63 + E * 2 ^ 52 + m)).map (decodeIBM (if td then 56 else 24)))
      (roundIBM (if td then fmtIBMLong else fmtIBMShort) (decodeDouble (s * 2 ^ 63 + E * 2 ^ 52 + m))) = true := by
  rw [decodeDouble_eq s E m hs (by omega) hm, if_pos hE]
  have hspec : roundIBM (if td then fmtIBMLong else fmtIBMShort) (if m = 0 then FVal.inf (s == 1) else FVal.nan) = none := by
    cases td <;> by_cases h0 : m = 0 <;> simp [h0, roundIBM]
  rw [hspec]
  unfold ibmFloat
  rw [dissect_eq s E m hs (by omega) hm]
  simp only []
  obtain ⟨hh, hf⟩ := hidden_normal E m (by omega) hm
  rw [hh, hf]
  generalize hsig : 2 ^ 52 + m = sig
  have hs1 : 2 ^ 52 ≤ sig := by omega
  have hs2 : sig < 2 ^ 53 := by omega
  rw [ibmAlign_normal (sig / 2 ^ 24) (sig % 2 ^ 24) _ 4 (by omega) (by omega) (by omega) (by omega) (by omega)]
  simp only []
  have he16 : ((E : Int) - 1023 + (4 : Nat)) / 4 = 257 := by omega
  rw [he16]
  cases td
  · simp only [Bool.false_eq_true, if_false]
    have hR := ibmRound_eq (sig / 2 ^ 24 / 2 ^ 4) ((sig % 2 ^ 24 + sig / 2 ^ 24 % 2 ^ 4 * 2 ^ 24) / 2 ^ 4) 257 (by omega)
    generalize (ibmRound (sig / 2 ^ 24 / 2 ^ 4) ((sig % 2 ^ 24 + sig / 2 ^ 24 % 2 ^ 4 * 2 ^ 24) / 2 ^ 4) 257) = rr at hR ⊢
    obtain ⟨r1, r2, r3⟩ := rr
    obtain ⟨_, hreq⟩ := hR
    simp only [] at hreq ⊢
    have h3 : 63 < r3 := by
      split at hreq
      · have := (Prod.mk.inj hreq).2; omega
      · have := (Prod.mk.inj hreq).2; omega
    rw [ibmPack_over _ _ _ _ _ h3]
    simp [sameOpt]
  · simp only [if_true]
    rw [ibmPack_over _ _ _ _ _ (by omega)]
    simp [sameOpt]

theorem rneAt_zero (q e : Int) : rneAt q 0 e = 0 := by
  unfold rneAt
  split
  · simp
  · unfold rneDiv
    split
    · rfl
    · simp

theorem sameMag_zero (e1 e2 : Int) : sameMag 0 e1 0 e2 = true := by
  unfold sameMag; simp

/-- zero: exponent and fraction fields zero, the sign is kept -/
theorem ibm_zero (s : Nat) (hs : s < 2) :
    ibmFloat false (s * 2 ^ 63) = some (s * 2 ^ 31) ∧ ibmFloat true (s * 2 ^ 63) = some (s * 2 ^ 63) ∧
    sameOpt ((ibmFloat false (s * 2 ^ 63)).map (decodeIBM 24)) (roundIBM fmtIBMShort (decodeDouble (s * 2 ^ 63))) = true ∧
    sameOpt ((ibmFloat true (s * 2 ^ 63)).map (decodeIBM 56)) (roundIBM fmtIBMLong (decodeDouble (s * 2 ^ 63))) = true := by
  have hm1 : ibmFloat false (s * 2 ^ 63) = some (s * 2 ^ 31) := by
    have : s = 0 ∨ s = 1 := by omega
    rcases this with rfl | rfl <;> decide
  have hm2 : ibmFloat true (s * 2 ^ 63) = some (s * 2 ^ 63) := by
    have : s = 0 ∨ s = 1 := by omega
    rcases this with rfl | rfl <;> decide
  have hd : decodeDouble (s * 2 ^ 63) = .fin (s == 1) 0 (-1074) := by
    have := decodeDouble_eq s 0 0 hs (by omega) (by omega)
    simp only [Nat.zero_mul, Nat.add_zero] at this
    rw [this]; simp
  refine ⟨hm1, hm2, ?_, ?_⟩
  · rw [hm1, hd]
    have h1 := decodeIBM24_eq s 0 0 hs (by omega) (by omega)
    simp only [Nat.zero_mul, Nat.add_zero] at h1
    rw [Option.map_some, h1]
    unfold roundIBM roundFin
    simp only [rneAt_zero]
    rw [ltMag_true 0 _ _ 0 (by omega) (by unfold quantum ulpExp bitLen fmtIBMShort; simp)]
    simp [sameOpt, FVal.same, sameMag_zero]
  · rw [hm2, hd]
    have h1 := decodeIBM56_eq s 0 0 hs (by omega) (by omega)
    simp only [Nat.zero_mul, Nat.add_zero] at h1
    rw [Option.map_some, h1]
    unfold roundIBM roundFin
    simp only [rneAt_zero]
    rw [ltMag_true 0 _ _ 0 (by omega) (by unfold quantum ulpExp bitLen fmtIBMLong; simp)]
    simp [sameOpt, FVal.same, sameMag_zero]

/-! ## more magnitudes -/

/-- `2^a ≤ r·2^q` -/
theorem leMag_one_true (r : Nat) (a q : Int) (k : Nat) (hr : 2 ^ k ≤ r) (h : a ≤ q + k) : leMag 1 a r q = true := by
  unfold leMag
  rw [decide_eq_true_iff]
  by_cases hq : a ≤ q
  · have e1 : (a - min a q).toNat = 0 := by omega
    rw [e1, Nat.pow_zero, Nat.mul_one]
    have h1 : 0 < 2 ^ k := two_pow_pos' k
    have h2 : 0 < 2 ^ (q - min a q).toNat := two_pow_pos' _
    exact Nat.mul_pos (by omega) h2
  · have e1 : (q - min a q).toNat = 0 := by omega
    rw [e1, Nat.pow_zero, Nat.mul_one, Nat.one_mul]
    have : 2 ^ (a - min a q).toNat ≤ 2 ^ k := pow_le_of_le (by omega)
    omega

/-- `2^a < r·2^q` -/
theorem ltMag_one_true (r : Nat) (a q : Int) (k : Nat) (hr : 2 ^ k < r) (h : a ≤ q + k) : ltMag 1 a r q = true := by
  unfold ltMag
  rw [decide_eq_true_iff]
  by_cases hq : a ≤ q
  · have e1 : (a - min a q).toNat = 0 := by omega
    rw [e1, Nat.pow_zero, Nat.mul_one]
    have h1 : 0 < 2 ^ k := two_pow_pos' k
    have h2 : 0 < 2 ^ (q - min a q).toNat := two_pow_pos' _
    have : r * 1 ≤ r * 2 ^ (q - min a q).toNat := Nat.mul_le_mul_left r h2
    omega
  · have e1 : (q - min a q).toNat = 0 := by omega
    rw [e1, Nat.pow_zero, Nat.mul_one, Nat.one_mul]
    have : 2 ^ (a - min a q).toNat ≤ 2 ^ k := pow_le_of_le (by omega)
    omega

/-- `¬ 2^a ≤ r·2^q` -/
theorem leMag_one_false (r : Nat) (a q : Int) (k : Nat) (hr : r < 2 ^ k) (h : q + k ≤ a) : leMag 1 a r q = false := by
  unfold leMag
  rw [decide_eq_false_iff_not]
  have hq : q ≤ a := by omega
  have e1 : (q - min a q).toNat = 0 := by omega
  rw [e1, Nat.pow_zero, Nat.mul_one, Nat.one_mul]
  have : 2 ^ k ≤ 2 ^ (a - min a q).toNat := pow_le_of_le (by omega)
  omega

/-- `¬ 2^a < r·2^q` -/
theorem ltMag_one_false (r : Nat) (a q : Int) (k : Nat) (hr : r ≤ 2 ^ k) (h : q + k ≤ a) : ltMag 1 a r q = false := by
  unfold ltMag
  rw [decide_eq_false_iff_not]
  have hq : q ≤ a := by omega
  have e1 : (q - min a q).toNat = 0 := by omega
  rw [e1, Nat.pow_zero, Nat.mul_one, Nat.one_mul]
  have : 2 ^ k ≤ 2 ^ (a - min a q).toNat := pow_le_of_le (by omega)
  omega

/-- `r·2^q ≤ 2^L` -/
theorem leMag_true (r : Nat) (q L : Int) (k : Nat) (hr : r ≤ 2 ^ k) (h : q + k ≤ L) : leMag r q 1 L = true := by
  unfold leMag
  rw [decide_eq_true_iff]
  have hq : q ≤ L := by omega
  have e1 : (q - min q L).toNat = 0 := by omega
  rw [e1, Nat.pow_zero, Nat.mul_one, Nat.one_mul]
  have : 2 ^ k ≤ 2 ^ (L - min q L).toNat := pow_le_of_le (by omega)
  omega

/-- `¬ r·2^q ≤ 2^L` -/
theorem leMag_false (r : Nat) (q L : Int) (k : Nat) (hr : 2 ^ k < r) (h : L ≤ q + k) : leMag r q 1 L = false := by
  unfold leMag
  rw [decide_eq_false_iff_not]
  by_cases hq : q ≤ L
  · have e1 : (q - min q L).toNat = 0 := by omega
    rw [e1, Nat.pow_zero, Nat.mul_one, Nat.one_mul]
    have : 2 ^ (L - min q L).toNat ≤ 2 ^ k := pow_le_of_le (by omega)
    omega
  · have e1 : (L - min q L).toNat = 0 := by omega
    rw [e1, Nat.pow_zero, Nat.mul_one]
    have h1 : 0 < 2 ^ k := two_pow_pos' k
    have h2 : 0 < 2 ^ (q - min q L).toNat := two_pow_pos' _
    have : r * 1 ≤ r * 2 ^ (q - min q L).toNat := Nat.mul_le_mul_left r h2
    omega

/-- an exact multiple is not changed by rounding -/
theorem rneDiv_exact (m k : Nat) (hk : 0 < k) (h : m % 2 ^ k = 0) : rneDiv m k = m / 2 ^ k := by
  unfold rneDiv
  rw [if_neg (by omega), h]
  have hp : 0 < 2 ^ (k - 1) := two_pow_pos' _
  rw [if_neg (by omega)]

/-! ## `SplitExt` -/

theorem splitTail_eq (s E u : Nat) (hs : s < 2) (hu : u < 2 ^ 31) :
    splitTail s E (2 ^ 31 + u) =
      if s = 1 ∧ u = 0 then ((E : Int) - 1024, 2 ^ 31)
      else ((E : Int) - 1023, if s = 1 then (if u = 0 then 0 else 2 ^ 32 - u) else u) := by
  unfold splitTail
  by_cases hs1 : s = 1
  · by_cases hu0 : u = 0
    · subst hu0; subst hs1
      simp
      omega
    · subst hs1
      have h1 : ¬ ((0xffffffff - (2 ^ 31 + u) + 1) % 2 ^ 32 = 0x80000000) := by omega
      simp only [if_true, h1, hu0, if_false, and_false]
      refine Prod.ext (by simp) ?_
      show ((0xffffffff - (2 ^ 31 + u) + 1) % 2 ^ 32 + 0x80000000) % 2 ^ 32 = 2 ^ 32 - u
      omega
  · have hs0 : s = 0 := by omega
    subst hs0
    simp only [show ¬ ((0 : Nat) = 1) by omega, false_and, if_false]
    refine Prod.ext (by simp) ?_
    show (2 ^ 31 + u + 0x80000000) % 2 ^ 32 = u
    omega

/-- `SplitExt` on a normal double: the 32 upper significand bits `2^31 + u`, negated for negative
numbers, with the top bit inverted; a negative number with `u = 0` (`-1.0·2^n` after the cut to 32 bits)
becomes mantissa $80000000 with the exponent decremented (`-2.0·2^(n-1)`) -/
theorem splitExt_eq (s E m : Nat) (hs : s < 2) (hE0 : 0 < E) (hE : E < 2048) (hm : m < 2 ^ 52) :
    splitExt (s * 2 ^ 63 + E * 2 ^ 52 + m) =
      if s = 1 ∧ m / 2 ^ 21 = 0 then ((E : Int) - 1024, 2 ^ 31)
      else ((E : Int) - 1023, if s = 1 then (if m / 2 ^ 21 = 0 then 0 else 2 ^ 32 - m / 2 ^ 21) else m / 2 ^ 21) := by
  unfold splitExt
  have h1 : (s * 2 ^ 63 + E * 2 ^ 52 + m) / 2 ^ 63 % 2 = s := by omega
  have h2 : (s * 2 ^ 63 + E * 2 ^ 52 + m) / 2 ^ 52 % 2048 = E := by omega
  have h3 : (s * 2 ^ 63 + E * 2 ^ 52 + m) / 2 ^ 48 % 16 = m / 2 ^ 48 := by omega
  have h4 : (s * 2 ^ 63 + E * 2 ^ 52 + m) / 2 ^ 21 % 2 ^ 27 = m / 2 ^ 21 % 2 ^ 27 := by omega
  simp only [h1, h2, h3, h4]
  have hE' : E ≠ 0 := by omega
  simp only [hE', ne_eq, not_false_eq_true, if_true]
  have hT : (m / 2 ^ 48 + 16) * 2 ^ 27 + m / 2 ^ 21 % 2 ^ 27 = 2 ^ 31 + m / 2 ^ 21 := by omega
  rw [hT]
  exact splitTail_eq s E (m / 2 ^ 21) hs (by omega)

/-- the shape used for every double except the negative ones with `u = 0` -/
theorem splitExt_eq_np (s E m : Nat) (hs : s < 2) (hE0 : 0 < E) (hE : E < 2048) (hm : m < 2 ^ 52)
    (hnp : ¬ (s = 1 ∧ m / 2 ^ 21 = 0)) :
    splitExt (s * 2 ^ 63 + E * 2 ^ 52 + m) =
      ((E : Int) - 1023, if s = 1 then (if m / 2 ^ 21 = 0 then 0 else 2 ^ 32 - m / 2 ^ 21) else m / 2 ^ 21) := by
  rw [splitExt_eq s E m hs hE0 hE hm, if_neg hnp]

/-- negative numbers whose 31 leading mantissa bits are zero (`-2^k` and its neighbours `-2^k·(1+x)`, `x < 2^-31`) -/
theorem splitExt_eq_negpow (E m : Nat) (hE0 : 0 < E) (hE : E < 2048) (hm : m < 2 ^ 21) :
    splitExt (1 * 2 ^ 63 + E * 2 ^ 52 + m) = ((E : Int) - 1024, 2 ^ 31) := by
  rw [splitExt_eq 1 E m (by omega) hE0 hE (by omega), if_pos ⟨rfl, by omega⟩]

theorem decodeTI_single_eq (x : Int) (sb f : Nat) (hx1 : -127 ≤ x) (hx2 : x ≤ 127) (hsb : sb < 2) (hf : f < 2 ^ 23) :
    decodeTI 8 23 ((x % 256).toNat * 2 ^ 24 + (sb * 2 ^ 23 + f)) =
      if sb = 1 then .fin true (2 ^ 24 - f) (x - 23) else .fin false (2 ^ 23 + f) (x - 23) := by
  unfold decodeTI
  generalize hef : (x % 256).toNat = ef
  have hef2 : ef < 256 := by omega
  have f1 : (ef * 2 ^ 24 + (sb * 2 ^ 23 + f)) / 2 ^ (23 + 1) % 2 ^ 8 = ef := by omega
  have f2 : (ef * 2 ^ 24 + (sb * 2 ^ 23 + f)) / 2 ^ 23 % 2 = sb := by omega
  have f3 : (ef * 2 ^ 24 + (sb * 2 ^ 23 + f)) % 2 ^ 23 = f := by omega
  simp only [f1, f2, f3]
  have hne : ¬ (ef = 2 ^ (8 - 1)) := by omega
  rw [if_neg hne]
  have he : (if ef ≥ 2 ^ (8 - 1) then (ef : Int) - 2 ^ 8 else (ef : Int)) = x := by
    split <;> omega
  rw [he]
  by_cases h1 : sb = 1
  · simp [h1]
  · have : sb = 0 := by omega
    simp [this]

/-- `ExtToTIC34xSingle` on values that have an exact encoding (the low 29 mantissa bits are zero), all but the
negative powers of two: value preserved, range decided correctly -/
theorem ti_single_exact_np (s E m : Nat) (hs : s < 2) (hE0 : 0 < E) (hE : E < 2047) (hm : m < 2 ^ 52)
    (hex : m % 2 ^ 29 = 0) (hnp : ¬ (s = 1 ∧ m = 0)) :
    sameOpt ((tiSingle (s * 2 ^ 63 + E * 2 ^ 52 + m)).map (decodeTI 8 23))
      (roundTI 8 23 (decodeDouble (s * 2 ^ 63 + E * 2 ^ 52 + m))) = true := by
  rw [decodeDouble_eq s E m hs (by omega) hm, if_neg (by omega), if_neg (by omega)]
  unfold tiSingle
  have hz : dblIsZero (s * 2 ^ 63 + E * 2 ^ 52 + m) = false := by
    unfold dblIsZero
    have : (s * 2 ^ 63 + E * 2 ^ 52 + m) % 2 ^ 63 ≠ 0 := by omega
    simp [this]
  have hnp21 : ¬ (s = 1 ∧ m / 2 ^ 21 = 0) := fun h => hnp ⟨h.1, by omega⟩
  rw [hz, splitExt_eq_np s E m hs hE0 (by omega) hm hnp21]
  simp only [Bool.false_eq_true, if_false]
  -- specification side
  generalize hsig : 2 ^ 52 + m = sig
  have hs1 : 2 ^ 52 ≤ sig := by omega
  have hs2 : sig < 2 ^ 53 := by omega
  have hsx : sig % 2 ^ 29 = 0 := by omega
  unfold roundTI
  simp only []
  rw [if_neg (show ¬ sig = 0 by omega)]
  have hbl : bitLen sig = 53 := bitLen_eq sig 52 hs1 hs2
  have hq : ulpExp (23 + 1) sig ((E : Int) - 1075) = (E : Int) - 1046 := by
    unfold ulpExp; rw [hbl]; omega
  rw [hq]
  have hr : rneAt ((E : Int) - 1046) sig ((E : Int) - 1075) = sig / 2 ^ 29 := by
    unfold rneAt
    have : ¬ ((E : Int) - 1046 ≤ (E : Int) - 1075) := by omega
    simp only [this, if_false]
    have : ((E : Int) - 1046 - ((E : Int) - 1075)).toNat = 29 := by omega
    rw [this]
    exact rneDiv_exact sig 29 (by omega) hsx
  rw [hr]
  have hR1 : 2 ^ 23 ≤ sig / 2 ^ 29 := by omega
  have hR2 : sig / 2 ^ 29 < 2 ^ 24 := by omega
  have hRm : sig / 2 ^ 29 = 2 ^ 23 + m / 2 ^ 29 := by omega
  by_cases hin : -127 ≤ (E : Int) - 1023 ∧ (E : Int) - 1023 ≤ 127
  · have hck : chkRange ((E : Int) - 1023) (-127) 127 = true := by
      unfold chkRange; simp [hin.1, hin.2]
    simp only [hck, Bool.not_true, Bool.false_eq_true, if_false, Option.map_some]
    by_cases hs1' : s = 1
    · -- negative, not a power of two
      have hm0 : m ≠ 0 := fun h => hnp ⟨hs1', h⟩
      have hu0 : ¬ (m / 2 ^ 21 = 0) := by omega
      simp only [hs1', if_true, hu0, if_false]
      have hin' : tiInRange 8 (1 == 1) (sig / 2 ^ 29) ((E : Int) - 1046) = true := by
        unfold tiInRange
        simp only [show ((1 : Nat) == 1) = true from rfl, if_true]
        rw [ltMag_one_true _ _ _ 23 (by omega) (by omega), leMag_true _ _ _ 24 (by omega) (by omega)]
        rfl
      rw [hin']
      simp only [if_true, sameOpt]
      have hw : (2 ^ 32 - m / 2 ^ 21) / 2 ^ 8 = 1 * 2 ^ 23 + (2 ^ 23 - m / 2 ^ 29) := by omega
      rw [hw, decodeTI_single_eq _ 1 _ hin.1 hin.2 (by omega) (by omega)]
      simp only [if_true]
      have e1 : 2 ^ 24 - (2 ^ 23 - m / 2 ^ 29) = sig / 2 ^ 29 := by omega
      have e2 : (E : Int) - 1023 - 23 = (E : Int) - 1046 := by omega
      rw [e1, e2]
      simp [FVal.same, sameMag_refl]
    · have hs0 : s = 0 := by omega
      simp only [hs1', if_false]
      have hin' : tiInRange 8 (s == 1) (sig / 2 ^ 29) ((E : Int) - 1046) = true := by
        unfold tiInRange
        simp only [hs0, show ((0 : Nat) == 1) = false from rfl, Bool.false_eq_true, if_false]
        rw [leMag_one_true _ _ _ 23 (by omega) (by omega), ltMag_true _ _ _ 24 (by omega) (by omega)]
        rfl
      rw [hin']
      simp only [if_true, sameOpt]
      have hw : m / 2 ^ 21 / 2 ^ 8 = 0 * 2 ^ 23 + m / 2 ^ 29 := by omega
      rw [hw, decodeTI_single_eq _ 0 _ hin.1 hin.2 (by omega) (by omega)]
      simp only [show ¬ ((0 : Nat) = 1) by omega, if_false]
      have e2 : (E : Int) - 1023 - 23 = (E : Int) - 1046 := by omega
      rw [← hRm, e2, hs0]
      simp [FVal.same, sameMag_refl]
  · have hck : chkRange ((E : Int) - 1023) (-127) 127 = false := by
      unfold chkRange
      by_cases h1 : -127 ≤ (E : Int) - 1023
      · have : ¬ ((E : Int) - 1023 ≤ 127) := fun h => hin ⟨h1, h⟩
        simp [this]
      · simp [h1]
    simp only [hck, Bool.not_false, if_true, Option.map_none]
    have hin' : tiInRange 8 (s == 1) (sig / 2 ^ 29) ((E : Int) - 1046) = false := by
      unfold tiInRange
      by_cases hs1' : s = 1
      · have hgt : 2 ^ 23 < sig / 2 ^ 29 := by
          have hm0 : m ≠ 0 := fun h => hnp ⟨hs1', h⟩
          omega
        simp only [hs1', show ((1 : Nat) == 1) = true from rfl, if_true]
        by_cases hlow : (E : Int) - 1023 < -127
        · rw [ltMag_one_false _ _ _ 24 (by omega) (by omega)]; rfl
        · rw [leMag_false _ _ _ 23 hgt (by omega)]; simp
      · have hs0 : s = 0 := by omega
        simp only [hs0, show ((0 : Nat) == 1) = false from rfl, Bool.false_eq_true, if_false]
        by_cases hlow : (E : Int) - 1023 < -127
        · rw [leMag_one_false _ _ _ 24 (by omega) (by omega)]; rfl
        · rw [ltMag_false _ _ _ 23 (by omega) (by omega)]; simp
    rw [hin']
    simp [sameOpt]


/-- `ExtToTIC34xSingle` on `-2^k` and its neighbours `-2^k·(1+x)`, `x < 2^-31` (sign 1, the 31 leading mantissa bits zero):
the emitted constant is `-2^k` = `-2.0·2^(k-1)`, in range for `k-1` in -127..127 -/
theorem ti_single_negpow (E m : Nat) (hE0 : 0 < E) (hE : E < 2048) (hm : m < 2 ^ 21) :
    (tiSingle (1 * 2 ^ 63 + E * 2 ^ 52 + m)).map (decodeTI 8 23) =
      if 1024 - 127 ≤ E ∧ E ≤ 1024 + 127 then some (.fin true (2 ^ 24) ((E : Int) - 1046 - 1)) else none := by
  unfold tiSingle
  have hz : dblIsZero (1 * 2 ^ 63 + E * 2 ^ 52 + m) = false := by
    unfold dblIsZero
    have : (1 * 2 ^ 63 + E * 2 ^ 52 + m) % 2 ^ 63 ≠ 0 := by omega
    exact beq_false_of_ne this
  rw [hz, splitExt_eq_negpow E m hE0 hE hm]
  simp only [Bool.false_eq_true, if_false]
  by_cases hin : 1024 - 127 ≤ E ∧ E ≤ 1024 + 127
  · rw [if_pos hin]
    have hx1 : -127 ≤ (E : Int) - 1024 := by omega
    have hx2 : (E : Int) - 1024 ≤ 127 := by omega
    have hck : chkRange ((E : Int) - 1024) (-127) 127 = true := by
      unfold chkRange; simp [hx1, hx2]
    simp only [hck, Bool.not_true, Bool.false_eq_true, if_false, Option.map_some]
    refine congrArg some ?_
    have hw : 2 ^ 31 / 2 ^ 8 = 1 * 2 ^ 23 + 0 := by omega
    rw [hw, decodeTI_single_eq _ 1 0 hx1 hx2 (by omega) (by omega)]
    simp only [if_true, Nat.sub_zero]
    congr 1; omega
  · rw [if_neg hin]
    have hck : chkRange ((E : Int) - 1024) (-127) 127 = false := by
      unfold chkRange
      by_cases h1 : -127 ≤ (E : Int) - 1024
      · have : ¬ ((E : Int) - 1024 ≤ 127) := by omega
        simp [this]
      · simp [h1]
    simp [hck]

/-- `ExtToTIC34xSingle` on a negative power of two: the value is kept, and the range is decided as the format defines it
(`-2^k` is representable for `k` in -127+1..127+1) -/
theorem ti_single_exact_negpow (E : Nat) (hE0 : 0 < E) (hE : E < 2047) :
    sameOpt ((tiSingle (1 * 2 ^ 63 + E * 2 ^ 52 + 0)).map (decodeTI 8 23))
      (roundTI 8 23 (decodeDouble (1 * 2 ^ 63 + E * 2 ^ 52 + 0))) = true := by
  rw [ti_single_negpow E 0 hE0 (by omega) (by omega)]
  rw [decodeDouble_eq 1 E 0 (by omega) (by omega) (by omega), if_neg (show ¬ E = 2047 by omega), if_neg (show ¬ E = 0 by omega)]
  unfold roundTI
  simp only [Nat.add_zero]
  rw [if_neg (show ¬ (2 ^ 52 = 0) by omega)]
  have hbl : bitLen (2 ^ 52) = 53 := bitLen_eq _ 52 (by omega) (by omega)
  have hq : ulpExp (23 + 1) (2 ^ 52) ((E : Int) - 1075) = (E : Int) - 1046 := by
    unfold ulpExp; rw [hbl]; omega
  rw [hq]
  have hr : rneAt ((E : Int) - 1046) (2 ^ 52) ((E : Int) - 1075) = 2 ^ 23 := by
    unfold rneAt
    have : ¬ ((E : Int) - 1046 ≤ (E : Int) - 1075) := by omega
    simp only [this, if_false]
    have : ((E : Int) - 1046 - ((E : Int) - 1075)).toNat = 29 := by omega
    rw [this, rneDiv_exact _ 29 (by omega) (by omega)]
  rw [hr]
  by_cases hin : 1024 - 127 ≤ E ∧ E ≤ 1024 + 127
  · rw [if_pos hin]
    have hin' : tiInRange 8 (1 == 1) (2 ^ 23) ((E : Int) - 1046) = true := by
      unfold tiInRange
      simp only [show ((1 : Nat) == 1) = true from rfl, if_true]
      rw [ltMag_one_true _ _ _ (23 - 1) (by omega) (by omega), leMag_true _ _ _ 23 (by omega) (by omega)]
      rfl
    rw [hin']
    simp only [if_true, sameOpt, show ((1 : Nat) == 1) = true from rfl]
    apply same_fin
    have := sameMag_shift' (2 ^ 23) ((E : Int) - 1046 - 1) 1
    have e1 : (E : Int) - 1046 - 1 + (1 : Nat) = (E : Int) - 1046 := by omega
    have e2 : 2 ^ 23 * 2 ^ 1 = 2 ^ 24 := by omega
    rw [e1, e2] at this
    exact this
  · rw [if_neg hin]
    have hin' : tiInRange 8 (1 == 1) (2 ^ 23) ((E : Int) - 1046) = false := by
      unfold tiInRange
      simp only [show ((1 : Nat) == 1) = true from rfl, if_true]
      by_cases hlow : E < 1024 - 127
      · rw [ltMag_one_false _ _ _ 23 (by omega) (by omega)]; rfl
      · rw [leMag_false _ _ _ (23 - 1) (by omega) (by omega)]; simp
    rw [hin']
    simp [sameOpt]

/-- **`ExtToTIC34xSingle` on every value that has an exact encoding** (the low 29 mantissa bits are zero): value
preserved, range error exactly when the format has no encoding -/
theorem ti_single_exact (s E m : Nat) (hs : s < 2) (hE0 : 0 < E) (hE : E < 2047) (hm : m < 2 ^ 52)
    (hex : m % 2 ^ 29 = 0) :
    sameOpt ((tiSingle (s * 2 ^ 63 + E * 2 ^ 52 + m)).map (decodeTI 8 23))
      (roundTI 8 23 (decodeDouble (s * 2 ^ 63 + E * 2 ^ 52 + m))) = true := by
  by_cases hnp : s = 1 ∧ m = 0
  · obtain ⟨h1, h2⟩ := hnp
    subst h1; subst h2
    exact ti_single_exact_negpow E hE0 hE
  · exact ti_single_exact_np s E m hs hE0 hE hm hex hnp

/-- what `ExtToTIC34xSingle` computes for every normal double in the exponent range: the significand cut to
24 bits — positive numbers towards zero; negative ones: cut to 32 bits towards zero, negated, and the
two's-complement mantissa cut again (towards minus infinity); for the negative numbers with `m < 2^21` see `ti_single_negpow` -/
theorem ti_single_computes (s E m : Nat) (hs : s < 2) (hE1 : 1023 - 127 ≤ E) (hE2 : E ≤ 1023 + 127) (hm : m < 2 ^ 52)
    (hnp : ¬ (s = 1 ∧ m / 2 ^ 21 = 0)) :
    (tiSingle (s * 2 ^ 63 + E * 2 ^ 52 + m)).map (decodeTI 8 23) =
      some (if s = 1 then .fin true (2 ^ 23 + (m / 2 ^ 21 + 255) / 2 ^ 8) ((E : Int) - 1046)
        else .fin false (2 ^ 23 + m / 2 ^ 29) ((E : Int) - 1046)) := by
  unfold tiSingle
  have hz : dblIsZero (s * 2 ^ 63 + E * 2 ^ 52 + m) = false := by
    unfold dblIsZero
    have : (s * 2 ^ 63 + E * 2 ^ 52 + m) % 2 ^ 63 ≠ 0 := by omega
    exact beq_false_of_ne this
  rw [hz, splitExt_eq_np s E m hs (by omega) (by omega) hm hnp]
  simp only [Bool.false_eq_true, if_false]
  have hx1 : -127 ≤ (E : Int) - 1023 := by omega
  have hx2 : (E : Int) - 1023 ≤ 127 := by omega
  have hck : chkRange ((E : Int) - 1023) (-127) 127 = true := by
    unfold chkRange; simp [hx1, hx2]
  simp only [hck, Bool.not_true, Bool.false_eq_true, if_false, Option.map_some]
  refine congrArg some ?_
  have e2 : (E : Int) - 1023 - 23 = (E : Int) - 1046 := by omega
  by_cases hs1 : s = 1
  · simp only [hs1, if_true]
    have hu0 : ¬ (m / 2 ^ 21 = 0) := fun h => hnp ⟨hs1, h⟩
    · simp only [hu0, if_false]
      have hw : (2 ^ 32 - m / 2 ^ 21) / 2 ^ 8 = 1 * 2 ^ 23 + ((2 ^ 32 - m / 2 ^ 21) / 2 ^ 8 - 2 ^ 23) := by omega
      rw [hw, decodeTI_single_eq _ 1 _ hx1 hx2 (by omega) (by omega)]
      simp only [if_true, e2]
      have e1 : 2 ^ 24 - ((2 ^ 32 - m / 2 ^ 21) / 2 ^ 8 - 2 ^ 23) = 2 ^ 23 + (m / 2 ^ 21 + 255) / 2 ^ 8 := by omega
      rw [e1]
  · have hs0 : s = 0 := by omega
    simp only [hs1, if_false]
    have hw : m / 2 ^ 21 / 2 ^ 8 = 0 * 2 ^ 23 + m / 2 ^ 29 := by omega
    rw [hw, decodeTI_single_eq _ 0 _ hx1 hx2 (by omega) (by omega)]
    simp only [show ¬ ((0 : Nat) = 1) by omega, if_false, e2]
    all_goals (congr 1; omega)

/-- outside the exponent range `ExtToTIC34xSingle` reports a range error (negative numbers with `m < 2^21`: `ti_single_negpow`) -/
theorem ti_single_range (s E m : Nat) (hs : s < 2) (hE0 : 0 < E) (hE : E < 2048) (hm : m < 2 ^ 52)
    (hnp : ¬ (s = 1 ∧ m / 2 ^ 21 = 0)) (hout : E < 1023 - 127 ∨ 1023 + 127 < E) :
    tiSingle (s * 2 ^ 63 + E * 2 ^ 52 + m) = none := by
  unfold tiSingle
  have hz : dblIsZero (s * 2 ^ 63 + E * 2 ^ 52 + m) = false := by
    unfold dblIsZero
    have : (s * 2 ^ 63 + E * 2 ^ 52 + m) % 2 ^ 63 ≠ 0 := by omega
    exact beq_false_of_ne this
  rw [hz, splitExt_eq_np s E m hs hE0 hE hm hnp]
  have hck : chkRange ((E : Int) - 1023) (-127) 127 = false := by
    unfold chkRange
    rcases hout with h | h
    · have : ¬ (-127 ≤ (E : Int) - 1023) := by omega
      simp [this]
    · have : ¬ ((E : Int) - 1023 ≤ 127) := by omega
      simp [this]
  simp [hck]
theorem decodeTI_ext_eq (x : Int) (sb f : Nat) (hx1 : -127 ≤ x) (hx2 : x ≤ 127) (hsb : sb < 2) (hf : f < 2 ^ 31) :
    decodeTI 8 31 ((x % 256).toNat * 2 ^ 32 + (sb * 2 ^ 31 + f)) =
      if sb = 1 then .fin true (2 ^ 32 - f) (x - 31) else .fin false (2 ^ 31 + f) (x - 31) := by
  unfold decodeTI
  generalize hef : (x % 256).toNat = ef
  have hef2 : ef < 256 := by omega
  have f1 : (ef * 2 ^ 32 + (sb * 2 ^ 31 + f)) / 2 ^ (31 + 1) % 2 ^ 8 = ef := by omega
  have f2 : (ef * 2 ^ 32 + (sb * 2 ^ 31 + f)) / 2 ^ 31 % 2 = sb := by omega
  have f3 : (ef * 2 ^ 32 + (sb * 2 ^ 31 + f)) % 2 ^ 31 = f := by omega
  simp only [f1, f2, f3]
  have hne : ¬ (ef = 2 ^ (8 - 1)) := by omega
  rw [if_neg hne]
  have he : (if ef ≥ 2 ^ (8 - 1) then (ef : Int) - 2 ^ 8 else (ef : Int)) = x := by
    split <;> omega
  rw [he]
  by_cases h1 : sb = 1
  · simp [h1]
  · have : sb = 0 := by omega
    simp [this]

/-- `ExtToTIC34xExt` on values that have an exact encoding (the low 21 mantissa bits are zero), all but the
negative powers of two: value preserved, range decided correctly -/
theorem ti_ext_exact_np (s E m : Nat) (hs : s < 2) (hE0 : 0 < E) (hE : E < 2047) (hm : m < 2 ^ 52)
    (hex : m % 2 ^ 21 = 0) (hnp : ¬ (s = 1 ∧ m = 0)) :
    sameOpt ((tiExt (s * 2 ^ 63 + E * 2 ^ 52 + m)).map (decodeTI 8 31))
      (roundTI 8 31 (decodeDouble (s * 2 ^ 63 + E * 2 ^ 52 + m))) = true := by
  rw [decodeDouble_eq s E m hs (by omega) hm, if_neg (by omega), if_neg (by omega)]
  unfold tiExt
  have hz : dblIsZero (s * 2 ^ 63 + E * 2 ^ 52 + m) = false := by
    unfold dblIsZero
    have : (s * 2 ^ 63 + E * 2 ^ 52 + m) % 2 ^ 63 ≠ 0 := by omega
    simp [this]
  have hnp21 : ¬ (s = 1 ∧ m / 2 ^ 21 = 0) := fun h => hnp ⟨h.1, by omega⟩
  rw [hz, splitExt_eq_np s E m hs hE0 (by omega) hm hnp21]
  simp only [Bool.false_eq_true, if_false]
  -- specification side
  generalize hsig : 2 ^ 52 + m = sig
  have hs1 : 2 ^ 52 ≤ sig := by omega
  have hs2 : sig < 2 ^ 53 := by omega
  have hsx : sig % 2 ^ 21 = 0 := by omega
  unfold roundTI
  simp only []
  rw [if_neg (show ¬ sig = 0 by omega)]
  have hbl : bitLen sig = 53 := bitLen_eq sig 52 hs1 hs2
  have hq : ulpExp (31 + 1) sig ((E : Int) - 1075) = (E : Int) - 1054 := by
    unfold ulpExp; rw [hbl]; omega
  rw [hq]
  have hr : rneAt ((E : Int) - 1054) sig ((E : Int) - 1075) = sig / 2 ^ 21 := by
    unfold rneAt
    have : ¬ ((E : Int) - 1054 ≤ (E : Int) - 1075) := by omega
    simp only [this, if_false]
    have : ((E : Int) - 1054 - ((E : Int) - 1075)).toNat = 21 := by omega
    rw [this]
    exact rneDiv_exact sig 21 (by omega) hsx
  rw [hr]
  have hR1 : 2 ^ 31 ≤ sig / 2 ^ 21 := by omega
  have hR2 : sig / 2 ^ 21 < 2 ^ 32 := by omega
  have hRm : sig / 2 ^ 21 = 2 ^ 31 + m / 2 ^ 21 := by omega
  by_cases hin : -127 ≤ (E : Int) - 1023 ∧ (E : Int) - 1023 ≤ 127
  · have hck : chkRange ((E : Int) - 1023) (-127) 127 = true := by
      unfold chkRange; simp [hin.1, hin.2]
    simp only [hck, Bool.not_true, Bool.false_eq_true, if_false, Option.map_some]
    by_cases hs1' : s = 1
    · -- negative, not a power of two
      have hm0 : m ≠ 0 := fun h => hnp ⟨hs1', h⟩
      have hu0 : ¬ (m / 2 ^ 21 = 0) := by omega
      simp only [hs1', if_true, hu0, if_false]
      have hin' : tiInRange 8 (1 == 1) (sig / 2 ^ 21) ((E : Int) - 1054) = true := by
        unfold tiInRange
        simp only [show ((1 : Nat) == 1) = true from rfl, if_true]
        rw [ltMag_one_true _ _ _ 31 (by omega) (by omega), leMag_true _ _ _ 32 (by omega) (by omega)]
        rfl
      rw [hin']
      simp only [if_true, sameOpt]
      have hw : 2 ^ 32 - m / 2 ^ 21 = 1 * 2 ^ 31 + (2 ^ 31 - m / 2 ^ 21) := by omega
      rw [hw, decodeTI_ext_eq _ 1 _ hin.1 hin.2 (by omega) (by omega)]
      simp only [if_true]
      have e1 : 2 ^ 32 - (2 ^ 31 - m / 2 ^ 21) = sig / 2 ^ 21 := by omega
      have e2 : (E : Int) - 1023 - 31 = (E : Int) - 1054 := by omega
      rw [e1, e2]
      simp [FVal.same, sameMag_refl]
    · have hs0 : s = 0 := by omega
      simp only [hs1', if_false]
      have hin' : tiInRange 8 (s == 1) (sig / 2 ^ 21) ((E : Int) - 1054) = true := by
        unfold tiInRange
        simp only [hs0, show ((0 : Nat) == 1) = false from rfl, Bool.false_eq_true, if_false]
        rw [leMag_one_true _ _ _ 31 (by omega) (by omega), ltMag_true _ _ _ 32 (by omega) (by omega)]
        rfl
      rw [hin']
      simp only [if_true, sameOpt]
      have hw : m / 2 ^ 21 = 0 * 2 ^ 31 + m / 2 ^ 21 := by omega
      rw [hw, decodeTI_ext_eq _ 0 _ hin.1 hin.2 (by omega) (by omega)]
      simp only [show ¬ ((0 : Nat) = 1) by omega, if_false]
      have e2 : (E : Int) - 1023 - 31 = (E : Int) - 1054 := by omega
      rw [← hRm, e2, hs0]
      simp [FVal.same, sameMag_refl]
  · have hck : chkRange ((E : Int) - 1023) (-127) 127 = false := by
      unfold chkRange
      by_cases h1 : -127 ≤ (E : Int) - 1023
      · have : ¬ ((E : Int) - 1023 ≤ 127) := fun h => hin ⟨h1, h⟩
        simp [this]
      · simp [h1]
    simp only [hck, Bool.not_false, if_true, Option.map_none]
    have hin' : tiInRange 8 (s == 1) (sig / 2 ^ 21) ((E : Int) - 1054) = false := by
      unfold tiInRange
      by_cases hs1' : s = 1
      · have hgt : 2 ^ 31 < sig / 2 ^ 21 := by
          have hm0 : m ≠ 0 := fun h => hnp ⟨hs1', h⟩
          omega
        simp only [hs1', show ((1 : Nat) == 1) = true from rfl, if_true]
        by_cases hlow : (E : Int) - 1023 < -127
        · rw [ltMag_one_false _ _ _ 32 (by omega) (by omega)]; rfl
        · rw [leMag_false _ _ _ 31 hgt (by omega)]; simp
      · have hs0 : s = 0 := by omega
        simp only [hs0, show ((0 : Nat) == 1) = false from rfl, Bool.false_eq_true, if_false]
        by_cases hlow : (E : Int) - 1023 < -127
        · rw [leMag_one_false _ _ _ 32 (by omega) (by omega)]; rfl
        · rw [ltMag_false _ _ _ 31 (by omega) (by omega)]; simp
    rw [hin']
    simp [sameOpt]


/-- `ExtToTIC34xExt` on `-2^k` and its neighbours `-2^k·(1+x)`, `x < 2^-31` (sign 1, the 31 leading mantissa bits zero):
the emitted constant is `-2^k` = `-2.0·2^(k-1)`, in range for `k-1` in -127..127 -/
theorem ti_ext_negpow (E m : Nat) (hE0 : 0 < E) (hE : E < 2048) (hm : m < 2 ^ 21) :
    (tiExt (1 * 2 ^ 63 + E * 2 ^ 52 + m)).map (decodeTI 8 31) =
      if 1024 - 127 ≤ E ∧ E ≤ 1024 + 127 then some (.fin true (2 ^ 32) ((E : Int) - 1054 - 1)) else none := by
  unfold tiExt
  have hz : dblIsZero (1 * 2 ^ 63 + E * 2 ^ 52 + m) = false := by
    unfold dblIsZero
    have : (1 * 2 ^ 63 + E * 2 ^ 52 + m) % 2 ^ 63 ≠ 0 := by omega
    exact beq_false_of_ne this
  rw [hz, splitExt_eq_negpow E m hE0 hE hm]
  simp only [Bool.false_eq_true, if_false]
  by_cases hin : 1024 - 127 ≤ E ∧ E ≤ 1024 + 127
  · rw [if_pos hin]
    have hx1 : -127 ≤ (E : Int) - 1024 := by omega
    have hx2 : (E : Int) - 1024 ≤ 127 := by omega
    have hck : chkRange ((E : Int) - 1024) (-127) 127 = true := by
      unfold chkRange; simp [hx1, hx2]
    simp only [hck, Bool.not_true, Bool.false_eq_true, if_false, Option.map_some]
    refine congrArg some ?_
    have hw : 2 ^ 31 = 1 * 2 ^ 31 + 0 := by omega
    rw [hw, decodeTI_ext_eq _ 1 0 hx1 hx2 (by omega) (by omega)]
    simp only [if_true, Nat.sub_zero]
    congr 1; omega
  · rw [if_neg hin]
    have hck : chkRange ((E : Int) - 1024) (-127) 127 = false := by
      unfold chkRange
      by_cases h1 : -127 ≤ (E : Int) - 1024
      · have : ¬ ((E : Int) - 1024 ≤ 127) := by omega
        simp [this]
      · simp [h1]
    simp [hck]

/-- `ExtToTIC34xExt` on a negative power of two: the value is kept, and the range is decided as the format defines it
(`-2^k` is representable for `k` in -127+1..127+1) -/
theorem ti_ext_exact_negpow (E : Nat) (hE0 : 0 < E) (hE : E < 2047) :
    sameOpt ((tiExt (1 * 2 ^ 63 + E * 2 ^ 52 + 0)).map (decodeTI 8 31))
      (roundTI 8 31 (decodeDouble (1 * 2 ^ 63 + E * 2 ^ 52 + 0))) = true := by
  rw [ti_ext_negpow E 0 hE0 (by omega) (by omega)]
  rw [decodeDouble_eq 1 E 0 (by omega) (by omega) (by omega), if_neg (show ¬ E = 2047 by omega), if_neg (show ¬ E = 0 by omega)]
  unfold roundTI
  simp only [Nat.add_zero]
  rw [if_neg (show ¬ (2 ^ 52 = 0) by omega)]
  have hbl : bitLen (2 ^ 52) = 53 := bitLen_eq _ 52 (by omega) (by omega)
  have hq : ulpExp (31 + 1) (2 ^ 52) ((E : Int) - 1075) = (E : Int) - 1054 := by
    unfold ulpExp; rw [hbl]; omega
  rw [hq]
  have hr : rneAt ((E : Int) - 1054) (2 ^ 52) ((E : Int) - 1075) = 2 ^ 31 := by
    unfold rneAt
    have : ¬ ((E : Int) - 1054 ≤ (E : Int) - 1075) := by omega
    simp only [this, if_false]
    have : ((E : Int) - 1054 - ((E : Int) - 1075)).toNat = 21 := by omega
    rw [this, rneDiv_exact _ 21 (by omega) (by omega)]
  rw [hr]
  by_cases hin : 1024 - 127 ≤ E ∧ E ≤ 1024 + 127
  · rw [if_pos hin]
    have hin' : tiInRange 8 (1 == 1) (2 ^ 31) ((E : Int) - 1054) = true := by
      unfold tiInRange
      simp only [show ((1 : Nat) == 1) = true from rfl, if_true]
      rw [ltMag_one_true _ _ _ (31 - 1) (by omega) (by omega), leMag_true _ _ _ 31 (by omega) (by omega)]
      rfl
    rw [hin']
    simp only [if_true, sameOpt, show ((1 : Nat) == 1) = true from rfl]
    apply same_fin
    have := sameMag_shift' (2 ^ 31) ((E : Int) - 1054 - 1) 1
    have e1 : (E : Int) - 1054 - 1 + (1 : Nat) = (E : Int) - 1054 := by omega
    have e2 : 2 ^ 31 * 2 ^ 1 = 2 ^ 32 := by omega
    rw [e1, e2] at this
    exact this
  · rw [if_neg hin]
    have hin' : tiInRange 8 (1 == 1) (2 ^ 31) ((E : Int) - 1054) = false := by
      unfold tiInRange
      simp only [show ((1 : Nat) == 1) = true from rfl, if_true]
      by_cases hlow : E < 1024 - 127
      · rw [ltMag_one_false _ _ _ 31 (by omega) (by omega)]; rfl
      · rw [leMag_false _ _ _ (31 - 1) (by omega) (by omega)]; simp
    rw [hin']
    simp [sameOpt]

/-- **`ExtToTIC34xExt` on every value that has an exact encoding** (the low 21 mantissa bits are zero): value
preserved, range error exactly when the format has no encoding -/
theorem ti_ext_exact (s E m : Nat) (hs : s < 2) (hE0 : 0 < E) (hE : E < 2047) (hm : m < 2 ^ 52)
    (hex : m % 2 ^ 21 = 0) :
    sameOpt ((tiExt (s * 2 ^ 63 + E * 2 ^ 52 + m)).map (decodeTI 8 31))
      (roundTI 8 31 (decodeDouble (s * 2 ^ 63 + E * 2 ^ 52 + m))) = true := by
  by_cases hnp : s = 1 ∧ m = 0
  · obtain ⟨h1, h2⟩ := hnp
    subst h1; subst h2
    exact ti_ext_exact_negpow E hE0 hE
  · exact ti_ext_exact_np s E m hs hE0 hE hm hex hnp

/-- what `ExtToTIC34xExt` computes for every normal double in the exponent range: the significand cut to
32 bits — positive numbers towards zero; negative ones: cut to 32 bits towards zero, negated, and the
two's-complement mantissa cut again (towards minus infinity); for the negative numbers with `m < 2^21` see `ti_ext_negpow` -/
theorem ti_ext_computes (s E m : Nat) (hs : s < 2) (hE1 : 1023 - 127 ≤ E) (hE2 : E ≤ 1023 + 127) (hm : m < 2 ^ 52)
    (hnp : ¬ (s = 1 ∧ m / 2 ^ 21 = 0)) :
    (tiExt (s * 2 ^ 63 + E * 2 ^ 52 + m)).map (decodeTI 8 31) =
      some (if s = 1 then .fin true (2 ^ 31 + m / 2 ^ 21) ((E : Int) - 1054)
        else .fin false (2 ^ 31 + m / 2 ^ 21) ((E : Int) - 1054)) := by
  unfold tiExt
  have hz : dblIsZero (s * 2 ^ 63 + E * 2 ^ 52 + m) = false := by
    unfold dblIsZero
    have : (s * 2 ^ 63 + E * 2 ^ 52 + m) % 2 ^ 63 ≠ 0 := by omega
    exact beq_false_of_ne this
  rw [hz, splitExt_eq_np s E m hs (by omega) (by omega) hm hnp]
  simp only [Bool.false_eq_true, if_false]
  have hx1 : -127 ≤ (E : Int) - 1023 := by omega
  have hx2 : (E : Int) - 1023 ≤ 127 := by omega
  have hck : chkRange ((E : Int) - 1023) (-127) 127 = true := by
    unfold chkRange; simp [hx1, hx2]
  simp only [hck, Bool.not_true, Bool.false_eq_true, if_false, Option.map_some]
  refine congrArg some ?_
  have e2 : (E : Int) - 1023 - 31 = (E : Int) - 1054 := by omega
  by_cases hs1 : s = 1
  · simp only [hs1, if_true]
    have hu0 : ¬ (m / 2 ^ 21 = 0) := fun h => hnp ⟨hs1, h⟩
    · simp only [hu0, if_false]
      have hw : (2 ^ 32 - m / 2 ^ 21) = 1 * 2 ^ 31 + ((2 ^ 32 - m / 2 ^ 21) - 2 ^ 31) := by omega
      rw [hw, decodeTI_ext_eq _ 1 _ hx1 hx2 (by omega) (by omega)]
      simp only [if_true, e2]
      have e1 : 2 ^ 32 - ((2 ^ 32 - m / 2 ^ 21) - 2 ^ 31) = 2 ^ 31 + m / 2 ^ 21 := by omega
      rw [e1]
  · have hs0 : s = 0 := by omega
    simp only [hs1, if_false]
    have hw : m / 2 ^ 21 = 0 * 2 ^ 31 + m / 2 ^ 21 := by omega
    rw [hw, decodeTI_ext_eq _ 0 _ hx1 hx2 (by omega) (by omega)]
    simp only [show ¬ ((0 : Nat) = 1) by omega, if_false, e2]
    all_goals (congr 1; omega)

/-- outside the exponent range `ExtToTIC34xExt` reports a range error (negative numbers with `m < 2^21`: `ti_ext_negpow`) -/
theorem ti_ext_range (s E m : Nat) (hs : s < 2) (hE0 : 0 < E) (hE : E < 2048) (hm : m < 2 ^ 52)
    (hnp : ¬ (s = 1 ∧ m / 2 ^ 21 = 0)) (hout : E < 1023 - 127 ∨ 1023 + 127 < E) :
    tiExt (s * 2 ^ 63 + E * 2 ^ 52 + m) = none := by
  unfold tiExt
  have hz : dblIsZero (s * 2 ^ 63 + E * 2 ^ 52 + m) = false := by
    unfold dblIsZero
    have : (s * 2 ^ 63 + E * 2 ^ 52 + m) % 2 ^ 63 ≠ 0 := by omega
    exact beq_false_of_ne this
  rw [hz, splitExt_eq_np s E m hs hE0 hE hm hnp]
  have hck : chkRange ((E : Int) - 1023) (-127) 127 = false := by
    unfold chkRange
    rcases hout with h | h
    · have : ¬ (-127 ≤ (E : Int) - 1023) := by omega
      simp [this]
    · have : ¬ ((E : Int) - 1023 ≤ 127) := by omega
      simp [this]
  simp [hck]
theorem decodeTI_short_eq (x : Int) (sb f : Nat) (hx1 : -7 ≤ x) (hx2 : x ≤ 7) (hsb : sb < 2) (hf : f < 2 ^ 11) :
    decodeTI 4 11 ((x % 16).toNat * 2 ^ 12 + (sb * 2 ^ 11 + f)) =
      if sb = 1 then .fin true (2 ^ 12 - f) (x - 11) else .fin false (2 ^ 11 + f) (x - 11) := by
  unfold decodeTI
  generalize hef : (x % 16).toNat = ef
  have hef2 : ef < 16 := by omega
  have f1 : (ef * 2 ^ 12 + (sb * 2 ^ 11 + f)) / 2 ^ (11 + 1) % 2 ^ 4 = ef := by omega
  have f2 : (ef * 2 ^ 12 + (sb * 2 ^ 11 + f)) / 2 ^ 11 % 2 = sb := by omega
  have f3 : (ef * 2 ^ 12 + (sb * 2 ^ 11 + f)) % 2 ^ 11 = f := by omega
  simp only [f1, f2, f3]
  have hne : ¬ (ef = 2 ^ (4 - 1)) := by omega
  rw [if_neg hne]
  have he : (if ef ≥ 2 ^ (4 - 1) then (ef : Int) - 2 ^ 4 else (ef : Int)) = x := by
    split <;> omega
  rw [he]
  by_cases h1 : sb = 1
  · simp [h1]
  · have : sb = 0 := by omega
    simp [this]

/-- `ExtToTIC34xShort` on values that have an exact encoding (the low 41 mantissa bits are zero), all but the
negative powers of two: value preserved, range decided correctly -/
theorem ti_short_exact_np (s E m : Nat) (hs : s < 2) (hE0 : 0 < E) (hE : E < 2047) (hm : m < 2 ^ 52)
    (hex : m % 2 ^ 41 = 0) (hnp : ¬ (s = 1 ∧ m = 0)) :
    sameOpt ((tiShort (s * 2 ^ 63 + E * 2 ^ 52 + m)).map (decodeTI 4 11))
      (roundTI 4 11 (decodeDouble (s * 2 ^ 63 + E * 2 ^ 52 + m))) = true := by
  rw [decodeDouble_eq s E m hs (by omega) hm, if_neg (by omega), if_neg (by omega)]
  unfold tiShort
  have hz : dblIsZero (s * 2 ^ 63 + E * 2 ^ 52 + m) = false := by
    unfold dblIsZero
    have : (s * 2 ^ 63 + E * 2 ^ 52 + m) % 2 ^ 63 ≠ 0 := by omega
    simp [this]
  have hnp21 : ¬ (s = 1 ∧ m / 2 ^ 21 = 0) := fun h => hnp ⟨h.1, by omega⟩
  rw [hz, splitExt_eq_np s E m hs hE0 (by omega) hm hnp21]
  simp only [Bool.false_eq_true, if_false]
  -- specification side
  generalize hsig : 2 ^ 52 + m = sig
  have hs1 : 2 ^ 52 ≤ sig := by omega
  have hs2 : sig < 2 ^ 53 := by omega
  have hsx : sig % 2 ^ 41 = 0 := by omega
  unfold roundTI
  simp only []
  rw [if_neg (show ¬ sig = 0 by omega)]
  have hbl : bitLen sig = 53 := bitLen_eq sig 52 hs1 hs2
  have hq : ulpExp (11 + 1) sig ((E : Int) - 1075) = (E : Int) - 1034 := by
    unfold ulpExp; rw [hbl]; omega
  rw [hq]
  have hr : rneAt ((E : Int) - 1034) sig ((E : Int) - 1075) = sig / 2 ^ 41 := by
    unfold rneAt
    have : ¬ ((E : Int) - 1034 ≤ (E : Int) - 1075) := by omega
    simp only [this, if_false]
    have : ((E : Int) - 1034 - ((E : Int) - 1075)).toNat = 41 := by omega
    rw [this]
    exact rneDiv_exact sig 41 (by omega) hsx
  rw [hr]
  have hR1 : 2 ^ 11 ≤ sig / 2 ^ 41 := by omega
  have hR2 : sig / 2 ^ 41 < 2 ^ 12 := by omega
  have hRm : sig / 2 ^ 41 = 2 ^ 11 + m / 2 ^ 41 := by omega
  by_cases hin : -7 ≤ (E : Int) - 1023 ∧ (E : Int) - 1023 ≤ 7
  · have hck : chkRange ((E : Int) - 1023) (-7) 7 = true := by
      unfold chkRange; simp [hin.1, hin.2]
    simp only [hck, Bool.not_true, Bool.false_eq_true, if_false, Option.map_some]
    by_cases hs1' : s = 1
    · -- negative, not a power of two
      have hm0 : m ≠ 0 := fun h => hnp ⟨hs1', h⟩
      have hu0 : ¬ (m / 2 ^ 21 = 0) := by omega
      simp only [hs1', if_true, hu0, if_false]
      have hin' : tiInRange 4 (1 == 1) (sig / 2 ^ 41) ((E : Int) - 1034) = true := by
        unfold tiInRange
        simp only [show ((1 : Nat) == 1) = true from rfl, if_true]
        rw [ltMag_one_true _ _ _ 11 (by omega) (by omega), leMag_true _ _ _ 12 (by omega) (by omega)]
        rfl
      rw [hin']
      simp only [if_true, sameOpt]
      have hw : (2 ^ 32 - m / 2 ^ 21) / 2 ^ 20 % 2 ^ 12 = 1 * 2 ^ 11 + (2 ^ 11 - m / 2 ^ 41) := by omega
      rw [hw, decodeTI_short_eq _ 1 _ hin.1 hin.2 (by omega) (by omega)]
      simp only [if_true]
      have e1 : 2 ^ 12 - (2 ^ 11 - m / 2 ^ 41) = sig / 2 ^ 41 := by omega
      have e2 : (E : Int) - 1023 - 11 = (E : Int) - 1034 := by omega
      rw [e1, e2]
      simp [FVal.same, sameMag_refl]
    · have hs0 : s = 0 := by omega
      simp only [hs1', if_false]
      have hin' : tiInRange 4 (s == 1) (sig / 2 ^ 41) ((E : Int) - 1034) = true := by
        unfold tiInRange
        simp only [hs0, show ((0 : Nat) == 1) = false from rfl, Bool.false_eq_true, if_false]
        rw [leMag_one_true _ _ _ 11 (by omega) (by omega), ltMag_true _ _ _ 12 (by omega) (by omega)]
        rfl
      rw [hin']
      simp only [if_true, sameOpt]
      have hw : m / 2 ^ 21 / 2 ^ 20 % 2 ^ 12 = 0 * 2 ^ 11 + m / 2 ^ 41 := by omega
      rw [hw, decodeTI_short_eq _ 0 _ hin.1 hin.2 (by omega) (by omega)]
      simp only [show ¬ ((0 : Nat) = 1) by omega, if_false]
      have e2 : (E : Int) - 1023 - 11 = (E : Int) - 1034 := by omega
      rw [← hRm, e2, hs0]
      simp [FVal.same, sameMag_refl]
  · have hck : chkRange ((E : Int) - 1023) (-7) 7 = false := by
      unfold chkRange
      by_cases h1 : -7 ≤ (E : Int) - 1023
      · have : ¬ ((E : Int) - 1023 ≤ 7) := fun h => hin ⟨h1, h⟩
        simp [this]
      · simp [h1]
    simp only [hck, Bool.not_false, if_true, Option.map_none]
    have hin' : tiInRange 4 (s == 1) (sig / 2 ^ 41) ((E : Int) - 1034) = false := by
      unfold tiInRange
      by_cases hs1' : s = 1
      · have hgt : 2 ^ 11 < sig / 2 ^ 41 := by
          have hm0 : m ≠ 0 := fun h => hnp ⟨hs1', h⟩
          omega
        simp only [hs1', show ((1 : Nat) == 1) = true from rfl, if_true]
        by_cases hlow : (E : Int) - 1023 < -7
        · rw [ltMag_one_false _ _ _ 12 (by omega) (by omega)]; rfl
        · rw [leMag_false _ _ _ 11 hgt (by omega)]; simp
      · have hs0 : s = 0 := by omega
        simp only [hs0, show ((0 : Nat) == 1) = false from rfl, Bool.false_eq_true, if_false]
        by_cases hlow : (E : Int) - 1023 < -7
        · rw [leMag_one_false _ _ _ 12 (by omega) (by omega)]; rfl
        · rw [ltMag_false _ _ _ 11 (by omega) (by omega)]; simp
    rw [hin']
    simp [sameOpt]


/-- `ExtToTIC34xShort` on `-2^k` and its neighbours `-2^k·(1+x)`, `x < 2^-31` (sign 1, the 31 leading mantissa bits zero):
the emitted constant is `-2^k` = `-2.0·2^(k-1)`, in range for `k-1` in -7..7 -/
theorem ti_short_negpow (E m : Nat) (hE0 : 0 < E) (hE : E < 2048) (hm : m < 2 ^ 21) :
    (tiShort (1 * 2 ^ 63 + E * 2 ^ 52 + m)).map (decodeTI 4 11) =
      if 1024 - 7 ≤ E ∧ E ≤ 1024 + 7 then some (.fin true (2 ^ 12) ((E : Int) - 1034 - 1)) else none := by
  unfold tiShort
  have hz : dblIsZero (1 * 2 ^ 63 + E * 2 ^ 52 + m) = false := by
    unfold dblIsZero
    have : (1 * 2 ^ 63 + E * 2 ^ 52 + m) % 2 ^ 63 ≠ 0 := by omega
    exact beq_false_of_ne this
  rw [hz, splitExt_eq_negpow E m hE0 hE hm]
  simp only [Bool.false_eq_true, if_false]
  by_cases hin : 1024 - 7 ≤ E ∧ E ≤ 1024 + 7
  · rw [if_pos hin]
    have hx1 : -7 ≤ (E : Int) - 1024 := by omega
    have hx2 : (E : Int) - 1024 ≤ 7 := by omega
    have hck : chkRange ((E : Int) - 1024) (-7) 7 = true := by
      unfold chkRange; simp [hx1, hx2]
    simp only [hck, Bool.not_true, Bool.false_eq_true, if_false, Option.map_some]
    refine congrArg some ?_
    have hw : 2 ^ 31 / 2 ^ 20 % 2 ^ 12 = 1 * 2 ^ 11 + 0 := by omega
    rw [hw, decodeTI_short_eq _ 1 0 hx1 hx2 (by omega) (by omega)]
    simp only [if_true, Nat.sub_zero]
    congr 1; omega
  · rw [if_neg hin]
    have hck : chkRange ((E : Int) - 1024) (-7) 7 = false := by
      unfold chkRange
      by_cases h1 : -7 ≤ (E : Int) - 1024
      · have : ¬ ((E : Int) - 1024 ≤ 7) := by omega
        simp [this]
      · simp [h1]
    simp [hck]

/-- `ExtToTIC34xShort` on a negative power of two: the value is kept, and the range is decided as the format defines it
(`-2^k` is representable for `k` in -7+1..7+1) -/
theorem ti_short_exact_negpow (E : Nat) (hE0 : 0 < E) (hE : E < 2047) :
    sameOpt ((tiShort (1 * 2 ^ 63 + E * 2 ^ 52 + 0)).map (decodeTI 4 11))
      (roundTI 4 11 (decodeDouble (1 * 2 ^ 63 + E * 2 ^ 52 + 0))) = true := by
  rw [ti_short_negpow E 0 hE0 (by omega) (by omega)]
  rw [decodeDouble_eq 1 E 0 (by omega) (by omega) (by omega), if_neg (show ¬ E = 2047 by omega), if_neg (show ¬ E = 0 by omega)]
  unfold roundTI
  simp only [Nat.add_zero]
  rw [if_neg (show ¬ (2 ^ 52 = 0) by omega)]
  have hbl : bitLen (2 ^ 52) = 53 := bitLen_eq _ 52 (by omega) (by omega)
  have hq : ulpExp (11 + 1) (2 ^ 52) ((E : Int) - 1075) = (E : Int) - 1034 := by
    unfold ulpExp; rw [hbl]; omega
  rw [hq]
  have hr : rneAt ((E : Int) - 1034) (2 ^ 52) ((E : Int) - 1075) = 2 ^ 11 := by
    unfold rneAt
    have : ¬ ((E : Int) - 1034 ≤ (E : Int) - 1075) := by omega
    simp only [this, if_false]
    have : ((E : Int) - 1034 - ((E : Int) - 1075)).toNat = 41 := by omega
    rw [this, rneDiv_exact _ 41 (by omega) (by omega)]
  rw [hr]
  by_cases hin : 1024 - 7 ≤ E ∧ E ≤ 1024 + 7
  · rw [if_pos hin]
    have hin' : tiInRange 4 (1 == 1) (2 ^ 11) ((E : Int) - 1034) = true := by
      unfold tiInRange
      simp only [show ((1 : Nat) == 1) = true from rfl, if_true]
      rw [ltMag_one_true _ _ _ (11 - 1) (by omega) (by omega), leMag_true _ _ _ 11 (by omega) (by omega)]
      rfl
    rw [hin']
    simp only [if_true, sameOpt, show ((1 : Nat) == 1) = true from rfl]
    apply same_fin
    have := sameMag_shift' (2 ^ 11) ((E : Int) - 1034 - 1) 1
    have e1 : (E : Int) - 1034 - 1 + (1 : Nat) = (E : Int) - 1034 := by omega
    have e2 : 2 ^ 11 * 2 ^ 1 = 2 ^ 12 := by omega
    rw [e1, e2] at this
    exact this
  · rw [if_neg hin]
    have hin' : tiInRange 4 (1 == 1) (2 ^ 11) ((E : Int) - 1034) = false := by
      unfold tiInRange
      simp only [show ((1 : Nat) == 1) = true from rfl, if_true]
      by_cases hlow : E < 1024 - 7
      · rw [ltMag_one_false _ _ _ 11 (by omega) (by omega)]; rfl
      · rw [leMag_false _ _ _ (11 - 1) (by omega) (by omega)]; simp
    rw [hin']
    simp [sameOpt]

/-- **`ExtToTIC34xShort` on every value that has an exact encoding** (the low 41 mantissa bits are zero): value
preserved, range error exactly when the format has no encoding -/
theorem ti_short_exact (s E m : Nat) (hs : s < 2) (hE0 : 0 < E) (hE : E < 2047) (hm : m < 2 ^ 52)
    (hex : m % 2 ^ 41 = 0) :
    sameOpt ((tiShort (s * 2 ^ 63 + E * 2 ^ 52 + m)).map (decodeTI 4 11))
      (roundTI 4 11 (decodeDouble (s * 2 ^ 63 + E * 2 ^ 52 + m))) = true := by
  by_cases hnp : s = 1 ∧ m = 0
  · obtain ⟨h1, h2⟩ := hnp
    subst h1; subst h2
    exact ti_short_exact_negpow E hE0 hE
  · exact ti_short_exact_np s E m hs hE0 hE hm hex hnp

/-- what `ExtToTIC34xShort` computes for every normal double in the exponent range: the significand cut to
12 bits — positive numbers towards zero; negative ones: cut to 32 bits towards zero, negated, and the
two's-complement mantissa cut again (towards minus infinity); for the negative numbers with `m < 2^21` see `ti_short_negpow` -/
theorem ti_short_computes (s E m : Nat) (hs : s < 2) (hE1 : 1023 - 7 ≤ E) (hE2 : E ≤ 1023 + 7) (hm : m < 2 ^ 52)
    (hnp : ¬ (s = 1 ∧ m / 2 ^ 21 = 0)) :
    (tiShort (s * 2 ^ 63 + E * 2 ^ 52 + m)).map (decodeTI 4 11) =
      some (if s = 1 then .fin true (2 ^ 11 + (m / 2 ^ 21 + 1048575) / 2 ^ 20) ((E : Int) - 1034)
        else .fin false (2 ^ 11 + m / 2 ^ 41) ((E : Int) - 1034)) := by
  unfold tiShort
  have hz : dblIsZero (s * 2 ^ 63 + E * 2 ^ 52 + m) = false := by
    unfold dblIsZero
    have : (s * 2 ^ 63 + E * 2 ^ 52 + m) % 2 ^ 63 ≠ 0 := by omega
    exact beq_false_of_ne this
  rw [hz, splitExt_eq_np s E m hs (by omega) (by omega) hm hnp]
  simp only [Bool.false_eq_true, if_false]
  have hx1 : -7 ≤ (E : Int) - 1023 := by omega
  have hx2 : (E : Int) - 1023 ≤ 7 := by omega
  have hck : chkRange ((E : Int) - 1023) (-7) 7 = true := by
    unfold chkRange; simp [hx1, hx2]
  simp only [hck, Bool.not_true, Bool.false_eq_true, if_false, Option.map_some]
  refine congrArg some ?_
  have e2 : (E : Int) - 1023 - 11 = (E : Int) - 1034 := by omega
  by_cases hs1 : s = 1
  · simp only [hs1, if_true]
    have hu0 : ¬ (m / 2 ^ 21 = 0) := fun h => hnp ⟨hs1, h⟩
    · simp only [hu0, if_false]
      have hw : (2 ^ 32 - m / 2 ^ 21) / 2 ^ 20 % 2 ^ 12 = 1 * 2 ^ 11 + ((2 ^ 32 - m / 2 ^ 21) / 2 ^ 20 % 2 ^ 12 - 2 ^ 11) := by omega
      rw [hw, decodeTI_short_eq _ 1 _ hx1 hx2 (by omega) (by omega)]
      simp only [if_true, e2]
      have e1 : 2 ^ 12 - ((2 ^ 32 - m / 2 ^ 21) / 2 ^ 20 % 2 ^ 12 - 2 ^ 11) = 2 ^ 11 + (m / 2 ^ 21 + 1048575) / 2 ^ 20 := by omega
      rw [e1]
  · have hs0 : s = 0 := by omega
    simp only [hs1, if_false]
    have hw : m / 2 ^ 21 / 2 ^ 20 % 2 ^ 12 = 0 * 2 ^ 11 + m / 2 ^ 41 := by omega
    rw [hw, decodeTI_short_eq _ 0 _ hx1 hx2 (by omega) (by omega)]
    simp only [show ¬ ((0 : Nat) = 1) by omega, if_false, e2]
    all_goals (congr 1; omega)

/-- outside the exponent range `ExtToTIC34xShort` reports a range error (negative numbers with `m < 2^21`: `ti_short_negpow`) -/
theorem ti_short_range (s E m : Nat) (hs : s < 2) (hE0 : 0 < E) (hE : E < 2048) (hm : m < 2 ^ 52)
    (hnp : ¬ (s = 1 ∧ m / 2 ^ 21 = 0)) (hout : E < 1023 - 7 ∨ 1023 + 7 < E) :
    tiShort (s * 2 ^ 63 + E * 2 ^ 52 + m) = none := by
  unfold tiShort
  have hz : dblIsZero (s * 2 ^ 63 + E * 2 ^ 52 + m) = false := by
    unfold dblIsZero
    have : (s * 2 ^ 63 + E * 2 ^ 52 + m) % 2 ^ 63 ≠ 0 := by omega
    exact beq_false_of_ne this
  rw [hz, splitExt_eq_np s E m hs hE0 hE hm hnp]
  have hck : chkRange ((E : Int) - 1023) (-7) 7 = false := by
    unfold chkRange
    rcases hout with h | h
    · have : ¬ (-7 ≤ (E : Int) - 1023) := by omega
      simp [this]
    · have : ¬ ((E : Int) - 1023 ≤ 7) := by omega
      simp [this]
  simp [hck]

/-- zero (either sign): the single zero encoding of each format -/
theorem ti_zero (s : Nat) (hs : s < 2) :
    sameOpt ((tiShort (s * 2 ^ 63)).map (decodeTI 4 11)) (roundTI 4 11 (decodeDouble (s * 2 ^ 63))) = true ∧
    sameOpt ((tiSingle (s * 2 ^ 63)).map (decodeTI 8 23)) (roundTI 8 23 (decodeDouble (s * 2 ^ 63))) = true ∧
    sameOpt ((tiExt (s * 2 ^ 63)).map (decodeTI 8 31)) (roundTI 8 31 (decodeDouble (s * 2 ^ 63))) = true := by
  have : s = 0 ∨ s = 1 := by omega
  rcases this with rfl | rfl <;> decide

theorem chkRange_lt (v lo hi : Int) (h : v < lo) : chkRange v lo hi = false := by
  unfold chkRange
  have : ¬ (lo ≤ v) := by omega
  simp [this]

theorem chkRange_gt (v lo hi : Int) (h : hi < v) : chkRange v lo hi = false := by
  unfold chkRange
  have : ¬ (v ≤ hi) := by omega
  simp [this]

/-- infinities and NaNs: every `ExtToTIC34x*` reports a range error, and no format has an encoding -/
theorem ti_special (s E m : Nat) (hs : s < 2) (hE : E = 2047) (hm : m < 2 ^ 52) :
    tiShort (s * 2 ^ 63 + E * 2 ^ 52 + m) = none ∧ tiSingle (s * 2 ^ 63 + E * 2 ^ 52 + m) = none ∧
    tiExt (s * 2 ^ 63 + E * 2 ^ 52 + m) = none ∧
    (∀ ew mw, roundTI ew mw (decodeDouble (s * 2 ^ 63 + E * 2 ^ 52 + m)) = none) := by
  have hz : dblIsZero (s * 2 ^ 63 + E * 2 ^ 52 + m) = false := by
    unfold dblIsZero
    have : (s * 2 ^ 63 + E * 2 ^ 52 + m) % 2 ^ 63 ≠ 0 := by omega
    exact beq_false_of_ne this
  have hx : 1023 ≤ (splitExt (s * 2 ^ 63 + E * 2 ^ 52 + m)).1 := by
    rw [splitExt_eq s E m hs (by omega) (by omega) hm]
    split
    · show 1023 ≤ (E : Int) - 1024; omega
    · show 1023 ≤ (E : Int) - 1023; omega
  have hck1 := chkRange_gt (splitExt (s * 2 ^ 63 + E * 2 ^ 52 + m)).1 (-7) 7 (by omega)
  have hck2 := chkRange_gt (splitExt (s * 2 ^ 63 + E * 2 ^ 52 + m)).1 (-127) 127 (by omega)
  refine ⟨?_, ?_, ?_, ?_⟩
  · unfold tiShort; rw [hz]; simp [hck1]
  · unfold tiSingle; rw [hz]; simp [hck2]
  · unfold tiExt; rw [hz]; simp [hck2]
  · intro ew mw
    rw [decodeDouble_eq s E m hs (by omega) hm, if_pos hE]
    split <;> rfl

theorem splitTail_fst_le (sign expo m1 : Nat) : (splitTail sign expo m1).1 ≤ (expo : Int) - 1023 := by
  unfold splitTail
  simp only []
  by_cases h : sign = 1 ∧ (if sign = 1 then (0xffffffff - m1 + 1) % 2 ^ 32 else m1) = 0x80000000
  · rw [if_pos h]; show (expo : Int) - 0x3ff - 1 ≤ (expo : Int) - 1023; omega
  · rw [if_neg h]; show (expo : Int) - 0x3ff ≤ (expo : Int) - 1023; omega

/-- subnormal doubles: `SplitExt` delivers an exponent of -1023 or less, every conversion reports a range error -/
theorem ti_subnormal (s m : Nat) (hs : s < 2) (hm0 : 0 < m) (hm : m < 2 ^ 52) :
    tiShort (s * 2 ^ 63 + 0 * 2 ^ 52 + m) = none ∧ tiSingle (s * 2 ^ 63 + 0 * 2 ^ 52 + m) = none ∧
    tiExt (s * 2 ^ 63 + 0 * 2 ^ 52 + m) = none := by
  have hz : dblIsZero (s * 2 ^ 63 + 0 * 2 ^ 52 + m) = false := by
    unfold dblIsZero
    have : (s * 2 ^ 63 + 0 * 2 ^ 52 + m) % 2 ^ 63 ≠ 0 := by omega
    exact beq_false_of_ne this
  have hx : (splitExt (s * 2 ^ 63 + 0 * 2 ^ 52 + m)).1 ≤ -1023 := by
    unfold splitExt
    have h2 : (s * 2 ^ 63 + 0 * 2 ^ 52 + m) / 2 ^ 52 % 2048 = 0 := by omega
    simp only [h2]
    have := splitTail_fst_le ((s * 2 ^ 63 + 0 * 2 ^ 52 + m) / 2 ^ 63 % 2) 0
      (((s * 2 ^ 63 + 0 * 2 ^ 52 + m) / 2 ^ 48 % 16 + if (0 : Nat) ≠ 0 then 16 else 0) * 2 ^ 27 + (s * 2 ^ 63 + 0 * 2 ^ 52 + m) / 2 ^ 21 % 2 ^ 27)
    omega
  have hck1 := chkRange_lt (splitExt (s * 2 ^ 63 + 0 * 2 ^ 52 + m)).1 (-7) 7 (by omega)
  have hck2 := chkRange_lt (splitExt (s * 2 ^ 63 + 0 * 2 ^ 52 + m)).1 (-127) 127 (by omega)
  refine ⟨?_, ?_, ?_⟩
  · unfold tiShort; rw [hz]; simp only [Bool.false_eq_true, if_false, hck1]; rfl
  · unfold tiSingle; rw [hz]; simp only [Bool.false_eq_true, if_false, hck2]; rfl
  · unfold tiExt; rw [hz]; simp only [Bool.false_eq_true, if_false, hck2]; rfl

end AslModel.FloatLemmas
