import AslModel.Lemmas.MacroLabelsFlat
/-! C11 labels, step 2 of the whole-program refinement: on the list of executed statements `X`, with consistent chains
(`WF X`), the table machine of the model lays down the bytes of the SPEC's image - in a pass that starts with the tables of
a finished pass always, in the first pass for every reference that is not bound early. -/
namespace AslModel.MacroLabels
open AslModel.MacroLabelsSpec

/-! ### tables -/
theorem tfind_tset (t : LTab) (key key' : Nat × Int) (v : Nat) :
    tfind (tset t key v) key' = if key = key' then some v else tfind t key' := by
  induction t with
  | nil => simp [tset, tfind]
  | cons p r ih =>
    obtain ⟨k, w⟩ := p
    simp only [tset]
    by_cases h : k = key
    · subst h; simp only [if_true, tfind]; split <;> rfl
    · simp only [h, if_false, tfind, ih]
      by_cases h2 : k = key'
      · subst h2; simp [Ne.symm h]
      · simp [h2]

theorem gfind_gset (t : GTab) (key key' : Nat) (v : Nat) :
    gfind (gset t key v) key' = if key = key' then some v else gfind t key' := by
  induction t with
  | nil => simp [gset, gfind]
  | cons p r ih =>
    obtain ⟨k, w⟩ := p
    simp only [gset]
    by_cases h : k = key
    · subst h; simp only [if_true, gfind]; split <;> rfl
    · simp only [h, if_false, gfind, ih]
      by_cases h2 : k = key'
      · subst h2; simp [Ne.symm h]
      · simp [h2]

/-- does the label statement `x` enter the key `(k, top)` -/
def hits (x : Xe) (k : Nat) (top : Option Nat) : Bool := x.isDef && x.name == k && topH x == top

theorem defined_eq (xs : List Xe) (k : Nat) (top : Option Nat) : defined xs k top = xs.any (fun y => hits y k top) := rfl

theorem defined_append (a b : List Xe) (k : Nat) (top : Option Nat) :
    defined (a ++ b) k top = (defined a k top || defined b k top) := by simp [defined]

theorem stepT_pc (t : Tb) (x : Xe) : (stepT t x).pc = t.pc + 1 := by
  unfold stepT defineLabel
  split
  · split <;> rfl
  · rfl

theorem stepT_ltab (t : Tb) (x : Xe) (k h : Nat) :
    tfind (stepT t x).ltab (k, (h : Int)) = if hits x k (some h) then some t.pc else tfind t.ltab (k, (h : Int)) := by
  obtain ⟨d, n, fr⟩ := x
  cases d
  · simp [stepT, hits, tbOf, emit, stOf]
  · cases fr with
    | nil => simp [stepT, hits, tbOf, emit, stOf, defineLabel, momOf, topH]
    | cons f r =>
      have hne : ((f.h : Nat) : Int) ≠ -1 := by omega
      simp only [stepT, if_true, tbOf, emit, stOf, defineLabel, momOf, hne, if_false, tfind_tset, hits, topH,
        List.head?_cons, Option.map_some, Bool.true_and]
      by_cases h1 : n = k <;> by_cases h2 : f.h = h <;> simp [h1, h2]
      · omega

theorem stepT_gtab (t : Tb) (x : Xe) (k : Nat) :
    gfind (stepT t x).gtab k = if hits x k none then some t.pc else gfind t.gtab k := by
  obtain ⟨d, n, fr⟩ := x
  cases d
  · simp [stepT, hits, tbOf, emit, stOf]
  · cases fr with
    | nil =>
      simp only [stepT, if_true, tbOf, emit, stOf, defineLabel, momOf, gfind_gset, hits, topH, List.head?_nil,
        Option.map_none, Bool.true_and]
      by_cases h1 : n = k <;> simp [h1]
    | cons f r =>
      have hne : ((f.h : Nat) : Int) ≠ -1 := by omega
      simp [stepT, tbOf, emit, stOf, defineLabel, momOf, hne, hits, topH]

/-! ### the value of a reference in terms of the chain -/
def walkF (ltab : LTab) (k : Nat) : List Fr → Option Nat
  | [] => none
  | f :: r => match tfind ltab (k, (f.h : Int)) with
    | some e => some e
    | none => walkF ltab k r

theorem walkConts_contsOf (ltab : LTab) (k : Nat) (r : List Fr) :
    walkConts ltab k (momOf r :: contsOf r) = walkF ltab k r := by
  induction r with
  | nil => simp [walkConts, momOf, walkF]
  | cons g r ih =>
    have hne : ((g.h : Nat) : Int) ≠ -1 := by omega
    simp only [walkConts, momOf, hne, if_false, contsOf, walkF]
    cases tfind ltab (k, (g.h : Int)) with
    | some e => rfl
    | none => exact ih

theorem lookup_stOf (fr : List Fr) (t : Tb) (k : Nat) :
    lookup (stOf fr t) k = match walkF t.ltab k fr with
      | some v => some v
      | none => gfind t.gtab k := by
  unfold lookup findLocNode
  cases fr with
  | nil => simp [stOf, momOf, walkF]
  | cons f r =>
    have hne : ((f.h : Nat) : Int) ≠ -1 := by omega
    have h1 : momOf (f :: r) = (f.h : Int) := rfl
    have h2 : contsOf (f :: r) = momOf r :: contsOf r := rfl
    simp only [stOf, h1, h2, hne, if_false, walkF]
    cases tfind t.ltab (k, (f.h : Int)) with
    | some e => rfl
    | none => rw [walkConts_contsOf]; rfl

/-- what a statement lays down -/
def val (t : Tb) (x : Xe) : Option Nat := if x.isDef then some (labByte x.name) else lookup (stOf x.fr t) x.name

def outs (t : Tb) : List Xe → List (Option Nat)
  | [] => []
  | x :: r => val t x :: outs (stepT t x) r

theorem stepT_out (t : Tb) (x : Xe) : (stepT t x).out = val t x :: t.out := by
  unfold stepT val
  split
  · unfold defineLabel; split <;> rfl
  · rfl

theorem runT_out (xs : List Xe) : ∀ t : Tb, (runT t xs).out = (outs t xs).reverse ++ t.out := by
  induction xs with
  | nil => intro t; simp [runT, outs]
  | cons x r ih =>
    intro t
    have : runT t (x :: r) = runT (stepT t x) r := rfl
    rw [this, ih, stepT_out]
    simp [outs]

/-! ### first definition of a key -/
def firstDef (xs : List Xe) (base : Nat) (k : Nat) (top : Option Nat) : Option Nat :=
  match xs with
  | [] => none
  | x :: r => if hits x k top then some base else firstDef r (base + 1) k top

theorem firstDef_none (xs : List Xe) (k : Nat) (top : Option Nat) :
    ∀ b, defined xs k top = false → firstDef xs b k top = none := by
  induction xs with
  | nil => intro b _; rfl
  | cons x r ih =>
    intro b h
    simp only [defined_eq, List.any_cons, Bool.or_eq_false_iff] at h
    simp only [firstDef, h.1, Bool.false_eq_true, if_false]
    exact ih _ h.2

theorem firstDef_some (xs : List Xe) (k : Nat) (top : Option Nat) :
    ∀ b, defined xs k top = true → ∃ v, firstDef xs b k top = some v := by
  induction xs with
  | nil => intro b h; simp [defined] at h
  | cons x r ih =>
    intro b h
    simp only [firstDef]
    by_cases hx : hits x k top = true
    · exact ⟨b, by simp [hx]⟩
    · simp only [defined_eq, List.any_cons, Bool.or_eq_true] at h
      simp only [hx, if_false]
      exact ih _ (h.resolve_left hx)

/-- under `noDoubleDefL`, a label statement is the first definition of its key -/
theorem firstDef_at (k : Nat) (top : Option Nat) (y : Xe) (s : List Xe) (hy : hits y k top = true) :
    ∀ (p : List Xe) (b : Nat), noDoubleDefL (p ++ y :: s) = true → firstDef (p ++ y :: s) b k top = some (b + p.length) := by
  intro p
  induction p with
  | nil => intro b _; simp [firstDef, hy]
  | cons x p ih =>
    intro b h
    simp only [List.cons_append, noDoubleDefL, Bool.and_eq_true] at h
    have hx : hits x k top = false := by
      cases hh : hits x k top with
      | false => rfl
      | true =>
        exfalso
        simp only [hits, Bool.and_eq_true, beq_iff_eq] at hh hy
        have h1 := h.1
        rw [hh.1.1, hh.1.2, hh.2] at h1
        have : defined (p ++ y :: s) k top = true := by
          rw [defined_append]; simp [defined, hits, hy]
        simp [this] at h1
    simp only [List.cons_append, firstDef, hx, Bool.false_eq_true, if_false, List.length_cons]
    rw [ih (b + 1) h.2]; congr 1; omega

/-! ### the invariant of a pass -/

/-- the tables hold, for every key entered by the statements executed so far (`full`: for every key of the program), the
address of the key's label statement -/
structure Agree (X : List Xe) (full : Bool) (P : List Xe) (t : Tb) : Prop where
  pc : t.pc = P.length
  l : ∀ (k h : Nat), tfind t.ltab (k, (h : Int)) = if full || defined P k (some h) then firstDef X 0 k (some h) else none
  g : ∀ k, gfind t.gtab k = if full || defined P k none then firstDef X 0 k none else none

theorem Agree.step {X : List Xe} {full : Bool} {P : List Xe} {t : Tb} (a : Agree X full P t) (y : Xe) (S : List Xe)
    (hX : X = P ++ y :: S) (hnd : noDoubleDefL X = true) : Agree X full (P ++ [y]) (stepT t y) := by
  have hat : ∀ k top, hits y k top = true → firstDef X 0 k top = some t.pc := by
    intro k top hy
    rw [hX, firstDef_at k top y S hy P 0 (hX ▸ hnd), a.pc]; simp
  refine ⟨by rw [stepT_pc, a.pc]; simp, ?_, ?_⟩
  · intro k h
    have hd1 : defined [y] k (some h) = hits y k (some h) := by simp [defined, hits]
    rw [stepT_ltab, a.l, defined_append, hd1]
    cases hy : hits y k (some h) with
    | true => rw [hat k (some h) hy]; simp
    | false => simp
  · intro k
    have hd1 : defined [y] k none = hits y k none := by simp [defined, hits]
    rw [stepT_gtab, a.g, defined_append, hd1]
    cases hy : hits y k none with
    | true => rw [hat k none hy]; simp
    | false => simp

theorem Agree.toFull {X : List Xe} {t : Tb} (a : Agree X false X t) (t' : Tb) (h1 : t'.ltab = t.ltab) (h2 : t'.gtab = t.gtab)
    (h3 : t'.pc = 0) : Agree X true [] t' := by
  refine ⟨h3, ?_, ?_⟩
  · intro k h
    rw [h1, a.l]
    cases hd : defined X k (some h) with
    | true => simp
    | false => simp [firstDef_none X k (some h) 0 hd]
  · intro k
    rw [h2, a.g]
    cases hd : defined X k none with
    | true => simp
    | false => simp [firstDef_none X k none 0 hd]

theorem agree_run (X : List Xe) (full : Bool) (hnd : noDoubleDefL X = true) :
    ∀ (S P : List Xe) (t : Tb), X = P ++ S → Agree X full P t → Agree X full X (runT t S) := by
  intro S
  induction S with
  | nil => intro P t hX a; simp at hX; subst hX; exact a
  | cons y S ih =>
    intro P t hX a
    have : runT t (y :: S) = runT (stepT t y) S := rfl
    rw [this]
    exact ih (P ++ [y]) _ (by simp [hX]) (a.step y S hX hnd)

/-! ### consistency of the chains, and the value the SPEC gives -/

/-- the chains of `X` are consistent: a handle / a copy number names one copy, and the labels of a copy's body text are the
keys entered under its handle -/
structure WF (X : List Xe) : Prop where
  h_inj : ∀ f ∈ framesOf X, ∀ g ∈ framesOf X, f.h = g.h → f = g
  id_inj : ∀ f ∈ framesOf X, ∀ g ∈ framesOf X, f.id = g.id → f = g
  names : ∀ f ∈ framesOf X, ∀ k, f.names.contains k = defined X k (some f.h)

/-- the byte the hand expansion has for the statement -/
def specVal (X : List Xe) (x : Xe) : Option Nat :=
  if x.isDef then some (labByte x.name) else firstDef X 0 x.name (target x.name x.fr)

theorem mem_framesOf {X : List Xe} {x : Xe} {f : Fr} (hx : x ∈ X) (hf : f ∈ x.fr) : f ∈ framesOf X := by
  unfold framesOf; exact List.mem_flatMap.mpr ⟨x, hx, hf⟩

theorem resolve_envOf (k : Nat) (fr : List Fr) :
    resolve k (envOf fr) = (fr.find? (fun f => f.names.contains k)).map (·.id) := by
  induction fr with
  | nil => rfl
  | cons f r ih =>
    simp only [envOf_cons, resolve, List.find?_cons]
    cases f.names.contains k <;> simp [ih]

theorem target_eq (k : Nat) (fr : List Fr) :
    target k fr = (fr.find? (fun f => f.names.contains k)).map (·.h) := by
  induction fr with
  | nil => rfl
  | cons f r ih =>
    simp only [target, List.find?_cons]
    cases f.names.contains k <;> simp [ih]

/-- the SPEC's name of a label statement is the copy of its innermost chain element -/
theorem specEv_def {X : List Xe} (wf : WF X) {y : Xe} (hy : y ∈ X) (hd : y.isDef = true) :
    (specEv y).inst = y.fr.head?.map (·.id) := by
  unfold specEv
  cases hf : y.fr with
  | nil => rfl
  | cons g r =>
    have hg : g ∈ framesOf X := mem_framesOf hy (by rw [hf]; exact List.mem_cons_self)
    have : g.names.contains y.name = true := by
      rw [wf.names g hg]
      simp only [defined, List.any_eq_true]
      exact ⟨y, hy, by simp [hd, topH, hf]⟩
    simp only [envOf_cons, resolve, this, if_true, List.head?_cons, Option.map_some]

theorem addrOf_firstDef (k : Nat) (inst : Option Nat) (top : Option Nat) :
    ∀ (Y : List Xe) (b : Nat), (∀ y ∈ Y, y.isDef = true → y.name = k → ((specEv y).inst = inst ↔ topH y = top)) →
      addrOf k inst (Y.map specEv) b = firstDef Y b k top := by
  intro Y
  induction Y with
  | nil => intro b _; rfl
  | cons y Y ih =>
    intro b h
    have hy := h y List.mem_cons_self
    simp only [List.map_cons, addrOf, firstDef]
    rw [ih (b + 1) (fun z hz => h z (List.mem_cons_of_mem _ hz))]
    have hiff : ((specEv y).isDef = true ∧ (specEv y).name = k ∧ (specEv y).inst = inst) ↔ hits y k top = true := by
      simp only [hits, Bool.and_eq_true, beq_iff_eq]
      show (y.isDef = true ∧ y.name = k ∧ (specEv y).inst = inst) ↔ _
      constructor
      · intro ⟨h1, h2, h3⟩; exact ⟨⟨h1, h2⟩, (hy h1 h2).mp h3⟩
      · intro ⟨⟨h1, h2⟩, h3⟩; exact ⟨h1, h2, (hy h1 h2).mpr h3⟩
    by_cases c : hits y k top = true
    · rw [if_pos (hiff.mpr c), if_pos c]
    · rw [if_neg (fun e => c (hiff.mp e)), if_neg c]

/-- the image of the hand expansion, statement by statement -/
theorem image_specVal {X : List Xe} (wf : WF X) : image (X.map specEv) = X.map (specVal X) := by
  unfold image
  rw [List.map_map]
  apply List.map_congr_left
  intro x hx
  simp only [Function.comp, specVal]
  by_cases hd : x.isDef = true
  · simp [specEv, hd]
  · have : (specEv x).isDef = false := by simpa [specEv] using hd
    simp only [this, Bool.false_eq_true, if_false, hd]
    apply addrOf_firstDef
    intro y hy hyd hyn
    rw [specEv_def wf hy hyd]
    show y.fr.head?.map (·.id) = resolve x.name (envOf x.fr) ↔ _
    rw [resolve_envOf, target_eq, topH]
    cases hq : x.fr.find? (fun f => f.names.contains x.name) with
    | none => cases y.fr.head? <;> simp
    | some f =>
      have hf : f ∈ framesOf X := mem_framesOf hx (List.mem_of_find?_eq_some hq)
      cases hg : y.fr.head? with
      | none => simp
      | some g =>
        have hgm : g ∈ framesOf X := mem_framesOf hy (List.mem_of_mem_head? hg)
        simp only [Option.map_some, Option.some.injEq]
        exact ⟨fun e => by rw [wf.id_inj g hgm f hf e], fun e => by rw [wf.h_inj g hgm f hf e]⟩

/-! ### the value the model gives -/

/-- a reference in a pass with `Agree`: the SPEC's value, or - in the first pass - nothing found -/
theorem val_ref {X : List Xe} (wf : WF X) {full : Bool} {P : List Xe} {t : Tb} (a : Agree X full P t) (x : Xe) (hx : x ∈ X)
    (hr : x.isDef = false) (he : full = true ∨ earlyBind P x = false) :
    val t x = specVal X x ∨ (full = false ∧ val t x = none) := by
  have hsub : ∀ fr : List Fr, (∀ f ∈ fr, f ∈ x.fr) →
      -- walking the rest of the chain
      ((full = true ∨ defined P x.name (target x.name fr) = true) →
        (match walkF t.ltab x.name fr with | some v => some v | none => gfind t.gtab x.name) =
          firstDef X 0 x.name (target x.name fr)) ∧
      ((full = false ∧ (∀ f ∈ fr, defined P x.name (some f.h) = false) ∧ defined P x.name none = false) →
        (match walkF t.ltab x.name fr with | some v => some v | none => gfind t.gtab x.name) = none) := by
    intro fr
    induction fr with
    | nil =>
      intro _
      constructor
      · intro h
        simp only [walkF, target, a.g]
        rcases h with h | h
        · simp [h]
        · simp only [target] at h; simp [h]
      · intro h
        simp [walkF, a.g, h.1, h.2.2]
    | cons f r ih =>
      intro hm
      have hf : f ∈ framesOf X := mem_framesOf hx (hm f List.mem_cons_self)
      have ihr := ih (fun g hg => hm g (List.mem_cons_of_mem _ hg))
      have hn := wf.names f hf x.name
      constructor
      · intro h
        simp only [walkF, a.l]
        cases hc : f.names.contains x.name with
        | true =>
          have htar : target x.name (f :: r) = some f.h := by rw [target, hc]; rfl
          rw [htar] at h ⊢
          rw [hc] at hn
          obtain ⟨v, hv⟩ := firstDef_some X x.name (some f.h) 0 hn.symm
          have hcond : (full || defined P x.name (some f.h)) = true := by rcases h with h | h <;> simp [h]
          rw [if_pos hcond, hv]
        | false =>
          have htar : target x.name (f :: r) = target x.name r := by rw [target, hc]; rfl
          rw [htar] at h ⊢
          rw [hc] at hn
          have h0 := firstDef_none X x.name (some f.h) 0 hn.symm
          have : (if (full || defined P x.name (some f.h)) = true then firstDef X 0 x.name (some f.h) else none) = none := by
            rw [h0]; simp
          rw [this]
          exact ihr.1 h
      · intro h
        simp only [walkF, a.l, h.1, h.2.1 f List.mem_cons_self, Bool.or_self, Bool.false_eq_true, if_false]
        exact ihr.2 ⟨h.1, fun g hg => h.2.1 g (List.mem_cons_of_mem _ hg), h.2.2⟩
  have hw := hsub x.fr (fun f hf => hf)
  have hv : val t x = (match walkF t.ltab x.name x.fr with | some v => some v | none => gfind t.gtab x.name) := by
    simp [val, hr, lookup_stOf]
  have hs : specVal X x = firstDef X 0 x.name (target x.name x.fr) := by simp [specVal, hr]
  rw [hv, hs]
  rcases he with he | he
  · exact Or.inl (hw.1 (Or.inl he))
  · cases hfull : full with
    | true => exact Or.inl (hw.1 (Or.inl hfull))
    | false =>
      simp only [earlyBind, hr, Bool.not_false, Bool.true_and, Bool.and_eq_false_iff, Bool.not_eq_false',
        Bool.or_eq_false_iff] at he
      rcases he with he | he
      · exact Or.inl (hw.1 (Or.inr he))
      · refine Or.inr ⟨rfl, hw.2 ⟨hfull, ?_, he.2⟩⟩
        intro f hf
        have := he.1
        simp only [List.any_eq_false] at this
        simpa using this f hf

/-- the relation between the bytes of a pass and the bytes of the image -/
def Near (full : Bool) (a b : Option Nat) : Prop := a = b ∨ (full = false ∧ a = none)

inductive NearL (full : Bool) : List (Option Nat) → List (Option Nat) → Prop
  | nil : NearL full [] []
  | cons {a b : Option Nat} {l1 l2 : List (Option Nat)} : Near full a b → NearL full l1 l2 → NearL full (a :: l1) (b :: l2)

theorem outs_near {X : List Xe} (wf : WF X) (hnd : noDoubleDefL X = true) (full : Bool) :
    ∀ (S P : List Xe) (t : Tb), X = P ++ S → Agree X full P t → (full = true ∨ noEarlyBindL P S = true) →
      NearL full (outs t S) (S.map (specVal X)) := by
  intro S
  induction S with
  | nil => intro P t _ _ _; exact NearL.nil
  | cons y S ih =>
    intro P t hX a he
    have hy : y ∈ X := by rw [hX]; simp
    simp only [outs, List.map_cons]
    refine NearL.cons ?_ (ih (P ++ [y]) _ (by simp [hX]) (a.step y S hX hnd) ?_)
    · cases hd : y.isDef with
      | true => left; simp [val, specVal, hd]
      | false =>
        apply val_ref wf a y hy hd
        rcases he with he | he
        · exact Or.inl he
        · simp only [noEarlyBindL, Bool.and_eq_true, Bool.not_eq_true'] at he
          exact Or.inr he.1
    · rcases he with he | he
      · exact Or.inl he
      · simp only [noEarlyBindL, Bool.and_eq_true] at he
        exact Or.inr he.2

theorem near_full_eq : ∀ (l1 l2 : List (Option Nat)), NearL true l1 l2 → l1 = l2 := by
  intro l1 l2 h
  induction h with
  | nil => rfl
  | cons h _ ih =>
    rcases h with h | h
    · rw [h, ih]
    · cases h.1

theorem near_first_eq : ∀ (l1 l2 : List (Option Nat)), NearL false l1 l2 →
    l1.any Option.isNone = false → l1 = l2 := by
  intro l1 l2 h
  induction h with
  | nil => intro _; rfl
  | cons h _ ih =>
    intro hn
    simp only [List.any_cons, Bool.or_eq_false_iff] at hn
    rcases h with h | h
    · rw [h, ih hn.2]
    · rw [h.2] at hn; simp at hn

/-- **the two passes of the model over a consistent list lay down the image** -/
theorem assemble_flat (prog : Items) (wf : WF (flat prog)) (hnd : noDoubleDefL (flat prog) = true)
    (hne : noEarlyBindL [] (flat prog) = true) :
    (assemble prog).out.reverse = (flat prog).map (specVal (flat prog)) := by
  have hout : ∀ st : St, (pass st prog).out = (tbOf (pass st prog)).out := fun _ => rfl
  have a0 : Agree (flat prog) false [] (⟨[], [], 0, []⟩ : Tb) := ⟨rfl, by intro k h; simp [tfind, defined], by intro k; simp [gfind, defined]⟩
  have n1 := outs_near wf hnd false (flat prog) [] _ rfl a0 (Or.inr hne)
  have a1 := agree_run (flat prog) false hnd (flat prog) [] _ rfl a0
  have p1 : tbOf (pass {} prog) = runT ⟨[], [], 0, []⟩ (flat prog) := pass_flat {} prog
  unfold assemble
  simp only
  split
  · -- a second pass
    rw [hout, pass_flat, runT_out]
    have a2 : Agree (flat prog) true [] (⟨(pass {} prog).ltab, (pass {} prog).gtab, 0, []⟩ : Tb) := by
      apply a1.toFull
      · show _ = (runT _ _).ltab; rw [← p1]; rfl
      · show _ = (runT _ _).gtab; rw [← p1]; rfl
      · rfl
    have n2 := outs_near wf hnd true (flat prog) [] _ rfl a2 (Or.inl rfl)
    simp [near_full_eq _ _ n2]
  · rename_i hany
    rw [hout, p1, runT_out] at hany ⊢
    simp only [List.append_nil, List.any_reverse, Bool.not_eq_true] at hany
    simp [near_first_eq _ _ n1 hany]

/-- a pass that starts with the tables of a finished first pass lays down the image - no condition on the order of references and labels -/
theorem pass2_flat (prog : Items) (wf : WF (flat prog)) (hnd : noDoubleDefL (flat prog) = true) :
    (pass (pass {} prog) prog).out.reverse = (flat prog).map (specVal (flat prog)) := by
  have hout : ∀ st : St, (pass st prog).out = (tbOf (pass st prog)).out := fun _ => rfl
  have a0 : Agree (flat prog) false [] (⟨[], [], 0, []⟩ : Tb) := ⟨rfl, by intro k h; simp [tfind, defined], by intro k; simp [gfind, defined]⟩
  have a1 := agree_run (flat prog) false hnd (flat prog) [] _ rfl a0
  have p1 : tbOf (pass {} prog) = runT ⟨[], [], 0, []⟩ (flat prog) := pass_flat {} prog
  rw [hout, pass_flat, runT_out]
  have a2 : Agree (flat prog) true [] (⟨(pass {} prog).ltab, (pass {} prog).gtab, 0, []⟩ : Tb) := by
    apply a1.toFull
    · show _ = (runT _ _).ltab; rw [← p1]; rfl
    · show _ = (runT _ _).gtab; rw [← p1]; rfl
    · rfl
  have n2 := outs_near wf hnd true (flat prog) [] _ rfl a2 (Or.inl rfl)
  simp [near_full_eq _ _ n2]

end AslModel.MacroLabels
