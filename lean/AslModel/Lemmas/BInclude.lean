import AslModel.Model.BInclude
import AslModel.Spec.BInclude
/-! Helper lemmas for `Props/C03_BInclude.lean`: lengths of the blocks, one unfolding of the transfer loop, the
integer conversions on their identity ranges. -/
namespace AslModel.BInclude
open AslModel.BIncludeSpec

theorem blockLen_le (rest : Nat) : blockLen rest ≤ rest := by
  unfold blockLen; split <;> omega

theorem block_length (file : List Byte) (pos rest : Nat) :
    (block file pos rest).length = min (blockLen rest) (file.length - pos) := by
  simp [block, fread, List.length_take, List.length_drop]

theorem fread_length (file : List Byte) (pos n : Nat) :
    (fread file pos n).length = min n (file.length - pos) := by
  simp [fread, List.length_take, List.length_drop]

theorem take_split {α : Type} (l : List α) (a n : Nat) (h : a ≤ n) :
    l.take n = l.take a ++ (l.drop a).take (n - a) := by
  have e : n = a + (n - a) := by omega
  conv => lhs; rw [e]
  exact List.take_add

/-- one unfolding of the loop, with the two ways it can go spelled out -/
theorem xfer_cases (file : List Byte) (pos rest : Nat) :
    (256 < rest ∧ 256 ≤ file.length - pos ∧
      xfer file pos rest = ((file.drop pos).take 256 ++ (xfer file (pos + 256) (rest - 256)).1,
                            (xfer file (pos + 256) (rest - 256)).2.1, (xfer file (pos + 256) (rest - 256)).2.2 + 1)) ∨
    ((rest ≤ 256 ∨ file.length - pos < 256) ∧
      xfer file pos rest = ((file.drop pos).take rest, rest - min rest (file.length - pos), 1)) := by
  have hb := block_length file pos rest
  by_cases hr : rest ≤ 256
  · have hbl : blockLen rest = rest := by simp [blockLen, hr]
    right
    refine ⟨Or.inl hr, ?_⟩
    rw [xfer]
    have hc : ¬ (rest - (block file pos rest).length ≠ 0 ∧ (block file pos rest).length = blockLen rest) := by
      intro ⟨h1, h2⟩; omega
    rw [if_neg hc]
    have e1 : block file pos rest = (file.drop pos).take rest := by simp [block, fread, hbl]
    rw [hb, hbl, e1]
  · have hbl : blockLen rest = 256 := by simp [blockLen, hr]
    by_cases hs : file.length - pos < 256
    · right
      refine ⟨Or.inr hs, ?_⟩
      rw [xfer]
      have hc : ¬ (rest - (block file pos rest).length ≠ 0 ∧ (block file pos rest).length = blockLen rest) := by
        intro ⟨h1, h2⟩; omega
      rw [if_neg hc]
      have e1 : block file pos rest = (file.drop pos).take rest := by
        simp only [block, fread, hbl]
        rw [List.take_of_length_le (by rw [List.length_drop]; omega),
            List.take_of_length_le (by rw [List.length_drop]; omega)]
      have e2 : rest - (block file pos rest).length = rest - min rest (file.length - pos) := by
        rw [hb, hbl]; omega
      rw [e2, e1]
    · left
      refine ⟨by omega, by omega, ?_⟩
      have hL : (block file pos rest).length = 256 := by rw [hb, hbl]; omega
      rw [xfer]
      have hc : rest - (block file pos rest).length ≠ 0 ∧ (block file pos rest).length = blockLen rest := by
        constructor <;> omega
      rw [if_pos hc]
      have e1 : block file pos rest = (file.drop pos).take 256 := by simp [block, fread, hbl]
      have hL' : ((file.drop pos).take 256).length = 256 := by rw [← e1]; exact hL
      simp only [e1, hL']

theorem toLongWord_id (v : Int) (h0 : 0 ≤ v) (h1 : v < two32) : toLongWord v = v.toNat := by
  unfold toLongWord; rw [Int.emod_eq_of_lt h0 h1]

theorem toLongInt_id (v : Int) (h0 : 0 ≤ v) (h1 : v < two31) : toLongInt v = v := by
  unfold toLongInt
  have : v % two32 = v := Int.emod_eq_of_lt h0 (by unfold two31 at h1; unfold two32; omega)
  simp only [this]
  split
  · omega
  · rfl

theorem toLargeWord_id (v : Int) (h0 : 0 ≤ v) (h1 : v < two64) : toLargeWord v = v.toNat := by
  unfold toLargeWord; rw [Int.emod_eq_of_lt h0 h1]


end AslModel.BInclude
