import AslModel.Lemmas.AddrRefine
/-!
# The frame component of the C10 refinement relation (open STRUCT/UNION frames)

`FR fs gs cb lb` relates the model's structure stack `fs` (`TStructStack`, innermost first) with the spec
machine's frames `gs`.  `cb` is the counter of the body directly above (the model's `PCs[StructSeg]` for the
innermost frame, the child's `SaveCurrPC` further down), `lb` a lower bound of the length the body above will have
when it is closed (`0` for the innermost frame).  `lbUnder g lb` is then the lower bound of frame `g` itself:
its counter plus the open member (struct) resp. the maximum of its recorded length and the open member (union).
The model's `TotLen` of a frame never exceeds that bound – this is the invariant "TotLen ≤ counter" carried
through nameless frames – and for a union it is at least the spec's recorded maximum.
-/
namespace AslModel.Addr
open AslModel.Generated
open AslModel.AddrSpec (SFrame)

def lbUnder (g : SFrame) (lb : Int) : Int := if g.isUnion then max g.len lb else g.cur + lb

/-- lower bound of the outermost structure's length -/
def lbOut : List SFrame → Int → Int
  | [], lb => lb
  | g :: gs, lb => lbOut gs (lbUnder g lb)

/-- lower bound of the innermost *named* structure's length -/
def nLB : List SFrame → Int → Int
  | [], lb => lb
  | g :: gs, lb => if g.name.isSome then lbUnder g lb else nLB gs (lbUnder g lb)

structure FOK (f : Frame) (g : SFrame) (gs : List SFrame) (cb lb : Int) : Prop where
  name : f.name = g.name
  isUnion : f.isUnion = g.isUnion
  path : f.path = (match g.name with | some _ => AddrSpec.namedPath (g :: gs) | none => [])
  cb : cb = g.cur
  cur0 : 0 ≤ g.cur
  len0 : 0 ≤ g.len
  ucur : g.isUnion = true → g.cur = 0
  outer : gs = [] → g.name.isSome = true
  save : gs ≠ [] → f.savePC = g.base
  ulen : g.isUnion = true → g.len ≤ f.totLen
  tot0 : 0 ≤ f.totLen
  tot : f.totLen ≤ lbUnder g lb

def FR : List Frame → List SFrame → Int → Int → Prop
  | [], [], _, _ => True
  | f :: fs, g :: gs, cb, lb => FOK f g gs cb lb ∧ FR fs gs g.base (lbUnder g lb)
  | _, _, _, _ => False

theorem FR_cons {f fs g gs cb lb} : FR (f :: fs) (g :: gs) cb lb ↔ (FOK f g gs cb lb ∧ FR fs gs g.base (lbUnder g lb)) := Iff.rfl

theorem FR_nil_left {gs cb lb} (h : FR [] gs cb lb) : gs = [] := by
  cases gs with
  | nil => rfl
  | cons g gs => exact absurd h (by simp [FR])

theorem FR_nil_right {fs cb lb} (h : FR fs [] cb lb) : fs = [] := by
  cases fs with
  | nil => rfl
  | cons f fs => exact absurd h (by simp [FR])

theorem lbUnder_mono (g : SFrame) {lb lb' : Int} (h : lb ≤ lb') : lbUnder g lb ≤ lbUnder g lb' := by
  unfold lbUnder; split <;> omega

theorem lbUnder_ge {g : SFrame} {lb : Int} (h0 : 0 ≤ g.cur) : lb ≤ lbUnder g lb := by
  unfold lbUnder; split <;> omega

theorem lbOut_mono : ∀ (gs : List SFrame) {lb lb' : Int}, lb ≤ lb' → lbOut gs lb ≤ lbOut gs lb'
  | [], _, _, h => h
  | g :: gs, _, _, h => lbOut_mono gs (lbUnder_mono g h)

theorem FR_mono : ∀ (fs : List Frame) (gs : List SFrame) (cb lb lb' : Int), FR fs gs cb lb → lb ≤ lb' → FR fs gs cb lb'
  | [], [], _, _, _, _, _ => trivial
  | [], _ :: _, _, _, _, h, _ => absurd h (by simp [FR])
  | _ :: _, [], _, _, _, h, _ => absurd h (by simp [FR])
  | f :: fs, g :: gs, cb, lb, lb', h, hl => by
    obtain ⟨h1, h2⟩ := h
    have hm := lbUnder_mono g hl
    exact ⟨{ h1 with tot := Int.le_trans h1.tot hm }, FR_mono fs gs _ _ _ h2 hm⟩

theorem FR_lbOut_ge : ∀ (fs : List Frame) (gs : List SFrame) (cb lb : Int), FR fs gs cb lb → lb ≤ lbOut gs lb
  | [], [], _, _, _ => Int.le_refl _
  | [], _ :: _, _, _, h => absurd h (by simp [FR])
  | _ :: _, [], _, _, h => absurd h (by simp [FR])
  | f :: fs, g :: gs, cb, lb, h => by
    obtain ⟨h1, h2⟩ := h
    have := FR_lbOut_ge fs gs _ _ h2
    have := lbUnder_ge (lb := lb) h1.cur0
    simp only [lbOut]; omega

theorem namedPath_cons (g : SFrame) (gs : List SFrame) :
    AddrSpec.namedPath (g :: gs) = AddrSpec.namedPath gs ++ (match g.name with | some n => [n] | none => []) := by
  unfold AddrSpec.namedPath
  cases hn : g.name <;> simp [List.filterMap_append, hn]

/-- the innermost named frame exists and carries the spec's symbol prefix -/
theorem FR_innermost : ∀ (fs : List Frame) (gs : List SFrame) (cb lb : Int), FR fs gs cb lb → gs ≠ [] →
    ∃ nf, innermostNamed fs = some nf ∧ nf.path = AddrSpec.namedPath gs
  | [], [], _, _, _, hne => absurd rfl hne
  | [], _ :: _, _, _, h, _ => absurd h (by simp [FR])
  | _ :: _, [], _, _, h, _ => absurd h (by simp [FR])
  | f :: fs, g :: gs, cb, lb, h, _ => by
    obtain ⟨h1, h2⟩ := h
    cases hn : g.name with
    | some n =>
      refine ⟨f, by simp [innermostNamed, h1.name, hn], ?_⟩
      rw [h1.path, hn]
    | none =>
      have hgs : gs ≠ [] := by
        intro he; have := h1.outer he; simp [hn] at this
      obtain ⟨nf, e1, e2⟩ := FR_innermost fs gs _ _ h2 hgs
      refine ⟨nf, by simp [innermostNamed, h1.name, hn, e1], ?_⟩
      rw [e2, namedPath_cons, hn]; simp

theorem FR_sumSave : ∀ (fs : List Frame) (gs : List SFrame) (cb lb : Int), FR fs gs cb lb → sumSave fs = AddrSpec.baseSum gs
  | [], [], _, _, _ => rfl
  | [], _ :: _, _, _, h => absurd h (by simp [FR])
  | _ :: _, [], _, _, h => absurd h (by simp [FR])
  | [f], [g], _, _, _ => rfl
  | [_], _ :: _ :: _, _, _, h => absurd h.2 (by simp [FR])
  | _ :: _ :: _, [_], _, _, h => absurd h.2 (by simp [FR])
  | f :: f2 :: fs, g :: g2 :: gs, cb, lb, h => by
    obtain ⟨h1, h2⟩ := h
    have := FR_sumSave (f2 :: fs) (g2 :: gs) _ _ h2
    simp only [sumSave, AddrSpec.baseSum, this, h1.save (by simp)]

theorem bump_fields (f : Frame) (x : Int) : (bump f x).name = f.name ∧ (bump f x).path = f.path ∧ (bump f x).isUnion = f.isUnion ∧
    (bump f x).savePC = f.savePC := by
  unfold bump; split <;> simp

theorem bump_totLen (f : Frame) (x : Int) (h1 : -2147483648 ≤ x) (h2 : x < 2147483648) : (bump f x).totLen = max f.totLen x := by
  unfold bump; rw [toI64_small (by omega) (by omega)]
  split
  · show x = max f.totLen x; omega
  · omega

theorem FOK_bump {f g gs cb lb} (h : FOK f g gs cb lb) (x : Int) (h0 : 0 ≤ x) (h1 : x ≤ lbUnder g lb) (h2 : lbUnder g lb < 2147483648) :
    FOK (bump f x) g gs cb lb := by
  obtain ⟨b1, b2, b3, b4⟩ := bump_fields f x
  have bt := bump_totLen f x (by omega) (by omega)
  have t0 := h.tot0
  have t1 := h.tot
  refine { name := b1 ▸ h.name, isUnion := b3 ▸ h.isUnion, path := b2 ▸ h.path, cb := h.cb, cur0 := h.cur0, len0 := h.len0, ucur := h.ucur,
           outer := h.outer, save := b4 ▸ h.save, ulen := ?_, tot0 := ?_, tot := ?_ }
  · intro hu; have := h.ulen hu; rw [bt]; omega
  · rw [bt]; omega
  · rw [bt]; omega

/-- `BumpStructLength` of the innermost named frame by an offset below its lower bound keeps the relation -/
theorem FR_bumpNamed : ∀ (fs : List Frame) (gs : List SFrame) (cb lb x : Int), FR fs gs cb lb → 0 ≤ x → x ≤ nLB gs lb →
    lbOut gs lb < 2147483648 → FR (bumpNamed fs x) gs cb lb
  | [], [], _, _, _, _, _, _, _ => trivial
  | [], _ :: _, _, _, _, h, _, _, _ => absurd h (by simp [FR])
  | _ :: _, [], _, _, _, h, _, _, _ => absurd h (by simp [FR])
  | f :: fs, g :: gs, cb, lb, x, h, h0, hx, hb => by
    obtain ⟨h1, h2⟩ := h
    have hge := FR_lbOut_ge fs gs _ _ h2
    simp only [lbOut] at hb
    cases hn : g.name with
    | some n =>
      simp only [nLB, hn, Option.isSome_some, if_true] at hx
      simp only [bumpNamed, h1.name, hn, Option.isSome_some, if_true]
      exact ⟨FOK_bump h1 x h0 hx (by omega), h2⟩
    | none =>
      simp only [nLB, hn, Option.isSome_none, Bool.false_eq_true, if_false] at hx
      simp only [bumpNamed, h1.name, hn, Option.isSome_none, Bool.false_eq_true, if_false]
      exact ⟨h1, FR_bumpNamed fs gs _ _ x h2 h0 hx hb⟩

/-- the offset `CodeSTRUCT` records for an embedded named structure lies below the innermost named frame's bound -/
theorem FR_offset_le : ∀ (fs : List Frame) (gs : List SFrame) (cb lb : Int), FR fs gs cb lb → gs ≠ [] →
    cb + lb + sumAboveNamed fs ≤ nLB gs lb ∧ 0 ≤ sumAboveNamed fs
  | [], [], _, _, _, hne => absurd rfl hne
  | [], _ :: _, _, _, h, _ => absurd h (by simp [FR])
  | _ :: _, [], _, _, h, _ => absurd h (by simp [FR])
  | f :: fs, g :: gs, cb, lb, h, _ => by
    obtain ⟨h1, h2⟩ := h
    have hcb := h1.cb
    have hc0 := h1.cur0
    have hl : cb + lb ≤ lbUnder g lb := by
      unfold lbUnder
      by_cases hu : g.isUnion = true
      · have := h1.ucur hu; simp only [hu, if_true]; omega
      · simp only [hu, Bool.false_eq_true, if_false]; omega
    cases hn : g.name with
    | some n => simp only [nLB, sumAboveNamed, h1.name, hn, Option.isSome_some, if_true]; omega
    | none =>
      have hgs : gs ≠ [] := by
        intro he; have := h1.outer he; simp [hn] at this
      obtain ⟨i1, i2⟩ := FR_offset_le fs gs _ _ h2 hgs
      have hsv := h1.save hgs
      -- the frame below has `cb = g.base`, which is its non-negative counter
      have hb0 : 0 ≤ g.base := by
        cases fs with
        | nil => exact absurd (FR_nil_left h2) hgs
        | cons f2 fs2 =>
          cases gs with
          | nil => exact absurd rfl hgs
          | cons g2 gs2 => have := h2.1.cb; have := h2.1.cur0; omega
      simp only [nLB, sumAboveNamed, h1.name, hn, Option.isSome_none, Bool.false_eq_true, if_false, hsv]
      omega

/-! ## The full relation -/

/-- the model state seen from outside the open structures -/
def outS (s : St) : St := { s with actPC := s.structSaveSeg, structs := [] }
def outA (a : AddrSpec.A) : AddrSpec.A := { a with frames := [] }

/-- inside a structure body: the enclosing segment's data is related as outside, `ActPC = StructSeg`, the frame stacks
correspond, and the outermost structure stays below 2^31 units (`TotLen`, `CodeLen : LongInt`) -/
structure Rin (s : St) (a : AddrSpec.A) : Prop where
  out : Rout (outS s) (outA a)
  act : s.actPC = structSeg
  ne : a.frames ≠ []
  fr : FR s.structs a.frames (s.pcs structSeg) 0
  bound : lbOut a.frames 0 < 2147483648

/-- **the refinement relation**: outside structure bodies `Rout`, inside `Rin` (with the frame stack) -/
def R (s : St) (a : AddrSpec.A) : Prop := Rout s a ∨ Rin s a

theorem R_frames_nil {s : St} {a : AddrSpec.A} (h : R s a) (hf : a.frames = []) : Rout s a := by
  rcases h with h | h
  · exact h
  · exact absurd hf h.ne

theorem R_frames_ne {s : St} {a : AddrSpec.A} (h : R s a) (hf : a.frames ≠ []) : Rin s a := by
  rcases h with h | h
  · exact absurd h.frames hf
  · exact h

/-- everything but `PCs[StructSeg]` and the structure stack is the same -/
structure SameBut (s s' : St) : Prop where
  cpu : s'.cpu = s.cpu
  actPC : s'.actPC = s.actPC
  listOn : s'.listOn = s.listOn
  saves : s'.saves = s.saves
  saveSeg : s'.structSaveSeg = s.structSaveSeg
  used : ∀ t, s'.used t = s.used t
  pcs : ∀ t, t ≠ structSeg → s'.pcs t = s.pcs t
  phases : ∀ t, s'.phases t = s.phases t
  pstack : ∀ t, s'.pstack t = s.pstack t

theorem SameBut.rfl' (s : St) : SameBut s s :=
  ⟨rfl, rfl, rfl, rfl, rfl, fun _ => rfl, fun _ _ => rfl, fun _ => rfl, fun _ => rfl⟩

theorem SameBut.trans {s s' s'' : St} (h1 : SameBut s s') (h2 : SameBut s' s'') : SameBut s s'' :=
  ⟨h2.cpu.trans h1.cpu, h2.actPC.trans h1.actPC, h2.listOn.trans h1.listOn, h2.saves.trans h1.saves, h2.saveSeg.trans h1.saveSeg,
   fun t => (h2.used t).trans (h1.used t), fun t ht => (h2.pcs t ht).trans (h1.pcs t ht), fun t => (h2.phases t).trans (h1.phases t),
   fun t => (h2.pstack t).trans (h1.pstack t)⟩

theorem Rout_congr {s s' : St} {a : AddrSpec.A} (h : Rout s a) (e1 : s'.cpu = s.cpu) (e2 : s'.actPC = s.actPC) (e3 : s'.listOn = s.listOn)
    (e4 : s'.saves = s.saves) (e5 : s'.structs = s.structs) (e6 : ∀ t, s'.used t = s.used t) (e7 : ∀ t, t ≠ structSeg → s'.pcs t = s.pcs t)
    (e8 : ∀ t, s'.phases t = s.phases t) (e9 : ∀ t, s'.pstack t = s.pstack t) : Rout s' a := by
  refine { cpu := e1 ▸ h.cpu, seg := e2 ▸ h.seg, listing := e3 ▸ h.listing, saves := e4 ▸ h.saves, structs := e5 ▸ h.structs, frames := h.frames,
           notStruct := e2 ▸ h.notStruct, used := fun t => (e6 t).trans (h.used t), usedAct := by rw [e6, e2]; exact h.usedAct,
           pcs := ?_, ph := fun t => by rw [e8, e9]; exact h.ph t, savedOK := ?_, startedNS := h.startedNS, offsNS := h.offsNS }
  · intro t ht
    have hts : t ≠ structSeg := by
      intro he; subst he; rw [h.startedNS] at ht; exact absurd ht (by simp)
    rw [e7 t hts]; exact h.pcs t ht
  · rw [e4]; intro x hx; have := h.savedOK x hx
    exact ⟨this.1, by rw [e6]; exact this.2⟩

theorem Rin_update {s s' : St} {a : AddrSpec.A} (h : Rin s a) (sb : SameBut s s') (fs' : List SFrame) (hne : fs' ≠ [])
    (hfr : FR s'.structs fs' (s'.pcs structSeg) 0) (hb : lbOut fs' 0 < 2147483648) : Rin s' { a with frames := fs' } := by
  refine { out := ?_, act := sb.actPC.trans h.act, ne := hne, fr := hfr, bound := hb }
  exact Rout_congr (s := outS s) (s' := outS s') h.out sb.cpu sb.saveSeg sb.listOn sb.saves rfl sb.used sb.pcs sb.phases sb.pstack

theorem Rin_phase0 {s : St} {a : AddrSpec.A} (h : Rin s a) : s.phases structSeg = 0 := by
  have := h.out.ph structSeg
  have ho : (outA a).offs structSeg = [] := h.out.offsNS
  rw [ho] at this
  simp only [List.map_nil, List.nil_append, List.cons.injEq] at this
  exact this.1

theorem Rin_saveSeg {s : St} {a : AddrSpec.A} (h : Rin s a) : s.structSaveSeg ≠ structSeg := h.out.notStruct

/-- the top frames -/
theorem Rin_top {s : St} {a : AddrSpec.A} (h : Rin s a) : ∃ f fs g gs, s.structs = f :: fs ∧ a.frames = g :: gs ∧
    FOK f g gs (s.pcs structSeg) 0 ∧ FR fs gs g.base (lbUnder g 0) := by
  have hfr := h.fr
  cases hg : a.frames with
  | nil => exact absurd hg h.ne
  | cons g gs =>
    cases hf : s.structs with
    | nil => rw [hg, hf] at hfr; exact absurd hfr (by simp [FR])
    | cons f fs => rw [hg, hf] at hfr; exact ⟨f, fs, g, gs, rfl, rfl, hfr.1, hfr.2⟩

theorem top_le_lbUnder {f g gs cb} (h : FOK f g gs cb 0) : g.cur ≤ lbUnder g 0 ∧ 0 ≤ lbUnder g 0 := by
  have := h.cur0; have := h.len0
  unfold lbUnder
  by_cases hu : g.isUnion = true
  · have := h.ucur hu; simp only [hu, if_true]; omega
  · simp only [hu, Bool.false_eq_true, if_false]; omega

/-- the body's counter is the spec's `$`, small and non-negative -/
theorem Rin_counter {s : St} {a : AddrSpec.A} (h : Rin s a) :
    s.pcs structSeg = AddrSpec.dollar a ∧ 0 ≤ s.pcs structSeg ∧ s.pcs structSeg < 2147483648 ∧ epc s = s.pcs structSeg ∧ pc s = s.pcs structSeg := by
  obtain ⟨f, fs, g, gs, hf, hg, hk, hr⟩ := Rin_top h
  have hb := h.bound
  rw [hg] at hb
  simp only [lbOut] at hb
  have := FR_lbOut_ge _ _ _ _ hr
  have := top_le_lbUnder hk
  have hc := hk.cb
  have := hk.cur0
  have hd : AddrSpec.dollar a = g.cur := by simp [AddrSpec.dollar, hg]
  refine ⟨by rw [hd]; exact hc, by omega, by omega, ?_, by simp [pc, h.act]⟩
  unfold epc
  rw [h.act, Rin_phase0 h, wrap64_def]
  omega

/-! ## Labels inside a body -/

theorem labelDefs_eq (a : AddrSpec.A) (st : Stmt) :
    AddrSpec.labelDefs a st = (match st.label with
      | some l => if labelPresent st then [AddrSpec.labelDef a l] else []
      | none => []) := by
  obtain ⟨lab, op⟩ := st
  cases lab <;> cases op <;> simp [AddrSpec.labelDefs, labelPresent]

theorem labelDef_in (a : AddrSpec.A) (l : Nat) (h : a.frames ≠ []) :
    AddrSpec.labelDef a l = (⟨AddrSpec.namedPath a.frames, some l⟩, AddrSpec.dollar a + AddrSpec.baseSum a.frames) := by
  unfold AddrSpec.labelDef
  cases hf : a.frames with
  | nil => exact absurd hf h
  | cons g gs => rfl

theorem SameBut_structs (s : St) (x : List Frame) : SameBut s { s with structs := x } :=
  ⟨rfl, rfl, rfl, rfl, rfl, fun _ => rfl, fun _ _ => rfl, fun _ => rfl, fun _ => rfl⟩

theorem labelPart_in {s : St} {a : AddrSpec.A} (h : Rin s a) (st : Stmt) :
    ∃ s1, labelPart s st = (s1, wrapDefs (AddrSpec.labelDefs a st)) ∧ Rin s1 a := by
  rw [labelDefs_eq]
  unfold labelPart
  cases hl : st.label with
  | none => exact ⟨s, by simp [wrapDefs], h⟩
  | some l =>
    by_cases hp : labelPresent st = true
    · simp only [hp, if_true]
      obtain ⟨nf, hin, hpath⟩ := FR_innermost _ _ _ _ h.fr h.ne
      obtain ⟨c1, c2, c3, c4, c5⟩ := Rin_counter h
      obtain ⟨f, fs, g, gs, hf, hg, hk, hr⟩ := Rin_top h
      have hss := FR_sumSave _ _ _ _ h.fr
      refine ⟨{ s with structs := bumpNamed s.structs (epc s) }, ?_, ?_⟩
      · unfold labelHandle
        rw [hin]
        rw [labelDef_in a l h.ne]
        simp only [wrapDefs, List.map_cons, List.map_nil, hpath, hss, c4, c1]
      · have hx : s.pcs structSeg ≤ nLB a.frames 0 := by
          have := (FR_offset_le _ _ _ _ h.fr h.ne)
          omega
        have := FR_bumpNamed _ _ _ _ (epc s) h.fr (by rw [c4]; exact c2) (by rw [c4]; exact hx) h.bound
        exact Rin_update h (SameBut_structs s _) a.frames h.ne this h.bound
    · simp only [hp, Bool.false_eq_true, if_false]
      exact ⟨s, by simp [wrapDefs], h⟩

/-! ## `WriteCode` inside a body -/

theorem writeCode_struct (d : Dec) (f : Frame) (fs : List Frame) (hact : d.s.actPC = structSeg) (hst : d.s.structs = f :: fs)
    (hc : d.crash = false) :
    writeCode d =
      ((if f.isUnion then { d.s with structs := bump f d.codeLen :: fs, pcs := upd d.s.pcs structSeg 0 }
        else { d.s with pcs := upd d.s.pcs structSeg (wrap64 (d.s.pcs structSeg + d.codeLen)) }),
       { errs := if d.codeLen ≠ 0 ∧ d.dontPrint = false then d.errs ++ [errNotInStruct] else d.errs, defs := d.defs }) := by
  unfold writeCode
  simp only [hc, hact, hst, pc]
  by_cases hu : f.isUnion = true <;> simp [hu]

/-! ## The step relation -/

/-- what one step of the refinement claims -/
def Sim (cfg : Cfg) (segs : Nat → Nat → AddrSpec.SegInfo) (s : St) (a : AddrSpec.A) (st : Stmt) : Prop :=
  match AddrSpec.step segs a st with
  | .ok a' defs => R (step cfg s st).1 a' ∧ (step cfg s st).2.errs = [] ∧ (step cfg s st).2.crash = false ∧
                   (step cfg s st).2.defs = wrapDefs defs
  | .reject => (step cfg s st).2.errs ≠ [] ∨ (step cfg s st).2.crash = true
  | .unspecified => True

theorem Sim_of_out {cfg : Cfg} {segs} {s : St} {a : AddrSpec.A} {st : Stmt} (h : SimOut cfg segs s a st) : Sim cfg segs s a st := by
  unfold SimOut at h
  unfold Sim
  split <;> simp_all
  exact Or.inl h.1

/-- the statement without its label: decoder + `WriteCode` -/
def CoreSim (cfg : Cfg) (segs : Nat → Nat → AddrSpec.SegInfo) (s : St) (a : AddrSpec.A) (op : Op) : Prop :=
  match AddrSpec.step segs a ⟨none, op⟩ with
  | .ok a' defs => R (writeCode (decode cfg s op)).1 a' ∧ (writeCode (decode cfg s op)).2.errs = [] ∧
                   (writeCode (decode cfg s op)).2.crash = false ∧ (writeCode (decode cfg s op)).2.defs = wrapDefs defs
  | .reject => (writeCode (decode cfg s op)).2.errs ≠ [] ∨ (writeCode (decode cfg s op)).2.crash = true
  | .unspecified => True

def addDefs (l : List (Sym × Int)) : AddrSpec.Res → AddrSpec.Res
  | .ok a d => .ok a (l ++ d)
  | r => r

theorem labelDefs_none (a : AddrSpec.A) (op : Op) : AddrSpec.labelDefs a ⟨none, op⟩ = [] := by
  cases op <;> rfl

theorem reserve_defs (segs) (a : AddrSpec.A) (k : Int) (l : List (Sym × Int)) :
    AddrSpec.reserve segs a k l = addDefs l (AddrSpec.reserve segs a k []) := by
  unfold AddrSpec.reserve
  split
  · simp [addDefs]
  · split <;> simp [addDefs]

/-- the label only contributes its definition -/
theorem spec_step_label (segs) (a : AddrSpec.A) (lab : Option Nat) (op : Op) :
    AddrSpec.step segs a ⟨lab, op⟩ = addDefs (AddrSpec.labelDefs a ⟨lab, op⟩) (AddrSpec.step segs a ⟨none, op⟩) := by
  cases op with
  | struct n u =>
    have : AddrSpec.labelDefs a ⟨lab, .struct n u⟩ = [] := by cases lab <;> rfl
    rw [this]
    simp only [AddrSpec.step]
    split <;> simp [addDefs]
  | endstruct =>
    have : AddrSpec.labelDefs a ⟨lab, .endstruct⟩ = [] := by cases lab <;> rfl
    rw [this]
    simp only [AddrSpec.step]
    repeat' split
    all_goals simp [addDefs]
  | align n f =>
    simp only [AddrSpec.step, labelDefs_none]
    repeat' split
    all_goals first | rfl | (rw [reserve_defs]) | simp [addDefs]
  | res k =>
    simp only [AddrSpec.step, labelDefs_none]
    repeat' split
    all_goals first | rfl | (rw [reserve_defs]) | simp [addDefs]
  | emit k =>
    simp only [AddrSpec.step, labelDefs_none]
    repeat' split
    all_goals first | rfl | (rw [reserve_defs]) | simp [addDefs]
  | _ =>
    simp only [AddrSpec.step, labelDefs_none]
    repeat' split
    all_goals simp [addDefs]

theorem sim_of_core (cfg : Cfg) (segs) {s : St} {a : AddrSpec.A} (h : Rin s a) (lab : Option Nat) (op : Op)
    (hcore : ∀ s1, Rin s1 a → CoreSim cfg segs s1 a op) : Sim cfg segs s a ⟨lab, op⟩ := by
  obtain ⟨s1, hlp, h1⟩ := labelPart_in h ⟨lab, op⟩
  have hc := hcore s1 h1
  unfold Sim
  unfold CoreSim at hc
  rw [spec_step_label]
  have hstep : step cfg s ⟨lab, op⟩ = ((writeCode (decode cfg s1 op)).1,
      { (writeCode (decode cfg s1 op)).2 with defs := wrapDefs (AddrSpec.labelDefs a ⟨lab, op⟩) ++ (writeCode (decode cfg s1 op)).2.defs }) := by
    simp [step, hlp]
  rw [hstep]
  cases hs : AddrSpec.step segs a ⟨none, op⟩ with
  | ok a' d =>
    rw [hs] at hc
    simp only [addDefs]
    exact ⟨hc.1, hc.2.1, hc.2.2.1, by simp [hc.2.2.2, wrapDefs]⟩
  | reject => rw [hs] at hc; simpa [addDefs] using hc
  | unspecified => simp [addDefs]

/-! ## Statements that move the innermost body's counter / length -/

theorem namedPath_congr (g g' : SFrame) (gs : List SFrame) (h : g'.name = g.name) :
    AddrSpec.namedPath (g' :: gs) = AddrSpec.namedPath (g :: gs) := by
  rw [namedPath_cons, namedPath_cons, h]

theorem Rin_top_eq {s : St} {a : AddrSpec.A} (h : Rin s a) {g : SFrame} {gs : List SFrame} (hg : a.frames = g :: gs) :
    ∃ f fs, s.structs = f :: fs ∧ FOK f g gs (s.pcs structSeg) 0 ∧ FR fs gs g.base (lbUnder g 0) := by
  obtain ⟨f, fs, g0, gs0, hf, hg0, hk, hr⟩ := Rin_top h
  rw [hg] at hg0
  simp only [List.cons.injEq] at hg0
  obtain ⟨rfl, rfl⟩ := hg0
  exact ⟨f, fs, hf, hk, hr⟩

theorem SameBut_pcs (s : St) (v : Int) : SameBut s { s with pcs := upd s.pcs structSeg v } :=
  ⟨rfl, rfl, rfl, rfl, rfl, fun _ => rfl, fun t ht => by simp [upd, ht], fun _ => rfl, fun _ => rfl⟩

theorem SameBut_pcs_structs (s : St) (v : Int) (x : List Frame) : SameBut s { s with structs := x, pcs := upd s.pcs structSeg v } :=
  ⟨rfl, rfl, rfl, rfl, rfl, fun _ => rfl, fun t ht => by simp [upd, ht], fun _ => rfl, fun _ => rfl⟩

/-- innermost frame is a STRUCT: the decoder left the counter at `c'` and a length `k`; afterwards the counter is `X = c' + k ≥` old -/
theorem core_struct {s : St} {a : AddrSpec.A} (h : Rin s a) {g : SFrame} {gs : List SFrame} (hg : a.frames = g :: gs)
    (hu : g.isUnion = false) (d : Dec) (sb : SameBut s d.s) (hst : d.s.structs = s.structs) (c' k X : Int)
    (hpc : d.s.pcs structSeg = c') (hk : d.codeLen = k) (hX : X = c' + k) (hge : g.cur ≤ X) (hc : d.crash = false)
    (hdp : k = 0 ∨ d.dontPrint = true) (hb : lbOut ({ g with cur := X } :: gs) 0 < 2147483648) :
    Rin (writeCode d).1 { a with frames := { g with cur := X } :: gs } ∧ (writeCode d).2.errs = d.errs ∧
    (writeCode d).2.crash = false ∧ (writeCode d).2.defs = d.defs := by
  obtain ⟨f, fs, hf, hk0, hr⟩ := Rin_top_eq h hg
  have hfu : f.isUnion = false := by rw [hk0.isUnion]; exact hu
  rw [writeCode_struct d f fs (sb.actPC.trans h.act) (hst.trans hf) hc]
  simp only [hfu, Bool.false_eq_true, if_false]
  have hlb : lbUnder g 0 ≤ lbUnder { g with cur := X } 0 := by simp only [lbUnder, hu, Bool.false_eq_true, if_false]; omega
  have hr' := FR_mono _ _ _ _ _ hr hlb
  have hge2 := FR_lbOut_ge _ _ _ _ hr'
  simp only [lbOut] at hb
  have hX2 : lbUnder { g with cur := X } 0 = X := by simp [lbUnder, hu]
  have hc0 := hk0.cur0
  have hw : wrap64 (d.s.pcs structSeg + d.codeLen) = X := by rw [hpc, hk, ← hX]; exact wrap64_small (by omega) (by omega)
  rw [hw]
  refine ⟨?_, ?_, by first | rfl | trivial, by first | rfl | trivial⟩
  · refine Rin_update h (sb.trans (SameBut_pcs d.s X)) _ (by simp) ?_ (by simpa [lbOut] using hb)
    simp only [upd_same, hst, hf]
    refine ⟨?_, hr'⟩
    exact { name := hk0.name, isUnion := hk0.isUnion, path := by rw [hk0.path]; simp only [namedPath_congr { g with cur := X } g gs rfl], cb := rfl, cur0 := by show 0 ≤ X; omega, len0 := hk0.len0,
            ucur := by intro hx; rw [hu] at hx; exact absurd hx (by simp), outer := hk0.outer, save := hk0.save,
            ulen := by intro hx; rw [hu] at hx; exact absurd hx (by simp), tot0 := hk0.tot0, tot := Int.le_trans hk0.tot hlb }
  · rcases hdp with hdp | hdp
    · simp [hk, hdp]
    · simp [hdp]

/-- innermost frame is a UNION: a member of length `k` raises the recorded maximum, the counter goes back to 0 -/
theorem core_union {s : St} {a : AddrSpec.A} (h : Rin s a) {g : SFrame} {gs : List SFrame} (hg : a.frames = g :: gs)
    (hu : g.isUnion = true) (d : Dec) (sb : SameBut s d.s) (hst : d.s.structs = s.structs) (k : Int)
    (hk : d.codeLen = k) (hk0 : 0 ≤ k) (hc : d.crash = false)
    (hdp : k = 0 ∨ d.dontPrint = true) (hb : lbOut ({ g with len := max g.len k } :: gs) 0 < 2147483648) :
    Rin (writeCode d).1 { a with frames := { g with len := max g.len k } :: gs } ∧ (writeCode d).2.errs = d.errs ∧
    (writeCode d).2.crash = false ∧ (writeCode d).2.defs = d.defs := by
  obtain ⟨f, fs, hf, hf0, hr⟩ := Rin_top_eq h hg
  have hfu : f.isUnion = true := by rw [hf0.isUnion]; exact hu
  rw [writeCode_struct d f fs (sb.actPC.trans h.act) (hst.trans hf) hc]
  simp only [hfu, if_true]
  have hl0 := hf0.len0
  have hX1 : lbUnder g 0 = max g.len 0 := by simp [lbUnder, hu]
  have hX2 : lbUnder { g with len := max g.len k } 0 = max (max g.len k) 0 := by simp [lbUnder, hu]
  have hlb : lbUnder g 0 ≤ lbUnder { g with len := max g.len k } 0 := by rw [hX1, hX2]; omega
  have hr' := FR_mono _ _ _ _ _ hr hlb
  have hge2 := FR_lbOut_ge _ _ _ _ hr'
  simp only [lbOut] at hb
  obtain ⟨b1, b2, b3, b4⟩ := bump_fields f k
  have bt := bump_totLen f k (by omega) (by omega)
  have t0 := hf0.tot0
  have t1 := hf0.tot
  have t2 := hf0.ulen hu
  refine ⟨?_, ?_, by first | rfl | trivial, by first | rfl | trivial⟩
  · refine Rin_update h (sb.trans (SameBut_pcs_structs d.s 0 _)) _ (by simp) ?_ (by simpa [lbOut] using hb)
    simp only [upd_same, hk]
    refine ⟨?_, hr'⟩
    exact { name := b1 ▸ hf0.name, isUnion := b3 ▸ hf0.isUnion, path := by rw [b2, hf0.path]; simp only [namedPath_congr { g with len := max g.len k } g gs rfl], cb := (hf0.ucur hu).symm, cur0 := hf0.cur0,
            len0 := by show 0 ≤ max g.len k; omega, ucur := hf0.ucur, outer := hf0.outer, save := b4 ▸ hf0.save,
            ulen := by intro _; show max g.len k ≤ _; rw [bt]; omega, tot0 := by rw [bt]; omega,
            tot := by rw [bt, hX2]; rw [hX1] at t1; omega }
  · rcases hdp with hdp | hdp
    · simp [hk, hdp]
    · simp [hdp]

theorem A_frames_eq (a : AddrSpec.A) (x : List SFrame) (h : a.frames = x) : { a with frames := x } = a := by
  cases a; simp only at h; subst h; rfl

def BoundAfter (segs : Nat → Nat → AddrSpec.SegInfo) (a : AddrSpec.A) (op : Op) : Prop :=
  ∀ a' d, AddrSpec.step segs a ⟨none, op⟩ = .ok a' d → lbOut a'.frames 0 < 2147483648

/-- a statement whose decoder leaves the state alone and hands `k ≥ 0` units to `WriteCode`, and for which the spec
machine advances the current position by `k` -/
theorem core_reserve (cfg : Cfg) (segs) {s : St} {a : AddrSpec.A} (h : Rin s a) (op : Op) (k : Int) (hk0 : 0 ≤ k)
    (hspec : AddrSpec.step segs a ⟨none, op⟩ = .ok (AddrSpec.advance a k) [])
    (hds : (decode cfg s op).s = s) (hdk : (decode cfg s op).codeLen = k) (hc : (decode cfg s op).crash = false)
    (hde : (decode cfg s op).errs = []) (hdd : (decode cfg s op).defs = []) (hdp : k = 0 ∨ (decode cfg s op).dontPrint = true)
    (hb : BoundAfter segs a op) : CoreSim cfg segs s a op := by
  unfold CoreSim
  rw [hspec]
  have hb' := hb _ _ hspec
  obtain ⟨f, fs, g, gs, hf, hg, hk, hr⟩ := Rin_top h
  have c := Rin_counter h
  have hcur : s.pcs structSeg = g.cur := hk.cb
  simp only []
  by_cases hu : g.isUnion = true
  · have hadv : AddrSpec.advance a k = { a with frames := { g with len := max g.len k } :: gs } := by
      simp [AddrSpec.advance, hg, hu]
    rw [hadv] at hb' ⊢
    obtain ⟨r1, r2, r3, r4⟩ := core_union h hg hu (decode cfg s op) (by rw [hds]; exact SameBut.rfl' s) (by rw [hds]) k hdk hk0 hc hdp hb'
    exact ⟨Or.inr r1, by rw [r2, hde], r3, by rw [r4, hdd]; rfl⟩
  · have hu' : g.isUnion = false := by simpa using hu
    have hadv : AddrSpec.advance a k = { a with frames := { g with cur := g.cur + k } :: gs } := by
      simp [AddrSpec.advance, hg, hu']
    rw [hadv] at hb' ⊢
    obtain ⟨r1, r2, r3, r4⟩ := core_struct h hg hu' (decode cfg s op) (by rw [hds]; exact SameBut.rfl' s) (by rw [hds]) g.cur k (g.cur + k)
      (by rw [hds]; exact hcur) hdk rfl (by omega) hc hdp hb'
    exact ⟨Or.inr r1, by rw [r2, hde], r3, by rw [r4, hdd]; rfl⟩

theorem advance0 {s : St} {a : AddrSpec.A} (h : Rin s a) : AddrSpec.advance a 0 = a := by
  obtain ⟨f, fs, g, gs, hf, hg, hk, hr⟩ := Rin_top h
  have := hk.len0
  unfold AddrSpec.advance
  rw [hg]
  simp only []
  have h1 : max g.len 0 = g.len := by omega
  have h2 : g.cur + 0 = g.cur := by omega
  rw [h1, h2]
  split <;> exact A_frames_eq a _ hg

theorem core_nop (cfg : Cfg) (segs) {s : St} {a : AddrSpec.A} (h : Rin s a) : CoreSim cfg segs s a .nop := by
  have hspec : AddrSpec.step segs a ⟨none, .nop⟩ = .ok (AddrSpec.advance a 0) [] := by
    rw [advance0 h]; simp [AddrSpec.step, labelDefs_none]
  apply core_reserve cfg segs h .nop 0 (by omega) hspec
  all_goals try simp [decode]
  intro a' d hs; rw [hspec] at hs; simp only [AddrSpec.Res.ok.injEq] at hs; rw [← hs.1, advance0 h]; exact h.bound

theorem Rin_listing {s : St} {a : AddrSpec.A} (h : Rin s a) (b : Bool) : Rin { s with listOn := b } { a with listing := b } := by
  refine { out := ?_, act := h.act, ne := h.ne, fr := h.fr, bound := h.bound }
  have ho := h.out
  exact { ho with listing := rfl, pcs := ho.pcs, ph := ho.ph, savedOK := ho.savedOK }

theorem core_listing (cfg : Cfg) (segs) {s : St} {a : AddrSpec.A} (h : Rin s a) (b : Bool) : CoreSim cfg segs s a (.listing b) := by
  have h2 := Rin_listing h b
  have hspec : AddrSpec.step segs a ⟨none, .listing b⟩ = .ok { a with listing := b } [] := by
    simp [AddrSpec.step, labelDefs_none]
  have hn := core_nop cfg segs h2
  unfold CoreSim at hn ⊢
  rw [hspec]
  have hspec2 : AddrSpec.step segs { a with listing := b } ⟨none, .nop⟩ = .ok { a with listing := b } [] := by
    simp [AddrSpec.step, labelDefs_none]
  rw [hspec2] at hn
  exact hn

/-- side conditions inside a structure body: operand widths of `CodeLen : LongInt` -/
def PreIn (a : AddrSpec.A) (st : Stmt) : Prop :=
  match st.op with
  | .align n _ => AddrSpec.dollar a + n - 1 < 2147483648
  | .emit k => k < 2147483648
  | .res k => k < 2147483648
  | _ => True

theorem core_res (cfg : Cfg) (segs) {s : St} {a : AddrSpec.A} (h : Rin s a) (k : Int) (hp : k < 2147483648)
    (hb : BoundAfter segs a (.res k)) : CoreSim cfg segs s a (.res k) := by
  by_cases hk : k ≤ 0
  · unfold CoreSim; simp [AddrSpec.step, hk]
  · obtain ⟨f, fs, g, gs, hf, hg, _, _⟩ := Rin_top h
    have hti : toI32 k = k := toI32_small (by omega) (by omega)
    apply core_reserve cfg segs h (.res k) k (by omega) _ _ _ _ _ _ _ hb
    · simp [AddrSpec.step, hk, AddrSpec.reserve, hg, labelDefs_none]
    all_goals simp [decode, hti]

theorem core_align (cfg : Cfg) (segs) {s : St} {a : AddrSpec.A} (h : Rin s a) (n : Int) (fl : Option Nat)
    (hp : AddrSpec.dollar a + n - 1 < 2147483648) (hb : BoundAfter segs a (.align n fl)) : CoreSim cfg segs s a (.align n fl) := by
  obtain ⟨f, fs, g, gs, hf, hg, hk0, _⟩ := Rin_top h
  obtain ⟨c1, c2, c3, c4, c5⟩ := Rin_counter h
  have hins : a.frames.isEmpty = false := by simp [hg]
  by_cases hn0 : n = 0
  · subst hn0
    unfold CoreSim
    simp only [AddrSpec.step, if_true]
    have hd : decode cfg s (.align 0 fl) = (if cfg.alignZeroErr = 0 then { s := s, crash := true } else { s := s, errs := [cfg.alignZeroErr] }) := by
      simp [decode, codeALIGN, toWord_def]
    by_cases hz : cfg.alignZeroErr = 0
    · right; rw [hd]; simp [hz, writeCode]
    · left; rw [hd]; simp only [hz, if_false]
      rw [writeCode_struct _ f fs h.act hf rfl]; simp
  · by_cases hr : n < 0 ∨ n > 65535
    · unfold CoreSim
      rcases hr with hr | hr <;> simp [AddrSpec.step, hn0, hr]
    · cases fl with
      | some fv => unfold CoreSim; simp [AddrSpec.step, hn0, hins]
      | none =>
        have hnp : 0 < n := by omega
        have hn2 : n < 65536 := by omega
        have h1 : ¬ n < 0 := by omega
        have h2 : ¬ 65535 < n := by omega
        have hd0 : ¬ AddrSpec.dollar a < 0 := by omega
        obtain ⟨l1, l2, l3, l4, l5⟩ := codeALIGN_len cfg s n hnp hn2 (by rw [c4, c1]; exact hp)
        obtain ⟨_, b1, b2, _⟩ := alignUp_spec (AddrSpec.dollar a) n (by omega) hnp
        rw [c4, c1] at l1 l5
        apply core_reserve cfg segs h (.align n none) (AddrSpec.alignUp (AddrSpec.dollar a) n - AddrSpec.dollar a) (by omega) _ _ _ _ _ _ _ hb
        · simp [AddrSpec.step, hn0, h1, h2, hd0, AddrSpec.reserve, hg, labelDefs_none]
        · simpa [decode] using l4
        · simpa [decode] using l1
        · simpa [decode] using l2
        · simpa [decode] using l3
        · simp only [decode]; unfold codeALIGN; splits <;> simp
        · by_cases hz : AddrSpec.alignUp (AddrSpec.dollar a) n - AddrSpec.dollar a = 0
          · exact Or.inl hz
          · right; simp only [decode]; rw [l5]; simpa using hz

theorem core_emit (cfg : Cfg) (segs) {s : St} {a : AddrSpec.A} (h : Rin s a) (k : Int) (hp : k < 2147483648) :
    CoreSim cfg segs s a (.emit k) := by
  obtain ⟨f, fs, g, gs, hf, hg, _, _⟩ := Rin_top h
  have hins : a.frames.isEmpty = false := by simp [hg]
  unfold CoreSim
  by_cases hk : k ≤ 0
  · simp [AddrSpec.step, hk]
  · have hti : toI32 k = k := toI32_small (by omega) (by omega)
    simp only [AddrSpec.step, hk, if_false, hins, Bool.not_false, if_true]
    left
    rw [writeCode_struct _ f fs (by simpa [decode] using h.act) (by simpa [decode] using hf) (by simp [decode])]
    have : k ≠ 0 := by omega
    simp [decode, hti, this]

theorem core_phase (cfg : Cfg) (segs) {s : St} {a : AddrSpec.A} (h : Rin s a) (v : Int) : CoreSim cfg segs s a (.phase v) := by
  obtain ⟨f, fs, g, gs, hf, hg, _, _⟩ := Rin_top h
  have hins : a.frames.isEmpty = false := by simp [hg]
  have hd : decode cfg s (.phase v) = { s := s, errs := [errPhaseDisallowed] } := by simp [decode, codePHASE, h.act]
  unfold CoreSim
  simp only [AddrSpec.step, hins, Bool.not_false, if_true]
  left
  rw [hd, writeCode_struct _ f fs h.act hf rfl]; simp

theorem core_dephase (cfg : Cfg) (segs) {s : St} {a : AddrSpec.A} (h : Rin s a) : CoreSim cfg segs s a .dephase := by
  obtain ⟨f, fs, g, gs, hf, hg, _, _⟩ := Rin_top h
  have hins : a.frames.isEmpty = false := by simp [hg]
  have hd : decode cfg s .dephase = { s := s, errs := [errPhaseDisallowed] } := by simp [decode, codeDEPHASE, h.act]
  unfold CoreSim
  simp only [AddrSpec.step, hins, Bool.not_false, if_true]
  left
  rw [hd, writeCode_struct _ f fs h.act hf rfl]; simp

theorem core_unspec (cfg : Cfg) (segs) {s : St} {a : AddrSpec.A} (h : Rin s a) (op : Op)
    (ho : (∃ t, op = .segment t) ∨ (∃ c, op = .cpu c) ∨ op = .save ∨ op = .restore) : CoreSim cfg segs s a op := by
  obtain ⟨f, fs, g, gs, hf, hg, _, _⟩ := Rin_top h
  have hins : a.frames.isEmpty = false := by simp [hg]
  unfold CoreSim
  rcases ho with ⟨t, rfl⟩ | ⟨c, rfl⟩ | rfl | rfl <;> simp [AddrSpec.step, hins]

theorem codeORG_sameBut (cfg : Cfg) (s : St) (v : Int) (hact : s.actPC = structSeg) :
    SameBut s (codeORG cfg s v).s ∧ (codeORG cfg s v).s.structs = s.structs := by
  unfold codeORG
  splits <;> refine ⟨⟨rfl, rfl, rfl, rfl, rfl, fun _ => rfl, fun t ht => ?_, fun _ => rfl, fun _ => rfl⟩, rfl⟩ <;> simp [upd, hact, ht]

theorem core_org (cfg : Cfg) (segs) {s : St} {a : AddrSpec.A} (h : Rin s a) (v : Int) (hb : BoundAfter segs a (.org v)) :
    CoreSim cfg segs s a (.org v) := by
  obtain ⟨f, fs, g, gs, hf, hg, hk0, hr⟩ := Rin_top h
  obtain ⟨c1, c2, c3, c4, c5⟩ := Rin_counter h
  unfold CoreSim
  by_cases hu : g.isUnion = true
  · simp [AddrSpec.step, hg, hu]
  · have hu' : g.isUnion = false := by simpa using hu
    by_cases hv : v < g.cur
    · simp [AddrSpec.step, hg, hu', hv]
    · have hspec : AddrSpec.step segs a ⟨none, .org v⟩ = .ok { a with frames := { g with cur := v } :: gs } [] := by
        simp [AddrSpec.step, hg, hu', hv, labelDefs_none]
      rw [hspec]
      have hb' := hb _ _ hspec
      -- v is below the bound
      have hlb : lbUnder g 0 ≤ lbUnder { g with cur := v } 0 := by simp only [lbUnder, hu', Bool.false_eq_true, if_false]; omega
      have hge2 := FR_lbOut_ge _ _ _ _ (FR_mono _ _ _ _ _ hr hlb)
      have hX2 : lbUnder { g with cur := v } 0 = v := by simp [lbUnder, hu']
      have hv2 : v < 2147483648 := by simp only [lbOut] at hb'; omega
      have hc0 := hk0.cur0
      have hwv : wrap64 v = v := wrap64_small (by omega) (by omega)
      obtain ⟨f1, f2, f3, f4, e1, e2, e3, e4, e5, e6, e7, e8, e9, g1, g2, g3⟩ := codeORG_facts cfg s v
      obtain ⟨sb, hst⟩ := codeORG_sameBut cfg s v h.act
      have hph := Rin_phase0 h
      have hpcs : (codeORG cfg s v).s.pcs structSeg = v := by
        rw [← h.act]
        by_cases hc : cfg.orgLoad = true
        · rw [g1 hc, hwv]
        · have hc' : cfg.orgLoad = false := by simpa using hc
          by_cases he : epc s = wrap64 v
          · rw [g2 hc' he, h.act, ← c4, he, hwv]
          · rw [g3 hc' he, h.act, hph, hwv]; simp only [wrap64_def]; omega
      obtain ⟨r1, r2, r3, r4⟩ := core_struct h hg hu' (codeORG cfg s v) sb hst v 0 v hpcs f1 (by omega) (by omega) f2 (Or.inl rfl) hb'
      simp only [decode]
      exact ⟨Or.inr r1, by rw [r2, f3], r3, by rw [r4, f4]; rfl⟩

theorem core_rorg (cfg : Cfg) (segs) {s : St} {a : AddrSpec.A} (h : Rin s a) (dl : Int) (hb : BoundAfter segs a (.rorg dl)) :
    CoreSim cfg segs s a (.rorg dl) := by
  obtain ⟨f, fs, g, gs, hf, hg, hk0, hr⟩ := Rin_top h
  obtain ⟨c1, c2, c3, c4, c5⟩ := Rin_counter h
  unfold CoreSim
  by_cases hu : g.isUnion = true
  · simp [AddrSpec.step, hg, hu]
  · have hu' : g.isUnion = false := by simpa using hu
    by_cases hv : dl < 0
    · simp [AddrSpec.step, hg, hu', hv]
    · have hspec : AddrSpec.step segs a ⟨none, .rorg dl⟩ = .ok { a with frames := { g with cur := g.cur + dl } :: gs } [] := by
        simp [AddrSpec.step, hg, hu', hv, labelDefs_none]
      rw [hspec]
      have hb' := hb _ _ hspec
      have hlb : lbUnder g 0 ≤ lbUnder { g with cur := g.cur + dl } 0 := by simp only [lbUnder, hu', Bool.false_eq_true, if_false]; omega
      have hge2 := FR_lbOut_ge _ _ _ _ (FR_mono _ _ _ _ _ hr hlb)
      have hX2 : lbUnder { g with cur := g.cur + dl } 0 = g.cur + dl := by simp [lbUnder, hu']
      have hv2 : g.cur + dl < 2147483648 := by simp only [lbOut] at hb'; omega
      have hc0 := hk0.cur0
      have hcb : s.pcs structSeg = g.cur := hk0.cb
      have hsb : SameBut s (codeRORG s dl).s := by
        refine ⟨rfl, rfl, rfl, rfl, rfl, fun _ => rfl, fun t ht => ?_, fun _ => rfl, fun _ => rfl⟩
        simp [codeRORG, upd, h.act, ht]
      have hpcs : (codeRORG s dl).s.pcs structSeg = g.cur + dl := by
        simp only [codeRORG, h.act, upd_same, hcb]; exact wrap64_small (by omega) (by omega)
      obtain ⟨r1, r2, r3, r4⟩ := core_struct h hg hu' (codeRORG s dl) hsb rfl (g.cur + dl) 0 (g.cur + dl) hpcs rfl (by omega) (by omega) rfl (Or.inl rfl) hb'
      simp only [decode]
      exact ⟨Or.inr r1, by rw [r2]; rfl, r3, by rw [r4]; rfl⟩

/-! ## STRUCT / UNION inside a body -/

theorem namedIds_cons (f : Frame) (fs : List Frame) :
    namedIds (f :: fs) = namedIds fs ++ (match f.name with | some n => [n] | none => []) := by
  unfold namedIds
  cases hn : f.name <;> simp [List.filterMap_append, hn]

theorem FR_namedIds : ∀ (fs : List Frame) (gs : List SFrame) (cb lb : Int), FR fs gs cb lb → namedIds fs = AddrSpec.namedPath gs
  | [], [], _, _, _ => rfl
  | [], _ :: _, _, _, h => absurd h (by simp [FR])
  | _ :: _, [], _, _, h => absurd h (by simp [FR])
  | f :: fs, g :: gs, cb, lb, h => by
    rw [namedIds_cons, namedPath_cons, FR_namedIds fs gs _ _ h.2, h.1.name]

theorem nLB_le_lbOut : ∀ (fs : List Frame) (gs : List SFrame) (cb lb : Int), FR fs gs cb lb → nLB gs lb ≤ lbOut gs lb
  | [], [], _, _, _ => Int.le_refl _
  | [], _ :: _, _, _, h => absurd h (by simp [FR])
  | _ :: _, [], _, _, h => absurd h (by simp [FR])
  | f :: fs, g :: gs, cb, lb, h => by
    simp only [nLB, lbOut]
    split
    · exact FR_lbOut_ge _ _ _ _ h.2
    · exact nLB_le_lbOut fs gs _ _ h.2

/-- the state `CodeSTRUCT` leaves (before `WriteCode`) -/
def openState (s : St) (x : List Frame) : St :=
  { s with structs := x, structSaveSeg := s.structSaveSeg, actPC := structSeg, pcs := upd s.pcs structSeg 0, phases := upd s.phases structSeg 0 }

theorem codeSTRUCT_named (s : St) (n : Nat) (u : Bool) (nf : Frame) (hact : s.actPC = structSeg) (hin : innermostNamed s.structs = some nf) :
    codeSTRUCT s (some n) u =
      { s := openState s ({ name := some n, path := namedIds s.structs ++ [n], isUnion := u, savePC := pc s, totLen := 0 } ::
                          bumpNamed s.structs (wrap64 (pc s + sumAboveNamed s.structs))),
        codeLen := 0, dontPrint := true, defs := [(⟨nf.path, some n⟩, wrap64 (pc s + sumSave s.structs))] } := by
  unfold codeSTRUCT openState
  simp [hin, hact]

theorem codeSTRUCT_nameless (s : St) (u : Bool) (nf : Frame) (hact : s.actPC = structSeg) (hin : innermostNamed s.structs = some nf) :
    codeSTRUCT s none u =
      { s := openState s ({ name := none, path := [], isUnion := u, savePC := pc s, totLen := 0 } :: s.structs),
        codeLen := 0, dontPrint := true, defs := [] } := by
  unfold codeSTRUCT openState
  simp [hin, hact]

/-- `WriteCode` directly after `CodeSTRUCT` (length 0, fresh frame) only resets the counter -/
theorem writeCode_fresh (s : St) (fr : Frame) (rest : List Frame) (defs : List (Sym × Int)) (hs : s.structs = fr :: rest) (hact : s.actPC = structSeg)
    (ht : fr.totLen = 0) (hp : s.pcs structSeg = 0) :
    ∃ s', writeCode { s := s, codeLen := 0, dontPrint := true, defs := defs } = (s', { defs := defs }) ∧
      s'.structs = fr :: rest ∧ s'.pcs structSeg = 0 ∧ SameBut s s' := by
  rw [writeCode_struct _ fr rest hact hs rfl]
  by_cases hu : fr.isUnion = true
  · refine ⟨_, by simp [hu]; rfl, ?_, by simp, SameBut_pcs_structs s 0 _⟩
    have : bump fr 0 = fr := by unfold bump; simp [toI64_def, ht]
    simp [this]
  · refine ⟨_, by simp [hu]; rfl, by simp [hs], by simp [wrap64_def, hp], ?_⟩
    exact SameBut_pcs s _

theorem spec_struct_in (segs) (a : AddrSpec.A) (g : SFrame) (gs : List SFrame) (hg : a.frames = g :: gs) (name : Option Nat) (u : Bool) :
    AddrSpec.step segs a ⟨none, .struct name u⟩ =
      .ok { a with frames := { name := name, isUnion := u, base := AddrSpec.dollar a, cur := 0, len := 0 } :: g :: gs }
        (match name with
         | some n => [(⟨AddrSpec.namedPath (g :: gs), some n⟩, AddrSpec.dollar a + AddrSpec.baseSum (g :: gs))]
         | none => []) := by
  cases name <;> simp [AddrSpec.step, hg]

theorem SameBut_open {s : St} {a : AddrSpec.A} (h : Rin s a) (x : List Frame) :
    SameBut s (openState s x) := by
  unfold openState
  refine ⟨rfl, h.act.symm, rfl, rfl, rfl, fun _ => rfl, fun t ht => by simp [upd, ht], fun t => ?_, fun _ => rfl⟩
  by_cases ht : t = structSeg
  · subst ht; simp [upd, Rin_phase0 h]
  · simp [upd, ht]

theorem FOK_fresh (name : Option Nat) (u : Bool) (path : List Nat) (b : Int) (g : SFrame) (gs : List SFrame)
    (hpath : path = (match name with | some n => AddrSpec.namedPath (g :: gs) ++ [n] | none => [])) :
    FOK { name := name, path := path, isUnion := u, savePC := b, totLen := 0 }
        { name := name, isUnion := u, base := b, cur := 0, len := 0 } (g :: gs) 0 0 := by
  refine { name := rfl, isUnion := rfl, path := ?_, cb := rfl, cur0 := Int.le_refl _, len0 := Int.le_refl _, ucur := fun _ => rfl,
           outer := fun hx => absurd hx (by simp), save := fun _ => rfl, ulen := fun _ => Int.le_refl _, tot0 := Int.le_refl _, tot := ?_ }
  · rw [hpath]
    cases name with
    | none => rfl
    | some n => simp only []; rw [namedPath_cons (g := { name := some n, isUnion := u, base := b, cur := 0, len := 0 })]
  · unfold lbUnder; split <;> simp

theorem lbUnder_fresh (name : Option Nat) (u : Bool) (b : Int) :
    lbUnder { name := name, isUnion := u, base := b, cur := 0, len := 0 } 0 = 0 := by
  unfold lbUnder; split <;> simp

theorem core_open_in (cfg : Cfg) (segs) {s : St} {a : AddrSpec.A} (h : Rin s a) (name : Option Nat) (u : Bool)
    (hb : BoundAfter segs a (.struct name u)) : CoreSim cfg segs s a (.struct name u) := by
  obtain ⟨f, fs, g, gs, hf, hg, hk0, hr⟩ := Rin_top h
  obtain ⟨c1, c2, c3, c4, c5⟩ := Rin_counter h
  obtain ⟨nf, hin, hpath⟩ := FR_innermost _ _ _ _ h.fr h.ne
  have hss := FR_sumSave _ _ _ _ h.fr
  have hids := FR_namedIds _ _ _ _ h.fr
  have hspec := spec_struct_in segs a g gs hg name u
  have hb' := hb _ _ hspec
  have hfr := h.fr
  rw [hg] at hpath hss hids hfr
  unfold CoreSim
  rw [hspec]
  simp only [decode]
  cases name with
  | none =>
    rw [codeSTRUCT_nameless s u nf h.act hin]
    obtain ⟨s', hw, hs1, hs2, sb⟩ := writeCode_fresh (openState s ({ name := none, path := [], isUnion := u, savePC := pc s, totLen := 0 } :: s.structs)) _ _ [] rfl rfl rfl (by simp [openState])
    rw [hw]
    refine ⟨Or.inr ?_, rfl, rfl, rfl⟩
    refine Rin_update h ((SameBut_open h _).trans sb) _ (by simp) ?_ hb'
    rw [hs1, hs2]
    refine ⟨?_, ?_⟩
    · rw [c5, c1]; exact FOK_fresh none u [] _ g gs rfl
    · rw [lbUnder_fresh]; simp only []; rw [← c1]; exact hfr
  | some n =>
    rw [codeSTRUCT_named s n u nf h.act hin]
    obtain ⟨s', hw, hs1, hs2, sb⟩ := writeCode_fresh (openState s ({ name := some n, path := namedIds s.structs ++ [n], isUnion := u, savePC := pc s, totLen := 0 } ::
      bumpNamed s.structs (wrap64 (pc s + sumAboveNamed s.structs)))) _ _ [(⟨nf.path, some n⟩, wrap64 (pc s + sumSave s.structs))] rfl rfl rfl (by simp [openState])
    rw [hw]
    refine ⟨Or.inr ?_, rfl, rfl, ?_⟩
    · refine Rin_update h ((SameBut_open h _).trans sb) _ (by simp) ?_ hb'
      rw [hs1, hs2]
      refine ⟨?_, ?_⟩
      · rw [c5, c1, hids]; exact FOK_fresh (some n) u _ _ g gs rfl
      · rw [lbUnder_fresh]; simp only []; rw [← c1]
        obtain ⟨o1, o2⟩ := FR_offset_le _ _ _ _ hfr (by simp)
        have hn := nLB_le_lbOut _ _ _ _ hfr
        have hbd := h.bound
        rw [hg] at hbd
        have hx : wrap64 (pc s + sumAboveNamed s.structs) = s.pcs structSeg + sumAboveNamed s.structs := by
          rw [c5]; exact wrap64_small (by omega) (by omega)
        rw [hx]
        exact FR_bumpNamed _ _ _ _ _ hfr (by omega) (by omega) hbd
    · simp only [wrapDefs, List.map_cons, List.map_nil, hpath, hss, c5, c1]

/-! ## ENDSTRUCT / ENDUNION -/

/-- the length of a structure at its ENDSTRUCT: the counter (struct) / the recorded maximum (union) -/
def topLen (g : SFrame) : Int := if g.isUnion then g.len else g.cur

def lenDefs (g : SFrame) (gs : List SFrame) : List (Sym × Int) :=
  match g.name with
  | some _ => [(⟨AddrSpec.namedPath (g :: gs), none⟩, topLen g)]
  | none => []

theorem spec_end_outer (segs) (a : AddrSpec.A) (g : SFrame) (hg : a.frames = [g]) :
    AddrSpec.step segs a ⟨none, .endstruct⟩ = .ok { a with frames := [] } (lenDefs g []) := by
  simp only [AddrSpec.step, hg, lenDefs, topLen]
  rfl

theorem spec_end_inner (segs) (a : AddrSpec.A) (g g2 : SFrame) (gs2 : List SFrame) (hg : a.frames = g :: g2 :: gs2) :
    AddrSpec.step segs a ⟨none, .endstruct⟩ =
      .ok { a with frames := (if g2.isUnion then { g2 with len := max g2.len (topLen g) } else { g2 with cur := g.base + topLen g }) :: gs2 }
        (lenDefs g (g2 :: gs2)) := by
  simp only [AddrSpec.step, hg, lenDefs, topLen]
  split <;> rfl

/-- `TotLen` after the final `BumpStructLength(…, ProgCounter())` is the spec's length -/
theorem tot_eq {f : Frame} {g : SFrame} {gs : List SFrame} {c : Int} (h : FOK f g gs c 0) (hc : c < 2147483648) :
    (bump f c).totLen = topLen g ∧ 0 ≤ topLen g ∧ topLen g = lbUnder g 0 := by
  have h0 := h.cur0; have h1 := h.len0; have h2 := h.tot; have h3 := h.tot0; have h4 := h.cb
  rw [bump_totLen f c (by omega) hc]
  unfold topLen
  unfold lbUnder at h2 ⊢
  by_cases hu : g.isUnion = true
  · have := h.ulen hu; have := h.ucur hu
    simp only [hu, if_true] at h2 ⊢; omega
  · simp only [hu, Bool.false_eq_true, if_false] at h2 ⊢; omega

theorem codeENDSTRUCT_eq (s : St) (f : Frame) (rest : List Frame) (hs : s.structs = f :: rest) (hact : s.actPC = structSeg) :
    codeENDSTRUCT s =
      (if rest.isEmpty then
        { s := { s with structs := rest, pcs := upd s.pcs structSeg f.savePC, actPC := s.structSaveSeg }, codeLen := 0, dontPrint := true,
          defs := match f.name with | some _ => [(⟨f.path, none⟩, (bump f (pc s)).totLen)] | none => [] }
       else
        { s := { s with structs := rest, pcs := upd s.pcs structSeg f.savePC }, codeLen := (bump f (pc s)).totLen, dontPrint := true,
          defs := match f.name with | some _ => [(⟨f.path, none⟩, (bump f (pc s)).totLen)] | none => [] }) := by
  unfold codeENDSTRUCT
  simp only [hs, hact]
  split <;> rfl

theorem lenDefs_model {f : Frame} {g : SFrame} {gs : List SFrame} {c : Int} (h : FOK f g gs c 0) (hc : c < 2147483648)
    (hlb : lbUnder g 0 < 2147483648) :
    (match f.name with | some _ => [((⟨f.path, none⟩ : Sym), (bump f c).totLen)] | none => []) = wrapDefs (lenDefs g gs) := by
  obtain ⟨t1, t2, t3⟩ := tot_eq h hc
  unfold lenDefs
  rw [h.name]
  cases hn : g.name with
  | none => rfl
  | some n =>
    have hp := h.path
    rw [hn] at hp
    simp only [wrapDefs, List.map_cons, List.map_nil, hp, t1]
    rw [wrap64_small t2 (by omega)]

theorem core_end_outer (cfg : Cfg) (segs) {s : St} {a : AddrSpec.A} (h : Rin s a) (g : SFrame) (hg : a.frames = [g]) :
    CoreSim cfg segs s a .endstruct := by
  obtain ⟨f, fs, hf, hk0, hr⟩ := Rin_top_eq h hg
  obtain ⟨c1, c2, c3, c4, c5⟩ := Rin_counter h
  have hfs : fs = [] := FR_nil_right hr
  subst hfs
  unfold CoreSim
  rw [spec_end_outer segs a g hg]
  simp only [decode]
  rw [codeENDSTRUCT_eq s f [] hf h.act]
  simp only [List.isEmpty_nil, if_true]
  have hlb : lbUnder g 0 < 2147483648 := by have := h.bound; rw [hg] at this; simpa [lbOut] using this
  rw [c5, lenDefs_model hk0 c3 hlb]
  have hns : s.structSaveSeg ≠ structSeg := Rin_saveSeg h
  have hR : Rout { s with structs := [], pcs := upd s.pcs structSeg f.savePC, actPC := s.structSaveSeg } (outA a) :=
    Rout_congr (s := outS s) h.out rfl rfl rfl rfl rfl (fun _ => rfl) (fun t ht => by simp [upd, ht, outS]) (fun _ => rfl) (fun _ => rfl)
  rw [writeCode_ok _ hns rfl (Or.inr rfl)]
  refine ⟨Or.inl ?_, rfl, rfl, rfl⟩
  exact R_write0 hR

theorem FOK_close_struct {f2 : Frame} {g2 : SFrame} {gs2 : List SFrame} {cb L : Int} (h : FOK f2 g2 gs2 cb L) (hu : g2.isUnion = false)
    (hL : 0 ≤ L) :
    FOK f2 { g2 with cur := g2.cur + L } gs2 (g2.cur + L) 0 ∧ lbUnder { g2 with cur := g2.cur + L } 0 = lbUnder g2 L := by
  have he : lbUnder { g2 with cur := g2.cur + L } 0 = lbUnder g2 L := by simp [lbUnder, hu]
  have h0 := h.cur0
  refine ⟨?_, he⟩
  exact { name := h.name, isUnion := h.isUnion, path := by rw [h.path]; simp only [namedPath_congr { g2 with cur := g2.cur + L } g2 gs2 rfl],
          cb := rfl, cur0 := by show 0 ≤ g2.cur + L; omega, len0 := h.len0,
          ucur := by intro hx; rw [hu] at hx; exact absurd hx (by simp), outer := h.outer, save := h.save,
          ulen := by intro hx; rw [hu] at hx; exact absurd hx (by simp), tot0 := h.tot0, tot := by rw [he]; exact h.tot }

theorem FOK_close_union {f2 : Frame} {g2 : SFrame} {gs2 : List SFrame} {cb L : Int} (h : FOK f2 g2 gs2 cb L) (hu : g2.isUnion = true)
    (hL : 0 ≤ L) (hL2 : L < 2147483648) :
    FOK (bump f2 L) { g2 with len := max g2.len L } gs2 0 0 ∧ lbUnder { g2 with len := max g2.len L } 0 = lbUnder g2 L := by
  have h1 := h.len0
  have he : lbUnder { g2 with len := max g2.len L } 0 = lbUnder g2 L := by simp [lbUnder, hu]; omega
  obtain ⟨b1, b2, b3, b4⟩ := bump_fields f2 L
  have bt := bump_totLen f2 L (by omega) hL2
  have t0 := h.tot0
  have t1 := h.tot
  have t2 := h.ulen hu
  have hx : lbUnder g2 L = max g2.len L := by simp [lbUnder, hu]
  refine ⟨?_, he⟩
  exact { name := b1 ▸ h.name, isUnion := b3 ▸ h.isUnion,
          path := by rw [b2, h.path]; simp only [namedPath_congr { g2 with len := max g2.len L } g2 gs2 rfl],
          cb := (h.ucur hu).symm, cur0 := h.cur0, len0 := by show 0 ≤ max g2.len L; omega, ucur := h.ucur, outer := h.outer,
          save := b4 ▸ h.save, ulen := by intro _; show max g2.len L ≤ _; rw [bt]; omega, tot0 := by rw [bt]; omega,
          tot := by rw [bt, he, hx]; rw [hx] at t1; omega }

theorem core_end_inner (cfg : Cfg) (segs) {s : St} {a : AddrSpec.A} (h : Rin s a) (g g2 : SFrame) (gs2 : List SFrame)
    (hg : a.frames = g :: g2 :: gs2) : CoreSim cfg segs s a .endstruct := by
  obtain ⟨f, fs, hf, hk0, hr⟩ := Rin_top_eq h hg
  obtain ⟨c1, c2, c3, c4, c5⟩ := Rin_counter h
  cases fs with
  | nil => exact absurd hr (by simp [FR])
  | cons f2 fs2 =>
    obtain ⟨hk2, hr2⟩ := hr
    have hbd := h.bound
    rw [hg] at hbd
    simp only [lbOut] at hbd
    have hge := FR_lbOut_ge _ _ _ _ hr2
    have hge2 := lbUnder_ge (g := g2) (lb := lbUnder g 0) hk2.cur0
    have hlb : lbUnder g 0 < 2147483648 := by omega
    obtain ⟨t1, t2, t3⟩ := tot_eq hk0 c3
    have hsave : f.savePC = g2.cur := by rw [hk0.save (by simp)]; exact hk2.cb
    have hbase : g.base = g2.cur := hk2.cb
    unfold CoreSim
    rw [spec_end_inner segs a g g2 gs2 hg]
    simp only [decode]
    rw [codeENDSTRUCT_eq s f (f2 :: fs2) hf h.act]
    simp only [List.isEmpty_cons, Bool.false_eq_true, if_false]
    rw [c5, lenDefs_model hk0 c3 hlb, t1]
    rw [writeCode_struct _ f2 fs2 h.act rfl rfl]
    simp only [upd_same]
    rw [← t3] at hk2 hr2 hbd hge hge2
    by_cases hu : g2.isUnion = true
    · have hfu : f2.isUnion = true := by rw [hk2.isUnion]; exact hu
      obtain ⟨q1, q2⟩ := FOK_close_union hk2 hu t2 (by omega)
      rw [if_pos hu, if_pos hfu]
      refine ⟨Or.inr ?_, by simp, by first | rfl | trivial, by first | rfl | trivial⟩
      refine Rin_update h ((SameBut_pcs_structs s f.savePC (f2 :: fs2)).trans (SameBut_pcs_structs _ 0 _)) _ (by simp) ?_ (by simp only [lbOut]; rw [q2]; exact hbd)
      simp only [upd_same]
      exact ⟨q1, by rw [q2]; exact hr2⟩
    · have hu' : g2.isUnion = false := by simpa using hu
      have hfu : f2.isUnion = false := by rw [hk2.isUnion]; exact hu'
      obtain ⟨q1, q2⟩ := FOK_close_struct hk2 hu' t2
      rw [if_neg hu, if_neg (by simpa using hfu), hbase]
      have hc0 := hk2.cur0
      have hcl : g2.cur + topLen g < 2147483648 := by
        have : lbUnder g2 (topLen g) = g2.cur + topLen g := by simp [lbUnder, hu']
        omega
      rw [hsave, wrap64_small (by omega) (by omega)]
      refine ⟨Or.inr ?_, by simp, by first | rfl | trivial, by first | rfl | trivial⟩
      refine Rin_update h ((SameBut_pcs_structs s g2.cur (f2 :: fs2)).trans (SameBut_pcs _ _)) ({ g2 with cur := g2.cur + topLen g } :: gs2) (by simp) ?_ (by simp only [lbOut]; rw [q2]; exact hbd)
      simp only [upd_same]
      exact ⟨q1, by rw [q2]; exact hr2⟩

/-! ## STRUCT / ENDSTRUCT met outside a body -/

theorem labelPart_structop (s : St) (st : Stmt) (h : isStructOp st.op = true) : labelPart s st = (s, []) := by
  obtain ⟨lab, op⟩ := st
  cases op <;> simp [isStructOp] at h <;> cases lab <;> simp [labelPart, labelPresent]

theorem Rout_phaseNS {s : St} {a : AddrSpec.A} (h : Rout s a) : s.phases structSeg = 0 := by
  have := h.ph structSeg
  rw [h.offsNS] at this
  simp only [List.map_nil, List.nil_append, List.cons.injEq] at this
  exact this.1

theorem sim_open_out (cfg : Cfg) (segs) {s : St} {a : AddrSpec.A} (h : Rout s a) (lab : Option Nat) (name : Option Nat) (u : Bool) :
    Sim cfg segs s a ⟨lab, .struct name u⟩ := by
  unfold Sim
  have hstep : step cfg s ⟨lab, .struct name u⟩ = writeCode (codeSTRUCT s name u) := by
    simp [step, labelPart_structop s ⟨lab, .struct name u⟩ rfl, decode]
  rw [hstep]
  have hin : innermostNamed s.structs = none := by rw [h.structs]; rfl
  cases name with
  | none =>
    have hd : codeSTRUCT s none u = { s := s, errs := [errFreestandingUnnamedStruct] } := by simp [codeSTRUCT, hin]
    have hspec : AddrSpec.step segs a ⟨lab, .struct none u⟩ = .reject := by simp [AddrSpec.step, h.frames]
    rw [hspec, hd, writeCode_ok _ h.notStruct rfl (Or.inr rfl)]
    simp
  | some n =>
    have hd : codeSTRUCT s (some n) u =
        { s := { s with structs := [{ name := some n, path := [n], isUnion := u, savePC := pc s, totLen := 0 }], structSaveSeg := s.actPC,
                        actPC := structSeg, pcs := upd s.pcs structSeg 0, phases := upd s.phases structSeg 0 },
          codeLen := 0, dontPrint := true, defs := [] } := by
      simp [codeSTRUCT, h.structs, innermostNamed, h.notStruct, namedIds]
    have hspec : AddrSpec.step segs a ⟨lab, .struct (some n) u⟩ =
        .ok { a with frames := [{ name := some n, isUnion := u, base := AddrSpec.dollar a, cur := 0, len := 0 }] } [] := by
      simp [AddrSpec.step, h.frames]
    rw [hspec, hd]
    obtain ⟨s', hw, hs1, hs2, sb⟩ := writeCode_fresh
      { s with structs := [{ name := some n, path := [n], isUnion := u, savePC := pc s, totLen := 0 }], structSaveSeg := s.actPC,
               actPC := structSeg, pcs := upd s.pcs structSeg 0, phases := upd s.phases structSeg 0 } _ _ [] rfl rfl rfl (by simp)
    rw [hw]
    refine ⟨Or.inr ?_, rfl, rfl, rfl⟩
    have hph := Rout_phaseNS h
    refine { out := ?_, act := sb.actPC, ne := by simp, fr := ?_, bound := by simp [lbOut, lbUnder] }
    · have ha : outA { a with frames := [{ name := some n, isUnion := u, base := AddrSpec.dollar a, cur := 0, len := 0 }] } = a := by
        unfold outA; exact A_frames_eq a [] h.frames
      rw [ha]
      refine Rout_congr h sb.cpu sb.saveSeg sb.listOn sb.saves h.structs.symm sb.used (fun t ht => by show s'.pcs t = s.pcs t; rw [sb.pcs t ht]; simp [upd, ht]) ?_ sb.pstack
      intro t
      show s'.phases t = s.phases t
      rw [sb.phases t]
      by_cases ht : t = structSeg
      · subst ht; simp [upd, hph]
      · simp [upd, ht]
    · rw [hs1, hs2]
      refine ⟨?_, trivial⟩
      exact { name := rfl, isUnion := rfl, path := by simp [AddrSpec.namedPath], cb := rfl, cur0 := Int.le_refl _, len0 := Int.le_refl _,
              ucur := fun _ => rfl, outer := fun _ => rfl, save := fun hx => absurd rfl hx, ulen := fun _ => Int.le_refl _,
              tot0 := Int.le_refl _, tot := by unfold lbUnder; split <;> simp }

theorem sim_end_out (cfg : Cfg) (segs) {s : St} {a : AddrSpec.A} (h : Rout s a) (lab : Option Nat) :
    Sim cfg segs s a ⟨lab, .endstruct⟩ := by
  unfold Sim
  have hstep : step cfg s ⟨lab, .endstruct⟩ = writeCode (codeENDSTRUCT s) := by
    simp [step, labelPart_structop s ⟨lab, .endstruct⟩ rfl, decode]
  have hd : codeENDSTRUCT s = { s := s, errs := [errMissingStruct] } := by simp [codeENDSTRUCT, h.structs]
  have hspec : AddrSpec.step segs a ⟨lab, .endstruct⟩ = .reject := by simp [AddrSpec.step, h.frames]
  rw [hspec, hstep, hd, writeCode_ok _ h.notStruct rfl (Or.inr rfl)]
  simp

/-! ## The simulation for every statement -/

/-- explicit side conditions of the refinement.  Outside a body: those of `PreOut` (operand widths, counters far from the
64-bit wrap, the ORG flavour); inside a body: operand widths (`PreIn`); and after the statement the outermost open
structure, counted with all its open members, is shorter than 2^31 units (`TotLen`, `CodeLen` are `LongInt`). -/
def Pre (cfg : Cfg) (segs : Nat → Nat → AddrSpec.SegInfo) (a : AddrSpec.A) (st : Stmt) : Prop :=
  (match a.frames with
   | [] => isStructOp st.op = true ∨ PreOut cfg a st
   | _ :: _ => PreIn a st) ∧
  (match AddrSpec.step segs a st with
   | .ok a' _ => lbOut a'.frames 0 < 2147483648
   | _ => True)

instance instDecPreIn (a : AddrSpec.A) (st : Stmt) : Decidable (PreIn a st) := by
  unfold PreIn; split <;> infer_instance

instance instDecPreFull (cfg : Cfg) (segs) (a : AddrSpec.A) (st : Stmt) : Decidable (Pre cfg segs a st) := by
  unfold Pre
  exact @instDecidableAnd _ _ (by split <;> infer_instance) (by split <;> infer_instance)

theorem boundAfter_of_pre {cfg : Cfg} {segs} {a : AddrSpec.A} {lab : Option Nat} {op : Op} (hp : Pre cfg segs a ⟨lab, op⟩) :
    BoundAfter segs a op := by
  intro a' d hs
  have := hp.2
  rw [spec_step_label, hs] at this
  simpa [addDefs] using this

theorem refine_step (cfg : Cfg) (segs) (hag : Agree segs) {s : St} {a : AddrSpec.A} (h : R s a) (st : Stmt)
    (hp : Pre cfg segs a st) : Sim cfg segs s a st := by
  rcases h with h | h
  · -- outside structure bodies
    obtain ⟨lab, op⟩ := st
    have hp1 := hp.1
    rw [h.frames] at hp1
    simp only [] at hp1
    cases hop : isStructOp op with
    | true =>
      cases op <;> simp [isStructOp] at hop
      · exact sim_open_out cfg segs h lab _ _
      · exact sim_end_out cfg segs h lab
    | false =>
      rcases hp1 with hp1 | hp1
      · rw [hop] at hp1; exact absurd hp1 (by simp)
      · exact Sim_of_out (refine_step_out cfg segs hag h ⟨lab, op⟩ hp1)
  · -- inside a structure body
    obtain ⟨lab, op⟩ := st
    have hb := boundAfter_of_pre hp
    have hp1 := hp.1
    obtain ⟨f, fs, g, gs, hf, hg, _, _⟩ := Rin_top h
    rw [hg] at hp1
    simp only [PreIn] at hp1
    apply sim_of_core cfg segs h lab op
    intro s1 h1
    cases op with
    | org v => exact core_org cfg segs h1 v hb
    | rorg d => exact core_rorg cfg segs h1 d hb
    | align n fl => exact core_align cfg segs h1 n fl hp1 hb
    | res k => exact core_res cfg segs h1 k hp1 hb
    | emit k => exact core_emit cfg segs h1 k hp1
    | segment n => exact core_unspec cfg segs h1 _ (Or.inl ⟨n, rfl⟩)
    | cpu c => exact core_unspec cfg segs h1 _ (Or.inr (Or.inl ⟨c, rfl⟩))
    | phase v => exact core_phase cfg segs h1 v
    | dephase => exact core_dephase cfg segs h1
    | save => exact core_unspec cfg segs h1 _ (Or.inr (Or.inr (Or.inl rfl)))
    | restore => exact core_unspec cfg segs h1 _ (Or.inr (Or.inr (Or.inr rfl)))
    | listing b => exact core_listing cfg segs h1 b
    | struct n u => exact core_open_in cfg segs h1 n u hb
    | endstruct =>
      cases gs with
      | nil => exact core_end_outer cfg segs h1 g hg
      | cons g2 gs2 => exact core_end_inner cfg segs h1 g g2 gs2 hg
    | nop => exact core_nop cfg segs h1

/-- the side conditions hold at every statement of a run of the spec machine -/
def RunPre (cfg : Cfg) (segs : Nat → Nat → AddrSpec.SegInfo) : AddrSpec.A → List Stmt → Prop
  | _, [] => True
  | a, st :: rest => Pre cfg segs a st ∧
      match AddrSpec.step segs a st with
      | .ok a' _ => RunPre cfg segs a' rest
      | _ => True

theorem refine_run (cfg : Cfg) (segs) (hag : Agree segs) : ∀ (sts : List Stmt) (s : St) (a : AddrSpec.A), R s a →
    RunPre cfg segs a sts → ∀ a' ds, AddrSpec.run segs a sts = some (a', ds) →
    R (run cfg s sts).1 a' ∧ (run cfg s sts).2.map (fun o => o.defs) = ds.map wrapDefs ∧
    (∀ o ∈ (run cfg s sts).2, o.errs = [] ∧ o.crash = false) ∧ (run cfg s sts).2.length = sts.length := by
  intro sts
  induction sts with
  | nil =>
    intro s a h _ a' ds hr
    simp [AddrSpec.run] at hr
    obtain ⟨rfl, rfl⟩ := hr
    simp [run, h]
  | cons st rest ih =>
    intro s a h hp a' ds hr
    have hsim := refine_step cfg segs hag h st hp.1
    have hp2 := hp.2
    unfold Sim at hsim
    simp only [AddrSpec.run] at hr
    cases hst : AddrSpec.step segs a st with
    | reject => simp [hst] at hr
    | unspecified => simp [hst] at hr
    | ok a1 d =>
      rw [hst] at hsim hr hp2
      simp only [Option.map_eq_some_iff] at hr
      obtain ⟨⟨a2, ds2⟩, hr2, heq⟩ := hr
      simp only [Prod.mk.injEq] at heq
      obtain ⟨rfl, rfl⟩ := heq
      obtain ⟨hR1, he1, hc1, hd1⟩ := hsim
      obtain ⟨i1, i2, i3, i4⟩ := ih (step cfg s st).1 a1 hR1 hp2 a2 ds2 hr2
      simp only [run, hc1, Bool.false_eq_true, if_false]
      refine ⟨i1, ?_, ?_, ?_⟩
      · simp [hd1, i2]
      · intro o ho
        simp only [List.mem_cons] at ho
        rcases ho with rfl | ho
        · exact ⟨he1, hc1⟩
        · exact i3 o ho
      · simp [i4]

/-- executable form of `RunPre` (for non-vacuity examples) -/
def runPreB (cfg : Cfg) (segs : Nat → Nat → AddrSpec.SegInfo) : AddrSpec.A → List Stmt → Bool
  | _, [] => true
  | a, st :: rest => decide (Pre cfg segs a st) &&
      match AddrSpec.step segs a st with
      | .ok a' _ => runPreB cfg segs a' rest
      | _ => true

theorem runPreB_sound (cfg : Cfg) (segs) : ∀ (sts : List Stmt) (a : AddrSpec.A), runPreB cfg segs a sts = true → RunPre cfg segs a sts := by
  intro sts
  induction sts with
  | nil => intro a _; trivial
  | cons st rest ih =>
    intro a h
    simp only [runPreB, Bool.and_eq_true, decide_eq_true_eq] at h
    refine ⟨h.1, ?_⟩
    cases hs : AddrSpec.step segs a st with
    | ok a' d => rw [hs] at h; exact ih a' h.2
    | reject => trivial
    | unspecified => trivial

theorem R_init_full (segs) (hag : Agree segs) (c : Nat) : R (init c) (AddrSpec.init segs c) := Or.inl (R_init segs hag c)

end AslModel.Addr
