import AslModel.Lemmas.Listing
import AslModel.Model.SymList
/-! Helper lemmas of C19 (symbols): the line builder of the listing's symbol table loses nothing; hex
constants of the share file in either case read back. -/
namespace AslModel.Listing

/-! ## line builder -/

/-- what the flushed lines hold, each with the blank that the flush cut off -/
def lineText (out : List (List Char)) : List Char := (out.map (fun l => l ++ [' '])).flatten

theorem lineText_append (a : List (List Char)) (x : List Char) :
    lineText (a ++ [x]) = lineText a ++ (x ++ [' ']) := by
  simp [lineText]

/-- an entry as `PrintSymbolList_PNode` builds it ends in a blank (`"… | "`) -/
def EntryOK (e : List Char) : Prop := e.getLast? = some ' '

theorem EntryOK.ne_nil {e : List Char} (h : EntryOK e) : e ≠ [] := by
  intro h0
  rw [h0] at h
  simp [EntryOK] at h

/-- invariant of the pending line: the byte length is the length, and a non-empty pending line ends in a blank -/
structure CtxOK (c : ListCtx) : Prop where
  len : c.restLen = c.rest.length
  blank : c.rest = [] ∨ c.rest.getLast? = some ' '

theorem ctxOK_init : CtxOK {} := ⟨rfl, Or.inl rfl⟩

theorem dropLast_blank : ∀ (l : List Char), l.getLast? = some ' ' → l.dropLast ++ [' '] = l := by
  intro l
  induction l with
  | nil => intro h; simp at h
  | cons a t ih =>
    intro h
    cases t with
    | nil =>
      simp at h
      simp [h]
    | cons b t' =>
      rw [List.getLast?_cons_cons] at h
      simp only [List.dropLast_cons₂, List.cons_append]
      rw [ih h]

theorem take_pred_of_blank (l : List Char) (h : l.getLast? = some ' ') :
    l.take (l.length - 1) ++ [' '] = l := by
  rw [← List.dropLast_eq_take]
  exact dropLast_blank l h

theorem addOut_step (utf8 : Bool) (width : Nat) (s : List Char) (c c' : ListCtx)
    (hc : CtxOK c) (hs : EntryOK s) (h : addOut utf8 width s c = some c') :
    CtxOK c' ∧ lineText c'.out ++ c'.rest = lineText c.out ++ c.rest ++ s := by
  unfold addOut at h
  simp only at h
  split at h
  · split at h
    · cases h
    · rename_i hne
      injection h with h
      subst h
      refine ⟨⟨rfl, Or.inr hs⟩, ?_⟩
      simp only
      have hr : c.rest ≠ [] := by
        intro h0
        apply hne
        rw [hc.len, h0]
        rfl
      have hb : c.rest.getLast? = some ' ' := by
        rcases hc.blank with h0 | h0
        · exact absurd h0 hr
        · exact h0
      rw [lineText_append, hc.len, take_pred_of_blank c.rest hb]
  · injection h with h
    subst h
    refine ⟨⟨?_, Or.inr ?_⟩, ?_⟩
    · simp [hc.len]
    · simp only
      rw [List.getLast?_append, hs]
      rfl
    · simp

theorem addAll_sound (utf8 : Bool) (width : Nat) :
    ∀ (es : List (List Char)) (c c' : ListCtx), CtxOK c → (∀ e ∈ es, EntryOK e) →
      addAll utf8 width es c = some c' →
      CtxOK c' ∧ lineText c'.out ++ c'.rest = lineText c.out ++ c.rest ++ es.flatten := by
  intro es
  induction es with
  | nil =>
    intro c c' hc _ h
    simp only [addAll] at h
    injection h with h
    subst h
    exact ⟨hc, by simp⟩
  | cons e es ih =>
    intro c c' hc hes h
    simp only [addAll] at h
    cases h1 : addOut utf8 width e c with
    | none => rw [h1] at h; cases h
    | some c1 =>
      rw [h1] at h
      obtain ⟨hc1, heq1⟩ := addOut_step utf8 width e c c1 hc (hes e (by simp)) h1
      obtain ⟨hc2, heq2⟩ := ih c1 c' hc1 (fun x hx => hes x (by simp [hx])) h
      refine ⟨hc2, ?_⟩
      rw [heq2, heq1]
      simp

theorem finalFlush_text (c : ListCtx) (hc : CtxOK c) : lineText (finalFlush c) = lineText c.out ++ c.rest := by
  unfold finalFlush
  split
  · rename_i h0
    simp [h0]
  · rename_i hne
    have hb : c.rest.getLast? = some ' ' := by
      rcases hc.blank with h0 | h0
      · exact absurd h0 hne
      · exact h0
    rw [lineText_append, List.dropLast_eq_take, take_pred_of_blank c.rest hb]

/-! ## hex digits in either case -/

theorem digitVal_lower : ∀ d, d < 36 → digitVal (lowerAZ (digitChar d)) = some d := by decide

theorem lower_facts : ∀ d, d < 36 →
    48 ≤ (lowerAZ (digitChar d)).toNat ∧ lowerAZ (digitChar d) ≠ ' ' ∧ lowerAZ (digitChar d) ≠ ';' ∧ lowerAZ (digitChar d) ≠ '\'' := by
  decide

theorem upper_facts : ∀ d, d < 36 →
    48 ≤ (digitChar d).toNat ∧ digitChar d ≠ ' ' ∧ digitChar d ≠ ';' ∧ digitChar d ≠ '\'' := by
  decide

theorem parseNumAux_map_lower (r : Nat) (hr : r ≤ 36) :
    ∀ (cs : List Char) (acc : Nat), AllDig r cs → parseNumAux r (cs.map lowerAZ) acc = parseNumAux r cs acc := by
  intro cs
  induction cs with
  | nil => intro acc _; rfl
  | cons c t ih =>
    intro acc h
    obtain ⟨d, hd, rfl⟩ := h c (by simp)
    simp only [List.map_cons, parseNumAux, digitVal_lower d (by omega), digitVal_digitChar d (by omega), hd, if_true]
    exact ih _ (AllDig.tail h)

/-- what the readers need to know about a rendered hex numeral -/
structure HexOK (ds : List Char) (v : Nat) : Prop where
  ne : ds ≠ []
  parse : parseNum 16 ds = some v
  chars : ∀ c ∈ ds, 48 ≤ c.toNat ∧ c ≠ ' ' ∧ c ≠ ';' ∧ c ≠ '\''

theorem hexOfH_ok (lower : Bool) (v : Nat) : HexOK (hexOfH lower v) v := by
  have hne : hexOf v ≠ [] := sysString_ne_nil 16 0 v
  have hp := hexOf_parse v
  have hd : AllDig 16 (hexOf v) := sysString_allDig 16 (by omega) 0 v
  cases lower with
  | false =>
    refine ⟨by simpa [hexOfH] using hne, by simpa [hexOfH] using hp, ?_⟩
    intro c hc
    simp only [hexOfH] at hc
    obtain ⟨d, hd16, rfl⟩ := hd c (by simpa using hc)
    exact upper_facts d (by omega)
  | true =>
    refine ⟨by simpa [hexOfH] using hne, ?_, ?_⟩
    · simp only [hexOfH, if_true]
      cases hx : hexOf v with
      | nil => exact absurd hx hne
      | cons a t =>
        have := parseNumAux_map_lower 16 (by omega) (a :: t) 0 (by rw [← hx]; exact hd)
        rw [hx] at hp
        simp only [parseNum, List.map_cons] at hp ⊢
        simp only [List.map_cons] at this
        rw [this]
        exact hp
    · intro c hc
      simp only [hexOfH, if_true, List.mem_map] at hc
      obtain ⟨x, hx, rfl⟩ := hc
      obtain ⟨d, hd16, rfl⟩ := hd x hx
      exact lower_facts d (by omega)

/-! ## `IntLine` read back -/

def fmtOfX : IntModeX → ShareFmt
  | .intel => .asmIntel
  | .moto => .asmMoto
  | .c => .asmC
  | .ibm => .asmIBM

/-- the Intel branch of `IntLine` for any rendered hex numeral and either suffix -/
def intelText (ds : List Char) (suf : Char) : List Char :=
  match ds ++ [suf] with
  | c :: _ => if c.toNat > '9'.toNat then '0' :: (ds ++ [suf]) else ds ++ [suf]
  | [] => ds ++ [suf]

theorem parseShareValue_intelText (ds : List Char) (v : Nat) (h : HexOK ds v) (suf : Char)
    (hs : suf = 'H' ∨ suf = 'h') : parseShareValue .asmIntel (intelText ds suf) = some v := by
  have hp := h.parse
  unfold intelText
  cases hx : ds with
  | nil => exact absurd hx h.ne
  | cons c t =>
    have hc48 : 48 ≤ c.toNat := (h.chars c (by rw [hx]; simp)).1
    rw [hx] at hp
    simp only [List.cons_append]
    split
    · have : ('0' :: c :: (t ++ [suf])).reverse = suf :: ('0' :: c :: t).reverse := by simp
      simp only [parseShareValue, this, hs, if_true, List.reverse_reverse]
      have h0 : 48 ≤ '0'.toNat ∧ '0'.toNat ≤ 57 := by decide
      simp only [h0, and_self, if_true]
      rw [parseNum_zero_cons 16 (by omega) _ (by simp), hp]
    · rename_i hgt
      have h9 : c.toNat ≤ 57 := by
        have : '9'.toNat = 57 := by decide
        omega
      have : (c :: (t ++ [suf])).reverse = suf :: (c :: t).reverse := by simp
      simp only [parseShareValue, this, hs, if_true, List.reverse_reverse]
      simp only [hc48, h9, and_self, if_true]
      exact hp

theorem intLineH_intel (lower : Bool) (v : Nat) :
    intLineH lower .intel v = intelText (hexOfH lower v) (if lower then 'h' else 'H') := rfl

theorem parseShareValue_intLineH (lower : Bool) (m : IntModeX) (v : Nat) :
    parseShareValue (fmtOfX m) (intLineH lower m v) = some v := by
  have h := hexOfH_ok lower v
  cases m with
  | intel =>
    rw [intLineH_intel]
    exact parseShareValue_intelText _ v h _ (by cases lower <;> simp)
  | moto => simp [fmtOfX, intLineH, parseShareValue, h.parse]
  | c => simp [fmtOfX, intLineH, parseShareValue, h.parse]
  | ibm => simp [fmtOfX, intLineH, parseShareValue, h.parse]

theorem intelText_noSp (ds : List Char) (suf : Char) (hd : ∀ c ∈ ds, c ≠ ' ') (hs : suf ≠ ' ') :
    ∀ c ∈ intelText ds suf, c ≠ ' ' := by
  have hall : ∀ x ∈ ds ++ [suf], x ≠ ' ' := by
    intro x hx
    rcases List.mem_append.mp hx with hx | hx
    · exact hd x hx
    · simp at hx; subst hx; exact hs
  unfold intelText
  split
  · split
    · intro x hx
      rcases List.mem_cons.mp hx with rfl | hx
      · decide
      · exact hall x hx
    · exact hall
  · exact hall

theorem intLineH_noSp (lower : Bool) (m : IntModeX) (v : Nat) : ∀ c ∈ intLineH lower m v, c ≠ ' ' := by
  have h : ∀ c ∈ hexOfH lower v, c ≠ ' ' := fun c hc => ((hexOfH_ok lower v).chars c hc).2.1
  cases m with
  | intel =>
    rw [intLineH_intel]
    exact intelText_noSp _ _ h (by cases lower <;> decide)
  | moto =>
    intro x hx
    simp only [intLineH] at hx
    rcases List.mem_cons.mp hx with rfl | hx
    · decide
    · exact h x hx
  | c =>
    intro x hx
    simp only [intLineH] at hx
    rcases List.mem_cons.mp hx with rfl | hx
    · decide
    · rcases List.mem_cons.mp hx with rfl | hx
      · decide
      · exact h x hx
  | ibm =>
    intro x hx
    simp only [intLineH] at hx
    rcases List.mem_cons.mp hx with rfl | hx
    · decide
    · rcases List.mem_cons.mp hx with rfl | hx
      · decide
      · rcases List.mem_append.mp hx with hx | hx
        · exact h x hx
        · simp at hx; subst hx; decide

theorem shareH_c (lower : Bool) (name : List Char) (hn : ∀ c ∈ name, c ≠ ' ') (m : IntModeX) (chg : Bool) (v : Nat) :
    parseShareLine .c (shareLineH lower 2 m chg name v) = some (name, false, v) := by
  have hkw : ∀ c ∈ ['#','d','e','f','i','n','e'], c ≠ ' ' := by decide
  have e : shareLineH lower 2 m chg name v = ['#','d','e','f','i','n','e'] ++ ' ' :: (name ++ ' ' :: intLineH lower .c v) := by
    simp [shareLineH, shareLineText]
  rw [e]
  unfold parseShareLine
  simp only
  rw [splitAt1_append ' ' _ _ hkw]
  simp only [if_true]
  rw [splitAt1_append ' ' _ _ hn]
  simp only
  rw [spanNonSp_all _ (intLineH_noSp lower .c v)]
  simp [intLineH, parseShareValue, (hexOfH_ok lower v).parse]

theorem shareH_pascal (lower : Bool) (name : List Char) (hn : ∀ c ∈ name, c ≠ ' ') (m : IntModeX) (chg : Bool) (v : Nat) :
    parseShareLine .pascal (shareLineH lower 1 m chg name v) = some (name, false, v) := by
  have e : shareLineH lower 1 m chg name v = name ++ ' ' :: '=' :: ' ' :: (('$' :: hexOfH lower v) ++ ';' :: []) := by
    simp [shareLineH, shareLineText, intLineH]
  have hv : ∀ c ∈ '$' :: hexOfH lower v, c ≠ ';' := by
    intro c hc
    rcases List.mem_cons.mp hc with rfl | hc
    · decide
    · exact ((hexOfH_ok lower v).chars c hc).2.2.1
  rw [e]
  unfold parseShareLine
  simp only
  rw [splitAt1_append ' ' _ _ hn]
  simp only [and_self, if_true]
  rw [splitAt1_append ';' _ _ hv]
  simp [parseShareValue, (hexOfH_ok lower v).parse]

theorem shareH_asm (lower : Bool) (name : List Char) (hn : ∀ c ∈ name, c ≠ ' ') (m : IntModeX) (chg : Bool) (v : Nat) :
    parseShareLine (fmtOfX m) (shareLineH lower 3 m chg name v) = some (name, chg, v) := by
  have h1 : ∀ c ∈ ['e','q','u'], c ≠ ' ' := by decide
  have h2 : ∀ c ∈ ['s','e','t'], c ≠ ' ' := by decide
  have hval := parseShareValue_intLineH lower m v
  have hsp := spanNonSp_all _ (intLineH_noSp lower m v)
  cases chg with
  | false =>
    have e : shareLineH lower 3 m false name v = name ++ ' ' :: (['e','q','u'] ++ ' ' :: intLineH lower m v) := by
      simp [shareLineH, shareLineText]
    rw [e]
    unfold parseShareLine
    cases m <;> simp only [fmtOfX] at hval ⊢ <;>
      (rw [splitAt1_append ' ' _ _ hn]; simp only; rw [splitAt1_append ' ' _ _ h1]; simp only [if_true]; rw [hsp, hval]; rfl)
  | true =>
    have e : shareLineH lower 3 m true name v = name ++ ' ' :: (['s','e','t'] ++ ' ' :: intLineH lower m v) := by
      simp [shareLineH, shareLineText]
    have hne : (['s','e','t'] : List Char) ≠ ['e','q','u'] := by decide
    rw [e]
    unfold parseShareLine
    cases m <;> simp only [fmtOfX] at hval ⊢ <;>
      (rw [splitAt1_append ' ' _ _ hn]; simp only; rw [splitAt1_append ' ' _ _ h2]; simp only [hne, if_false, if_true]; rw [hsp, hval]; rfl)

end AslModel.Listing
