import AslModel.Lemmas.Pass2
/-! Termination lemmas for the multipass model with `EQU` expressions: value-independent sizes, the textual
acceptance rule, programs without forward references. -/
namespace AslModel.Pass2
open AslModel.Pass (Sym Tab upd emptyTab upd_same)
open AslModel.Spec.Pass2 (value known stmtKnown defAfter firstPassDefs backward accepted noForward)

/-- the length of the statement does not depend on the operand value (nor on its being unknown) -/
def ConstSize : Stmt → Prop
  | .ref _ size sizeU => ∃ c, (∀ v, size v = c) ∧ (sizeU = none ∨ sizeU = some c)
  | _ => True

def ConstSizes (p : List Stmt) : Prop := ∀ st ∈ p, ConstSize st

theorem upd_other (T : Tab) (n m : Sym) (v : Int) (h : m ≠ n) : upd T n v m = T m := by simp [upd, h]

theorem step_tab_other (first : Bool) (s : PS) (st : Stmt) (m : Sym) (h : m ∉ defs [st]) :
    (step first s st).tab m = s.tab m := by
  cases st with
  | label n => simp [defs] at h; simp [step, upd, h]
  | equ n e =>
    simp [defs] at h
    simp only [step]
    split
    · rfl
    · rfl
    · simp [upd, h]
  | ref e size sizeU => simp only [step]; split <;> rfl
  | skip k => rfl

theorem defs_cons (st : Stmt) (p : List Stmt) : defs (st :: p) = defs [st] ++ defs p := by
  cases st <;> simp [defs]

theorem run_tab_other (first : Bool) (p : List Stmt) (s : PS) (m : Sym) (h : m ∉ defs p) :
    (run first s p).tab m = s.tab m := by
  induction p generalizing s with
  | nil => rfl
  | cons st p ih =>
    rw [defs_cons] at h
    simp only [List.mem_append, not_or] at h
    show (run first (step first s st) p).tab m = s.tab m
    rw [ih _ h.2, step_tab_other first s st m h.1]

/-! ## pass 2 after pass 1 with value-independent sizes -/

theorem lock12 (post : List Stmt) : ∀ (s1 s2 : PS),
    ConstSizes post → (defs post).Nodup →
    (∀ m ∈ defs post, s1.tab m = none) →
    (∀ m ∈ defs post, s2.tab m = (run true s1 post).tab m) →
    Ext s1.tab s2.tab → s2.pc = s1.pc → s2.repass = false →
    (run false s2 post).err = true ∨ (run false s2 post).repass = false := by
  induction post with
  | nil => intro s1 s2 _ _ _ _ _ _ hr; right; simpa [run] using hr
  | cons st rest ih =>
    intro s1 s2 hcs hnd h3 h4 hx hpc hr
    have hcr : ConstSizes rest := fun x hx' => hcs x (by simp [hx'])
    have hc : ConstSize st := hcs st (by simp)
    show (run false (step false s2 st) rest).err = true ∨ (run false (step false s2 st) rest).repass = false
    have h4' : ∀ m ∈ defs (st :: rest), s2.tab m = (run true (step true s1 st) rest).tab m := h4
    cases st with
    | skip k =>
      exact ih (step true s1 (.skip k)) (step false s2 (.skip k)) hcr (by simpa [defs] using hnd)
        (by simpa [defs, step] using h3) (by simpa [defs, step] using h4') (by simpa [step] using hx)
        (by simp [step, hpc]) (by simp [step, hr])
    | ref e size sizeU =>
      obtain ⟨c, hc1, hc2⟩ := hc
      obtain ⟨v, f, hev⟩ := eval_true_some s1.tab s1.pc e
      have hsz : (if f then sizeU.getD (size v) else size v) = c := by
        cases f with
        | false => simp [hc1]
        | true => rcases hc2 with h | h <;> simp [h, hc1]
      have hs1pc : (step true s1 (.ref e size sizeU)).pc = s1.pc + c := by simp [step, hev, hsz]
      have hs1tab : (step true s1 (.ref e size sizeU)).tab = s1.tab := by simp [step, hev]
      cases hev2 : eval false s2.tab s2.pc e with
      | none =>
        left
        exact run_err_mono false rest _ (by simp [step, hev2])
      | some r =>
        obtain ⟨v', f'⟩ := r
        have hf' := eval_false_flag _ _ _ _ _ hev2
        subst hf'
        have hst2 := step_ref_done false s2 e size sizeU v' hev2
        refine ih (step true s1 (.ref e size sizeU)) (step false s2 (.ref e size sizeU)) hcr (by simpa [defs] using hnd)
          ?_ ?_ ?_ ?_ ?_
        · rw [hs1tab]; simpa [defs] using h3
        · rw [hst2]; simpa [defs, refDone] using h4'
        · rw [hs1tab, hst2]; simpa [refDone] using hx
        · rw [hs1pc, hst2]; simp [refDone, hc1, hpc]
        · rw [hst2]; simp [refDone, hr]
    | label n =>
      simp only [defs, List.nodup_cons] at hnd
      have hT1 : (run true (step true s1 (.label n)) rest).tab n = some (s1.pc : Int) := by
        rw [run_tab_other true rest _ n hnd.1]; simp [step, upd]
      have hs2n : s2.tab n = some (s2.pc : Int) := by
        rw [h4' n (by simp [defs]), hT1, hpc]
      refine ih (step true s1 (.label n)) (step false s2 (.label n)) hcr hnd.2 ?_ ?_ ?_ ?_ ?_
      · intro m hm
        have hmn : m ≠ n := fun h => hnd.1 (h ▸ hm)
        simp only [step]; rw [upd_other _ _ _ _ hmn]; exact h3 m (by simp [defs, hm])
      · intro m hm
        have hmn : m ≠ n := fun h => hnd.1 (h ▸ hm)
        simp only [step]; rw [upd_other _ _ _ _ hmn]; exact h4' m (by simp [defs, hm])
      · intro m x hmx
        simp only [step] at hmx ⊢
        by_cases hmn : m = n
        · subst hmn
          rw [upd_self] at hmx ⊢
          rw [← hmx, hpc]
        · rw [upd_other _ _ _ _ hmn] at hmx ⊢
          exact hx m x hmx
      · simp [step, hpc]
      · simp [step, hr, mismatch_same _ _ _ hs2n]
    | equ n e =>
      simp only [defs, List.nodup_cons] at hnd
      obtain ⟨v, f, hev⟩ := eval_true_some s1.tab s1.pc e
      cases f with
      | false =>
        have hst1 := step_equ_entered true s1 n e v hev
        have hT1 : (run true (step true s1 (.equ n e)) rest).tab n = some v := by
          rw [run_tab_other true rest _ n hnd.1, hst1]; simp [equEntered, upd]
        have hs2n : s2.tab n = some v := by rw [h4' n (by simp [defs]), hT1]
        have hev2 : eval false s2.tab s2.pc e = some (v, false) := by
          rw [hpc]; exact eval_mono false _ _ hx _ _ _ (eval_noflag true false _ _ _ _ hev)
        have hst2 := step_equ_entered false s2 n e v hev2
        refine ih (step true s1 (.equ n e)) (step false s2 (.equ n e)) hcr hnd.2 ?_ ?_ ?_ ?_ ?_
        · intro m hm
          have hmn : m ≠ n := fun h => hnd.1 (h ▸ hm)
          rw [hst1]; simp only [equEntered]; rw [upd_other _ _ _ _ hmn]; exact h3 m (by simp [defs, hm])
        · intro m hm
          have hmn : m ≠ n := fun h => hnd.1 (h ▸ hm)
          rw [hst2]; simp only [equEntered]; rw [upd_other _ _ _ _ hmn]; exact h4' m (by simp [defs, hm])
        · intro m x hmx
          rw [hst1] at hmx; rw [hst2]
          simp only [equEntered] at hmx ⊢
          by_cases hmn : m = n
          · subst hmn
            rw [upd_self] at hmx ⊢
            exact hmx
          · rw [upd_other _ _ _ _ hmn] at hmx ⊢
            exact hx m x hmx
        · rw [hst1, hst2]; simp [equEntered, hpc]
        · rw [hst2]; simp [equEntered, hr, mismatch_same _ _ _ hs2n]
      | true =>
        have hs1tab : (step true s1 (.equ n e)).tab = s1.tab := by simp [step, hev]
        have hs1pc : (step true s1 (.equ n e)).pc = s1.pc := by simp [step, hev]
        have hs1n : s1.tab n = none := h3 n (by simp [defs])
        have hs2n : s2.tab n = none := by
          rw [h4' n (by simp [defs]), run_tab_other true rest _ n hnd.1, hs1tab, hs1n]
        cases hev2 : eval false s2.tab s2.pc e with
        | none =>
          left
          exact run_err_mono false rest _ (by simp [step, hev2])
        | some r =>
          obtain ⟨v', f'⟩ := r
          have hf' := eval_false_flag _ _ _ _ _ hev2
          subst hf'
          have hst2 := step_equ_entered false s2 n e v' hev2
          refine ih (step true s1 (.equ n e)) (step false s2 (.equ n e)) hcr hnd.2 ?_ ?_ ?_ ?_ ?_
          · intro m hm
            rw [hs1tab]; exact h3 m (by simp [defs, hm])
          · intro m hm
            have hmn : m ≠ n := fun h => hnd.1 (h ▸ hm)
            rw [hst2]; simp only [equEntered]; rw [upd_other _ _ _ _ hmn]; exact h4' m (by simp [defs, hm])
          · intro m x hmx
            rw [hs1tab] at hmx; rw [hst2]
            simp only [equEntered]
            have hmn : m ≠ n := by
              intro h; subst h; rw [hs1n] at hmx; cases hmx
            rw [upd_other _ _ _ _ hmn]
            exact hx m x hmx
          · rw [hs1pc, hst2]; simp [equEntered, hpc]
          · rw [hst2]; simp [equEntered, hr, mismatch, hs2n]

/-! ## which symbols have a value: the textual rule -/

/-- `D` lists exactly the symbols that have a value in `T` -/
def DomIs (T : Tab) (D : List Sym) : Prop := ∀ m, T m ≠ none ↔ m ∈ D

theorem domIs_empty : DomIs emptyTab [] := by
  intro m; simp [emptyTab]

theorem domIs_upd (T : Tab) (D : List Sym) (n : Sym) (v : Int) (h : DomIs T D) : DomIs (upd T n v) (n :: D) := by
  intro m
  by_cases hmn : m = n
  · subst hmn; simp [upd]
  · rw [upd_other _ _ _ _ hmn, h m]; simp [hmn]

/-- in the first pass the flag says whether a symbol of the expression had no value yet -/
theorem eval_true_flag (T : Tab) (D : List Sym) (h : DomIs T D) (pc : Nat) (e : Expr) :
    ∃ v, eval true T pc e = some (v, !known D e) := by
  induction e with
  | const c => exact ⟨_, rfl⟩
  | pc => exact ⟨_, rfl⟩
  | sym n =>
    simp only [eval, known]
    cases hT : T n with
    | some x =>
      have : n ∈ D := (h n).1 (by simp [hT])
      exact ⟨x, by simp [this]⟩
    | none =>
      have : n ∉ D := fun hm => ((h n).2 hm) hT
      exact ⟨(pc : Int), by simp [this]⟩
  | add a b iha ihb =>
    obtain ⟨x, ha⟩ := iha
    obtain ⟨y, hb⟩ := ihb
    exact ⟨x + y, by simp only [eval, ha, hb, known]; cases known D a <;> cases known D b <;> rfl⟩
  | sub a b iha ihb =>
    obtain ⟨x, ha⟩ := iha
    obtain ⟨y, hb⟩ := ihb
    exact ⟨x - y, by simp only [eval, ha, hb, known]; cases known D a <;> cases known D b <;> rfl⟩

/-- after the first pass an expression has a value iff all its symbols have one -/
theorem eval_false_known (T : Tab) (D : List Sym) (h : DomIs T D) (pc : Nat) (e : Expr) :
    (known D e = true → ∃ v, eval false T pc e = some (v, false)) ∧
    (known D e = false → eval false T pc e = none) := by
  induction e with
  | const c => exact ⟨fun _ => ⟨_, rfl⟩, fun hk => by simp [known] at hk⟩
  | pc => exact ⟨fun _ => ⟨_, rfl⟩, fun hk => by simp [known] at hk⟩
  | sym n =>
    simp only [eval, known]
    cases hT : T n with
    | some x =>
      have : n ∈ D := (h n).1 (by simp [hT])
      exact ⟨fun _ => ⟨x, rfl⟩, fun hk => by simp [this] at hk⟩
    | none =>
      have : n ∉ D := fun hm => ((h n).2 hm) hT
      exact ⟨fun hk => by simp [this] at hk, fun _ => by simp⟩
  | add a b iha ihb =>
    simp only [known, Bool.and_eq_true, Bool.and_eq_false_iff]
    constructor
    · intro ⟨ka, kb⟩
      obtain ⟨x, ha⟩ := iha.1 ka
      obtain ⟨y, hb⟩ := ihb.1 kb
      exact ⟨x + y, by simp only [eval, ha, hb]; rfl⟩
    · intro hk
      rcases hk with ka | kb
      · simp only [eval, iha.2 ka]
      · simp only [eval, ihb.2 kb]
        cases eval false T pc a <;> rfl
  | sub a b iha ihb =>
    simp only [known, Bool.and_eq_true, Bool.and_eq_false_iff]
    constructor
    · intro ⟨ka, kb⟩
      obtain ⟨x, ha⟩ := iha.1 ka
      obtain ⟨y, hb⟩ := ihb.1 kb
      exact ⟨x - y, by simp only [eval, ha, hb]; rfl⟩
    · intro hk
      rcases hk with ka | kb
      · simp only [eval, iha.2 ka]
      · simp only [eval, ihb.2 kb]
        cases eval false T pc a <;> rfl

/-- the symbols with a value after the first pass are `firstPassDefs` -/
theorem run_true_dom (p : List Stmt) : ∀ (s : PS) (D : List Sym), DomIs s.tab D →
    DomIs (run true s p).tab (firstPassDefs D p) := by
  induction p with
  | nil => intro s D h; simpa [run, firstPassDefs] using h
  | cons st rest ih =>
    intro s D h
    show DomIs (run true (step true s st) rest).tab (firstPassDefs D (st :: rest))
    cases st with
    | skip k => exact ih _ D (by simpa [step] using h)
    | label n => exact ih _ (n :: D) (by simpa [step] using domIs_upd _ _ n _ h)
    | ref e size sizeU =>
      obtain ⟨v, hev⟩ := eval_true_flag s.tab D h s.pc e
      exact ih _ D (by simpa [step, hev] using h)
    | equ n e =>
      obtain ⟨v, hev⟩ := eval_true_flag s.tab D h s.pc e
      simp only [firstPassDefs]
      cases hk : known D e with
      | true =>
        rw [hk] at hev
        rw [step_equ_entered true s n e v (by simpa using hev)]
        simp only [if_true]
        exact ih _ (n :: D) (by simpa [equEntered] using domIs_upd _ _ n v h)
      | false =>
        rw [hk] at hev
        have : (step true s (.equ n e)).tab = s.tab := by simp [step, hev]
        simp only [Bool.false_eq_true, if_false]
        exact ih _ D (by rw [this]; exact h)

/-- a later pass reports "symbol undefined" iff some statement mentions a symbol that has no value yet -/
theorem run_false_err (p : List Stmt) : ∀ (s : PS) (D : List Sym), DomIs s.tab D → s.err = false →
    (run false s p).err = !backward D p := by
  induction p with
  | nil => intro s D _ he; simpa [run, backward] using he
  | cons st rest ih =>
    intro s D h he
    show (run false (step false s st) rest).err = !backward D (st :: rest)
    cases st with
    | skip k =>
      simp only [backward, stmtKnown, defAfter, Bool.true_and]
      exact ih _ D (by simpa [step] using h) (by simp [step, he])
    | label n =>
      simp only [backward, stmtKnown, defAfter, Bool.true_and]
      exact ih _ (n :: D) (by simpa [step] using domIs_upd _ _ n _ h) (by simp [step, he])
    | ref e size sizeU =>
      simp only [backward, stmtKnown, defAfter]
      cases hk : known D e with
      | true =>
        obtain ⟨v, hev⟩ := (eval_false_known s.tab D h s.pc e).1 hk
        rw [step_ref_done false s e size sizeU v hev]
        simp only [Bool.true_and]
        exact ih _ D (by simpa [refDone] using h) (by simp [refDone, he])
      | false =>
        have hev := (eval_false_known s.tab D h s.pc e).2 hk
        simp only [Bool.false_and, Bool.not_false]
        exact run_err_mono false rest _ (by simp [step, hev])
    | equ n e =>
      simp only [backward, stmtKnown, defAfter]
      cases hk : known D e with
      | true =>
        obtain ⟨v, hev⟩ := (eval_false_known s.tab D h s.pc e).1 hk
        rw [step_equ_entered false s n e v hev]
        simp only [Bool.true_and]
        exact ih _ (n :: D) (by simpa [equEntered] using domIs_upd _ _ n v h) (by simp [equEntered, he])
      | false =>
        have hev := (eval_false_known s.tab D h s.pc e).2 hk
        simp only [Bool.false_and, Bool.not_false]
        exact run_err_mono false rest _ (by simp [step, hev])

/-! ## programs without forward reference -/

theorem run_backward (first : Bool) (p : List Stmt) : ∀ (s : PS) (D : List Sym), DomIs s.tab D →
    (∀ m ∈ defs p, m ∉ D) → (defs p).Nodup → backward D p = true → s.repass = false → s.err = false →
    (run first s p).repass = false ∧ (run first s p).err = false := by
  induction p with
  | nil => intro s D _ _ _ _ hr he; simpa [run] using ⟨hr, he⟩
  | cons st rest ih =>
    intro s D h hfresh hnd hb hr he
    show (run first (step first s st) rest).repass = false ∧ (run first (step first s st) rest).err = false
    simp only [backward, Bool.and_eq_true] at hb
    obtain ⟨hk, hb'⟩ := hb
    cases st with
    | skip k =>
      exact ih _ D (by simpa [step] using h) (by simpa [defs] using hfresh) (by simpa [defs] using hnd)
        (by simpa [defAfter] using hb') (by simp [step, hr]) (by simp [step, he])
    | label n =>
      simp only [defs, List.nodup_cons] at hnd
      have hn : s.tab n = none := by
        have := hfresh n (by simp [defs])
        cases hT : s.tab n with
        | none => rfl
        | some x => exact absurd ((h n).1 (by simp [hT])) this
      refine ih _ (n :: D) (by simpa [step] using domIs_upd _ _ n _ h) ?_ hnd.2 (by simpa [defAfter] using hb')
        (by simp [step, hr, mismatch, hn]) (by simp [step, he])
      intro m hm
      simp only [List.mem_cons, not_or]
      exact ⟨fun hmn => hnd.1 (hmn ▸ hm), hfresh m (by simp [defs, hm])⟩
    | ref e size sizeU =>
      simp only [stmtKnown] at hk
      obtain ⟨v, hev⟩ := (eval_false_known s.tab D h s.pc e).1 hk
      rw [step_ref_done first s e size sizeU v (eval_noflag false first _ _ _ _ hev)]
      exact ih _ D (by simpa [refDone] using h) (by simpa [defs] using hfresh) (by simpa [defs] using hnd)
        (by simpa [defAfter] using hb') (by simp [refDone, hr]) (by simp [refDone, he])
    | equ n e =>
      simp only [stmtKnown] at hk
      simp only [defs, List.nodup_cons] at hnd
      obtain ⟨v, hev⟩ := (eval_false_known s.tab D h s.pc e).1 hk
      rw [step_equ_entered first s n e v (eval_noflag false first _ _ _ _ hev)]
      have hn : s.tab n = none := by
        have := hfresh n (by simp [defs])
        cases hT : s.tab n with
        | none => rfl
        | some x => exact absurd ((h n).1 (by simp [hT])) this
      refine ih _ (n :: D) (by simpa [equEntered] using domIs_upd _ _ n v h) ?_ hnd.2 (by simpa [defAfter] using hb')
        (by simp [equEntered, hr, mismatch, hn]) (by simp [equEntered, he])
      intro m hm
      simp only [List.mem_cons, not_or]
      exact ⟨fun hmn => hnd.1 (hmn ▸ hm), hfresh m (by simp [defs, hm])⟩

end AslModel.Pass2
