import AslModel.Lemmas.AddrRes
/-!
# Helper lemmas for `Props/C10_Res.lean`: reservations with `0 DUP (…)` groups

`DecodeIntelPseudo_LayoutMult` returns at once for a count ≤ 0 (the body is not looked at, `DSFlag` stays): a `0 DUP` group
contributes no element.  `Adv0` / `AdvW0`: the walk over a reservation tree with counts `n ≥ 0` either is a reservation walk
(`Adv` / `AdvW` of `Lemmas/DataExt.lean` / `Lemmas/AddrRes.lean`) or has not touched the state at all (only `0 DUP` groups so far).
-/
namespace AslModel.AddrResLemmas
open AslModel.PFile (Byte b)
open AslModel.Data AslModel.DataModel AslModel.DataX AslModel.DataXModel AslModel.DataXLemmas
open AslModel.AddrRes AslModel.AddrResModel

mutual
/-- a reservation in which `0 DUP` is allowed: `?`, `n DUP (…)` with `n ≥ 0` around a non-empty list of such -/
def res0Arg : XArg → Bool
  | .q => true
  | .dup n as => decide (0 ≤ n) && res0Args as
  | _ => false
/-- a non-empty list -/
def res0Args : XArgs → Bool
  | .nil => false
  | .cons a as => res0Arg a && res0Tail as
def res0Tail : XArgs → Bool
  | .nil => true
  | .cons a as => res0Arg a && res0Tail as
end

/-! ## elements smaller than the unit -/

/-- a reservation walk of `e` elements, or nothing has happened yet (`e = 0`, the flag still unset) -/
def Adv0 (k : Nat) (st st' : XSt) (e : Nat) : Prop := Adv k st st' e ∨ (e = 0 ∧ st' = st ∧ st.ds = .none)

theorem adv0_trans (k : Nat) (a bb cc : XSt) (e1 e2 : Nat) (h1 : Adv0 k a bb e1) (h2 : Adv0 k bb cc e2) : Adv0 k a cc (e1 + e2) := by
  rcases h1 with h1 | ⟨r1, r2, r3⟩
  · rcases h2 with h2 | ⟨s1, s2, s3⟩
    · exact Or.inl (adv_trans k a bb cc e1 e2 h1 h2)
    · subst s1; subst s2; exact Or.inl (by simpa using h1)
  · subst r1; subst r2
    rcases h2 with h2 | ⟨s1, s2, s3⟩
    · exact Or.inl (by simpa using h2)
    · subst s1; subst s2; exact Or.inr ⟨rfl, rfl, r3⟩

theorem dup_zero (c : MCfg) (p : XP) (cx : XCtx) (t : List Byte) (n : Int) (as : XArgs) (st : XSt) (hn : n ≤ 0) :
    layoutMultX c p cx t (.dup n as) st = .ok st := by
  unfold layoutMultX
  simp [hn]

theorem adv0_refl (k : Nat) (st : XSt) (hlw : st.lw < k) (hds : st.ds ≠ .const) : Adv0 k st st 0 := by
  cases hd : st.ds with
  | none => exact Or.inr ⟨rfl, rfl, hd⟩
  | space => exact Or.inl (adv_refl k st hlw hd)
  | const => exact absurd hd hds

theorem adv0_lw (k : Nat) (st st' : XSt) (e : Nat) (h : Adv0 k st st' e) (hlw : st.lw < k) : st'.lw < k := by
  rcases h with h | ⟨_, r2, _⟩
  · exact h.lw
  · rw [r2]; exact hlw

theorem adv0_ds (k : Nat) (st st' : XSt) (e : Nat) (h : Adv0 k st st' e) : st'.ds ≠ .const := by
  rcases h with h | ⟨_, r2, r3⟩
  · rw [h.ds]; decide
  · rw [r2, r3]; decide

mutual
theorem res0_arg_run (c : MCfg) (p : XP) (cx : XCtx) (t : List Byte) (hk : 1 < cx.k) :
    ∀ (a : XArg) (st : XSt), res0Arg a = true → st.lw < cx.k → st.ds ≠ .const →
      ∃ st', layoutMultX c p cx t a st = .ok st' ∧ Adv0 cx.k st st' (elemsArg a)
  | .q, st, _, hlw, hds => by
    obtain ⟨st', h, hadv⟩ := q_step c p cx t st hk hlw hds
    exact ⟨st', h, Or.inl (by simpa [elemsArg] using hadv)⟩
  | .dup n as, st, hp, hlw, hds => by
    simp only [res0Arg, Bool.and_eq_true, decide_eq_true_eq] at hp
    by_cases hn : n ≤ 0
    · refine ⟨st, dup_zero c p cx t n as st hn, ?_⟩
      have : n.toNat = 0 := by omega
      simpa [elemsArg, this] using adv0_refl cx.k st hlw hds
    · have hn1 : 1 ≤ n := by omega
      obtain ⟨st1, h1, hadv1⟩ := res0_args_run c p cx t hk as st hp.2 hlw hds
      rcases hadv1 with hadv1 | ⟨r1, r2, r3⟩
      · obtain ⟨st2, h2, hadv2⟩ := dup_step c p cx t n as st st1 (elemsArgs as) hk hn1 hlw h1 hadv1
        exact ⟨st2, h2, Or.inl (by simpa [elemsArg] using hadv2)⟩
      · subst r2
        refine ⟨st1, ?_, Or.inr ⟨by simp [elemsArg, r1], rfl, r3⟩⟩
        unfold layoutMultX
        simp [hn, h1, r3]
  | .int _, _, hp, _, _ => by simp [res0Arg] at hp
  | .str _, _, hp, _, _ => by simp [res0Arg] at hp
  | .chr _, _, hp, _, _ => by simp [res0Arg] at hp
  | .flt _, _, hp, _, _ => by simp [res0Arg] at hp
  | .rep _ _, _, hp, _, _ => by simp [res0Arg] at hp
theorem res0_args_run (c : MCfg) (p : XP) (cx : XCtx) (t : List Byte) (hk : 1 < cx.k) :
    ∀ (as : XArgs) (st : XSt), res0Args as = true → st.lw < cx.k → st.ds ≠ .const →
      ∃ st', layoutMultLX c p cx t as st = .ok st' ∧ Adv0 cx.k st st' (elemsArgs as)
  | .nil, _, hp, _, _ => by simp [res0Args] at hp
  | .cons a as, st, hp, hlw, hds => by
    simp only [res0Args, Bool.and_eq_true] at hp
    obtain ⟨st1, h1, hadv1⟩ := res0_arg_run c p cx t hk a st hp.1 hlw hds
    obtain ⟨st2, h2, hadv2⟩ := res0_tail_run c p cx t hk as st1 hp.2 (adv0_lw _ _ _ _ hadv1 hlw) (adv0_ds _ _ _ _ hadv1)
    refine ⟨st2, ?_, ?_⟩
    · rw [cons_run c p cx t a as st st1 h1]; exact h2
    · simpa [elemsArgs] using adv0_trans cx.k st st1 st2 _ _ hadv1 hadv2
theorem res0_tail_run (c : MCfg) (p : XP) (cx : XCtx) (t : List Byte) (hk : 1 < cx.k) :
    ∀ (as : XArgs) (st : XSt), res0Tail as = true → st.lw < cx.k → st.ds ≠ .const →
      ∃ st', layoutMultLX c p cx t as st = .ok st' ∧ Adv0 cx.k st st' (elemsArgs as)
  | .nil, st, _, hlw, hds => ⟨st, nil_run c p cx t st, by simpa [elemsArgs] using adv0_refl cx.k st hlw hds⟩
  | .cons a as, st, hp, hlw, hds => by
    simp only [res0Tail, Bool.and_eq_true] at hp
    obtain ⟨st1, h1, hadv1⟩ := res0_arg_run c p cx t hk a st hp.1 hlw hds
    obtain ⟨st2, h2, hadv2⟩ := res0_tail_run c p cx t hk as st1 hp.2 (adv0_lw _ _ _ _ hadv1 hlw) (adv0_ds _ _ _ _ hadv1)
    refine ⟨st2, ?_, ?_⟩
    · rw [cons_run c p cx t a as st st1 h1]; exact h2
    · simpa [elemsArgs] using adv0_trans cx.k st st1 st2 _ _ hadv1 hadv2
end

/-! ## elements of whole units -/

def AdvW0 (m : Nat) (st st' : XSt) (e : Nat) : Prop := AdvW m st st' e ∨ (e = 0 ∧ st' = st ∧ st.ds = .none)

theorem advW0_trans (m : Nat) (a bb cc : XSt) (e1 e2 : Nat) (h1 : AdvW0 m a bb e1) (h2 : AdvW0 m bb cc e2) : AdvW0 m a cc (e1 + e2) := by
  rcases h1 with h1 | ⟨r1, r2, r3⟩
  · rcases h2 with h2 | ⟨s1, s2, s3⟩
    · exact Or.inl (advW_trans m a bb cc e1 e2 h1 h2)
    · subst s1; subst s2; exact Or.inl (by simpa using h1)
  · subst r1; subst r2
    rcases h2 with h2 | ⟨s1, s2, s3⟩
    · exact Or.inl (by simpa using h2)
    · subst s1; subst s2; exact Or.inr ⟨rfl, rfl, r3⟩

theorem advW0_refl (m : Nat) (st : XSt) (hlw : st.lw = 0) (hds : st.ds ≠ .const) : AdvW0 m st st 0 := by
  cases hd : st.ds with
  | none => exact Or.inr ⟨rfl, rfl, hd⟩
  | space => exact Or.inl (advW_refl m st hlw hd)
  | const => exact absurd hd hds

theorem advW0_lw (m : Nat) (st st' : XSt) (e : Nat) (h : AdvW0 m st st' e) (hlw : st.lw = 0) : st'.lw = 0 := by
  rcases h with h | ⟨_, r2, _⟩
  · exact h.lw
  · rw [r2]; exact hlw

theorem advW0_ds (m : Nat) (st st' : XSt) (e : Nat) (h : AdvW0 m st st' e) : st'.ds ≠ .const := by
  rcases h with h | ⟨_, r2, r3⟩
  · rw [h.ds]; decide
  · rw [r2, r3]; decide

mutual
theorem res0_arg_runW (c : MCfg) (p : XP) (cx : XCtx) (t : List Byte) (hk : ¬ 1 < cx.k) :
    ∀ (a : XArg) (st : XSt), res0Arg a = true → st.lw = 0 → st.ds ≠ .const →
      ∃ st', layoutMultX c p cx t a st = .ok st' ∧ AdvW0 (cx.bits / (8 * cx.g)) st st' (elemsArg a)
  | .q, st, _, hlw, hds => by
    obtain ⟨st', h, hadv⟩ := q_stepW c p cx t st hk hlw hds
    exact ⟨st', h, Or.inl (by simpa [elemsArg] using hadv)⟩
  | .dup n as, st, hp, hlw, hds => by
    simp only [res0Arg, Bool.and_eq_true, decide_eq_true_eq] at hp
    by_cases hn : n ≤ 0
    · refine ⟨st, dup_zero c p cx t n as st hn, ?_⟩
      have : n.toNat = 0 := by omega
      simpa [elemsArg, this] using advW0_refl (cx.bits / (8 * cx.g)) st hlw hds
    · have hn1 : 1 ≤ n := by omega
      obtain ⟨st1, h1, hadv1⟩ := res0_args_runW c p cx t hk as st hp.2 hlw hds
      rcases hadv1 with hadv1 | ⟨r1, r2, r3⟩
      · obtain ⟨st2, h2, hadv2⟩ := dup_stepW c p cx t n as st st1 (elemsArgs as) hk hn1 hlw h1 hadv1
        exact ⟨st2, h2, Or.inl (by simpa [elemsArg] using hadv2)⟩
      · subst r2
        refine ⟨st1, ?_, Or.inr ⟨by simp [elemsArg, r1], rfl, r3⟩⟩
        unfold layoutMultX
        simp [hn, h1, r3]
  | .int _, _, hp, _, _ => by simp [res0Arg] at hp
  | .str _, _, hp, _, _ => by simp [res0Arg] at hp
  | .chr _, _, hp, _, _ => by simp [res0Arg] at hp
  | .flt _, _, hp, _, _ => by simp [res0Arg] at hp
  | .rep _ _, _, hp, _, _ => by simp [res0Arg] at hp
theorem res0_args_runW (c : MCfg) (p : XP) (cx : XCtx) (t : List Byte) (hk : ¬ 1 < cx.k) :
    ∀ (as : XArgs) (st : XSt), res0Args as = true → st.lw = 0 → st.ds ≠ .const →
      ∃ st', layoutMultLX c p cx t as st = .ok st' ∧ AdvW0 (cx.bits / (8 * cx.g)) st st' (elemsArgs as)
  | .nil, _, hp, _, _ => by simp [res0Args] at hp
  | .cons a as, st, hp, hlw, hds => by
    simp only [res0Args, Bool.and_eq_true] at hp
    obtain ⟨st1, h1, hadv1⟩ := res0_arg_runW c p cx t hk a st hp.1 hlw hds
    obtain ⟨st2, h2, hadv2⟩ := res0_tail_runW c p cx t hk as st1 hp.2 (advW0_lw _ _ _ _ hadv1 hlw) (advW0_ds _ _ _ _ hadv1)
    refine ⟨st2, ?_, ?_⟩
    · rw [cons_run c p cx t a as st st1 h1]; exact h2
    · simpa [elemsArgs] using advW0_trans _ st st1 st2 _ _ hadv1 hadv2
theorem res0_tail_runW (c : MCfg) (p : XP) (cx : XCtx) (t : List Byte) (hk : ¬ 1 < cx.k) :
    ∀ (as : XArgs) (st : XSt), res0Tail as = true → st.lw = 0 → st.ds ≠ .const →
      ∃ st', layoutMultLX c p cx t as st = .ok st' ∧ AdvW0 (cx.bits / (8 * cx.g)) st st' (elemsArgs as)
  | .nil, st, _, hlw, hds => ⟨st, nil_run c p cx t st, by simpa [elemsArgs] using advW0_refl _ st hlw hds⟩
  | .cons a as, st, hp, hlw, hds => by
    simp only [res0Tail, Bool.and_eq_true] at hp
    obtain ⟨st1, h1, hadv1⟩ := res0_arg_runW c p cx t hk a st hp.1 hlw hds
    obtain ⟨st2, h2, hadv2⟩ := res0_tail_runW c p cx t hk as st1 hp.2 (advW0_lw _ _ _ _ hadv1 hlw) (advW0_ds _ _ _ _ hadv1)
    refine ⟨st2, ?_, ?_⟩
    · rw [cons_run c p cx t a as st st1 h1]; exact h2
    · simpa [elemsArgs] using advW0_trans _ st st1 st2 _ _ hadv1 hadv2
end

/-! ## the statement -/

theorem ceilDiv_zero (d : Nat) (hd : 0 < d) : ceilDiv 0 d = 0 := by
  unfold ceilDiv
  apply Nat.div_eq_of_lt
  omega

/-- what `DecodeIntelDx` hands back for `u` reserved units -/
def resOut (u : Nat) : Out := if u = 0 then .empty else .space u

/-- `DecodeIntelDx` after a walk that has touched nothing: `CodeLen = 0` -/
theorem untouched_stmt (c : MCfg) (p : XP) (g bits : Nat) (t : List Byte) (as : XArgs)
    (hrun : layoutMultLX c p ⟨g, bits, loHiMapOf bits g c.ibig⟩ t as {} = .ok {}) :
    decodeIntelDxX c p g bits t as = .ok ⟨none, .empty, []⟩ := by
  unfold decodeIntelDxX
  simp [hrun]

/-- a reservation with `0 DUP` groups, of any shape: `CodeLen` is the manual's unit count (`CodeLen = 0`: nothing is handed to
the code file) -/
theorem res0_stmt_units (c : MCfg) (p : XP) (g bits : Nat) (t : List Byte) (as : XArgs)
    (hp : res0Args as = true) (hg : 0 < g) (hb : 0 < bits)
    (hdiv : (8 * g) % bits = 0 ∨ bits % (8 * g) = 0) :
    decodeIntelDxX c p g bits t as = .ok ⟨none, resOut (resUnits g bits (elemsArgs as)), []⟩ := by
  by_cases hk : 1 < 8 * g / bits
  · have hdvd : (8 * g) % bits = 0 := by
      rcases hdiv with h | h
      · exact h
      · exfalso
        have hle : 8 * g ≤ bits := Nat.le_of_dvd hb (Nat.dvd_of_mod_eq_zero h)
        have : 8 * g / bits ≤ 1 := by
          apply Nat.div_le_of_le_mul
          omega
        exact absurd hk (Nat.not_lt.mpr this)
    have hkb : 8 * g = 8 * g / bits * bits := (Nat.div_mul_cancel (Nat.dvd_of_mod_eq_zero hdvd)).symm
    obtain ⟨st', hrun, hadv⟩ := res0_args_run c p ⟨g, bits, loHiMapOf bits g c.ibig⟩ t hk as {} hp
      (by show 0 < 8 * g / bits; omega) (by decide)
    rw [resUnits_packed g bits (8 * g / bits) _ hb (by omega) hkb]
    rcases hadv with hadv | ⟨r1, r2, _⟩
    · by_cases he : 0 < elemsArgs as
      · rw [reserve_stmt c p g bits t as st' _ hk he hrun hadv]
        have : ceilDiv (elemsArgs as) (8 * g / bits) ≠ 0 := by
          unfold ceilDiv
          intro h0
          have := Nat.lt_of_div_eq_zero (by omega) h0
          omega
        simp [resOut, this]
      · have he0 : elemsArgs as = 0 := by omega
        have hmu : st'.fw * (8 * g / bits) + st'.lw = 0 := by
          have := hadv.mu
          simp only [he0, XCtx.k] at this
          omega
        have hfw : st'.fw = 0 := by
          rcases Nat.eq_zero_or_pos st'.fw with h | h
          · exact h
          · exfalso
            have : 0 < st'.fw * (8 * g / bits) := Nat.mul_pos h (by omega)
            omega
        have hlw : st'.lw = 0 := by omega
        rw [he0, ceilDiv_zero _ (by omega)]
        unfold decodeIntelDxX
        simp [hrun, hadv.ds, hfw, hlw, resOut]
    · subst r2
      rw [r1, ceilDiv_zero _ (by omega)]
      exact untouched_stmt c p g bits t as hrun
  · have hdvd : bits % (8 * g) = 0 := by
      rcases hdiv with h | h
      · have hd := Nat.dvd_of_mod_eq_zero h
        have hq : 8 * g / bits * bits = 8 * g := Nat.div_mul_cancel hd
        have hq1 : 8 * g / bits = 1 := by
          have : 8 * g / bits ≠ 0 := by
            intro h0
            rw [h0] at hq
            omega
          exact Nat.le_antisymm (Nat.not_lt.mp hk) (Nat.pos_of_ne_zero this)
        rw [hq1, Nat.one_mul] at hq
        rw [hq]
        exact Nat.mod_self _
      · exact h
    have hmb : bits = bits / (8 * g) * (8 * g) := (Nat.div_mul_cancel (Nat.dvd_of_mod_eq_zero hdvd)).symm
    have hm : 0 < bits / (8 * g) := by
      apply Nat.pos_of_ne_zero
      intro h0
      rw [h0] at hmb
      omega
    obtain ⟨st', hrun, hadv⟩ := res0_args_runW c p ⟨g, bits, loHiMapOf bits g c.ibig⟩ t hk as {} hp rfl (by decide)
    rw [resUnits_whole g bits (bits / (8 * g)) _ hg hmb]
    rcases hadv with hadv | ⟨r1, r2, _⟩
    · by_cases he : 0 < elemsArgs as
      · rw [reserve_stmtW c p g bits t as st' _ (Nat.mul_pos he hm) hrun hadv]
        have : elemsArgs as * (bits / (8 * g)) ≠ 0 := Nat.ne_of_gt (Nat.mul_pos he hm)
        simp [resOut, this]
      · have he0 : elemsArgs as = 0 := by omega
        have hfw : st'.fw = 0 := by simpa [he0] using hadv.fw
        rw [he0]
        unfold decodeIntelDxX
        simp [hrun, hadv.ds, hfw, hadv.lw, resOut]
    · subst r2
      rw [r1]
      simpa [resOut] using untouched_stmt c p g bits t as hrun

/-! ## the classification of the specification -/

mutual
theorem res0_arg_class : ∀ (a : XArg), res0Arg a = true → plainArg a = true ∧ hasC a = false
  | .q, _ => by simp [plainArg, hasC]
  | .dup n as, hp => by
    simp only [res0Arg, Bool.and_eq_true, decide_eq_true_eq] at hp
    have h := res0_args_class as hp.2
    refine ⟨?_, ?_⟩
    · simp only [plainArg, Bool.and_eq_true, decide_eq_true_eq]
      exact ⟨hp.1, h.1⟩
    · simp [hasC, h.2]
  | .int _, hp => by simp [res0Arg] at hp
  | .str _, hp => by simp [res0Arg] at hp
  | .chr _, hp => by simp [res0Arg] at hp
  | .flt _, hp => by simp [res0Arg] at hp
  | .rep _ _, hp => by simp [res0Arg] at hp
theorem res0_args_class : ∀ (as : XArgs), res0Args as = true → plainArgs as = true ∧ hasCs as = false
  | .nil, hp => by simp [res0Args] at hp
  | .cons a as, hp => by
    simp only [res0Args, Bool.and_eq_true] at hp
    have h1 := res0_arg_class a hp.1
    have h2 := res0_tail_class as hp.2
    exact ⟨by simp [plainArgs, h1.1, h2.1], by simp [hasCs, h1.2, h2.2]⟩
theorem res0_tail_class : ∀ (as : XArgs), res0Tail as = true → plainArgs as = true ∧ hasCs as = false
  | .nil, _ => by simp [plainArgs, hasCs]
  | .cons a as, hp => by
    simp only [res0Tail, Bool.and_eq_true] at hp
    have h1 := res0_arg_class a hp.1
    have h2 := res0_tail_class as hp.2
    exact ⟨by simp [plainArgs, h1.1, h2.1], by simp [hasCs, h1.2, h2.2]⟩
end

/-! a reservation tree that stands for no placeholder at all (only `0 DUP` groups, or groups of such): no element, and the
manual's rule for the statement's contents (`Spec/DataExt.lean specIntel`) gives "nothing" -/

mutual
theorem nothing_arg (m : CharMap) (o : Nat) (e : Elem) (big : Bool) : ∀ (a : XArg), res0Arg a = true → hasQ a = false →
    elemsArg a = 0 ∧ specArg e big (lowerArg m o a) = some .empty ∧ specNibArg (lowerArg m o a) = some .empty
  | .q, _, hq => by simp [hasQ] at hq
  | .dup n as, hp, hq => by
    simp only [res0Arg, Bool.and_eq_true, decide_eq_true_eq] at hp
    by_cases hn : n ≤ 0
    · have : n.toNat = 0 := by omega
      simp [elemsArg, this, lowerArg, specArg, specNibArg, hn]
    · have hq' : hasQs as = false := by
        have : decide (0 < n) = true := by simp; omega
        simpa [hasQ, this] using hq
      obtain ⟨h1, h2, h3⟩ := nothing_args m o e big as hp.2 hq'
      simp [elemsArg, h1, lowerArg, specArg, specNibArg, hn, h2, h3, Out.times]
  | .int _, hp, _ => by simp [res0Arg] at hp
  | .str _, hp, _ => by simp [res0Arg] at hp
  | .chr _, hp, _ => by simp [res0Arg] at hp
  | .flt _, hp, _ => by simp [res0Arg] at hp
  | .rep _ _, hp, _ => by simp [res0Arg] at hp
theorem nothing_args (m : CharMap) (o : Nat) (e : Elem) (big : Bool) : ∀ (as : XArgs), res0Args as = true → hasQs as = false →
    elemsArgs as = 0 ∧ specArgs e big (lowerArgs m o as) = some .empty ∧ specNibArgs (lowerArgs m o as) = some .empty
  | .nil, hp, _ => by simp [res0Args] at hp
  | .cons a as, hp, hq => by
    simp only [res0Args, Bool.and_eq_true] at hp
    simp only [hasQs, Bool.or_eq_false_iff] at hq
    obtain ⟨a1, a2, a3⟩ := nothing_arg m o e big a hp.1 hq.1
    obtain ⟨b1, b2, b3⟩ := nothing_tail m o e big as hp.2 hq.2
    simp [elemsArgs, a1, b1, lowerArgs, specArgs, specNibArgs, a2, b2, a3, b3, Out.add]
theorem nothing_tail (m : CharMap) (o : Nat) (e : Elem) (big : Bool) : ∀ (as : XArgs), res0Tail as = true → hasQs as = false →
    elemsArgs as = 0 ∧ specArgs e big (lowerArgs m o as) = some .empty ∧ specNibArgs (lowerArgs m o as) = some .empty
  | .nil, _, _ => by simp [elemsArgs, lowerArgs, specArgs, specNibArgs]
  | .cons a as, hp, hq => by
    simp only [res0Tail, Bool.and_eq_true] at hp
    simp only [hasQs, Bool.or_eq_false_iff] at hq
    obtain ⟨a1, a2, a3⟩ := nothing_arg m o e big a hp.1 hq.1
    obtain ⟨b1, b2, b3⟩ := nothing_tail m o e big as hp.2 hq.2
    simp [elemsArgs, a1, b1, lowerArgs, specArgs, specNibArgs, a2, b2, a3, b3, Out.add]
end

theorem resUnits_zero (g bits : Nat) (hg : 0 < g) : resUnits g bits 0 = 0 := by
  unfold resUnits
  rw [Nat.zero_mul]
  exact ceilDiv_zero _ (by omega)

theorem lay_res0_model_eq_spec (c : MCfg) (p : XP) (big : Bool) (g bits : Nat) (as : XArgs)
    (hp : res0Args as = true) (hg : 0 < g) (hb : 0 < bits)
    (hdiv : (8 * g) % bits = 0 ∨ bits % (8 * g) = 0) :
    modelLay c p g bits as = .adv (resUnits g bits (elemsArgs as)) [] ∧ specLay big g bits as = .adv (resUnits g bits (elemsArgs as)) [] := by
  have hm := res0_stmt_units c p g bits tableInit as hp hg hb hdiv
  have hc := res0_args_class as hp
  refine ⟨?_, ?_⟩
  · unfold modelLay
    rw [hm]
    unfold resOut
    by_cases h0 : resUnits g bits (elemsArgs as) = 0 <;> simp [h0]
  · unfold specLay
    have hb' : ¬ bits = 0 := by omega
    have hg' : ¬ g = 0 := by omega
    cases hq : hasQs as with
    | true => simp [hc.1, hc.2, hb', hg']
    | false =>
      obtain ⟨n1, n2, n3⟩ := nothing_args identityMap (opSizeOf ⟨bits / 8, true, none⟩) ⟨bits / 8, true, none⟩ big as hp hq
      obtain ⟨_, _, n3'⟩ := nothing_args identityMap 0 ⟨bits / 8, true, none⟩ big as hp hq
      have hsi : specIntel ⟨g, big, false, identityMap⟩ bits true none as = some .empty := by
        unfold specIntel
        by_cases h4 : bits = 4
        · simp [h4, n3']
        · simp [h4, n2]
      simp [hc.1, hc.2, hb', hg', hsi, n1, resUnits_zero g bits hg]

end AslModel.AddrResLemmas
