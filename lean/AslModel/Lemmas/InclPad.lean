import AslModel.Model.InclPad
/-! Lemmas for Props/C16_Incl.lean: the model over a source tree = the model over its flat text (mutual induction over `Src`/`Srcs`);
one line of the flat model = one line of the SPEC layout under the correspondence `ofLay` (label memory = pending label at the
current address). -/
namespace AslModel.InclPad
open AslModel.InclSpec

theorem runFlat_append (st : St) (a b : List Line) : runFlat st (a ++ b) = runFlat (runFlat st a) b := by
  simp [runFlat, List.foldl_append]

theorem runFlat_labelLine (st : St) (lab : Option Nat) : runFlat st (labelLine lab) = labelHandleOpt st lab := by
  cases lab <;> simp [runFlat, labelLine, labelHandleOpt, produceLine]

mutual
theorem runSrc_flat (st : St) : (s : Src) → runSrc st s = runFlat st (flattenSrc s)
  | .line l => by simp [runSrc, flattenSrc, runFlat]
  | .incl m lab body => by
    rw [runSrc, flattenSrc, runFlat_append, runFlat_labelLine]
    exact runSrcs_flat _ body
theorem runSrcs_flat (st : St) : (p : Srcs) → runSrcs st p = runFlat st (flattenSrcs p)
  | .nil => by simp [runSrcs, flattenSrcs, runFlat]
  | .cons s r => by
    rw [runSrcs, flattenSrcs, runFlat_append, runSrc_flat st s]
    exact runSrcs_flat _ r
end

/-! the flat model against the SPEC layout -/

/-- the model state that corresponds to a layout state: the label memory holds exactly the pending label at the current address -/
def ofLay (s : Lay) : St := ⟨s.pc, s.pend, s.pend.map (fun _ => s.pc), s.syms, s.out⟩

theorem pad_cell (o : Obj) : (if onlyReserve o = true then Cell.gap else Cell.byte 0) = o.padCell := by
  cases o <;> rfl

theorem set_set (l a b : Nat) (f : Syms) : (f.set l a).set l b = f.set l b := by
  funext k; simp only [Syms.set]; split <;> rfl

/-- one line: model step = SPEC step -/
theorem step_ofLay (s : Lay) (l : Line) : produceLine (ofLay s) l = ofLay (stepLine s l) := by
  cases l with
  | blank => rfl
  | label n => simp [produceLine, stepLine, ofLay, labelHandle]
  | other lab => simp [produceLine, stepLine, ofLay, labelReset]
  | stmt lab o =>
    obtain ⟨pc, pend, syms, out⟩ := s
    cases hp : padded pc o
    · -- no pad byte
      have hp' : (o.aligned && pc % 2 == 1) = false := hp
      cases lab <;> cases pend <;>
        simp [produceLine, stepLine, ofLay, labelReset, makeCode, labelHandleOpt, labelHandle, hp, hp', Syms.setOpt]
    · have hp' : (o.aligned && pc % 2 == 1) = true := hp
      cases lab <;> cases pend <;>
        simp [produceLine, stepLine, ofLay, labelReset, makeCode, labelHandleOpt, labelHandle, insertPadding, labelModify,
          hp, hp', Syms.setOpt, moved, Nat.add_assoc, pad_cell]

theorem run_ofLay (ls : List Line) : ∀ (s : Lay), runFlat (ofLay s) ls = ofLay (ls.foldl stepLine s) := by
  induction ls with
  | nil => intro s; rfl
  | cons l r ih =>
    intro s
    simp only [runFlat, List.foldl_cons] at *
    rw [step_ofLay]
    exact ih _

end AslModel.InclPad
