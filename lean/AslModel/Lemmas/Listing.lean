import AslModel.Spec.Listing
import AslModel.Model.Listing
/-! Helper lemmas of C19: digits in an arbitrary radix, tokens, the dump loop. -/
namespace AslModel.Listing

theorem digitVal_digitChar : ∀ d, d < 36 → digitVal (digitChar d) = some d := by decide

theorem digitChar_ne_space : ∀ d, d < 36 → digitChar d ≠ ' ' := by decide
theorem digitChar_ne_slash : ∀ d, d < 36 → digitChar d ≠ '/' := by decide
theorem digitChar_ne_rparen : ∀ d, d < 36 → digitChar d ≠ ')' := by decide
theorem digitChar_ne_colon : ∀ d, d < 36 → digitChar d ≠ ':' := by decide
theorem digitVal_space : digitVal ' ' = none := by decide

/-- every character is a digit of radix `r` as the model prints it -/
def AllDig (r : Nat) (cs : List Char) : Prop := ∀ c ∈ cs, ∃ d, d < r ∧ c = digitChar d

theorem AllDig.nil (r : Nat) : AllDig r [] := by intro c h; cases h

theorem AllDig.append {r : Nat} {a b : List Char} (ha : AllDig r a) (hb : AllDig r b) : AllDig r (a ++ b) := by
  intro c h
  rcases List.mem_append.mp h with h | h
  · exact ha c h
  · exact hb c h

theorem AllDig.tail {r : Nat} {c : Char} {cs : List Char} (h : AllDig r (c :: cs)) : AllDig r cs :=
  fun x hx => h x (List.mem_cons_of_mem _ hx)

theorem AllDig.not_mem {r : Nat} {cs : List Char} (h : AllDig r cs) (hr : r ≤ 36) (x : Char)
    (hx : ∀ d, d < 36 → digitChar d ≠ x) : ∀ c ∈ cs, c ≠ x := by
  intro c hc
  obtain ⟨d, hd, rfl⟩ := h c hc
  exact hx d (by omega)

theorem parseNumAux_append (r : Nat) (a b : List Char) (acc : Nat) :
    parseNumAux r (a ++ b) acc = (parseNumAux r a acc).bind (parseNumAux r b) := by
  induction a generalizing acc with
  | nil => simp [parseNumAux]
  | cons c cs ih =>
    simp only [List.cons_append, parseNumAux]
    cases digitVal c with
    | none => simp
    | some d =>
      by_cases h : d < r
      · simp [h, ih]
      · simp [h]

theorem parseNumAux_single (r d acc : Nat) (hd : d < r) (hr : r ≤ 36) :
    parseNumAux r [digitChar d] acc = some (acc * r + d) := by
  simp [parseNumAux, digitVal_digitChar d (by omega), hd]

/-- **digit print/parse round trip in an arbitrary radix** (induction on the number of digits = fuel) -/
theorem parseNumAux_sysStringCore (r : Nat) (hr2 : 2 ≤ r) (hr36 : r ≤ 36) :
    ∀ f st n, n + st < f → parseNumAux r (sysStringCore r f st n) 0 = some n := by
  intro f
  induction f with
  | zero => intro st n h; omega
  | succ f ih =>
    intro st n h
    have hmod : n % r < r := Nat.mod_lt _ (by omega)
    simp only [sysStringCore]
    rw [parseNumAux_append]
    by_cases hc : st - 1 > 0 ∨ n / r ≠ 0
    · have hdiv : n / r ≤ n := Nat.div_le_self n r
      have hlt : n / r + (st - 1) < f := by
        by_cases hn : n = 0
        · subst hn
          simp at hc ⊢
          omega
        · have : n / r < n := Nat.div_lt_self (by omega) (by omega)
          omega
      rw [if_pos hc, ih (st - 1) (n / r) hlt]
      simp only [Option.bind_some]
      rw [parseNumAux_single r (n % r) (n / r) hmod hr36]
      congr 1
      exact Nat.div_add_mod' n r
    · rw [if_neg hc]
      have h0 : n / r = 0 := by
        by_cases h1 : n / r = 0
        · exact h1
        · exact absurd (Or.inr h1) hc
      have hn : n < r := by
        rcases (Nat.div_eq_zero_iff).mp h0 with h | h
        · omega
        · exact h
      have h1 : parseNumAux r [] 0 = some 0 := rfl
      rw [h1]
      simp only [Option.bind_some]
      rw [parseNumAux_single r (n % r) 0 hmod hr36, Nat.mod_eq_of_lt hn]
      simp

theorem sysStringCore_allDig (r : Nat) (hr : 0 < r) : ∀ f st n, AllDig r (sysStringCore r f st n) := by
  intro f
  induction f with
  | zero => intro st n; exact AllDig.nil r
  | succ f ih =>
    intro st n
    simp only [sysStringCore]
    apply AllDig.append
    · split
      · exact ih _ _
      · exact AllDig.nil r
    · intro c hc
      simp at hc
      exact ⟨n % r, Nat.mod_lt _ hr, hc⟩

theorem sysStringCore_ne_nil (r f st n : Nat) : sysStringCore r (f + 1) st n ≠ [] := by
  simp [sysStringCore]

/-- a value that fits `st` digits is printed with exactly `st` digits -/
theorem sysStringCore_length (r : Nat) (_hr2 : 2 ≤ r) :
    ∀ f st n, n + st < f → 1 ≤ st → n < r ^ st → (sysStringCore r f st n).length = st := by
  intro f
  induction f with
  | zero => intro st n h; omega
  | succ f ih =>
    intro st n h hst hn
    simp only [sysStringCore, List.length_append, List.length_singleton]
    by_cases h1 : st = 1
    · subst h1
      have hn' : n < r := by simpa using hn
      have : n / r = 0 := Nat.div_eq_of_lt hn'
      simp [this]
    · have hc : st - 1 > 0 ∨ n / r ≠ 0 := Or.inl (by omega)
      rw [if_pos hc]
      have hpow : n / r < r ^ (st - 1) := by
        apply Nat.div_lt_of_lt_mul
        have : r ^ st = r * r ^ (st - 1) := by
          conv => lhs; rw [show st = (st - 1) + 1 by omega]
          rw [Nat.pow_succ, Nat.mul_comm]
        omega
      have hdiv : n / r ≤ n := Nat.div_le_self n r
      rw [ih (st - 1) (n / r) (by omega) (by omega) hpow]
      omega

theorem sysString_parse (r : Nat) (hr2 : 2 ≤ r) (hr36 : r ≤ 36) (st n : Nat) :
    parseNumAux r (sysString r st n) 0 = some n :=
  parseNumAux_sysStringCore r hr2 hr36 _ st n (by omega)

theorem sysString_allDig (r : Nat) (hr : 0 < r) (st n : Nat) : AllDig r (sysString r st n) :=
  sysStringCore_allDig r hr _ st n

theorem sysString_ne_nil (r st n : Nat) : sysString r st n ≠ [] := by
  unfold sysString
  exact sysStringCore_ne_nil r _ st n

theorem parseNum_sysString (r : Nat) (hr2 : 2 ≤ r) (hr36 : r ≤ 36) (st n : Nat) :
    parseNum r (sysString r st n) = some n := by
  have h := sysString_ne_nil r st n
  have hp := sysString_parse r hr2 hr36 st n
  unfold parseNum
  split
  · contradiction
  · exact hp

theorem sysString_length (r : Nat) (hr2 : 2 ≤ r) (st n : Nat) (hst : 1 ≤ st) (hn : n < r ^ st) :
    (sysString r st n).length = st :=
  sysStringCore_length r hr2 _ st n (by omega) hst hn


/-! ## tokens -/

theorem splitAt1_append (stop : Char) (xs rest : List Char) (h : ∀ c ∈ xs, c ≠ stop) :
    splitAt1 stop (xs ++ stop :: rest) = some (xs, rest) := by
  induction xs with
  | nil => simp [splitAt1]
  | cons c cs ih =>
    have hc : c ≠ stop := h c (by simp)
    have ih' := ih (fun x hx => h x (List.mem_cons_of_mem _ hx))
    simp [splitAt1, hc, ih']

theorem splitAt1_none (stop : Char) (xs : List Char) (h : ∀ c ∈ xs, c ≠ stop) : splitAt1 stop xs = none := by
  induction xs with
  | nil => simp [splitAt1]
  | cons c cs ih =>
    have hc : c ≠ stop := h c (by simp)
    have ih' := ih (fun x hx => h x (List.mem_cons_of_mem _ hx))
    simp [splitAt1, hc, ih']

theorem skipSp_replicate (k : Nat) (c : Char) (t : List Char) (hc : c ≠ ' ') :
    skipSp (List.replicate k ' ' ++ c :: t) = c :: t := by
  induction k with
  | zero => simp [skipSp, hc]
  | succ k ih => simp [List.replicate_succ, skipSp, ih]

theorem skipSp_padLeft (r : Nat) (hr : r ≤ 36) (k : Nat) (ds rest : List Char) (hd : AllDig r ds) (hne : ds ≠ []) :
    skipSp (padLeft k ds ++ rest) = ds ++ rest := by
  cases ds with
  | nil => contradiction
  | cons c t =>
    have hc : c ≠ ' ' := AllDig.not_mem hd hr ' ' digitChar_ne_space c (by simp)
    unfold padLeft
    rw [List.append_assoc]
    exact skipSp_replicate _ c (t ++ rest) hc

/-! ## code groups -/

theorem parseGroups_digits (r w : Nat) (hr : r ≤ 36) (rest : List Char) :
    ∀ (ds : List Char) (k acc v : Nat), k + ds.length = w → AllDig r ds → parseNumAux r ds acc = some v →
      parseGroups r w (ds ++ ' ' :: rest) k acc = v :: parseGroups r w rest 0 0 := by
  intro ds
  induction ds with
  | nil =>
    intro k acc v hk _ hv
    simp only [parseNumAux, Option.some.injEq] at hv
    simp at hk
    simp [parseGroups, hk, hv]
  | cons c cs ih =>
    intro k acc v hk hd hv
    obtain ⟨d, hdr, rfl⟩ := hd c (by simp)
    have hkw : k ≠ w := by simp at hk; omega
    have hdv := digitVal_digitChar d (by omega)
    simp only [parseNumAux, hdv, hdr, if_true] at hv
    simp only [List.cons_append, parseGroups, hkw, if_false, hdv, hdr, if_true]
    exact ih (k + 1) (acc * r + d) v (by simp at hk; omega) hd.tail hv

theorem parseGroups_space (r w : Nat) (hw : w ≠ 0) (rest : List Char) : parseGroups r w (' ' :: rest) 0 0 = [] := by
  have : (0 : Nat) ≠ w := fun h => hw h.symm
  simp [parseGroups, this, digitVal_space]

/-- what may follow the last group of a line: nothing, or padding -/
def TailOK (tail : List Char) : Prop := tail = [] ∨ ∃ t, tail = ' ' :: t

theorem parseGroups_tail (r w : Nat) (hw : w ≠ 0) (tail : List Char) (h : TailOK tail) : parseGroups r w tail 0 0 = [] := by
  rcases h with rfl | ⟨t, rfl⟩
  · simp [parseGroups]
  · exact parseGroups_space r w hw t

/-! ## the inner dump loop -/

theorem inner_cnt_rest (numR w : Nat) (dp : Bool) :
    ∀ f cnt d, cnt ≤ (inner numR w dp f cnt d).cnt ∧
      (inner numR w dp f cnt d).rest = d.drop ((inner numR w dp f cnt d).cnt - cnt) := by
  intro f
  induction f with
  | zero => intro cnt d; simp [inner]
  | succ f ih =>
    intro cnt d
    simp only [inner]
    split
    · obtain ⟨h1, h2⟩ := ih (cnt + 1) (d.drop 1)
      refine ⟨by simp only; omega, ?_⟩
      simp only
      rw [h2, List.drop_drop]
      congr 1
      omega
    · refine ⟨by simp, ?_⟩
      simp

theorem inner_cnt_pos (numR w : Nat) (dp : Bool) (f cnt : Nat) (d : List UInt8) :
    cnt + 1 ≤ (inner numR w dp (f + 1) cnt d).cnt := by
  simp only [inner]
  split
  · exact (inner_cnt_rest numR w dp f (cnt + 1) (d.drop 1)).1
  · simp

/-- the line never overflows the code field: `SumLen < LISTLINESPACE` at the end -/
theorem inner_sumlen (numR w : Nat) (dp : Bool) :
    ∀ f cnt d, cnt * (w + 1) + (w + 1) < LISTLINESPACE →
      (inner numR w dp f cnt d).cnt * (w + 1) < LISTLINESPACE := by
  intro f
  induction f with
  | zero => intro cnt d h; simp only [inner]; omega
  | succ f ih =>
    intro cnt d h
    simp only [inner]
    have e : (cnt + 1) * (w + 1) = cnt * (w + 1) + (w + 1) := Nat.succ_mul cnt (w + 1)
    split
    · rename_i hc
      exact ih (cnt + 1) (d.drop 1) hc
    · simp only
      omega

/-- text of the inner loop consists of digits and blanks only -/
def AllDigSp (r : Nat) (cs : List Char) : Prop := ∀ c ∈ cs, c = ' ' ∨ ∃ d, d < r ∧ c = digitChar d

theorem AllDigSp.append {r : Nat} {a b : List Char} (ha : AllDigSp r a) (hb : AllDigSp r b) : AllDigSp r (a ++ b) := by
  intro c h
  rcases List.mem_append.mp h with h | h
  · exact ha c h
  · exact hb c h

theorem AllDig.toSp {r : Nat} {a : List Char} (ha : AllDig r a) : AllDigSp r a := fun c hc => Or.inr (ha c hc)

theorem allDigSp_replicate (r k : Nat) : AllDigSp r (List.replicate k ' ') := by
  intro c hc
  exact Or.inl (List.eq_of_mem_replicate hc)

theorem cell_allDigSp (r w : Nat) (hr : 0 < r) (dp : Bool) (d : List UInt8) : AllDigSp r (cell r w dp d) := by
  cases d with
  | nil => exact allDigSp_replicate r _
  | cons b t =>
    simp only [cell]
    split
    · exact allDigSp_replicate r _
    · apply AllDigSp.append (sysString_allDig r hr w b.toNat).toSp
      intro c hc
      simp at hc
      exact Or.inl hc

theorem inner_allDigSp (r w : Nat) (hr : 0 < r) (dp : Bool) : ∀ f cnt d, AllDigSp r (inner r w dp f cnt d).text := by
  intro f
  induction f with
  | zero => intro cnt d c hc; simp [inner] at hc
  | succ f ih =>
    intro cnt d
    simp only [inner]
    split
    · exact AllDigSp.append (cell_allDigSp r w hr dp d) (ih _ _)
    · exact cell_allDigSp r w hr dp d

theorem AllDigSp.not_mem {r : Nat} {cs : List Char} (h : AllDigSp r cs) (hr : r ≤ 36) (x : Char) (hx0 : x ≠ ' ')
    (hx : ∀ d, d < 36 → digitChar d ≠ x) : ∀ c ∈ cs, c ≠ x := by
  intro c hc
  rcases h c hc with rfl | ⟨d, hd, rfl⟩
  · exact fun h => hx0 h.symm
  · exact hx d (by omega)

/-- **groups of one listing line**: the parser reads back exactly the bytes the inner loop consumed -/
theorem parseGroups_inner (r w : Nat) (hr2 : 2 ≤ r) (hr36 : r ≤ 36) (hw : 1 ≤ w) (hbyte : 256 ≤ r ^ w) :
    ∀ f cnt d tail, TailOK tail →
      parseGroups r w ((inner r w false f cnt d).text ++ tail) 0 0
        = (d.take ((inner r w false f cnt d).cnt - cnt)).map (fun b => b.toNat) := by
  intro f
  induction f with
  | zero =>
    intro cnt d tail ht
    simp [inner, parseGroups_tail r w (by omega) tail ht]
  | succ f ih =>
    intro cnt d tail ht
    cases d with
    | nil =>
      -- only blank cells from here on
      have hcell : cell r w false ([] : List UInt8) = ' ' :: List.replicate w ' ' := by
        simp [cell, List.replicate_succ]
      simp only [inner]
      split
      · simp only [hcell, List.cons_append]
        rw [parseGroups_space r w (by omega)]
        simp
      · simp only [hcell, List.cons_append]
        rw [parseGroups_space r w (by omega)]
        simp
    | cons b t =>
      have hb : b.toNat < r ^ w := by have := b.toNat_lt; omega
      have hcell : cell r w false (b :: t) = sysString r w b.toNat ++ [' '] := by simp [cell]
      have hdig := sysString_allDig r (by omega) w b.toNat
      have hlen := sysString_length r hr2 w b.toNat hw hb
      have hparse := sysString_parse r hr2 hr36 w b.toNat
      simp only [inner]
      split
      · simp only [hcell, List.append_assoc, List.cons_append, List.nil_append, List.drop_succ_cons, List.drop_zero]
        rw [parseGroups_digits r w hr36 _ (sysString r w b.toNat) 0 0 b.toNat (by omega) hdig hparse]
        rw [ih (cnt + 1) t tail ht]
        have hc := (inner_cnt_rest r w false f (cnt + 1) t).1
        have : (inner r w false f (cnt + 1) t).cnt - cnt = ((inner r w false f (cnt + 1) t).cnt - (cnt + 1)) + 1 := by omega
        rw [this, List.take_succ_cons]
        simp
      · simp only [hcell, List.append_assoc, List.cons_append, List.nil_append]
        rw [parseGroups_digits r w hr36 _ (sysString r w b.toNat) 0 0 b.toNat (by omega) hdig hparse]
        rw [parseGroups_tail r w (by omega) tail ht]
        have : cnt + 1 - cnt = 1 := by omega
        simp [this]

/-! ## one line -/

theorem skipSp_replicate' (k : Nat) (xs : List Char) : skipSp (List.replicate k ' ' ++ xs) = skipSp xs := by
  induction k with
  | zero => simp
  | succ k ih => simp [List.replicate_succ, skipSp, ih]

theorem padLeft_zero (s : List Char) : padLeft 0 s = s := by simp [padLeft]

def marker (retr : Bool) : Char := if retr then 'R' else ':'

theorem addrField_eq (numR pc : Nat) (retr : Bool) (field : List Char) :
    addrField numR pc retr ++ field = padLeft 8 (sysString numR 0 pc) ++ ' ' :: marker retr :: ' ' :: field := by
  simp [addrField, marker]

theorem parseAddrCode_rendered (r w : Nat) (hr2 : 2 ≤ r) (hr36 : r ≤ 36) (k pc : Nat) (retr : Bool) (field : List Char) :
    parseAddrCode r r w (padLeft k (sysString r 0 pc) ++ ' ' :: marker retr :: ' ' :: field)
      = some (pc, retr, parseGroups r w field 0 0) := by
  have hd := sysString_allDig r (by omega) 0 pc
  have hne := sysString_ne_nil r 0 pc
  unfold parseAddrCode
  rw [skipSp_padLeft r hr36 k _ _ hd hne]
  rw [splitAt1_append ' ' _ _ (AllDig.not_mem hd hr36 ' ' digitChar_ne_space)]
  simp only [parseNum_sysString r hr2 hr36 0 pc]
  cases retr <;> simp [marker]

theorem parsePrefix_rendered (depth : Nat) (rest : List Char) :
    parsePrefix (depthPrefix depth ++ rest) = some (depth, rest) := by
  unfold depthPrefix
  by_cases h : depth = 0
  · subst h
    simp [parsePrefix]
  · have hd := sysString_allDig 10 (by omega) 0 depth
    simp only [if_neg h, List.append_assoc, List.cons_append, List.nil_append, parsePrefix]
    rw [show decString depth = sysString 10 0 depth from rfl]
    rw [splitAt1_append ')' _ _ (AllDig.not_mem hd (by omega) ')' digitChar_ne_rparen)]
    simp [parseNum_sysString 10 (by omega) (by omega) 0 depth]

/-- first line of a source line's listing -/
theorem parseLine_first (r w : Nat) (hr2 : 2 ≤ r) (hr36 : r ≤ 36) (depth line pc : Nat) (retr : Bool) (field : List Char) :
    parseLineGen r r w (firstPrefix depth line ++ addrField r pc retr ++ field)
      = some ⟨depth, some line, pc, retr, parseGroups r w field 0 0⟩ := by
  have hd := sysString_allDig 10 (by omega) 0 line
  have hne := sysString_ne_nil 10 0 line
  unfold parseLineGen firstPrefix
  simp only [List.append_assoc]
  rw [parsePrefix_rendered]
  simp only
  rw [show decString line = sysString 10 0 line from rfl]
  rw [skipSp_padLeft 10 (by omega) 5 _ _ hd hne]
  simp only [List.singleton_append]
  rw [splitAt1_append '/' _ _ (AllDig.not_mem hd (by omega) '/' digitChar_ne_slash)]
  simp only [parseNum_sysString 10 (by omega) (by omega) 0 line]
  rw [addrField_eq, parseAddrCode_rendered r w hr2 hr36]

/-- continuation line -/
theorem parseLine_cont (r w : Nat) (hr2 : 2 ≤ r) (hr36 : r ≤ 36) (pc : Nat) (retr : Bool) (field : List Char)
    (hf : AllDigSp r field) :
    parseLineGen r r w (List.replicate 9 ' ' ++ addrField r pc retr ++ field)
      = some ⟨0, none, pc, retr, parseGroups r w field 0 0⟩ := by
  have hd := sysString_allDig r (by omega) 0 pc
  have hne := sysString_ne_nil r 0 pc
  have h9 : List.replicate 9 ' ' = ' ' :: ' ' :: ' ' :: List.replicate 6 ' ' := by simp [List.replicate]
  unfold parseLineGen
  rw [List.append_assoc, h9]
  simp only [List.cons_append, parsePrefix]
  rw [skipSp_replicate', addrField_eq, skipSp_padLeft r hr36 8 _ _ hd hne]
  have hnone : splitAt1 '/' (sysString r 0 pc ++ ' ' :: marker retr :: ' ' :: field) = none := by
    apply splitAt1_none
    intro c hc
    simp only [List.mem_append, List.mem_cons] at hc
    rcases hc with hc | rfl | rfl | rfl | hc
    · exact AllDig.not_mem hd hr36 '/' digitChar_ne_slash c hc
    · decide
    · cases retr <;> decide
    · decide
    · exact AllDigSp.not_mem hf hr36 '/' (by decide) digitChar_ne_slash c hc
  rw [hnone]
  simp only
  have := parseAddrCode_rendered r w hr2 hr36 0 pc retr field
  rw [padLeft_zero] at this
  rw [this]

/-! ## the outer loop -/

theorem LISTLINESPACE_eq : LISTLINESPACE = 19 + 1 := rfl

theorem outer_cont (r w : Nat) (hr2 : 2 ≤ r) (hr36 : r ≤ 36) (hw : 1 ≤ w) (hbyte : 256 ≤ r ^ w)
    (i : ListIn) (hnr : i.numRadix = r) (hdp : i.dontPrint = false) :
    ∀ f pc d, d.length < f → d ≠ [] →
      parseConts (parseLineGen r r w) pc (outer i w f false pc d) = some (d.map (fun b => b.toNat)) := by
  intro f
  induction f with
  | zero => intro pc d h; omega
  | succ f ih =>
    intro pc d hlen hne
    have hR := inner_cnt_rest r w false LISTLINESPACE 0 d
    have hpos : 0 + 1 ≤ (inner r w false LISTLINESPACE 0 d).cnt := by
      rw [LISTLINESPACE_eq]; exact inner_cnt_pos r w false 19 0 d
    have hg := parseGroups_inner r w hr2 hr36 hw hbyte LISTLINESPACE 0 d [] (Or.inl rfl)
    have hsp := inner_allDigSp r w (by omega) false LISTLINESPACE 0 d
    have hline := parseLine_cont r w hr2 hr36 pc i.retracted (inner r w false LISTLINESPACE 0 d).text hsp
    simp only [List.append_nil, Nat.sub_zero] at hg
    rw [hg] at hline
    simp only [outer, hnr, hdp, Bool.false_eq_true, if_false, List.append_nil, Bool.not_false, and_true]
    generalize hRdef : inner r w false LISTLINESPACE 0 d = R at *
    obtain ⟨_, hrest⟩ := hR
    simp only [Nat.sub_zero] at hrest
    by_cases hrn : R.rest ≠ []
    · rw [if_pos hrn]
      have hlt : R.cnt < d.length := by
        by_cases hx : R.cnt < d.length
        · exact hx
        · exfalso; apply hrn; rw [hrest]; exact List.drop_eq_nil_of_le (by omega)
      have hrl : R.rest.length < f := by rw [hrest, List.length_drop]; omega
      simp only [parseConts, hline, true_and, if_true, List.length_map, List.length_take]
      rw [show min R.cnt d.length = R.cnt by omega]
      rw [ih (pc + R.cnt) R.rest hrl hrn]
      simp only [hrest, ← List.map_append, List.take_append_drop]
    · rw [if_neg hrn]
      have hnil : R.rest = [] := by
        by_cases hx : R.rest = []
        · exact hx
        · exact absurd hx hrn
      have hall : d.take R.cnt = d := by
        have : d.drop R.cnt = [] := by rw [← hrest]; exact hnil
        have hh := List.take_append_drop R.cnt d
        rw [this, List.append_nil] at hh
        exact hh
      simp only [parseConts, hline, hall]
      simp

theorem outer_first (r w : Nat) (hr2 : 2 ≤ r) (hr36 : r ≤ 36) (hw : 1 ≤ w) (hbyte : 256 ≤ r ^ w)
    (hw8 : w + 1 < LISTLINESPACE) (i : ListIn) (hnr : i.numRadix = r) (hdp : i.dontPrint = false)
    (d : List UInt8) (pc : Nat) :
    parseListingWith (parseLineGen r r w) (outer i w (d.length + 1) true pc d)
      = some (pc, d.map (fun b => b.toNat)) := by
  have hR := inner_cnt_rest r w false LISTLINESPACE 0 d
  have hpos : 0 + 1 ≤ (inner r w false LISTLINESPACE 0 d).cnt := by
    rw [LISTLINESPACE_eq]; exact inner_cnt_pos r w false 19 0 d
  have hsum := inner_sumlen r w false LISTLINESPACE 0 d (by omega)
  simp only [outer, hnr, hdp, if_true, Bool.not_false, and_true]
  generalize hRdef : inner r w false LISTLINESPACE 0 d = R at *
  have htail : TailOK (List.replicate (LISTLINESPACE - R.cnt * (w + 1)) ' ' ++ i.src) := by
    right
    have : LISTLINESPACE - R.cnt * (w + 1) = (LISTLINESPACE - R.cnt * (w + 1) - 1) + 1 := by omega
    rw [this, List.replicate_succ]
    exact ⟨_, rfl⟩
  have hg := parseGroups_inner r w hr2 hr36 hw hbyte LISTLINESPACE 0 d _ htail
  rw [hRdef] at hg
  simp only [Nat.sub_zero] at hg
  have hline := parseLine_first r w hr2 hr36 i.incDepth i.currLine pc i.retracted
    (R.text ++ (List.replicate (LISTLINESPACE - R.cnt * (w + 1)) ' ' ++ i.src))
  rw [hg] at hline
  simp only [List.append_assoc] at hline ⊢
  obtain ⟨_, hrest⟩ := hR
  simp only [Nat.sub_zero] at hrest
  by_cases hrn : R.rest ≠ []
  · rw [if_pos hrn]
    have hlt : R.cnt < d.length := by
      by_cases hx : R.cnt < d.length
      · exact hx
      · exfalso; apply hrn; rw [hrest]; exact List.drop_eq_nil_of_le (by omega)
    have hrl : R.rest.length < d.length := by rw [hrest, List.length_drop]; omega
    simp only [parseListingWith, hline, Option.isSome_some, if_true, List.length_map, List.length_take]
    rw [show min R.cnt d.length = R.cnt by omega]
    rw [outer_cont r w hr2 hr36 hw hbyte i hnr hdp d.length (pc + R.cnt) R.rest hrl hrn]
    simp only [hrest, ← List.map_append, List.take_append_drop]
  · rw [if_neg hrn]
    have hnil : R.rest = [] := by
      by_cases hx : R.rest = []
      · exact hx
      · exact absurd hx hrn
    have hall : d.take R.cnt = d := by
      have : d.drop R.cnt = [] := by rw [← hrest]; exact hnil
      have hh := List.take_append_drop R.cnt d
      rw [this, List.append_nil] at hh
      exact hh
    simp only [parseListingWith, parseConts, hline, hall]
    simp

/-! ## MAP entries -/

theorem spanNonSp_append (xs rest : List Char) (h : ∀ c ∈ xs, c ≠ ' ') :
    spanNonSp (xs ++ ' ' :: rest) = (xs, ' ' :: rest) := by
  induction xs with
  | nil => simp [spanNonSp]
  | cons c cs ih =>
    have hc : c ≠ ' ' := h c (by simp)
    have ih' := ih (fun x hx => h x (List.mem_cons_of_mem _ hx))
    simp [spanNonSp, hc, ih']

theorem spanNonSp_all (xs : List Char) (h : ∀ c ∈ xs, c ≠ ' ') : spanNonSp xs = (xs, []) := by
  induction xs with
  | nil => simp [spanNonSp]
  | cons c cs ih =>
    have hc : c ≠ ' ' := h c (by simp)
    have ih' := ih (fun x hx => h x (List.mem_cons_of_mem _ hx))
    simp [spanNonSp, hc, ih']

theorem parseMapEntriesAux_skip (f : Nat) (s : List Char) :
    parseMapEntriesAux f (' ' :: s) = parseMapEntriesAux f s := by
  cases f with
  | zero => rfl
  | succ f => simp [parseMapEntriesAux, skipSp]

theorem mapEntry_eq (l a : Nat) (rest : List Char) :
    mapEntry l a ++ rest = padLeft 5 (sysString 10 0 l) ++ ':' :: (sysString 16 8 a ++ ' ' :: rest) := by
  simp [mapEntry, decString, hexString]

theorem parseMapEntriesAux_render : ∀ (es : List (Nat × Nat)) (f : Nat), (renderMapLine es).length < f →
    parseMapEntriesAux f (renderMapLine es) = some es := by
  intro es
  induction es with
  | nil =>
    intro f hf
    cases f with
    | zero => omega
    | succ f => simp [renderMapLine, parseMapEntriesAux, skipSp]
  | cons e es ih =>
    intro f hf
    obtain ⟨l, a⟩ := e
    cases f with
    | zero => omega
    | succ f =>
      have hd := sysString_allDig 10 (by omega) 0 l
      have hne := sysString_ne_nil 10 0 l
      have hx := sysString_allDig 16 (by omega) 8 a
      have hrender : renderMapLine ((l, a) :: es) = mapEntry l a ++ renderMapLine es := by
        simp [renderMapLine]
      rw [hrender, mapEntry_eq] at hf ⊢
      have hlen : (renderMapLine es).length < f := by
        simp only [List.length_append, List.length_cons] at hf
        omega
      simp only [parseMapEntriesAux]
      rw [skipSp_padLeft 10 (by omega) 5 _ _ hd hne]
      have hnonempty : (sysString 10 0 l ++ ':' :: (sysString 16 8 a ++ ' ' :: renderMapLine es)).isEmpty = false := by
        cases hs : sysString 10 0 l with
        | nil => exact absurd hs hne
        | cons c t => simp
      rw [hnonempty]
      simp only [Bool.false_eq_true, if_false]
      rw [splitAt1_append ':' _ _ (AllDig.not_mem hd (by omega) ':' digitChar_ne_colon)]
      simp only
      rw [spanNonSp_append _ _ (AllDig.not_mem hx (by omega) ' ' digitChar_ne_space)]
      simp only [parseNum_sysString 10 (by omega) (by omega) 0 l, parseNum_sysString 16 (by omega) (by omega) 8 a]
      rw [parseMapEntriesAux_skip, ih f hlen]

/-! ## share file -/

theorem digitChar_ne_semi : ∀ d, d < 36 → digitChar d ≠ ';' := by decide

theorem hexOf_parse (v : Nat) : parseNum 16 (hexOf v) = some v := parseNum_sysString 16 (by omega) (by omega) 0 v

theorem parseNum_zero_cons (r : Nat) (hr : 0 < r) (ds : List Char) (hne : ds ≠ []) :
    parseNum r ('0' :: ds) = parseNum r ds := by
  have h0 : digitVal '0' = some 0 := by decide
  cases ds with
  | nil => contradiction
  | cons c t => simp [parseNum, parseNumAux, h0, hr]

theorem digitChar_ge_48 : ∀ d, d < 36 → 48 ≤ (digitChar d).toNat := by decide

theorem parseShareValue_intel (v : Nat) : parseShareValue .asmIntel (intLine .intel v) = some v := by
  have hne : hexOf v ≠ [] := sysString_ne_nil 16 0 v
  have hp := hexOf_parse v
  have hd := sysString_allDig 16 (by omega) 0 v
  unfold intLine
  simp only
  cases hx : hexOf v with
  | nil => exact absurd hx hne
  | cons c t =>
    have hc48 : 48 ≤ c.toNat := by
      obtain ⟨d, hd16, rfl⟩ := hd c (by rw [show sysString 16 0 v = hexOf v from rfl, hx]; simp)
      exact digitChar_ge_48 d (by omega)
    rw [hx] at hp
    simp only [List.cons_append]
    split
    · have : ('0' :: c :: (t ++ ['H'])).reverse = 'H' :: ('0' :: c :: t).reverse := by simp
      simp only [parseShareValue, this, true_or, if_true, List.reverse_reverse]
      have h0 : 48 ≤ '0'.toNat ∧ '0'.toNat ≤ 57 := by decide
      simp only [h0, and_self, if_true]
      rw [parseNum_zero_cons 16 (by omega) _ (by simp), hp]
    · rename_i hgt
      have h9 : c.toNat ≤ 57 := by
        have : '9'.toNat = 57 := by decide
        omega
      have : (c :: (t ++ ['H'])).reverse = 'H' :: (c :: t).reverse := by simp
      simp only [parseShareValue, this, true_or, if_true, List.reverse_reverse]
      simp only [hc48, h9, and_self, if_true]
      exact hp

theorem hexOf_noSp (v : Nat) : ∀ c ∈ hexOf v, c ≠ ' ' :=
  AllDig.not_mem (sysString_allDig 16 (by omega) 0 v) (by omega) ' ' digitChar_ne_space

theorem hexOf_noSemi (v : Nat) : ∀ c ∈ hexOf v, c ≠ ';' :=
  AllDig.not_mem (sysString_allDig 16 (by omega) 0 v) (by omega) ';' digitChar_ne_semi

theorem intLine_noSp (m : IntMode) (v : Nat) : ∀ c ∈ intLine m v, c ≠ ' ' := by
  have h := hexOf_noSp v
  cases m with
  | intel =>
    unfold intLine
    simp only
    cases hs : hexOf v ++ ['H'] with
    | nil => simp
    | cons c t =>
      have hall : ∀ x ∈ c :: t, x ≠ ' ' := by
        rw [← hs]
        intro x hx
        rcases List.mem_append.mp hx with hx | hx
        · exact h x hx
        · simp at hx; subst hx; decide
      simp only
      split
      · intro x hx
        rcases List.mem_cons.mp hx with rfl | hx
        · decide
        · exact hall x hx
      · exact hall
  | moto =>
    intro x hx
    simp only [intLine] at hx
    rcases List.mem_cons.mp hx with rfl | hx
    · decide
    · exact h x hx
  | c =>
    intro x hx
    simp only [intLine] at hx
    rcases List.mem_cons.mp hx with rfl | hx
    · decide
    · rcases List.mem_cons.mp hx with rfl | hx
      · decide
      · exact h x hx

theorem share_c (name : List Char) (hn : ∀ c ∈ name, c ≠ ' ') (m : IntMode) (chg : Bool) (v : Nat) :
    parseShareLine .c (shareLine 2 m chg name v) = some (name, false, v) := by
  have hkw : ∀ c ∈ ['#','d','e','f','i','n','e'], c ≠ ' ' := by decide
  have e : shareLine 2 m chg name v = ['#','d','e','f','i','n','e'] ++ ' ' :: (name ++ ' ' :: intLine .c v) := by
    simp [shareLine]
  rw [e]
  unfold parseShareLine
  simp only
  rw [splitAt1_append ' ' _ _ hkw]
  simp only [if_true]
  rw [splitAt1_append ' ' _ _ hn]
  simp only
  rw [spanNonSp_all _ (intLine_noSp .c v)]
  simp [intLine, parseShareValue, hexOf_parse]

theorem share_pascal (name : List Char) (hn : ∀ c ∈ name, c ≠ ' ') (m : IntMode) (chg : Bool) (v : Nat) :
    parseShareLine .pascal (shareLine 1 m chg name v) = some (name, false, v) := by
  have e : shareLine 1 m chg name v = name ++ ' ' :: '=' :: ' ' :: (('$' :: hexOf v) ++ ';' :: []) := by
    simp [shareLine, intLine]
  have hv : ∀ c ∈ '$' :: hexOf v, c ≠ ';' := by
    intro c hc
    rcases List.mem_cons.mp hc with rfl | hc
    · decide
    · exact hexOf_noSemi v c hc
  rw [e]
  unfold parseShareLine
  simp only
  rw [splitAt1_append ' ' _ _ hn]
  simp only [and_self, if_true]
  rw [splitAt1_append ';' _ _ hv]
  simp [parseShareValue, hexOf_parse]

def fmtOf : IntMode → ShareFmt
  | .intel => .asmIntel
  | .moto => .asmMoto
  | .c => .asmC

theorem parseShareValue_asm (m : IntMode) (v : Nat) : parseShareValue (fmtOf m) (intLine m v) = some v := by
  cases m with
  | intel => exact parseShareValue_intel v
  | moto => simp [fmtOf, intLine, parseShareValue, hexOf_parse]
  | c => simp [fmtOf, intLine, parseShareValue, hexOf_parse]

theorem share_asm (name : List Char) (hn : ∀ c ∈ name, c ≠ ' ') (m : IntMode) (chg : Bool) (v : Nat) :
    parseShareLine (fmtOf m) (shareLine 3 m chg name v) = some (name, chg, v) := by
  have h1 : ∀ c ∈ ['e','q','u'], c ≠ ' ' := by decide
  have h2 : ∀ c ∈ ['s','e','t'], c ≠ ' ' := by decide
  have hval := parseShareValue_asm m v
  have hsp := spanNonSp_all _ (intLine_noSp m v)
  cases chg with
  | false =>
    have e : shareLine 3 m false name v = name ++ ' ' :: (['e','q','u'] ++ ' ' :: intLine m v) := by
      simp [shareLine]
    rw [e]
    unfold parseShareLine
    cases m <;> simp only [fmtOf] at hval ⊢ <;>
      (rw [splitAt1_append ' ' _ _ hn]; simp only; rw [splitAt1_append ' ' _ _ h1]; simp only [if_true]; rw [hsp, hval]; rfl)
  | true =>
    have e : shareLine 3 m true name v = name ++ ' ' :: (['s','e','t'] ++ ' ' :: intLine m v) := by
      simp [shareLine]
    have hne : (['s','e','t'] : List Char) ≠ ['e','q','u'] := by decide
    rw [e]
    unfold parseShareLine
    cases m <;> simp only [fmtOf] at hval ⊢ <;>
      (rw [splitAt1_append ' ' _ _ hn]; simp only; rw [splitAt1_append ' ' _ _ h2]; simp only [hne, if_false, if_true]; rw [hsp, hval]; rfl)

end AslModel.Listing
