import AslModel.Lemmas.NestTop
/-! The refusals (Props/C11_Nest.lean, `C11_nest_refuses`): a run of the machine in which no call is refused is a run with
the limit switched off; the largest counter value the machine reaches never exceeds NESTMAX+1; the SPEC's expansion and
`walk` depend on the macro table only. -/
namespace AslModel.NestModel
open AslModel.NestSpec

/-- the program with the limit switched off -/
def unlimited (p : Prog) : Prog := { p with nestMax := 0 }

/-! ### the SPEC does not look at NESTMAX -/

theorem lines_congr (p1 p2 : Prog) (h : p1.defs = p2.defs) (F : Nat) :
    ∀ (c : Ctx) (ls : List BLine) (s : SSt), lines p1 F c ls s = lines p2 F c ls s := by
  have hdef : ∀ d, getDef p1 d = getDef p2 d := fun d => by unfold getDef; rw [h]
  induction F with
  | zero => intro c ls s; rw [lines_zero, lines_zero]
  | succ F ih =>
    intro c ls s
    cases ls with
    | nil => rfl
    | cons l ls =>
      rw [lines_cons, lines_cons, ih]
      congr 1
      have hcall : ∀ m a, callM p1 F c s m a = callM p2 F c s m a := fun m a => by
        unfold callM; rw [hdef m, ih]
      cases l with
      | call m a => exact hcall m a
      | callDec m =>
        show (if c.arg > 0 then callM p1 F c s m (c.arg - 1) else s) = (if c.arg > 0 then callM p2 F c s m (c.arg - 1) else s)
        rw [hcall]
      | loop d n k =>
        show iter (iterBody p1 F c (getDef p1 d)) n s = iter (iterBody p2 F c (getDef p2 d)) n s
        have : iterBody p1 F c (getDef p1 d) = iterBody p2 F c (getDef p2 d) := by
          funext s'
          unfold iterBody; rw [hdef d, ih]
        rw [this]
      | _ => rfl

theorem walk_congr (p1 p2 : Prog) (h : p1.defs = p2.defs) (F : Nat) :
    ∀ (a : Nat) (ls : List BLine) (w : Walk), walk p1 F a ls w = walk p2 F a ls w := by
  have hdef : ∀ d, getDef p1 d = getDef p2 d := fun d => by unfold getDef; rw [h]
  induction F with
  | zero => intro a ls w; rw [walk_zero, walk_zero]
  | succ F ih =>
    intro a ls w
    cases ls with
    | nil => rfl
    | cons l ls =>
      rw [walk_cons, walk_cons, ih]
      congr 1
      have hcall : ∀ m x, callW p1 F w m x = callW p2 F w m x := fun m x => by
        unfold callW; rw [hdef m, ih]
      cases l with
      | call m x => exact hcall m x
      | callDec m =>
        show (if a > 0 then callW p1 F w m (a - 1) else w.tick) = (if a > 0 then callW p2 F w m (a - 1) else w.tick)
        rw [hcall]
      | loop d n k =>
        show (iter (iterW p1 F a (getDef p1 d)) n w.tick).tick = (iter (iterW p2 F a (getDef p2 d)) n w.tick).tick
        have : iterW p1 F a (getDef p1 d) = iterW p2 F a (getDef p2 d) := by
          funext w'
          unfold iterW; rw [hdef d, ih]
        rw [this]
      | _ => rfl

theorem run_unlimited (p : Prog) (F : Nat) : NestSpec.run (unlimited p) F = NestSpec.run p F := by
  have e : ∀ s, lines (unlimited p) F topCtx p.top s = lines p F topCtx p.top s := fun s => lines_congr (unlimited p) p rfl F _ _ _
  show lines (unlimited p) F topCtx p.top
      { syms := (lines (unlimited p) F topCtx p.top {}).syms, maxOpen := (lines (unlimited p) F topCtx p.top {}).maxOpen,
        ok := (lines (unlimited p) F topCtx p.top {}).ok, pass := 2 } = _
  rw [e, e]; rfl

theorem cost_unlimited (p : Prog) (F : Nat) : cost (unlimited p) F = cost p F := by
  show (walk (unlimited p) F 0 p.top {}).steps + 1 = _
  rw [walk_congr (unlimited p) p rfl]; rfl


/-! ### the rounds of the main loop, by cases -/

theorem step_stall {p : Prog} {q : Quirks} {s : St} {f : Frame} {below : List Frame} (hst : s.stack = f :: below)
    (he : f.isEmpty = false) (hr : f.rest = []) :
    step p q s = some { s with stack := { f with isEmpty := true } :: below } := by
  unfold step; rw [hst]; simp [he, deliver, hr]

theorem useLabel_refused (s : St) (l : Nat) : (useLabel s l).refused = s.refused := by
  unfold useLabel; split
  · rfl
  · split <;> rfl

theorem useLabel_maxUse (s : St) (l : Nat) : (useLabel s l).maxUse = s.maxUse := by
  unfold useLabel; split
  · rfl
  · split <;> rfl

theorem startLoop_refused (p : Prog) (s : St) (arg d n : Nat) (k : LKind) : (startLoop p s arg d n k).refused = s.refused := by
  unfold startLoop
  cases k <;> simp only
  split <;> rfl

theorem startLoop_maxUse (p : Prog) (s : St) (arg d n : Nat) (k : LKind) : (startLoop p s arg d n k).maxUse = s.maxUse := by
  unfold startLoop
  cases k <;> simp only
  split <;> rfl

theorem handleOps_deq (f : Frame) (s : St) : DEq s (handleOps f s) := by
  unfold handleOps pushLoc popLoc
  cases f.kind <;> simp only
  · exact DEq.refl s
  · split <;> exact ⟨rfl, rfl, rfl, rfl, rfl, rfl, rfl, rfl, rfl⟩
  · split
    · split
      · split <;> exact ⟨rfl, rfl, rfl, rfl, rfl, rfl, rfl, rfl, rfl⟩
      · exact ⟨rfl, rfl, rfl, rfl, rfl, rfl, rfl, rfl, rfl⟩
    · exact DEq.refl s

/-! ### refusals are never taken back; without a refusal the limit plays no part -/

theorem expandMacro_refused_le (p : Prog) (s : St) (m a : Nat) : s.refused ≤ (expandMacro p s m a).refused := by
  unfold expandMacro; split
  · exact Nat.le_succ _
  · exact Nat.le_refl _

theorem exec_refused_le (p : Prog) (arg : Nat) (l : BLine) (s : St) : s.refused ≤ (exec p arg l s).refused := by
  cases l with
  | emit k => exact Nat.le_refl _
  | deflab l => exact Nat.le_refl _
  | reflab l => exact Nat.le_of_eq (useLabel_refused s l).symm
  | defArg => exact Nat.le_refl _
  | refArg => exact Nat.le_of_eq (useLabel_refused s _).symm
  | call m a => exact expandMacro_refused_le p s m a
  | callDec m =>
    show s.refused ≤ (if arg > 0 then expandMacro p s m (arg - 1) else s).refused
    split
    · exact expandMacro_refused_le p s m _
    · exact Nat.le_refl _
  | loop d n k => exact Nat.le_of_eq (startLoop_refused p s arg d n k).symm

theorem step_refused_le {p : Prog} {q : Quirks} {s s' : St} (h : step p q s = some s') : s.refused ≤ s'.refused := by
  cases hst : s.stack with
  | nil => unfold step at h; rw [hst] at h; cases h
  | cons f below =>
    cases he : f.isEmpty with
    | true =>
      rw [step_pop hst he] at h; cases h
      exact Nat.le_of_eq (restorer_deq q f { s with stack := below }).refused.symm
    | false =>
      cases hr : f.rest with
      | nil => rw [step_stall hst he hr] at h; cases h; exact Nat.le_refl _
      | cons l ls =>
        rw [step_deliver hst he hr] at h; cases h
        exact Nat.le_trans (Nat.le_of_eq (handleOps_deq f s).refused)
          (exec_refused_le p (nextFrame f ls).arg l { handleOps f s with stack := nextFrame f ls :: below })

theorem runPass_refused_le (p : Prog) (q : Quirks) (fuel : Nat) : ∀ s, s.refused ≤ (runPass p q fuel s).refused := by
  induction fuel with
  | zero => intro s; exact Nat.le_refl _
  | succ fuel ih =>
    intro s
    show s.refused ≤ (match step p q s with | none => s | some s' => runPass p q fuel s').refused
    cases hs : step p q s with
    | none => exact Nat.le_refl _
    | some s' => exact Nat.le_trans (step_refused_le hs) (ih s')

theorem expandMacro_unlimited (p : Prog) (s : St) (m a : Nat) (h : (expandMacro p s m a).refused = s.refused) :
    expandMacro (unlimited p) s m a = expandMacro p s m a := by
  unfold expandMacro at *
  by_cases hc : p.nestMax > 0 ∧ s.use m > p.nestMax
  · rw [if_pos hc] at h
    have : s.refused + 1 = s.refused := h
    omega
  · rw [if_neg hc, if_neg (by show ¬ ((0 : Nat) > 0 ∧ _); omega)]
    rfl

theorem exec_unlimited (p : Prog) (arg : Nat) (l : BLine) (s : St) (h : (exec p arg l s).refused = s.refused) :
    exec (unlimited p) arg l s = exec p arg l s := by
  cases l with
  | call m a => exact expandMacro_unlimited p s m a h
  | callDec m =>
    show (if arg > 0 then expandMacro (unlimited p) s m (arg - 1) else s) = (if arg > 0 then expandMacro p s m (arg - 1) else s)
    by_cases ha : arg > 0
    · rw [if_pos ha, if_pos ha]
      apply expandMacro_unlimited
      have : exec p arg (.callDec m) s = expandMacro p s m (arg - 1) := by
        show (if arg > 0 then _ else _) = _
        rw [if_pos ha]
      rw [← this]; exact h
    · rw [if_neg ha, if_neg ha]
  | _ => rfl

theorem step_unlimited {p : Prog} {q : Quirks} {s s' : St} (h : step p q s = some s') (hr : s'.refused = s.refused) :
    step (unlimited p) q s = some s' := by
  cases hst : s.stack with
  | nil => unfold step at h; rw [hst] at h; cases h
  | cons f below =>
    cases he : f.isEmpty with
    | true => rw [step_pop hst he] at h ⊢; exact h
    | false =>
      cases hrest : f.rest with
      | nil => rw [step_stall hst he hrest] at h ⊢; exact h
      | cons l ls =>
        rw [step_deliver hst he hrest] at h ⊢
        cases h
        rw [exec_unlimited p (nextFrame f ls).arg l { handleOps f s with stack := nextFrame f ls :: below }
          (hr.trans (handleOps_deq f s).refused)]

theorem step_none_iff {p : Prog} {q : Quirks} {s : St} : step p q s = none ↔ s.stack = [] := by
  constructor
  · intro h
    cases hst : s.stack with
    | nil => rfl
    | cons f below =>
      cases he : f.isEmpty with
      | true => rw [step_pop hst he] at h; cases h
      | false =>
        cases hrest : f.rest with
        | nil => rw [step_stall hst he hrest] at h; cases h
        | cons l ls => rw [step_deliver hst he hrest] at h; cases h
  · intro h; unfold step; rw [h]

theorem runPass_unlimited (p : Prog) (q : Quirks) (fuel : Nat) :
    ∀ s, (runPass p q fuel s).refused = s.refused → runPass (unlimited p) q fuel s = runPass p q fuel s := by
  induction fuel with
  | zero => intro s _; rfl
  | succ fuel ih =>
    intro s h
    show (match step (unlimited p) q s with | none => s | some s' => runPass (unlimited p) q fuel s') =
      (match step p q s with | none => s | some s' => runPass p q fuel s')
    cases hs : step p q s with
    | none =>
      have : step (unlimited p) q s = none := step_none_iff.2 (step_none_iff.1 hs)
      rw [this]
    | some s' =>
      have hfin : runPass p q (fuel + 1) s = runPass p q fuel s' := by
        show (match step p q s with | none => s | some s' => runPass p q fuel s') = _
        rw [hs]
      rw [hfin] at h
      have h1 := step_refused_le hs
      have h2 := runPass_refused_le p q fuel s'
      have hr : s'.refused = s.refused := by omega
      rw [step_unlimited hs hr]
      exact ih s' (by omega)


theorem runPasses_refused_le (p : Prog) (q : Quirks) (fuel more : Nat) :
    ∀ n s, s.refused ≤ (runPasses p q fuel more n s).refused := by
  induction more with
  | zero => intro n s; exact Nat.le_refl _
  | succ more ih =>
    intro n s
    rw [runPasses_succ]
    have h1 : s.refused ≤ (runPass p q fuel (startPass p s n)).refused := runPass_refused_le p q fuel (startPass p s n)
    split
    · exact Nat.le_trans h1 (ih _ _)
    · exact h1

theorem runPasses_unlimited (p : Prog) (q : Quirks) (fuel more : Nat) :
    ∀ n s, (runPasses p q fuel more n s).refused = s.refused →
      runPasses (unlimited p) q fuel more n s = runPasses p q fuel more n s := by
  induction more with
  | zero => intro n s _; rfl
  | succ more ih =>
    intro n s h
    rw [runPasses_succ] at h ⊢
    rw [runPasses_succ]
    have h1 : s.refused ≤ (runPass p q fuel (startPass p s n)).refused := runPass_refused_le p q fuel (startPass p s n)
    have e : runPass (unlimited p) q fuel (startPass (unlimited p) s n) = runPass p q fuel (startPass p s n) := by
      show runPass (unlimited p) q fuel (startPass p s n) = _
      apply runPass_unlimited
      show _ = s.refused
      split at h
      · have := runPasses_refused_le p q fuel more (n + 1) (runPass p q fuel (startPass p s n))
        omega
      · exact h
    rw [e]
    split
    · rename_i hc
      rw [if_pos hc] at h
      apply ih
      have := runPasses_refused_le p q fuel more (n + 1) (runPass p q fuel (startPass p s n))
      omega
    · rfl

/-! ### the largest counter value reached -/

def MU (p : Prog) (s : St) : Prop := 0 < p.nestMax → s.maxUse ≤ p.nestMax + 1

theorem expandMacro_mu (p : Prog) (s : St) (m a : Nat) (h : MU p s) : MU p (expandMacro p s m a) := by
  intro hN
  unfold expandMacro
  split
  · exact h hN
  · rename_i hc
    show max s.maxUse (s.use m + 1) ≤ p.nestMax + 1
    have := h hN
    have : s.use m ≤ p.nestMax := by
      rcases Nat.lt_or_ge p.nestMax (s.use m) with hlt | hge
      · exact absurd ⟨hN, hlt⟩ hc
      · exact hge
    omega

theorem exec_mu (p : Prog) (arg : Nat) (l : BLine) (s : St) (h : MU p s) : MU p (exec p arg l s) := by
  cases l with
  | emit k => exact h
  | deflab l => exact h
  | reflab l => intro hN; show (useLabel s l).maxUse ≤ _; rw [useLabel_maxUse]; exact h hN
  | defArg => exact h
  | refArg => intro hN; show (useLabel s _).maxUse ≤ _; rw [useLabel_maxUse]; exact h hN
  | call m a => exact expandMacro_mu p s m a h
  | callDec m =>
    show MU p (if arg > 0 then expandMacro p s m (arg - 1) else s)
    split
    · exact expandMacro_mu p s m _ h
    · exact h
  | loop d n k => intro hN; show (startLoop p s arg d n k).maxUse ≤ _; rw [startLoop_maxUse]; exact h hN

theorem step_mu {p : Prog} {q : Quirks} {s s' : St} (hs : step p q s = some s') (h : MU p s) : MU p s' := by
  cases hst : s.stack with
  | nil => unfold step at hs; rw [hst] at hs; cases hs
  | cons f below =>
    cases he : f.isEmpty with
    | true =>
      rw [step_pop hst he] at hs; cases hs
      intro hN
      rw [(restorer_deq q f { s with stack := below }).maxUse]
      exact h hN
    | false =>
      cases hr : f.rest with
      | nil => rw [step_stall hst he hr] at hs; cases hs; exact h
      | cons l ls =>
        rw [step_deliver hst he hr] at hs; cases hs
        apply exec_mu
        intro hN
        show (handleOps f s).maxUse ≤ _
        rw [← (handleOps_deq f s).maxUse]
        exact h hN

theorem runPass_mu (p : Prog) (q : Quirks) (fuel : Nat) : ∀ s, MU p s → MU p (runPass p q fuel s) := by
  induction fuel with
  | zero => intro s h; exact h
  | succ fuel ih =>
    intro s h
    show MU p (match step p q s with | none => s | some s' => runPass p q fuel s')
    cases hs : step p q s with
    | none => exact h
    | some s' => exact ih s' (step_mu hs h)

theorem runPasses_mu (p : Prog) (q : Quirks) (fuel more : Nat) : ∀ n s, MU p s → MU p (runPasses p q fuel more n s) := by
  induction more with
  | zero => intro n s h; exact h
  | succ more ih =>
    intro n s h
    rw [runPasses_succ]
    have h1 : MU p (runPass p q fuel (startPass p s n)) := runPass_mu p q fuel _ h
    split
    · exact ih _ _ h1
    · exact h1

/-- A program whose expansion ends but opens more than NESTMAX+1 expansions of one macro at a time: the machine refuses
    at least one call. -/
theorem refuses {p : Prog} {q : Quirks} (hq : q.emptyPops = false) (F : Nat) (hok : (NestSpec.run p F).ok = true)
    (hN : 0 < p.nestMax) (hbig : p.nestMax + 1 < (NestSpec.run p F).maxOpen) (fuel : Nat) (hfuel : cost p F ≤ fuel) :
    0 < (run p q fuel).refused := by
  rcases Nat.eq_zero_or_pos (run p q fuel).refused with h0 | hpos
  · have e : run (unlimited p) q fuel = run p q fuel := runPasses_unlimited p q fuel 4 1 {} h0
    have hmu : MU p (run p q fuel) := runPasses_mu p q fuel 4 1 {} (fun _ => Nat.zero_le _)
    have hout := run_sim_passes (p := unlimited p) hq F ⟨by rw [run_unlimited]; exact hok, Or.inl rfl⟩ fuel
      (by rw [cost_unlimited]; exact hfuel)
    have := hout.maxUse
    rw [e, run_unlimited] at this
    have := hmu hN
    omega
  · exact hpos

end AslModel.NestModel
