import AslModel.Lemmas.Data
/-! Helper lemmas for `Props/C09.lean`: the whole argument tree of `DecodeIntelDx` (integers, strings, `?`, nested
`n DUP (...)`) against `specArgs` — the layout functions act on the state of the statement exactly as "append what
the specification says this argument lays down". -/
namespace AslModel.DataLemmas
open AslModel.PFile AslModel.Data AslModel.DataModel

/-- what `Out` does to the state of the argument loop (`none` = the statement is in error) -/
def applyOut (st : ISt) : Out → Option ISt
  | .empty => some st
  | .data bs => if st.ds = .space then none else some ⟨st.buf ++ bs, st.fill + bs.length, .const⟩
  | .space k => if st.ds = .const then none else some ⟨st.buf, st.fill + k, .space⟩

def toLR : Option ISt → LR
  | some s => .ok s
  | none => .err

/-- as long as nothing was reserved, `fill` is the length of the buffer -/
def IInv (st : ISt) : Prop := st.ds ≠ .space → st.fill = st.buf.length

theorem applyOut_inv (st st' : ISt) (o : Out) (hi : IInv st) (h : applyOut st o = some st') : IInv st' := by
  cases o with
  | empty => simp only [applyOut, Option.some.injEq] at h; subst h; exact hi
  | data bs =>
    simp only [applyOut] at h
    split at h
    · cases h
    · rename_i hs
      simp only [Option.some.injEq] at h
      subst h
      intro _
      simp only [List.length_append]
      rw [hi hs]
  | space k =>
    simp only [applyOut] at h
    split at h
    · cases h
    · simp only [Option.some.injEq] at h
      subst h
      intro hc
      exact absurd rfl hc

/-- laying `x` and then `y` is laying their sum -/
theorem applyOut_add (st : ISt) (x y : Out) :
    (Out.add x y).bind (applyOut st) = (applyOut st x).bind fun s => applyOut s y := by
  obtain ⟨buf, fill, ds⟩ := st
  cases x <;> cases y <;> cases ds <;>
    simp [Out.add, applyOut, List.append_assoc, Nat.add_assoc]

/-! ## the arguments the theorem is stated for -/

/-! ## leaves -/

theorem setDS_const (st : ISt) : setDS st .const = if st.ds = .space then none else some { st with ds := .const } := by
  obtain ⟨buf, fill, ds⟩ := st
  cases ds <;> simp [setDS]

theorem setDS_space (st : ISt) : setDS st .space = if st.ds = .const then none else some { st with ds := .space } := by
  obtain ⟨buf, fill, ds⟩ := st
  cases ds <;> simp [setDS]

theorem leaf_q (c : MCfg) (e : Elem) (st : ISt) :
    layoutMult c e .q st = toLR (applyOut st (.space e.bytes)) := by
  rw [layoutMult, setDS_space]
  simp only [applyOut]
  split <;> rfl

theorem leaf_int (c : MCfg) (n : Nat) (hn : n = 1 ∨ n = 2 ∨ n = 4 ∨ n = 8) (fk : Option FKind) (st : ISt) (v : Int)
    (hv : -(2 : Int) ^ 63 ≤ v ∧ v < (2 : Int) ^ 64 ∧ (n ≠ 8 → v < (2 : Int) ^ 63)) :
    layoutMult c ⟨n, true, fk⟩ (.int v) st = toLR ((specArg ⟨n, true, fk⟩ c.ibig (.int v)).bind (applyOut st)) := by
  have h8 : 8 * n / 8 = n := by omega
  unfold layoutMult
  rw [setDS_const]
  simp only [specArg, specInt, encInt, if_true, h8]
  by_cases hs : st.ds = .space
  · simp only [hs, if_true]
    cases inRange (8 * n) v <;> simp [applyOut, hs, toLR]
  · simp only [hs, if_false, layoutLeaf, rangeCheck_spec n hn v hv, if_true]
    cases hr : inRange (8 * n) v
    · simp [LR.ofOption, toLR]
    · simp [LR.ofOption, toLR, applyOut, hs, iPut, putMapped_spec n hn, int_bytes n hn]

theorem twos_small (w : Nat) (hw : 8 ≤ w) (x : Nat) (hx : x < 256) : inRange w (x : Int) = true ∧ twos w (x : Int) = x := by
  have hN : 2 ^ 8 ≤ 2 ^ w := Nat.pow_le_pow_right (by decide) hw
  have hp : (256 : Int) ≤ (2 : Int) ^ w := by
    have h := Int.ofNat_le.mpr hN
    rw [Int.natCast_pow, Int.natCast_pow] at h
    simpa using h
  have hpos : (0 : Int) < (2 : Int) ^ (w - 1) := Int.pow_pos (by decide)
  constructor
  · simp only [inRange, decide_eq_true_eq]
    omega
  · unfold twos
    rw [Int.emod_eq_of_lt (by omega) (by omega)]
    simp

/-- the characters of a string, one element each -/
def charBytes (n : Nat) (big : Bool) (cs : List Byte) : List Byte := (cs.map fun ch => encNat n big ch.toNat).flatten

theorem specChars_eq (n : Nat) (hn : n = 1 ∨ n = 2 ∨ n = 4 ∨ n = 8) (fk : Option FKind) (big : Bool) (cs : List Byte) :
    specChars ⟨n, true, fk⟩ big cs = some (charBytes n big cs) := by
  have h8 : 8 * n / 8 = n := by omega
  induction cs with
  | nil => rfl
  | cons ch cs ih =>
    have ht := twos_small (8 * n) (by omega) ch.toNat (UInt8.toNat_lt ch)
    simp only [specChars, specInt, encInt, if_true, ih, ht.1, ht.2, h8, charBytes, List.map_cons, List.flatten_cons]
    rfl

theorem fold_iPut (f : Byte → List Byte) (cs : List Byte) (s : ISt) :
    cs.foldl (fun st ch => iPut st (f ch)) s =
      ⟨s.buf ++ (cs.map f).flatten, s.fill + ((cs.map f).flatten).length, s.ds⟩ := by
  induction cs generalizing s with
  | nil => simp
  | cons ch cs ih =>
    rw [List.foldl_cons, ih]
    simp only [iPut, List.map_cons, List.flatten_cons, List.append_assoc, List.length_append, Nat.add_assoc]

theorem leaf_str (c : MCfg) (n : Nat) (hn : n = 1 ∨ n = 2 ∨ n = 4 ∨ n = 8) (fk : Option FKind) (st : ISt) (cs : List Byte) :
    layoutMult c ⟨n, true, fk⟩ (.str cs) st = toLR ((specArg ⟨n, true, fk⟩ c.ibig (.str cs)).bind (applyOut st)) := by
  have hm : (fun ch : Byte => putMapped n (if c.ibig then n - 1 else 0) ch.toNat) = fun ch => encNat n c.ibig ch.toNat :=
    funext fun ch => putMapped_spec n hn c.ibig ch.toNat
  unfold layoutMult
  rw [setDS_const]
  simp only [specArg, specChars_eq n hn fk c.ibig cs, Option.map_some, Option.bind_some]
  by_cases hs : st.ds = .space
  · simp [hs, applyOut, toLR]
  · simp only [hs, if_false, layoutLeaf, if_true, fold_iPut, LR.ofOption, applyOut, toLR, charBytes, hm]

/-! ## DUP -/

theorem iterate_id {α : Type} (f : α → α) (hf : ∀ a, f a = a) (k : Nat) (a : α) : iterate f k a = a := by
  induction k generalizing a with
  | zero => rfl
  | succ k ih => simp only [iterate, hf, ih]

theorem flatten_replicate_length (k : Nat) (bs : List Byte) : ((List.replicate k bs).flatten).length = k * bs.length := by
  induction k with
  | zero => simp
  | succ k ih => rw [List.replicate_succ, List.flatten_cons, List.length_append, ih]; rw [Nat.succ_mul]; omega

/-- the DUP step, given what the body did to the state -/
theorem dup_step (c : MCfg) (e : Elem) (n : Int) (hn : ¬ n ≤ 0) (as : Args) (st : ISt) (hi : IInv st) (o : Option Out)
    (hbody : layoutMultL c e as st = toLR (o.bind (applyOut st))) :
    layoutMult c e (.dup n as) st = toLR ((o.map (Out.times n)).bind (applyOut st)) := by
  rw [layoutMult]
  simp only [hn, if_false, hbody]
  obtain ⟨k, hk⟩ : ∃ k, n.toNat = k + 1 := ⟨n.toNat - 1, by omega⟩
  cases o with
  | none => rfl
  | some o =>
    simp only [Option.bind_some, Option.map_some]
    obtain ⟨buf, fill, ds⟩ := st
    cases o with
    | empty =>
      simp only [applyOut, toLR, Out.times]
      cases ds with
      | none => rfl
      | space => simp
      | const =>
        simp only
        rw [iterate_id]
        intro a
        simp [replicate8, iPut]
    | data bs =>
      by_cases hs : ds = .space
      · subst hs; simp [applyOut, toLR, Out.times]
      · have hf : fill = buf.length := hi hs
        subst hf
        simp only [applyOut, hs, if_false, toLR, Out.times]
        have := replicate8_iterate buf bs .const k
        rw [hk, Nat.add_sub_cancel, this, flatten_replicate_length]
    | space d =>
      by_cases hs : ds = .const
      · subst hs; simp [applyOut, toLR, Out.times]
      · simp only [applyOut, hs, if_false, toLR, Out.times, hk, Nat.add_sub_cancel]
        congr 2
        rw [Nat.add_sub_cancel_left, Nat.succ_mul]
        rw [Nat.mul_comm d k]
        omega

/-! ## the tree -/

mutual
theorem tree_arg (c : MCfg) (n : Nat) (hn : n = 1 ∨ n = 2 ∨ n = 4 ∨ n = 8) (fk : Option FKind) :
    (a : Arg) → (st : ISt) → intelOK n a = true → IInv st →
      layoutMult c ⟨n, true, fk⟩ a st = toLR ((specArg ⟨n, true, fk⟩ c.ibig a).bind (applyOut st))
  | .int v, st, hok, _ => by
    simp only [intelOK, decide_eq_true_eq] at hok
    exact leaf_int c n hn fk st v hok
  | .str cs, st, _, _ => leaf_str c n hn fk st cs
  | .q, st, _, _ => by
    rw [leaf_q]
    simp only [specArg, Option.bind_some]
  | .flt _, _, hok, _ => by simp [intelOK] at hok
  | .rep _ _, _, hok, _ => by simp [intelOK] at hok
  | .dup k as, st, hok, hi => by
    simp only [intelOK] at hok
    by_cases hk : k ≤ 0
    · rw [layoutMult]
      simp only [hk, if_true, specArg, Option.bind_some, applyOut, toLR]
    · have hb := tree_args c n hn fk as st hok hi
      have := dup_step c ⟨n, true, fk⟩ k hk as st hi _ hb
      rw [this]
      simp only [specArg, hk, if_false]
theorem tree_args (c : MCfg) (n : Nat) (hn : n = 1 ∨ n = 2 ∨ n = 4 ∨ n = 8) (fk : Option FKind) :
    (as : Args) → (st : ISt) → intelOKs n as = true → IInv st →
      layoutMultL c ⟨n, true, fk⟩ as st = toLR ((specArgs ⟨n, true, fk⟩ c.ibig as).bind (applyOut st))
  | .nil, st, _, _ => by
    rw [layoutMultL]
    simp only [specArgs, Option.bind_some, applyOut, toLR]
  | .cons a as, st, hok, hi => by
    simp only [intelOKs, Bool.and_eq_true] at hok
    have ha := tree_arg c n hn fk a st hok.1 hi
    rw [layoutMultL, ha]
    simp only [specArgs]
    cases hx : specArg ⟨n, true, fk⟩ c.ibig a with
    | none => simp [toLR]
    | some x =>
      simp only [Option.bind_some]
      cases hs : applyOut st x with
      | none =>
        simp only [toLR]
        cases hy : specArgs ⟨n, true, fk⟩ c.ibig as with
        | none => rfl
        | some y =>
          have := applyOut_add st x y
          rw [hs] at this
          simp only [Option.bind_none] at this
          simp only [this, toLR]
      | some s =>
        simp only [toLR]
        have hi' := applyOut_inv st s x hi hs
        rw [tree_args c n hn fk as s hok.2 hi']
        cases hy : specArgs ⟨n, true, fk⟩ c.ibig as with
        | none => rfl
        | some y =>
          have := applyOut_add st x y
          rw [hs] at this
          simp only [Option.bind_some] at this ⊢
          rw [this]
          cases applyOut s y <;> rfl
end

/-- what the statement reports: nothing laid at all = `empty` -/
def Out.norm : Out → Out
  | .data [] => .empty
  | .space 0 => .empty
  | o => o

theorem mkOut_apply (o : Out) (st : ISt) (h : applyOut {} o = some st) :
    mkOut (st.ds == .space) st.fill st.buf = Out.norm o := by
  cases o with
  | empty => simp only [applyOut, Option.some.injEq] at h; subst h; rfl
  | data bs =>
    simp only [applyOut] at h
    simp only [show (({} : ISt).ds = DS.space) = False from by simp, if_false, Option.some.injEq] at h
    subst h
    cases bs with
    | nil => rfl
    | cons x xs => simp [mkOut, Out.norm]
  | space k =>
    simp only [applyOut] at h
    simp only [show (({} : ISt).ds = DS.const) = False from by simp, if_false, Option.some.injEq] at h
    subst h
    cases k with
    | zero => rfl
    | succ k => simp [mkOut, Out.norm]

/-- **the whole statement** -/
theorem intel_tree (c : MCfg) (n : Nat) (hn : n = 1 ∨ n = 2 ∨ n = 4 ∨ n = 8) (fk : Option FKind) (as : Args)
    (hok : intelOKs n as = true) :
    decodeIntelDx c ⟨n, true, fk⟩ as = (specArgs ⟨n, true, fk⟩ c.ibig as).map fun o => ⟨none, Out.norm o, []⟩ := by
  unfold decodeIntelDx
  rw [tree_args c n hn fk as {} hok (by intro _; rfl)]
  cases hs : specArgs ⟨n, true, fk⟩ c.ibig as with
  | none => rfl
  | some o =>
    simp only [Option.bind_some, Option.map_some]
    cases ha : applyOut {} o with
    | none =>
      exfalso
      cases o <;> simp [applyOut] at ha
    | some st =>
      simp only [toLR, mkOut_apply o st ha]

end AslModel.DataLemmas
