import AslModel.Lemmas.TagsSim
/-! Lemmas for C11 (processor layer), part 2: what a freshly created tag delivers (`rem` in closed form):
REPT n: the body n times; IRP/IRPN: the body once per group of `ParIter` parameters (the groups of the SPEC's
`groupsOf` - the ragged tail was padded by `ExpandIRPN`); IRPC: once per character; macro call: the stored body
through `deliverLine`. -/
namespace AslModel.Tags
open AslModel.MacroSpec AslModel.Macro

theorem mapArg_id (a : CallArg) : mapArg (fun l => l) a = a := by
  cases a with
  | mk k v => cases k <;> rfl

theorem SLine.map_id (l : SLine) : l.map (fun x => x) = l := by
  cases l <;> simp [SLine.map]
  case call id as =>
    induction as with
    | nil => rfl
    | cons a as ih => simp [mapArg_id, ih]

theorem map_SLine_id (ls : List SLine) : ls.map (SLine.map (fun x => x)) = ls := by
  induction ls with
  | nil => rfl
  | cons a as ih => simp [SLine.map_id, ih]

/-! ### REPT -/

theorem remIter_const (ls : List SLine) (n : Nat) : ∀ (k z : Nat), n + 1 - z = k → 1 ≤ z →
    remIter (fun _ => ls) 0 n z = (List.replicate k ls).flatten
  | 0, z, h, _ => by
    rw [remIter_done _ _ _ _ (by omega)]; rfl
  | k + 1, z, h, hz => by
    rw [remIter_step _ _ _ _ (by omega), remIter_const ls n k (z + 0 + 1) (by omega) (by omega)]
    simp [List.replicate_succ]

theorem flatMap_const_range (ls : List SLine) (n : Nat) :
    (List.range n).flatMap (fun _ => ls) = (List.replicate n ls).flatten := by
  rw [List.flatMap_def]
  congr 1
  apply List.ext_getElem
  · simp
  · intro i h1 h2; simp

theorem rem_mkRept (n : Nat) (ls : List SLine) (hn : 1 ≤ n) :
    rem (mkRept n ls) = (List.range n).flatMap (fun _ => ls) := by
  rw [flatMap_const_range]
  cases hl : ls with
  | nil =>
    rw [rem_empty _ (by simp [mkRept, blankTag])]
    induction n with
    | zero => rfl
    | succ n ih => simp [List.replicate_succ]
  | cons a b =>
    rw [← hl]
    have hE : (mkRept n ls).isEmpty = false := by simp [mkRept, blankTag, hl]
    rw [rem_iter _ rfl hE]
    have e1 : cur (mkRept n ls) = ls := rfl
    have e2 : iterBlock (mkRept n ls) = fun _ => ls := by
      funext z; simp only [iterBlock, iterFn, mkRept, blankTag]; exact map_SLine_id ls
    have e3 : iterFn (mkRept n ls) (mkRept n ls).parZ = fun l => l := rfl
    rw [e1, e2, e3, map_SLine_id]
    show ls ++ remIter (fun _ => ls) 0 (n : Int) 2 = _
    rw [remIter_const ls n (n - 1) 2 (by omega) (by omega)]
    have : n = (n - 1) + 1 := by omega
    conv => rhs; rw [this, List.replicate_succ]
    simp

/-! ### IRP / IRPN -/

theorem groupsOf_nil (k fuel : Nat) : groupsOf k fuel [] = [] := by
  cases fuel <;> simp [groupsOf]

/-- a full group needs no padding -/
theorem groupsOf_step (k fuel : Nat) (l : List Line) (hl : k ≤ l.length) (hk : 1 ≤ k) :
    groupsOf k (fuel + 1) l = l.take k :: groupsOf k fuel (l.drop k) := by
  have hne : l.isEmpty = false := by
    cases l with
    | nil => simp at hl; omega
    | cons _ _ => rfl
  simp only [groupsOf, hne, Bool.false_eq_true, if_false]
  have : (l.take k).length = k := by simp [hl]
  simp [this]

def irpBlock (ls : List SLine) (g : List Line) : List SLine := ls.map (SLine.map (expandAll 1 g))

theorem remIter_irp (ls : List SLine) (params : List Line) (k : Nat) (hk : 1 ≤ k) (t : Tag)
    (ht : iterBlock t = fun z => ls.map (SLine.map (irpExpand params k z))) :
    ∀ (fuel z : Nat), 1 ≤ z → (params.length + 1 - z) % k = 0 → params.length + 1 - z ≤ fuel →
    remIter (iterBlock t) (k - 1) params.length z = (groupsOf k fuel (params.drop (z - 1))).flatMap (irpBlock ls)
  | 0, z, hz, _, hf => by
    rw [remIter_done _ _ _ _ (by omega)]
    simp [groupsOf]
  | fuel + 1, z, hz, hm, hf => by
    by_cases hgt : (z : Int) > params.length
    · rw [remIter_done _ _ _ _ hgt]
      have : params.drop (z - 1) = [] := by
        apply List.drop_eq_nil_of_le; omega
      rw [this, groupsOf_nil]; rfl
    · have hlen : (params.drop (z - 1)).length = params.length + 1 - z := by simp; omega
      have hpos : 0 < params.length + 1 - z := by omega
      have hkle : k ≤ params.length + 1 - z := Nat.le_of_dvd hpos (Nat.dvd_of_mod_eq_zero hm)
      rw [remIter_step _ _ _ _ hgt, groupsOf_step k fuel _ (by rw [hlen]; exact hkle) hk]
      have e : z + (k - 1) + 1 = z + k := by omega
      rw [e, remIter_irp ls params k hk t ht fuel (z + k) (by omega)
        (by
          have : params.length + 1 - z = (params.length + 1 - (z + k)) + k := by omega
          rw [this] at hm
          simpa using hm)
        (by omega)]
      have e2 : (params.drop (z - 1)).drop k = params.drop (z + k - 1) := by
        rw [List.drop_drop]; congr 1; omega
      rw [e2, List.flatMap_cons]
      congr 1
      rw [ht]
      rfl

theorem rem_mkIrp (pi : Nat) (params : List Line) (ls : List SLine) (k : Nat)
    (hk : k = if pi = 0 then 1 else pi) (hm : params.length % k = 0) (hp : 1 ≤ params.length) :
    rem (mkIrp pi params ls) = (groupsOf k params.length params).flatMap (irpBlock ls) := by
  have hk1 : 1 ≤ k := by rw [hk]; split <;> omega
  cases hl : ls with
  | nil =>
    rw [rem_empty _ (by simp [mkIrp, blankTag])]
    generalize groupsOf k params.length params = gs
    induction gs with
    | nil => rfl
    | cons g gs ih => simp [List.flatMap_cons, irpBlock, ← ih]
  | cons a b =>
    rw [← hl]
    have hE : (mkIrp pi params ls).isEmpty = false := by simp [mkIrp, blankTag, hl]
    have hinc : incOf (mkIrp pi params ls) = k := by rw [hk]; rfl
    have hb : iterBlock (mkIrp pi params ls) = fun z => ls.map (SLine.map (irpExpand params k z)) := by
      funext z
      rw [hk]; rfl
    have h1 : rem (mkIrp pi params ls) = remIter (iterBlock (mkIrp pi params ls)) (k - 1) params.length 1 := by
      rw [rem_iter _ rfl hE, remIter_step _ _ _ 1 (by omega), hinc]
      have e : 1 + (k - 1) + 1 = 1 + k := by omega
      rw [e]
      rfl
    rw [h1, remIter_irp ls params k hk1 _ hb params.length 1 (by omega) (by simpa using hm) (by omega)]
    rfl

/-- fuel beyond the length of the list does not matter -/
theorem groupsOf_fuel (k : Nat) (hk : 1 ≤ k) : ∀ (f f' : Nat) (l : List Line), l.length ≤ f → l.length ≤ f' →
    groupsOf k f l = groupsOf k f' l
  | 0, f', l, h, _ => by
    have : l = [] := List.length_eq_zero_iff.mp (by omega)
    rw [this, groupsOf_nil, groupsOf_nil]
  | f + 1, 0, l, _, h => by
    have : l = [] := List.length_eq_zero_iff.mp (by omega)
    rw [this, groupsOf_nil, groupsOf_nil]
  | f + 1, f' + 1, l, h, h' => by
    simp only [groupsOf]
    cases hl : l.isEmpty with
    | true => rfl
    | false =>
      simp only [Bool.false_eq_true, if_false]
      congr 1
      have hpos : 0 < l.length := by
        cases l with
        | nil => simp at hl
        | cons _ _ => simp
      exact groupsOf_fuel k hk f f' (l.drop k) (by simp; omega) (by simp; omega)

/-- IRP: one parameter per iteration -/
theorem groupsOf_one : ∀ (fuel : Nat) (l : List Line), l.length ≤ fuel → groupsOf 1 fuel l = l.map (fun a => [a])
  | _, [], _ => by rw [groupsOf_nil]; rfl
  | 0, a :: l, h => by simp at h
  | fuel + 1, a :: l, h => by
    rw [groupsOf_step 1 fuel (a :: l) (by simp) (by omega)]
    simp only [List.take_succ_cons, List.take_zero, List.drop_succ_cons, List.drop_zero, List.map_cons]
    rw [groupsOf_one fuel l (by simpa using h)]

/-- IRPN: padding the whole argument list with `Remainder` empty arguments is padding the last group -/
theorem groupsOf_padded (k : Nat) (hk : 1 ≤ k) : ∀ (fuel : Nat) (args : List Line), args.length ≤ fuel →
    groupsOf k (fuel + k) (args ++ List.replicate ((k - args.length % k) % k) []) = groupsOf k fuel args
  | 0, args, h => by
    have : args = [] := List.length_eq_zero_iff.mp (by omega)
    subst this
    simp [groupsOf_nil]
  | fuel + 1, args, h => by
    by_cases he : args = []
    · subst he; simp [groupsOf_nil]
    have hpos : 0 < args.length := List.length_pos_iff.mpr he
    have hne : args.isEmpty = false := by
      cases args with
      | nil => exact absurd rfl he
      | cons _ _ => rfl
    have e : fuel + 1 + k = (fuel + k) + 1 := by omega
    by_cases hlt : args.length < k
    · -- the ragged tail
      have hr : (k - args.length % k) % k = k - args.length := by
        rw [Nat.mod_eq_of_lt hlt, Nat.mod_eq_of_lt (by omega)]
      rw [hr]
      have hlen : (args ++ List.replicate (k - args.length) ([] : Line)).length = k := by simp; omega
      rw [e, groupsOf_step k (fuel + k) _ (by omega) hk]
      have t1 : (args ++ List.replicate (k - args.length) ([] : Line)).take k
          = args ++ List.replicate (k - args.length) [] := List.take_of_length_le (by omega)
      have t2 : (args ++ List.replicate (k - args.length) ([] : Line)).drop k = [] :=
        List.drop_eq_nil_of_le (by omega)
      rw [t1, t2, groupsOf_nil]
      simp only [groupsOf, hne, Bool.false_eq_true, if_false]
      have t3 : args.take k = args := List.take_of_length_le (by omega)
      have t4 : args.drop k = [] := List.drop_eq_nil_of_le (by omega)
      rw [t3, t4, groupsOf_nil]
    · have hge : k ≤ args.length := by omega
      have hlen : (args ++ List.replicate ((k - args.length % k) % k) ([] : Line)).length
          = args.length + (k - args.length % k) % k := by simp
      rw [e, groupsOf_step k (fuel + k) _ (by omega) hk, groupsOf_step k fuel _ hge hk]
      have t1 : (args ++ List.replicate ((k - args.length % k) % k) ([] : Line)).take k = args.take k := by
        rw [List.take_append_of_le_length hge]
      have t2 : (args ++ List.replicate ((k - args.length % k) % k) ([] : Line)).drop k
          = args.drop k ++ List.replicate ((k - args.length % k) % k) [] := by
        rw [List.drop_append_of_le_length hge]
      rw [t1, t2]
      congr 1
      have hdl : (args.drop k).length = args.length - k := by simp
      have hm : args.length % k = (args.drop k).length % k := by
        have : args.length = (args.length - k) + k := by omega
        rw [hdl]
        conv => lhs; rw [this]
        simp
      rw [hm]
      exact groupsOf_padded k hk fuel (args.drop k) (by omega)

/-! ### IRPC -/

def irpcBlock (ls : List SLine) (c : Ch) : List SLine := ls.map (SLine.map (expandLine 1 (charArg c)))

theorem remIter_irpc (ls : List SLine) (chars : Line) (t : Tag)
    (ht : iterBlock t = fun z => ls.map (SLine.map (irpcExpand chars z))) :
    ∀ (k z : Nat), 1 ≤ z → chars.length + 1 - z = k →
    remIter (iterBlock t) 0 chars.length z = (chars.drop (z - 1)).flatMap (irpcBlock ls)
  | 0, z, hz, hk => by
    rw [remIter_done _ _ _ _ (by omega)]
    have : chars.drop (z - 1) = [] := List.drop_eq_nil_of_le (by omega)
    rw [this]; rfl
  | k + 1, z, hz, hk => by
    obtain ⟨c, r, hd⟩ := drop_nonempty chars (z - 1) (by omega)
    have hr := drop_tail chars (z - 1) c r hd
    have e : z - 1 + 1 = z := by omega
    rw [e] at hr
    rw [remIter_step _ _ _ _ (by omega), remIter_irpc ls chars t ht k (z + 0 + 1) (by omega) (by omega)]
    have e2 : z + 0 + 1 - 1 = z := by omega
    rw [e2, hr, hd, List.flatMap_cons, ht]
    congr 1
    have hg : chars.getD (z - 1) 0 = c := by
      have : chars[z - 1]? = some c := by
        rw [← List.head?_drop, hd]; rfl
      simp [List.getD, this]
    have hf : irpcExpand chars z = expandLine 1 (charArg c) := by
      funext l; simp only [irpcExpand, hg]
    show List.map (SLine.map (irpcExpand chars z)) ls = irpcBlock ls c
    rw [hf]; rfl

theorem rem_mkIrpc (chars : Line) (ls : List SLine) (hc : chars ≠ []) :
    rem (mkIrpc chars ls) = chars.flatMap (irpcBlock ls) := by
  cases hl : ls with
  | nil =>
    rw [rem_empty _ (by simp [mkIrpc, blankTag])]
    generalize chars = gs
    induction gs with
    | nil => rfl
    | cons g gs ih => simp [List.flatMap_cons, irpcBlock, ← ih]
  | cons a b =>
    rw [← hl]
    have hE : (mkIrpc chars ls).isEmpty = false := by simp [mkIrpc, blankTag, hl]
    have hb : iterBlock (mkIrpc chars ls) = fun z => ls.map (SLine.map (irpcExpand chars z)) := by
      funext z
      simp [iterBlock, iterFn, mkIrpc, blankTag]
    have hpos : 1 ≤ chars.length := by
      cases chars with
      | nil => exact absurd rfl hc
      | cons _ _ => simp
    have h1 : rem (mkIrpc chars ls) = remIter (iterBlock (mkIrpc chars ls)) 0 chars.length 1 := by
      rw [rem_iter _ rfl hE, remIter_step _ _ _ 1 (by omega)]
      rfl
    rw [h1, remIter_irpc ls chars _ hb chars.length 1 (by omega) (by omega)]
    rfl

/-- KNOWN FINDING irpc-empty-string-iterates-once at the level of `rem`: with an empty string the body is still
    delivered once (nothing inserted for the character) -/
theorem rem_mkIrpc_empty (ls : List SLine) (hl : ls ≠ []) :
    rem (mkIrpc [] ls) = ls.map (SLine.map (expandLine 1 [])) := by
  have hE : (mkIrpc [] ls).isEmpty = false := by
    cases ls with
    | nil => exact absurd rfl hl
    | cons _ _ => rfl
  rw [rem_iter _ rfl hE, remIter_done _ _ _ _ (by simp [mkIrpc, blankTag, incOf])]
  simp only [List.append_nil]
  rfl

/-! ### macro call -/

theorem padTake_le (n : Nat) (l : List Line) (h : n ≤ l.length) : padTake n l = l.take n := by
  have : n - l.length = 0 := by omega
  simp [padTake, this]

theorem rem_expandMacro (q : Quirks) (cs : Bool) (m : MacroRec) (as : List CallArg) :
    rem (expandMacro q cs m as) =
      m.lines.map (SLine.map (deliverLine (padTake m.params.length (boundParams cs m as))
        (natDigits (if q.argCountWritten then as.length else (boundParams cs m as).length))
        (joinComma (as.map rawArg)))) := by
  cases hl : m.lines with
  | nil => rw [rem_empty _ (by simp [expandMacro, blankTag, hl])]; rfl
  | cons a b =>
    have hE : (expandMacro q cs m as).isEmpty = false := by simp [expandMacro, blankTag, hl]
    have htok : tokArgs (expandMacro q cs m as) = padTake m.params.length (boundParams cs m as) := by
      simp only [tokArgs, expandMacro, blankTag]
      cases q.shiftLeavesToken <;> simp
    simp only [rem, hE, Bool.false_eq_true, if_false]
    simp only [macroFn, htok]
    simp [expandMacro, blankTag, hl]

end AslModel.Tags
