import AslModel.Lemmas.AddrRes
/-!
# Helper lemmas for `Props/C10_Res.lean`: refused mixtures of placeholders and constants

`DecodeIntelPseudo_LayoutMult` keeps one flag (`DSFlag`: nothing yet / constants / reservation) for the whole statement;
`SetDSFlag` refuses the first argument of the other kind.  `mix_arg` / `mix_args`: whatever the shape of the argument tree
(`?`, integers, `n DUP (…)` with `n ≥ 0`, nested to any depth; the body of a `0 DUP` is not looked at and does not count), the walk either ends with an error message or leaves the flag
at the kind of the arguments it has seen - so a tree that holds both kinds cannot be accepted.
-/
namespace AslModel.AddrResLemmas
open AslModel.PFile (Byte b)
open AslModel.Data AslModel.DataModel AslModel.DataX AslModel.DataXModel AslModel.DataXLemmas
open AslModel.AddrRes AslModel.AddrResModel

/-! ## the flag survives everything that lays or replicates -/

theorem incCurrCodeFill_ds (cx : XCtx) (st : XSt) : (incCurrCodeFill cx st).ds = st.ds := by
  unfold incCurrCodeFill
  simp only
  split <;> rfl

theorem putPacked_ds (cx : XCtx) (eb v : Nat) (st : XSt) : (putPacked cx eb v st).ds = st.ds := by
  unfold putPacked
  simp only
  split <;> simp [incCurrCodeFill_ds]

theorem putCells_ds (st : XSt) (cells : List Nat) : (putCells st cells).ds = st.ds := rfl

theorem putInt_ds (cx : XCtx) (u : Nat) (st : XSt) : (putInt cx u st).ds = st.ds := by
  unfold putInt
  split
  · rfl
  · split
    · exact putPacked_ds cx 8 u st
    · rfl

theorem putFloatBytes_ds (cx : XCtx) (bs : List Byte) (st : XSt) : (putFloatBytes cx bs st).ds = st.ds := by
  unfold putFloatBytes
  split <;> rfl

theorem replLoop_ds (cx : XCtx) (eb : Nat) : ∀ (f : Nat) (cur stop : Nat × Nat) (st : XSt), (replLoop cx eb f cur stop st).ds = st.ds
  | 0, _, _, _ => rfl
  | f + 1, cur, stop, st => by
    unfold replLoop
    split
    · rfl
    · simp only
      rw [replLoop_ds cx eb f _ stop _, putPacked_ds]

theorem replicateX_ds (cx : XCtx) (start stop : Nat × Nat) (st : XSt) : (replicateX cx start stop st).ds = st.ds := by
  unfold replicateX
  split
  · exact replLoop_ds cx cx.bits _ start stop st
  · rfl

theorem iterate_ds (f : XSt → XSt) (hf : ∀ s, (f s).ds = s.ds) : ∀ (n : Nat) (st : XSt), (iterate f n st).ds = st.ds
  | 0, _ => rfl
  | n + 1, st => by
    unfold iterate
    rw [iterate_ds f hf n (f st), hf]

theorem withFill_ds (st : XSt) (f : Fill) : (st.withFill f).ds = st.ds := rfl

/-! ## one argument, any tree -/

/-- what a walk may end with: an error message, or the flag at the kind of what was seen -/
def MixOk (q cst : Bool) (st : XSt) : XLR → Prop
  | .err => True
  | .ok st' =>
    (q = true → cst = false ∧ st.ds ≠ .const ∧ st'.ds = .space) ∧
    (cst = true → q = false ∧ st.ds ≠ .space ∧ st'.ds = .const) ∧
    (q = false → cst = false → st'.ds = st.ds)
  | .silent => False
  | .crash => False

theorem setDSX_some (st s : XSt) (f : DS) (h : setDSX st f = some s) : s.ds = f ∧ (st.ds = .none ∨ st.ds = f) := by
  unfold setDSX at h
  split at h
  · cases h
  · rename_i hg
    cases h
    refine ⟨rfl, ?_⟩
    cases hd : st.ds <;> cases f <;> simp_all

/-- an integer leaf: an error message, or the element is laid and the flag stays -/
theorem leaf_int (c : MCfg) (p : XP) (cx : XCtx) (t : List Byte) (s : XSt) (v : Int) (hput : hasPut cx = true) :
    layoutLeafX c p cx t s (.int v) = .err ∨ ∃ s', layoutLeafX c p cx t s (.int v) = .ok s' ∧ s'.ds = s.ds := by
  unfold layoutLeafX
  simp only [hput, Bool.not_true, Bool.false_eq_true, if_false]
  split
  · split
    · exact Or.inl rfl
    · exact Or.inr ⟨_, rfl, putPacked_ds _ _ _ _⟩
  · split
    · exact Or.inl rfl
    · exact Or.inr ⟨_, rfl, putInt_ds _ _ _⟩
  · split
    · exact Or.inl rfl
    · exact Or.inr ⟨_, rfl, putInt_ds _ _ _⟩
  · split
    · exact Or.inl rfl
    · exact Or.inr ⟨_, rfl, putInt_ds _ _ _⟩
  · exact Or.inr ⟨_, rfl, putInt_ds _ _ _⟩
  · exact Or.inr ⟨_, rfl, putFloatBytes_ds _ _ _⟩

theorem MixOk_ds (q cst : Bool) (st s1 s2 : XSt) (h : MixOk q cst st (.ok s1)) (hd : s2.ds = s1.ds) : MixOk q cst st (.ok s2) := by
  simp only [MixOk] at h ⊢
  rw [hd]
  exact h

theorem hasQ_dup (n : Int) (as : XArgs) : hasQ (.dup n as) = (decide (0 < n) && hasQs as) := by rw [hasQ]
theorem hasC_dup (n : Int) (as : XArgs) : hasC (.dup n as) = (decide (0 < n) && hasCs as) := by rw [hasC]

mutual
theorem mix_arg (c : MCfg) (p : XP) (cx : XCtx) (t : List Byte) :
    ∀ (a : XArg) (st : XSt), plainArg a = true → MixOk (hasQ a) (hasC a) st (layoutMultX c p cx t a st)
  | .q, st, _ => by
    unfold layoutMultX
    cases hs : setDSX st .space with
    | none => exact trivial
    | some s =>
      obtain ⟨h1, h2⟩ := setDSX_some st s .space hs
      show MixOk true false st (.ok _)
      refine ⟨fun _ => ⟨rfl, ?_, (withFill_ds _ _).trans h1⟩, fun hh => Bool.noConfusion hh, fun hh => Bool.noConfusion hh⟩
      rcases h2 with h | h <;> rw [h] <;> decide
  | .int v, st, _ => by
    unfold layoutMultX
    by_cases hput : hasPut cx = true
    · simp only [hput, Bool.not_true, Bool.false_eq_true, if_false]
      cases hs : setDSX st .const with
      | none => exact trivial
      | some s =>
        obtain ⟨h1, h2⟩ := setDSX_some st s .const hs
        show MixOk false true st (layoutLeafX c p cx t s (.int v))
        rcases leaf_int c p cx t s v hput with h | ⟨s', h, hds⟩
        · rw [h]; exact trivial
        · rw [h]
          refine ⟨fun hh => Bool.noConfusion hh, fun _ => ⟨rfl, ?_, hds.trans h1⟩, fun _ hh => Bool.noConfusion hh⟩
          rcases h2 with h | h <;> rw [h] <;> decide
    · have : hasPut cx = false := by simpa using hput
      simp only [this, Bool.not_false, if_true]
      exact trivial
  | .dup n as, st, hp => by
    simp only [plainArg, Bool.and_eq_true, decide_eq_true_eq] at hp
    rw [hasQ_dup, hasC_dup]
    by_cases h0 : n ≤ 0
    · have hd : decide (0 < n) = false := by simp; omega
      unfold layoutMultX
      simp only [h0, if_true, hd, Bool.false_and]
      exact ⟨fun hh => Bool.noConfusion hh, fun hh => Bool.noConfusion hh, fun _ _ => rfl⟩
    have hd : decide (0 < n) = true := by simp; omega
    rw [hd, Bool.true_and, Bool.true_and]
    have ih := mix_args c p cx t as st hp.2
    unfold layoutMultX
    simp only [h0, if_false]
    cases hr : layoutMultLX c p cx t as st with
    | err => exact trivial
    | silent => rw [hr] at ih; exact ih.elim
    | crash => rw [hr] at ih; exact ih.elim
    | ok st' =>
      rw [hr] at ih
      simp only
      cases hd : st'.ds with
      | const =>
        simp only
        exact MixOk_ds _ _ st st' _ ih (iterate_ds _ (fun s => replicateX_ds cx _ _ s) _ _)
      | space =>
        simp only
        exact MixOk_ds _ _ st st' _ ih (withFill_ds _ _)
      | none =>
        simp only
        exact ih
  | .str _, _, hp => by simp [plainArg] at hp
  | .chr _, _, hp => by simp [plainArg] at hp
  | .flt _, _, hp => by simp [plainArg] at hp
  | .rep _ _, _, hp => by simp [plainArg] at hp
theorem mix_args (c : MCfg) (p : XP) (cx : XCtx) (t : List Byte) :
    ∀ (as : XArgs) (st : XSt), plainArgs as = true → MixOk (hasQs as) (hasCs as) st (layoutMultLX c p cx t as st)
  | .nil, st, _ => by
    rw [nil_run]
    show MixOk false false st (.ok st)
    exact ⟨fun hh => Bool.noConfusion hh, fun hh => Bool.noConfusion hh, fun _ _ => rfl⟩
  | .cons a as, st, hp => by
    simp only [plainArgs, Bool.and_eq_true] at hp
    have h1 := mix_arg c p cx t a st hp.1
    cases hr : layoutMultX c p cx t a st with
    | err =>
      rw [layoutMultLX.eq_def]
      simp only [hr]
      exact trivial
    | silent => rw [hr] at h1; exact h1.elim
    | crash => rw [hr] at h1; exact h1.elim
    | ok st1 =>
      rw [hr] at h1
      rw [cons_run c p cx t a as st st1 hr]
      have h2 := mix_args c p cx t as st1 hp.2
      cases hr2 : layoutMultLX c p cx t as st1 with
      | err => exact trivial
      | silent => rw [hr2] at h2; exact h2.elim
      | crash => rw [hr2] at h2; exact h2.elim
      | ok st2 =>
        rw [hr2] at h2
        simp only [MixOk] at h1 h2 ⊢
        have eq1 : hasQs (.cons a as) = (hasQ a || hasQs as) := by rw [hasQs]
        have eq2 : hasCs (.cons a as) = (hasC a || hasCs as) := by rw [hasCs]
        rw [eq1, eq2]
        obtain ⟨a1, a2, a3⟩ := h1
        obtain ⟨b1, b2, b3⟩ := h2
        cases hqa : hasQ a <;> cases hca : hasC a <;> cases hqs : hasQs as <;> cases hcs : hasCs as <;>
          simp_all
end

/-- **a statement that holds placeholders and constants is refused** -/
theorem mixture_err (c : MCfg) (p : XP) (g bits : Nat) (t : List Byte) (as : XArgs)
    (hp : plainArgs as = true) (hq : hasQs as = true) (hc : hasCs as = true) :
    decodeIntelDxX c p g bits t as = .err := by
  have h := mix_args c p ⟨g, bits, loHiMapOf bits g c.ibig⟩ t as {} hp
  unfold decodeIntelDxX
  cases hr : layoutMultLX c p ⟨g, bits, loHiMapOf bits g c.ibig⟩ t as {} with
  | err => simp only [hr]
  | silent => rw [hr] at h; exact h.elim
  | crash => rw [hr] at h; exact h.elim
  | ok st' =>
    rw [hr] at h
    simp only [MixOk] at h
    have := (h.1 hq).1
    rw [hc] at this
    cases this

/-- MODEL and SPEC refuse the mixture -/
theorem lay_mixture (c : MCfg) (p : XP) (big : Bool) (g bits : Nat) (as : XArgs)
    (hp : plainArgs as = true) (hq : hasQs as = true) (hc : hasCs as = true) (hg : 0 < g) (hb : 0 < bits) :
    modelLay c p g bits as = .reject ∧ specLay big g bits as = .reject := by
  refine ⟨?_, ?_⟩
  · unfold modelLay
    rw [mixture_err c p g bits tableInit as hp hq hc]
  · unfold specLay
    have hb' : ¬ bits = 0 := by omega
    have hg' : ¬ g = 0 := by omega
    simp [hp, hq, hc, hb', hg']

end AslModel.AddrResLemmas
