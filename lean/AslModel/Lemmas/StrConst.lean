import AslModel.Model.Expr
/-!
# Lemmas for C08: string constants with escape sequences

`ProcessBk` / `ConstStringVal` / the quote scan of `EvalStrExpression` (Model/Expr.lean) on the text the SPEC
writes for an item list (Spec/Formula.lean, section "string constants with escape sequences").
-/
namespace AslModel.Expr
open AslModel.Formula

/-! ## the digit loop of `ProcessBk` -/

/-- value of a digit string as the loop accumulates it -/
def digFold (sys : Nat) (ds : List Char) (acc : Nat) : Nat :=
  ds.foldl (fun a c => a * sys + (bkDigit sys c).getD 0) acc

/-- every character is a digit of the numbering system -/
def validDigits (sys : Nat) (ds : List Char) : Prop := ∀ c ∈ ds, ∃ d, bkDigit sys c = some d ∧ d < sys

/-- the loop reads a string of valid digits completely when it is allowed that many iterations, and stops
behind it: because the allowed number of digits is used up, or the text ends, or the next character is no digit -/
theorem bkLoop_read (sys : Nat) : ∀ (ds : List Char) (k : Nat) (rest : List Char) (acc : Nat),
    validDigits sys ds → ds.length ≤ k →
    (ds.length = k ∨ rest = [] ∨ ∃ c t, rest = c :: t ∧ bkDigit sys c = none) →
    bkLoop sys k (ds ++ rest) acc = .ok (digFold sys ds acc, rest) := by
  intro ds
  induction ds with
  | nil =>
    intro k rest acc _ _ h
    cases k with
    | zero => simp [bkLoop, digFold]
    | succ k =>
      rcases h with h | h | ⟨c, t, hr, hc⟩
      · simp at h
      · subst h; simp [bkLoop, digFold]
      · subst hr; simp [bkLoop, digFold, hc]
  | cons d ds ih =>
    intro k rest acc hv hk h
    cases k with
    | zero => simp at hk
    | succ k =>
      obtain ⟨v, hd, hlt⟩ := hv d (by simp)
      have hv' : validDigits sys ds := fun c hc => hv c (by simp [hc])
      have hk' : ds.length ≤ k := by simpa using hk
      have h' : ds.length = k ∨ rest = [] ∨ ∃ c t, rest = c :: t ∧ bkDigit sys c = none := by
        rcases h with h | h | h
        · left; simpa using h
        · right; left; exact h
        · right; right; exact h
      have hnot : ¬ (v ≥ sys) := by omega
      simp only [List.cons_append, bkLoop, hd, hnot, if_false]
      rw [ih k rest (acc * sys + v) hv' hk' h']
      simp [digFold, hd]

/-- the digit loop never consumes more characters than it is allowed iterations -/
theorem bkLoop_consumes (sys : Nat) : ∀ (k : Nat) (text : List Char) (acc a : Nat) (r : List Char),
    bkLoop sys k text acc = .ok (a, r) → ∃ n, n ≤ k ∧ r = text.drop n := by
  intro k
  induction k with
  | zero => intro text acc a r h; simp only [bkLoop, Except.ok.injEq, Prod.mk.injEq] at h; exact ⟨0, Nat.le_refl _, by simp [h.2]⟩
  | succ k ih =>
    intro text acc a r h
    cases text with
    | nil => simp only [bkLoop, Except.ok.injEq, Prod.mk.injEq] at h; exact ⟨0, by omega, by simp [h.2]⟩
    | cons c t =>
      simp only [bkLoop] at h
      split at h
      · simp only [Except.ok.injEq, Prod.mk.injEq] at h; exact ⟨0, by omega, by simp [h.2]⟩
      · split at h
        · exact absurd h (by simp)
        · obtain ⟨n, hn, hr⟩ := ih t _ a r h
          exact ⟨n + 1, by omega, by simpa using hr⟩

/-- executable form of "valid digits, this many, this value" (for the finitely many numbers a character can be) -/
def digitsOK (sys : Nat) (ds : List Char) (len v : Nat) : Bool :=
  ds.all (fun c => match bkDigit sys c with | some d => decide (d < sys) | none => false) &&
    ds.length == len && digFold sys ds 0 == v

theorem digitsOK_spec {sys : Nat} {ds : List Char} {len v : Nat} (h : digitsOK sys ds len v = true) :
    validDigits sys ds ∧ ds.length = len ∧ digFold sys ds 0 = v := by
  simp only [digitsOK, Bool.and_eq_true, List.all_eq_true, beq_iff_eq] at h
  obtain ⟨⟨h1, h2⟩, h3⟩ := h
  refine ⟨?_, h2, h3⟩
  intro c hc
  have := h1 c hc
  cases hb : bkDigit sys c with
  | none => simp [hb] at this
  | some d => exact ⟨d, rfl, by simpa [hb] using this⟩

/-- a character that is no decimal digit ends a decimal or octal number -/
theorem bkDigit_none_of_not_dec (sys : Nat) (hs : sys ≠ 16) (c : Char) (h : isDecDigit c = false) :
    bkDigit sys c = none := by
  simp only [isDecDigit, decide_eq_false_iff_not] at h
  simp only [bkDigit, cUpN]
  split <;> split <;> simp_all <;> omega

/-- a character that is no hexadecimal digit ends a hexadecimal number -/
theorem bkDigit_none_of_not_hex (c : Char) (h : isHexDigitC c = false) : bkDigit 16 c = none := by
  simp only [isHexDigitC, isDecDigit, Bool.or_eq_false_iff, decide_eq_false_iff_not] at h
  obtain ⟨⟨h1, h2⟩, h3⟩ := h
  simp only [bkDigit, cUpN]
  split <;> split <;> simp_all <;> omega

/-! ## the finitely many numbers: digits written by the SPEC are read back by the loop -/

theorem hex2_ok : ∀ v, v < 256 → ∀ upD : Bool,
    digitsOK 16 ((digitsPad 16 2 v).map (if upD then id else lowLetter)) 2 v = true := by decide +kernel

theorem hex1_ok : ∀ v, v < 16 → ∀ upD : Bool,
    digitsOK 16 ((digitsPad 16 1 v).map (if upD then id else lowLetter)) 1 v = true := by decide +kernel

/-- a decimal number 1..255: first digit `1`..`9`, one to three digits, three from 100 on -/
def decOK (v : Nat) : Bool :=
  match natDigits 10 64 v with
  | c :: t => decide (49 ≤ c.toNat ∧ c.toNat ≤ 57) && digitsOK 10 (c :: t) (c :: t).length v &&
      decide ((c :: t).length ≤ 3) && (decide (v < 100) || (c :: t).length == 3)
  | [] => false

theorem dec_ok : ∀ v, v < 256 → 1 ≤ v → decOK v = true := by decide +kernel

/-- the octal digits behind the prefix `0`, with the prefix in front (which the loop reads as the first digit) -/
def octText (v w : Nat) : List Char := '0' :: (if w = 0 then [] else digitsPad 8 w v)

theorem oct_ok : ∀ w, w < 4 → ∀ v, v < 256 → v < 8 ^ w → digitsOK 8 (octText v w) (w + 1) v = true := by
  decide +kernel

/-! ## `ProcessBk` on the text of one escape item -/

/-- the character an item that is not `\{…}` and not a self-denoting character stands for -/
def escChar? : Item → Option Char
  | .ctl k _ => some (Char.ofNat k.code)
  | .dec v => some (Char.ofNat v)
  | .hex v _ _ _ => some (Char.ofNat v)
  | .oct v _ => some (Char.ofNat v)
  | _ => none

/-- what may follow an item: nothing, or a character the item's number does not swallow -/
def FollowOK (it : Item) (rest : List Char) : Prop := rest = [] ∨ ∃ c t, rest = c :: t ∧ it.okBefore c = true

theorem processBk_ctl (k : Ctl) (up : Bool) (rest : List Char) :
    processBk ((Item.ctl k up).text.drop 1 ++ rest) = .ok (Char.ofNat k.code, rest) := by
  cases k <;> cases up <;> rfl

theorem bkNumber_read (sys k : Nat) (hk : max 1 (3 - bkCntStart sys).toNat = k) (ds rest : List Char) (v : Nat)
    (hd : validDigits sys ds) (hl : ds.length ≤ k) (hv : digFold sys ds 0 = v) (h255 : v ≤ 255)
    (hend : ds.length = k ∨ rest = [] ∨ ∃ c t, rest = c :: t ∧ bkDigit sys c = none) :
    bkNumber sys (ds ++ rest) = .ok (Char.ofNat v, rest) := by
  simp only [bkNumber, hk, bkLoop_read sys ds k rest 0 hd hl hend, hv, h255, if_true]

theorem processBk_hex (v : Nat) (two upX upD : Bool) (q : Char) (rest : List Char)
    (hwf : (Item.hex v two upX upD).wf q = true) (hf : FollowOK (.hex v two upX upD) rest) :
    processBk ((Item.hex v two upX upD).text.drop 1 ++ rest) = .ok (Char.ofNat v, rest) := by
  have hx : ∀ t, processBk ((if upX then 'X' else 'x') :: t) = bkNumber 16 t := by
    intro t; cases upX <;> rfl
  simp only [Item.text, List.cons_append, List.nil_append, List.drop_succ_cons, List.drop_zero, hx]
  cases two with
  | true =>
    have hv : v < 256 := by simpa [Item.wf] using hwf
    obtain ⟨h1, h2, h3⟩ := digitsOK_spec (hex2_ok v hv upD)
    exact bkNumber_read 16 2 (by decide) _ rest v h1 (by simp [h2]) h3 (by omega) (Or.inl (by simpa using h2))
  | false =>
    have hv : v < 16 := by simpa [Item.wf] using hwf
    obtain ⟨h1, h2, h3⟩ := digitsOK_spec (hex1_ok v hv upD)
    refine bkNumber_read 16 2 (by decide) _ rest v h1 (by simp [h2]) h3 (by omega) (Or.inr ?_)
    rcases hf with hf | ⟨c, t, hr, hc⟩
    · exact Or.inl hf
    · refine Or.inr ⟨c, t, hr, bkDigit_none_of_not_hex c ?_⟩
      simpa [Item.okBefore] using hc

theorem processBk_digit (c : Char) (t : List Char) (h : 48 ≤ c.toNat ∧ c.toNat ≤ 57) :
    processBk (c :: t) = bkNumber (if c.toNat = 48 then 8 else 10) (c :: t) := by
  have hu : cUpN c.toNat = c.toNat := by simp only [cUpN]; split <;> omega
  simp only [processBk, hu]
  rw [if_neg (by omega), if_neg (by omega), if_neg (by omega), if_neg (by omega), if_neg (by omega),
    if_neg (by omega), if_neg (by omega), if_neg (by omega), if_neg (by omega), if_neg (by omega), if_pos h]

theorem processBk_dec (v : Nat) (q : Char) (rest : List Char)
    (hwf : (Item.dec v).wf q = true) (hf : FollowOK (.dec v) rest) :
    processBk ((Item.dec v).text.drop 1 ++ rest) = .ok (Char.ofNat v, rest) := by
  have hv : 1 ≤ v ∧ v ≤ 255 := by simpa [Item.wf] using hwf
  have hok := dec_ok v (by omega) hv.1
  simp only [Item.text, List.drop_succ_cons, List.drop_zero]
  unfold decOK at hok
  cases hn : natDigits 10 64 v with
  | nil => simp [hn] at hok
  | cons c t =>
    rw [hn] at hok
    simp only [Bool.and_eq_true, decide_eq_true_eq, Bool.or_eq_true, beq_iff_eq] at hok
    obtain ⟨⟨⟨hc, hdig⟩, hlen⟩, h100⟩ := hok
    obtain ⟨h1, _, h3⟩ := digitsOK_spec hdig
    have hsys : processBk (c :: (t ++ rest)) = bkNumber 10 (c :: (t ++ rest)) := by
      rw [processBk_digit c _ (by omega), if_neg (by omega)]
    rw [List.cons_append, hsys, ← List.cons_append]
    refine bkNumber_read 10 3 (by decide) _ rest v h1 hlen h3 hv.2 ?_
    rcases h100 with h100 | h100
    · refine Or.inr ?_
      rcases hf with hf | ⟨c', t', hr, hc'⟩
      · exact Or.inl hf
      · refine Or.inr ⟨c', t', hr, bkDigit_none_of_not_dec 10 (by decide) c' ?_⟩
        have : ¬ (v ≥ 100) := by omega
        simpa [Item.okBefore, this] using hc'
    · exact Or.inl h100

theorem processBk_oct (v w : Nat) (q : Char) (rest : List Char)
    (hwf : (Item.oct v w).wf q = true) (hf : FollowOK (.oct v w) rest) :
    processBk ((Item.oct v w).text.drop 1 ++ rest) = .ok (Char.ofNat v, rest) := by
  have hv : (w ≤ 3 ∧ v < 8 ^ w) ∧ v < 256 := by simpa [Item.wf] using hwf
  obtain ⟨h1, h2, h3⟩ := digitsOK_spec (oct_ok w (by omega) v hv.2 hv.1.2)
  have ht : (Item.oct v w).text.drop 1 = octText v w := by
    simp [Item.text, octText]
  have hsys : ∀ t, processBk ('0' :: t) = bkNumber 8 ('0' :: t) := fun t => rfl
  have ho : octText v w ++ rest = '0' :: ((if w = 0 then [] else digitsPad 8 w v) ++ rest) := by simp [octText]
  rw [ht, ho, hsys, ← ho]
  refine bkNumber_read 8 4 (by decide) _ rest v h1 (by omega) h3 (by omega) ?_
  by_cases hw : w = 3
  · exact Or.inl (by omega)
  · refine Or.inr ?_
    rcases hf with hf | ⟨c', t', hr, hc'⟩
    · exact Or.inl hf
    · refine Or.inr ⟨c', t', hr, bkDigit_none_of_not_dec 8 (by decide) c' ?_⟩
      have : ¬ (w ≥ 3) := by omega
      simpa [Item.okBefore, this] using hc'

/-- the four kinds of escape items that stand for one character, in one statement -/
theorem processBk_item (q : Char) (it : Item) (ch : Char) (rest : List Char) (hch : escChar? it = some ch)
    (hwf : it.wf q = true) (hf : FollowOK it rest) : processBk (it.text.drop 1 ++ rest) = .ok (ch, rest) := by
  cases it with
  | plain c => simp [escChar?] at hch
  | brace o a b => simp [escChar?] at hch
  | ctl k up =>
    simp only [escChar?, Option.some.injEq] at hch; subst hch; exact processBk_ctl k up rest
  | dec v =>
    simp only [escChar?, Option.some.injEq] at hch; subst hch; exact processBk_dec v q rest hwf hf
  | hex v two upX upD =>
    simp only [escChar?, Option.some.injEq] at hch; subst hch; exact processBk_hex v two upX upD q rest hwf hf
  | oct v w =>
    simp only [escChar?, Option.some.injEq] at hch; subst hch; exact processBk_oct v w q rest hwf hf

/-! ## the characters the SPEC writes -/

def hexChars : List Char := "0123456789ABCDEF?".toList

/-- characters that are neither a quotation mark nor the backslash -/
def safeList : List Char := "0123456789ABCDEFabcdef?$+-*&|!}".toList

theorem safe_of_mem (q : Char) (hq : q = '"' ∨ q = '\'') : ∀ c ∈ safeList, c ≠ q ∧ c ≠ '\\' := by
  rcases hq with rfl | rfl <;> decide

theorem hexChars_safe : ∀ c ∈ hexChars, c ∈ safeList ∧ lowLetter c ∈ safeList ∧ c ≠ '}' ∧ c ≠ '{' := by decide

theorem hexDigit_mem (n : Nat) : hexDigit n ∈ hexChars := by
  by_cases h : n < 17
  · revert n; decide
  · have : hexDigit n = '?' := by
      unfold hexDigit
      have hl : "0123456789ABCDEF".toList.length = 16 := by decide
      rw [List.getD_eq_getElem?_getD, List.getElem?_eq_none (by omega)]
      rfl
    rw [this]; decide

theorem natDigits_mem (base : Nat) : ∀ (fuel n : Nat), ∀ c ∈ natDigits base fuel n, c ∈ hexChars := by
  intro fuel
  induction fuel with
  | zero => intro n c hc; simp [natDigits] at hc
  | succ f ih =>
    intro n c hc
    simp only [natDigits] at hc
    split at hc
    · simp only [List.mem_singleton] at hc; subst hc; exact hexDigit_mem n
    · simp only [List.mem_append, List.mem_singleton] at hc
      rcases hc with hc | hc
      · exact ih _ c hc
      · subst hc; exact hexDigit_mem _

theorem digitsPad_mem (base width n : Nat) : ∀ c ∈ digitsPad base width n, c ∈ hexChars := by
  intro c hc
  simp only [digitsPad, List.mem_append, List.mem_replicate] at hc
  rcases hc with ⟨_, hc⟩ | hc
  · subst hc; decide
  · exact natDigits_mem base 64 n c hc

theorem renderInt_mem (a : W) : ∀ c ∈ renderInt a, c ∈ safeList ∧ c ≠ '}' := by
  intro c hc
  simp only [renderInt] at hc
  split at hc
  · exact ⟨(hexChars_safe c (natDigits_mem 10 64 _ c hc)).1, (hexChars_safe c (natDigits_mem 10 64 _ c hc)).2.2.1⟩
  · simp only [List.mem_cons] at hc
    rcases hc with hc | hc
    · subst hc; decide
    · exact ⟨(hexChars_safe c (natDigits_mem 16 64 _ c hc)).1, (hexChars_safe c (natDigits_mem 16 64 _ c hc)).2.2.1⟩

/-- the formula text inside `\{…}` -/
def braceInner : Option BraceOp → W → W → List Char
  | none, a, _ => renderInt a
  | some o, a, b => renderInt a ++ o.spelling ++ renderInt b

theorem brace_text (o : Option BraceOp) (a b : W) :
    (Item.brace o a b).text = '\\' :: '{' :: (braceInner o a b ++ ['}']) := by
  cases o <;> simp [Item.text, braceInner]

theorem braceInner_mem (o : Option BraceOp) (a b : W) : ∀ c ∈ braceInner o a b, c ∈ safeList ∧ c ≠ '}' := by
  intro c hc
  cases o with
  | none => exact renderInt_mem a c hc
  | some o =>
    simp only [braceInner, List.mem_append] at hc
    rcases hc with (hc | hc) | hc
    · exact renderInt_mem a c hc
    · cases o <;> simp only [BraceOp.spelling, List.mem_singleton] at hc <;> subst hc <;> decide
    · exact renderInt_mem b c hc

/-- every item is a self-denoting character or a backslash, one more character and characters that are neither
quotation marks nor backslashes -/
theorem item_shape (q : Char) (it : Item) (hwf : it.wf q = true) :
    (∃ c, it = .plain c ∧ c ≠ q ∧ c ≠ '\\') ∨ ∃ e ds, it.text = '\\' :: e :: ds ∧ ∀ c ∈ ds, c ∈ safeList := by
  cases it with
  | plain c =>
    left
    simp only [Item.wf, Bool.and_eq_true, bne_iff_ne, ne_eq] at hwf
    exact ⟨c, rfl, hwf.1.1.2, hwf.1.1.1⟩
  | ctl k up => right; exact ⟨_, [], rfl, by simp⟩
  | dec v =>
    right
    have hv : 1 ≤ v ∧ v ≤ 255 := by simpa [Item.wf] using hwf
    have hok := dec_ok v (by omega) hv.1
    unfold decOK at hok
    cases hn : natDigits 10 64 v with
    | nil => simp [hn] at hok
    | cons c t =>
      refine ⟨c, t, by simp [Item.text, hn], fun x hx => ?_⟩
      exact (hexChars_safe x (natDigits_mem 10 64 v x (by rw [hn]; simp [hx]))).1
  | hex v two upX upD =>
    right
    refine ⟨if upX then 'X' else 'x', (digitsPad 16 (if two then 2 else 1) v).map (if upD then id else lowLetter),
      by simp [Item.text], fun x hx => ?_⟩
    simp only [List.mem_map] at hx
    obtain ⟨y, hy, rfl⟩ := hx
    have := hexChars_safe y (digitsPad_mem 16 _ v y hy)
    cases upD
    · exact this.2.1
    · exact this.1
  | oct v w =>
    right
    refine ⟨'0', if w = 0 then [] else digitsPad 8 w v, by simp [Item.text], fun x hx => ?_⟩
    split at hx
    · simp at hx
    · exact (hexChars_safe x (digitsPad_mem 8 w v x hx)).1
  | brace o a b =>
    right
    refine ⟨'{', braceInner o a b ++ ['}'], brace_text o a b, fun x hx => ?_⟩
    simp only [List.mem_append, List.mem_singleton] at hx
    rcases hx with hx | hx
    · exact (braceInner_mem o a b x hx).1
    · subst hx; decide

/-! ## `ConstStringVal` on the text of an item list -/

theorem item_text_ne (it : Item) : ∃ c t, it.text = c :: t := by
  cases it with
  | plain c => exact ⟨c, [], rfl⟩
  | ctl k up => exact ⟨_, _, rfl⟩
  | dec v => exact ⟨_, _, rfl⟩
  | hex v two upX upD => exact ⟨'\\', _, by simp [Item.text]; rfl⟩
  | oct v w => exact ⟨'\\', _, by simp [Item.text]; rfl⟩
  | brace o a b => exact ⟨_, _, brace_text o a b⟩

/-- an escape item that stands for one character: backslash, a character that is not `{`, the rest -/
theorem escape_head (q : Char) (it : Item) (ch : Char) (hch : escChar? it = some ch) (hwf : it.wf q = true) :
    ∃ e ds, it.text = '\\' :: e :: ds ∧ e ≠ '{' := by
  cases it with
  | plain c => simp [escChar?] at hch
  | brace o a b => simp [escChar?] at hch
  | ctl k up => exact ⟨_, [], rfl, by cases k <;> cases up <;> decide⟩
  | dec v =>
    have hv : 1 ≤ v ∧ v ≤ 255 := by simpa [Item.wf] using hwf
    have hok := dec_ok v (by omega) hv.1
    unfold decOK at hok
    cases hn : natDigits 10 64 v with
    | nil => simp [hn] at hok
    | cons c t =>
      rw [hn] at hok
      simp only [Bool.and_eq_true, decide_eq_true_eq, Bool.or_eq_true, beq_iff_eq] at hok
      refine ⟨c, t, by simp [Item.text, hn], fun h => ?_⟩
      have : c.toNat = 123 := by rw [h]; rfl
      omega
  | hex v two upX upD =>
    exact ⟨if upX then 'X' else 'x', (digitsPad 16 (if two then 2 else 1) v).map (if upD then id else lowLetter),
      by simp [Item.text], by cases upX <;> decide⟩
  | oct v w => exact ⟨'0', if w = 0 then [] else digitsPad 8 w v, by simp [Item.text], by decide⟩

theorem constStr_plain (ev : List Char → Except Err Val) (q : Char) (f : Nat) (c : Char) (rest acc : List Char)
    (h1 : c ≠ '\\') (h2 : c ≠ q) : constStr ev q (f + 1) (c :: rest) acc = constStr ev q f rest (c :: acc) := by
  simp [constStr, h1, h2]

theorem constStr_escape (ev : List Char → Except Err Val) (q : Char) (f : Nat) (e : Char) (tl rest acc : List Char)
    (ch : Char) (he : e ≠ '{') (hp : processBk (e :: tl ++ rest) = .ok (ch, rest)) :
    constStr ev q (f + 1) ('\\' :: (e :: tl ++ rest)) acc = constStr ev q f rest (ch :: acc) := by
  simp only [List.cons_append] at hp
  simp [constStr, he, hp]

theorem braceEnd_spec (rest : List Char) : ∀ (inner acc : List Char), (∀ c ∈ inner, c ≠ '}') →
    braceEnd (inner ++ '}' :: rest) acc = some (acc.reverse ++ inner, rest) := by
  intro inner
  induction inner with
  | nil => intro acc _; simp [braceEnd]
  | cons d ds ih =>
    intro acc h
    have hd : d ≠ '}' := h d (by simp)
    simp only [List.cons_append, braceEnd, beq_iff_eq, hd, if_false]
    rw [ih (d :: acc) (fun c hc => h c (by simp [hc]))]
    simp

theorem constStr_brace (ev : List Char → Except Err Val) (q : Char) (f : Nat) (o : Option BraceOp) (a b : W)
    (rest acc : List Char) (hev : ev (braceInner o a b) = .ok (.int (braceVal o a b))) :
    constStr ev q (f + 1) ((Item.brace o a b).text ++ rest) acc =
      constStr ev q f rest ((Item.brace o a b).chars.reverse ++ acc) := by
  have hb := braceEnd_spec rest (braceInner o a b) [] (fun c hc => (braceInner_mem o a b c hc).2)
  simp only [List.reverse_nil, List.nil_append] at hb
  rw [brace_text]
  simp only [List.cons_append, List.append_assoc, List.nil_append]
  simp [constStr, hb, hev, Item.chars, sysString10]

/-- **one item**: `ConstStringVal` turns the text of a well-formed item, whatever allowed text follows, into the
characters the item denotes -/
theorem constStr_item (ev : List Char → Except Err Val)
    (hev : ∀ o a b, ev (braceInner o a b) = .ok (.int (braceVal o a b)))
    (q : Char) (it : Item) (hwf : it.wf q = true) (rest : List Char) (hf : FollowOK it rest) (f : Nat) (acc : List Char) :
    constStr ev q (f + 1) (it.text ++ rest) acc = constStr ev q f rest (it.chars.reverse ++ acc) := by
  cases hch : escChar? it with
  | some ch =>
    obtain ⟨e, ds, ht, he⟩ := escape_head q it ch hch hwf
    have hp := processBk_item q it ch rest hch hwf hf
    rw [ht] at hp ⊢
    simp only [List.drop_succ_cons, List.drop_zero] at hp
    have hc : it.chars = [ch] := by
      cases it <;> simp_all [escChar?, Item.chars]
    rw [hc]
    exact constStr_escape ev q f e ds rest acc ch he hp
  | none =>
    cases it with
    | plain c =>
      simp only [Item.wf, Bool.and_eq_true, bne_iff_ne, ne_eq] at hwf
      exact constStr_plain ev q f c rest acc hwf.1.1.1 hwf.1.1.2
    | brace o a b => exact constStr_brace ev q f o a b rest acc (hev o a b)
    | ctl k up => simp [escChar?] at hch
    | dec v => simp [escChar?] at hch
    | hex v two upX upD => simp [escChar?] at hch
    | oct v w => simp [escChar?] at hch

theorem wfItems_cons {q : Char} {i : Item} {rest : List Item} (h : wfItems q (i :: rest) = true) :
    i.wf q = true ∧ FollowOK i (renderItems rest) ∧ wfItems q rest = true := by
  simp only [wfItems, Bool.and_eq_true] at h
  refine ⟨h.1.1, ?_, h.2⟩
  cases rest with
  | nil => left; rfl
  | cons j js =>
    right
    obtain ⟨c, t, hj⟩ := item_text_ne j
    have h2 := h.1.2
    simp only [hj] at h2
    exact ⟨c, t ++ renderItems js, by simp [renderItems, hj], h2⟩

theorem wfItems_all {q : Char} : ∀ {items : List Item}, wfItems q items = true → ∀ it ∈ items, it.wf q = true := by
  intro items
  induction items with
  | nil => intro _ it hit; simp at hit
  | cons i rest ih =>
    intro h it hit
    obtain ⟨h1, _, h3⟩ := wfItems_cons h
    simp only [List.mem_cons] at hit
    rcases hit with rfl | hit
    · exact h1
    · exact ih h3 it hit

theorem constStr_items (ev : List Char → Except Err Val)
    (hev : ∀ o a b, ev (braceInner o a b) = .ok (.int (braceVal o a b))) (q : Char) :
    ∀ (items : List Item), wfItems q items = true → ∀ (f : Nat) (acc : List Char), items.length < f →
      constStr ev q f (renderItems items) acc = .ok (acc.reverse ++ decodeItems items) := by
  intro items
  induction items with
  | nil =>
    intro _ f acc hf
    cases f with
    | zero => omega
    | succ f => simp [renderItems, decodeItems, constStr]
  | cons i rest ih =>
    intro h f acc hf
    obtain ⟨h1, h2, h3⟩ := wfItems_cons h
    cases f with
    | zero => omega
    | succ f =>
      have hr : renderItems (i :: rest) = i.text ++ renderItems rest := by simp [renderItems]
      rw [hr, constStr_item ev hev q i h1 _ h2 f acc, ih h3 f _ (by simpa using hf)]
      simp [decodeItems]

theorem renderItems_length (items : List Item) : items.length ≤ (renderItems items).length := by
  induction items with
  | nil => simp [renderItems]
  | cons i rest ih =>
    obtain ⟨c, t, hi⟩ := item_text_ne i
    have hr : renderItems (i :: rest) = i.text ++ renderItems rest := by simp [renderItems]
    rw [hr, hi]
    simp only [List.length_cons, List.length_append]
    omega

/-! ## the quote scan of `EvalStrExpression` on the text of an item list -/

theorem strEnd_run (q : Char) : ∀ (ds tl acc : List Char), (∀ c ∈ ds, c ≠ q ∧ c ≠ '\\') →
    strEnd q (ds ++ tl) false acc = strEnd q tl false (ds.reverse ++ acc) := by
  intro ds
  induction ds with
  | nil => intro tl acc _; simp
  | cons d ds ih =>
    intro tl acc h
    obtain ⟨h1, h2⟩ := h d (by simp)
    have hb1 : (d == q) = false := by simpa using h1
    have hb2 : (d == '\\') = false := by simpa using h2
    simp only [List.cons_append, strEnd, hb1, hb2, Bool.false_and, Bool.false_eq_true, if_false]
    rw [ih tl (d :: acc) (fun c hc => h c (by simp [hc]))]
    simp

theorem strEnd_escape (q : Char) (hq : q ≠ '\\') (e : Char) (ds tl acc : List Char)
    (h : ∀ c ∈ ds, c ≠ q ∧ c ≠ '\\') :
    strEnd q ('\\' :: e :: ds ++ tl) false acc = strEnd q tl false (('\\' :: e :: ds).reverse ++ acc) := by
  have hq' : ('\\' == q) = false := by simpa using (fun h' => hq h'.symm)
  simp only [List.cons_append, strEnd, hq', Bool.not_false, Bool.and_true, beq_self_eq_true,
    Bool.not_true, Bool.and_false, Bool.false_eq_true, if_false]
  rw [strEnd_run q ds tl _ h]
  simp

theorem strEnd_item (q : Char) (hq : q = '"' ∨ q = '\'') (it : Item) (hwf : it.wf q = true) (tl acc : List Char) :
    strEnd q (it.text ++ tl) false acc = strEnd q tl false (it.text.reverse ++ acc) := by
  have hqb : q ≠ '\\' := by rcases hq with rfl | rfl <;> decide
  rcases item_shape q it hwf with ⟨c, rfl, h1, h2⟩ | ⟨e, ds, ht, hs⟩
  · exact strEnd_run q [c] tl acc (by simp [h1, h2])
  · rw [ht]
    exact strEnd_escape q hqb e ds tl acc (fun c hc => safe_of_mem q hq c (hs c hc))

theorem strEnd_items (q : Char) (hq : q = '"' ∨ q = '\'') (after : List Char) :
    ∀ (items : List Item), (∀ it ∈ items, it.wf q = true) → ∀ acc : List Char,
      strEnd q (renderItems items ++ q :: after) false acc = some (acc.reverse ++ renderItems items, after) := by
  intro items
  induction items with
  | nil => intro _ acc; simp [renderItems, strEnd]
  | cons i rest ih =>
    intro h acc
    have hr : renderItems (i :: rest) = i.text ++ renderItems rest := by simp [renderItems]
    rw [hr, List.append_assoc, strEnd_item q hq i (h i (by simp)) _ acc, ih (fun it hit => h it (by simp [hit]))]
    simp

end AslModel.Expr
