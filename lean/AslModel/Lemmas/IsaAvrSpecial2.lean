import AslModel.Lemmas.IsaAvrCore
/-! Lemmas for C14 / AVR: `JMP/CALL`, `LDS/STS`, `CBI/SBI/SBIC/SBIS`. -/
namespace AslModel.Isa.IAvr
open AslModel.PFile (Byte b b_toNat)
open AslModel.Spec.IAvr
open AslModel.Generated.IsaAvr

/-! #### `JMP/CALL` -/

noncomputable def goodJmp (m : Mn) (idx : Nat) : Bool :=
  (form m).opds == [.abs] && !(form m).bare && (m == .JMP || m == .CALL) &&
  allBelow 32 fun h5 => allBelow 2 fun k16 => wordIs (0x940c ||| idx ||| (h5 <<< 4) ||| k16) m [2 * h5 + k16] true

theorem jmp_desc (x : Ctx) (c : Cpu) (h : compat x.p c = true) (idx : Nat) (args : List Int) :
    okBytes (decodeJMPCALL x idx args) =
      match args with
      | [a] => if chkMinCore x.p gateJmpCall = true ∧ 0 ≤ a ∧ a ≤ 2 ^ c.pcBits - 1 then
          some (appendCode (0x940c ||| idx ||| ((a.toNat / 131072 % 32) <<< 4) ||| (a.toNat / 65536 % 2)) ++ appendCode (a.toNat % 65536))
        else none
      | _ => none := by
  unfold decodeJMPCALL
  rcases args with _ | ⟨a, _ | ⟨a2, t⟩⟩
  · rfl
  · simp only [codeAddr_eq x.p c h]
    by_cases hg : chkMinCore x.p gateJmpCall = true
    · by_cases ha : 0 ≤ a ∧ a ≤ 2 ^ c.pcBits - 1
      · simp [hg, ha]
      · simp [hg, ha]
    · simp [hg]
  · rfl

theorem decode_two (c : Cpu) (pc w k : Nat) (m : Mn) (fs : List Nat) (h1 : decode1 (w % 65536) = some (m, fs, true)) :
    decode c pc (appendCode w ++ appendCode k) = some (⟨m, withWord2 m fs (k % 65536)⟩, 4) := by
  simp only [decode, appendCode, List.cons_append, List.nil_append, word_bytes, h1]

theorem jmp_sound (m : Mn) (idx : Nat) (hg : goodJmp m idx = true) (x : Ctx) (c : Cpu) (h : compat x.p c = true)
    (args : List Int) (bs : List Byte) (he : decodeJMPCALL x idx args = .ok bs) :
    decode c x.pc bs = some (meaning ⟨m, args⟩, bs.length) := by
  have hf := compat_facts x.p c h
  have hob : okBytes (decodeJMPCALL x idx args) = some bs := by rw [he]; rfl
  rw [jmp_desc x c h] at hob
  simp only [goodJmp, Bool.and_eq_true, beq_iff_eq, Bool.not_eq_true', Bool.or_eq_true] at hg
  obtain ⟨⟨⟨hopds, _⟩, hm⟩, hall⟩ := hg
  rcases args with _ | ⟨a, _ | ⟨a2, t⟩⟩
  · simp at hob
  · simp only at hob
    split at hob
    · rename_i hc
      simp only [Option.some.injEq] at hob
      subst hob
      have h20 := pow_le_20 c.pcBits hf.n20
      have h5 : a.toNat / 131072 % 32 < 32 := by omega
      have h2 : a.toNat / 65536 % 2 < 2 := by omega
      have hw1 := wordIs_spec _ _ _ _ (allBelow_spec _ _ (allBelow_spec _ _ hall _ h5) _ h2)
      rw [decode_two c x.pc _ _ _ _ hw1]
      have hn : 65536 * (2 * (a.toNat / 131072 % 32) + a.toNat / 65536 % 2) + a.toNat % 65536 % 65536 = a.toNat := by omega
      rcases hm with rfl | rfl <;>
        simp only [withWord2, hn, meaning, form, fAbs, values, canon, flagAlias, Opd.value, List.length_append, appendCode_length]
    · simp at hob
  · simp at hob

/-- the core gate `DecodeJMPCALL`/`DecodeELPM`/`DecodeFixed` apply to the instructions the SPEC gates by program memory size -/
def sizeGateModel (p : Props) (m : Mn) : Bool :=
  match lookup m with
  | some (.jmpcall _) => chkMinCore p gateJmpCall
  | some (.elpm _) => chkMinCore p gateElpm
  | some (.fixed _ mask) => chkCoreMask p mask
  | _ => true

theorem jmp_ok (m : Mn) (idx : Nat) (hl : lookup m = some (.jmpcall idx)) (hg : goodJmp m idx = true) (x : Ctx) (c : Cpu) (h : compat x.p c = true)
    (args : List Int) (hsize : avail c m args = sizeGateModel x.p m) :
    isOk (decodeJMPCALL x idx args) = legal c x.pc ⟨m, args⟩ := by
  rw [isOk_okBytes, jmp_desc x c h]
  simp only [goodJmp, Bool.and_eq_true, beq_iff_eq, Bool.not_eq_true', Bool.or_eq_true] at hg
  obtain ⟨⟨⟨hopds, hbare⟩, hm⟩, _⟩ := hg
  have hmo : modeOk m args = true := by rcases hm with rfl | rfl <;> rfl
  simp only [sizeGateModel, hl] at hsize
  simp only [legal, hsize, hmo, hopds, hbare, Bool.true_and, Bool.false_and, Bool.false_or, List.isEmpty_cons, Bool.not_false, Bool.and_true]
  rcases args with _ | ⟨a, _ | ⟨a2, t⟩⟩
  · simp [acceptsAll]
  · simp only [acceptsAll, Bool.and_true, Opd.accepts]
    by_cases hgc : chkMinCore x.p gateJmpCall = true
    · by_cases ha : 0 ≤ a ∧ a ≤ 2 ^ c.pcBits - 1
      · have : a < 2 ^ c.pcBits := by omega
        simp [hgc, ha, this]
      · have : (decide (0 ≤ a) && decide (a < 2 ^ c.pcBits)) = false := by
          by_cases h0 : 0 ≤ a
          · have : ¬ a < 2 ^ c.pcBits := by omega
            simp [h0, this]
          · simp [h0]
        simp [hgc, ha, this]
    · simp [hgc]
  · simp [acceptsAll]

/-! #### `LDS/STS` -/

def cores5 : List Nat := [cCore90S1200, cCoreClassic, cCoreTiny, cCoreTiny16K, cCoreMega]

theorem mem_cores5 (p : Props) (c : Cpu) (h : compat p c = true) : p.core ∈ cores5 := by
  have := (compat_facts p c h).core
  simp only [cores5, List.mem_cons, List.not_mem_nil, or_false]
  exact this

theorem allReg_match : opdMatch (.reg allRegMask) (.reg .all) = true := by decide

theorem allReg_field (r : Int) : ((OpdD.reg allRegMask).field r).isSome = (decide (0 ≤ r) && decide (r.toNat < 32)) := by
  have := field_accepts (.reg allRegMask) (.reg .all) ⟨0, 0, false⟩ 0 r allReg_match rfl
  rw [this]; rfl

noncomputable def goodLds (m : Mn) (idx : Nat) : Bool :=
  !(form m).bare &&
  (if idx != 0 then m == .STS && (form m).opds == [.imm 0 65535 16, .reg .all] else m == .LDS && (form m).opds == [.reg .all, .imm 0 65535 16]) &&
  (cores5.all fun k => chkCoreMask (pOf k) maskLdsSts == decide (1 ≤ coreLevel k)) &&
  allBelow 32 fun r => wordIs (0x9000 ||| idx ||| (r <<< 4)) m [r] true

theorem lds_desc (x : Ctx) (hp : x.p.core ≠ cCoreMinTiny) (idx : Nat) (args : List Int) :
    okBytes (decodeLDSSTS x idx args) =
      match args with
      | [a1, a2] =>
        if chkCoreMask x.p maskLdsSts = true then
          ((OpdD.reg allRegMask).field (if idx ≠ 0 then a2 else a1)).bind fun r =>
            ((OpdD.int 0 65535).field (if idx ≠ 0 then a1 else a2)).map fun k => appendCode (0x9000 ||| idx ||| (r <<< 4)) ++ appendCode k
        else none
      | _ => none := by
  unfold decodeLDSSTS
  rcases args with _ | ⟨a1, _ | ⟨a2, _ | ⟨a3, t⟩⟩⟩
  · rfl
  · rfl
  · by_cases hg : chkCoreMask x.p maskLdsSts = true
    · simp only [hg, if_true, okBytes_andThen, toOpt_argReg x.p hp, evalLdsSts, field_int]
      generalize OpdD.field (OpdD.reg allRegMask) _ = o1
      cases o1 with
      | none => rfl
      | some r =>
        simp only [Option.bind_some]
        by_cases hi : idx ≠ 0
        · rw [if_pos hi]
          by_cases hc : 0 ≤ a1 ∧ a1 ≤ 65535 <;> simp [hc]
        · rw [if_neg hi]
          by_cases hc : 0 ≤ a2 ∧ a2 ≤ 65535 <;> simp [hc]
    · simp [hg]
  · rfl

theorem chkCoreMask_pOf (p : Props) (mask : Nat) : chkCoreMask p mask = chkCoreMask (pOf p.core) mask := rfl
theorem chkMinCore_pOf (p : Props) (k : Nat) : chkMinCore p k = chkMinCore (pOf p.core) k := rfl

theorem lds_core (m : Mn) (idx r k : Nat) (c : Cpu) (pc : Nat)
    (hall : (allBelow 32 fun r => wordIs (0x9000 ||| idx ||| (r <<< 4)) m [r] true) = true) (ra ka : Int)
    (hr : (OpdD.reg allRegMask).field ra = some r) (hk : (OpdD.int 0 65535).field ka = some k) :
    decode c pc (appendCode (0x9000 ||| idx ||| (r <<< 4)) ++ appendCode k) = some (⟨m, withWord2 m [r] k⟩, 4) ∧
    r = ra.toNat ∧ k = (ka % 2 ^ 16).toNat := by
  have hr32 : r < 32 := by
    have := OpdD.field_mem_dom _ _ _ hr
    simp only [OpdD.dom, List.mem_filter, List.mem_range] at this
    exact this.1
  have hw1 := wordIs_spec _ _ _ _ (allBelow_spec _ _ hall r hr32)
  have hrv := field_value _ _ _ _ allReg_match hr
  have hkv := field_value (.int 0 65535) (.imm 0 65535 16) _ _ (by decide) hk
  simp only [Opd.value, specVal] at hrv hkv
  have hk16 : k % 65536 = k := by
    simp only [OpdD.field] at hk
    split at hk <;> simp at hk
    subst hk; unfold toWord; omega
  have hkv' : (ka % 2 ^ 16).toNat = k := by rw [hkv]; simpa using hk16
  rw [decode_two c pc _ _ _ _ hw1, hk16]
  exact ⟨rfl, hrv.symm, hkv'.symm⟩

theorem lds_sound (m : Mn) (idx : Nat) (hg : goodLds m idx = true) (x : Ctx) (c : Cpu) (h : compat x.p c = true)
    (args : List Int) (bs : List Byte) (he : decodeLDSSTS x idx args = .ok bs) :
    decode c x.pc bs = some (meaning ⟨m, args⟩, bs.length) := by
  have hob : okBytes (decodeLDSSTS x idx args) = some bs := by rw [he]; rfl
  rw [lds_desc x (notMinTiny x.p c h)] at hob
  simp only [goodLds, Bool.and_eq_true, Bool.not_eq_true'] at hg
  obtain ⟨⟨⟨_, hshape⟩, _⟩, hall⟩ := hg
  rcases args with _ | ⟨a1, _ | ⟨a2, _ | ⟨a3, t⟩⟩⟩
  · simp at hob
  · simp at hob
  · by_cases hi : idx = 0
    · simp only [hi, bne_self_eq_false, Bool.false_eq_true, if_false, Bool.and_eq_true, beq_iff_eq] at hshape
      obtain ⟨rfl, hopds⟩ := hshape
      simp only [hi, ne_eq, not_true_eq_false, if_false] at hob
      split at hob
      · cases hr : (OpdD.reg allRegMask).field a1 with
        | none => simp [hr] at hob
        | some r =>
          cases hk : (OpdD.int 0 65535).field a2 with
          | none => simp [hr, hk] at hob
          | some k =>
            simp only [hr, hk, Option.bind_some, Option.map_some, Option.some.injEq] at hob
            subst hob
            have hall' := hall
            simp only [hi] at hall'
            obtain ⟨hd, hrv, hkv⟩ := lds_core .LDS 0 r k c x.pc hall' a1 a2 hr hk
            rw [hd]
            simp only [withWord2, meaning, hopds, values, canon, flagAlias, Opd.value, ← hrv, ← hkv, List.length_append, appendCode_length]
      · simp at hob
    · have hi' : (idx != 0) = true := by simpa using hi
      simp only [hi', if_true, Bool.and_eq_true, beq_iff_eq] at hshape
      obtain ⟨rfl, hopds⟩ := hshape
      simp only [hi, ne_eq, not_false_eq_true, if_true] at hob
      split at hob
      · cases hr : (OpdD.reg allRegMask).field a2 with
        | none => simp [hr] at hob
        | some r =>
          cases hk : (OpdD.int 0 65535).field a1 with
          | none => simp [hr, hk] at hob
          | some k =>
            simp only [hr, hk, Option.bind_some, Option.map_some, Option.some.injEq] at hob
            subst hob
            obtain ⟨hd, hrv, hkv⟩ := lds_core .STS idx r k c x.pc hall a2 a1 hr hk
            rw [hd]
            simp only [withWord2, meaning, hopds, values, canon, flagAlias, Opd.value, ← hrv, ← hkv, List.length_append, appendCode_length]
      · simp at hob
  · simp at hob

theorem lds_ok (m : Mn) (idx : Nat) (hg : goodLds m idx = true) (x : Ctx) (c : Cpu) (h : compat x.p c = true) (args : List Int) :
    isOk (decodeLDSSTS x idx args) = legal c x.pc ⟨m, args⟩ := by
  have hf := compat_facts x.p c h
  rw [isOk_okBytes, lds_desc x (notMinTiny x.p c h)]
  simp only [goodLds, Bool.and_eq_true, Bool.not_eq_true'] at hg
  obtain ⟨⟨⟨hbare, hshape⟩, hgate⟩, _⟩ := hg
  have hgt : chkCoreMask x.p maskLdsSts = decide (1 ≤ c.core) := by
    have := List.all_eq_true.mp hgate x.p.core (mem_cores5 x.p c h)
    simp only [beq_iff_eq] at this
    rw [chkCoreMask_pOf, this, hf.level]
  by_cases hi : idx = 0
  · simp only [hi, bne_self_eq_false, Bool.false_eq_true, if_false, Bool.and_eq_true, beq_iff_eq] at hshape
    obtain ⟨rfl, hopds⟩ := hshape
    simp only [legal, avail, minCore, minPcBits, modeOk, hopds, form, fLds, Bool.false_and, Bool.false_or, List.isEmpty_cons, Bool.not_false,
      Bool.true_and, Nat.zero_le, decide_true, Bool.and_true]
    rcases args with _ | ⟨a1, _ | ⟨a2, _ | ⟨a3, t⟩⟩⟩
    · simp [acceptsAll]
    · simp [acceptsAll]
    · simp only [hi, ne_eq, not_true_eq_false, if_false, acceptsAll, Bool.and_true, Opd.accepts, RegCls.ok, hgt]
      by_cases hc : 1 ≤ c.core
      · simp only [hc, decide_true, if_true, Bool.true_and]
        have h1 := allReg_field a1
        have h2 := int_field_isSome 0 65535 a2
        cases hr : (OpdD.reg allRegMask).field a1 <;> cases hk : (OpdD.int 0 65535).field a2 <;>
          simp only [hr, hk, Option.isSome_some, Option.isSome_none] at h1 h2 <;>
          simp [← h1, ← h2] <;> (simp at h1 h2; omega)
      · simp [hc]
    · simp [acceptsAll]
  · have hi' : (idx != 0) = true := by simpa using hi
    simp only [hi', if_true, Bool.and_eq_true, beq_iff_eq] at hshape
    obtain ⟨rfl, hopds⟩ := hshape
    simp only [legal, avail, minCore, minPcBits, modeOk, hopds, form, fSts, Bool.false_and, Bool.false_or, List.isEmpty_cons, Bool.not_false,
      Bool.true_and, Nat.zero_le, decide_true, Bool.and_true]
    rcases args with _ | ⟨a1, _ | ⟨a2, _ | ⟨a3, t⟩⟩⟩
    · simp [acceptsAll]
    · simp [acceptsAll]
    · simp only [hi, ne_eq, not_false_eq_true, if_true, acceptsAll, Bool.and_true, Opd.accepts, RegCls.ok, hgt]
      by_cases hc : 1 ≤ c.core
      · simp only [hc, decide_true, if_true, Bool.true_and]
        have h1 := allReg_field a2
        have h2 := int_field_isSome 0 65535 a1
        cases hr : (OpdD.reg allRegMask).field a2 <;> cases hk : (OpdD.int 0 65535).field a1 <;>
          simp only [hr, hk, Option.isSome_some, Option.isSome_none] at h1 h2 <;>
          simp [← h1, ← h2] <;> (simp at h1 h2; omega)
      · simp [hc]
    · simp [acceptsAll]

/-! #### `CBI/SBI/SBIC/SBIS` -/

/-- the statements on which `DecodePBit` keeps sixteen bits of an address (nine before the repair 99afd52) that passed the range check of the data space -/
def pbitTrunc (p : Props) (s : Src) : Prop :=
  (form s.mn).opds = [.imm 0 31 5, .imm 0 7 3] ∧ ∃ a bit, s.args = [a, bit] ∧ 65536 ≤ a ∧ a ≤ segLimitData p

noncomputable def goodPbit (m : Mn) (code : Nat) : Bool :=
  (form m).opds == [.imm 0 31 5, .imm 0 7 3] && !(form m).bare && (m == .CBI || m == .SBI || m == .SBIC || m == .SBIS) &&
  allBelow 32 fun A => allBelow 8 fun bit => wordIs (code ||| bit ||| (A <<< 3)) m [A, bit] false

theorem pbit_desc (x : Ctx) (c : Cpu) (h : compat x.p c = true) (code : Nat) (args : List Int) :
    okBytes (decodePBit x code args) =
      match args with
      | [a1, a2] =>
        if (0 ≤ a2 ∧ a2 ≤ 7) ∧ (0 ≤ a1 ∧ a1 ≤ dataHi x.p) ∧ ¬ (a1 > segLimitData x.p) ∧ ¬ (a1.toNat % 65536 > 31) then
          some (appendCode (code ||| toWord a2 ||| ((a1.toNat % 65536) <<< 3)))
        else none
      | _ => none := by
  have hf := compat_facts x.p c h
  unfold decodePBit
  rcases args with _ | ⟨a1, _ | ⟨a2, _ | ⟨a3, t⟩⟩⟩
  · rfl
  · rfl
  · simp only [evalPBit, evalInt_range _ _ _ hf.dataT]
    by_cases h2 : 0 ≤ a2 ∧ a2 ≤ 7
    · by_cases h1 : 0 ≤ a1 ∧ a1 ≤ dataHi x.p
      · by_cases h3 : a1 > segLimitData x.p
        · simp [h2, h1, h3]
        · by_cases h4 : a1.toNat % 65536 > 31
          · simp [h2, h1, h3, h4]
          · simp [h2, h1, h3, h4]
      · simp [h2, h1]
    · simp [h2]
  · rfl

theorem pbit_sound (m : Mn) (code : Nat) (hg : goodPbit m code = true) (x : Ctx) (c : Cpu) (h : compat x.p c = true)
    (args : List Int) (hside : ¬ pbitTrunc x.p ⟨m, args⟩) (bs : List Byte) (he : decodePBit x code args = .ok bs) :
    decode c x.pc bs = some (meaning ⟨m, args⟩, bs.length) := by
  have hob : okBytes (decodePBit x code args) = some bs := by rw [he]; rfl
  rw [pbit_desc x c h] at hob
  simp only [goodPbit, Bool.and_eq_true, beq_iff_eq, Bool.not_eq_true', Bool.or_eq_true] at hg
  obtain ⟨⟨⟨hopds, _⟩, hm⟩, hall⟩ := hg
  rcases args with _ | ⟨a1, _ | ⟨a2, _ | ⟨a3, t⟩⟩⟩
  · simp at hob
  · simp at hob
  · simp only at hob
    split at hob
    · rename_i hc
      simp only [Option.some.injEq] at hob
      subst hob
      have hlt : a1 < 65536 := by
        by_cases h5 : a1 < 65536
        · exact h5
        · exact absurd ⟨hopds, a1, a2, rfl, by omega, by omega⟩ hside
      have ha : a1.toNat % 65536 = a1.toNat := by omega
      have h32 : a1.toNat < 32 := by omega
      have hb8 : a2.toNat < 8 := by omega
      have hbw : toWord a2 = a2.toNat := by unfold toWord; omega
      have hw1 := wordIs_spec _ _ _ _ (allBelow_spec _ _ (allBelow_spec _ _ hall _ h32) _ hb8)
      have hrel : isRel m = false := by rcases hm with ((rfl | rfl) | rfl) | rfl <;> rfl
      rw [ha, hbw, decode_append c x.pc _ _ _ hw1, absolutise_notRel c x.pc _ _ hrel, appendCode_length]
      have hv1 : (a1 % 2 ^ 5).toNat = a1.toNat := by simp only [Int.reducePow]; omega
      have hv2 : (a2 % 2 ^ 3).toNat = a2.toNat := by simp only [Int.reducePow]; omega
      rcases hm with ((rfl | rfl) | rfl) | rfl <;>
        simp only [meaning, form, fIoBit, values, canon, flagAlias, Opd.value, hv1, hv2]
    · simp at hob
  · simp at hob

theorem pbit_ok (m : Mn) (code : Nat) (hg : goodPbit m code = true) (x : Ctx) (c : Cpu) (h : compat x.p c = true)
    (args : List Int) (hside : ¬ pbitTrunc x.p ⟨m, args⟩) :
    isOk (decodePBit x code args) = legal c x.pc ⟨m, args⟩ := by
  have hf := compat_facts x.p c h
  rw [isOk_okBytes, pbit_desc x c h]
  simp only [goodPbit, Bool.and_eq_true, beq_iff_eq, Bool.not_eq_true', Bool.or_eq_true] at hg
  obtain ⟨⟨⟨hopds, hbare⟩, hm⟩, _⟩ := hg
  have hav : avail c m args = true ∧ modeOk m args = true := by
    rcases hm with ((rfl | rfl) | rfl) | rfl <;> simp [avail, minCore, minPcBits, modeOk]
  simp only [legal, hav.1, hav.2, hopds, hbare, Bool.true_and, Bool.false_and, Bool.false_or, List.isEmpty_cons, Bool.not_false]
  rcases args with _ | ⟨a1, _ | ⟨a2, _ | ⟨a3, t⟩⟩⟩
  · rfl
  · simp [acceptsAll]
  · simp only [acceptsAll, Bool.and_true, Opd.accepts]
    have hlt : a1 < 65536 ∨ a1 > segLimitData x.p := by
      by_cases h5 : a1 < 65536
      · exact Or.inl h5
      · by_cases h6 : a1 > segLimitData x.p
        · exact Or.inr h6
        · exact absurd ⟨hopds, a1, a2, rfl, by omega, by omega⟩ hside
    have h31 := hf.data31
    have hle := hf.dataLe
    by_cases hc : (0 ≤ a2 ∧ a2 ≤ 7) ∧ (0 ≤ a1 ∧ a1 ≤ dataHi x.p) ∧ ¬ (a1 > segLimitData x.p) ∧ ¬ (a1.toNat % 65536 > 31)
    · have : (0 ≤ a1 ∧ a1 ≤ 31) ∧ (0 ≤ a2 ∧ a2 ≤ 7) := by omega
      simp [hc, this]
    · have : ¬ ((0 ≤ a1 ∧ a1 ≤ 31) ∧ (0 ≤ a2 ∧ a2 ≤ 7)) := by omega
      have h' : (decide (0 ≤ a1) && decide (a1 ≤ 31) && (decide (0 ≤ a2) && decide (a2 ≤ 7))) = false := by
        simpa using this
      simp only [hc, if_false, Option.isSome_none, h']
  · simp [acceptsAll]




end AslModel.Isa.IAvr
