import AslModel.Model.CodeOrder
import AslModel.Lemmas.CodeCtl
/-! Lemmas for `Props/C04_Order.lean`: word buffer + `DreheCodes` against the documented byte order. -/
namespace AslModel.CodeFile
open AslModel.PFile

theorem drehe2_pair (x y : Byte) (r : List Byte) : drehe2 ([x, y] ++ r) = [y, x] ++ drehe2 r := rfl

/-- host-order word buffer, turned pairwise = high byte first -/
theorem drehe2_enter (big : Bool) (vals : List Nat) : drehe2 (enterWords 2 big vals) = specWordBytes true vals := by
  induction vals with
  | nil => rfl
  | cons v r ih =>
    have h : (2 : Byte) ≠ 1 := by decide
    simp only [enterWords, h, if_false, specWordBytes, if_true]
    rw [drehe2_pair, ih]

/-- host-order word buffer, not turned = low byte first -/
theorem enter_host (big : Bool) (vals : List Nat) : enterWords 2 big vals = specWordBytes false vals := by
  induction vals with
  | nil => rfl
  | cons v r ih =>
    have h : (2 : Byte) ≠ 1 := by decide
    simp only [enterWords, h, if_false, specWordBytes, ih, Bool.false_eq_true]

/-- a byte-listed back end writes its own order -/
theorem enter_bytewise (big : Bool) (vals : List Nat) : enterWords 1 big vals = specWordBytes big vals := by
  induction vals with
  | nil => rfl
  | cons v r ih => simp only [enterWords, if_true, specWordBytes, ih]

theorem drehe_one (l : List Byte) : drehe 1 l = l := by
  have h2 : (1 : Byte) ≠ 2 := by decide
  have h4 : (1 : Byte) ≠ 4 := by decide
  simp [drehe, h2, h4]

theorem drehe_two (l : List Byte) : drehe 2 l = drehe2 l := by simp [drehe]

theorem modelWordBytes_spec (s : CS) (vals : List Nat) (h : s.cpu.Coherent s.actPC) :
    modelWordBytes s vals = specWordBytes s.cpu.big vals := by
  unfold modelWordBytes writeOrder
  rcases h with h1 | ⟨h2, ht⟩
  · rw [h1, drehe_one, enter_bytewise]
    simp
  · rw [h2, drehe_two, drehe2_enter, enter_host, ht]
    cases s.cpu.big <;> simp

theorem lower_eq (l : List WStmt) : ∀ (s : CS), OrderWF s l → lowerM s l = lowerS s l := by
  induction l with
  | nil => intro s _; rfl
  | cons x r ih =>
    intro s h
    cases x with
    | ctl c =>
      simp only [lowerM, lowerS, ctlStep_state]
      rw [ih _ h]
    | words vs =>
      obtain ⟨hc, hr⟩ := h
      simp only [lowerM, lowerS, ctlStep_state, modelWordBytes_spec s vs hc]
      rw [ih _ hr]

end AslModel.CodeFile
