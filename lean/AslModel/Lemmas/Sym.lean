import AslModel.Model.Sym
import AslModel.Spec.Scope
/-! Helper lemmas for C13 (symbol table as a map, frame facts of the statement functions, stacks). -/
namespace AslModel.Sym
open AslModel.Generated.Sym

/-! ### the table is a finite map -/

theorem tfind_tset_same (t : Tab) (k : Key) (e : Entry) : tfind (tset t k e) k = some e := by
  induction t with
  | nil => simp [tset, tfind]
  | cons a r ih =>
    obtain ⟨k', e'⟩ := a
    by_cases h : k' = k
    · simp [tset, tfind, h]
    · simp [tset, tfind, h, ih]

theorem tfind_tset_other (t : Tab) (k k2 : Key) (e : Entry) (h : k2 ≠ k) : tfind (tset t k e) k2 = tfind t k2 := by
  induction t with
  | nil =>
    have : ¬ k = k2 := fun x => h x.symm
    simp [tset, tfind, this]
  | cons a r ih =>
    obtain ⟨k', e'⟩ := a
    by_cases h1 : k' = k
    · subst h1
      have : ¬ k' = k2 := fun x => h x.symm
      simp [tset, tfind, this]
    · by_cases h2 : k' = k2
      · subst h2
        simp [tset, tfind, h1]
      · simp [tset, tfind, h1, h2, ih]

/-! ### case folding -/

theorem upn_idem (n : Nat) : upn (upn n) = upn n := by
  unfold upn
  repeat' split
  all_goals omega

theorem upper_idem (s : Name) : upper (upper s) = upper s := by
  induction s with
  | nil => rfl
  | cons a r ih =>
    simp only [upper, List.map_cons, List.cons.injEq] at ih ⊢
    exact ⟨upn_idem a, ih⟩

theorem fold_upper (s : Name) : fold false (upper s) = fold false s := by
  simp [fold, upper_idem]

/-! ### constants are frame facts of everything except POPV -/

/-- the node `k` holds a defined EQU constant of value `v` -/
def ConstAt (t : Tab) (k : Key) (v : Int) : Prop := tfind t k = some { val := v, defined := true, changeable := false }

/-- every constant of `t` is still the same constant in `t'` -/
def ConstPres (t t' : Tab) : Prop := ∀ k v, ConstAt t k v → ConstAt t' k v

theorem ConstPres.refl (t : Tab) : ConstPres t t := fun _ _ h => h
theorem ConstPres.trans {a b c : Tab} (h1 : ConstPres a b) (h2 : ConstPres b c) : ConstPres a c :=
  fun k v h => h2 k v (h1 k v h)

theorem symbolAdder_const (v v' : Int) (mc : Bool) :
    ∃ n, symbolAdder (some { val := v, defined := true, changeable := false }) v' mc = .error n ∧
      (n = errDoubleDef ∨ n = errConstantRedefinedAsVariable) := by
  cases mc <;> simp [symbolAdder]

theorem enterTree_constPres (st : St) (key : Key) (v : Int) (mc : Bool) : ConstPres st.tab (enterTree st key v mc).tab := by
  intro k w hk
  unfold enterTree
  cases hsa : symbolAdder (tfind st.tab key) v mc with
  | error n => simpa [St.err] using hk
  | ok p =>
    obtain ⟨e, rp⟩ := p
    by_cases hkk : k = key
    · subst hkk
      unfold ConstAt at hk
      rw [hk] at hsa
      obtain ⟨n, hn, _⟩ := symbolAdder_const w v mc
      rw [hn] at hsa
      cases hsa
    · simp only [ConstAt]
      rw [tfind_tset_other _ _ _ _ hkk]
      exact hk

theorem enterTree_stack (st : St) (key : Key) (v : Int) (mc : Bool) :
    (enterTree st key v mc).stack = st.stack ∧ (enterTree st key v mc).mom = st.mom ∧ (enterTree st key v mc).secs = st.secs := by
  unfold enterTree
  split <;> simp [St.err]

theorem enterTree_constPres2 {t : Tab} (st : St) (key : Key) (v : Int) (mc : Bool) (h : ConstPres t st.tab) :
    ConstPres t (enterTree st key v mc).tab :=
  ConstPres.trans h (enterTree_constPres st key v mc)

theorem enterSymbol_constPres (st : St) (n : Name) (v : Int) (mc : Bool) (res : Int) :
    ConstPres st.tab (enterSymbol st n v mc res).tab := by
  unfold enterSymbol
  try dsimp only
  repeat' split
  all_goals ((repeat (apply enterTree_constPres2)); exact ConstPres.refl _)

theorem chkTmp3_tab (st : St) (n : Name) (src : SymSource) : (chkTmp3 st n src).1.tab = st.tab := by
  unfold chkTmp3
  repeat' split
  all_goals rfl

theorem chkTmpDef_tab (st : St) (n : Name) (src : SymSource) : (chkTmpDef st n src).1.tab = st.tab := by
  unfold chkTmpDef
  try dsimp only
  repeat' split
  all_goals (first | rfl | exact chkTmp3_tab _ _ _)

theorem defineSymbol_constPres (st : St) (n : Name) (v : Int) (mc : Bool) (src : SymSource) :
    ConstPres st.tab (defineSymbol st n v mc src).tab := by
  unfold defineSymbol
  cases hgs : getSymSection st n with
  | invName => exact ConstPres.refl _
  | invSection => exact ConstPres.refl _
  | plain n' =>
    cases hc : chkTmpDef st n' src with
    | mk st1 n1 =>
      have h1 := chkTmpDef_tab st n' src
      rw [hc] at h1
      have h := enterSymbol_constPres st1 n1 v mc (-2)
      simp only at h1
      rw [h1] at h
      simp only [hc]
      exact h
  | sect n' h' =>
    cases hc : chkTmpDef st n' src with
    | mk st1 n1 =>
      have h1 := chkTmpDef_tab st n' src
      rw [hc] at h1
      have h := enterSymbol_constPres st1 n1 v mc h'
      simp only at h1
      rw [h1] at h
      simp only [hc]
      exact h

theorem findNode_tab (st : St) (n : Name) : (findNode st n).1.tab = st.tab := by
  unfold findNode
  try dsimp only
  repeat' split
  all_goals rfl

theorem lookupSymbol_tab (st : St) (n : Name) : (lookupSymbol st n).1.tab = st.tab := by
  unfold lookupSymbol
  split
  · rfl
  · dsimp only
    generalize (chkTmp1 st ((chkTmp2Ref st n).getD n)).getD ((chkTmp2Ref st n).getD n) = m
    have := findNode_tab st m
    split <;> (try split) <;> simp_all [St.err]

theorem pushSymbol_tab (st : St) (s k : Name) : (pushSymbol st s k).tab = st.tab := by
  unfold pushSymbol
  cases hfn : findNode st s with
  | mk st1 r =>
    have h1 := findNode_tab st s
    rw [hfn] at h1
    simp only at h1
    cases r with
    | none => simpa [St.err] using h1
    | some p => simpa using h1

theorem foldl_tab_eq {α : Type} (f : St → α → St) (h : ∀ s a, (f s a).tab = s.tab) (l : List α) (st : St) :
    (l.foldl f st).tab = st.tab := by
  induction l generalizing st with
  | nil => rfl
  | cons a r ih => simp [List.foldl, ih, h]

theorem ppSym_tab (st : St) (k : PPKind) (a b : Name) : (ppSym st k a b).tab = st.tab := by
  unfold ppSym
  try dsimp only
  repeat' split
  all_goals simp [St.err]

theorem codePPSyms_tab (st : St) (k : PPKind) (args : List (Name × Name)) : (codePPSyms st k args).tab = st.tab := by
  unfold codePPSyms
  try dsimp only
  split
  · rfl
  · exact foldl_tab_eq _ (fun s (a : Name × Name) => ppSym_tab s k a.1 a.2) _ _

theorem codeSection_tab (st : St) (n : Name) : (codeSection st n).tab = st.tab := by
  unfold codeSection
  try dsimp only
  repeat' split
  all_goals simp [St.err]

theorem undefdForward_tab (st : St) (l : List Fwd) : (undefdForward st l).tab = st.tab := by
  unfold undefdForward
  exact foldl_tab_eq _ (fun s _ => by simp [St.err]) _ _

theorem codeEndSection_tab (st : St) (a : Option Name) : (codeEndSection st a).tab = st.tab := by
  unfold codeEndSection
  repeat' split
  all_goals (try dsimp only)
  all_goals (repeat' split)
  all_goals simp [St.err, undefdForward_tab]

def Op.isPopv : Op → Bool
  | .popv _ _ => true
  | _ => false

theorem walk_sound (t : Tab) (name : Name) (chain : List Int) (k : Key) (e : Entry) (h : walk t name chain = some (k, e)) :
    tfind t k = some e := by
  induction chain with
  | nil => simp [walk] at h
  | cons hd r ih =>
    simp only [walk] at h
    split at h
    · rename_i e' he
      simp only [Option.some.injEq, Prod.mk.injEq] at h
      obtain ⟨rfl, rfl⟩ := h
      exact he
    · exact ih h

/-- what `findNode` returns is an entry of the table it leaves behind -/
theorem findNode_sound (st : St) (n : Name) (k : Key) (e : Entry) (h : (findNode st n).2 = some (k, e)) :
    tfind st.tab k = some e := by
  unfold findNode at h
  simp only at h
  cases hg : getSymSection st (chkTmp3Ref st n) with
  | invName => rw [hg] at h; simp at h
  | invSection => rw [hg] at h; simp at h
  | plain n' =>
    rw [hg] at h
    simp only at h
    by_cases hf : fwdOverride st (fold st.cs n') = true
    · simp only [hf, if_true, Option.map_eq_some_iff] at h
      obtain ⟨e', he, hk⟩ := h
      simp only [Prod.mk.injEq] at hk
      obtain ⟨rfl, rfl⟩ := hk
      exact he
    · simp only [hf] at h
      exact walk_sound _ _ _ _ _ h
  | sect n' h' =>
    rw [hg] at h
    simp only [Option.map_eq_some_iff] at h
    obtain ⟨e', he, hk⟩ := h
    simp only [Prod.mk.injEq] at hk
    obtain ⟨rfl, rfl⟩ := hk
    exact he

/-- POPV never changes a constant: a destination that is not changeable is refused unless the saved value is the one it has -/
theorem popSymbol_constPres (st : St) (sym stk : Name) : ConstPres st.tab (popSymbol st sym stk).tab := by
  unfold popSymbol
  have htab := findNode_tab st sym
  have hs := findNode_sound st sym
  cases hf : findNode st sym with
  | mk st1 r =>
    rw [hf] at htab hs
    simp only at htab hs ⊢
    cases r with
    | none => simp only [St.err]; rw [htab]; exact ConstPres.refl _
    | some ke =>
      obtain ⟨key, e⟩ := ke
      have hke := hs key e rfl
      simp only
      cases hst : getStack st1.stacks (stackNameOf st1 stk) with
      | nil => simp only [St.err]; rw [htab]; exact ConstPres.refl _
      | cons v0 rest =>
        simp only
        by_cases hc : e.changeable = false ∧ e.val ≠ v0
        · rw [if_pos hc]; simp only [St.err]; rw [htab]; exact ConstPres.refl _
        · rw [if_neg hc]
          intro k v hk
          simp only [ConstAt] at hk ⊢
          by_cases hkk : k = key
          · subst hkk
            rw [hke] at hk
            simp only [Option.some.injEq] at hk
            have hch : e.changeable = false := by rw [hk]
            have hv : e.val = v0 := by
              by_cases hv : e.val = v0
              · exact hv
              · exact absurd ⟨hch, hv⟩ hc
            rw [tfind_tset_same]
            subst hk
            simp only at hv
            simp only [hv]
          · rw [htab, tfind_tset_other _ _ _ _ hkk]
            exact hk

theorem codeEnum_constPres (st : St) (items : List (Name × Option Int)) : ConstPres st.tab (codeEnum st items).tab := by
  unfold codeEnum
  induction items generalizing st with
  | nil => exact ConstPres.refl _
  | cons it r ih =>
    simp only [List.foldl_cons]
    refine ConstPres.trans ?_ (ih _)
    exact defineSymbol_constPres { st with enumCur := it.2.getD st.enumCur } it.1 _ false .define

theorem step_constPres (st : St) (op : Op) (h : op.isPopv = false) : ConstPres st.tab (step st op).tab := by
  cases op with
  | section_ n => simp only [step]; rw [codeSection_tab]; exact ConstPres.refl _
  | endsection a => simp only [step]; rw [codeEndSection_tab]; exact ConstPres.refl _
  | define n v mc => simp only [step]; exact defineSymbol_constPres { st with line := st.line + 1 } _ _ _ _
  | label n => simp only [step]; exact defineSymbol_constPres { st with line := st.line + 1 } _ _ _ _
  | labelOnly n => simp only [step]; exact defineSymbol_constPres { st with line := st.line + 1 } _ _ _ _
  | labelPc n => simp only [step]; exact defineSymbol_constPres { st with line := st.line + 1 } _ _ _ _
  | labelWord n r =>
    simp only [step, emitWord]
    have h1 := defineSymbol_constPres { st with line := st.line + 1 } n ({ st with line := st.line + 1 } : St).pc false .label
    have := lookupSymbol_tab (defineSymbol { st with line := st.line + 1 } n ({ st with line := st.line + 1 } : St).pc false .label) r
    intro k v hk
    simp only [ConstAt] at hk ⊢
    rw [this]
    exact h1 k v hk
  | enum_ next items =>
    simp only [step]
    cases next with
    | true => simp only [if_true]; exact codeEnum_constPres { st with line := st.line + 1 } _
    | false =>
      simp only [Bool.false_eq_true, if_false]
      exact codeEnum_constPres { st with line := st.line + 1, enumCur := 0 } _
  | use r =>
    simp only [step, emitWord]
    have := lookupSymbol_tab { st with line := st.line + 1 } r
    intro k v hk
    simp only [ConstAt] at hk ⊢
    rw [this]
    exact hk
  | pp k args => simp only [step]; rw [codePPSyms_tab]; exact ConstPres.refl _
  | pushv k syms =>
    simp only [step]
    rw [foldl_tab_eq _ (fun s x => pushSymbol_tab s x k)]
    exact ConstPres.refl _
  | popv k syms => simp [Op.isPopv] at h

theorem run_constPres (st : St) (ops : List Op) (h : ∀ op ∈ ops, op.isPopv = false) : ConstPres st.tab (run st ops).tab := by
  induction ops generalizing st with
  | nil => exact ConstPres.refl _
  | cons op r ih =>
    simp only [run, List.foldl]
    exact ConstPres.trans (step_constPres st op (h op (by simp))) (ih (step st op) (fun o ho => h o (by simp [ho])))

theorem foldl_popSymbol_constPres (k : Name) (syms : List Name) (st : St) :
    ConstPres st.tab (syms.foldl (fun s x => popSymbol s x k) st).tab := by
  induction syms generalizing st with
  | nil => exact ConstPres.refl _
  | cons x r ih => exact ConstPres.trans (popSymbol_constPres st x k) (ih (popSymbol st x k))

/-- every statement, POPV included, leaves every constant as it is -/
theorem step_constPres_all (st : St) (op : Op) : ConstPres st.tab (step st op).tab := by
  cases hp : op.isPopv with
  | false => exact step_constPres st op hp
  | true =>
    cases op with
    | popv k syms => simp only [step]; exact foldl_popSymbol_constPres k syms { st with line := st.line + 1 }
    | _ => simp [Op.isPopv] at hp

theorem run_constPres_all (st : St) (ops : List Op) : ConstPres st.tab (run st ops).tab := by
  induction ops generalizing st with
  | nil => exact ConstPres.refl _
  | cons op r ih =>
    simp only [run, List.foldl]
    exact ConstPres.trans (step_constPres_all st op) (ih (step st op))

/-! ### PUSHV/POPV stacks -/

theorem getStack_filter_ne (s : List (Name × List Int)) (k : Name) : getStack (s.filter (fun p => p.1 ≠ k)) k = [] := by
  induction s with
  | nil => rfl
  | cons a r ih =>
    obtain ⟨n, c'⟩ := a
    by_cases h : n = k <;> simp_all [List.filter, getStack]

theorem getStack_filter_other (s : List (Name × List Int)) (k k2 : Name) (h : k2 ≠ k) :
    getStack (s.filter (fun p => p.1 ≠ k)) k2 = getStack s k2 := by
  induction s with
  | nil => rfl
  | cons a r ih =>
    obtain ⟨n, c'⟩ := a
    by_cases h1 : n = k
    · have : ¬ n = k2 := fun x => h (x.symm.trans h1)
      simp_all [List.filter, getStack]
    · by_cases h2 : n = k2 <;> simp_all [List.filter, getStack]

theorem getStack_insStack_same (s : List (Name × List Int)) (k : Name) (c : List Int) : getStack (insStack s k c) k = c := by
  induction s with
  | nil => simp [insStack, getStack]
  | cons a r ih =>
    obtain ⟨n, c'⟩ := a
    by_cases h : n = k
    · simp [insStack, getStack, h]
    · by_cases h2 : nameLt k n = true
      · simp [insStack, getStack, h, h2]
      · simp [insStack, getStack, h, h2, ih]

theorem getStack_insStack_other (s : List (Name × List Int)) (k k2 : Name) (c : List Int) (hne : k2 ≠ k) :
    getStack (insStack s k c) k2 = getStack s k2 := by
  have hne' : ¬ k = k2 := fun x => hne x.symm
  induction s with
  | nil => simp [insStack, getStack, hne']
  | cons a r ih =>
    obtain ⟨n, c'⟩ := a
    by_cases h : n = k
    · subst h
      simp [insStack, getStack, hne']
    · by_cases h2 : nameLt k n = true
      · simp [insStack, getStack, h, h2, hne']
      · by_cases h3 : n = k2
        · subst h3
          simp [insStack, getStack, h, h2]
        · simp [insStack, getStack, h, h2, h3, ih]

theorem getStack_setStack_same (s : List (Name × List Int)) (k : Name) (c : List Int) : getStack (setStack s k c) k = c := by
  unfold setStack
  split
  · rename_i h
    have : c = [] := by cases c <;> simp_all
    subst this
    exact getStack_filter_ne s k
  · exact getStack_insStack_same s k c

theorem getStack_setStack_other (s : List (Name × List Int)) (k k2 : Name) (c : List Int) (h : k2 ≠ k) :
    getStack (setStack s k c) k2 = getStack s k2 := by
  unfold setStack
  split
  · exact getStack_filter_other s k k2 h
  · exact getStack_insStack_other s k k2 c h

/-! ### the stand-in for the SHA-1 suffix of `$$` names is injective on byte strings -/

theorem hexDigit_pair_inj (a b : Nat) (ha : a < 256) (hb : b < 256)
    (h1 : hexDigit (a / 16 % 16) = hexDigit (b / 16 % 16)) (h2 : hexDigit (a % 16) = hexDigit (b % 16)) : a = b := by
  unfold hexDigit at h1 h2
  split at h1 <;> split at h1 <;> split at h2 <;> split at h2 <;> omega

theorem hashName_inj (a b : Name) (ha : ∀ c ∈ a, c < 256) (hb : ∀ c ∈ b, c < 256) (h : hashName a = hashName b) : a = b := by
  induction a generalizing b with
  | nil =>
    cases b with
    | nil => rfl
    | cons y s => simp [hashName] at h
  | cons x r ih =>
    cases b with
    | nil => simp [hashName] at h
    | cons y s =>
      simp only [hashName, List.flatMap_cons, List.cons_append, List.nil_append, List.cons.injEq] at h
      obtain ⟨h1, h2, h3⟩ := h
      have hxy := hexDigit_pair_inj x y (ha x (by simp)) (hb y (by simp)) h1 h2
      have := ih s (fun c hc => ha c (by simp [hc])) (fun c hc => hb c (by simp [hc])) h3
      rw [hxy, this]

/-! ### section table -/

theorem secIdx_spec (secs : List (Name × Int)) (k : Name × Int) :
    ∀ i j, secIdx secs k i = some j → i ≤ j ∧ secs[j - i]? = some k := by
  induction secs with
  | nil => intro i j h; simp [secIdx] at h
  | cons a r ih =>
    intro i j h
    by_cases ha : a = k
    · simp [secIdx, ha] at h
      subst h
      simp [ha]
    · simp only [secIdx, ha, if_false] at h
      obtain ⟨h1, h2⟩ := ih (i + 1) j h
      refine ⟨by omega, ?_⟩
      have : j - i = (j - (i + 1)) + 1 := by omega
      rw [this]
      simpa using h2

end AslModel.Sym
