import AslModel.Model.Dis.HexLoad
/-! Lemmas about the model of dasl's Intel-hex loader (`Model/Dis/HexLoad.lean`): what the collected chunks contain. -/
deriving instance DecidableEq for AslModel.Dis.CodeChunk

namespace AslModel.Dis.HexLoad
open AslModel.Dis

/-- chunk (or data record) `c` stores byte `b` at address `a` -/
def At (c : CodeChunk) (a : Nat) (b : UInt8) : Prop := c.start ≤ a ∧ c.data[a - c.start]? = some b

/-- some chunk (data record) of the list stores byte `b` at address `a` -/
def Holds (cs : List CodeChunk) (a : Nat) (b : UInt8) : Prop := ∃ c ∈ cs, At c a b

/-- every address has at most one value -/
def Functional (cs : List CodeChunk) : Prop := ∀ a b b', Holds cs a b → Holds cs a b' → b = b'

/-- the address ranges of the records are pairwise disjoint -/
def Disjoint (rs : List CodeChunk) : Prop :=
  rs.Pairwise (fun x y => x.start + x.data.length ≤ y.start ∨ y.start + y.data.length ≤ x.start)

theorem At.lt {c : CodeChunk} {a : Nat} {b : UInt8} (h : At c a b) : a < c.start + c.data.length := by
  obtain ⟨h1, h2⟩ := h
  have := (List.getElem?_eq_some_iff.mp h2).1
  omega

theorem holds_nil (a : Nat) (b : UInt8) : ¬ Holds [] a b := by
  rintro ⟨c, hc, _⟩
  cases hc

theorem holds_cons (c : CodeChunk) (cs : List CodeChunk) (a : Nat) (b : UInt8) :
    Holds (c :: cs) a b ↔ At c a b ∨ Holds cs a b := by
  constructor
  · rintro ⟨x, hx, hat⟩
    rcases List.mem_cons.mp hx with rfl | hx
    · exact Or.inl hat
    · exact Or.inr ⟨x, hx, hat⟩
  · rintro (h | ⟨x, hx, hat⟩)
    · exact ⟨c, List.mem_cons_self, h⟩
    · exact ⟨x, List.mem_cons_of_mem _ hx, hat⟩

theorem at_empty (s a : Nat) (b : UInt8) : ¬ At ⟨s, []⟩ a b := by
  rintro ⟨_, h⟩
  simp at h

theorem at_of_length_zero (c : CodeChunk) (h : c.data.length = 0) (a : Nat) (b : UInt8) : ¬ At c a b := by
  intro hat
  have := hat.lt
  have := hat.1
  omega

/-- appending a record that starts at the end of the chunk adds exactly the record's bytes -/
theorem at_append (s : Nat) (d d' : List UInt8) (a : Nat) (b : UInt8) :
    At ⟨s, d ++ d'⟩ a b ↔ At ⟨s, d⟩ a b ∨ At ⟨s + d.length, d'⟩ a b := by
  unfold At
  simp only
  by_cases hlt : a - s < d.length
  · rw [List.getElem?_append_left hlt]
    constructor
    · intro h; exact Or.inl h
    · rintro (h | ⟨h1, _⟩)
      · exact h
      · omega
  · have hge : d.length ≤ a - s := Nat.le_of_not_lt hlt
    rw [List.getElem?_append_right hge]
    constructor
    · rintro ⟨h1, h2⟩
      refine Or.inr ⟨by omega, ?_⟩
      have : a - (s + d.length) = a - s - d.length := by omega
      rw [this]; exact h2
    · rintro (⟨_, h2⟩ | ⟨h1, h2⟩)
      · have := (List.getElem?_eq_some_iff.mp h2).1
        omega
      · refine ⟨by omega, ?_⟩
        have : a - (s + d.length) = a - s - d.length := by omega
        rw [this] at h2; exact h2

theorem mem_imageInsert (c x : CodeChunk) : ∀ img : Image, x ∈ imageInsert c img ↔ x = c ∨ x ∈ img := by
  intro img
  induction img with
  | nil => simp [imageInsert]
  | cons y ys ih =>
    unfold imageInsert
    split
    · simp
    · simp only [List.mem_cons, ih]
      constructor
      · rintro (h | h | h)
        · exact Or.inr (Or.inl h)
        · exact Or.inl h
        · exact Or.inr (Or.inr h)
      · rintro (h | h | h)
        · exact Or.inr (Or.inl h)
        · exact Or.inl h
        · exact Or.inr (Or.inr h)

theorem holds_imageInsert (c : CodeChunk) (img : Image) (a : Nat) (b : UInt8) :
    Holds (imageInsert c img) a b ↔ At c a b ∨ Holds img a b := by
  constructor
  · rintro ⟨x, hx, hat⟩
    rcases (mem_imageInsert c x img).mp hx with rfl | hx
    · exact Or.inl hat
    · exact Or.inr ⟨x, hx, hat⟩
  · rintro (h | ⟨x, hx, hat⟩)
    · exact ⟨c, (mem_imageInsert c c img).mpr (Or.inl rfl), h⟩
    · exact ⟨x, (mem_imageInsert c x img).mpr (Or.inr hx), hat⟩

/-- what the loader has seen so far: the chunk being collected and the chunks already sorted into the list -/
def content (s : LState) : List CodeChunk := s.cur :: s.img

theorem flush_img (s : LState) (a : Nat) (b : UInt8) : Holds (flush s).img a b ↔ Holds (content s) a b := by
  unfold flush content
  rw [holds_cons]
  split
  · rename_i h
    simp only
    constructor
    · intro hh; exact Or.inr hh
    · rintro (hh | hh)
      · exact absurd hh (at_of_length_zero _ h a b)
      · exact hh
  · simp only
    exact holds_imageInsert s.cur s.img a b

theorem flush_cur (s : LState) : (flush s).cur = ⟨0, []⟩ := by
  unfold flush
  split <;> rfl

theorem step_content (s : LState) (r : CodeChunk) (a : Nat) (b : UInt8) :
    Holds (content (step s r)) a b ↔ Holds (content s) a b ∨ At r a b := by
  unfold step
  split
  · rename_i h
    unfold content
    simp only [holds_cons]
    rw [at_append]
    have hr : r = ⟨s.cur.start + s.cur.data.length, r.data⟩ := by
      cases r; simp only at h; subst h; rfl
    have hc : (⟨s.cur.start, s.cur.data⟩ : CodeChunk) = s.cur := rfl
    rw [hc, ← hr]
    constructor
    · rintro ((h1 | h1) | h1)
      · exact Or.inl (Or.inl h1)
      · exact Or.inr h1
      · exact Or.inl (Or.inr h1)
    · rintro ((h1 | h1) | h1)
      · exact Or.inl (Or.inl h1)
      · exact Or.inr h1
      · exact Or.inl (Or.inr h1)
  · unfold content
    simp only [holds_cons]
    rw [flush_img]
    unfold content
    rw [holds_cons]
    constructor
    · rintro (h1 | h1)
      · exact Or.inr h1
      · exact Or.inl h1
    · rintro (h1 | h1)
      · exact Or.inr h1
      · exact Or.inl h1

theorem foldl_content (rs : List CodeChunk) : ∀ (s : LState) (a : Nat) (b : UInt8),
    Holds (content (rs.foldl step s)) a b ↔ Holds (content s) a b ∨ Holds rs a b := by
  induction rs with
  | nil =>
    intro s a b
    simp only [List.foldl_nil]
    constructor
    · intro h; exact Or.inl h
    · rintro (h | h)
      · exact h
      · exact absurd h (holds_nil a b)
  | cons r rs ih =>
    intro s a b
    simp only [List.foldl_cons]
    rw [ih, step_content, holds_cons]
    constructor
    · rintro ((h | h) | h)
      · exact Or.inl h
      · exact Or.inr (Or.inl h)
      · exact Or.inr (Or.inr h)
    · rintro (h | h | h)
      · exact Or.inl (Or.inl h)
      · exact Or.inl (Or.inr h)
      · exact Or.inr h

/-- the loaded image stores byte `b` at `a` iff some data record does – for every sequence of records -/
theorem loadRecs_holds (rs : List CodeChunk) (a : Nat) (b : UInt8) : Holds (loadRecs rs) a b ↔ Holds rs a b := by
  unfold loadRecs run
  rw [flush_img, foldl_content]
  constructor
  · rintro (h | h)
    · unfold content at h
      rw [holds_cons] at h
      rcases h with h | h
      · exact absurd h (at_empty 0 a b)
      · exact absurd h (holds_nil a b)
    · exact h
  · intro h; exact Or.inr h

/-! ## lookup -/

theorem imageByte_some (img : Image) (a : Nat) (b : UInt8) (h : imageByte img a = some b) : Holds img a b := by
  unfold imageByte at h
  split at h
  · rename_i c hc
    have hm := List.mem_of_find?_eq_some hc
    have hp := List.find?_some hc
    simp only [Bool.and_eq_true, decide_eq_true_eq] at hp
    exact ⟨c, hm, hp.1, h⟩
  · cases h

theorem imageByte_none (img : Image) (a : Nat) (h : imageByte img a = none) (b : UInt8) : ¬ Holds img a b := by
  rintro ⟨c, hc, hat⟩
  unfold imageByte at h
  split at h
  · rename_i c' hc'
    have hp := List.find?_some hc'
    simp only [Bool.and_eq_true, decide_eq_true_eq] at hp
    have : a - c'.start < c'.data.length := by omega
    rw [List.getElem?_eq_getElem this] at h
    cases h
  · rename_i hn
    have := List.find?_eq_none.mp hn c hc
    have hlt := hat.lt
    have hle := hat.1
    simp only [Bool.and_eq_true, decide_eq_true_eq, not_and] at this
    exact absurd hlt (this hle)

theorem imageByte_congr (x y : Image) (hxy : ∀ a b, Holds x a b ↔ Holds y a b) (hf : Functional y) (a : Nat) :
    imageByte x a = imageByte y a := by
  cases hx : imageByte x a with
  | none =>
    cases hy : imageByte y a with
    | none => rfl
    | some b' => exact absurd ((hxy a b').mpr (imageByte_some y a b' hy)) (imageByte_none x a hx b')
  | some b =>
    cases hy : imageByte y a with
    | none => exact absurd ((hxy a b).mp (imageByte_some x a b hx)) (imageByte_none y a hy b)
    | some b' =>
      have h1 := (hxy a b).mp (imageByte_some x a b hx)
      have h2 := imageByte_some y a b' hy
      rw [hf a b b' h1 h2]

theorem functional_of_disjoint : ∀ rs : List CodeChunk, Disjoint rs → Functional rs := by
  intro rs
  induction rs with
  | nil => intro _ a b b' h; exact absurd h (holds_nil a b)
  | cons c cs ih =>
    intro hd a b b' h1 h2
    unfold Disjoint at hd
    rw [List.pairwise_cons] at hd
    rw [holds_cons] at h1 h2
    rcases h1 with h1 | h1 <;> rcases h2 with h2 | h2
    · have := h1.2.symm.trans h2.2
      exact Option.some.inj this
    · obtain ⟨x, hx, hat⟩ := h2
      have hr := hd.1 x hx
      have l1 := h1.lt; have l2 := hat.lt; have g1 := h1.1; have g2 := hat.1
      omega
    · obtain ⟨x, hx, hat⟩ := h1
      have hr := hd.1 x hx
      have l1 := h2.lt; have l2 := hat.lt; have g1 := h2.1; have g2 := hat.1
      omega
    · exact ih hd.2 a b b' h1 h2

theorem holds_perm {rs rs' : List CodeChunk} (hp : rs.Perm rs') (a : Nat) (b : UInt8) : Holds rs a b ↔ Holds rs' a b := by
  constructor
  · rintro ⟨c, hc, hat⟩; exact ⟨c, hp.mem_iff.mp hc, hat⟩
  · rintro ⟨c, hc, hat⟩; exact ⟨c, hp.mem_iff.mpr hc, hat⟩

end AslModel.Dis.HexLoad
