import AslModel.Lemmas.SymLocCs
import AslModel.Model.SymLocObs
/-! helper lemmas for `C13_loc_refines` (`Props/C13_Loc.lean`): the simulation between the handle stack of the MODEL and
the binding environment of the SPEC.

A *frame* is one open label space: its handle (MODEL), its number (SPEC) and the names of the labels of its body.  The
SPEC's environment is the concatenation of the bindings of the frames (`envOf`), the MODEL's handle stack is the list of
their handles followed by `-1`. -/
namespace AslModel.SymLoc
open AslModel.Sym AslModel.Generated.Sym
open AslModel.LocScope hiding Name

/-! ### names -/

theorem upn_ne_rbr (c : Nat) : upn c = 93 ↔ c = 93 := by
  unfold upn
  split <;> omega

theorem fold_getLast (cs : Bool) (n : Name) : (fold cs n).getLast? = some 93 ↔ n.getLast? = some 93 := by
  unfold fold
  split
  · rfl
  · unfold upper
    rw [List.getLast?_map]
    cases n.getLast? with
    | none => simp
    | some c => simpa using upn_ne_rbr c

theorem unqual_eq_some (n : Name) : unqual n = some n ∨ (unqual n = none ∧ n.getLast? = some 93) := by
  unfold unqual
  split
  · right; exact ⟨rfl, by assumption⟩
  · left; rfl

theorem unqual_some {n m : Name} (h : unqual n = some m) : m = n ∧ n.getLast? ≠ some 93 := by
  unfold unqual at h
  split at h
  · cases h
  · cases h; exact ⟨rfl, by assumption⟩

theorem chkTmp1_ordinary (g : St) (n : Name) (h : isTmpName n = false) : chkTmp1 g n = none := by
  unfold chkTmp1
  split
  · simp [isTmpName] at h
  · rfl

theorem chkTmp2Ref_ordinary (g : St) (n : Name) (h : isTmpName n = false) : chkTmp2Ref g n = none := by
  unfold chkTmp2Ref
  split
  · rfl
  · rename_i c r
    have h1 : c ≠ chMinus := by intro hc; subst hc; simp [isTmpName, chMinus] at h
    have h2 : c ≠ chPlus := by intro hc; subst hc; simp [isTmpName, chPlus] at h
    simp [h1, h2]

theorem head_ne_dot (n : Name) (h : isTmpName n = false) : n.head? ≠ some chDot := by
  intro hd
  cases n with
  | nil => simp at hd
  | cons c r =>
    simp only [List.head?_cons, Option.some.injEq] at hd
    subst hd
    simp [isTmpName, chDot] at h

theorem chkTmpDef_ordinary (g : St) (n : Name) (src : SymSource) (h : isTmpName n = false) : (chkTmpDef g n src).2 = n := by
  unfold chkTmpDef
  rw [chkTmp1_ordinary g n h]
  have h1 : n ≠ [chMinus] := by intro hc; subst hc; simp [isTmpName, chMinus] at h
  have h2 : n ≠ [chPlus] := by intro hc; subst hc; simp [isTmpName, chPlus] at h
  have h3 : n ≠ [chSlash] := by intro hc; subst hc; simp [isTmpName, chSlash] at h
  simp only [h1, h2, h3, if_false, chkTmp2Ref_ordinary g n h]
  unfold chkTmp3
  simp only [head_ne_dot n h, if_false]
  split <;> rfl

theorem refName_ordinary (st : LSt) (r : Name) (h : isTmpName r = false) : refName st r = fold st.g.cs r := by
  unfold refName
  simp only [chkTmp2Ref_ordinary st.g r h, Option.getD_none, chkTmp1_ordinary st.g r h]
  unfold chkTmp3Ref
  simp [head_ne_dot r h]

/-! ### lists -/

theorem dedup_mem (a : LocScope.Name) (l : List LocScope.Name) : a ∈ dedup l ↔ a ∈ l := by
  induction l with
  | nil => simp [dedup]
  | cons b r ih =>
    unfold dedup
    split
    · rename_i hc
      rw [ih]
      constructor
      · intro h; exact List.mem_cons_of_mem _ h
      · intro h
        cases List.mem_cons.mp h with
        | inl h1 => subst h1; simpa using hc
        | inr h1 => exact h1
    · simp [ih]

theorem dedup_contains (a : LocScope.Name) (l : List LocScope.Name) : (dedup l).contains a = l.contains a := by
  rw [Bool.eq_iff_iff]
  simp [dedup_mem]

/-! ### the SPEC's environment as a list of frames -/

structure Fr where
  h : Int
  id : Nat
  ns : List LocScope.Name

def frBinds (f : Fr) : List Bind := f.ns.map (fun k => Bind.name k (uniqName k f.id))

def envOf : List Fr → List Bind
  | [] => []
  | f :: r => frBinds f ++ envOf r

/-- the frame that binds `k`: the innermost one whose body has a label `k` -/
def frFind (k : LocScope.Name) (fr : List Fr) : Option Fr := fr.find? (fun f => f.ns.contains k)

theorem resolveLabel_binds (k : LocScope.Name) (id : Nat) (rest : List Bind) (ns : List LocScope.Name) :
    resolveLabel k (ns.map (fun k => Bind.name k (uniqName k id)) ++ rest) =
      if ns.contains k then some (uniqName k id) else resolveLabel k rest := by
  induction ns with
  | nil => simp
  | cons a r ih =>
    simp only [List.map_cons, List.cons_append, resolveLabel, ih, List.contains_cons]
    by_cases ha : a = k
    · subst ha; simp
    · have : (k == a) = false := by simpa using fun h => ha h.symm
      simp [ha, this]

theorem resolveLabel_envOf (k : LocScope.Name) (fr : List Fr) :
    resolveLabel k (envOf fr) = (frFind k fr).map (fun f => uniqName k f.id) := by
  induction fr with
  | nil => simp [envOf, resolveLabel, frFind]
  | cons f r ih =>
    simp only [envOf, frBinds, resolveLabel_binds, frFind, List.find?_cons]
    cases hc : f.ns.contains k with
    | true => simp
    | false => simpa [frFind] using ih

theorem resolve_binds (k : LocScope.Name) (id : Nat) (rest : List Bind) (ns : List LocScope.Name) :
    resolve k (ns.map (fun k => Bind.name k (uniqName k id)) ++ rest) false =
      if ns.contains k then .loc (uniqName k id) else resolve k rest false := by
  induction ns with
  | nil => simp
  | cons a r ih =>
    simp only [List.map_cons, List.cons_append, resolve, ih, List.contains_cons]
    by_cases ha : a = k
    · subst ha; simp
    · have : (k == a) = false := by simpa using fun h => ha h.symm
      simp [ha, this]

theorem resolve_envOf (k : LocScope.Name) (fr : List Fr) :
    resolve k (envOf fr) false = match frFind k fr with | some f => .loc (uniqName k f.id) | none => .plain := by
  induction fr with
  | nil => simp [envOf, resolve, frFind]
  | cons f r ih =>
    simp only [envOf, frBinds, resolve_binds, frFind, List.find?_cons]
    cases hc : f.ns.contains k with
    | true => simp
    | false => simpa [frFind] using ih

/-! ### one statement of the SPEC -/

def specLabel (key : LocScope.Name → LocScope.Name) (env : List Bind) (lab : Option LocScope.Name) : Option LocScope.Name :=
  match (match lab with | some l => resolveLabel (key l) env | none => none) with
  | some u => some u
  | none => lab

def specRef (key : LocScope.Name → LocScope.Name) (env : List Bind) (ref : Option LocScope.Name) : Option LocScope.Name :=
  match ref, (match ref with | some x => resolve (key x) env false | none => Res.plain) with
  | some _, .loc u => some u
  | x, _ => x

def specStmt (key : LocScope.Name → LocScope.Name) (env : List Bind) (s : Stmt Op) : Stmt Op :=
  { s with label := specLabel key env s.label, ref := specRef key env s.ref }

theorem expStmt_out (key : LocScope.Name → LocScope.Name) (env : List Bind) (s : Stmt Op) (a : Acc Op) :
    (expStmt key env s a).out.map (·.1) = specStmt key env s :: a.out.map (·.1) := by
  rfl

theorem expStmt_next (key : LocScope.Name → LocScope.Name) (env : List Bind) (s : Stmt Op) (a : Acc Op) :
    (expStmt key env s a).next = a.next := rfl

/-! ### the MODEL's lookup over frames -/

theorem refSpace_eq_walk (st : LSt) (ref : Name) :
    refSpace st ref = walkSpace st.ltab (refName st ref) (st.mom :: st.conts) := by
  unfold refSpace
  simp only [walkSpace]

theorem walkSpace_frames (ltab : Tab) (name : Name) (fr : List Fr) (hp : ∀ f ∈ fr, f.h ≠ -1) :
    walkSpace ltab name (fr.map (·.h) ++ [-1]) = (fr.find? (fun f => hasKey ltab (name, f.h))).map (·.h) := by
  induction fr with
  | nil => simp [walkSpace]
  | cons f r ih =>
    have hf : f.h ≠ -1 := hp f (by simp)
    have ih' := ih (fun g hg => hp g (by simp [hg]))
    simp only [List.map_cons, List.cons_append, walkSpace, hf, if_false, List.find?_cons, hasKey]
    cases hq : tfind ltab (name, f.h) with
    | some e => simp
    | none => simpa [hasKey] using ih'

/-! ### what a statement does to the table and to `CaseSensitive` -/

theorem enterLoc_hasKey (st : LSt) (n : Name) (v : Int) (k : Key) :
    hasKey (enterLoc st n v).ltab k = (hasKey st.ltab k || (locKey st n == k)) := by
  unfold enterLoc
  cases hq : tfind st.ltab (locKey st n) with
  | none =>
    simp only [symbolAdder, enterLocRes]
    by_cases hk : k = locKey st n
    · subst hk; simp [hasKey, tfind_tset_same]
    · have : (locKey st n == k) = false := by simpa using fun h => hk h.symm
      simp [hasKey, tfind_tset_other _ _ _ _ hk, this]
  | some o =>
    have hin : hasKey st.ltab (locKey st n) = true := by simp [hasKey, hq]
    cases hsa : symbolAdder (some o) v false with
    | error e =>
      simp only [enterLocRes]
      by_cases hk : k = locKey st n
      · subst hk; simp [hin]
      · have : (locKey st n == k) = false := by simpa using fun h => hk h.symm
        simp [this]
    | ok p =>
      obtain ⟨e, rp⟩ := p
      simp only [enterLocRes]
      by_cases hk : k = locKey st n
      · subst hk; simp [hasKey, tfind_tset_same]
      · have : (locKey st n == k) = false := by simpa using fun h => hk h.symm
        simp [hasKey, tfind_tset_other _ _ _ _ hk, this]

theorem enterLoc_cs (st : LSt) (n : Name) (v : Int) : (enterLoc st n v).g.cs = st.g.cs := by
  unfold enterLoc
  cases symbolAdder (tfind st.ltab (locKey st n)) v false with
  | error e => simp [enterLocRes, St.err]
  | ok p => simp [enterLocRes]

theorem enterLoc_cnt (st : LSt) (n : Name) (v : Int) : (enterLoc st n v).cnt = st.cnt := by
  unfold enterLoc
  cases symbolAdder (tfind st.ltab (locKey st n)) v false with
  | error e => simp [enterLocRes]
  | ok p => simp [enterLocRes]

/-- **the observation of a label is what the model does**: `defineLabelL` adds the key `defKey` names to the local table
and nothing else (`none`: the local table is left alone) -/
theorem defineLabelL_hasKey (st : LSt) (n : Name) (v : Int) (k : Key) :
    hasKey (defineLabelL st n v).ltab k = (hasKey st.ltab k || (defKey st n == some k)) := by
  unfold defineLabelL defKey
  cases hgs : getSymSection st.g n with
  | plain m =>
    simp only
    by_cases hm : st.mom = -1
    · simp [hm]
    · simp only [hm, if_false]
      rw [enterLoc_hasKey]
      simp [locKey, chkTmpDef_cs]
  | sect m h => simp
  | invSection => simp
  | invName => simp

theorem defineLabelL_cs (st : LSt) (n : Name) (v : Int) : (defineLabelL st n v).g.cs = st.g.cs := by
  unfold defineLabelL
  split
  · split
    · simp [defineSymbol_cs]
    · simp [enterLoc_cs, chkTmpDef_cs]
  · simp [defineSymbol_cs]

theorem defineLabelL_cnt (st : LSt) (n : Name) (v : Int) : (defineLabelL st n v).cnt = st.cnt := by
  unfold defineLabelL
  split
  · split
    · rfl
    · simp [enterLoc_cnt]
  · rfl

theorem bumpLine_ltab (st : LSt) : (bumpLine st).ltab = st.ltab := rfl

theorem lookupL_ltab (st : LSt) (r : Name) : (lookupL st r).1.ltab = st.ltab := by
  unfold lookupL
  simp only
  split <;> rfl

theorem lookupL_cs (st : LSt) (r : Name) : (lookupL st r).1.g.cs = st.g.cs := by
  unfold lookupL
  simp only
  split
  · rfl
  · simp [lookupSymbol_cs]

theorem lookupL_cnt (st : LSt) (r : Name) : (lookupL st r).1.cnt = st.cnt := by
  unfold lookupL
  simp only
  split <;> rfl

theorem stepL_cs (st : LSt) (o : Op) : (stepL st o).g.cs = st.g.cs := by
  cases o <;> simp only [stepL]
  case label n => simp [emitNop, defineLabelL_cs, bumpLine]
  case labelOnly n => simp [defineLabelL_cs, bumpLine]
  case labelWord n r => simp [emitWord_cs, lookupL_cs, defineLabelL_cs, bumpLine]
  case use r => simp [emitWord_cs, lookupL_cs, bumpLine]
  all_goals exact step_cs _ _

theorem stepL_cnt (st : LSt) (o : Op) : (stepL st o).cnt = st.cnt := by
  cases o <;> simp only [stepL]
  case label n => simp [emitNop, defineLabelL_cnt, bumpLine]
  case labelOnly n => simp [defineLabelL_cnt, bumpLine]
  case labelWord n r => simp [lookupL_cnt, defineLabelL_cnt, bumpLine]
  case use r => simp [lookupL_cnt, bumpLine]

/-- **a statement changes the local table by the key the observation names, and by nothing else** -/
theorem stepL_hasKey (st : LSt) (o : Op) (k : Key) :
    hasKey (stepL st o).ltab k = (hasKey st.ltab k || ((evOf st o).dkey == some k)) := by
  cases o <;> simp only [stepL, evOf]
  case label n => simpa [emitNop, bumpLine_ltab] using defineLabelL_hasKey (bumpLine st) n _ k
  case labelOnly n => simpa [bumpLine_ltab] using defineLabelL_hasKey (bumpLine st) n _ k
  case labelWord n r => simpa [lookupL_ltab, bumpLine_ltab] using defineLabelL_hasKey (bumpLine st) n _ k
  case use r => simp [lookupL_ltab, bumpLine]
  all_goals simp

/-! ### the simulation invariant -/

/-- the handle stack is the list of the frames' handles -/
def StackIs (st : LSt) (fr : List Fr) : Prop := st.mom :: st.conts = fr.map (·.h) ++ [-1]

/-- the table holds under the handle of every open frame exactly the labels of the frame's body -/
structure InsideT (cs : Bool) (st : LSt) (fr : List Fr) : Prop where
  cs : st.g.cs = cs
  hpos : ∀ f ∈ fr, f.h ≠ -1
  tab : ∀ f ∈ fr, ∀ k, hasKey st.ltab (k, f.h) = f.ns.contains k
  nobr : ∀ f ∈ fr, ∀ k ∈ f.ns, k.getLast? ≠ some 93

theorem StackIs.nil {st : LSt} (h : StackIs st []) : st.mom = -1 := by
  unfold StackIs at h
  simp at h
  exact h.1

theorem StackIs.cons {st : LSt} {f : Fr} {r : List Fr} (h : StackIs st (f :: r)) : st.mom = f.h := by
  unfold StackIs at h
  simp at h
  exact h.1

theorem find?_congr_mem {α : Type} (p q : α → Bool) (l : List α) (h : ∀ a ∈ l, p a = q a) : l.find? p = l.find? q := by
  induction l with
  | nil => rfl
  | cons a r ih =>
    simp only [List.find?_cons, h a (by simp)]
    rw [ih (fun b hb => h b (by simp [hb]))]

theorem refKey_inside (cs : Bool) (st : LSt) (fr : List Fr) (r : Name) (hs : StackIs st fr) (hi : InsideT cs st fr)
    (hord : isTmpName r = false) :
    refKey st r = (frFind (fold cs r) fr).map (fun f => (fold cs r, f.h)) := by
  unfold refKey
  rw [refSpace_eq_walk, hs, walkSpace_frames _ _ _ hi.hpos, refName_ordinary st r hord, hi.cs]
  rw [find?_congr_mem _ (fun f => f.ns.contains (fold cs r)) fr (fun f hf => hi.tab f hf _)]
  simp [frFind, Function.comp_def]

theorem refKey_outside (st : LSt) (r : Name) (hs : StackIs st []) : refKey st r = none := by
  unfold refKey refSpace
  simp [hs.nil]

theorem defKey_outside (st : LSt) (n : Name) (hs : StackIs st []) : defKey st n = none := by
  unfold defKey
  split
  · simp [hs.nil]
  · rfl

theorem getSymSection_of_not_rbr (g : St) (n : Name) (h : n.getLast? ≠ some 93) : getSymSection g n = .plain n := by
  unfold getSymSection
  simp [chRBr, h]

theorem getSymSection_of_rbr (g : St) (n : Name) (h : n.getLast? = some 93) (m : Name) : getSymSection g n ≠ .plain m := by
  unfold getSymSection
  simp only [chRBr, h, ne_eq, not_true_eq_false, if_false]
  split
  · simp
  · split <;> simp

theorem defKey_of_rbr (st : LSt) (n : Name) (h : n.getLast? = some 93) : defKey st n = none := by
  unfold defKey
  split
  · rename_i m hm; exact absurd hm (getSymSection_of_rbr _ _ h m)
  · rfl

theorem defKey_inside (cs : Bool) (st : LSt) (f : Fr) (fr : List Fr) (n : Name) (hs : StackIs st (f :: fr))
    (hi : InsideT cs st (f :: fr)) (hord : isTmpName n = false) :
    defKey st n = if n.getLast? = some 93 then none else some (fold cs n, f.h) := by
  have hm : f.h ≠ -1 := hi.hpos f (by simp)
  by_cases hl : n.getLast? = some 93
  · simp [hl, defKey_of_rbr]
  · unfold defKey
    rw [getSymSection_of_not_rbr _ _ hl]
    simp only [hl, if_false, hm, chkTmpDef_ordinary _ _ _ hord, hi.cs, hs.cons]

theorem frFind_none_of_rbr (cs : Bool) (st : LSt) (fr : List Fr) (r : Name) (hi : InsideT cs st fr)
    (hl : r.getLast? = some 93) : frFind (fold cs r) fr = none := by
  unfold frFind
  rw [List.find?_eq_none]
  intro f hf
  have := hi.nobr f hf (fold cs r)
  simp only [List.contains_iff_mem]
  cases hc : f.ns.contains (fold cs r) with
  | false => simpa using hc
  | true =>
    exfalso
    exact this (by simpa using hc) ((fold_getLast cs r).mpr hl)

theorem frFind_mem {k : LocScope.Name} {fr : List Fr} {f : Fr} (h : frFind k fr = some f) : f ∈ fr :=
  List.mem_of_find?_eq_some h

theorem frFind_head (k : LocScope.Name) (f : Fr) (fr : List Fr) (h : k ∈ f.ns) : frFind k (f :: fr) = some f := by
  unfold frFind
  simp [h]

/-! ### one statement: the observation of the MODEL is the SPEC's statement -/

/-- the label `n` of a body text fits the innermost frame: an ordinary name, and a name of the frame -/
def LabFits (cs : Bool) (fr : List Fr) (n : Name) : Prop :=
  match fr with
  | [] => True
  | f :: _ => isTmpName n = false ∧ (n.getLast? ≠ some 93 → fold cs n ∈ f.ns)

theorem rname_none (no : Int → Nat) (d : Option Name) : rname no none d = d := rfl

theorem label_agree (cs : Bool) (no : Int → Nat) (st : LSt) (fr : List Fr) (n : Name) (hs : StackIs st fr)
    (hi : InsideT cs st fr) (hno : ∀ f ∈ fr, no f.h = f.id)
    (hfit : LabFits cs fr n) :
    rname no (defKey st n) (unqual n) = specLabel (fold cs) (envOf fr) (unqual n) := by
  cases fr with
  | nil =>
    rw [defKey_outside st n hs]
    unfold specLabel rname
    cases unqual n <;> simp [envOf, resolveLabel]
  | cons f r =>
    obtain ⟨hord, hin⟩ := hfit
    rw [defKey_inside cs st f r n hs hi hord]
    unfold specLabel
    rcases unqual_eq_some n with hq | ⟨hq, hl⟩
    · have hl := (unqual_some hq).2
      have hf := frFind_head _ f r (hin hl)
      simp only [hl, if_false, hq, rname, resolveLabel_envOf, hf, Option.map_some, hno f (by simp)]
    · simp [hl, hq, rname]

theorem ref_agree (cs : Bool) (no : Int → Nat) (st : LSt) (fr : List Fr) (r : Name) (hs : StackIs st fr)
    (hi : InsideT cs st fr) (hno : ∀ f ∈ fr, no f.h = f.id) (hord : fr ≠ [] → isTmpName r = false) :
    rname no (refKey st r) (unqual r) = specRef (fold cs) (envOf fr) (unqual r) := by
  cases fr with
  | nil =>
    rw [refKey_outside st r hs]
    unfold specRef rname
    cases unqual r <;> simp [envOf, resolve]
  | cons f fr' =>
    rw [refKey_inside cs st _ r hs hi (hord (by simp))]
    unfold specRef
    rcases unqual_eq_some r with hq | ⟨hq, hl⟩
    · simp only [hq, resolve_envOf]
      cases hf : frFind (fold cs r) (f :: fr') with
      | none => simp [rname]
      | some g => simp [rname, hno g (frFind_mem hf)]
    · simp [hq, frFind_none_of_rbr cs st _ r hi hl, rname]

/-- a statement of a body text fits the innermost frame: ordinary names, its label is a name of the frame -/
def OpFits (cs : Bool) (fr : List Fr) (o : Op) : Prop :=
  match fr with
  | [] => True
  | f :: _ => opOrdinary o = true ∧ ∀ l, (toStmt o).label = some l → fold cs l ∈ f.ns

theorem bumpLine_stack (st : LSt) (fr : List Fr) (h : StackIs st fr) : StackIs (bumpLine st) fr := h

theorem bumpLine_inside (cs : Bool) (st : LSt) (fr : List Fr) (h : InsideT cs st fr) : InsideT cs (bumpLine st) fr :=
  ⟨h.cs, h.hpos, h.tab, h.nobr⟩

theorem defineLabelL_stack (st : LSt) (fr : List Fr) (n : Name) (v : Int) (h : StackIs st fr) :
    StackIs (defineLabelL st n v) fr := by
  unfold StackIs at *
  rw [(defineLabelL_frame st n v).mom, (defineLabelL_frame st n v).conts]
  exact h

/-- a key the table holds already: entering it again changes nothing the lookup can see -/
theorem defineLabelL_inside (cs : Bool) (st : LSt) (fr : List Fr) (n : Name) (v : Int) (hs : StackIs st fr)
    (hi : InsideT cs st fr)
    (hfit : LabFits cs fr n) :
    InsideT cs (defineLabelL st n v) fr := by
  refine ⟨(defineLabelL_cs st n v).trans hi.cs, hi.hpos, ?_, hi.nobr⟩
  intro g hg k
  rw [defineLabelL_hasKey, hi.tab g hg k]
  cases fr with
  | nil => simp at hg
  | cons f r =>
    obtain ⟨hord, hin⟩ := hfit
    rw [defKey_inside cs st f r n hs hi hord]
    by_cases hl : n.getLast? = some 93
    · simp [hl]
    · simp only [hl, if_false]
      by_cases hk : (fold cs n, f.h) = (k, g.h)
      · have h1 : fold cs n = k := congrArg Prod.fst hk
        have h2 : f.h = g.h := congrArg Prod.snd hk
        have h3 := hi.tab f (by simp) k
        rw [h2, hi.tab g hg k] at h3
        rw [h3]
        have : f.ns.contains k = true := by rw [← h1]; simpa using hin hl
        have hm : k ∈ f.ns := by simpa using this
        simp [hm]
      · have : ((some (fold cs n, f.h) : Option Key) == some (k, g.h)) = false := by simpa using hk
        rw [this]; simp

theorem InsideT.of_eq {cs : Bool} {st st' : LSt} {fr : List Fr} (h : InsideT cs st fr) (hcs : st'.g.cs = st.g.cs)
    (hl : st'.ltab = st.ltab) : InsideT cs st' fr :=
  ⟨hcs.trans h.cs, h.hpos, fun f hf k => by rw [hl]; exact h.tab f hf k, h.nobr⟩

theorem StackIs.of_frame {st st' : LSt} {fr : List Fr} (h : StackIs st fr) (hf : Frame st st') : StackIs st' fr := by
  unfold StackIs at *
  rw [hf.mom, hf.conts]
  exact h

theorem fits_label (cs : Bool) (fr : List Fr) (o : Op) (n : Name) (hfit : OpFits cs fr o)
    (hl : (toStmt o).label = unqual n) (ho : opOrdinary o = true → isTmpName n = false) :
    LabFits cs fr n := by
  cases fr with
  | nil => trivial
  | cons f r =>
    obtain ⟨h1, h2⟩ := hfit
    refine ⟨ho h1, fun hne => h2 n ?_⟩
    rw [hl]
    unfold unqual
    simp [hne]

theorem specRef_none (key : LocScope.Name → LocScope.Name) (env : List Bind) : specRef key env none = none := rfl
theorem specLabel_none (key : LocScope.Name → LocScope.Name) (env : List Bind) : specLabel key env none = none := rfl

/-- **one statement**: what the MODEL does with the local table is what the SPEC's expansion says, and the invariant holds
afterwards -/
theorem stmt_agree (cs : Bool) (no : Int → Nat) (st : LSt) (fr : List Fr) (o : Op) (hs : StackIs st fr)
    (hi : InsideT cs st fr) (hno : ∀ f ∈ fr, no f.h = f.id) (hfit : OpFits cs fr o) :
    renderWith no (evOf st o) = specStmt (fold cs) (envOf fr) (toStmt o) ∧ InsideT cs (stepL st o) fr := by
  have hsb := bumpLine_stack st fr hs
  have hib := bumpLine_inside cs st fr hi
  cases o
  case label n =>
    have hf := fits_label cs fr (.label n) n hfit rfl (by simp [opOrdinary])
    refine ⟨?_, ?_⟩
    · simp only [renderWith, evOf, specStmt, toStmt, specRef_none, rname_none]
      rw [label_agree cs no (bumpLine st) fr n hsb hib hno hf]
    · simp only [stepL]
      exact (defineLabelL_inside cs _ fr n _ hsb hib hf).of_eq rfl rfl
  case labelOnly n =>
    have hf := fits_label cs fr (.labelOnly n) n hfit rfl (by simp [opOrdinary])
    refine ⟨?_, ?_⟩
    · simp only [renderWith, evOf, specStmt, toStmt, specRef_none, rname_none]
      rw [label_agree cs no (bumpLine st) fr n hsb hib hno hf]
    · simp only [stepL]
      exact defineLabelL_inside cs _ fr n _ hsb hib hf
  case labelWord n r =>
    have hf := fits_label cs fr (.labelWord n r) n hfit rfl (by simp [opOrdinary]; intro h _; exact h)
    have hs2 := defineLabelL_stack (bumpLine st) fr n (bumpLine st).g.pc hsb
    have hi2 := defineLabelL_inside cs _ fr n (bumpLine st).g.pc hsb hib hf
    have hr : fr ≠ [] → isTmpName r = false := by
      intro hne
      cases fr with
      | nil => exact absurd rfl hne
      | cons f fr' => have := hfit.1; simp [opOrdinary] at this; exact this.2
    refine ⟨?_, ?_⟩
    · simp only [renderWith, evOf, specStmt, toStmt]
      rw [label_agree cs no (bumpLine st) fr n hsb hib hno hf, ref_agree cs no _ fr r hs2 hi2 hno hr]
    · simp only [stepL]
      exact hi2.of_eq (by simp [emitWord_cs, lookupL_cs]) (by simp [lookupL_ltab])
  case use r =>
    have hr : fr ≠ [] → isTmpName r = false := by
      intro hne
      cases fr with
      | nil => exact absurd rfl hne
      | cons f fr' => have := hfit.1; simpa [opOrdinary] using this
    refine ⟨?_, ?_⟩
    · simp only [renderWith, evOf, specStmt, toStmt, specLabel_none, rname_none]
      rw [ref_agree cs no _ fr r hsb hib hno hr]
    · simp only [stepL]
      exact hib.of_eq (by simp [emitWord_cs, lookupL_cs]) (by simp [lookupL_ltab])
  all_goals
    refine ⟨?_, ?_⟩
    · simp only [renderWith, evOf, specStmt, toStmt, specLabel_none, specRef_none, rname_none]
    · simp only [stepL]
      exact hi.of_eq (step_cs _ _) rfl

end AslModel.SymLoc
