import AslModel.Lemmas.IsaAvrBase
/-! C14 / AVR: table check (`Good`) of a group of `InstTable` entries, decided over the complete field domains.
Split over several modules so that they are checked in parallel. -/
namespace AslModel.Isa.IAvr
open AslModel.Spec.IAvr
set_option maxRecDepth 100000

theorem good_T11_0 : goodAll [.COM, .NEG, .INC, .DEC, .PUSH, .POP, .LSR, .ROR, .ASR, .SWAP] = true := by decide +kernel
theorem good_T11_1 : goodAll [.SEC, .CLC, .SEN, .CLN, .SEZ, .CLZ, .SEI, .CLI, .SES, .CLS, .SEV, .CLV, .SET, .CLT, .SEH, .CLH, .IJMP, .ICALL, .EIJMP, .EICALL, .RET, .RETI, .NOP, .SLEEP, .WDR, .BREAK, .SPM] = true := by decide +kernel
theorem good_T11_2 : goodAll [.BRBS, .BRBC] = true := by decide +kernel

end AslModel.Isa.IAvr
