import AslModel.Model.ExprQuote
import AslModel.Spec.LitFormula
/-!
# Helper lemmas for `Props/C08_Quote.lean`

* `sqcRun_digits`, `text_at` (moved here from the Props file): the digit loop of `QualifyQuote_SingleQuoteConstant` over a
  run of digits, and the two text accesses of the callback on `pre ++ l :: '\'' :: tail`.
* per-character class lemmas, for EVERY `Char` (the ASCII half by evaluation of the 128 cases, the rest by the range tests):
  `sqcBase = ibmBase`, `sqcDigitOk b = isDigitOf b` for the three bases, `cIsAlnum = Char.isAlphanum`.
* `sqcRun_eq`: the C loop `for (pRun…) if (!OK) break;` is `List.dropWhile`.
* `qualifySQC_eq_not_openIbmAt`: the callback is the negation of the SPEC's predicate, for all texts and positions.
-/
namespace AslModel.C08
open AslModel.Formula AslModel.Expr AslModel.ExprQ AslModel.LitFormula AslModel.IntLiteral AslModel.IntConst

/-- what may follow an open constant: the end of the text, or a character that is neither a digit of the base,
nor a letter or digit, nor an apostrophe -/
def EndsConstant (b : Nat) (rest : List Char) : Prop :=
  rest = [] ∨ ∃ c r, rest = c :: r ∧ c ≠ '\'' ∧ cIsAlnum c = false ∧ sqcDigitOk b c = false

theorem sqcRun_digits (b : Nat) (ds rest : List Char) (hd : ∀ d ∈ ds, sqcDigitOk b d = true)
    (he : EndsConstant b rest) : sqcRun b (ds ++ rest) = rest := by
  induction ds with
  | nil =>
    rcases he with h | ⟨c, r, h, _, _, hc⟩
    · subst h; rfl
    · subst h; simp [sqcRun, hc]
  | cons d ds ih =>
    have h1 : sqcDigitOk b d = true := hd d (by simp)
    have h2 := ih (fun x hx => hd x (by simp [hx]))
    simp [sqcRun, h1, h2]

theorem text_at (pre : List Char) (l : Char) (tail : List Char) :
    (pre ++ l :: '\'' :: tail).getD (pre.length + 1 - 1) ' ' = l ∧
    (pre ++ l :: '\'' :: tail).drop (pre.length + 1 + 1) = tail := by
  constructor
  · simp [List.getD]
  · have : pre.length + 1 + 1 = pre.length + 2 := rfl
    rw [this, List.drop_append]
    simp

/-! ## every character: the ASCII half by evaluation, the other half by the range tests -/

/-- a statement about a character below 128 follows from its 128 instances -/
theorem char_lt128 (P : Char → Prop) (h : ∀ n, n < 128 → P (Char.ofNat n)) (c : Char) (hc : c.toNat < 128) : P c := by
  have := h c.toNat hc
  rwa [Char.ofNat_toNat] at this

theorem up_big (c : Char) (h : 128 ≤ c.toNat) : up c = c := by
  simp [up, Char.le_def, UInt32.le_iff_toNat_le]
  omega

theorem upC_big (c : Char) (h : 128 ≤ c.toNat) : upC c = c := by
  simp [upC, Char.le_def, UInt32.le_iff_toNat_le]
  omega

theorem digit_big (c : Char) (h : 128 ≤ c.toNat) : digit c = 99 := by
  simp only [digit, up_big c h]
  simp [Char.le_def, UInt32.le_iff_toNat_le]
  split
  · omega
  · split <;> omega

theorem isXDigit_big (c : Char) (h : 128 ≤ c.toNat) : isXDigit c = false := by
  simp [isXDigit, Char.le_def, UInt32.le_iff_toNat_le]
  omega

theorem cIsDigit_big (c : Char) (h : 128 ≤ c.toNat) : cIsDigit c = false := by
  simp [cIsDigit, Char.le_def, UInt32.le_iff_toNat_le]
  omega

theorem ne_of_big (c d : Char) (h : 128 ≤ c.toNat) (hd : d.toNat < 128) : c ≠ d := by
  intro he; subst he; omega

/-- `switch (as_toupper(*(pQuotePos - 1)))` names the numbering systems the manual names -/
theorem sqcBase_eq (c : Char) : sqcBase c = ibmBase c := by
  by_cases h : c.toNat < 128
  · exact char_lt128 (fun c => sqcBase c = ibmBase c) (by decide) c h
  · have h' : 128 ≤ c.toNat := by omega
    simp only [sqcBase, ibmBase, up_big c h', upC_big c h']
    simp [ne_of_big c _ h' (by decide : 'B'.toNat < 128), ne_of_big c _ h' (by decide : 'O'.toNat < 128),
      ne_of_big c _ h' (by decide : 'X'.toNat < 128), ne_of_big c _ h' (by decide : 'H'.toNat < 128)]

/-- the `switch (Base)` of the digit loop accepts exactly the digits of the base (bases 2, 8, 16) -/
theorem sqcDigitOk_eq (b : Nat) (hb : b = 2 ∨ b = 8 ∨ b = 16) (c : Char) : sqcDigitOk b c = isDigitOf b c := by
  by_cases h : c.toNat < 128
  · rcases hb with rfl | rfl | rfl
    · exact char_lt128 (fun c => sqcDigitOk 2 c = isDigitOf 2 c) (by decide) c h
    · exact char_lt128 (fun c => sqcDigitOk 8 c = isDigitOf 8 c) (by decide) c h
    · exact char_lt128 (fun c => sqcDigitOk 16 c = isDigitOf 16 c) (by decide) c h
  · have h' : 128 ≤ c.toNat := by omega
    rcases hb with rfl | rfl | rfl <;>
      simp [sqcDigitOk, isDigitOf, digit_big c h', isXDigit_big c h', cIsDigit_big c h']

/-- `as_isalnum` in the "C" locale is "letter or digit" -/
theorem cIsAlnum_eq (c : Char) : cIsAlnum c = c.isAlphanum := by
  by_cases h : c.toNat < 128
  · exact char_lt128 (fun c => cIsAlnum c = c.isAlphanum) (by decide) c h
  · have h' : 128 ≤ c.toNat := by omega
    have h1 : cIsAlnum c = false := by
      simp [cIsAlnum, cIsDigit, Char.le_def, UInt32.le_iff_toNat_le]; omega
    have h2 : c.isAlphanum = false := by
      simp [Char.isAlphanum, Char.isAlpha, Char.isDigit, Char.isUpper, Char.isLower, UInt32.le_iff_toNat_le]; omega
    rw [h1, h2]

theorem sqcBase_range (c : Char) (b : Nat) (h : sqcBase c = some b) : b = 2 ∨ b = 8 ∨ b = 16 := by
  unfold sqcBase at h
  split at h
  · simp at h; omega
  · split at h
    · simp at h; omega
    · split at h <;> simp at h; omega

/-- the digit loop is `dropWhile` -/
theorem sqcRun_eq (b : Nat) (l : List Char) : sqcRun b l = l.dropWhile (sqcDigitOk b) := by
  induction l with
  | nil => rfl
  | cons c cs ih => simp only [sqcRun, List.dropWhile_cons]; split <;> simp_all

/-- `pRun <= pQuotePos + 1` (nothing consumed) says "the run of digits is empty" -/
theorem dropWhile_len_iff (f : Char → Bool) (l : List Char) :
    ((l.dropWhile f).length = l.length) = ((l.takeWhile f).isEmpty = true) := by
  have h := List.takeWhile_append_dropWhile (p := f) (l := l)
  have hl : (l.takeWhile f).length + (l.dropWhile f).length = l.length := by
    rw [← List.length_append, h]
  cases htw : l.takeWhile f with
  | nil => simp [htw] at hl ⊢; omega
  | cons a as => simp [htw] at hl ⊢; omega

/-- **the callback is the negation of the SPEC's predicate**, every text, every position -/
theorem qualifySQC_eq_not_openIbmAt (t : List Char) (p : Nat) : qualifySQC t p = !openIbmAt t p := by
  unfold qualifySQC openIbmAt
  by_cases hp : p = 0
  · simp [hp]
  · simp only [hp, if_false, ← sqcBase_eq]
    cases hb : sqcBase (t.getD (p - 1) ' ') with
    | none => rfl
    | some b =>
      have hr := sqcBase_range _ _ hb
      have hf : isDigitOf b = sqcDigitOk b := by funext c; exact (sqcDigitOk_eq b hr c).symm
      simp only [sqcRun_eq, hf, dropWhile_len_iff]
      cases htw : ((t.drop (p + 1)).takeWhile (sqcDigitOk b)).isEmpty with
      | true => simp
      | false =>
        simp only [Bool.false_eq_true, if_false, Bool.not_false, Bool.true_and]
        cases (t.drop (p + 1)).dropWhile (sqcDigitOk b) with
        | nil => rfl
        | cons c r =>
          simp only [cIsAlnum_eq]
          by_cases hc : c = '\'' <;> simp [hc]

end AslModel.C08
