import AslModel.Lemmas.PList
/-! Lemmas for `Props/C07_Multi.lean`: `plist -q f1 f2 …` (several files, `NumFiles > 1`). -/
namespace AslModel.Tools
open AslModel.PFile AslModel.PList

theorem dataRecs_app (a c : List Item) : dataRecs (a ++ c) = dataRecs a ++ dataRecs c := by
  induction a with
  | nil => rfl
  | cons i is ih => cases i <;> simp [dataRecs, ih]

theorem sumsAfter_append (s : List Nat) (a c : List Item) : sumsAfter (sumsAfter s a) c = sumsAfter s (a ++ c) := by
  simp [sumsAfter, dataRecs_app, List.foldl_append]

/-- the blanks printed in front of every record line when several files are listed -/
def linePre (t : Tbl) (multi : Bool) : List Char := if multi then blanks t.hdr1F.length else []

/-- what one file contributes to the listing: its name on a line of its own (only when several files are
listed), one line per item in file order, the creator line -/
def fileBlock (t : Tbl) (multi : Bool) (f : List Char × List (Item × Bool) × List Byte) : List Char :=
  (if multi then f.1 ++ ['\n'] else []) ++ itemLines t (linePre t multi) f.2.1 ++ linePre t multi ++
    creatorLine t f.2.2 ++ ['\n']

def FileOK (t : Tbl) (f : List Char × List (Item × Bool) × List Byte) : Prop :=
  (∀ i ∈ f.2.1, i.1.WF) ∧ (∀ i ∈ f.2.1, ListOK t i.1)

theorem processSingle_ok (t : Tbl) (multi : Bool) (f : List Char × List (Item × Bool) × List Byte) (hf : FileOK t f)
    (st : PSt) :
    processSingle t (if multi then some f.1 else none) st (serFileForm f.2.1 f.2.2) =
      .ok ⟨st.out ++ fileBlock t multi f, sumsAfter st.sums (f.2.1.map (·.1))⟩ := by
  obtain ⟨nm, items, creator⟩ := f
  obtain ⟨hwf, hok⟩ := hf
  have hm : rd16 (0x89 : Byte) (0x14 : Byte) = Generated.fileMagic := by decide
  have key := fun (pre : List Char) (st' : PSt) =>
    plist_items t pre ((0x89 : Byte) :: 0x14 :: ((items.map serItemForm).flatten ++ (0x00 :: creator))).length
      items creator hwf hok
      (((0x89 : Byte) :: 0x14 :: ((items.map serItemForm).flatten ++ (0x00 :: creator))).length + 1)
      (by have := len_le_form items; simp only [List.length_cons, List.length_append]; omega)
      default st'
      (by simp only [List.length_cons, List.length_append]; omega)
  cases multi with
  | false =>
    simp only [Bool.false_eq_true, if_false, processSingle, serFileForm, magic, List.cons_append, List.nil_append,
      List.append_assoc, hm, ne_eq, not_true_eq_false]
    have := key [] st
    simp only [List.append_assoc, List.nil_append, List.cons_append] at this
    rw [this]
    simp [fileBlock, linePre, List.append_assoc]
  | true =>
    simp only [if_true, processSingle, serFileForm, magic, List.cons_append, List.nil_append,
      List.append_assoc, hm, ne_eq, not_true_eq_false, if_false]
    have := key (blanks t.hdr1F.length) { st with out := st.out ++ nm ++ ['\n'] }
    simp only [List.append_assoc, List.nil_append, List.cons_append] at this
    rw [this]
    simp [fileBlock, linePre, List.append_assoc]

theorem plistFiles_ok (t : Tbl) (multi : Bool) (files : List (List Char × List (Item × Bool) × List Byte))
    (hf : ∀ f ∈ files, FileOK t f) (st : PSt) :
    plistFiles t multi st (files.map (fun f => (f.1, serFileForm f.2.1 f.2.2))) =
      .ok ⟨st.out ++ (files.map (fileBlock t multi)).flatten,
           sumsAfter st.sums ((files.map (fun f => f.2.1.map (·.1))).flatten)⟩ := by
  induction files generalizing st with
  | nil => simp [plistFiles, sumsAfter, dataRecs]
  | cons f fs ih =>
    have h1 := processSingle_ok t multi f (hf f (by simp)) st
    simp only [List.map_cons, plistFiles, h1]
    rw [ih (fun g hg => hf g (by simp [hg]))]
    simp [sumsAfter_append, List.append_assoc]

end AslModel.Tools
