import AslModel.Lemmas.Addr
/-! Refinement MODEL → SPEC for statements outside structure bodies (C10). -/
namespace AslModel.Addr
open AslModel.Generated

def isStructOp : Op → Bool
  | .struct _ _ => true
  | .endstruct => true
  | _ => false

/-- explicit side conditions: operand widths, counters far from the 64-bit wrap, and the ORG flavour -/
def PreOut (cfg : Cfg) (a : AddrSpec.A) (st : Stmt) : Prop :=
  (-4611686018427387904 ≤ a.pc a.seg ∧ a.pc a.seg ≤ 4611686018427387904 ∧
   -4611686018427387904 ≤ AddrSpec.off a a.seg ∧ AddrSpec.off a a.seg ≤ 4611686018427387904) ∧
  match st.op with
  | .org v => (cfg.orgLoad = true ∨ AddrSpec.off a a.seg = 0) ∧ 0 ≤ v ∧ v < 18446744073709551616
  | .emit k => k < 2147483648 ∧ 0 ≤ a.pc a.seg ∧ 0 ≤ AddrSpec.dollar a
  | .res k => k < 2147483648 ∧ 0 ≤ a.pc a.seg ∧ 0 ≤ AddrSpec.dollar a
  | .align n f => AddrSpec.dollar a + n - 1 < 2147483648 ∧ 0 ≤ a.pc a.seg ∧ f = none
  | .struct _ _ => False
  | .endstruct => False
  | _ => True

def modelLabelDefs (s : St) (st : Stmt) : List (Sym × Int) :=
  match st.label with
  | some l => [(⟨[], some l⟩, epc s)]
  | none => []

theorem labelPart_R {s : St} {a : AddrSpec.A} (h : Rout s a) (st : Stmt) (hs : isStructOp st.op = false) :
    labelPart s st = (s, modelLabelDefs s st) := by
  unfold labelPart modelLabelDefs labelPresent labelHandle
  rw [h.structs]
  cases hl : st.label <;> cases ho : st.op <;> simp_all [innermostNamed, isStructOp]

/-- `WriteCode` outside a structure, no address overflow -/
theorem writeCode_ok (d : Dec) (hns : d.s.actPC ≠ structSeg) (hc : d.crash = false)
    (hchk : (chkPC d.s (epc d.s) = true ∧ chkPC d.s (wrap64 (epc d.s + d.codeLen - 1)) = true) ∨ d.codeLen = 0) :
    writeCode d = ({ d.s with used := upd d.s.used d.s.actPC true, pcs := upd d.s.pcs d.s.actPC (wrap64 (pc d.s + d.codeLen)) },
                   { errs := d.errs, defs := d.defs, ev := if d.dontPrint then .jump (wrap64 (pc d.s + d.codeLen)) else .emit d.codeLen d.fill }) := by
  unfold writeCode
  rcases hchk with ⟨h1, h2⟩ | hchk
  · simp [hc, hns, h1, h2]
  · simp [hc, hns, hchk]

/-- `DefChkPC` is monotone in the address -/
theorem chkPC_mono (s : St) {a b : Int} (hab : a ≤ b) (h : chkPC s b = true) : chkPC s a = true := by
  unfold chkPC at *
  simp only [Bool.and_eq_true, decide_eq_true_eq] at *
  exact ⟨h.1, by omega⟩

theorem writeCode_ovf (d : Dec) (hns : d.s.actPC ≠ structSeg) (hc : d.crash = false)
    (hchk : chkPC d.s (wrap64 (epc d.s + d.codeLen - 1)) = false) (hl : d.codeLen ≠ 0) :
    (writeCode d).2.errs = d.errs ++ [errAdrOverflow] := by
  unfold writeCode
  simp [hc, hns, hchk, hl]


def wrapDefs (ds : List (Sym × Int)) : List (Sym × Int) := ds.map (fun d => (d.1, wrap64 d.2))

/-- what one step of the refinement claims -/
def SimOut (cfg : Cfg) (segs : Nat → Nat → AddrSpec.SegInfo) (s : St) (a : AddrSpec.A) (st : Stmt) : Prop :=
  match AddrSpec.step segs a st with
  | .ok a' defs => Rout (step cfg s st).1 a' ∧ (step cfg s st).2.errs = [] ∧ (step cfg s st).2.crash = false ∧
                   (step cfg s st).2.defs = wrapDefs defs
  | .reject => (step cfg s st).2.errs ≠ [] ∨ (step cfg s st).2.crash = true
  | .unspecified => True

def specLabelDefs (a : AddrSpec.A) (lab : Option Nat) : List (Sym × Int) :=
  match lab with
  | some l => [(⟨[], some l⟩, AddrSpec.dollar a)]
  | none => []

theorem modelLabelDefs_eq {s : St} {a : AddrSpec.A} (h : Rout s a) (lab : Option Nat) (op : Op) :
    modelLabelDefs s ⟨lab, op⟩ = wrapDefs (specLabelDefs a lab) := by
  cases lab <;> simp [modelLabelDefs, specLabelDefs, wrapDefs, R_epc h]

theorem step_eq {s : St} {a : AddrSpec.A} (cfg : Cfg) (h : Rout s a) (st : Stmt) (hs : isStructOp st.op = false) :
    step cfg s st = ((writeCode (decode cfg s st.op)).1,
      { (writeCode (decode cfg s st.op)).2 with defs := modelLabelDefs s st ++ (writeCode (decode cfg s st.op)).2.defs }) := by
  simp [step, labelPart_R h st hs]

theorem R_write0 {s : St} {a : AddrSpec.A} (h : Rout s a) :
    Rout { s with used := upd s.used s.actPC true, pcs := upd s.pcs s.actPC (wrap64 (pc s + 0)) } a := by
  refine { h with used := ?_, usedAct := ?_, pcs := ?_, savedOK := ?_ }
  · intro t; by_cases ht : t = s.actPC
    · subst ht; simp [upd, ← h.used, h.usedAct]
    · simp [upd, ht, h.used]
  · simp [upd]
  · intro t ht; by_cases h2 : t = s.actPC
    · subst h2; simp [upd, pc, h.pcs _ ht, wrap64_idem]
    · simp [upd, h2, h.pcs t ht]
  · intro x hx; have := h.savedOK x hx
    refine ⟨this.1, ?_⟩
    by_cases h2 : x.2.1 = s.actPC <;> simp [upd, h2, this.2]

theorem R_writek {s : St} {a : AddrSpec.A} (h : Rout s a) (k : Int) :
    Rout { s with used := upd s.used s.actPC true, pcs := upd s.pcs s.actPC (wrap64 (pc s + k)) }
      { a with pc := AddrSpec.upd a.pc a.seg (a.pc a.seg + k) } := by
  refine { h with used := ?_, usedAct := ?_, pcs := ?_, savedOK := ?_, ph := h.ph }
  · intro t; by_cases ht : t = s.actPC
    · subst ht; simp [upd, ← h.used, h.usedAct]
    · simp [upd, ht, h.used]
  · simp [upd]
  · intro t ht; by_cases h2 : t = s.actPC
    · subst h2; have := h.pcs _ ht; simp [upd, AddrSpec.upd, pc, h.seg] at this ⊢; rw [this, wrap64_add_left]
    · have h3 : t ≠ a.seg := by rw [← h.seg]; exact h2
      simp [upd, AddrSpec.upd, h2, h3, h.pcs t ht]
  · intro x hx; have := h.savedOK x hx
    refine ⟨this.1, ?_⟩
    by_cases h2 : x.2.1 = s.actPC <;> simp [upd, h2, this.2]

/-- the state `WriteCode` leaves outside a structure when there is no address overflow -/
def written (d : Dec) : St :=
  { d.s with used := upd d.s.used d.s.actPC true, pcs := upd d.s.pcs d.s.actPC (wrap64 (pc d.s + d.codeLen)) }

theorem step_ok (cfg : Cfg) {s : St} {a : AddrSpec.A} (h : Rout s a) (st : Stmt) (hs : isStructOp st.op = false)
    (hns : (decode cfg s st.op).s.actPC ≠ structSeg) (hc : (decode cfg s st.op).crash = false)
    (hchk : (chkPC (decode cfg s st.op).s (epc (decode cfg s st.op).s) = true ∧
             chkPC (decode cfg s st.op).s (wrap64 (epc (decode cfg s st.op).s + (decode cfg s st.op).codeLen - 1)) = true) ∨
            (decode cfg s st.op).codeLen = 0) :
    (step cfg s st).1 = written (decode cfg s st.op) ∧ (step cfg s st).2.errs = (decode cfg s st.op).errs ∧
    (step cfg s st).2.crash = false ∧ (step cfg s st).2.defs = modelLabelDefs s st ++ (decode cfg s st.op).defs := by
  rw [step_eq cfg h st hs, writeCode_ok _ hns hc hchk]
  simp [written]

theorem R_written0 {a' : AddrSpec.A} (d : Dec) (hR : Rout d.s a') (hk : d.codeLen = 0) : Rout (written d) a' := by
  unfold written; rw [hk]; exact R_write0 hR

/-- closing step for statements that do not advance the counter -/
theorem sim_close0 (cfg : Cfg) (segs) {s : St} {a a' : AddrSpec.A} (h : Rout s a) (lab : Option Nat) (op : Op)
    (hs : isStructOp op = false) (hspec : AddrSpec.step segs a ⟨lab, op⟩ = .ok a' (specLabelDefs a lab))
    (hR : Rout (decode cfg s op).s a') (hk : (decode cfg s op).codeLen = 0) (hc : (decode cfg s op).crash = false)
    (he : (decode cfg s op).errs = []) (hd : (decode cfg s op).defs = []) : SimOut cfg segs s a ⟨lab, op⟩ := by
  unfold SimOut
  obtain ⟨h1, h2, h3, h4⟩ := step_ok cfg h ⟨lab, op⟩ hs hR.notStruct hc (Or.inr hk)
  rw [hspec]
  simp only []
  rw [h1, h2, h3, h4, modelLabelDefs_eq h, he, hd]
  exact ⟨R_written0 _ hR hk, rfl, rfl, by simp⟩

theorem spec_ldefs {a : AddrSpec.A} (hf : a.frames = []) (lab : Option Nat) (op : Op) :
    isStructOp op = false → AddrSpec.labelDefs a ⟨lab, op⟩ = specLabelDefs a lab := by
  cases lab <;> cases op <;> simp [AddrSpec.labelDefs, specLabelDefs, AddrSpec.labelDef, hf, isStructOp]

theorem sim_nop (cfg : Cfg) (segs) {s : St} {a : AddrSpec.A} (h : Rout s a) (lab : Option Nat) : SimOut cfg segs s a ⟨lab, .nop⟩ := by
  apply sim_close0 cfg segs h lab .nop rfl (a' := a)
  · simp [AddrSpec.step, spec_ldefs h.frames lab .nop rfl]
  · exact h
  all_goals simp [decode]

theorem sim_listing (cfg : Cfg) (segs) {s : St} {a : AddrSpec.A} (h : Rout s a) (lab : Option Nat) (b : Bool) :
    SimOut cfg segs s a ⟨lab, .listing b⟩ := by
  apply sim_close0 cfg segs h lab (.listing b) rfl (a' := { a with listing := b })
  · simp [AddrSpec.step, spec_ldefs h.frames lab (.listing b) rfl]
  · exact { h with listing := rfl }
  all_goals simp [decode]

theorem sim_save (cfg : Cfg) (segs) {s : St} {a : AddrSpec.A} (h : Rout s a) (lab : Option Nat) :
    SimOut cfg segs s a ⟨lab, .save⟩ := by
  apply sim_close0 cfg segs h lab .save rfl (a' := { a with saved := (a.cpu, a.seg, a.listing) :: a.saved })
  · simp [AddrSpec.step, h.frames, spec_ldefs h.frames lab .save rfl]
  · refine { h with saves := ?_, savedOK := ?_ }
    · simp [decode, codeSAVE, h.cpu, h.seg, h.listing, h.saves]
    · intro x hx
      simp only [decode, codeSAVE, List.mem_cons] at hx
      rcases hx with hx | hx
      · subst hx; exact ⟨h.notStruct, h.usedAct⟩
      · exact h.savedOK x hx
  all_goals simp [decode, codeSAVE]

theorem sim_rorg (cfg : Cfg) (segs) {s : St} {a : AddrSpec.A} (h : Rout s a) (lab : Option Nat) (d : Int) :
    SimOut cfg segs s a ⟨lab, .rorg d⟩ := by
  apply sim_close0 cfg segs h lab (.rorg d) rfl (a' := { a with pc := AddrSpec.upd a.pc a.seg (a.pc a.seg + d) })
  · simp [AddrSpec.step, h.frames, spec_ldefs h.frames lab (.rorg d) rfl]
  · refine { h with pcs := ?_, savedOK := h.savedOK, ph := h.ph }
    intro t ht
    by_cases h2 : t = s.actPC
    · subst h2; have := h.pcs _ ht
      simp [decode, codeRORG, upd, AddrSpec.upd, h.seg] at this ⊢; rw [this, wrap64_add_left]
    · have h3 : t ≠ a.seg := by rw [← h.seg]; exact h2
      simp [decode, codeRORG, upd, AddrSpec.upd, h2, h3, h.pcs t ht]
  all_goals simp [decode, codeRORG]


theorem codeORG_facts (cfg : Cfg) (s : St) (v : Int) :
    (codeORG cfg s v).codeLen = 0 ∧ (codeORG cfg s v).crash = false ∧ (codeORG cfg s v).errs = [] ∧ (codeORG cfg s v).defs = [] ∧
    (codeORG cfg s v).s.cpu = s.cpu ∧ (codeORG cfg s v).s.actPC = s.actPC ∧ (codeORG cfg s v).s.phases = s.phases ∧
    (codeORG cfg s v).s.pstack = s.pstack ∧ (codeORG cfg s v).s.used = s.used ∧ (codeORG cfg s v).s.listOn = s.listOn ∧
    (codeORG cfg s v).s.saves = s.saves ∧ (codeORG cfg s v).s.structs = s.structs ∧
    (∀ t, t ≠ s.actPC → (codeORG cfg s v).s.pcs t = s.pcs t) ∧
    (cfg.orgLoad = true → (codeORG cfg s v).s.pcs s.actPC = wrap64 v) ∧
    (cfg.orgLoad = false → epc s = wrap64 v → (codeORG cfg s v).s.pcs s.actPC = s.pcs s.actPC) ∧
    (cfg.orgLoad = false → epc s ≠ wrap64 v → (codeORG cfg s v).s.pcs s.actPC = wrap64 (wrap64 v - s.phases s.actPC)) := by
  unfold codeORG
  splits <;> simp_all [upd, pc]

theorem sim_org (cfg : Cfg) (segs) {s : St} {a : AddrSpec.A} (h : Rout s a) (lab : Option Nat) (v : Int)
    (hp : (cfg.orgLoad = true ∨ AddrSpec.off a a.seg = 0) ∧ 0 ≤ v ∧ v < 18446744073709551616) :
    SimOut cfg segs s a ⟨lab, .org v⟩ := by
  have hv : wrap64 v = v := wrap64_small hp.2.1 hp.2.2
  have hpc := R_pc h
  have hph := R_phase h s.actPC
  obtain ⟨f1, f2, f3, f4, e1, e2, e3, e4, e5, e6, e7, e8, e9, g1, g2, g3⟩ := codeORG_facts cfg s v
  apply sim_close0 cfg segs h lab (.org v) rfl (a' := { a with pc := AddrSpec.upd a.pc a.seg v })
  · simp [AddrSpec.step, h.frames, spec_ldefs h.frames lab (.org v) rfl]
  · simp only [decode]
    have e10 : (codeORG cfg s v).s.pcs s.actPC = wrap64 v := by
      by_cases hc : cfg.orgLoad = true
      · exact g1 hc
      · have hc' : cfg.orgLoad = false := by simpa using hc
        have hoff : AddrSpec.off a a.seg = 0 := by rcases hp.1 with h1 | h1; exact absurd h1 hc; exact h1
        rw [h.seg, hoff] at hph
        have hph0 : s.phases a.seg = 0 := by rw [hph]; rfl
        by_cases he : epc s = wrap64 v
        · rw [g2 hc' he, ← he]
          unfold epc; rw [h.seg, hph0, ← h.seg, hpc]; simp only [wrap64_def]; omega
        · rw [g3 hc' he, h.seg, hph0]; simp only [wrap64_def]; omega
    refine { cpu := e1 ▸ h.cpu, seg := e2 ▸ h.seg, listing := e6 ▸ h.listing, saves := e7 ▸ h.saves, structs := e8 ▸ h.structs,
             frames := h.frames, notStruct := e2 ▸ h.notStruct, used := e5 ▸ h.used, usedAct := by rw [e5, e2]; exact h.usedAct,
             pcs := ?_, ph := by rw [e3, e4]; exact h.ph, savedOK := by rw [e7, e5]; exact h.savedOK,
             startedNS := h.startedNS, offsNS := h.offsNS }
    intro t ht
    by_cases h2 : t = s.actPC
    · subst h2; simp [AddrSpec.upd, ← h.seg, e10, hv]
    · have h3 : t ≠ a.seg := by rw [← h.seg]; exact h2
      simp [AddrSpec.upd, h3, e9 t h2, h.pcs t ht]
  all_goals simp [decode, f1, f2, f3, f4]

theorem sim_phase (cfg : Cfg) (segs) {s : St} {a : AddrSpec.A} (h : Rout s a) (lab : Option Nat) (v : Int) :
    SimOut cfg segs s a ⟨lab, .phase v⟩ := by
  by_cases hr : v < -2147483648 ∨ v > 2147483647
  · unfold SimOut; simp [AddrSpec.step, h.frames]
    rcases hr with hr | hr
    · simp [show v < -2147483648 from hr]
    · have : ¬ v < -2147483648 := by omega
      simp [this, show 2147483647 < v from hr]
  · have h1 : ¬ v < -2147483648 := by omega
    have h2 : ¬ v > 4294967295 := by omega
    have h3 : ¬ 2147483647 < v := by omega
    have hti : toI32 v = v := toI32_small (by omega) (by omega)
    apply sim_close0 cfg segs h lab (.phase v) rfl
      (a' := { a with offs := AddrSpec.upd a.offs a.seg ((v - a.pc a.seg) :: a.offs a.seg) })
    · simp [AddrSpec.step, h.frames, h1, h3, spec_ldefs h.frames lab (.phase v) rfl]
    · simp only [decode, codePHASE, h.notStruct, h1, h2, if_false, hti]
      refine { h with ph := ?_, savedOK := h.savedOK, pcs := h.pcs, offsNS := Rout_offsNS_upd h _ }
      intro t
      by_cases ht : t = s.actPC
      · subst ht
        have hp := h.ph s.actPC
        have hpc := R_pc h
        rw [h.seg] at hp hpc
        simp only [upd, AddrSpec.upd, h.seg, if_true, List.map_cons, List.cons_append, pc]
        rw [hp, hpc]
        congr 1
        simp only [wrap64_def]; omega
      · have h3 : t ≠ a.seg := by rw [← h.seg]; exact ht
        simp [upd, AddrSpec.upd, ht, h3, h.ph t]
    all_goals simp [decode, codePHASE, h.notStruct, h1, h2]

theorem sim_dephase (cfg : Cfg) (segs) {s : St} {a : AddrSpec.A} (h : Rout s a) (lab : Option Nat) :
    SimOut cfg segs s a ⟨lab, .dephase⟩ := by
  apply sim_close0 cfg segs h lab .dephase rfl (a' := { a with offs := AddrSpec.upd a.offs a.seg (a.offs a.seg).tail })
  · simp [AddrSpec.step, h.frames, spec_ldefs h.frames lab .dephase rfl]
  · have hph := h.ph s.actPC
    rw [h.seg] at hph
    simp only [decode, codeDEPHASE, h.notStruct, if_false]
    cases hps : s.pstack s.actPC with
    | nil =>
      rw [h.seg] at hps
      simp only []
      refine { h with ph := ?_, savedOK := h.savedOK, pcs := h.pcs, offsNS := Rout_offsNS_upd h _ }
      intro t
      by_cases ht : t = s.actPC
      · subst ht
        rw [hps] at hph
        cases hof : a.offs a.seg with
        | nil => simp [upd, AddrSpec.upd, h.seg, hof, hps]
        | cons o os =>
          rw [hof] at hph
          cases os <;> simp at hph
      · have h3 : t ≠ a.seg := by rw [← h.seg]; exact ht
        simp [upd, AddrSpec.upd, ht, h3, h.ph t]
    | cons p ps =>
      rw [h.seg] at hps
      simp only []
      refine { h with ph := ?_, savedOK := h.savedOK, pcs := h.pcs, offsNS := Rout_offsNS_upd h _ }
      intro t
      by_cases ht : t = s.actPC
      · subst ht
        rw [hps] at hph
        cases hof : a.offs a.seg with
        | nil => rw [hof] at hph; simp at hph
        | cons o os =>
          rw [hof] at hph
          simp only [List.map_cons, List.cons_append, List.cons.injEq] at hph
          simp [upd, AddrSpec.upd, h.seg, hof, hph.2]
      · have h3 : t ≠ a.seg := by rw [← h.seg]; exact ht
        simp [upd, AddrSpec.upd, ht, h3, h.ph t]
  all_goals (simp only [decode, codeDEPHASE, h.notStruct, if_false]; splits <;> simp)


theorem sim_restore (cfg : Cfg) (segs) {s : St} {a : AddrSpec.A} (h : Rout s a) (lab : Option Nat) :
    SimOut cfg segs s a ⟨lab, .restore⟩ := by
  cases hsv : a.saved with
  | nil =>
    unfold SimOut
    have hs : s.saves = [] := by rw [h.saves, hsv]
    have hd : decode cfg s .restore = { s := s, errs := [errNoSaveFrame] } := by simp [decode, codeRESTORE, hs]
    obtain ⟨h1, h2, h3, h4⟩ := step_ok cfg h ⟨lab, .restore⟩ rfl (by rw [hd]; exact h.notStruct) (by rw [hd]) (Or.inr (by rw [hd]))
    simp [AddrSpec.step, h.frames, hsv, h2, hd]
  | cons x rest =>
    obtain ⟨c, p, l⟩ := x
    have hs : s.saves = (c, p, l) :: rest := by rw [h.saves, hsv]
    have hok := h.savedOK (c, p, l) (by rw [hs]; simp)
    have hfacts : (decode cfg s .restore).s.cpu = c ∧ (decode cfg s .restore).s.actPC = p ∧ (decode cfg s .restore).s.listOn = l ∧
        (decode cfg s .restore).s.saves = rest ∧ (decode cfg s .restore).s.pcs = s.pcs ∧ (decode cfg s .restore).s.phases = s.phases ∧
        (decode cfg s .restore).s.pstack = s.pstack ∧ (decode cfg s .restore).s.used = s.used ∧ (decode cfg s .restore).s.structs = s.structs ∧
        (decode cfg s .restore).codeLen = 0 ∧ (decode cfg s .restore).crash = false ∧ (decode cfg s .restore).errs = [] ∧
        (decode cfg s .restore).defs = [] := by
      have hp : p ≠ structSeg := hok.1
      simp only [decode, codeRESTORE, hs]
      by_cases h1 : p = s.actPC <;> by_cases h2 : c = s.cpu <;> simp [h1, h2, hp]
    obtain ⟨e1, e2, e3, e4, e5, e6, e7, e8, e9, f1, f2, f3, f4⟩ := hfacts
    apply sim_close0 cfg segs h lab .restore rfl (a' := { a with cpu := c, seg := p, listing := l, saved := rest })
    · simp [AddrSpec.step, h.frames, hsv, spec_ldefs h.frames lab .restore rfl]
    · refine { cpu := e1, seg := e2, listing := e3, saves := e4, structs := e9 ▸ h.structs, frames := h.frames,
               notStruct := e2 ▸ hok.1, used := e8 ▸ h.used, usedAct := by rw [e8, e2]; exact hok.2,
               pcs := e5 ▸ h.pcs, ph := by rw [e6, e7]; exact h.ph, savedOK := ?_, startedNS := h.startedNS, offsNS := h.offsNS }
      rw [e4, e8]; intro x hx; exact h.savedOK x (by rw [hs]; exact List.mem_cons_of_mem _ hx)
    all_goals assumption

theorem setNSeg_facts (s : St) (n : Nat) (hu : s.used s.actPC = true) :
    (setNSeg s n).1.cpu = s.cpu ∧ (setNSeg s n).1.actPC = n ∧ (setNSeg s n).1.phases = s.phases ∧ (setNSeg s n).1.pstack = s.pstack ∧
    (setNSeg s n).1.listOn = s.listOn ∧ (setNSeg s n).1.saves = s.saves ∧ (setNSeg s n).1.structs = s.structs ∧
    (setNSeg s n).1.used = upd s.used n true ∧
    (setNSeg s n).1.pcs = (if s.used n = true then s.pcs else upd s.pcs n (segP s.cpu n).init) := by
  unfold setNSeg
  by_cases h1 : s.actPC = n
  · subst h1; simp [hu]; funext j; by_cases hj : j = s.actPC <;> simp [upd, hj, hu]
  · by_cases h2 : s.used n = true <;> simp [h1, h2]

theorem R_select (segs) (hag : Agree segs) {s : St} {a : AddrSpec.A} (h : Rout s a) (n : Nat) (hn : n ≠ structSeg) (s2 : St)
    (e : s2.cpu = s.cpu ∧ s2.actPC = n ∧ s2.phases = s.phases ∧ s2.pstack = s.pstack ∧ s2.listOn = s.listOn ∧ s2.saves = s.saves ∧
         s2.structs = s.structs ∧ s2.used = upd s.used n true ∧
         s2.pcs = (if s.used n = true then s.pcs else upd s.pcs n (segP s.cpu n).init)) :
    Rout s2 (AddrSpec.selectSeg segs a n) := by
  obtain ⟨e1, e2, e3, e4, e5, e6, e7, e8, e9⟩ := e
  have hst : a.started n = s.used n := (h.used n).symm
  unfold AddrSpec.selectSeg
  by_cases hu : s.used n = true
  · have hst' : a.started n = true := by rw [hst]; exact hu
    simp only [hst', if_true]
    refine { cpu := e1 ▸ h.cpu, seg := e2, listing := e5 ▸ h.listing, saves := e6 ▸ h.saves, structs := e7 ▸ h.structs, frames := h.frames,
             notStruct := e2 ▸ hn, used := ?_, usedAct := by simp [e8, e2, upd], pcs := ?_, ph := by rw [e3, e4]; exact h.ph, savedOK := ?_,
             startedNS := h.startedNS, offsNS := h.offsNS }
    · intro t; rw [e8]; by_cases ht : t = n
      · subst ht; simp [upd, hst']
      · simp [upd, ht, h.used]
    · rw [e9]; simp only [hu, if_true]; exact h.pcs
    · rw [e6, e8]; intro x hx; have := h.savedOK x hx
      refine ⟨this.1, ?_⟩; by_cases h2 : x.2.1 = n <;> simp [upd, h2, this.2]
  · have hst' : a.started n = false := by rw [hst]; simpa using hu
    simp only [hst', Bool.false_eq_true, if_false]
    refine { cpu := e1 ▸ h.cpu, seg := e2, listing := e5 ▸ h.listing, saves := e6 ▸ h.saves, structs := e7 ▸ h.structs, frames := h.frames,
             notStruct := e2 ▸ hn, used := ?_, usedAct := by simp [e8, e2, upd], pcs := ?_, ph := by rw [e3, e4]; exact h.ph, savedOK := ?_,
             startedNS := by simp [AddrSpec.upd, Ne.symm hn, h.startedNS], offsNS := h.offsNS }
    · intro t; rw [e8]; by_cases ht : t = n
      · subst ht; simp [upd, AddrSpec.upd]
      · simp [upd, AddrSpec.upd, ht, h.used]
    · intro t ht; rw [e9]; simp only [hu, if_false]
      by_cases h2 : t = n
      · subst h2
        have hi := hag.init s.cpu t
        have hsz := hag.initRange a.cpu t
        rw [wrap64_small (by simpa [AddrSpec.upd] using hsz.1) (by simpa [AddrSpec.upd] using hsz.2)]
        rw [h.cpu] at hi
        simp [upd, AddrSpec.upd, hi, h.cpu]
      · simp only [AddrSpec.upd, h2, if_false] at ht
        simp [upd, AddrSpec.upd, h2, h.pcs t ht]
    · rw [e6, e8]; intro x hx; have := h.savedOK x hx
      refine ⟨this.1, ?_⟩; by_cases h2 : x.2.1 = n <;> simp [upd, h2, this.2]


theorem sim_segment (cfg : Cfg) (segs) (hag : Agree segs) {s : St} {a : AddrSpec.A} (h : Rout s a) (lab : Option Nat) (n : Nat) :
    SimOut cfg segs s a ⟨lab, .segment n⟩ := by
  by_cases hv : (segs a.cpu n).present = true
  · have hv' : (segP s.cpu n).valid = true := by rw [hag.valid, h.cpu]; exact hv
    have hn : n ≠ structSeg := by
      intro hn; subst hn; rw [hag.noStruct] at hv; exact absurd hv (by simp)
    have hd : decode cfg s (.segment n) = { s := (setNSeg s n).1, dontPrint := (setNSeg s n).2 } := by
      simp [decode, codeSEGMENT, hv']
    apply sim_close0 cfg segs h lab (.segment n) rfl (a' := AddrSpec.selectSeg segs a n)
    · simp [AddrSpec.step, h.frames, hv, spec_ldefs h.frames lab (.segment n) rfl]
    · rw [hd]; exact R_select segs hag h n hn _ (setNSeg_facts s n h.usedAct)
    all_goals simp [hd]
  · unfold SimOut
    have hv' : (segP s.cpu n).valid = false := by rw [hag.valid, h.cpu]; simpa using hv
    have hd : decode cfg s (.segment n) = { s := s, errs := [errUnknownSegment] } := by simp [decode, codeSEGMENT, hv']
    obtain ⟨h1, h2, h3, h4⟩ := step_ok cfg h ⟨lab, .segment n⟩ rfl (by rw [hd]; exact h.notStruct) (by rw [hd]) (Or.inr (by rw [hd]))
    simp [AddrSpec.step, h.frames, hv, h2, hd]

theorem sim_cpu (cfg : Cfg) (segs) (hag : Agree segs) {s : St} {a : AddrSpec.A} (h : Rout s a) (lab : Option Nat) (c : Nat) :
    SimOut cfg segs s a ⟨lab, .cpu c⟩ := by
  have hR : Rout { s with cpu := c } { a with cpu := c } := { h with cpu := rfl, pcs := h.pcs, ph := h.ph, savedOK := h.savedOK }
  apply sim_close0 cfg segs h lab (.cpu c) rfl (a' := AddrSpec.selectSeg segs { a with cpu := c } 1)
  · simp [AddrSpec.step, h.frames, spec_ldefs h.frames lab (.cpu c) rfl]
  · simp only [decode, codeCPU]
    exact R_select segs hag hR segCode (by decide) _ (setNSeg_facts { s with cpu := c } segCode h.usedAct)
  all_goals simp [decode, codeCPU]


theorem occupy_chk (segs) (hag : Agree segs) {s : St} {a : AddrSpec.A} (h : Rout s a) (k : Int) (hk0 : 0 < k) (hk1 : k < 2147483648)
    (hb : (-4611686018427387904 ≤ a.pc a.seg ∧ a.pc a.seg ≤ 4611686018427387904 ∧
           -4611686018427387904 ≤ AddrSpec.off a a.seg ∧ AddrSpec.off a a.seg ≤ 4611686018427387904))
    (hl : 0 ≤ a.pc a.seg) (he : 0 ≤ AddrSpec.dollar a) :
    (AddrSpec.occupy segs a k = some true → chkPC s (wrap64 (epc s + k - 1)) = true) ∧
    (AddrSpec.occupy segs a k = some false → chkPC s (wrap64 (epc s + k - 1)) = false) := by
  have hd : AddrSpec.dollar a = a.pc a.seg + AddrSpec.off a a.seg := by simp [AddrSpec.dollar, h.frames]
  have hepc : epc s = AddrSpec.dollar a := by rw [R_epc h, wrap64_small he (by omega)]
  have haddr : wrap64 (epc s + k - 1) = AddrSpec.dollar a + k - 1 := by rw [hepc, wrap64_small (by omega) (by omega)]
  have hsz := hag.sizeRange a.cpu a.seg
  unfold AddrSpec.occupy chkPC
  rw [haddr, h.cpu, h.seg, hag.valid]
  have hk : ¬ k = 0 := by omega
  simp only [hk, if_false, ← hd]
  by_cases hp : (segs a.cpu a.seg).present = true
  · rw [hag.limit _ _ hp, hp]
    by_cases h1 : (0 ≤ a.pc a.seg ∧ a.pc a.seg + k ≤ (segs a.cpu a.seg).size) <;>
    by_cases h2 : (0 ≤ AddrSpec.dollar a ∧ AddrSpec.dollar a + k ≤ (segs a.cpu a.seg).size) <;>
    simp [h1, h2] <;> omega
  · have hp' : (segs a.cpu a.seg).present = false := by simpa using hp
    have hab := hag.absent _ _ hp'
    rw [hp']
    have h1 : ¬ (0 ≤ a.pc a.seg ∧ a.pc a.seg + k ≤ (segs a.cpu a.seg).size) := by omega
    have h2 : ¬ (0 ≤ AddrSpec.dollar a ∧ AddrSpec.dollar a + k ≤ (segs a.cpu a.seg).size) := by omega
    simp [h1, h2]


/-- generic closing step for a statement that occupies `k ≥ 0` units at the current position -/
theorem sim_reserve (cfg : Cfg) (segs) (hag : Agree segs) {s : St} {a : AddrSpec.A} (h : Rout s a) (lab : Option Nat) (op : Op)
    (hs : isStructOp op = false) (k : Int) (hk0 : 0 ≤ k) (hk1 : k < 2147483648)
    (hb : (-4611686018427387904 ≤ a.pc a.seg ∧ a.pc a.seg ≤ 4611686018427387904 ∧
           -4611686018427387904 ≤ AddrSpec.off a a.seg ∧ AddrSpec.off a a.seg ≤ 4611686018427387904))
    (hl : 0 ≤ a.pc a.seg) (he : 0 ≤ AddrSpec.dollar a)
    (hspec : AddrSpec.step segs a ⟨lab, op⟩ = AddrSpec.reserve segs a k (specLabelDefs a lab))
    (hds : (decode cfg s op).s = s) (hdk : (decode cfg s op).codeLen = k) (hc : (decode cfg s op).crash = false)
    (hde : (decode cfg s op).errs = []) (hdd : (decode cfg s op).defs = []) : SimOut cfg segs s a ⟨lab, op⟩ := by
  unfold SimOut
  rw [hspec]
  unfold AddrSpec.reserve
  simp only [h.frames]
  have hns : (decode cfg s op).s.actPC ≠ structSeg := by rw [hds]; exact h.notStruct
  by_cases hkz : k = 0
  · -- nothing occupied
    have ho : AddrSpec.occupy segs a k = some true := by simp [AddrSpec.occupy, hkz]
    obtain ⟨h1, h2, h3, h4⟩ := step_ok cfg h ⟨lab, op⟩ hs hns hc (Or.inr (by rw [hdk]; exact hkz))
    simp only [ho]
    rw [h1, h2, h3, h4, modelLabelDefs_eq h, hde, hdd]
    refine ⟨?_, rfl, rfl, by simp⟩
    have := R_writek (by rw [hds]; exact h : Rout (decode cfg s op).s a) k
    simpa [written, AddrSpec.advance, h.frames, hdk] using this
  · have hkp : 0 < k := by omega
    obtain ⟨c1, c2⟩ := occupy_chk segs hag h k hkp hk1 hb hl he
    cases ho : AddrSpec.occupy segs a k with
    | none => simp
    | some b =>
      cases b with
      | true =>
        have hchk := c1 ho
        have hd : AddrSpec.dollar a = a.pc a.seg + AddrSpec.off a a.seg := by simp [AddrSpec.dollar, h.frames]
        have hepc : epc s = AddrSpec.dollar a := by rw [R_epc h, wrap64_small he (by omega)]
        have haddr : wrap64 (epc s + k - 1) = AddrSpec.dollar a + k - 1 := by rw [hepc, wrap64_small (by omega) (by omega)]
        have hfirst : chkPC s (epc s) = true := chkPC_mono s (by rw [haddr, hepc]; omega) hchk
        obtain ⟨h1, h2, h3, h4⟩ := step_ok cfg h ⟨lab, op⟩ hs hns hc (Or.inl ⟨by rw [hds]; exact hfirst, by rw [hds, hdk]; exact hchk⟩)
        simp only []
        rw [h1, h2, h3, h4, modelLabelDefs_eq h, hde, hdd]
        refine ⟨?_, rfl, rfl, by simp⟩
        have := R_writek (by rw [hds]; exact h : Rout (decode cfg s op).s a) k
        simpa [written, AddrSpec.advance, h.frames, hdk] using this
      | false =>
        have hchk := c2 ho
        simp only []
        left
        rw [step_eq cfg h ⟨lab, op⟩ hs]
        have := writeCode_ovf (decode cfg s op) hns hc (by rw [hds, hdk]; exact hchk) (by rw [hdk]; exact hkz)
        simp [this]

theorem sim_emit (cfg : Cfg) (segs) (hag : Agree segs) {s : St} {a : AddrSpec.A} (h : Rout s a) (lab : Option Nat) (k : Int)
    (hp : PreOut cfg a ⟨lab, .emit k⟩) : SimOut cfg segs s a ⟨lab, .emit k⟩ := by
  obtain ⟨hb, hk1, hl, he⟩ := hp
  by_cases hk : k ≤ 0
  · unfold SimOut; simp [AddrSpec.step, hk]
  · have hti : toI32 k = k := toI32_small (by omega) (by omega)
    apply sim_reserve cfg segs hag h lab (.emit k) rfl k (by omega) hk1 hb hl he
    · simp [AddrSpec.step, hk, h.frames, spec_ldefs h.frames lab (.emit k) rfl]
    all_goals simp [decode, hti]

theorem sim_res (cfg : Cfg) (segs) (hag : Agree segs) {s : St} {a : AddrSpec.A} (h : Rout s a) (lab : Option Nat) (k : Int)
    (hp : PreOut cfg a ⟨lab, .res k⟩) : SimOut cfg segs s a ⟨lab, .res k⟩ := by
  obtain ⟨hb, hk1, hl, he⟩ := hp
  by_cases hk : k ≤ 0
  · unfold SimOut; simp [AddrSpec.step, hk]
  · have hti : toI32 k = k := toI32_small (by omega) (by omega)
    apply sim_reserve cfg segs hag h lab (.res k) rfl k (by omega) hk1 hb hl he
    · simp [AddrSpec.step, hk, h.frames, spec_ldefs h.frames lab (.res k) rfl]
    all_goals simp [decode, hti]


theorem sim_align (cfg : Cfg) (segs) (hag : Agree segs) {s : St} {a : AddrSpec.A} (h : Rout s a) (lab : Option Nat) (n : Int)
    (f : Option Nat) (hp : PreOut cfg a ⟨lab, .align n f⟩) : SimOut cfg segs s a ⟨lab, .align n f⟩ := by
  obtain ⟨hb, hw, hl, hf⟩ := hp
  subst hf
  by_cases hn0 : n = 0
  · subst hn0
    unfold SimOut
    simp only [AddrSpec.step, if_true]
    rw [step_eq cfg h ⟨lab, .align 0 none⟩ rfl]
    by_cases hz : cfg.alignZeroErr = 0
    · right
      have hd : decode cfg s (.align 0 none) = { s := s, crash := true } := by
        simp [decode, codeALIGN, toWord_def, hz]
      simp [hd, writeCode]
    · left
      have hd : decode cfg s (.align 0 none) = { s := s, errs := [cfg.alignZeroErr] } := by
        simp [decode, codeALIGN, toWord_def, hz]
      have hw := writeCode_ok (decode cfg s (.align 0 none)) (by rw [hd]; exact h.notStruct) (by rw [hd]) (Or.inr (by rw [hd]))
      rw [hw, hd]
      simp
  · by_cases hr : n < 0 ∨ n > 65535
    · unfold SimOut
      rcases hr with hr | hr <;> simp [AddrSpec.step, hn0, hr]
    · by_cases hd0 : AddrSpec.dollar a < 0 ∨ (segs a.cpu a.seg).size < AddrSpec.dollar a
      · unfold SimOut
        have h1 : ¬ n < 0 := by omega
        have h2 : ¬ 65535 < n := by omega
        rcases hd0 with hd0 | hd0 <;> simp [AddrSpec.step, hn0, h1, h2, h.frames, hd0]
      · have hd1 : ¬ AddrSpec.dollar a < 0 := fun hx => hd0 (Or.inl hx)
        have hd2 : ¬ (segs a.cpu a.seg).size < AddrSpec.dollar a := fun hx => hd0 (Or.inr hx)
        have hnp : 0 < n := by omega
        have hn2 : n < 65536 := by omega
        have he : 0 ≤ AddrSpec.dollar a := by omega
        have hepc : epc s = AddrSpec.dollar a := by rw [R_epc h, wrap64_small he (by omega)]
        obtain ⟨l1, l2, l3, l4, _⟩ := codeALIGN_len cfg s n hnp hn2 (by rw [hepc]; exact hw)
        obtain ⟨_, b1, b2, _⟩ := alignUp_spec (AddrSpec.dollar a) n he hnp
        rw [hepc] at l1
        apply sim_reserve cfg segs hag h lab (.align n none) rfl (AddrSpec.alignUp (AddrSpec.dollar a) n - AddrSpec.dollar a)
          (by omega) (by omega) hb hl he
        · have h1 : ¬ n < 0 := by omega
          have h2 : ¬ 65535 < n := by omega
          simp [AddrSpec.step, hn0, h1, h2, h.frames, hd1, hd2, spec_ldefs h.frames lab (.align n none) rfl]
        · simpa [decode] using l4
        · simpa [decode] using l1
        · simpa [decode] using l2
        · simpa [decode] using l3
        · simp only [decode]; unfold codeALIGN; splits <;> simp


theorem refine_step_out (cfg : Cfg) (segs) (hag : Agree segs) {s : St} {a : AddrSpec.A} (h : Rout s a) (st : Stmt)
    (hp : PreOut cfg a st) : SimOut cfg segs s a st := by
  obtain ⟨lab, op⟩ := st
  cases op with
  | org v => exact sim_org cfg segs h lab v hp.2
  | rorg d => exact sim_rorg cfg segs h lab d
  | align n f => exact sim_align cfg segs hag h lab n f hp
  | res k => exact sim_res cfg segs hag h lab k hp
  | emit k => exact sim_emit cfg segs hag h lab k hp
  | segment n => exact sim_segment cfg segs hag h lab n
  | cpu c => exact sim_cpu cfg segs hag h lab c
  | phase v => exact sim_phase cfg segs h lab v
  | dephase => exact sim_dephase cfg segs h lab
  | save => exact sim_save cfg segs h lab
  | restore => exact sim_restore cfg segs h lab
  | listing b => exact sim_listing cfg segs h lab b
  | struct n u => exact absurd hp.2 (by simp)
  | endstruct => exact absurd hp.2 (by simp)
  | nop => exact sim_nop cfg segs h lab

theorem R_init (segs) (hag : Agree segs) (c : Nat) : Rout (init c) (AddrSpec.init segs c) := by
  refine { cpu := rfl, seg := rfl, listing := rfl, saves := rfl, structs := rfl, frames := rfl, notStruct := by simp [init, segCode, structSeg],
           used := ?_, usedAct := by simp [init, upd], pcs := ?_, ph := by intro t; simp [init, AddrSpec.init, wrap64_def], savedOK := by simp [init],
           startedNS := by simp [AddrSpec.init, AddrSpec.upd, structSeg], offsNS := rfl }
  · intro t; by_cases ht : t = 1 <;> simp [init, AddrSpec.init, upd, AddrSpec.upd, segCode, ht]
  · intro t ht
    have ht1 : t = 1 := by
      by_cases h1 : t = 1
      · exact h1
      · simp [AddrSpec.init, AddrSpec.upd, h1] at ht
    subst ht1
    have hr := hag.initRange c 1
    simp only [init, AddrSpec.init, upd, segCode, if_true]
    rw [hag.init c 1, wrap64_small hr.1 hr.2]


theorem writeCode_keeps (d : Dec) : (writeCode d).1.phases = d.s.phases ∧ (writeCode d).1.pstack = d.s.pstack ∧
    (writeCode d).1.cpu = d.s.cpu ∧ (writeCode d).1.listOn = d.s.listOn ∧ (writeCode d).1.saves = d.s.saves := by
  unfold writeCode
  splits <;> simp

theorem step_none_fields (cfg : Cfg) (s : St) (op : Op) :
    (step cfg s ⟨none, op⟩).1.phases = (decode cfg s op).s.phases ∧ (step cfg s ⟨none, op⟩).1.pstack = (decode cfg s op).s.pstack := by
  have := writeCode_keeps (decode cfg s op)
  exact ⟨this.1, this.2.1⟩

theorem dephase_after {cfg : Cfg} (s1 : St) (act : Nat) (x : Int) (xs : List Int) (h1 : s1.actPC = act) (hns : act ≠ structSeg)
    (h2 : s1.pstack act = x :: xs) :
    (decode cfg s1 .dephase).s.phases act = x ∧ (decode cfg s1 .dephase).s.pstack act = xs := by
  subst h1
  simp [decode, codeDEPHASE, hns, h2, upd]


instance instDecPre (cfg : Cfg) (a : AddrSpec.A) (st : Stmt) : Decidable (PreOut cfg a st) := by
  unfold PreOut; split <;> infer_instance

end AslModel.Addr
