import AslModel.Model.Drehe
/-! Lemmas: the C word arithmetic of DreheCodes is byte reversal inside each unit. -/
namespace AslModel.Drehe

theorem and_ff (w : Nat) : w &&& 0xff = w % 256 := Nat.and_two_pow_sub_one_eq_mod w 8

theorem and_ff00_shift (w : Nat) : (w &&& 0xff00) >>> 8 = w / 256 % 256 := by
  rw [Nat.shiftRight_and_distrib]
  have : (0xff00 : Nat) >>> 8 = 0xff := by decide
  rw [this, and_ff, Nat.shiftRight_eq_div_pow]

theorem swapW_eq (w : Nat) : swapW w = ((w % 256) * 256 + w / 256 % 256) % 65536 := by
  unfold swapW
  rw [and_ff, and_ff00_shift, Nat.shiftLeft_eq]

theorem ofNat_toNat (b : UInt8) : UInt8.ofNat b.toNat = b := by simp

theorem store_swap_load_W (b0 b1 : UInt8) : storeW (swapW (loadW b0 b1)) = [b1, b0] := by
  have h0 : b0.toNat < 256 := b0.toNat_lt
  have h1 : b1.toNat < 256 := b1.toNat_lt
  have w1 : (b0.toNat + 256 * b1.toNat) % 256 = b0.toNat := by omega
  have w2 : (b0.toNat + 256 * b1.toNat) / 256 % 256 = b1.toNat := by omega
  have hs : swapW (loadW b0 b1) = b1.toNat + 256 * b0.toNat := by
    rw [swapW_eq]; unfold loadW; rw [w1, w2]; omega
  have e1 : (b1.toNat + 256 * b0.toNat) % 256 = b1.toNat := by omega
  have e2 : (b1.toNat + 256 * b0.toNat) / 256 % 256 = b0.toNat := by omega
  simp only [storeW, hs, e1, e2, ofNat_toNat]

theorem shl_or (a x : Nat) (hx : x < 256) : (a <<< 8) ||| x = a * 256 + x := by
  rw [← Nat.shiftLeft_add_eq_or_of_lt (by simpa using hx), Nat.shiftLeft_eq]

theorem swapDStep_eq (p : Nat × Nat) :
    swapDStep p = ((p.1 * 256 + p.2 % 256) % 4294967296, p.2 / 256) := by
  unfold swapDStep
  rw [and_ff, shl_or _ _ (Nat.mod_lt _ (by decide)), Nat.shiftRight_eq_div_pow]

theorem bytes4 (a b c d : Nat) (ha : a < 256) (hb : b < 256) (hc : c < 256) (hd : d < 256) :
    (a + 256 * b + 65536 * c + 16777216 * d) % 256 = a ∧
    (a + 256 * b + 65536 * c + 16777216 * d) / 256 % 256 = b ∧
    (a + 256 * b + 65536 * c + 16777216 * d) / 65536 % 256 = c ∧
    (a + 256 * b + 65536 * c + 16777216 * d) / 16777216 % 256 = d := by
  refine ⟨by omega, by omega, by omega, by omega⟩

theorem store_swap_load_D (b0 b1 b2 b3 : UInt8) : storeD (swapD (loadD b0 b1 b2 b3)) = [b3, b2, b1, b0] := by
  have h0 : b0.toNat < 256 := b0.toNat_lt
  have h1 : b1.toNat < 256 := b1.toNat_lt
  have h2 : b2.toNat < 256 := b2.toNat_lt
  have h3 : b3.toNat < 256 := b3.toNat_lt
  generalize hd : loadD b0 b1 b2 b3 = d
  have hdv : d = b0.toNat + 256 * b1.toNat + 65536 * b2.toNat + 16777216 * b3.toNat := by rw [← hd]; rfl
  have q0 : d % 256 = b0.toNat := by omega
  have q1 : d / 256 % 256 = b1.toNat := by omega
  have q2 : d / 256 / 256 % 256 = b2.toNat := by omega
  have q3 : d / 256 / 256 / 256 % 256 = b3.toNat := by omega
  have s1 : swapDStep (0, d) = (b0.toNat, d / 256) := by
    rw [swapDStep_eq]; simp only []; rw [q0]; congr 1; omega
  have s2 : swapDStep (b0.toNat, d / 256) = (b0.toNat * 256 + b1.toNat, d / 256 / 256) := by
    rw [swapDStep_eq]; simp only []; rw [q1]; congr 1; omega
  have s3 : swapDStep (b0.toNat * 256 + b1.toNat, d / 256 / 256) =
      ((b0.toNat * 256 + b1.toNat) * 256 + b2.toNat, d / 256 / 256 / 256) := by
    rw [swapDStep_eq]; simp only []; rw [q2]; congr 1; omega
  have s4 : swapDStep ((b0.toNat * 256 + b1.toNat) * 256 + b2.toNat, d / 256 / 256 / 256) =
      (((b0.toNat * 256 + b1.toNat) * 256 + b2.toNat) * 256 + b3.toNat, d / 256 / 256 / 256 / 256) := by
    rw [swapDStep_eq]; simp only []; rw [q3]; congr 1; omega
  have hs : swapD d = b3.toNat + 256 * b2.toNat + 65536 * b1.toNat + 16777216 * b0.toNat := by
    unfold swapD
    rw [s1, s2, s3, s4]
    simp only []
    omega
  rw [hs]
  obtain ⟨e0, e1, e2, e3⟩ := bytes4 b3.toNat b2.toNat b1.toNat b0.toNat h3 h2 h1 h0
  simp only [storeD, e0, e1, e2, e3, ofNat_toNat]

theorem turn2_cons (n : Nat) (b0 b1 : UInt8) (rest : List UInt8) :
    turn2 (n + 1) (b0 :: b1 :: rest) = b1 :: b0 :: turn2 n rest := by
  simp [turn2, store_swap_load_W]

theorem turn4_cons (n : Nat) (b0 b1 b2 b3 : UInt8) (rest : List UInt8) :
    turn4 (n + 1) (b0 :: b1 :: b2 :: b3 :: rest) = b3 :: b2 :: b1 :: b0 :: turn4 n rest := by
  simp [turn4, store_swap_load_D]

theorem turn2_invol : ∀ (n : Nat) (bs : List UInt8), turn2 n (turn2 n bs) = bs := by
  intro n
  induction n with
  | zero => intro bs; simp [turn2]
  | succ n ih =>
    intro bs
    match bs with
    | [] => simp [turn2]
    | [b] => simp [turn2]
    | b0 :: b1 :: rest => rw [turn2_cons, turn2_cons, ih]

theorem turn4_invol : ∀ (n : Nat) (bs : List UInt8), turn4 n (turn4 n bs) = bs := by
  intro n
  induction n with
  | zero => intro bs; simp [turn4]
  | succ n ih =>
    intro bs
    match bs with
    | [] => simp [turn4]
    | [a] => simp [turn4]
    | [a, b] => simp [turn4]
    | [a, b, c] => simp [turn4]
    | b0 :: b1 :: b2 :: b3 :: rest => rw [turn4_cons, turn4_cons, ih]

theorem turn2_length : ∀ (n : Nat) (bs : List UInt8), (turn2 n bs).length = bs.length := by
  intro n
  induction n with
  | zero => intro bs; simp [turn2]
  | succ n ih =>
    intro bs
    match bs with
    | [] => simp [turn2]
    | [b] => simp [turn2]
    | b0 :: b1 :: rest => rw [turn2_cons]; simp [ih]

theorem turn4_length : ∀ (n : Nat) (bs : List UInt8), (turn4 n bs).length = bs.length := by
  intro n
  induction n with
  | zero => intro bs; simp [turn4]
  | succ n ih =>
    intro bs
    match bs with
    | [] => simp [turn4]
    | [a] => simp [turn4]
    | [a, b] => simp [turn4]
    | [a, b, c] => simp [turn4]
    | b0 :: b1 :: b2 :: b3 :: rest => rw [turn4_cons]; simp [ih]

end AslModel.Drehe
