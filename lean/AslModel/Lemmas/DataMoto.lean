import AslModel.Lemmas.DataIntel
/-! Helper lemmas for `Props/C09.lean`: the whole argument list of `DecodeMotoBYT` / `DecodeMotoADR` (BYT/FCB,
ADR/FDB) on byte-listing targets against `specArgs`. -/
namespace AslModel.DataLemmas
open AslModel.PFile AslModel.Data AslModel.DataModel

/-- what `Out` does to the state of the argument loop of `DecodeMotoBYT/ADR` (`none` = the statement is in error) -/
def applyOutM (st : MSt) : Out → Option MSt
  | .empty => some st
  | .data bs => if st.space = 1 then none else some { st with space := 0, buf := st.buf ++ bs }
  | .space k => if st.space = 0 then none else some { st with space := 1, res := st.res + k }

theorem applyOutM_add (st : MSt) (x y : Out) :
    (Out.add x y).bind (applyOutM st) = (applyOutM st x).bind fun s => applyOutM s y := by
  cases x <;> cases y <;> simp only [Out.add, applyOutM, Option.bind_some, Option.bind_none] <;>
    (by_cases h1 : st.space = 1 <;> by_cases h0 : st.space = 0 <;> simp_all [List.append_assoc] <;> try omega)

/-- element of the statement: bytes (BYT/FCB) or words (ADR/FDB) -/
def elem8 (wide : Bool) : Elem := if wide then elemWord else elemByte

theorem put_append (c : MCfg) (hlg : c.lg = 1) (wide : Bool) (bf : List Byte) (u : Nat) :
    (if wide then putADR c else putByte c) bf u = bf ++ encNat (elem8 wide).bytes c.mturn u := by
  cases wide <;> cases hm : c.mturn <;>
    simp [putByte, putADR, encNat, encLE, hlg, hm, elem8, elemWord, elemByte]

theorem iterate_append (x : List Byte) (k : Nat) (bf : List Byte) :
    iterate (fun bf => bf ++ x) k bf = bf ++ (List.replicate k x).flatten := by
  induction k generalizing bf with
  | zero => simp [iterate]
  | succ k ih => simp only [iterate, ih, List.replicate_succ, List.flatten_cons, List.append_assoc]

theorem foldl_append (f : Byte → List Byte) (cs : List Byte) (bf : List Byte) :
    cs.foldl (fun bf ch => bf ++ f ch) bf = bf ++ (cs.map f).flatten := by
  induction cs generalizing bf with
  | nil => simp
  | cons ch cs ih => simp only [List.foldl_cons, ih, List.map_cons, List.flatten_cons, List.append_assoc]

theorem elem8_cases (wide : Bool) : (elem8 wide).bytes = 1 ∨ (elem8 wide).bytes = 2 ∨ (elem8 wide).bytes = 4 ∨ (elem8 wide).bytes = 8 := by
  cases wide <;> simp [elem8, elemWord, elemByte]

theorem elem8_eq (wide : Bool) : elem8 wide = ⟨(elem8 wide).bytes, true, none⟩ := by cases wide <;> rfl

theorem itype8 (wide : Bool) : (if wide then Generated.itInt16 else Generated.itInt8) = intTypeOfBytes (elem8 wide).bytes := by
  cases wide <;> rfl

/-- one argument without repetition, repeated `k` times -/
theorem moto8_core (c : MCfg) (hlg : c.lg = 1) (wide : Bool) (st : MSt) (rep : Int) (hrep : 0 ≤ rep) (a : Arg)
    (hok : moto8OK1 a = true) (hnr : ∀ n x, a ≠ .rep n x) :
    moto8Arg c wide false st (.rep rep a) =
      ((specArg (elem8 wide) c.mturn a).map (Out.times rep)).bind (applyOutM st) := by
  have hput : (if wide then putADR c else putByte c) = fun bf u => bf ++ encNat (elem8 wide).bytes c.mturn u := by
    funext bf u; exact put_append c hlg wide bf u
  have hc := elem8_cases wide
  have h8 : 8 * (elem8 wide).bytes / 8 = (elem8 wide).bytes := by omega
  cases a with
  | rep n x => exact absurd rfl (hnr n x)
  | dup n as => simp [moto8OK1] at hok
  | flt x => simp [moto8OK1] at hok
  | q =>
    simp only [moto8Arg, cutRep, Bool.false_eq_true, if_false, specArg, Option.map_some, Out.times, Option.bind_some, applyOutM]
    by_cases hs : st.space = 0
    · simp [hs]
    · simp only [hs, if_false]
      congr 2
      have : ((rep.toNat * (elem8 wide).bytes : Nat) : Int) = (if wide then 2 * rep else rep) := by
        rw [Int.natCast_mul, Int.toNat_of_nonneg hrep]
        cases wide <;> simp [elem8, elemWord, elemByte]
        omega
      rw [this]
  | int v =>
    simp only [moto8OK1, decide_eq_true_eq] at hok
    have hv : -(2 : Int) ^ 63 ≤ v ∧ v < (2 : Int) ^ 64 ∧ ((elem8 wide).bytes ≠ 8 → v < (2 : Int) ^ 63) := by
      simp only [Int.reducePow] at hok ⊢; omega
    have hr := rangeCheck_spec (elem8 wide).bytes hc v hv
    simp only [moto8Arg, cutRep, Bool.false_eq_true, if_false, itype8, hr, hput, iterate_append]
    rw [elem8_eq wide]
    simp only [specArg, specInt, encInt, if_true, h8]
    by_cases hs : st.space = 1
    · cases inRange (8 * (elem8 wide).bytes) v <;> simp [hs, applyOutM, Out.times]
    · cases hi : inRange (8 * (elem8 wide).bytes) v
      · simp [hs]
      · simp [hs, applyOutM, Out.times, int_bytes (elem8 wide).bytes hc]
  | str cs =>
    simp only [moto8Arg, cutRep, Bool.false_eq_true, if_false, hput, foldl_append, iterate_append]
    rw [elem8_eq wide]
    simp only [specArg, specChars_eq _ hc none c.mturn cs, Option.map_some, Option.bind_some, Out.times, applyOutM, charBytes]
    try (by_cases hs : st.space = 1 <;> simp [hs])

theorem moto8_arg (c : MCfg) (hlg : c.lg = 1) (wide : Bool) (st : MSt) (a : Arg) (hok : moto8OK a = true) :
    moto8Arg c wide false st a = (specArg (elem8 wide) c.mturn a).bind (applyOutM st) := by
  cases a with
  | rep n x =>
    simp only [moto8OK, Bool.and_eq_true, decide_eq_true_eq] at hok
    have hnr : ∀ m y, x ≠ .rep m y := by
      intro m y h; subst h; simp [moto8OK1] at hok
    have := moto8_core c hlg wide st n hok.1 x hok.2 hnr
    rw [this, specArg]
  | int v =>
    have := moto8_core c hlg wide st 1 (by decide) (.int v) hok (by intro m y h; cases h)
    have h1 : moto8Arg c wide false st (.rep 1 (.int v)) = moto8Arg c wide false st (.int v) := by
      simp only [moto8Arg, cutRep]
    rw [← h1, this]
    cases specArg (elem8 wide) c.mturn (.int v) with
    | none => rfl
    | some o => cases o <;> simp [Out.times]
  | str cs =>
    have := moto8_core c hlg wide st 1 (by decide) (.str cs) hok (by intro m y h; cases h)
    have h1 : moto8Arg c wide false st (.rep 1 (.str cs)) = moto8Arg c wide false st (.str cs) := by
      simp only [moto8Arg, cutRep]
    rw [← h1, this]
    cases specArg (elem8 wide) c.mturn (.str cs) with
    | none => rfl
    | some o => cases o <;> simp [Out.times]
  | q =>
    have := moto8_core c hlg wide st 1 (by decide) .q hok (by intro m y h; cases h)
    have h1 : moto8Arg c wide false st (.rep 1 .q) = moto8Arg c wide false st .q := by
      simp only [moto8Arg, cutRep]
    rw [← h1, this]
    simp [specArg, Out.times]
  | flt x => simp [moto8OK, moto8OK1] at hok
  | dup n as => simp [moto8OK, moto8OK1] at hok

/-- nothing reserved so far is negative -/
def MInv (st : MSt) : Prop := 0 ≤ st.res

theorem applyOutM_inv (st st' : MSt) (o : Out) (hi : MInv st) (h : applyOutM st o = some st') : MInv st' := by
  cases o with
  | empty => simp only [applyOutM, Option.some.injEq] at h; subst h; exact hi
  | data bs =>
    simp only [applyOutM] at h
    split at h
    · cases h
    · simp only [Option.some.injEq] at h; subst h; exact hi
  | space k =>
    simp only [applyOutM] at h
    split at h
    · cases h
    · simp only [Option.some.injEq] at h; subst h
      unfold MInv at hi ⊢
      simp only
      omega

theorem moto8_args (c : MCfg) (hlg : c.lg = 1) (wide : Bool) :
    (as : Args) → (st : MSt) → moto8OKs as = true →
      moto8Args c wide false as st = (specArgs (elem8 wide) c.mturn as).bind (applyOutM st)
  | .nil, st, _ => by simp [moto8Args, specArgs, applyOutM]
  | .cons a as, st, hok => by
    simp only [moto8OKs, Bool.and_eq_true] at hok
    simp only [moto8Args, specArgs, moto8_arg c hlg wide st a hok.1]
    cases hx : specArg (elem8 wide) c.mturn a with
    | none => rfl
    | some x =>
      simp only [Option.bind_some]
      cases hs : applyOutM st x with
      | none =>
        cases hy : specArgs (elem8 wide) c.mturn as with
        | none => rfl
        | some y =>
          have := applyOutM_add st x y
          rw [hs] at this
          simp only [Option.bind_none] at this
          simp only [this]
      | some s =>
        simp only [moto8_args c hlg wide as s hok.2]
        cases hy : specArgs (elem8 wide) c.mturn as with
        | none => rfl
        | some y =>
          have := applyOutM_add st x y
          rw [hs] at this
          simp only [Option.bind_some] at this ⊢
          rw [this]

/-- **BYT/FCB, ADR/FDB: the whole statement** -/
theorem moto8_stmt (c : MCfg) (hlg : c.lg = 1) (wide : Bool) (as : Args) (hok : moto8OKs as = true) :
    decodeMoto8 c wide false as = (specArgs (elem8 wide) c.mturn as).map fun o => ⟨none, Out.norm o, []⟩ := by
  unfold decodeMoto8
  rw [moto8_args c hlg wide as {} hok]
  have hw : ∀ bs, writeBytes c bs = bs := by
    intro bs
    unfold writeBytes
    rw [if_neg (by rw [hlg]; simp)]
  cases specArgs (elem8 wide) c.mturn as with
  | none => rfl
  | some o =>
    cases o with
    | empty => simp [applyOutM, mkOut, hw, Out.norm]
    | data bs =>
      cases bs with
      | nil => simp [applyOutM, mkOut, hw, Out.norm]
      | cons x xs => simp [applyOutM, mkOut, hw, Out.norm]
    | space k =>
      cases k with
      | zero => simp [applyOutM, mkOut, Out.norm]
      | succ k =>
        simp only [Option.bind_some, applyOutM, Option.map_some, mkOut, Out.norm]
        simp

end AslModel.DataLemmas
