import AslModel.Model.MacroLabels
/-! helper lemmas for `Props/C11_Labels.lean`: the handle stack is a frame of every statement; the loop invariant of the
construct processors (as in `Lemmas/SymLoc.lean`); `walkConts` skips spaces that do not hold the name; `enter d` -/
namespace AslModel.MacroLabels
open AslModel.MacroLabelsSpec

/-- the handle stack of `b` is that of `a` -/
structure Frame (a b : St) : Prop where
  mom : b.mom = a.mom
  conts : b.conts = a.conts

theorem Frame.refl (a : St) : Frame a a := ⟨rfl, rfl⟩
theorem Frame.trans {a b c : St} (h1 : Frame a b) (h2 : Frame b c) : Frame a c :=
  ⟨h2.mom.trans h1.mom, h2.conts.trans h1.conts⟩

theorem defineLabel_frame (st : St) (k v : Nat) : Frame st (defineLabel st k v) := by
  unfold defineLabel
  split <;> exact ⟨rfl, rfl⟩

def Inv (glob first : Bool) (st0 st : St) : Prop :=
  if glob ∨ first then Frame st0 st else st.conts = st0.mom :: st0.conts

theorem iterOpen_inv (glob first : Bool) (st0 st : St) (h : Inv glob first st0 st) :
    Inv glob false st0 (iterOpen glob first st) := by
  unfold Inv iterOpen at *
  by_cases hg : glob = true
  · simp [hg] at h ⊢; exact h
  · cases first
    · simp [hg] at h ⊢
      simp only [pushFresh, pushLoc, popLoc, h]
    · simp [hg] at h ⊢
      simp only [pushFresh, pushLoc, h.mom, h.conts]

theorem inv_step (glob : Bool) (st0 st st' : St) (h : Inv glob false st0 st) (hf : Frame st st') : Inv glob false st0 st' := by
  unfold Inv at *
  by_cases hg : glob = true
  · simp [hg] at h ⊢; exact Frame.trans h hf
  · simp [hg] at h ⊢; rw [hf.conts]; exact h

theorem loop_inv (glob : Bool) (f : St → St) (hf : ∀ s, Frame s (f s)) (st0 : St) :
    ∀ (n : Nat) (first : Bool) (st : St), Inv glob first st0 st →
      Inv glob (loop glob f n first st).2 st0 (loop glob f n first st).1 := by
  intro n
  induction n with
  | zero => intro first st h; simpa [loop] using h
  | succ k ih =>
    intro first st h
    simp only [loop]
    exact ih false _ (inv_step glob st0 _ _ (iterOpen_inv glob first st0 st h) (hf _))

theorem restorer_frame (glob first : Bool) (st0 st : St) (h : Inv glob first st0 st) : Frame st0 (restorer glob first st) := by
  unfold Inv restorer at *
  by_cases hg : glob = true
  · simp [hg] at h ⊢; exact h
  · cases first
    · simp [hg] at h ⊢
      simp only [popLoc, h]
      exact ⟨rfl, rfl⟩
    · simp [hg] at h ⊢; exact h

theorem finish_frame (wh glob : Bool) (st0 : St) (r : St × Bool) (h : Inv glob r.2 st0 r.1) : Frame st0 (finish wh glob r) := by
  unfold finish
  cases wh
  · simpa using restorer_frame glob r.2 st0 r.1 h
  · simpa using restorer_frame glob false st0 _ (iterOpen_inv glob r.2 st0 r.1 h)

mutual
theorem execItem_frame : ∀ (i : Item) (st : St), Frame st (execItem i st)
  | .lab k, st => by
    simp only [execItem, emit]
    exact ⟨(defineLabel_frame st k st.pc).mom, (defineLabel_frame st k st.pc).conts⟩
  | .ref k, st => by simp only [execItem, emit]; exact ⟨rfl, rfl⟩
  | .con wh glob n body, st => by
    simp only [execItem]
    apply finish_frame
    apply loop_inv glob (execItems body) (fun s => execItems_frame body s) st n true st
    simp [Inv, Frame.refl]
theorem execItems_frame : ∀ (is : Items) (st : St), Frame st (execItems is st)
  | .nil, st => by simpa [execItems] using Frame.refl st
  | .cons i r, st => by
    simp only [execItems]
    exact Frame.trans (execItem_frame i st) (execItems_frame r _)
end

theorem walkConts_skip (ltab : LTab) (k : Nat) (inner : List Int) (rest : List Int)
    (hin : ∀ x ∈ inner, x ≠ -1 ∧ tfind ltab (k, x) = none) :
    walkConts ltab k (inner ++ rest) = walkConts ltab k rest := by
  induction inner with
  | nil => rfl
  | cons a t ih =>
    have ha := hin a (List.mem_cons_self)
    simp only [List.cons_append, walkConts, ha.1, if_false, ha.2]
    exact ih (fun x hx => hin x (List.mem_cons_of_mem _ hx))

/-- entering `d` nested bodies (any `d`) puts `d` fresh spaces in front of the stack and nothing else -/
def enter : Nat → St → St
  | 0, st => st
  | d + 1, st => pushFresh (enter d st)

theorem enter_ltab (d : Nat) (st : St) : (enter d st).ltab = st.ltab := by
  induction d with
  | zero => rfl
  | succ d ih => simp [enter, pushFresh, pushLoc, ih]

theorem enter_cnt (d : Nat) (st : St) : (enter d st).cnt = st.cnt + d := by
  induction d with
  | zero => rfl
  | succ d ih => simp [enter, pushFresh, pushLoc, ih]; omega

theorem enter_stack (d : Nat) (st : St) :
    ∃ inner : List Int, (enter d st).mom :: (enter d st).conts = inner ++ st.mom :: st.conts ∧
      ∀ x ∈ inner, ∃ j : Nat, j < d ∧ x = ((st.cnt + j : Nat) : Int) := by
  induction d with
  | zero => exact ⟨[], rfl, by simp⟩
  | succ d ih =>
    obtain ⟨inner, hs, hm⟩ := ih
    refine ⟨((enter d st).cnt : Int) :: inner, ?_, ?_⟩
    · simp only [enter, pushFresh, pushLoc, List.cons_append]
      rw [hs]
    · intro x hx
      rcases List.mem_cons.mp hx with hx | hx
      · exact ⟨d, by omega, by rw [hx, enter_cnt]⟩
      · obtain ⟨j, hj, hx⟩ := hm x hx
        exact ⟨j, by omega, hx⟩

end AslModel.MacroLabels
