import AslModel.Model.CodeFile
/-! Helper lemmas for the record machine (L2) of `asmcode.c`. -/
namespace AslModel.CodeFile
open AslModel.PFile

def recsCells (rs : List Rec) : List Cell := (rs.map Rec.cells).flatten

theorem recsCells_append (a b : List Rec) : recsCells (a ++ b) = recsCells a ++ recsCells b := by
  simp [recsCells]

/-- all cells currently held by the machine (closed records, then the open one) -/
def held (s : St) : List Cell :=
  recsCells s.closed ++ cellsFrom s.octx.cpu s.octx.seg s.octx.gran (s.ostart * s.octx.gran.toNat) s.odata

/-- the open record is contiguous with the program counter and was opened under the current
context (`ctx` only changes in `jump`, which opens a new record) -/
structure Inv (s : St) : Prop where
  pos : s.ostart * s.ctx.gran.toNat + s.odata.length = s.pc * s.ctx.gran.toNat
  ctx : s.octx = s.ctx

theorem newRecord_held (s : St) (start : Nat) : held (newRecord s start) = held s := by
  unfold newRecord held
  split
  · rename_i h; simp [h, cellsFrom]
  · simp [recsCells, mkRec, Rec.cells, cellsFrom]

@[simp] theorem newRecord_ctx (s : St) (a : Nat) : (newRecord s a).ctx = s.ctx := by
  unfold newRecord; split <;> rfl

@[simp] theorem newRecord_pc (s : St) (a : Nat) : (newRecord s a).pc = s.pc := by
  unfold newRecord; split <;> rfl

@[simp] theorem newRecord_odata (s : St) (a : Nat) : (newRecord s a).odata = [] := by
  unfold newRecord; split <;> simp_all

@[simp] theorem newRecord_ostart (s : St) (a : Nat) : (newRecord s a).ostart = a := by
  unfold newRecord; split <;> rfl

@[simp] theorem newRecord_octx (s : St) (a : Nat) : (newRecord s a).octx = s.ctx := by
  unfold newRecord; split <;> rfl

theorem closed_eq_held (s : St) (a : Nat) : recsCells (newRecord s a).closed = held s := by
  have hk := newRecord_held s a
  simp only [held] at hk ⊢
  simpa [cellsFrom] using hk

theorem step_emit_ok (s : St) (bs : List Byte) (h : Inv s) (hg : bs.length % s.ctx.gran.toNat = 0) :
    Inv (step s (.emit bs)) ∧
    held (step s (.emit bs)) = held s ++ cellsFrom s.ctx.cpu s.ctx.seg s.ctx.gran (s.pc * s.ctx.gran.toNat) bs := by
  have hdiv : bs.length / s.ctx.gran.toNat * s.ctx.gran.toNat = bs.length := by
    have := Nat.div_add_mod bs.length s.ctx.gran.toNat
    rw [hg] at this; rw [Nat.mul_comm]; omega
  simp only [step]
  by_cases hov : s.odata.length + bs.length > 65535
  · simp only [hov, if_true]
    refine ⟨⟨by simp [Nat.add_mul, hdiv], by simp⟩, ?_⟩
    simp only [held, newRecord_odata, newRecord_octx, newRecord_ostart, List.nil_append]
    rw [closed_eq_held]; rfl
  · simp only [hov, if_false]
    have hp := h.pos
    have hc := h.ctx
    refine ⟨⟨by simp [Nat.add_mul, hdiv]; omega, hc⟩, ?_⟩
    simp only [held, cellsFrom_append, hc, List.append_assoc, hp]

theorem step_jump_ok (s : St) (c : Ctx) (pc : Nat) :
    Inv (step s (.jump c pc)) ∧ held (step s (.jump c pc)) = held s := by
  simp only [step]
  refine ⟨⟨by simp, by simp⟩, ?_⟩
  have := newRecord_held { s with ctx := c } pc
  simpa [held] using this

theorem run_ok (evs : List Ev) (s : St) (h : Inv s) (hwf : EvsWF s.ctx evs) :
    Inv (run s evs) ∧ held (run s evs) = held s ++ specCells s.ctx s.pc evs := by
  induction evs generalizing s with
  | nil => simp [run, specCells, h]
  | cons e es ih =>
    have hrun : run s (e :: es) = run (step s e) es := rfl
    rw [hrun]
    cases e with
    | emit bs =>
      simp only [EvsWF] at hwf
      have h1 := step_emit_ok s bs h hwf.2.1
      have hctx : (step s (.emit bs)).ctx = s.ctx := by
        simp only [step]; split <;> simp
      have hpc : (step s (.emit bs)).pc = s.pc + bs.length / s.ctx.gran.toNat := by
        simp only [step]
      have h2 := ih (step s (.emit bs)) h1.1 (by rw [hctx]; exact hwf.2.2)
      refine ⟨h2.1, ?_⟩
      rw [h2.2, h1.2, hctx, hpc]
      simp [specCells]
    | jump c pc =>
      simp only [EvsWF] at hwf
      have h1 := step_jump_ok s c pc
      have hctx : (step s (.jump c pc)).ctx = c := by simp [step]
      have hpc : (step s (.jump c pc)).pc = pc := by simp [step]
      have h2 := ih (step s (.jump c pc)) h1.1 (by rw [hctx]; exact hwf)
      refine ⟨h2.1, ?_⟩
      rw [h2.2, h1.2, hctx, hpc]
      simp [specCells]

theorem init_inv (c : Ctx) (pc : Nat) : Inv (init c pc) := ⟨by simp [init], rfl⟩

theorem held_init (c : Ctx) (pc : Nat) : held (init c pc) = [] := by
  simp [held, init, recsCells, cellsFrom]

/-- every record ever closed is non-empty, at most 65535 bytes long and a whole number of granules -/
structure RecOK (r : Rec) : Prop where
  nonempty : r.data ≠ []
  len : r.data.length ≤ 65535
  gran : r.gran.toNat ≠ 0 → r.data.length % r.gran.toNat = 0

structure Inv2 (s : St) : Prop where
  closed : ∀ r ∈ s.closed, RecOK r
  olen : s.odata.length ≤ 65535
  ogran : s.odata.length % s.octx.gran.toNat = 0

theorem newRecord_inv2 (s : St) (a : Nat) (h : Inv2 s) : Inv2 (newRecord s a) := by
  unfold newRecord; split
  · rename_i he; exact ⟨h.closed, by simp [he], by simp [he]⟩
  · rename_i he
    refine ⟨?_, by simp, by simp⟩
    intro r hr
    simp at hr
    rcases hr with hr | hr
    · exact h.closed r hr
    · subst hr
      exact ⟨by simpa [mkRec] using he, by simpa [mkRec] using h.olen,
        by intro _; simpa [mkRec] using h.ogran⟩

theorem step_inv2 (s : St) (e : Ev) (h : Inv2 s) (hc : s.octx = s.ctx)
    (hwf : match e with | .emit bs => bs.length ≤ 65535 ∧ bs.length % s.ctx.gran.toNat = 0 | .jump _ _ => True) :
    Inv2 (step s e) ∧ (step s e).octx = (step s e).ctx := by
  cases e with
  | emit bs =>
    simp only at hwf
    simp only [step]
    by_cases hov : s.odata.length + bs.length > 65535
    · simp only [hov, if_true]
      have h1 := newRecord_inv2 s s.pc h
      exact ⟨⟨h1.closed, by simp; omega, by simpa using hwf.2⟩, by simp⟩
    · simp only [hov, if_false]
      refine ⟨⟨h.closed, by simp; omega, ?_⟩, hc⟩
      have := h.ogran
      rw [hc] at this ⊢
      simp [Nat.add_mod, this, hwf.2]
  | jump c pc =>
    simp only [step]
    have h0 : Inv2 { s with ctx := c } := ⟨h.closed, h.olen, h.ogran⟩
    have h1 := newRecord_inv2 { s with ctx := c } pc h0
    exact ⟨⟨h1.closed, h1.olen, h1.ogran⟩, by simp⟩

/-- per-statement bound: one source line never hands more than 65535 bytes to `WriteBytes`
(`SetMaxCodeLen` refuses more – `MaxCodeLen_Max`), in whole granules -/
def EvsFit (c : Ctx) : List Ev → Prop
  | [] => True
  | .emit bs :: evs => bs.length ≤ 65535 ∧ bs.length % c.gran.toNat = 0 ∧ EvsFit c evs
  | .jump c' _ :: evs => EvsFit c' evs

theorem run_inv2 (evs : List Ev) (s : St) (h : Inv2 s) (hc : s.octx = s.ctx) (hwf : EvsFit s.ctx evs) :
    Inv2 (run s evs) := by
  induction evs generalizing s with
  | nil => simpa [run] using h
  | cons e es ih =>
    have hrun : run s (e :: es) = run (step s e) es := rfl
    rw [hrun]
    cases e with
    | emit bs =>
      simp only [EvsFit] at hwf
      have h1 := step_inv2 s (.emit bs) h hc ⟨hwf.1, hwf.2.1⟩
      have hctx : (step s (.emit bs)).ctx = s.ctx := by
        simp only [step]; split <;> simp
      exact ih _ h1.1 h1.2 (by rw [hctx]; exact hwf.2.2)
    | jump c pc =>
      simp only [EvsFit] at hwf
      have h1 := step_inv2 s (.jump c pc) h hc trivial
      have hctx : (step s (.jump c pc)).ctx = c := by simp [step]
      exact ih _ h1.1 h1.2 (by rw [hctx]; exact hwf)

theorem init_inv2 (c : Ctx) (pc : Nat) : Inv2 (init c pc) := ⟨by simp [init], by simp [init], by simp [init]⟩

end AslModel.CodeFile
