import AslModel.Model.P2Hex
import AslModel.Spec.Hex
/-! Helper lemmas for C06: hex print/parse round trip, line splitting, checksum algebra. -/
namespace AslModel.HexLemmas
open AslModel.Hex AslModel.P2Hex
open AslModel.PFile (b b_toNat)

theorem undigit_digit (n : Nat) (h : n < 16) : undigit (digit n) = some n := by
  have : ∀ n, n < 16 → undigit (digit n) = some n := by decide
  exact this n h

theorem parse2_byte2 (x : Byte) : parse2 (digit (x.toNat / 16)) (digit (x.toNat % 16)) = some x := by
  have h1 : x.toNat / 16 < 16 := by have := x.toNat_lt; omega
  have h2 : x.toNat % 16 < 16 := Nat.mod_lt _ (by decide)
  simp only [parse2, undigit_digit _ h1, undigit_digit _ h2]
  congr 1
  apply UInt8.toNat_inj.mp
  simp
  omega

theorem parseHex_bytesHex (bs : List Byte) : parseHex (bytesHex bs) = some bs := by
  induction bs with
  | nil => rfl
  | cons x xs ih =>
    simp only [bytesHex, byte2, List.cons_append, List.nil_append, parseHex, parse2_byte2, ih]

theorem bytesHex_append (x y : List Byte) : bytesHex (x ++ y) = bytesHex x ++ bytesHex y := by
  induction x with
  | nil => rfl
  | cons h t ih => simp [bytesHex, ih]

theorem byte2_eq (x : Byte) : byte2 x = bytesHex [x] := by simp [bytesHex]
theorem hex2_eq (n : Nat) : hex2 n = bytesHex [b n] := by simp [hex2, byte2_eq]

theorem sum8_append (x y : List Byte) : sum8 (x ++ y) = sum8 x + sum8 y := by simp [sum8]
theorem sumN_eq (x : List Byte) : sumN x = sum8 x := rfl

/-- hex digits are not newlines -/
theorem digit_ne_nl (n : Nat) (h : n < 16) : digit n ≠ '\n' := by
  have : ∀ n, n < 16 → digit n ≠ '\n' := by decide
  exact this n h

theorem bytesHex_no_nl (bs : List Byte) : '\n' ∉ bytesHex bs := by
  induction bs with
  | nil => simp [bytesHex]
  | cons x xs ih =>
    have h1 : x.toNat / 16 < 16 := by have := x.toNat_lt; omega
    have h2 : x.toNat % 16 < 16 := Nat.mod_lt _ (by decide)
    simp only [bytesHex, byte2, List.cons_append, List.nil_append, List.mem_cons, not_or]
    exact ⟨(digit_ne_nl _ h1).symm, (digit_ne_nl _ h2).symm, ih⟩

theorem splitGo_line (l : List Char) (rest : List Char) (acc : List Char) (h : '\n' ∉ l) :
    splitGo (l ++ '\n' :: rest) acc = (splitGo rest []).map (fun ls => (acc.reverse ++ l) :: ls) := by
  induction l generalizing acc with
  | nil => simp only [List.nil_append, splitGo, if_true, List.append_nil]; cases splitGo rest [] <;> rfl
  | cons c cs ih =>
    have hc : c ≠ '\n' := by intro e; apply h; simp [e]
    have hcs : '\n' ∉ cs := by intro e; apply h; simp [e]
    simp only [List.cons_append, splitGo, hc, if_false]
    rw [ih _ hcs]
    simp

/-- splitting the text of newline-free lines gives the lines back -/
theorem splitLines_unlines (ls : List (List Char)) (h : ∀ l ∈ ls, '\n' ∉ l) : splitLines (unlines ls) = some ls := by
  induction ls with
  | nil => rfl
  | cons l ls ih =>
    have h1 : '\n' ∉ l := h l (by simp)
    have h2 : ∀ l' ∈ ls, '\n' ∉ l' := fun l' hl => h l' (by simp [hl])
    have ih' := ih h2
    unfold splitLines at ih' ⊢
    simp only [unlines]
    rw [splitGo_line l _ [] h1, ih']
    simp

theorem cellsFrom_append (a : Nat) (x y : List Byte) :
    cellsFrom a (x ++ y) = cellsFrom a x ++ cellsFrom (a + x.length) y := by
  induction x generalizing a with
  | nil => simp [cellsFrom]
  | cons h t ih => simp [cellsFrom, ih, Nat.add_assoc, Nat.add_comm 1]

/-- `Lo(ChkSum ^ 0xff)` -/
theorem lo_xor_ff (c : Nat) : lo (c ^^^ 0xff) = 255 - c % 256 := by
  have h : ∀ x, x < 256 → (x ^^^ 255) = 255 - x := by decide +kernel
  unfold lo
  have : (c ^^^ 255) % 2 ^ 8 = (c % 2 ^ 8) ^^^ (255 % 2 ^ 8) := Nat.xor_mod_two_pow ..
  simp only [Nat.reducePow, Nat.reduceMod] at this
  rw [this, h _ (Nat.mod_lt _ (by decide))]

end AslModel.HexLemmas

namespace AslModel.HexLemmas
open AslModel.Hex AslModel.P2Hex
open AslModel.PFile (b b_toNat)

theorem outBytes_plain (g : Nat) (buf : List Byte) : outBytes 0 g buf = buf := by
  simp [outBytes]

theorem sum8_cons (x : Byte) (xs : List Byte) : sum8 (x :: xs) = x.toNat + sum8 xs := by simp [sum8]
theorem sum8_nil : sum8 ([] : List Byte) = 0 := rfl

theorem dropLast_append_singleton (d : List Byte) (x : Byte) : (d ++ [x]).dropLast = d := by simp

/-- an S-record line whose count and checksum bytes are computed the public way decodes to its fields -/
theorem srecLine_mk (tc : Char) (al : Nat) (ab d : List Byte) (h1 : srecAddrLen tc = some al) (hal : ab.length = al)
    (hc : al + d.length + 1 ≤ 255) (ck : Nat) (hck : ck = 255 - (al + d.length + 1 + sum8 ab + sum8 d) % 256) :
    srecLine ('S' :: tc :: bytesHex (b (al + d.length + 1) :: (ab ++ d ++ [b ck]))) = srecMk tc (be ab) d := by
  unfold srecLine
  simp only [parseHex_bytesHex, h1]
  have hlen : (ab ++ d ++ [b ck]).length = al + d.length + 1 := by simp [hal]; omega
  have hcnt : (b (al + d.length + 1)).toNat = al + d.length + 1 := by rw [b_toNat]; omega
  have hsum : sum8 (b (al + d.length + 1) :: (ab ++ d ++ [b ck])) % 256 = 255 := by
    rw [sum8_cons, sum8_append, sum8_append, hcnt, sum8_cons, sum8_nil, b_toNat, hck]
    omega
  have htake : (ab ++ d ++ [b ck]).take al = ab := by
    rw [List.append_assoc, ← hal]; simp
  have hdrop : ((ab ++ d ++ [b ck]).drop al).dropLast = d := by
    rw [List.append_assoc, ← hal]; simp
  simp only [hcnt, hlen, hsum, htake, hdrop, and_self, true_and, if_true]
  have : al + 1 ≤ al + d.length + 1 := by omega
  simp [this]

theorem be2 (x y : Byte) : be [x, y] = x.toNat * 256 + y.toNat := by simp [be]
theorem be3 (x y z : Byte) : be [x, y, z] = (x.toNat * 256 + y.toNat) * 256 + z.toNat := by simp [be]
theorem be4 (x y z w : Byte) : be [x, y, z, w] = ((x.toNat * 256 + y.toNat) * 256 + z.toNat) * 256 + w.toNat := by simp [be]

end AslModel.HexLemmas

namespace AslModel.HexLemmas
open AslModel.Hex AslModel.P2Hex
open AslModel.PFile (b b_toNat)

/-- prepend the cells of one group to a decoder result -/
def addCells (cs0 : List Cell) (r : Option (List Cell × List Nat)) : Option (List Cell × List Nat) :=
  r.map (fun p => (cs0 ++ p.1, p.2))

theorem srecRun_data (t a : Nat) (d : List Byte) (rest : List SRec) (inb : Bool) :
    srecRun inb (.data t a d :: rest) = addCells (cellsFrom a d) (srecRun true rest) := by
  cases inb <;> simp only [srecRun, addCells] <;> cases srecRun true rest <;> rfl

theorem addCells_nil (r : Option (List Cell × List Nat)) : addCells [] r = r := by
  cases r <;> simp [addCells]

theorem addCells_addCells (x y : List Cell) (r : Option (List Cell × List Nat)) :
    addCells x (addCells y r) = addCells (x ++ y) r := by
  cases r <;> simp [addCells]


theorem s0_line : srecLine s0Line = some (.header []) := by decide


theorem mapM_append_some {α β : Type} (f : α → Option β) (x y : List α) (rx ry : List β)
    (hx : x.mapM f = some rx) (hy : y.mapM f = some ry) : (x ++ y).mapM f = some (rx ++ ry) := by
  induction x generalizing rx with
  | nil => simp at hx; subst hx; simpa using hy
  | cons a x ih =>
    simp only [List.mapM_cons, List.cons_append] at hx ⊢
    cases hfa : f a with
    | none => simp [hfa] at hx
    | some v =>
      cases hxm : x.mapM f with
      | none => simp [hfa, hxm] at hx
      | some rx' =>
        simp [hfa, hxm] at hx
        subst hx
        simp [ih rx' hxm]

theorem lo_neg (c : Nat) : lo (1 + (c ^^^ 0xff)) = (256 - c % 256) % 256 := by
  have h := lo_xor_ff c
  unfold lo at h ⊢
  omega

def addCellsD (cs0 : List Cell) (r : Option Decoded) : Option Decoded :=
  r.map (fun d => { d with cells := cs0 ++ d.cells })

theorem ihexRun_data (lin : Bool) (base off : Nat) (d : List Byte) (rest : List IRec) :
    ihexRun lin base (.data off d :: rest) = addCellsD (ihexCells lin base off d) (ihexRun lin base rest) := by
  simp only [ihexRun, addCellsD]; cases ihexRun lin base rest <;> rfl

theorem ihexCells_plain (off : Nat) (d : List Byte) (h : off + d.length ≤ 65536) :
    ihexCells false 0 off d = cellsFrom off d := by
  induction d generalizing off with
  | nil => rfl
  | cons x xs ih =>
    simp only [List.length_cons] at h
    simp only [ihexCells, cellsFrom, Bool.false_eq_true, if_false, Nat.zero_add]
    rw [ih (off + 1) (by omega), Nat.mod_eq_of_lt (by omega)]

theorem addCellsD_nil (r : Option Decoded) : addCellsD [] r = r := by
  cases r <;> simp [addCellsD]

theorem addCellsD_addCellsD (x y : List Cell) (r : Option Decoded) :
    addCellsD x (addCellsD y r) = addCellsD (x ++ y) r := by
  cases r <;> simp [addCellsD]

theorem intel_eof : (intelTerm 0 0 none).mapM (ihexLineV 0) = some [.eof 0] := by decide

theorem ihexLineV_zero (l : List Char) : ihexLineV 0 l = ihexLine l := by simp [ihexLineV]

/- Full statement (fails on the unchanged tree, see the two findings below):
   `∀ lines of a file, Hex.mosLine line = some (.data addr bytes)` and the last record carries the number of data lines.
   Proved part: every line whose incoming `ChkSum` is 0 (the first line of a file on the unchanged tree; every line once the
   prologue assigns instead of accumulating, `mosCarry = false`). -/
theorem split16 (z : Nat) (hz : z < 65536) : z / 256 % 256 * 256 + z % 256 = z := by omega

end AslModel.HexLemmas
