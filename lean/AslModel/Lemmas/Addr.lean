import AslModel.Model.Addr
import AslModel.Spec.AddrSpec
/-! Helper lemmas for C10 (model `Addr`, spec `AddrSpec`). -/
namespace AslModel.Addr
open AslModel.Generated

macro "splits" : tactic => `(tactic| repeat' (first | split | (dsimp only; split)))
macro "splits_at" h:ident : tactic => `(tactic| repeat' (first | (split at $h:ident) | (dsimp only at $h:ident; split at $h:ident)))

theorem wrap64_def (x : Int) : wrap64 x = x % 18446744073709551616 := rfl
theorem toI32_def (x : Int) : toI32 x = (x + 2147483648) % 4294967296 - 2147483648 := rfl
theorem toWord_def (x : Int) : toWord x = x % 65536 := rfl

theorem toI64_def (x : Int) : toI64 x = (x + 9223372036854775808) % 18446744073709551616 - 9223372036854775808 := rfl
theorem toI64_small {x : Int} (h1 : -9223372036854775808 ≤ x) (h2 : x < 9223372036854775808) : toI64 x = x := by
  rw [toI64_def]; omega
theorem toI32_small {x : Int} (h1 : -2147483648 ≤ x) (h2 : x < 2147483648) : toI32 x = x := by
  rw [toI32_def]; omega

theorem wrap64_small {x : Int} (h1 : 0 ≤ x) (h2 : x < 18446744073709551616) : wrap64 x = x := by
  rw [wrap64_def]; omega

theorem wrap64_add_left (x y : Int) : wrap64 (wrap64 x + y) = wrap64 (x + y) := by
  simp only [wrap64_def]; omega

theorem wrap64_add_right (x y : Int) : wrap64 (x + wrap64 y) = wrap64 (x + y) := by
  simp only [wrap64_def]; omega

theorem wrap64_idem (x : Int) : wrap64 (wrap64 x) = wrap64 x := by
  simp only [wrap64_def]; omega

@[simp] theorem upd_same {α : Type} (f : Nat → α) (i : Nat) (v : α) : upd f i v i = v := by simp [upd]
theorem upd_other {α : Type} (f : Nat → α) (i j : Nat) (v : α) (h : j ≠ i) : upd f i v j = f j := by simp [upd, h]


/-- the per-segment data of segment `t` is the same in both states -/
def SameAt (s s' : St) (t : Nat) : Prop :=
  s'.pcs t = s.pcs t ∧ s'.phases t = s.phases t ∧ s'.pstack t = s.pstack t

theorem labelHandle_same (s : St) (l : Nat) :
    (labelHandle s l).1.pcs = s.pcs ∧ (labelHandle s l).1.phases = s.phases ∧ (labelHandle s l).1.pstack = s.pstack ∧
    (labelHandle s l).1.actPC = s.actPC := by
  unfold labelHandle; splits <;> simp

theorem decode_same' (cfg : Cfg) (s : St) (op : Op) (d : Dec) (t : Nat) (h : decode cfg s op = d)
    (h1 : t ≠ s.actPC) (h2 : t ≠ d.s.actPC) : SameAt s d.s t := by
  unfold SameAt
  cases op <;> simp only [decode] at h
  case org v => unfold codeORG at h; splits_at h <;> subst h <;> simp_all [upd]
  case rorg d => subst h; simp_all [codeRORG, upd]
  case align n f => unfold codeALIGN at h; splits_at h <;> subst h <;> simp_all [upd]
  case res k => subst h; simp
  case emit k => subst h; simp
  case segment n => unfold codeSEGMENT setNSeg at h; splits_at h <;> subst h <;> simp_all [upd]
  case cpu c => unfold codeCPU setNSeg at h; splits_at h <;> subst h <;> simp_all [upd]
  case phase v => unfold codePHASE at h; splits_at h <;> subst h <;> simp_all [upd]
  case dephase => unfold codeDEPHASE at h; splits_at h <;> subst h <;> simp_all [upd]
  case save => subst h; simp [codeSAVE]
  case restore => unfold codeRESTORE at h; splits_at h <;> subst h <;> simp_all [upd]
  case listing b => subst h; simp
  case struct n u => unfold codeSTRUCT at h; splits_at h <;> subst h <;> simp_all [upd]
  case endstruct => unfold codeENDSTRUCT at h; splits_at h <;> subst h <;> simp_all [upd]
  case nop => subst h; simp

theorem writeCode_same' (d : Dec) (r : St × Out) (t : Nat) (h : writeCode d = r) (h1 : t ≠ d.s.actPC) :
    SameAt d.s r.1 t ∧ r.1.actPC = d.s.actPC := by
  unfold SameAt
  unfold writeCode at h
  splits_at h <;> subst h <;> simp_all [upd]

theorem writeCode_actPC (d : Dec) : (writeCode d).1.actPC = d.s.actPC := by
  unfold writeCode
  splits <;> simp

theorem labelPart_same (s : St) (st : Stmt) :
    (labelPart s st).1.pcs = s.pcs ∧ (labelPart s st).1.phases = s.phases ∧ (labelPart s st).1.pstack = s.pstack ∧
    (labelPart s st).1.actPC = s.actPC := by
  unfold labelPart
  splits <;> simp [labelHandle_same]

theorem step_same (cfg : Cfg) (s : St) (st : Stmt) (t : Nat) (h1 : t ≠ s.actPC) (h2 : t ≠ (step cfg s st).1.actPC) :
    SameAt s (step cfg s st).1 t := by
  have hl := labelPart_same s st
  have ha : (step cfg s st).1.actPC = (decode cfg (labelPart s st).1 st.op).s.actPC := by
    simp [step, writeCode_actPC]
  rw [ha] at h2
  have hd := decode_same' cfg (labelPart s st).1 st.op _ t rfl (by rw [hl.2.2.2]; exact h1) h2
  have hw := (writeCode_same' (decode cfg (labelPart s st).1 st.op) _ t rfl h2).1
  unfold SameAt at *
  simp only [step]
  rw [hl.1, hl.2.1, hl.2.2.1] at hd
  exact ⟨hw.1.trans hd.1, hw.2.1.trans hd.2.1, hw.2.2.trans hd.2.2⟩


/-! ## ALIGN arithmetic -/

theorem epc_nonneg (s : St) : 0 ≤ epc s := by rw [epc, wrap64_def]; omega
theorem epc_lt (s : St) : epc s < 18446744073709551616 := by rw [epc, wrap64_def]; omega

theorem alignUp_spec (x n : Int) (hx : 0 ≤ x) (hn : 0 < n) :
    n ∣ AddrSpec.alignUp x n ∧ x ≤ AddrSpec.alignUp x n ∧ AddrSpec.alignUp x n < x + n ∧
    AddrSpec.alignUp x n = (x + n - 1) - (x + n - 1) % n := by
  unfold AddrSpec.alignUp
  have h1 := Int.emod_add_mul_ediv (x + n - 1) n
  have h2 := Int.emod_nonneg (x + n - 1) (Int.ne_of_gt hn)
  have h3 := Int.emod_lt_of_pos (x + n - 1) hn
  have h4 : (x + n - 1) / n * n = n * ((x + n - 1) / n) := Int.mul_comm _ _
  refine ⟨⟨(x + n - 1) / n, h4⟩, ?_, ?_, ?_⟩ <;> omega

theorem codeALIGN_len (cfg : Cfg) (s : St) (n : Int) (hn : 0 < n) (hn2 : n < 65536) (he : epc s + n - 1 < 2147483648) :
    (codeALIGN cfg s n none).codeLen = AddrSpec.alignUp (epc s) n - epc s ∧ (codeALIGN cfg s n none).crash = false ∧
    (codeALIGN cfg s n none).errs = [] ∧ (codeALIGN cfg s n none).s = s ∧
    (codeALIGN cfg s n none).dontPrint = decide (AddrSpec.alignUp (epc s) n - epc s ≠ 0) := by
  have h0 := epc_nonneg s
  obtain ⟨_, hb1, hb2, hb3⟩ := alignUp_spec (epc s) n h0 hn
  have hw : toWord n = n := by rw [toWord_def]; omega
  have hx : toI32 (wrap64 (epc s + n - 1)) = epc s + n - 1 := by
    rw [wrap64_small (by omega) (by omega), toI32_small (by omega) (by omega)]
  have htm : (epc s + n - 1).tmod n = (epc s + n - 1) % n := Int.tmod_eq_emod_of_nonneg (by omega)
  have hnp : toI32 (epc s + n - 1 - (epc s + n - 1) % n) = AddrSpec.alignUp (epc s) n := by
    rw [toI32_small (by omega) (by omega)]; omega
  have hcl : toI32 (wrap64 (AddrSpec.alignUp (epc s) n - epc s)) = AddrSpec.alignUp (epc s) n - epc s := by
    rw [wrap64_small (by omega) (by omega), toI32_small (by omega) (by omega)]
  unfold codeALIGN
  simp only [hw, hx, htm, hnp, hcl]
  have h1 : ¬ n < -32768 := by omega
  have h2 : ¬ n > 65535 := by omega
  have h3 : ¬ n = 0 := by omega
  simp [h1, h2, h3]


/-! ## Refinement relation, part outside structure bodies (`Rout`); the full relation `R` is in `Lemmas/AddrStruct.lean` -/

/-- the generated segment table and the manual's ORG table say the same -/
structure Agree (segs : Nat → Nat → AddrSpec.SegInfo) : Prop where
  valid : ∀ c t, (segP c t).valid = (segs c t).present
  limit : ∀ c t, (segs c t).present = true → (segP c t).limit = (segs c t).size - 1
  init : ∀ c t, (segP c t).init = (segs c t).init
  absent : ∀ c t, (segs c t).present = false → (segs c t).size ≤ 0
  initRange : ∀ c t, 0 ≤ (segs c t).init ∧ (segs c t).init < 18446744073709551616
  sizeRange : ∀ c t, (segs c t).size ≤ 4611686018427387904
  noStruct : ∀ c, (segs c structSeg).present = false

structure Rout (s : St) (a : AddrSpec.A) : Prop where
  cpu : s.cpu = a.cpu
  seg : s.actPC = a.seg
  listing : s.listOn = a.listing
  saves : s.saves = a.saved
  structs : s.structs = []
  frames : a.frames = []
  notStruct : s.actPC ≠ structSeg
  used : ∀ t, s.used t = a.started t
  usedAct : s.used s.actPC = true
  pcs : ∀ t, a.started t = true → s.pcs t = wrap64 (a.pc t)
  ph : ∀ t, s.phases t :: s.pstack t = (a.offs t).map wrap64 ++ [0]
  savedOK : ∀ x ∈ s.saves, x.2.1 ≠ structSeg ∧ s.used x.2.1 = true
  /-- the structure pseudo segment is never a segment of the abstract machine -/
  startedNS : a.started structSeg = false
  offsNS : a.offs structSeg = []

theorem Rout_segNS {s : St} {a : AddrSpec.A} (h : Rout s a) : a.seg ≠ structSeg := by
  rw [← h.seg]; exact h.notStruct

theorem Rout_offsNS_upd {s : St} {a : AddrSpec.A} (h : Rout s a) (v : List Int) :
    AddrSpec.upd a.offs a.seg v structSeg = [] := by
  have := Rout_segNS h
  simp [AddrSpec.upd, Ne.symm this, h.offsNS]

theorem R_phase {s : St} {a : AddrSpec.A} (h : Rout s a) (t : Nat) : s.phases t = wrap64 (AddrSpec.off a t) := by
  have := h.ph t
  unfold AddrSpec.off
  cases hx : a.offs t with
  | nil => simp [hx] at this; simp [this.1, wrap64_def]
  | cons o os => simp [hx] at this; simp [this.1]

theorem R_started {s : St} {a : AddrSpec.A} (h : Rout s a) : a.started a.seg = true := by
  rw [← h.seg, ← h.used]; exact h.usedAct

theorem R_pc {s : St} {a : AddrSpec.A} (h : Rout s a) : s.pcs s.actPC = wrap64 (a.pc a.seg) := by
  rw [h.seg]; exact h.pcs _ (R_started h)

theorem R_epc {s : St} {a : AddrSpec.A} (h : Rout s a) : epc s = wrap64 (AddrSpec.dollar a) := by
  unfold epc AddrSpec.dollar
  rw [h.frames, R_pc h, R_phase h, h.seg]
  simp only [wrap64_def]; omega

end AslModel.Addr
