import AslModel.Lemmas.TagsProgram
/-! Lemmas for C11 (processor layer), part 8: the body collectors as a pure fold over the delivered lines
(`feed`), for any representation of the input tags; the number of IRPN groups; decidable forms of the
side conditions of `WFB` for the non-vacuity examples. -/
namespace AslModel.Tags
open AslModel.MacroSpec AslModel.Macro AslModel.Generated

section feed
variable {τ : Type} (o : TagOps τ) (q : Quirks) (cs : Bool)

/-- hand the lines to the statement dispatcher one after the other (no `GetNextLine` in between) -/
def feed (s : St τ) (ls : List SLine) : St τ := ls.foldl (fun s l => dispatch o q cs l s) s

theorem feed_append (s : St τ) (a b : List SLine) : feed o q cs s (a ++ b) = feed o q cs (feed o q cs s a) b := by
  simp [feed, List.foldl_append]

/-- the collector keeps its nesting level over `ls` and stores every line of it -/
def Keeps (ls : List SLine) : Prop :=
  ∀ (kind : CKind), kind ≠ .wait → ∀ (d : Nat) (acc : List SLine) (s : St τ), s.coll = some ⟨kind, d, acc⟩ →
    feed o q cs s ls = { s with coll := some ⟨kind, d, acc ++ ls.map (kind.store cs)⟩ }

theorem keeps_nil : Keeps o q cs [] := by
  intro kind _ d acc s hs
  cases s with
  | mk inp coll macros out crashed shifted =>
    simp only at hs
    simp [feed, hs]

theorem keeps_append {a b : List SLine} (ha : Keeps o q cs a) (hb : Keeps o q cs b) : Keeps o q cs (a ++ b) := by
  intro kind hk d acc s hs
  rw [feed_append, ha kind hk d acc s hs, hb kind hk d _ _ rfl]
  simp [List.append_assoc]

theorem keeps_single (l : SLine) (h1 : l.isStart = false) (h2 : l.isEnd = false) : Keeps o q cs [l] := by
  intro kind hk d acc s hs
  simp only [feed, List.foldl_cons, List.foldl_nil, dispatch, hs, collect, h1, h2, Bool.false_eq_true, if_false,
    keepLine_nonwait cs kind hk, List.map_cons, List.map_nil]

theorem keeps_construct (hdr : SLine) (hst : hdr.isStart = true) (ls : List SLine) (h : Keeps o q cs ls) :
    Keeps o q cs (hdr :: (ls ++ [.endm])) := by
  intro kind hk d acc s hs
  have e : hdr :: (ls ++ [SLine.endm]) = [hdr] ++ ls ++ [.endm] := by simp
  rw [e, feed_append, feed_append]
  have s1 : feed o q cs s [hdr] = { s with coll := some ⟨kind, d + 1, acc ++ [kind.store cs hdr]⟩ } := by
    simp only [feed, List.foldl_cons, List.foldl_nil, dispatch, hs, collect, hst, if_true, keepLine_nonwait cs kind hk]
  rw [s1, h kind hk (d + 1) _ _ rfl]
  simp only [feed, List.foldl_cons, List.foldl_nil, dispatch, collect, SLine.isStart, SLine.isEnd, Bool.false_eq_true,
    if_false, if_true, Nat.add_one_ne_zero, Nat.add_sub_cancel, keepLine_nonwait cs kind hk]
  simp [List.append_assoc]

mutual
theorem keepsI : ∀ (i : Item), Keeps o q cs (flatItem i)
  | .line _ => keeps_single o q cs _ rfl rfl
  | .exitm => keeps_single o q cs _ rfl rfl
  | .rept _ _ _ body => keeps_construct o q cs _ rfl _ (keepsB body)
  | .irp _ _ _ _ body => keeps_construct o q cs _ rfl _ (keepsB body)
  | .irpn _ _ _ _ body => keeps_construct o q cs _ rfl _ (keepsB body)
  | .irpc _ _ _ _ body => keeps_construct o q cs _ rfl _ (keepsB body)
  | .call _ _ _ _ _ _ => keeps_single o q cs _ rfl rfl
theorem keepsB : ∀ (b : Body), Keeps o q cs (flatBody b)
  | .nil => keeps_nil o q cs
  | .cons i rest => keeps_append o q cs (keepsI i) (keepsB rest)
end

end feed

/-! ### number of IRPN groups -/

theorem ceil_step (m k : Nat) (hk : 1 ≤ k) (hm : 1 ≤ m) : (m + k - 1) / k = (m - 1) / k + 1 := by
  have : m + k - 1 = (m - 1) + k := by omega
  rw [this, Nat.add_div_right _ (by omega)]

theorem groupsOf_length (k : Nat) (hk : 1 ≤ k) : ∀ (fuel : Nat) (l : List Line), l.length ≤ fuel →
    (groupsOf k fuel l).length = (l.length + k - 1) / k
  | 0, l, h => by
    have : l = [] := List.length_eq_zero_iff.mp (by omega)
    subst this
    simp only [groupsOf, List.length_nil, Nat.zero_add]
    exact (Nat.div_eq_of_lt (by omega)).symm
  | fuel + 1, l, h => by
    by_cases he : l = []
    · subst he
      simp only [groupsOf_nil, List.length_nil, Nat.zero_add]
      exact (Nat.div_eq_of_lt (by omega)).symm
    · have hpos : 1 ≤ l.length := List.length_pos_iff.mpr he
      have hne : l.isEmpty = false := by
        cases l with
        | nil => exact absurd rfl he
        | cons _ _ => rfl
      simp only [groupsOf, hne, Bool.false_eq_true, if_false, List.length_cons]
      rw [groupsOf_length k hk fuel (l.drop k) (by simp; omega), ceil_step l.length k hk hpos]
      congr 1
      simp only [List.length_drop]
      by_cases hlk : l.length ≤ k
      · have e1 : l.length - k = 0 := by omega
        rw [e1, Nat.zero_add, Nat.div_eq_of_lt (by omega), Nat.div_eq_of_lt (by omega)]
      · have e2 : l.length - k + k - 1 = (l.length - 1 - k) + k := by omega
        have e3 : l.length - 1 = (l.length - 1 - k) + k := by omega
        rw [e2, Nat.add_div_right _ (by omega)]
        conv => rhs; rw [e3, Nat.add_div_right _ (by omega)]

/-! ### decidable forms of the side conditions -/

def runsOf (l : Line) : List Line :=
  (segs l).filterMap fun
    | .run r => some r
    | .oth _ => none

theorem mem_runsOf (l r : Line) : Seg.run r ∈ segs l ↔ r ∈ runsOf l := by
  unfold runsOf
  rw [List.mem_filterMap]
  constructor
  · intro h; exact ⟨.run r, h, rfl⟩
  · rintro ⟨sg, hsg, he⟩
    cases sg with
    | run r' => simp only [Option.some.injEq] at he; rw [← he]; exact hsg
    | oth c => cases he

theorem stableIn_iff (cs : Bool) (scope : List Line) (l : Line) :
    StableIn cs scope l ↔ ∀ r ∈ runsOf l, ∀ n ∈ scope, eqLine cs n r = false := by
  unfold StableIn
  constructor
  · intro h r hr; exact h r ((mem_runsOf l r).mpr hr)
  · intro h r hr; exact h r ((mem_runsOf l r).mp hr)

instance (cs : Bool) (numA numS r : Line) : Decidable (ImplOK cs numA numS r) := by unfold ImplOK; infer_instance

instance (l : Line) : Decidable (Clean l) := by unfold Clean; infer_instance

instance (l : Line) : Decidable (Tidy l) := by unfold Tidy; infer_instance

instance (cs : Bool) (scope : List Line) (v : Line) : Decidable (Binder cs scope v) := by unfold Binder; infer_instance

instance (a : CallArg) : Decidable (CleanArg a) :=
  match h : a.key with
  | none => if hv : Tidy a.val then isTrue ⟨hv, fun k hk => by rw [h] at hk; cases hk⟩ else isFalse (fun c => hv c.1)
  | some k0 =>
    if hv : Tidy a.val then
      if hk0 : Tidy k0 then isTrue ⟨hv, fun k hk => by rw [h] at hk; cases hk; exact hk0⟩
      else isFalse (fun c => hk0 (c.2 k0 h))
    else isFalse (fun c => hv c.1)

def decPosThenKey : (args : List CallArg) → Decidable (posThenKey args)
  | [] => isTrue trivial
  | a :: rest =>
    have := decPosThenKey rest
    by unfold posThenKey; infer_instance

instance (args : List CallArg) : Decidable (posThenKey args) := decPosThenKey args

theorem implLineOK_iff (cs : Bool) (numA numS l : Line) :
    ImplLineOK cs numA numS l ↔ ∀ r ∈ runsOf l, ImplOK cs numA numS r := by
  unfold ImplLineOK
  constructor
  · intro h r hr; exact h r ((mem_runsOf l r).mpr hr)
  · intro h r hr; exact h r ((mem_runsOf l r).mp hr)

end AslModel.Tags
