import AslModel.Model.Expr
/-!
# Helper lemmas for C08: operand conversion (`TryConvert` / `BestOpMatch` / `TempResultToInt` /
`TempResultToFloat`) against the promotion rule of the SPEC
-/
namespace AslModel.Expr
open AslModel.Formula AslModel.Generated

/-- numeric arguments pass the SPEC's argument conversion unchanged -/
theorem specFn_int (f : Fn) (x : W) : specFn f [.int x] = specFnCore f [.int x] := by
  simp [specFn, numArgs, Val.ty]

/-- the error of a result, if it is one (for decidable statements about results) -/
def errOf : Except Err Val → Option Err
  | .error e => some e
  | .ok _ => none

/-- parameter `k` of `f`: the `ArgTypes` entry of the `Functions[]` row takes numbers (`TempInt` or `TempFloat`)
and no strings exactly when the manual's table says so -/
def paramOK (f : Fn) (k : Nat) : Bool :=
  match fnRowOf f.name with
  | some row =>
    !(decide (k < row.maxArgs)) ||
      ((decide (row.argTypes.getD k 0 &&& ((1 <<< tempInt) ||| (1 <<< tempFloat)) ≠ 0) &&
        decide (row.argTypes.getD k 0 &&& (1 <<< tempString) = 0)) == f.numParam k)
  | none => false

/-- the `BestOpMatch` field that requests a conversion -/
def maskOf : Conv → Nat
  | .keep => 0 | .i2f => 1 | .s2i => 2 | .s2i2f => 3

/-- a conversion is applicable to an operand type (strings become integers, integers floats) -/
def applicable : Conv → Ty → Bool
  | .keep, _ => true
  | .i2f, .int => true
  | .s2i, .str => true
  | .s2i2f, .str => true
  | _, _ => false

/-- all characters are 8-bit characters (what a source line can contain) -/
def latin1 : Val → Prop
  | .str s => ∀ c ∈ s, c.toNat < 256
  | _ => True

theorem convOfMask_maskOf (c : Conv) : convOfMask (maskOf c) = c := by
  cases c <;> decide

theorem valTyp_eq (v : Val) : valTyp v = tyCode v.ty := by cases v <;> rfl

/-- `convert` looks at the two low bits of its mask only -/
theorem convert_low (tm : Nat) (v : Val) : convert tm v = convert (maskOf (convOfMask tm)) v := by
  unfold convert convOfMask
  by_cases h2 : tm &&& 2 = 0 <;> by_cases h1 : tm &&& 1 = 0 <;>
    simp only [h1, h2, ne_eq, not_true_eq_false, not_false_eq_true, if_true, if_false, maskOf] <;> rfl

theorem foldl_mod256 (s : List Char) (h : ∀ c ∈ s, c.toNat < 256) (acc : W) :
    s.foldl (fun (acc : W) (c : Char) => (acc <<< 8) ||| BitVec.ofNat 64 (c.toNat % 256)) acc =
    s.foldl (fun (acc : W) (c : Char) => (acc <<< 8) ||| BitVec.ofNat 64 c.toNat) acc := by
  induction s generalizing acc with
  | nil => rfl
  | cons c cs ih =>
    have hc : c.toNat % 256 = c.toNat := Nat.mod_eq_of_lt (h c (by simp))
    simp only [List.foldl_cons, hc]
    exact ih (fun d hd => h d (by simp [hd])) _

/-- `NonZString2Int` = "String to Integer Conversion" on 8-bit strings -/
theorem nonZString2Int_spec (s : List Char) (h : ∀ c ∈ s, c.toNat < 256) : nonZString2Int s = strToInt s := by
  unfold nonZString2Int strToInt
  split
  · rw [foldl_mod256 s h]
  · rfl

/-- the model's operator application is: type matching, the two conversions, the body -/
theorem applyOp_factor (q : Quirks) (row : OpRow) (hd : row.dyadic = true) (l r : Val) :
    applyOp q row l r =
      match modelConv row l.ty r.ty with
      | .error e => .error e
      | .ok (cl, cr) =>
        match convert (maskOf cl) l, convert (maskOf cr) r with
        | .error e, _ => .error e
        | .ok _, .error e => .error e
        | .ok l', .ok r' => bodyOf q row.id l' r' := by
  unfold applyOp modelConv
  simp only [valTyp_eq, hd, if_true]
  split
  · rfl
  · simp only []
    rw [← convert_low, ← convert_low]
    cases convert (bestMatch true (tyCode l.ty) (tyCode r.ty) row.combos 255 &&& 15) l <;>
      cases convert (bestMatch true (tyCode l.ty) (tyCode r.ty) row.combos 255 >>> 4 &&& 15) r <;> rfl

end AslModel.Expr
