import AslModel.Lemmas.Isa.Common
import AslModel.Model.Isa.IPic
/-! Lemmas for C14 / PIC16C8x: bit-field arithmetic (`|||`, `&&&`, shifts as `+`, `%`, `/`), the reference
configuration the proofs are carried out for, a normal form (`…_eq`) of every decode handler, and the per-entry
obligations over the regenerated `InstTable`. -/
namespace AslModel.Isa.IPic
open AslModel.PFile (Byte b b_toNat)
open AslModel.Spec.IPic
open AslModel.Generated.IsaPic (Handler instTable)
open AslModel.Generated (itUInt1 itUInt3 itUInt9 itInt8 itInt16)

theorem mem_all (m : Mn) : m ∈ Mn.all := by cases m <;> decide

/-! ### bit fields -/

/-- a word whose low `n` bits are clear, or-ed with an `n`-bit value -/
theorem or_add (n c x : Nat) (hc : c % 2 ^ n = 0) (hx : x < 2 ^ n) : c ||| x = c + x := by
  have h1 : c = (c / 2 ^ n) <<< n := by
    rw [Nat.shiftLeft_eq]
    have := Nat.div_add_mod c (2 ^ n)
    rw [hc] at this
    rw [Nat.mul_comm]; omega
  rw [h1, ← Nat.shiftLeft_add_eq_or_of_lt hx]

/-- a single-bit mask selects that bit -/
theorem and_pow (x k : Nat) : x &&& 2 ^ k = x / 2 ^ k % 2 * 2 ^ k := by
  have h1 : (x &&& 2 ^ k) / 2 ^ k = x / 2 ^ k % 2 := by
    rw [Nat.and_div_two_pow, Nat.div_self (Nat.two_pow_pos k), Nat.and_one_is_mod]
  have h2 : (x &&& 2 ^ k) % 2 ^ k = 0 := by
    rw [Nat.and_mod_two_pow, Nat.mod_self, Nat.and_zero]
  have := Nat.div_add_mod (x &&& 2 ^ k) (2 ^ k)
  rw [h1, h2] at this
  rw [Nat.mul_comm]; omega

theorem and_127 (x : Nat) : x &&& 127 = x % 128 := Nat.and_two_pow_sub_one_eq_mod x 7
theorem and_2047 (x : Nat) : x &&& 2047 = x % 2048 := Nat.and_two_pow_sub_one_eq_mod x 11
theorem and_32767 (x : Nat) : x &&& 32767 = x % 32768 := Nat.and_two_pow_sub_one_eq_mod x 15
theorem and_128 (x : Nat) : x &&& 128 = x / 128 % 2 * 128 := and_pow x 7
theorem and_256 (x : Nat) : x &&& 256 = x / 256 % 2 * 256 := and_pow x 8
theorem and_2048 (x : Nat) : x &&& 2048 = x / 2048 % 2 * 2048 := and_pow x 11
theorem and_4096 (x : Nat) : x &&& 4096 = x / 4096 % 2 * 4096 := and_pow x 12

/-- bit `k` of an exclusive or -/
theorem xor_bit (x y k : Nat) : (x ^^^ y) / 2 ^ k % 2 = if x / 2 ^ k % 2 = y / 2 ^ k % 2 then 0 else 1 := by
  rw [Nat.xor_div_two_pow]
  have h := @Nat.xor_mod_two_pow (x / 2 ^ k) (y / 2 ^ k) 1
  rw [Nat.pow_one] at h
  rw [h]
  have hx : x / 2 ^ k % 2 < 2 := Nat.mod_lt _ (by decide)
  have hy : y / 2 ^ k % 2 < 2 := Nat.mod_lt _ (by decide)
  generalize x / 2 ^ k % 2 = p at *
  generalize y / 2 ^ k % 2 = q at *
  have hp : p = 0 ∨ p = 1 := by omega
  have hq : q = 0 ∨ q = 1 := by omega
  rcases hp with rfl | rfl <;> rcases hq with rfl | rfl <;> decide

/-! ### words in the code file -/

theorem w16_lt (x : Nat) (h : x < 65536) : w16 x = x := Nat.mod_eq_of_lt h

theorem decodeWords_emitW (w : Nat) (rest : List Byte) :
    decodeWords (emitW w ++ rest) = (decode1 (w16 w)).bind fun i => (decodeWords rest).map (i :: ·) := by
  have hw : w16 w < 65536 := Nat.mod_lt _ (by decide)
  have : (b (w16 w % 256)).toNat + 256 * (b (w16 w / 256)).toNat = w16 w := by
    rw [b_toNat, b_toNat]; omega
  simp only [emitW, List.cons_append, List.nil_append, decodeWords, this]
  cases decode1 (w16 w) <;> cases decodeWords rest <;> rfl

theorem emitW_length (w : Nat) : (emitW w).length = 2 := rfl


theorem emitWords_cons (w : Nat) (ws : List Nat) : emitWords (w :: ws) = emitW w ++ emitWords ws := by
  simp [emitWords, List.flatMap_cons]

theorem emitWords_nil : emitWords [] = [] := rfl

theorem emitWords_one (w : Nat) : emitWords [w] = emitW w := by
  rw [emitWords_cons, emitWords_nil, List.append_nil]

theorem decodeWords_emitWords (ws : List Nat) (is : List Instr)
    (h : ws.map (fun w => decode1 (w16 w)) = is.map some) : decodeWords (emitWords ws) = some is := by
  induction ws generalizing is with
  | nil => cases is with
    | nil => rfl
    | cons i is => simp at h
  | cons w ws ih => cases is with
    | nil => simp at h
    | cons i is =>
      simp only [List.map_cons, List.cons.injEq] at h
      rw [emitWords_cons, decodeWords_emitW, h.1, ih is h.2]; rfl

/-- the SPEC decoder on a sequence of emitted words -/
theorem decode_emitWords (ws : List Nat) (is : List Instr)
    (h : ws.map (fun w => decode1 (w16 w)) = is.map some) :
    decode (emitWords ws) = some (is, (emitWords ws).length) := by
  unfold decode
  rw [decodeWords_emitWords ws is h]; rfl

theorem decode_emitW (w : Nat) (i : Instr) (hw : w < 65536) (h : decode1 w = some i) :
    decode (emitW w) = some ([i], (emitW w).length) := by
  rw [← emitWords_one]
  exact decode_emitWords [w] [i] (by simp [w16_lt w hw, h])

/-! ### the configuration the proofs are carried out for -/

/-- the range constants of code16c8x.c the theorems are proved for; the upper limit of `TRIS` (per CPU) stays a parameter -/
def refCfg (tmax : List Nat) : Cfg :=
  { fType := itUInt9, litType := itInt8, ariType := itUInt1, bitType := itUInt3, trisType := itUInt3,
    trisMin := [5, 5, 5, 5, 5, 5], trisMax := tmax, jumpType := itInt16, bankType := itUInt9,
    segLimitCode := [2815, 1791, 4863, 4863, 8959, 8959], addCodeSpace := 768 }

/-- `cfg` is the reference configuration with some `TRIS` limit of 6 or 7 for each of the six CPUs -/
def CfgOk (cfg : Cfg) : Bool :=
  decide (cfg = refCfg cfg.trisMax) && cfg.trisMax.length == 6 && cfg.trisMax.all fun x => x == 6 || x == 7

theorem cfgOk_elim (cfg : Cfg) (h : CfgOk cfg = true) :
    ∃ tm : List Nat, cfg = refCfg tm ∧ tm.length = 6 ∧ ∀ x ∈ tm, x = 6 ∨ x = 7 := by
  simp only [CfgOk, Bool.and_eq_true, decide_eq_true_eq, beq_iff_eq, List.all_eq_true, Bool.or_eq_true] at h
  exact ⟨cfg.trisMax, h.1.1, h.1.2, h.2⟩

/-! ### operand evaluation -/

theorem evalInt_if (typ : Nat) (l h : Int) (hh : ∀ v, rangeCheck v typ = (decide (l ≤ v) && decide (v ≤ h))) (v : Int) :
    evalInt typ v = if l ≤ v ∧ v ≤ h then .ok v else .error .overRange := by
  by_cases hc : l ≤ v ∧ v ≤ h
  · rw [(evalInt_ok typ l h hh v).1 hc]; simp [hc]
  · rw [(evalInt_ok typ l h hh v).2 hc]; simp [hc]

theorem evalU9 (v : Int) : evalInt itUInt9 v = if 0 ≤ v ∧ v ≤ 511 then .ok v else .error .overRange :=
  evalInt_if _ _ _ rangeCheck_UInt9 v
theorem evalI8 (v : Int) : evalInt itInt8 v = if -128 ≤ v ∧ v ≤ 255 then .ok v else .error .overRange :=
  evalInt_if _ _ _ rangeCheck_Int8 v
theorem evalU1 (v : Int) : evalInt itUInt1 v = if 0 ≤ v ∧ v ≤ 1 then .ok v else .error .overRange :=
  evalInt_if _ _ _ rangeCheck_UInt1 v
theorem evalU3 (v : Int) : evalInt itUInt3 v = if 0 ≤ v ∧ v ≤ 7 then .ok v else .error .overRange :=
  evalInt_if _ _ _ rangeCheck_UInt3 v
theorem evalI16 (v : Int) : evalInt itInt16 v = if -32768 ≤ v ∧ v ≤ 65535 then .ok v else .error .overRange :=
  evalInt_if _ _ _ rangeCheck_Int16 v

/-- `EvalFExpression`: data addresses 0..511, the word gets the offset inside the bank -/
theorem evalF_eq (tm : List Nat) (v : Int) :
    evalF (refCfg tm) v = if 0 ≤ v ∧ v ≤ 511 then .ok (v.toNat % 128) else .error .overRange := by
  unfold evalF
  simp only [refCfg, evalU9]
  by_cases hc : 0 ≤ v ∧ v ≤ 511
  · simp only [hc, and_self, if_true, andThen_ok, and_127, toWord]
    congr 1; omega
  · simp only [hc, if_false, andThen_error]

/-! ### normal forms of the decode handlers (for the reference configuration) -/

theorem low_or (a d : Nat) (ha : a < 128) (hd : d ≤ 1) : a ||| 128 * d = a + 128 * d := by
  have : d = 0 ∨ d = 1 := by omega
  rcases this with rfl | rfl
  · simp
  · exact Nat.or_two_pow_eq_add_of_lt (n := 7) ha

theorem decodeFixed_nil (code : Nat) : decodeFixed code [] = .ok (emitW code) := rfl
theorem decodeFixed_cons (code : Nat) (a : Int) (t : List Int) : decodeFixed code (a :: t) = .error .argCnt := rfl

theorem decodeLit_one (tm : List Nat) (code : Nat) (hc : code % 256 = 0) (k : Int) :
    decodeLit (refCfg tm) code [k] =
      if -128 ≤ k ∧ k ≤ 255 then .ok (emitW (code + (k % 256).toNat)) else .error .overRange := by
  unfold decodeLit
  simp only [refCfg, evalI8]
  by_cases h : -128 ≤ k ∧ k ≤ 255
  · simp only [h, and_self, if_true, andThen_ok]
    rw [or_add 8 code _ hc (by unfold lo; omega)]
    congr 3; unfold lo toWord; omega
  · simp only [h, if_false, andThen_error]


/-- `DecodeAri`, one operand: the default direction bit is added -/
theorem decodeAri_one (tm : List Nat) (code dir dd : Nat) (hc : code % 256 = 0)
    (hp1 : packAri code dir &&& 32767 = code)
    (hp2 : (packAri code dir >>> 8) &&& 128 = 128 * dd) (hdd : dd ≤ 1) (f : Int) :
    decodeAri (refCfg tm) (packAri code dir) [f] =
      if 0 ≤ f ∧ f ≤ 511 then .ok (emitW (code + (f.toNat % 128 + 128 * dd))) else .error .overRange := by
  unfold decodeAri
  simp only [evalF_eq]
  simp only [hp1, hp2]
  by_cases h : 0 ≤ f ∧ f ≤ 511
  · simp only [h, and_self, if_true, andThen_ok]
    have ha : f.toNat % 128 < 128 := Nat.mod_lt _ (by decide)
    rw [Nat.or_assoc, low_or _ _ ha hdd, or_add 8 code _ hc (by omega)]
  · simp only [h, if_false, andThen_error]

/-- `DecodeAri`, two operands -/
theorem decodeAri_two (tm : List Nat) (code dir : Nat) (hc : code % 256 = 0)
    (hp1 : packAri code dir &&& 32767 = code) (f d : Int) :
    decodeAri (refCfg tm) (packAri code dir) [f, d] =
      if 0 ≤ f ∧ f ≤ 511 then
        (if 0 ≤ d ∧ d ≤ 1 then .ok (emitW (code + (f.toNat % 128 + 128 * d.toNat))) else .error .overRange)
      else .error .overRange := by
  unfold decodeAri
  simp only [evalF_eq]
  simp only [refCfg, hp1, evalU1]
  by_cases h : 0 ≤ f ∧ f ≤ 511
  · simp only [h, and_self, if_true, andThen_ok]
    by_cases h2 : 0 ≤ d ∧ d ≤ 1
    · simp only [h2, and_self, if_true, andThen_ok]
      have ha : f.toNat % 128 < 128 := Nat.mod_lt _ (by decide)
      have hd : toWord d <<< 7 = 128 * d.toNat := by
        rw [Nat.shiftLeft_eq]; unfold toWord; omega
      rw [hd, Nat.or_assoc, low_or _ _ ha (by omega), or_add 8 code _ hc (by omega)]
    · simp only [h2, if_false, andThen_error]
  · simp only [h, if_false, andThen_error]

theorem decodeAri_argcnt0 (cfg : Cfg) (p : Nat) : decodeAri cfg p [] = .error .argCnt := rfl
theorem decodeAri_argcnt3 (cfg : Cfg) (p : Nat) (a1 a2 a3 : Int) (t : List Int) :
    decodeAri cfg p (a1 :: a2 :: a3 :: t) = .error .argCnt := rfl

/-- `DecodeBit` -/
theorem decodeBit_two (tm : List Nat) (code : Nat) (hc : code % 1024 = 0) (f bit : Int) :
    decodeBit (refCfg tm) code [f, bit] =
      if 0 ≤ bit ∧ bit ≤ 7 then
        (if 0 ≤ f ∧ f ≤ 511 then .ok (emitW (code + (f.toNat % 128 + 128 * bit.toNat))) else .error .overRange)
      else .error .overRange := by
  unfold decodeBit
  simp only [evalF_eq]
  simp only [refCfg, evalU3]
  by_cases h : 0 ≤ bit ∧ bit ≤ 7
  · simp only [h, and_self, if_true, andThen_ok]
    by_cases h2 : 0 ≤ f ∧ f ≤ 511
    · simp only [h2, and_self, if_true, andThen_ok]
      have ha : f.toNat % 128 < 128 := Nat.mod_lt _ (by decide)
      have hd : toWord bit <<< 7 = 128 * bit.toNat := by
        rw [Nat.shiftLeft_eq]; unfold toWord; omega
      rw [hd, Nat.or_comm, Nat.or_assoc, or_add 7 (128 * bit.toNat) _ (by omega) ha, or_add 10 code _ hc (by omega)]
      congr 3; omega
    · simp only [h2, if_false, andThen_error]
  · simp only [h, if_false, andThen_error]

theorem decodeF_one (tm : List Nat) (code : Nat) (hc : code % 128 = 0) (f : Int) :
    decodeF (refCfg tm) code [f] =
      if 0 ≤ f ∧ f ≤ 511 then .ok (emitW (code + f.toNat % 128)) else .error .overRange := by
  unfold decodeF
  simp only [evalF_eq]
  by_cases h : 0 ≤ f ∧ f ≤ 511
  · simp only [h, and_self, if_true, andThen_ok]
    rw [or_add 7 code _ hc (Nat.mod_lt _ (by decide))]
  · simp only [h, if_false, andThen_error]

theorem decodeF_argcnt0 (cfg : Cfg) (c : Nat) : decodeF cfg c [] = .error .argCnt := rfl
theorem decodeF_argcnt2 (cfg : Cfg) (c : Nat) (a1 a2 : Int) (t : List Int) : decodeF cfg c (a1 :: a2 :: t) = .error .argCnt := rfl

theorem five_at (cpu : Nat) (h : cpu < 6) : [5, 5, 5, 5, 5, 5][cpu]? = some 5 := by
  have : cpu = 0 ∨ cpu = 1 ∨ cpu = 2 ∨ cpu = 3 ∨ cpu = 4 ∨ cpu = 5 := by omega
  rcases this with rfl | rfl | rfl | rfl | rfl | rfl <;> rfl

/-- `DecodeTRIS` with the upper limit `mx` of the CPU -/
theorem decodeTRIS_one (tm : List Nat) (cpu mx : Nat) (hcpu : cpu < 6) (hmx : tm[cpu]? = some mx) (p : Int) :
    decodeTRIS (refCfg tm) cpu [p] =
      if 0 ≤ p ∧ p ≤ 7 then
        (if p < 5 then .error .underRange else if p > mx then .error .overRange else .ok (emitW (96 + p.toNat)))
      else .error .overRange := by
  unfold decodeTRIS
  simp only [refCfg, evalU3, five_at cpu hcpu, hmx]
  by_cases h : 0 ≤ p ∧ p ≤ 7
  · simp only [h, and_self, if_true, andThen_ok]
    have ht : toWord p = p.toNat := by unfold toWord; omega
    rw [ht]
    by_cases h5 : p < 5
    · have : p.toNat < 5 := by omega
      simp only [h5, this, if_true]
    · have : ¬ p.toNat < 5 := by omega
      simp only [h5, this, if_false]
      by_cases h6 : p > mx
      · have : p.toNat > mx := by omega
        simp only [h6, this, if_true]
      · have : ¬ p.toNat > mx := by omega
        simp only [h6, this, if_false]
        rw [or_add 5 96 _ (by decide) (by omega)]
  · simp only [h, if_false, andThen_error]

theorem decodeTRIS_argcnt0 (cfg : Cfg) (c : Nat) : decodeTRIS cfg c [] = .error .argCnt := rfl
theorem decodeTRIS_argcnt2 (cfg : Cfg) (c : Nat) (a1 a2 : Int) (t : List Int) : decodeTRIS cfg c (a1 :: a2 :: t) = .error .argCnt := rfl

theorem decodeBANKSEL_one (tm : List Nat) (a : Int) :
    decodeBANKSEL (refCfg tm) [a] =
      if 0 ≤ a ∧ a ≤ 511 then
        .ok (emitWords [4739 ||| ((a.toNat &&& 128) <<< 3), 4867 ||| ((a.toNat &&& 256) <<< 2)])
      else .error .overRange := by
  unfold decodeBANKSEL
  simp only [refCfg, evalU9]
  by_cases h : 0 ≤ a ∧ a ≤ 511
  · simp only [h, and_self, if_true, andThen_ok]
    have ht : toWord a = a.toNat := by unfold toWord; omega
    rw [ht]
  · simp only [h, if_false, andThen_error]

theorem decodeBANKSEL_argcnt0 (cfg : Cfg) : decodeBANKSEL cfg [] = .error .argCnt := rfl
theorem decodeBANKSEL_argcnt2 (cfg : Cfg) (a1 a2 : Int) (t : List Int) : decodeBANKSEL cfg (a1 :: a2 :: t) = .error .argCnt := rfl

/-- the two words of `BANKSEL` are `BCF/BSF STATUS,RP0` and `BCF/BSF STATUS,RP1` with bits 7 and 8 of the address
(all 512 data addresses) -/
theorem bank_words : ∀ n, n < 512 →
    (decode1 (w16 (4739 ||| ((n &&& 128) <<< 3))) = some (setBit fSTATUS bitRP0 (abit n 7)) ∧
     decode1 (w16 (4867 ||| ((n &&& 256) <<< 2))) = some (setBit fSTATUS bitRP1 (abit n 8))) := by
  decide +kernel

/-! ### `DecodeJump` -/

/-- `BCF/BSF PCLATH,bit` as the handler composes it -/
def pclWord (bit v : Nat) : Nat := 4106 + 128 * bit + 1024 * v

/-- the words in front of the CALL/GOTO word -/
def fixWords (pc a : Nat) : List Nat :=
  (if abit pc 11 ≠ abit a 11 then [pclWord 3 (abit a 11)] else []) ++
  (if abit pc 12 ≠ abit a 12 then [pclWord 4 (abit a 12)] else [])

theorem abit11 (x : Nat) : abit x 11 = x / 2048 % 2 := rfl
theorem abit12 (x : Nat) : abit x 12 = x / 4096 % 2 := rfl

theorem pageWords_ref (xv a : Nat) :
    pageWords xv a (4 + 1 - 3) 3 2048 =
      (if xv &&& 2048 ≠ 0 then [w16 (4106 ||| (3 <<< 7) ||| ((a &&& 2048) >>> (3 - 2)))] else []) ++
      ((if xv &&& 4096 ≠ 0 then [w16 (4106 ||| (4 <<< 7) ||| ((a &&& 4096) >>> (4 - 2)))] else []) ++ []) := rfl

theorem xv_bit11 (x : Nat) : (w16 x &&& (65535 - 2047)) &&& 2048 = x / 2048 % 2 * 2048 := by
  rw [Nat.and_assoc, show (65535 - 2047) &&& 2048 = 2048 from by decide, and_2048]
  unfold w16; omega

theorem xv_bit12 (x : Nat) : (w16 x &&& (65535 - 2047)) &&& 4096 = x / 4096 % 2 * 4096 := by
  rw [Nat.and_assoc, show (65535 - 2047) &&& 4096 = 4096 from by decide, and_4096]
  unfold w16; omega

theorem pcl3 (a : Nat) : w16 (4106 ||| (3 <<< 7) ||| ((a &&& 2048) >>> (3 - 2))) = pclWord 3 (abit a 11) := by
  rw [and_2048, abit11]
  have : a / 2048 % 2 = 0 ∨ a / 2048 % 2 = 1 := by omega
  rcases this with h | h <;> rw [h] <;> decide

theorem pcl4 (a : Nat) : w16 (4106 ||| (4 <<< 7) ||| ((a &&& 4096) >>> (4 - 2))) = pclWord 4 (abit a 12) := by
  rw [and_4096, abit12]
  have : a / 4096 % 2 = 0 ∨ a / 4096 % 2 = 1 := by omega
  rcases this with h | h <;> rw [h] <;> decide

/-- the loop of `DecodeJump` emits exactly one `BCF/BSF PCLATH` per differing page bit (any `pc`, any target) -/
theorem pageWords_fix (pc a : Nat) :
    pageWords (w16 (pc ^^^ a) &&& (65535 - 2047)) a (4 + 1 - 3) 3 2048 = fixWords pc a := by
  rw [pageWords_ref, xv_bit11, xv_bit12, pcl3, pcl4, List.append_nil]
  have h11 := xor_bit pc a 11
  have h12 := xor_bit pc a 12
  simp only [show (2:Nat) ^ 11 = 2048 from by decide, show (2:Nat) ^ 12 = 4096 from by decide] at h11 h12
  unfold fixWords
  rw [h11, h12, abit11 pc, abit11 a, abit12 pc, abit12 a]
  by_cases c1 : pc / 2048 % 2 = a / 2048 % 2 <;> by_cases c2 : pc / 4096 % 2 = a / 4096 % 2 <;> simp [c1, c2]

theorem romWords_le (cpu : Nat) : romWords cpu ≤ 8192 := by
  unfold romWords; split <;> decide

theorem romWords_pos (cpu : Nat) : 1024 ≤ romWords cpu := by
  unfold romWords; split <;> decide

theorem seglim_at (cpu : Nat) (h : cpu < 6) :
    [2815, 1791, 4863, 4863, 8959, 8959][cpu]? = some (romWords cpu + 767) := by
  have : cpu = 0 ∨ cpu = 1 ∨ cpu = 2 ∨ cpu = 3 ∨ cpu = 4 ∨ cpu = 5 := by omega
  rcases this with rfl | rfl | rfl | rfl | rfl | rfl <;> rfl

/-- `DecodeJump`: targets inside the device's program memory, page-bit corrections in front -/
theorem decodeJump_one (tm : List Nat) (code cpu pc : Nat) (hcpu : cpu < 6) (hc : code % 2048 = 0) (t : Int) :
    decodeJump (refCfg tm) code cpu pc [t] =
      if 0 ≤ t ∧ t < romWords cpu then .ok (emitWords (fixWords pc t.toNat ++ [code + t.toNat % 2048]))
      else .error .overRange := by
  have hle := romWords_le cpu
  have hge := romWords_pos cpu
  unfold decodeJump
  simp only [refCfg]
  rw [seglim_at cpu hcpu, evalI16]
  by_cases h16 : -32768 ≤ t ∧ t ≤ 65535
  · rw [if_pos h16, andThen_ok]
    by_cases ht : 0 ≤ t ∧ t < romWords cpu
    · have hw : toWord t = t.toNat := by unfold toWord; omega
      have hcond : ¬ ((t.toNat : Int) > ((romWords cpu + 767 : Nat) : Int) - ((768 : Nat) : Int)) := by omega
      rw [hw]
      show (if ((t.toNat : Int) > ((romWords cpu + 767 : Nat) : Int) - ((768 : Nat) : Int)) then _ else _) = _
      rw [if_neg hcond, if_pos ht]
      rw [pageWords_fix pc t.toNat, and_2047, or_add 11 code _ hc (Nat.mod_lt _ (by decide))]
    · have hcond : ((toWord t : Nat) : Int) > ((romWords cpu + 767 : Nat) : Int) - ((768 : Nat) : Int) := by
        unfold toWord; omega
      show (if ((toWord t : Nat) : Int) > ((romWords cpu + 767 : Nat) : Int) - ((768 : Nat) : Int) then _ else _) = _
      rw [if_pos hcond, if_neg ht]
  · have ht : ¬ (0 ≤ t ∧ t < romWords cpu) := by omega
    rw [if_neg h16, if_neg ht, andThen_error]

theorem decodeJump_argcnt0 (cfg : Cfg) (c cpu pc : Nat) : decodeJump cfg c cpu pc [] = .error .argCnt := rfl
theorem decodeJump_argcnt2 (cfg : Cfg) (c cpu pc : Nat) (a1 a2 : Int) (t : List Int) :
    decodeJump cfg c cpu pc (a1 :: a2 :: t) = .error .argCnt := rfl

/-! ### per-entry obligations over the regenerated table -/

/-- the SPEC's opcode map by instruction group (fields as quotients / remainders of the word) -/
theorem decode1_lit (w : Nat) (h : w / 4096 = 3) :
    decode1 w = (litMn (w / 256 % 16)).map fun m => ⟨m, [w % 256]⟩ := by
  unfold decode1; simp only [h]
theorem decode1_jump (w : Nat) (h : w / 4096 = 2) :
    decode1 w = some ⟨if w / 2048 % 2 = 0 then Mn.CALL else Mn.GOTO, [w % 2048]⟩ := by
  unfold decode1; simp only [h]
theorem decode1_bit (w : Nat) (h : w / 4096 = 1) :
    decode1 w = some ⟨bitMn (w / 1024 % 4), [w % 128, w / 128 % 8]⟩ := by
  unfold decode1; simp only [h]
theorem decode1_byte (w op : Nat) (h : w / 4096 = 0) (hop : w / 256 % 16 = op + 2) :
    decode1 w = (byteMn (op + 2)).map fun m => ⟨m, [w % 128, w / 128 % 2]⟩ := by
  unfold decode1; simp only [h, hop]
theorem decode1_movwf (w : Nat) (h : w / 4096 = 0) (hop : w / 256 % 16 = 0) (hd : w / 128 % 2 = 1) :
    decode1 w = some ⟨Mn.MOVWF, [w % 128]⟩ := by
  unfold decode1; simp only [h, hop, hd, if_true]
theorem decode1_clrf (w : Nat) (h : w / 4096 = 0) (hop : w / 256 % 16 = 1) (hd : w / 128 % 2 = 1) :
    decode1 w = some ⟨Mn.CLRF, [w % 128]⟩ := by
  unfold decode1; simp only [h, hop, hd, if_true]

/-- what the SPEC demands of one `InstTable` entry: the handler kind is the mnemonic's operand form, the code word
leaves the operand fields clear, and its opcode bits are the ones the SPEC's opcode map assigns to the mnemonic -/
def Good (m : Mn) : Handler → Bool
  | .fixed code => form m == .none && decide (code < 65536) && decode1 code == some ⟨m, []⟩
  | .lit code => form m == .lit && code % 256 == 0 && code / 4096 == 3 && litMn (code / 256 % 16) == some m
  | .ari code dir => form m == .fd && code % 256 == 0 && code / 4096 == 0 && decide (2 ≤ code / 256 % 16) &&
      byteMn (code / 256 % 16) == some m &&
      (packAri code dir &&& 32767) == code && ((packAri code dir >>> 8) &&& 128) == 128 * defaultDest m
  | .bit code => form m == .fb && code % 1024 == 0 && code / 4096 == 1 && bitMn (code / 1024 % 4) == m
  | .f code => form m == .f && code % 128 == 0 && code / 4096 == 0 && code / 128 % 2 == 1 &&
      ((code / 256 % 16 == 0 && m == .MOVWF) || (code / 256 % 16 == 1 && m == .CLRF))
  | .tris _ => m == .TRIS
  | .jump code => form m == .addr && code % 2048 == 0 && code / 4096 == 2 &&
      (if code / 2048 % 2 = 0 then Mn.CALL else Mn.GOTO) == m
  | .banksel _ => m == .BANKSEL

theorem table_good : Mn.all.all (fun m => match lookup m with | some h => Good m h | none => false) = true := by
  decide +kernel

theorem lookup_good (m : Mn) : ∃ h, lookup m = some h ∧ Good m h = true := by
  have := List.all_eq_true.mp table_good m (mem_all m)
  cases hl : lookup m with
  | none => simp [hl] at this
  | some h => exact ⟨h, rfl, by simpa [hl] using this⟩

theorem defaultDest_le (m : Mn) : defaultDest m ≤ 1 := by cases m <;> decide

theorem tris_words : ∀ p, p < 8 → 5 ≤ p → decode1 (96 + p) = some ⟨.TRIS, [p]⟩ := by decide

theorem pcl_words : ∀ v, v < 2 →
    (decode1 (w16 (pclWord 3 v)) = some (setBit fPCLATH 3 v) ∧ decode1 (w16 (pclWord 4 v)) = some (setBit fPCLATH 4 v)) := by
  decide

theorem abit_lt (x i : Nat) : abit x i < 2 := Nat.mod_lt _ (by decide)

/-- the page corrections decode to the SPEC's `pageFix` -/
theorem fixWords_decode (pc a : Nat) :
    (fixWords pc a).map (fun w => decode1 (w16 w)) = (pageFix pc a).map some := by
  unfold fixWords pageFix
  have h11 := pcl_words (abit a 11) (abit_lt a 11)
  have h12 := pcl_words (abit a 12) (abit_lt a 12)
  by_cases c1 : abit pc 11 = abit a 11 <;> by_cases c2 : abit pc 12 = abit a 12 <;>
    simp [c1, c2, h11.1, h12.2]

/-! ### soundness and acceptance per handler -/

theorem isOk_ite {α : Type} (c : Prop) [Decidable c] (x y : Except Err α) :
    isOk (if c then x else y) = if c then isOk x else isOk y := by
  split <;> rfl

theorem inR_iff (l h v : Int) : inR l h v = true ↔ l ≤ v ∧ v ≤ h := by
  simp [inR]

theorem inR_eq (l h v : Int) : inR l h v = decide (l ≤ v ∧ v ≤ h) := by
  unfold inR
  by_cases h1 : l ≤ v <;> by_cases h2 : v ≤ h <;> simp [h1, h2]

theorem sound_fixed (m : Mn) (code : Nat) (hg : Good m (.fixed code) = true) (cpu pc : Nat) (args : List Int)
    (bs : List Byte) (he : decodeFixed code args = .ok bs) :
    decode bs = some (meaning cpu pc ⟨m, args⟩, bs.length) := by
  simp only [Good, Bool.and_eq_true, beq_iff_eq, decide_eq_true_eq] at hg
  obtain ⟨⟨hf, hlt⟩, hd⟩ := hg
  cases args with
  | cons a t => simp [decodeFixed] at he
  | nil =>
    rw [decodeFixed_nil] at he
    injection he with he; subst he
    have hm : meaning cpu pc ⟨m, []⟩ = [⟨m, []⟩] := by simp [meaning, hf]
    rw [hm]
    exact decode_emitW code _ hlt hd

theorem sound_lit (tm : List Nat) (m : Mn) (code : Nat) (hg : Good m (.lit code) = true) (cpu pc : Nat)
    (args : List Int) (bs : List Byte) (he : decodeLit (refCfg tm) code args = .ok bs) :
    decode bs = some (meaning cpu pc ⟨m, args⟩, bs.length) := by
  simp only [Good, Bool.and_eq_true, beq_iff_eq] at hg
  obtain ⟨⟨⟨hf, hc⟩, h3⟩, hmn⟩ := hg
  rcases args with _ | ⟨k, _ | ⟨a2, t⟩⟩
  · simp [decodeLit] at he
  · rw [decodeLit_one tm code hc k] at he
    split at he
    · injection he with he; subst he
      have hm : meaning cpu pc ⟨m, [k]⟩ = [⟨m, [(k % 256).toNat]⟩] := by simp [meaning, hf]
      rw [hm]
      have hx : (k % 256).toNat < 256 := by omega
      refine decode_emitW _ _ (by omega) ?_
      rw [decode1_lit _ (by omega)]
      have : (code + (k % 256).toNat) / 256 % 16 = code / 256 % 16 := by omega
      rw [this, hmn]
      have : (code + (k % 256).toNat) % 256 = (k % 256).toNat := by omega
      simp [this]
    · cases he
  · simp [decodeLit] at he

theorem ok_lit (tm : List Nat) (m : Mn) (code : Nat) (hg : Good m (.lit code) = true) (cpu pc : Nat) (args : List Int) :
    legal cpu pc ⟨m, args⟩ = isOk (decodeLit (refCfg tm) code args) := by
  simp only [Good, Bool.and_eq_true, beq_iff_eq] at hg
  obtain ⟨⟨⟨hf, hc⟩, h3⟩, hmn⟩ := hg
  rcases args with _ | ⟨k, _ | ⟨a2, t⟩⟩
  · simp [legal, hf, decodeLit, isOk]
  · simp only [legal, hf]
    rw [decodeLit_one tm code hc k, isOk_ite, inR_eq]
    by_cases h : -128 ≤ k ∧ k ≤ 255 <;> simp [h, isOk]
  · simp [legal, hf, decodeLit, isOk]

theorem sound_ari (tm : List Nat) (m : Mn) (code dir : Nat) (hg : Good m (.ari code dir) = true) (cpu pc : Nat)
    (args : List Int) (bs : List Byte) (he : decodeAri (refCfg tm) (packAri code dir) args = .ok bs) :
    decode bs = some (meaning cpu pc ⟨m, args⟩, bs.length) := by
  simp only [Good, Bool.and_eq_true, beq_iff_eq, decide_eq_true_eq] at hg
  obtain ⟨⟨⟨⟨⟨⟨hf, hc⟩, h0⟩, h2⟩, hmn⟩, hp1⟩, hp2⟩ := hg
  have key : ∀ a d : Nat, a < 128 → d ≤ 1 → decode1 (code + (a + 128 * d)) = some ⟨m, [a, d]⟩ := by
    intro a d ha hd
    obtain ⟨op, hop⟩ : ∃ op, code / 256 % 16 = op + 2 := ⟨code / 256 % 16 - 2, by omega⟩
    rw [decode1_byte _ op (by omega) (by omega), ← hop, hmn]
    have h1 : (code + (a + 128 * d)) % 128 = a := by omega
    have h2 : (code + (a + 128 * d)) / 128 % 2 = d := by omega
    simp [h1, h2]
  rcases args with _ | ⟨f, _ | ⟨d, _ | ⟨a3, t⟩⟩⟩
  · simp [decodeAri] at he
  · rw [decodeAri_one tm code dir (defaultDest m) hc hp1 hp2 (defaultDest_le m) f] at he
    split at he
    · injection he with he; subst he
      have hm : meaning cpu pc ⟨m, [f]⟩ = [⟨m, [f.toNat % 128, defaultDest m]⟩] := by simp [meaning, hf]
      rw [hm]
      have ha : f.toNat % 128 < 128 := Nat.mod_lt _ (by decide)
      have := defaultDest_le m
      exact decode_emitW _ _ (by omega) (key _ _ ha (defaultDest_le m))
    · cases he
  · rw [decodeAri_two tm code dir hc hp1 f d] at he
    split at he
    · split at he
      · injection he with he; subst he
        have hm : meaning cpu pc ⟨m, [f, d]⟩ = [⟨m, [f.toNat % 128, d.toNat]⟩] := by simp [meaning, hf]
        rw [hm]
        have ha : f.toNat % 128 < 128 := Nat.mod_lt _ (by decide)
        exact decode_emitW _ _ (by omega) (key _ _ ha (by omega))
      · cases he
    · cases he
  · simp [decodeAri] at he

theorem ok_ari (tm : List Nat) (m : Mn) (code dir : Nat) (hg : Good m (.ari code dir) = true) (cpu pc : Nat)
    (args : List Int) :
    legal cpu pc ⟨m, args⟩ = isOk (decodeAri (refCfg tm) (packAri code dir) args) := by
  simp only [Good, Bool.and_eq_true, beq_iff_eq, decide_eq_true_eq] at hg
  obtain ⟨⟨⟨⟨⟨⟨hf, hc⟩, h0⟩, h2⟩, hmn⟩, hp1⟩, hp2⟩ := hg
  rcases args with _ | ⟨f, _ | ⟨d, _ | ⟨a3, t⟩⟩⟩
  · simp [legal, hf, decodeAri, isOk]
  · simp only [legal, hf]
    rw [decodeAri_one tm code dir (defaultDest m) hc hp1 hp2 (defaultDest_le m) f, isOk_ite, inR_eq]
    by_cases h : 0 ≤ f ∧ f ≤ 511 <;> simp [h, isOk, dataSize]
  · simp only [legal, hf]
    rw [decodeAri_two tm code dir hc hp1 f d, isOk_ite, isOk_ite, inR_eq, inR_eq]
    by_cases h : 0 ≤ f ∧ f ≤ 511 <;> by_cases h' : 0 ≤ d ∧ d ≤ 1 <;> simp [h, h', isOk, dataSize]
  · simp [legal, hf, decodeAri, isOk]

theorem sound_bit (tm : List Nat) (m : Mn) (code : Nat) (hg : Good m (.bit code) = true) (cpu pc : Nat)
    (args : List Int) (bs : List Byte) (he : decodeBit (refCfg tm) code args = .ok bs) :
    decode bs = some (meaning cpu pc ⟨m, args⟩, bs.length) := by
  simp only [Good, Bool.and_eq_true, beq_iff_eq] at hg
  obtain ⟨⟨⟨hf, hc⟩, h1⟩, hmn⟩ := hg
  rcases args with _ | ⟨f, _ | ⟨bit, _ | ⟨a3, t⟩⟩⟩
  · simp [decodeBit] at he
  · simp [decodeBit] at he
  · rw [decodeBit_two tm code hc f bit] at he
    split at he
    · split at he
      · injection he with he; subst he
        have hm : meaning cpu pc ⟨m, [f, bit]⟩ = [⟨m, [f.toNat % 128, bit.toNat]⟩] := by simp [meaning, hf]
        rw [hm]
        have ha : f.toNat % 128 < 128 := Nat.mod_lt _ (by decide)
        refine decode_emitW _ _ (by omega) ?_
        rw [decode1_bit _ (by omega)]
        have e1 : (code + (f.toNat % 128 + 128 * bit.toNat)) / 1024 % 4 = code / 1024 % 4 := by omega
        have e2 : (code + (f.toNat % 128 + 128 * bit.toNat)) % 128 = f.toNat % 128 := by omega
        have e3 : (code + (f.toNat % 128 + 128 * bit.toNat)) / 128 % 8 = bit.toNat := by omega
        rw [e1, e2, e3, hmn]
      · cases he
    · cases he
  · simp [decodeBit] at he

theorem ok_bit (tm : List Nat) (m : Mn) (code : Nat) (hg : Good m (.bit code) = true) (cpu pc : Nat) (args : List Int) :
    legal cpu pc ⟨m, args⟩ = isOk (decodeBit (refCfg tm) code args) := by
  simp only [Good, Bool.and_eq_true, beq_iff_eq] at hg
  obtain ⟨⟨⟨hf, hc⟩, h1⟩, hmn⟩ := hg
  rcases args with _ | ⟨f, _ | ⟨bit, _ | ⟨a3, t⟩⟩⟩
  · simp [legal, hf, decodeBit, isOk]
  · simp [legal, hf, decodeBit, isOk]
  · simp only [legal, hf]
    rw [decodeBit_two tm code hc f bit, isOk_ite, isOk_ite, inR_eq, inR_eq]
    by_cases h : 0 ≤ f ∧ f ≤ 511 <;> by_cases h' : 0 ≤ bit ∧ bit ≤ 7 <;> simp [h, h', isOk, dataSize]
  · simp [legal, hf, decodeBit, isOk]

theorem sound_f (tm : List Nat) (m : Mn) (code : Nat) (hg : Good m (.f code) = true) (cpu pc : Nat)
    (args : List Int) (bs : List Byte) (he : decodeF (refCfg tm) code args = .ok bs) :
    decode bs = some (meaning cpu pc ⟨m, args⟩, bs.length) := by
  simp only [Good, Bool.and_eq_true, beq_iff_eq, Bool.or_eq_true] at hg
  obtain ⟨⟨⟨⟨hf, hc⟩, h0⟩, hd⟩, hmn⟩ := hg
  rcases args with _ | ⟨f, _ | ⟨a2, t⟩⟩
  · simp [decodeF] at he
  · rw [decodeF_one tm code hc f] at he
    split at he
    · injection he with he; subst he
      have hm : meaning cpu pc ⟨m, [f]⟩ = [⟨m, [f.toNat % 128]⟩] := by simp [meaning, hf]
      rw [hm]
      have ha : f.toNat % 128 < 128 := Nat.mod_lt _ (by decide)
      refine decode_emitW _ _ (by omega) ?_
      have e2 : (code + f.toNat % 128) % 128 = f.toNat % 128 := by omega
      rcases hmn with ⟨hop, rfl⟩ | ⟨hop, rfl⟩
      · rw [decode1_movwf _ (by omega) (by omega) (by omega), e2]
      · rw [decode1_clrf _ (by omega) (by omega) (by omega), e2]
    · cases he
  · simp [decodeF] at he

theorem ok_f (tm : List Nat) (m : Mn) (code : Nat) (hg : Good m (.f code) = true) (cpu pc : Nat) (args : List Int) :
    legal cpu pc ⟨m, args⟩ = isOk (decodeF (refCfg tm) code args) := by
  simp only [Good, Bool.and_eq_true, beq_iff_eq, Bool.or_eq_true] at hg
  obtain ⟨⟨⟨⟨hf, hc⟩, h0⟩, hd⟩, hmn⟩ := hg
  rcases args with _ | ⟨f, _ | ⟨a2, t⟩⟩
  · simp [legal, hf, decodeF, isOk]
  · simp only [legal, hf]
    rw [decodeF_one tm code hc f, isOk_ite, inR_eq]
    by_cases h : 0 ≤ f ∧ f ≤ 511 <;> simp [h, isOk, dataSize]
  · simp [legal, hf, decodeF, isOk]

theorem tm_at (tm : List Nat) (hlen : tm.length = 6) (hall : ∀ x ∈ tm, x = 6 ∨ x = 7) (cpu : Nat) (hcpu : cpu < 6) :
    ∃ mx, tm[cpu]? = some mx ∧ (mx = 6 ∨ mx = 7) := by
  have hlt : cpu < tm.length := by omega
  exact ⟨tm[cpu], List.getElem?_eq_getElem hlt, hall _ (List.getElem_mem hlt)⟩

theorem sound_tris (tm : List Nat) (cpu mx : Nat) (hcpu : cpu < 6) (hmx : tm[cpu]? = some mx) (hle : mx ≤ 7) (pc : Nat)
    (args : List Int) (bs : List Byte) (he : decodeTRIS (refCfg tm) cpu args = .ok bs) :
    decode bs = some (meaning cpu pc ⟨.TRIS, args⟩, bs.length) := by
  rcases args with _ | ⟨p, _ | ⟨a2, t⟩⟩
  · simp [decodeTRIS] at he
  · rw [decodeTRIS_one tm cpu mx hcpu hmx p] at he
    split at he
    · split at he
      · cases he
      · split at he
        · cases he
        · injection he with he; subst he
          have hm : meaning cpu pc ⟨.TRIS, [p]⟩ = [⟨.TRIS, [p.toNat]⟩] := by simp [meaning, form]
          rw [hm]
          exact decode_emitW _ _ (by omega) (tris_words p.toNat (by omega) (by omega))
    · cases he
  · simp [decodeTRIS] at he

theorem ok_tris (tm : List Nat) (cpu : Nat) (hcpu : cpu < 6) (hmx : tm[cpu]? = some (trisMax cpu)) (pc : Nat)
    (args : List Int) : legal cpu pc ⟨.TRIS, args⟩ = isOk (decodeTRIS (refCfg tm) cpu args) := by
  have hle : trisMax cpu ≤ 7 := by unfold trisMax; split <;> decide
  have hge : 6 ≤ trisMax cpu := by unfold trisMax; split <;> decide
  rcases args with _ | ⟨p, _ | ⟨a2, t⟩⟩
  · simp [legal, form, decodeTRIS, isOk]
  · simp only [legal, form]
    rw [decodeTRIS_one tm cpu _ hcpu hmx p, isOk_ite, isOk_ite, isOk_ite, inR_eq]
    by_cases h : 0 ≤ p ∧ p ≤ 7 <;> by_cases h5 : p < 5 <;> by_cases h6 : p > (trisMax cpu : Int) <;>
      simp [h, h5, h6, isOk] <;> omega
  · simp [legal, form, decodeTRIS, isOk]

theorem sound_jump (tm : List Nat) (m : Mn) (code : Nat) (hg : Good m (.jump code) = true) (cpu pc : Nat) (hcpu : cpu < 6)
    (args : List Int) (bs : List Byte) (he : decodeJump (refCfg tm) code cpu pc args = .ok bs) :
    decode bs = some (meaning cpu pc ⟨m, args⟩, bs.length) := by
  simp only [Good, Bool.and_eq_true, beq_iff_eq] at hg
  obtain ⟨⟨⟨hf, hc⟩, h2⟩, hmn⟩ := hg
  rcases args with _ | ⟨t, _ | ⟨a2, tl⟩⟩
  · simp [decodeJump] at he
  · rw [decodeJump_one tm code cpu pc hcpu hc t] at he
    split at he
    · injection he with he; subst he
      have hm : meaning cpu pc ⟨m, [t]⟩ = pageFix pc t.toNat ++ [⟨m, [t.toNat % 2048]⟩] := by simp [meaning, hf]
      rw [hm]
      apply decode_emitWords
      rw [List.map_append, List.map_append, fixWords_decode]
      have hk : t.toNat % 2048 < 2048 := Nat.mod_lt _ (by decide)
      have hw : w16 (code + t.toNat % 2048) = code + t.toNat % 2048 := w16_lt _ (by omega)
      have e1 : (code + t.toNat % 2048) / 2048 % 2 = code / 2048 % 2 := by omega
      have e2 : (code + t.toNat % 2048) % 2048 = t.toNat % 2048 := by omega
      simp only [List.map_cons, List.map_nil, hw]
      rw [decode1_jump _ (by omega), e1, e2, hmn]
    · cases he
  · simp [decodeJump] at he

theorem ok_jump (tm : List Nat) (m : Mn) (code : Nat) (hg : Good m (.jump code) = true) (cpu pc : Nat) (hcpu : cpu < 6)
    (args : List Int) : legal cpu pc ⟨m, args⟩ = isOk (decodeJump (refCfg tm) code cpu pc args) := by
  simp only [Good, Bool.and_eq_true, beq_iff_eq] at hg
  obtain ⟨⟨⟨hf, hc⟩, h2⟩, hmn⟩ := hg
  rcases args with _ | ⟨t, _ | ⟨a2, tl⟩⟩
  · simp [legal, hf, decodeJump, isOk]
  · simp only [legal, hf]
    rw [decodeJump_one tm code cpu pc hcpu hc t, isOk_ite, inR_eq]
    by_cases h : 0 ≤ t ∧ t < romWords cpu
    · have : 0 ≤ t ∧ t ≤ (romWords cpu : Int) - 1 := by omega
      simp [h, this, isOk]
    · have : ¬ (0 ≤ t ∧ t ≤ (romWords cpu : Int) - 1) := by omega
      simp [h, this, isOk]
  · simp [legal, hf, decodeJump, isOk]

theorem sound_banksel (tm : List Nat) (cpu pc : Nat) (args : List Int) (bs : List Byte)
    (he : decodeBANKSEL (refCfg tm) args = .ok bs) :
    decode bs = some (meaning cpu pc ⟨.BANKSEL, args⟩, bs.length) := by
  rcases args with _ | ⟨a, _ | ⟨a2, t⟩⟩
  · simp [decodeBANKSEL] at he
  · rw [decodeBANKSEL_one tm a] at he
    split at he
    · injection he with he; subst he
      have hm : meaning cpu pc ⟨.BANKSEL, [a]⟩ =
          [setBit fSTATUS bitRP0 (abit a.toNat 7), setBit fSTATUS bitRP1 (abit a.toNat 8)] := by simp [meaning, form]
      rw [hm]
      apply decode_emitWords
      have := bank_words a.toNat (by omega)
      simp [this.1, this.2]
    · cases he
  · simp [decodeBANKSEL] at he

theorem ok_banksel (tm : List Nat) (cpu pc : Nat) (args : List Int) :
    legal cpu pc ⟨.BANKSEL, args⟩ = isOk (decodeBANKSEL (refCfg tm) args) := by
  rcases args with _ | ⟨a, _ | ⟨a2, t⟩⟩
  · simp [legal, form, decodeBANKSEL, isOk]
  · simp only [legal, form]
    rw [decodeBANKSEL_one tm a, isOk_ite, inR_eq]
    by_cases h : 0 ≤ a ∧ a ≤ 511 <;> simp [h, isOk, dataSize]
  · simp [legal, form, decodeBANKSEL, isOk]

theorem ok_fixed (m : Mn) (code : Nat) (hg : Good m (.fixed code) = true) (cpu pc : Nat) (args : List Int) :
    legal cpu pc ⟨m, args⟩ = isOk (decodeFixed code args) := by
  simp only [Good, Bool.and_eq_true, beq_iff_eq, decide_eq_true_eq] at hg
  obtain ⟨⟨hf, hlt⟩, hd⟩ := hg
  cases args with
  | nil => simp [legal, hf, decodeFixed, isOk]
  | cons a t => simp [legal, hf, decodeFixed, isOk]

/-! ### the statement level -/

theorem good_tris (m : Mn) (i : Nat) (hg : Good m (.tris i) = true) : m = .TRIS := by
  simpa [Good] using hg
theorem good_banksel (m : Mn) (i : Nat) (hg : Good m (.banksel i) = true) : m = .BANKSEL := by
  simpa [Good] using hg

theorem encode_sound (tm : List Nat) (hlen : tm.length = 6) (hall : ∀ x ∈ tm, x = 6 ∨ x = 7) (cpu pc : Nat) (hcpu : cpu < 6)
    (s : Src) (bs : List Byte) (h : encode (refCfg tm) cpu pc s = .ok bs) :
    decode bs = some (meaning cpu pc s, bs.length) := by
  obtain ⟨hd, hl, hg⟩ := lookup_good s.mn
  obtain ⟨mn, args⟩ := s
  simp only at hl hg
  unfold encode at h
  simp only [hl] at h
  cases hd with
  | fixed code => exact sound_fixed mn code hg cpu pc args bs h
  | lit code => exact sound_lit tm mn code hg cpu pc args bs h
  | ari code dir => exact sound_ari tm mn code dir hg cpu pc args bs h
  | bit code => exact sound_bit tm mn code hg cpu pc args bs h
  | f code => exact sound_f tm mn code hg cpu pc args bs h
  | tris i =>
    obtain ⟨mx, hmx, hv⟩ := tm_at tm hlen hall cpu hcpu
    rw [good_tris mn i hg]
    exact sound_tris tm cpu mx hcpu hmx (by omega) pc args bs h
  | jump code => exact sound_jump tm mn code hg cpu pc hcpu args bs h
  | banksel i =>
    rw [good_banksel mn i hg]
    exact sound_banksel tm cpu pc args bs h

theorem encode_ok (tm : List Nat) (cpu pc : Nat) (hcpu : cpu < 6) (s : Src)
    (hside : s.mn = .TRIS → tm[cpu]? = some (trisMax cpu)) :
    legal cpu pc s = isOk (encode (refCfg tm) cpu pc s) := by
  obtain ⟨hd, hl, hg⟩ := lookup_good s.mn
  obtain ⟨mn, args⟩ := s
  simp only at hl hg hside
  unfold encode
  simp only [hl]
  cases hd with
  | fixed code => exact ok_fixed mn code hg cpu pc args
  | lit code => exact ok_lit tm mn code hg cpu pc args
  | ari code dir => exact ok_ari tm mn code dir hg cpu pc args
  | bit code => exact ok_bit tm mn code hg cpu pc args
  | f code => exact ok_f tm mn code hg cpu pc args
  | tris i =>
    have hm := good_tris mn i hg
    subst hm
    exact ok_tris tm cpu hcpu (hside rfl) pc args
  | jump code => exact ok_jump tm mn code hg cpu pc hcpu args
  | banksel i =>
    rw [good_banksel mn i hg]
    exact ok_banksel tm cpu pc args

/-! ### what the decoded sequences do -/

theorem runJump_fix (hi a0 a1 k : Nat) (mn : Mn) (hmn : mn = .CALL ∨ mn = .GOTO) (hhi : hi < 4) (h0 : a0 < 2) (h1 : a1 < 2) :
    runJump hi ((if hi % 2 ≠ a0 then [setBit fPCLATH 3 a0] else []) ++ (if hi / 2 ≠ a1 then [setBit fPCLATH 4 a1] else []) ++
      [⟨mn, [k]⟩]) = some ((a0 + 2 * a1) * 2048 + k) := by
  have e1 : hi = 0 ∨ hi = 1 ∨ hi = 2 ∨ hi = 3 := by omega
  have e2 : a0 = 0 ∨ a0 = 1 := by omega
  have e3 : a1 = 0 ∨ a1 = 1 := by omega
  rcases hmn with rfl | rfl <;> rcases e1 with rfl | rfl | rfl | rfl <;> rcases e2 with rfl | rfl <;>
    rcases e3 with rfl | rfl <;> rfl

theorem runJump_pageFix (pc a : Nat) (ha : a < 8192) (mn : Mn) (hmn : mn = .CALL ∨ mn = .GOTO) :
    runJump (pc / 2048 % 4) (pageFix pc a ++ [⟨mn, [a % 2048]⟩]) = some a := by
  have h := runJump_fix (pc / 2048 % 4) (abit a 11) (abit a 12) (a % 2048) mn hmn (Nat.mod_lt _ (by decide))
    (abit_lt a 11) (abit_lt a 12)
  have e1 : pc / 2048 % 4 % 2 = abit pc 11 := by rw [abit11]; omega
  have e2 : pc / 2048 % 4 / 2 = abit pc 12 := by rw [abit12]; omega
  have e3 : (abit a 11 + 2 * abit a 12) * 2048 + a % 2048 = a := by rw [abit11, abit12]; omega
  rw [e1, e2, e3] at h
  exact h

theorem runBank_set (v0 v1 : Nat) (h0 : v0 < 2) (h1 : v1 < 2) :
    runBank [setBit fSTATUS bitRP0 v0, setBit fSTATUS bitRP1 v1] = some (v0 + 2 * v1) := by
  have e2 : v0 = 0 ∨ v0 = 1 := by omega
  have e3 : v1 = 0 ∨ v1 = 1 := by omega
  rcases e2 with rfl | rfl <;> rcases e3 with rfl | rfl <;> rfl

end AslModel.Isa.IPic
