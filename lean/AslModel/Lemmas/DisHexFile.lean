import AslModel.Lemmas.DisHexLoad
import AslModel.Lemmas.DisHexLine
/-! From the text of an Intel-hex file to the loaded image: `HexLoad.loadHex` (das.c `CMD_HexFile`) against the independent decoder
`Hex.decodeIhex` of `Spec/Hex.lean` for files that stay inside the 16-bit address space dasl's loader knows (no extended
segment / linear address records, no record that runs past $FFFF) and whose lines fit into `char Line[300]`. -/
namespace AslModel.Dis.HexLoad
open AslModel

/-! ## lines that are not data records -/

theorem parseLine_skip_of_spec (l : List Char) (r : Hex.IRec) (h : Hex.ihexLine l = some r)
    (hnd : ∀ off d, r ≠ .data off d) : parseLine l = .skip := by
  match l, h with
  | [], h => simp [Hex.ihexLine] at h
  | c :: rest, h =>
    by_cases hcol : c = ':'
    case neg =>
      unfold Hex.ihexLine at h
      split at h
      · rename_i heq
        exact absurd (List.cons.inj heq).1 hcol
      · cases h
    subst hcol
    unfold Hex.ihexLine at h
    simp only at h
    cases hp : Hex.parseHex rest with
    | none => simp [hp] at h
    | some bs =>
      match bs, hp with
      | [], hp => simp [hp] at h
      | [_], hp => simp [hp] at h
      | [_, _], hp => simp [hp] at h
      | [_, _, _], hp => simp [hp] at h
      | cnt :: ah :: al :: typ :: body, hp =>
        simp only [hp] at h
        split at h
        · obtain ⟨r1, g1, p1⟩ := parseHex_cons rest cnt _ hp
          obtain ⟨r2, g2, p2⟩ := parseHex_cons r1 ah _ p1
          obtain ⟨r3, g3, p3⟩ := parseHex_cons r2 al _ p2
          obtain ⟨r4, g4, _⟩ := parseHex_cons r3 typ _ p3
          have ht : typ.toNat ≠ 0 := by
            intro h0
            rw [h0] at h
            simp only [Hex.ihexMk, if_true, Option.some.injEq] at h
            exact hnd _ _ h.symm
          unfold parseLine
          simp [g1, g2, g3, g4, ht]
        · cases h

/-- the data record of a decoded line -/
def dataOf : Hex.IRec → Option CodeChunk
  | .data off d => some ⟨off, d⟩
  | _ => none

theorem parseLine_spec (l : List Char) (r : Hex.IRec) (h : Hex.ihexLine l = some r) :
    (∃ c, dataOf r = some c ∧ parseLine l = .data c) ∨ (dataOf r = none ∧ parseLine l = .skip) := by
  cases r with
  | data off d =>
    obtain ⟨c, hc, hs, hd⟩ := parseLine_of_spec l off d h
    refine Or.inl ⟨c, ?_, hc⟩
    cases c
    simp only at hs hd
    subst hs hd
    rfl
  | eof a => exact Or.inr ⟨rfl, parseLine_skip_of_spec l _ h (by intro _ _ hh; cases hh)⟩
  | extSeg a => exact Or.inr ⟨rfl, parseLine_skip_of_spec l _ h (by intro _ _ hh; cases hh)⟩
  | startSeg a b => exact Or.inr ⟨rfl, parseLine_skip_of_spec l _ h (by intro _ _ hh; cases hh)⟩
  | extLin a => exact Or.inr ⟨rfl, parseLine_skip_of_spec l _ h (by intro _ _ hh; cases hh)⟩
  | startLin a => exact Or.inr ⟨rfl, parseLine_skip_of_spec l _ h (by intro _ _ hh; cases hh)⟩

/-- all lines valid by the format definition: the loader meets exactly the data records, in file order -/
theorem records_of_spec : ∀ (ls : List (List Char)) (irs : List Hex.IRec), ls.mapM Hex.ihexLine = some irs →
    records ls = some (irs.filterMap dataOf) := by
  intro ls
  induction ls with
  | nil =>
    intro irs h
    simp only [List.mapM_nil] at h
    cases h
    rfl
  | cons l ls ih =>
    intro irs h
    rw [List.mapM_cons] at h
    cases hl : Hex.ihexLine l with
    | none => simp [hl] at h
    | some r =>
      cases hm : ls.mapM Hex.ihexLine with
      | none => simp [hl, hm] at h
      | some rs =>
        simp only [hl, hm, Option.pure_def, Option.bind_eq_bind, Option.bind_some, Option.some.injEq] at h
        subst h
        have ihr := ih rs hm
        unfold records
        rcases parseLine_spec l r hl with ⟨c, hc, hp⟩ | ⟨hc, hp⟩
        · simp [hp, ihr, hc]
        · simp [hp, ihr, hc]

/-! ## the file as a sequence of lines -/

theorem splitNL_of_splitGo : ∀ (text acc : List Char) (ls : List (List Char)), Hex.splitGo text acc = some ls →
    splitNL text acc = ls ++ [[]] := by
  intro text
  induction text with
  | nil =>
    intro acc ls h
    cases acc with
    | nil => simp only [Hex.splitGo, Option.some.injEq] at h; subst h; rfl
    | cons a as => simp [Hex.splitGo] at h
  | cons c cs ih =>
    intro acc ls h
    unfold Hex.splitGo at h
    unfold splitNL
    by_cases hc : c = '\n'
    · rw [if_pos hc] at h ⊢
      cases hs : Hex.splitGo cs [] with
      | none => simp [hs] at h
      | some ls' =>
        simp only [hs, Option.some.injEq] at h
        subst h
        rw [ih [] ls' hs]
        rfl
    · rw [if_neg hc] at h ⊢
      exact ih (c :: acc) ls h

theorem parseHex_digits : ∀ (n : Nat) (cs : List Char) (bs : List UInt8), cs.length ≤ n → Hex.parseHex cs = some bs →
    ∀ c ∈ cs, Hex.undigit c ≠ none := by
  intro n
  induction n with
  | zero =>
    intro cs bs hn _ c hc
    have : cs = [] := List.eq_nil_of_length_eq_zero (by omega)
    subst this
    cases hc
  | succ n ih =>
    intro cs bs hn h c hc
    match cs, h, hn, hc with
    | [], _, _, hc => cases hc
    | [_], h, _, _ => simp [Hex.parseHex] at h
    | a :: b :: rest, h, hn, hc =>
      unfold Hex.parseHex at h
      cases hp : Hex.parse2 a b with
      | none => simp [hp] at h
      | some y =>
        cases hr : Hex.parseHex rest with
        | none => simp [hp, hr] at h
        | some ys =>
          unfold Hex.parse2 at hp
          cases ha : Hex.undigit a with
          | none => simp [ha] at hp
          | some v =>
            cases hb : Hex.undigit b with
            | none => simp [ha, hb] at hp
            | some w =>
              rcases List.mem_cons.mp hc with rfl | hc
              · simp [ha]
              · rcases List.mem_cons.mp hc with rfl | hc
                · simp [hb]
                · exact ih rest ys (by simp only [List.length_cons] at hn; omega) hr c hc

/-- a line the format accepts does not end in a carriage return -/
theorem dropLastCR_of_spec (l : List Char) (r : Hex.IRec) (h : Hex.ihexLine l = some r) : dropLastCR l = l := by
  unfold dropLastCR
  split
  · rename_i hlast
    exfalso
    have hmem : '\r' ∈ l := List.mem_of_getLast? hlast
    match l, h, hmem with
    | [], h, _ => simp [Hex.ihexLine] at h
    | c :: rest, h, hmem =>
      by_cases hcol : c = ':'
      case neg =>
        unfold Hex.ihexLine at h
        split at h
        · rename_i heq
          exact absurd (List.cons.inj heq).1 hcol
        · cases h
      subst hcol
      unfold Hex.ihexLine at h
      simp only at h
      cases hp : Hex.parseHex rest with
      | none => simp [hp] at h
      | some bs =>
        rcases List.mem_cons.mp hmem with hh | hh
        · exact absurd hh (by decide)
        · exact parseHex_digits rest.length rest bs (Nat.le_refl _) hp '\r' hh (by decide)
  · rfl

theorem map_dropLastCR_of_spec : ∀ (ls : List (List Char)) (irs : List Hex.IRec), ls.mapM Hex.ihexLine = some irs →
    ls.map dropLastCR = ls := by
  intro ls
  induction ls with
  | nil => intro _ _; rfl
  | cons l ls ih =>
    intro irs h
    rw [List.mapM_cons] at h
    cases hl : Hex.ihexLine l with
    | none => simp [hl] at h
    | some r =>
      cases hm : ls.mapM Hex.ihexLine with
      | none => simp [hl, hm] at h
      | some rs =>
        simp only [List.map_cons, dropLastCR_of_spec l r hl, ih rs hm]

/-! ## cells of the decoded file -/

/-- no extended segment / linear address record, no data record that runs past $FFFF -/
def Plain16 (irs : List Hex.IRec) : Prop :=
  ∀ r ∈ irs, (∀ s, r ≠ .extSeg s) ∧ (∀ s, r ≠ .extLin s) ∧ (∀ off d, r = .data off d → off + d.length ≤ 65536)

theorem at_cons (off : Nat) (x : UInt8) (xs : List UInt8) (a : Nat) (b : UInt8) :
    At ⟨off, x :: xs⟩ a b ↔ (a = off ∧ b = x) ∨ At ⟨off + 1, xs⟩ a b := by
  unfold At
  simp only
  constructor
  · rintro ⟨h1, h2⟩
    by_cases ha : a = off
    · subst ha
      simp only [Nat.sub_self, List.getElem?_cons_zero, Option.some.injEq] at h2
      exact Or.inl ⟨rfl, h2.symm⟩
    · have : a - off = (a - (off + 1)) + 1 := by omega
      rw [this, List.getElem?_cons_succ] at h2
      exact Or.inr ⟨by omega, h2⟩
  · rintro (⟨rfl, rfl⟩ | ⟨h1, h2⟩)
    · exact ⟨Nat.le_refl _, by simp⟩
    · refine ⟨by omega, ?_⟩
      have : a - off = (a - (off + 1)) + 1 := by omega
      rw [this, List.getElem?_cons_succ]
      exact h2

theorem mem_ihexCells : ∀ (d : List UInt8) (off : Nat), off + d.length ≤ 65536 → ∀ (a : Nat) (b : UInt8),
    (a, b) ∈ Hex.ihexCells false 0 off d ↔ At ⟨off, d⟩ a b := by
  intro d
  induction d with
  | nil =>
    intro off _ a b
    simp only [Hex.ihexCells, List.not_mem_nil, false_iff]
    exact at_empty off a b
  | cons x xs ih =>
    intro off hlen a b
    simp only [List.length_cons] at hlen
    unfold Hex.ihexCells
    rw [List.mem_cons, at_cons, ih (off + 1) (by omega)]
    have : (0 + off % 65536) = off := by omega
    simp only [Bool.false_eq_true, if_false, this, Prod.mk.injEq]

theorem cells_of_run : ∀ (irs : List Hex.IRec) (dec : Hex.Decoded), Plain16 irs → Hex.ihexRun false 0 irs = some dec →
    ∀ (a : Nat) (b : UInt8), (a, b) ∈ dec.cells ↔ Holds (irs.filterMap dataOf) a b := by
  intro irs
  induction irs with
  | nil => intro dec _ h; simp [Hex.ihexRun] at h
  | cons r rs ih =>
    intro dec hp h a b
    have hp' : Plain16 rs := fun x hx => hp x (List.mem_cons_of_mem _ hx)
    have hr := hp r List.mem_cons_self
    cases r with
    | eof e =>
      simp only [Hex.ihexRun] at h
      split at h
      · rename_i hnil
        simp only [Option.some.injEq] at h
        subst h
        subst hnil
        simp only [List.filterMap_cons, dataOf, List.filterMap_nil, List.not_mem_nil, false_iff]
        exact holds_nil a b
      · cases h
    | data off d =>
      simp only [Hex.ihexRun] at h
      cases hrun : Hex.ihexRun false 0 rs with
      | none => simp [hrun] at h
      | some r' =>
        simp only [hrun, Option.some.injEq] at h
        subst h
        simp only [List.filterMap_cons, dataOf, List.mem_append, holds_cons]
        rw [mem_ihexCells d off (hr.2.2 off d rfl), ih r' hp' hrun]
    | extSeg s => exact absurd rfl (hr.1 s)
    | extLin s => exact absurd rfl (hr.2.1 s)
    | startSeg cs ip =>
      simp only [Hex.ihexRun] at h
      cases hrun : Hex.ihexRun false 0 rs with
      | none => simp [hrun] at h
      | some r' =>
        simp only [hrun, Option.some.injEq] at h
        subst h
        simp only [List.filterMap_cons, dataOf]
        exact ih r' hp' hrun a b
    | startLin s =>
      simp only [Hex.ihexRun] at h
      cases hrun : Hex.ihexRun false 0 rs with
      | none => simp [hrun] at h
      | some r' =>
        simp only [hrun, Option.some.injEq] at h
        subst h
        simp only [List.filterMap_cons, dataOf]
        exact ih r' hp' hrun a b

/-! ## the whole file -/

theorem mapM_mem : ∀ (ls : List (List Char)) (irs : List Hex.IRec), ls.mapM Hex.ihexLine = some irs →
    ∀ x ∈ ls, ∃ r ∈ irs, Hex.ihexLine x = some r := by
  intro ls
  induction ls with
  | nil => intro _ _ x hx; cases hx
  | cons y ys ih =>
    intro irs h x hx
    rw [List.mapM_cons] at h
    cases hy : Hex.ihexLine y with
    | none => simp [hy] at h
    | some r =>
      cases hm : ys.mapM Hex.ihexLine with
      | none => simp [hy, hm] at h
      | some rs =>
        simp only [hy, hm, Option.pure_def, Option.bind_eq_bind, Option.bind_some, Option.some.injEq] at h
        subst h
        rcases List.mem_cons.mp hx with rfl | hx
        · exact ⟨r, List.mem_cons_self, hy⟩
        · obtain ⟨r', hr', hx'⟩ := ih rs hm x hx
          exact ⟨r', List.mem_cons_of_mem _ hr', hx'⟩

theorem mapM_append_last (ls : List (List Char)) (irs : List Hex.IRec) (h : ls.mapM Hex.ihexLine = some irs)
    (l : List Char) (hl : ls.getLast? = some l) :
    ∃ r, r ∈ irs ∧ (ls ++ [l]).mapM Hex.ihexLine = some (irs ++ [r]) := by
  have hmem : l ∈ ls := List.mem_of_getLast? hl
  obtain ⟨r, hr, hlr⟩ := mapM_mem ls irs h l hmem
  refine ⟨r, hr, ?_⟩
  rw [List.mapM_append]
  simp [h, hlr]

/-- the rounds of the read loop for a file whose lines are all valid and terminated: every line, then the last line once more
(the stale buffer after the failing `fgets`) -/
theorem fileLines_of_spec (text : List Char) (ls : List (List Char)) (irs : List Hex.IRec)
    (hl : Hex.splitLines text = some ls) (hr : ls.mapM Hex.ihexLine = some irs) (hne : ls ≠ [])
    (hshort : ∀ l ∈ ls, l.length + 2 ≤ lineBuf) :
    ∃ l, ls.getLast? = some l ∧ fileLines text = some (ls ++ [l]) := by
  have hraw : splitNL text [] = ls ++ [[]] := splitNL_of_splitGo text [] ls hl
  have htext : text ≠ [] := by
    intro h
    subst h
    simp only [Hex.splitLines, Hex.splitGo, Option.some.injEq] at hl
    exact hne hl.symm
  obtain ⟨l, hlast⟩ : ∃ l, ls.getLast? = some l := by
    cases h : ls.getLast? with
    | none => exact absurd (List.getLast?_eq_none_iff.mp h) hne
    | some l => exact ⟨l, rfl⟩
  refine ⟨l, hlast, ?_⟩
  have hany : (ls ++ [[]]).any (fun l => decide (l.length + 2 > lineBuf)) = false := by
    rw [List.any_eq_false]
    intro x hx
    rcases List.mem_append.mp hx with hx | hx
    · have := hshort x hx
      simp only [decide_eq_true_eq]; omega
    · have : x = [] := by simpa using hx
      subst this
      simp [lineBuf]
  have hdl : (ls ++ [[]]).dropLast = ls := List.dropLast_concat
  have hgl : (ls ++ [([] : List Char)]).getLast? = some [] := by simp
  have hmap : ls.map dropLastCR = ls := map_dropLastCR_of_spec ls irs hr
  obtain ⟨r, _, hlr⟩ := mapM_mem ls irs hr l (List.mem_of_getLast? hlast)
  have hcr : dropLastCR l = l := dropLastCR_of_spec l r hlr
  unfold fileLines
  rw [if_neg htext]
  simp only [hraw, hany, hdl, hgl, hmap, hlast, hcr]
  simp

theorem holds_filterMap_snoc (irs : List Hex.IRec) (r : Hex.IRec) (hr : r ∈ irs) (a : Nat) (b : UInt8) :
    Holds ((irs ++ [r]).filterMap dataOf) a b ↔ Holds (irs.filterMap dataOf) a b := by
  constructor
  · rintro ⟨c, hc, hat⟩
    refine ⟨c, ?_, hat⟩
    rw [List.mem_filterMap] at hc ⊢
    obtain ⟨x, hx, hxc⟩ := hc
    rcases List.mem_append.mp hx with hx | hx
    · exact ⟨x, hx, hxc⟩
    · have : x = r := by simpa using hx
      subst this
      exact ⟨x, hr, hxc⟩
  · rintro ⟨c, hc, hat⟩
    refine ⟨c, ?_, hat⟩
    rw [List.mem_filterMap] at hc ⊢
    obtain ⟨x, hx, hxc⟩ := hc
    exact ⟨x, List.mem_append_left _ hx, hxc⟩

end AslModel.Dis.HexLoad
