import AslModel.Model.SymStack
/-! Definitions and helper lemmas for `Props/C03_Stacks.lean`: the `strcmp` order, the invariant of `FirstStack`
(`Inv`: no record without entries, strictly ascending names), its preservation by the two list walks, and the
abstraction `contentsOf` (what is stored under a name). -/
namespace AslModel.SymStack
open AslModel.SymStackSpec (Name Val Sym Stmt)

/-! ### `strcmp` order -/

theorem strcmpLt_irrefl (a : Name) : strcmpLt a a = false := by
  induction a with
  | nil => rfl
  | cons x r ih => simp [strcmpLt, ih]

theorem strcmpLt_trans (a b c : Name) (h1 : strcmpLt a b = true) (h2 : strcmpLt b c = true) : strcmpLt a c = true := by
  induction a generalizing b c with
  | nil =>
    cases b with
    | nil => simp [strcmpLt] at h1
    | cons y s =>
      cases c with
      | nil => simp [strcmpLt] at h2
      | cons z t => simp [strcmpLt]
  | cons x r ih =>
    cases b with
    | nil => simp [strcmpLt] at h1
    | cons y s =>
      cases c with
      | nil => simp [strcmpLt] at h2
      | cons z t =>
        simp only [strcmpLt, Bool.or_eq_true, Bool.and_eq_true, decide_eq_true_eq, beq_iff_eq] at h1 h2 ⊢
        rcases h1 with h1 | ⟨e1, h1⟩
        · rcases h2 with h2 | ⟨e2, _⟩
          · left; omega
          · left; omega
        · rcases h2 with h2 | ⟨e2, h2⟩
          · left; omega
          · right; exact ⟨by omega, ih s t h1 h2⟩

/-- `strcmp(a, b) == 0` iff neither is smaller -/
theorem strcmp_eq_of_not_lt (a b : Name) (h1 : strcmpLt a b = false) (h2 : strcmpLt b a = false) : a = b := by
  induction a generalizing b with
  | nil =>
    cases b with
    | nil => rfl
    | cons y s => simp [strcmpLt] at h1
  | cons x r ih =>
    cases b with
    | nil => simp [strcmpLt] at h2
    | cons y s =>
      simp only [strcmpLt, Bool.or_eq_false_iff, Bool.and_eq_false_iff, decide_eq_false_iff_not, beq_eq_false_iff_ne] at h1 h2
      have hxy : x = y := by omega
      subst hxy
      have hr : strcmpLt r s = false := by
        rcases h1.2 with h | h
        · exact absurd rfl h
        · exact h
      have hs : strcmpLt s r = false := by
        rcases h2.2 with h | h
        · exact absurd rfl h
        · exact h
      rw [ih s hr hs]

/-! ### the invariant of `FirstStack` -/

/-- every record has at least one entry -/
def NoEmptyRecord (l : List Node) : Prop := ∀ n ∈ l, n.contents ≠ []

/-- the next record (if any) has a greater name -/
def HeadGt (a : Name) : List Node → Prop
  | [] => True
  | b :: _ => strcmpLt a b.name = true

/-- strictly ascending `strcmp` order -/
def Sorted : List Node → Prop
  | [] => True
  | a :: r => HeadGt a.name r ∧ Sorted r

structure Inv (l : List Node) : Prop where
  noEmpty : NoEmptyRecord l
  sorted : Sorted l

theorem inv_nil : Inv [] := ⟨(by intro n h; cases h), trivial⟩

theorem pushInto_noEmpty (l : List Node) (k : Name) (v : Val) (h : NoEmptyRecord l) : NoEmptyRecord (pushInto l k v) := by
  induction l with
  | nil =>
    intro n hn
    simp [pushInto] at hn
    subst hn
    simp
  | cons a r ih =>
    have hr : NoEmptyRecord r := fun n hn => h n (List.mem_cons_of_mem _ hn)
    have ha : a.contents ≠ [] := h a (List.mem_cons_self ..)
    unfold pushInto
    split
    · intro n hn
      rcases List.mem_cons.mp hn with e | hn
      · subst e; exact ha
      · exact ih hr n hn
    · split
      · intro n hn
        rcases List.mem_cons.mp hn with e | hn
        · subst e; simp
        · exact h n hn
      · intro n hn
        rcases List.mem_cons.mp hn with e | hn
        · subst e; simp
        · exact hr n hn

theorem pushInto_headGt (l : List Node) (a k : Name) (v : Val) (h : HeadGt a l) (hk : strcmpLt a k = true) :
    HeadGt a (pushInto l k v) := by
  cases l with
  | nil => simpa [pushInto, HeadGt] using hk
  | cons b r =>
    unfold pushInto
    split
    · exact h
    · split
      · exact hk
      · exact h

theorem pushInto_sorted (l : List Node) (k : Name) (v : Val) (h : Sorted l) : Sorted (pushInto l k v) := by
  induction l with
  | nil => exact ⟨trivial, trivial⟩
  | cons a r ih =>
    unfold pushInto
    split
    · rename_i hlt
      exact ⟨pushInto_headGt r a.name k v h.1 hlt, ih h.2⟩
    · split
      · rename_i hgt
        exact ⟨hgt, h⟩
      · exact ⟨h.1, h.2⟩

theorem pushInto_inv (l : List Node) (k : Name) (v : Val) (h : Inv l) : Inv (pushInto l k v) :=
  ⟨pushInto_noEmpty l k v h.noEmpty, pushInto_sorted l k v h.sorted⟩

theorem headGt_of_sorted_tail (a : Name) (b : Node) (r : List Node) (h : strcmpLt a b.name = true) (hs : Sorted (b :: r)) :
    HeadGt a r := by
  cases r with
  | nil => trivial
  | cons c t => exact strcmpLt_trans a b.name c.name h hs.1

theorem popFrom_inv (acc : Val → Bool) (l : List Node) (k : Name) (v : Val) (l' : List Node) (h : Inv l)
    (hp : popFrom acc l k = .popped v l') : Inv l' ∧ (∀ a, HeadGt a l → HeadGt a l') := by
  induction l generalizing l' with
  | nil => simp [popFrom] at hp
  | cons b r ih =>
    have hr : Inv r := ⟨fun n hn => h.noEmpty n (List.mem_cons_of_mem _ hn), h.sorted.2⟩
    unfold popFrom at hp
    split at hp
    · -- walk on
      cases hq : popFrom acc r k with
      | popped w s =>
        rw [hq] at hp
        simp only [PopRes.popped.injEq] at hp
        obtain ⟨rfl, rfl⟩ := hp
        obtain ⟨hi, hh⟩ := ih s hr hq
        refine ⟨⟨?_, ⟨hh b.name h.sorted.1, hi.sorted⟩⟩, fun a ha => ha⟩
        intro n hn
        rcases List.mem_cons.mp hn with e | hn
        · subst e; exact h.noEmpty _ (List.mem_cons_self ..)
        · exact hi.noEmpty n hn
      | notFound => rw [hq] at hp; cases hp
      | null => rw [hq] at hp; cases hp
      | refused => rw [hq] at hp; cases hp
    · split at hp
      · cases hp
      · split at hp
        · cases hp
        · rename_i w rest hc
          split at hp
          · cases hp
          · simp only [PopRes.popped.injEq] at hp
            obtain ⟨_, rfl⟩ := hp
            by_cases he : rest.isEmpty = true
            · simp only [he, if_true]
              exact ⟨hr, fun a ha => headGt_of_sorted_tail a b r ha h.sorted⟩
            · simp only [he]
              refine ⟨⟨?_, ⟨h.sorted.1, h.sorted.2⟩⟩, fun a ha => ha⟩
              intro n hn
              rcases List.mem_cons.mp hn with e | hn
              · subst e
                intro hc2
                apply he
                simp only at hc2
                simp [hc2]
              · exact hr.noEmpty n hn

/-- the walk of `PopSymbol` never meets a record without entries -/
theorem popFrom_not_null (acc : Val → Bool) (l : List Node) (k : Name) (h : NoEmptyRecord l) : popFrom acc l k ≠ .null := by
  induction l with
  | nil => simp [popFrom]
  | cons b r ih =>
    have hr : NoEmptyRecord r := fun n hn => h n (List.mem_cons_of_mem _ hn)
    have hb : b.contents ≠ [] := h b (List.mem_cons_self ..)
    unfold popFrom
    split
    · cases hq : popFrom acc r k with
      | popped w s => simp
      | notFound => simp
      | refused => simp
      | null => exact absurd hq (ih hr)
    · split
      · simp
      · split
        · rename_i hc; exact absurd hc hb
        · split <;> simp

/-! ### statements -/

theorem pushSymbol_inv (st : St) (x k : Name) (h : Inv st.stacks) : Inv (pushSymbol st x k).stacks := by
  unfold pushSymbol
  split
  · exact h
  · split
    · exact h
    · exact pushInto_inv _ _ _ h

theorem pushList_inv (xs : List Name) (k : Name) (st : St) (h : Inv st.stacks) :
    Inv (xs.foldl (fun s x => pushSymbol s x k) st).stacks := by
  induction xs generalizing st with
  | nil => exact h
  | cons x r ih => exact ih _ (pushSymbol_inv st x k h)

theorem popSymbol_ok (st : St) (x k : Name) (h : Inv st.stacks) :
    ∃ st', popSymbol st x k = .ok st' ∧ Inv st'.stacks := by
  unfold popSymbol
  split
  · exact ⟨_, rfl, h⟩
  · rename_i s _
    split
    · exact ⟨_, rfl, h⟩
    · cases hq : popFrom (fun v => s.changeable || sameValue s.val v) st.stacks (stackNameOf st.cs k) with
      | notFound => exact ⟨_, rfl, h⟩
      | refused => exact ⟨_, rfl, h⟩
      | null => exact absurd hq (popFrom_not_null _ _ _ h.noEmpty)
      | popped v l' => exact ⟨_, rfl, (popFrom_inv _ _ _ _ _ h hq).1⟩

theorem popList_ok (xs : List Name) (k : Name) (st : St) (h : Inv st.stacks) :
    ∃ st', popList st k xs = .ok st' ∧ Inv st'.stacks := by
  induction xs generalizing st with
  | nil => exact ⟨st, rfl, h⟩
  | cons x r ih =>
    obtain ⟨st1, e1, h1⟩ := popSymbol_ok st x k h
    obtain ⟨st2, e2, h2⟩ := ih st1 h1
    exact ⟨st2, by simp [popList, e1, e2], h2⟩

/-! ### the list walks implement named LIFO stacks -/

/-- what is stored under a name (first record of that name) -/
def contentsOf : List Node → Name → List Val
  | [], _ => []
  | n :: r, k => if n.name = k then n.contents else contentsOf r k

theorem contentsOf_of_headGt (l : List Node) (k : Name) (hs : Sorted l) (hg : HeadGt k l) : contentsOf l k = [] := by
  induction l with
  | nil => rfl
  | cons b r ih =>
    have hne : b.name ≠ k := by
      intro e
      have : strcmpLt k b.name = true := hg
      rw [e, strcmpLt_irrefl] at this
      cases this
    simp only [contentsOf, hne, if_false]
    exact ih hs.2 (headGt_of_sorted_tail k b r hg hs)


end AslModel.SymStack
