import AslModel.Lemmas.CodeFile
/-!
Refinement of the byte machine (L1: `fseek`/back-patching/512-byte buffer of `asmcode.c`) to the
record machine (L2): the bytes on disk plus the bytes still in `CodeBuffer` are always the long
serialisation of the closed records followed by the open record's header (length field 0) and its
payload so far.
-/
namespace AslModel.CodeFile
open AslModel.PFile

def hdr10 (c : Ctx) (start len : Nat) : List Byte := [0x81, c.cpu, c.seg, c.gran] ++ le32 start ++ le16 len

theorem hdr10_length (c : Ctx) (a l : Nat) : (hdr10 c a l).length = 10 := by simp [hdr10, le32, le16]
@[simp] theorem le32_length (a : Nat) : (le32 a).length = 4 := rfl
@[simp] theorem le16_length (a : Nat) : (le16 a).length = 2 := rfl

def closedBytes (rs : List Rec) : List Byte := (rs.map serLong).flatten

theorem closedBytes_append (a b : List Rec) : closedBytes (a ++ b) = closedBytes a ++ closedBytes b := by
  simp [closedBytes]

theorem closedBytes_single (r : Rec) : closedBytes [r] = serLong r := by simp [closedBytes]

theorem serLong_mkRec (c : Ctx) (a : Nat) (d : List Byte) : serLong (mkRec c a d) = hdr10 c a d.length ++ d := by
  simp [serLong, mkRec, hdr10]

/-! ### `writeAt` facts -/

theorem writeAt_end (f bs : List Byte) : writeAt f f.length bs = f ++ bs := by
  simp [writeAt]

theorem writeAt_append_mid (pre mid post bs : List Byte) (h : bs.length = mid.length) :
    writeAt (pre ++ mid ++ post) pre.length bs = pre ++ bs ++ post := by
  simp [writeAt, h, List.drop_append]

theorem writeAt_tail (pre old bs : List Byte) (h : old.length ≤ bs.length) :
    writeAt (pre ++ old) pre.length bs = pre ++ bs := by
  simp only [writeAt, List.take_left']
  have : (pre ++ old).drop (pre.length + bs.length) = [] := by
    apply List.drop_eq_nil_of_le; simp; omega
  simp [this]

theorem writeAt_pre (pre rest bs : List Byte) :
    writeAt (pre ++ rest) pre.length bs = pre ++ bs ++ rest.drop bs.length := by
  simp [writeAt, List.drop_append]

/-- two consecutive writes are one write of the concatenation -/
theorem writeAt_writeAt (f : List Byte) (p : Nat) (a b : List Byte) (hp : p ≤ f.length) :
    writeAt (writeAt f p a) (p + a.length) b = writeAt f p (a ++ b) := by
  have hf : f = f.take p ++ f.drop p := (List.take_append_drop p f).symm
  have hl : (f.take p).length = p := by simp [List.length_take]; omega
  generalize f.take p = pre at hf hl
  generalize f.drop p = rest at hf
  subst hf; subst hl
  rw [writeAt_pre, writeAt_pre]
  have : pre.length + a.length = (pre ++ a).length := by simp
  rw [this, List.append_assoc pre a, ← List.append_assoc, writeAt_pre]
  simp [List.drop_drop, List.append_assoc]

/-- header (4 bytes), start (4 bytes) and length (2 bytes) written one after the other -/
theorem write3 (f : List Byte) (p : Nat) (hp : p ≤ f.length) (cpu sg gr : Byte) (a l : Nat) :
    writeAt (writeAt (writeAt f p [0x81, cpu, sg, gr]) (p + 4) (le32 a)) (p + 4 + 4) (le16 l)
      = writeAt f p ([0x81, cpu, sg, gr] ++ le32 a ++ le16 l) := by
  have h1 := writeAt_writeAt f p [0x81, cpu, sg, gr] (le32 a) hp
  simp only [List.length_cons, List.length_nil] at h1
  rw [h1]
  have h2 := writeAt_writeAt f p ([0x81, cpu, sg, gr] ++ le32 a) (le16 l) hp
  have hl : ([0x81, cpu, sg, gr] ++ le32 a).length = 4 + 4 := by simp [le32]
  rw [hl, ← Nat.add_assoc] at h2
  exact h2

/-! ### the refinement relation -/

structure Rel (m : B) (s : St) : Prop where
  bytes : m.file ++ m.buf = magic ++ closedBytes s.closed ++ hdr10 s.octx s.ostart 0 ++ s.odata
  fpos : m.fpos = m.file.length
  recPos : m.recPos = 2 + (closedBytes s.closed).length
  lenPos : m.lenPos = m.recPos + 8
  lenSoFar : m.lenSoFar = s.odata.length
  small : s.odata.length ≤ 65535
  bufLen : m.buf.length ≤ s.odata.length
  ctx : m.ctx = s.ctx
  pc : m.pc = s.pc

theorem magic_length : magic.length = 2 := rfl

/-- after `FlushBuffer` the same relation holds with an empty buffer -/
theorem flush_rel (m : B) (s : St) (h : Rel m s) : Rel (flushBuffer m) s ∧ (flushBuffer m).buf = [] := by
  unfold flushBuffer
  split
  · refine ⟨⟨?_, ?_, h.recPos, h.lenPos, h.lenSoFar, h.small, by simp, h.ctx, h.pc⟩, rfl⟩
    · simp only [fwrite, h.fpos, writeAt_end, List.append_nil]; exact h.bytes
    · simp [fwrite, h.fpos, writeAt_end]
  · rename_i hb
    have : m.buf = [] := by
      cases hbuf : m.buf with
      | nil => rfl
      | cons x xs => simp [hbuf] at hb
    exact ⟨h, this⟩

/-- `NewRecord(nstart)` on related states -/
theorem newRecord_rel (m : B) (s : St) (nstart : Nat) (h : Rel m s) :
    Rel (bNewRecord m nstart) (newRecord s nstart) := by
  obtain ⟨hf, hbuf⟩ := flush_rel m s h
  unfold bNewRecord
  simp only
  generalize hm1 : flushBuffer m = m1 at hf hbuf
  have hb := hf.bytes
  rw [hbuf, List.append_nil] at hb
  by_cases hz : m1.lenSoFar = 0
  · -- empty open record: its header is overwritten in place
    simp only [hz, if_true]
    have hod : s.odata = [] := by
      have := hf.lenSoFar; rw [hz] at this
      exact List.eq_nil_of_length_eq_zero this.symm
    have hnr : newRecord s nstart = { s with octx := s.ctx, ostart := nstart } := by
      unfold newRecord; simp [hod]
    rw [hnr]
    have hfile : m1.file = (magic ++ closedBytes s.closed) ++ hdr10 s.octx s.ostart 0 := by
      rw [hb, hod]; simp
    have hrp : m1.recPos = (magic ++ closedBytes s.closed).length := by
      rw [hf.recPos]; simp [magic_length] <;> omega
    have hwr : ∀ (w : List Byte), w.length = 10 →
        writeAt m1.file m1.recPos w = (magic ++ closedBytes s.closed) ++ w := by
      intro w hw
      rw [hfile, hrp]
      exact writeAt_tail _ _ _ (by simp [hdr10_length, hw])
    have hrple : m1.recPos ≤ m1.file.length := by rw [hfile, hrp]; simp
    have key : ∀ (cpu sg gr : Byte),
        writeAt (writeAt (writeAt m1.file m1.recPos [0x81, cpu, sg, gr]) (m1.recPos + 4) (le32 nstart)) (m1.recPos + 4 + 4) (le16 0)
          = (magic ++ closedBytes s.closed) ++ ([0x81, cpu, sg, gr] ++ le32 nstart ++ le16 0) := by
      intro cpu sg gr
      rw [write3 _ _ hrple]
      exact hwr _ (by simp [le32, le16])
    refine ⟨?_, ?_, ?_, ?_, ?_, ?_, ?_, ?_, ?_⟩
    · simp only [wrRecHeader, fwrite, fseek, hbuf, hz, List.append_nil, hod]
      have := key m1.ctx.cpu m1.ctx.seg m1.ctx.gran
      simp only [List.length_cons, List.length_nil, le32_length, le16_length] at this ⊢
      rw [this]
      simp [hdr10, hf.ctx, le32, List.append_assoc]
    · simp only [wrRecHeader, fwrite, fseek, hz]
      have := key m1.ctx.cpu m1.ctx.seg m1.ctx.gran
      simp only [List.length_cons, List.length_nil, le32_length, le16_length] at this ⊢
      rw [this]
      simp [hrp, le32, le16] <;> omega
    · simp [wrRecHeader, fwrite, fseek, hf.recPos]
    · simp [wrRecHeader, fwrite, fseek, le32]
    · simp [wrRecHeader, fwrite, fseek, hz, hod]
    · simp [hod]
    · simp [wrRecHeader, fwrite, fseek, hbuf]
    · simp [wrRecHeader, fwrite, fseek, hf.ctx]
    · simp [wrRecHeader, fwrite, fseek, hf.pc]
  · -- non-empty open record: back-patch its length, append a new header
    simp only [hz, if_false]
    have hod : s.odata ≠ [] := by
      intro he; apply hz; rw [hf.lenSoFar, he]; rfl
    have hnr : newRecord s nstart =
        { s with closed := s.closed ++ [mkRec s.octx s.ostart s.odata], octx := s.ctx, ostart := nstart, odata := [] } := by
      unfold newRecord; simp [hod]
    rw [hnr]
    -- file = pre ++ (8 header bytes) ++ (2 length bytes) ++ odata
    let pre := magic ++ closedBytes s.closed ++ ([0x81, s.octx.cpu, s.octx.seg, s.octx.gran] ++ le32 s.ostart)
    have hfile : m1.file = pre ++ le16 0 ++ s.odata := by
      rw [hb]; simp [pre, hdr10, List.append_assoc]
    have hlp : m1.lenPos = pre.length := by
      rw [hf.lenPos, hf.recPos]; simp [pre, magic_length, le32]; omega
    have hpatch : writeAt m1.file m1.lenPos (le16 m1.lenSoFar) = pre ++ le16 s.odata.length ++ s.odata := by
      rw [hfile, hlp, hf.lenSoFar]
      exact writeAt_append_mid pre (le16 0) s.odata (le16 s.odata.length) (by simp [le16])
    have hlen : (writeAt m1.file m1.lenPos (le16 m1.lenSoFar)).length = m1.file.length := by
      rw [hpatch, hfile]; simp [le16]
    have hser : pre ++ le16 s.odata.length ++ s.odata
        = magic ++ closedBytes (s.closed ++ [mkRec s.octx s.ostart s.odata]) := by
      simp [pre, closedBytes_append, closedBytes, serLong_mkRec, hdr10, List.append_assoc]
    -- appended header
    have happ : ∀ (f : List Byte) (cpu sg gr : Byte),
        writeAt (writeAt (writeAt f f.length [0x81, cpu, sg, gr]) (f.length + 4) (le32 nstart)) (f.length + 4 + 4) (le16 0)
          = f ++ ([0x81, cpu, sg, gr] ++ le32 nstart ++ le16 0) := by
      intro f cpu sg gr
      rw [write3 _ _ (Nat.le_refl _), writeAt_end]
    refine ⟨?_, ?_, ?_, ?_, ?_, ?_, ?_, ?_, ?_⟩
    · simp only [wrRecHeader, fwrite, fseek, hbuf, List.append_nil]
      rw [hf.fpos]
      have := happ (writeAt m1.file m1.lenPos (le16 m1.lenSoFar)) m1.ctx.cpu m1.ctx.seg m1.ctx.gran
      rw [hlen] at this
      simp only [List.length_cons, List.length_nil, le32_length, le16_length] at this ⊢
      rw [this, hpatch, hser]
      simp [hdr10, hf.ctx, le32, le16, List.append_assoc]
    · simp only [wrRecHeader, fwrite, fseek]
      rw [hf.fpos]
      have := happ (writeAt m1.file m1.lenPos (le16 m1.lenSoFar)) m1.ctx.cpu m1.ctx.seg m1.ctx.gran
      rw [hlen] at this
      simp only [List.length_cons, List.length_nil, le32_length, le16_length] at this ⊢
      rw [this]
      simp only [List.length_append, List.length_cons, List.length_nil, le32_length, le16_length, hlen]
    · simp only [wrRecHeader, fwrite, fseek]
      rw [hf.fpos, hb]
      simp only [closedBytes_append, closedBytes_single, serLong_mkRec, List.length_append, hdr10_length, magic_length]
      omega
    · simp [wrRecHeader, fwrite, fseek, le32]
    · simp [wrRecHeader, fwrite, fseek]
    · simp
    · simp [wrRecHeader, fwrite, fseek, hbuf]
    · simp [wrRecHeader, fwrite, fseek, hf.ctx]
    · simp [wrRecHeader, fwrite, fseek, hf.pc]

end AslModel.CodeFile

namespace AslModel.CodeFile
open AslModel.PFile

theorem bBuffer_lenSoFar (m : B) (bs : List Byte) : (bBuffer m bs).lenSoFar = m.lenSoFar := by
  unfold bBuffer flushBuffer fwrite
  split
  · rfl
  · split <;> split <;> rfl

/-- appending `bs` to the open record: the three buffer cases of `WriteBytes` -/
theorem buffer_rel (m : B) (s : St) (bs : List Byte) (h : Rel m s) (hfit : s.odata.length + bs.length ≤ 65535) :
    Rel { bBuffer m bs with lenSoFar := m.lenSoFar + bs.length } { s with odata := s.odata ++ bs } := by
  obtain ⟨hf, hbuf⟩ := flush_rel m s h
  unfold bBuffer
  split
  · exact ⟨by simp [← List.append_assoc, h.bytes], h.fpos, h.recPos, h.lenPos, by simp [h.lenSoFar],
      by simpa using hfit, by have := h.bufLen; simp; omega, h.ctx, h.pc⟩
  · simp only
    split
    · have hb := hf.bytes
      rw [hbuf, List.append_nil] at hb
      exact ⟨by simp [hb, List.append_assoc], hf.fpos, hf.recPos, hf.lenPos, by simp [h.lenSoFar],
        by simpa using hfit, by simp, hf.ctx, hf.pc⟩
    · have hb := hf.bytes
      rw [hbuf, List.append_nil] at hb
      refine ⟨?_, ?_, hf.recPos, hf.lenPos, by simp [fwrite, h.lenSoFar], by simpa using hfit, ?_, hf.ctx, hf.pc⟩
      · simp only [fwrite, hf.fpos, writeAt_end, hbuf, List.append_nil]
        rw [hb]; simp [List.append_assoc]
      · simp [fwrite, hf.fpos, writeAt_end]
      · simp [fwrite, hbuf]

theorem emit_rel (m : B) (s : St) (bs : List Byte) (h : Rel m s) (hb : bs.length ≤ 65535) :
    Rel (bstep m (.emit bs)) (step s (.emit bs)) := by
  have hctx : m.ctx = s.ctx := h.ctx
  by_cases h0 : bs.length = 0
  · have hnil : bs = [] := List.eq_nil_of_length_eq_zero h0
    subst hnil
    have : ¬ s.odata.length + 0 > 65535 := by have := h.small; omega
    simp only [bstep, step, bWriteBytes, List.length_nil, if_true, List.append_nil, Nat.zero_div, this, if_false]
    exact ⟨h.bytes, h.fpos, h.recPos, h.lenPos, h.lenSoFar, h.small, h.bufLen, h.ctx, by simp [h.pc]⟩
  · have hmod : bs.length % 65536 = bs.length := Nat.mod_eq_of_lt (by omega)
    by_cases hov : s.odata.length + bs.length > 65535
    · have hov' : m.lenSoFar + bs.length > 0xffff := by rw [h.lenSoFar]; exact hov
      have hr := newRecord_rel m s m.pc h
      rw [h.pc] at hr
      have hod : (newRecord s s.pc).odata = [] := by simp
      have hbr := buffer_rel _ _ bs hr (by rw [hod]; simpa using hb)
      have hl : (bNewRecord m s.pc).lenSoFar = 0 := by rw [hr.lenSoFar, hod]; rfl
      have hlt : ((bBuffer (bNewRecord m s.pc) bs).lenSoFar + bs.length) % 65536 = (bNewRecord m s.pc).lenSoFar + bs.length := by
        rw [bBuffer_lenSoFar, hl]; simpa using hmod
      simp only [bstep, step, bWriteBytes, h0, if_false, hmod, List.take_length, hov, hov', if_true, h.pc, hlt]
      exact ⟨hbr.bytes, hbr.fpos, hbr.recPos, hbr.lenPos, hbr.lenSoFar, hbr.small, hbr.bufLen,
        by have := hbr.ctx; simpa using this, by simp [hctx]⟩
    · have hov' : ¬ m.lenSoFar + bs.length > 0xffff := by rw [h.lenSoFar]; exact hov
      have hbr := buffer_rel m s bs h (by omega)
      have hlt : ((bBuffer m bs).lenSoFar + bs.length) % 65536 = m.lenSoFar + bs.length := by
        rw [bBuffer_lenSoFar, h.lenSoFar]; exact Nat.mod_eq_of_lt (by omega)
      simp only [bstep, step, bWriteBytes, h0, if_false, hmod, List.take_length, hov, hov', hlt]
      exact ⟨hbr.bytes, hbr.fpos, hbr.recPos, hbr.lenPos, hbr.lenSoFar, hbr.small, hbr.bufLen,
        by have := hbr.ctx; simpa using this, by simp [h.pc, hctx]⟩

theorem jump_rel (m : B) (s : St) (c : Ctx) (pc : Nat) (h : Rel m s) :
    Rel (bstep m (.jump c pc)) (step s (.jump c pc)) := by
  simp only [bstep, step]
  have h0 : Rel { m with ctx := c } { s with ctx := c } :=
    ⟨h.bytes, h.fpos, h.recPos, h.lenPos, h.lenSoFar, h.small, h.bufLen, rfl, h.pc⟩
  have hr := newRecord_rel _ _ pc h0
  exact ⟨hr.bytes, hr.fpos, hr.recPos, hr.lenPos, hr.lenSoFar, hr.small, hr.bufLen, hr.ctx, rfl⟩

/-- every statement hands at most 65535 bytes to `WriteBytes` -/
def EvsSmall : List Ev → Prop
  | [] => True
  | .emit bs :: evs => bs.length ≤ 65535 ∧ EvsSmall evs
  | .jump _ _ :: evs => EvsSmall evs

theorem run_rel (evs : List Ev) (m : B) (s : St) (h : Rel m s) (hs : EvsSmall evs) :
    Rel (brun m evs) (run s evs) := by
  induction evs generalizing m s with
  | nil => simpa [brun, run] using h
  | cons e es ih =>
    have hb : brun m (e :: es) = brun (bstep m e) es := rfl
    have hr : run s (e :: es) = run (step s e) es := rfl
    rw [hb, hr]
    cases e with
    | emit bs => simp only [EvsSmall] at hs; exact ih _ _ (emit_rel m s bs h hs.1) hs.2
    | jump c pc => simp only [EvsSmall] at hs; exact ih _ _ (jump_rel m s c pc h) hs

theorem open_rel (c : Ctx) (pc : Nat) : Rel (bOpenFile c pc) (init c pc) := by
  have hm : le16 Generated.fileMagic = magic := by decide
  -- state right after the magic word; `NewRecord` then "overwrites" the (not yet existing) header at RecPos = 2
  have h0 : Rel { file := magic, fpos := 2, recPos := 2, lenPos := 0, lenSoFar := 0, ctx := c, pc := pc, buf := [] }
      { closed := [], octx := c, ostart := pc, odata := [], ctx := c, pc := pc } → True := fun _ => trivial
  unfold bOpenFile
  simp only [fwrite, writeAt, List.take_zero, List.drop_zero, List.nil_append, Nat.zero_add, hm, List.append_nil]
  unfold bNewRecord flushBuffer
  simp only [List.length_nil, Nat.lt_irrefl, if_false, if_true, wrRecHeader, fwrite, fseek]
  have key := write3 magic 2 (by decide) c.cpu c.seg c.gran pc 0
  have hwe : writeAt magic 2 ([0x81, c.cpu, c.seg, c.gran] ++ le32 pc ++ le16 0) = magic ++ hdr10 c pc 0 := by
    have := writeAt_end magic ([0x81, c.cpu, c.seg, c.gran] ++ le32 pc ++ le16 0)
    simpa [magic_length, hdr10] using this
  simp only [List.length_cons, List.length_nil, le32_length, le16_length, magic_length, List.drop_nil, List.append_nil,
    Nat.zero_add, Nat.reduceAdd] at key ⊢
  refine ⟨?_, ?_, ?_, ?_, ?_, ?_, ?_, rfl, rfl⟩
  · simp only [List.append_nil]
    rw [key, hwe]
    simp [init, closedBytes]
  · rw [key, hwe]; simp [hdr10_length, magic_length]
  · simp [init, closedBytes]
  · rfl
  · simp [init]
  · simp [init]
  · simp [init]

end AslModel.CodeFile

namespace AslModel.CodeFile
open AslModel.PFile

theorem items_bytes (rs : List Rec) (tl : List Item) :
    ((rs.map Item.data ++ tl).map serItemLong).flatten = closedBytes rs ++ (tl.map serItemLong).flatten := by
  induction rs with
  | nil => simp [closedBytes]
  | cons r rs ih =>
    simp only [List.map_cons, List.cons_append, List.flatten_cons, serItemLong, closedBytes] at ih ⊢
    rw [ih]; simp [List.append_assoc]

/-- `CloseFile` on related states produces the long serialisation of the finished record list -/
theorem close_rel (m : B) (s : St) (entry : Option Nat) (creator : List Byte) (h : Rel m s)
    (hlen : 10 ≤ (match entry with | some _ => 5 | none => 0) + 1 + creator.length) :
    bCloseFile m entry creator = serFileLong (finishItems s entry) creator := by
  have hr := newRecord_rel m s m.pc h
  rw [h.pc] at hr
  generalize hm1 : bNewRecord m s.pc = m1 at hr
  have hod : (newRecord s s.pc).odata = [] := by simp
  have hbuf : m1.buf = [] := by
    have := hr.bufLen; rw [hod] at this
    exact List.eq_nil_of_length_eq_zero (by simpa using this)
  have hb := hr.bytes
  rw [hbuf, hod, List.append_nil, List.append_nil] at hb
  have hrp : m1.recPos = (magic ++ closedBytes (newRecord s s.pc).closed).length := by
    rw [hr.recPos]; simp [magic_length]
  have hrple : m1.recPos ≤ m1.file.length := by rw [hb, hrp]; simp
  unfold bCloseFile
  rw [h.pc, hm1]
  cases entry with
  | none =>
    simp only [fseek, fwrite, List.length_cons, List.length_nil]
    have h2 := writeAt_writeAt m1.file m1.recPos [0x00] creator hrple
    simp only [List.length_cons, List.length_nil] at h2
    rw [h2, hb, hrp]
    rw [writeAt_tail _ _ _ (by rw [hdr10_length]; simp at hlen ⊢; omega)]
    simp only [serFileLong, finishItems, finish]
    rw [items_bytes]
    simp [List.append_assoc]
  | some a =>
    simp only [fseek, fwrite, List.length_cons, List.length_nil, List.length_append, le32_length]
    have h1 := writeAt_writeAt m1.file m1.recPos ([0x80] ++ le32 a) [0x00] hrple
    have h2 := writeAt_writeAt m1.file m1.recPos ([0x80] ++ le32 a ++ [0x00]) creator hrple
    simp only [List.length_cons, List.length_nil, List.length_append, le32_length] at h1 h2
    rw [h1, h2, hb, hrp]
    rw [writeAt_tail _ _ _ (by rw [hdr10_length]; simp [le32] at hlen ⊢; omega)]
    simp only [serFileLong, finishItems, finish]
    rw [items_bytes]
    simp [serItemLong, List.append_assoc]

end AslModel.CodeFile
