import AslModel.Lemmas.NestSim
/-! The simulation behind `C11_nest_refines`, repetitions: a REPT / IRP / IRPC tag carries out the SPEC's
`iter (iterBody ...) n`. -/
namespace AslModel.NestModel
open AslModel.NestSpec

def loopFrame (p : Prog) (arg d n : Nat) : Frame :=
  { kind := .loopExp, gs := (getDef p d).gs, arg := arg, body := (getDef p d).body, rest := (getDef p d).body,
    itersLeft := n - 1, isEmpty := (getDef p d).body.isEmpty || n == 0 }

theorem startLoop_push (p : Prog) (s : St) (arg d n : Nat) (k : LKind) (h : ¬ (k = .rept ∧ n = 0)) :
    startLoop p s arg d n k = { s with stack := loopFrame p arg d n :: s.stack } := by
  unfold startLoop
  cases k with
  | rept =>
    have : n > 0 := by
      rcases Nat.eq_zero_or_pos n with h0 | h0
      · exact absurd ⟨rfl, h0⟩ h
      · exact h0
    simp only [this, if_true]; rfl
  | irp => rfl
  | irpc => rfl

theorem startLoop_skip (p : Prog) (s : St) (arg d : Nat) : startLoop p s arg d 0 .rept = s := by
  unfold startLoop; simp

/-- the state in which the handle of the previous repetition is gone -/
def base (f : Frame) (ms : St) : St := if !f.gs && !f.first then popLoc ms else ms

theorem base_deq (f : Frame) (ms : St) : DEq ms (base f ms) := by
  unfold base popLoc
  split
  · split <;> exact ⟨rfl, rfl, rfl, rfl, rfl, rfl, rfl, rfl, rfl⟩
  · exact DEq.refl ms

theorem base_cnt (f : Frame) (ms : St) : (base f ms).cnt = ms.cnt := by
  unfold base popLoc
  split
  · split <;> rfl
  · rfl

theorem base_use (f : Frame) (ms : St) : (base f ms).use = ms.use := by
  unfold base
  split
  · exact popLoc_use ms
  · rfl

/-- a REPT / IRP / IRPC tag at the beginning of a repetition, `j` more to follow -/
structure LoopF (b : Def) (arg j : Nat) (f : Frame) : Prop where
  kind : f.kind = .loopExp
  atFirst : f.atFirst = true
  rest : f.rest = b.body
  body : f.body = b.body
  isEmpty : f.isEmpty = false
  arg : f.arg = arg
  gs : f.gs = b.gs
  iters : f.itersLeft = j
  pushed1 : f.first = true → f.pushed = false
  pushed2 : f.first = false → f.pushed = !b.gs

theorem handleOps_loop {b : Def} {arg j : Nat} {f : Frame} (h : LoopF b arg j f) (ms : St) :
    handleOps f ms = opened b.gs (base f ms) := by
  unfold handleOps opened base
  rw [h.kind, h.atFirst, h.gs]
  cases b.gs <;> simp

theorem nextFrame_loop_nil (f : Frame) (h : f.kind = .loopExp) :
    nextFrame f [] = { f with rest := f.body, atFirst := true, first := false, itersLeft := f.itersLeft - 1,
                              isEmpty := f.itersLeft == 0, pushed := f.pushed || (f.atFirst && !f.gs) } := by
  cases f with
  | mk kind mac gs arg body rest atFirst first itersLeft isEmpty pushed =>
    simp only at h
    subst h
    rfl

theorem loopF_next {b : Def} {arg j : Nat} {f : Frame} (h : LoopF b arg (j + 1) f) : LoopF b arg j (nextFrame f []) ∧
    (nextFrame f []).first = false := by
  rw [nextFrame_loop_nil f h.kind]
  refine ⟨⟨h.kind, rfl, h.body, h.body, ?_, h.arg, h.gs, ?_, fun h' => Bool.noConfusion h', fun _ => ?_⟩, rfl⟩
  · show (f.itersLeft == 0) = false
    rw [h.iters]; rfl
  · show f.itersLeft - 1 = j
    rw [h.iters]; rfl
  · show (f.pushed || (f.atFirst && !f.gs)) = !b.gs
    rw [h.atFirst, h.gs]
    cases hf : f.first
    · rw [h.pushed2 hf]; simp
    · rw [h.pushed1 hf]; simp

theorem loopF_last {b : Def} {arg : Nat} {f : Frame} (h : LoopF b arg 0 f) :
    (nextFrame f []).isEmpty = true ∧ (nextFrame f []).kind = .loopExp ∧ (nextFrame f []).gs = b.gs ∧
      (nextFrame f []).pushed = !b.gs := by
  rw [nextFrame_loop_nil f h.kind]
  refine ⟨?_, h.kind, h.gs, ?_⟩
  · show (f.itersLeft == 0) = true
    rw [h.iters]; rfl
  · show (f.pushed || (f.atFirst && !f.gs)) = !b.gs
    rw [h.atFirst, h.gs]
    cases hf : f.first
    · rw [h.pushed2 hf]; simp
    · rw [h.pushed1 hf]; simp


/-- one repetition of a body that delivers lines -/
theorem loop_once {p : Prog} {q : Quirks} {ρ : Int → Nat} (F : Nat) (ih : RunStmt p q ρ F) (c : Ctx) (b : Def)
    (hb : b.body ≠ []) (st : List Frame) (j : Nat) (f : Frame) (s : SSt) (w : Walk) (ms : St)
    (hf : LoopF b c.arg j f) (hst : ms.stack = f :: st) (hg : Good p (iterBody p F c b s))
    (hag : Agree ρ (iterW p F c.arg b w).log) (hd : Data ρ s ms) (hc : CtxRel ρ c (base f ms))
    (hcnt : ms.cnt = w.log.length) (hns : s.nextScope = w.ns) :
    ∃ k ms2, Steps p q k ms ms2 ∧ w.steps + k ≤ (iterW p F c.arg b w).steps ∧ ms2.stack = nextFrame f [] :: st ∧
      Data ρ (iterBody p F c b s) ms2 ∧ (∀ x, ms2.use x = countOpen c x) ∧
      (b.gs = true → ms2.mom = (base f ms).mom ∧ ms2.hstack = (base f ms).hstack) ∧
      (b.gs = false → ms2.hstack = (base f ms).mom :: (base f ms).hstack) ∧
      ms2.cnt = (iterW p F c.arg b w).log.length ∧ (iterBody p F c b s).nextScope = (iterW p F c.arg b w).ns := by
  obtain ⟨hd2, hch2, hok2, hcnt2, hns2, hgs1, hgs2⟩ := enter_rel (c := c) (x := base f ms) (w := w) b.gs b.body hb
    (Data.of_deq (base_deq f ms) hd) hc.chain hc.hok ((base_cnt f ms).trans hcnt) hns
    (Agree.of_prefix (walk_ext p F c.arg _ _).1 hag)
  have hho := handleOps_loop hf ms
  have hcx : CtxRel ρ { c with chain := (enter s c b.gs).2 } (handleOps f ms) := by
    rw [hho]
    refine ⟨hch2, hok2, fun x => ?_⟩
    rw [opened_use]
    exact hc.use x
  obtain ⟨k, ms2, hsteps, ho⟩ := ih { c with chain := (enter s c b.gs).2 } b.body (enter s c b.gs).1 (w.enter b.gs b.body)
    f st ms hg hag hb hf.rest hf.isEmpty hf.arg hst (by rw [hho]; exact hd2) hcx (by rw [hho]; exact hcnt2) hns2
  have hm2 := ho.mom
  have hh2 := ho.hstack
  rw [hho] at hm2 hh2
  refine ⟨k, ms2, hsteps, ?_, ho.stack, ho.data, fun x => ho.ctx.use x, fun h => ?_, fun h => ?_, ho.cnt, ho.ns⟩
  · have : (w.enter b.gs b.body).steps + k ≤ (iterW p F c.arg b w).steps := ho.steps
    rw [enter_steps] at this
    exact this
  · have h1 := hgs1 h
    exact ⟨hm2.trans h1.1, hh2.trans h1.2⟩
  · exact hh2.trans (hgs2 h)


/-- the repetitions of a body that delivers lines, and the Restorer of the tag -/
theorem loop_iter {p : Prog} {q : Quirks} {ρ : Int → Nat} (_hq : q.emptyPops = false) (F : Nat) (ih : RunStmt p q ρ F)
    (c : Ctx) (b : Def) (hb : b.body ≠ []) (st : List Frame) (j : Nat) :
    ∀ (f : Frame) (s : SSt) (w : Walk) (ms : St), LoopF b c.arg j f → ms.stack = f :: st →
      Good p (iter (iterBody p F c b) (j + 1) s) → Agree ρ (iter (iterW p F c.arg b) (j + 1) w).log →
      Data ρ s ms → CtxRel ρ c (base f ms) → ms.cnt = w.log.length → s.nextScope = w.ns →
      ∃ k ms', Steps p q k ms ms' ∧
        Out ρ c (iter (iterBody p F c b) (j + 1) s) w (iter (iterW p F c.arg b) (j + 1) w).tick (base f ms) st k ms' := by
  induction j with
  | zero =>
    intro f s w ms hf hst hg hag hd hc hcnt hns
    obtain ⟨k, ms2, hsteps, hk, hst2, hd2, hu2, hg1, hg2, hcnt2, hns2⟩ :=
      loop_once F ih c b hb st 0 f s w ms hf hst hg hag hd hc hcnt hns
    obtain ⟨he, hkind, hgs, hpu⟩ := loopF_last hf
    have hstep : step p q ms2 = some (restorer q (nextFrame f []) { ms2 with stack := st }) := step_pop hst2 he
    have hhand : (restorer q (nextFrame f []) { ms2 with stack := st }).mom = (base f ms).mom ∧
        (restorer q (nextFrame f []) { ms2 with stack := st }).hstack = (base f ms).hstack := by
      cases hbg : b.gs with
      | true =>
        have hnp : ((nextFrame f []).kind != .srcFile && !(nextFrame f []).gs && (q.emptyPops || (nextFrame f []).pushed)) = false := by
          rw [hgs, hbg]; simp
        have := restorer_nopop q _ { ms2 with stack := st } hnp
        have h1 := hg1 hbg
        exact ⟨this.1.trans h1.1, this.2.trans h1.2⟩
      | false =>
        have hp : ((nextFrame f []).kind != .srcFile && !(nextFrame f []).gs && (q.emptyPops || (nextFrame f []).pushed)) = true := by
          rw [hkind, hgs, hpu, hbg]; simp
        exact restorer_pop q _ { ms2 with stack := st } _ _ hp (hg2 hbg)
    refine ⟨k + 1, _, Steps.trans hsteps (Steps.one hstep), ?_, ?_, ?_, ?_, hhand.1, hhand.2, ?_, hns2⟩
    · show w.steps + (k + 1) ≤ (iterW p F c.arg b w).steps + 1
      omega
    · rw [restorer_stack]
    · exact Data.of_deq (DEq.trans (a := ms2) (b := { ms2 with stack := st }) ⟨rfl, rfl, rfl, rfl, rfl, rfl, rfl, rfl, rfl⟩
        (restorer_deq q _ _).symm) hd2
    · refine ⟨?_, ?_, fun x => ?_⟩
      · rw [hhand.1, hhand.2]; exact hc.chain
      · rw [hhand.1, hhand.2]; exact hc.hok
      · rw [restorer_use, hkind]
        simp only [reduceCtorEq, false_and, if_false]
        exact hu2 x
    · rw [restorer_cnt]; exact hcnt2
  | succ j ihj =>
    intro f s w ms hf hst hg hag hd hc hcnt hns
    have hg' : Good p (iterBody p F c b s) := Good.of_mono (iter_mono p F c b (j + 1) _) hg
    have hag' : Agree ρ (iterW p F c.arg b w).log := Agree.of_prefix (iter_wext p F c.arg b (j + 1) _).1 hag
    obtain ⟨k, ms2, hsteps, hk, hst2, hd2, hu2, hg1, hg2, hcnt2, hns2⟩ :=
      loop_once F ih c b hb st (j + 1) f s w ms hf hst hg' hag' hd hc hcnt hns
    obtain ⟨hf', hfirst⟩ := loopF_next hf
    have hbase : (base (nextFrame f []) ms2).mom = (base f ms).mom ∧ (base (nextFrame f []) ms2).hstack = (base f ms).hstack := by
      unfold base at *
      rw [hf'.gs, hfirst]
      cases hbg : b.gs with
      | true => exact hg1 hbg
      | false =>
        have := hg2 hbg
        simp only [Bool.not_false, Bool.and_self, if_true]
        unfold popLoc
        rw [this]; exact ⟨rfl, rfl⟩
    have hc' : CtxRel ρ c (base (nextFrame f []) ms2) := by
      refine ⟨?_, ?_, fun x => ?_⟩
      · rw [hbase.1, hbase.2]; exact hc.chain
      · rw [hbase.1, hbase.2]; exact hc.hok
      · rw [base_use]; exact hu2 x
    obtain ⟨k2, ms3, hsteps2, ho⟩ := ihj (nextFrame f []) (iterBody p F c b s) (iterW p F c.arg b w) ms2 hf' hst2 hg hag hd2 hc'
      hcnt2 hns2
    refine ⟨k + k2, ms3, Steps.trans hsteps hsteps2, ?_, ho.stack, ho.data, ho.ctx, ho.mom.trans hbase.1,
      ho.hstack.trans hbase.2, ho.cnt, ho.ns⟩
    have := ho.steps
    show w.steps + (k + k2) ≤ (iter (iterW p F c.arg b) (j + 1) (iterW p F c.arg b w)).tick.steps
    omega


/-- repetitions of a body without lines: nothing but scope numbers used up -/
theorem iter_empty {p : Prog} (F : Nat) (c : Ctx) (b : Def) (hb : b.body = []) (n : Nat) :
    ∀ (s : SSt) (w : Walk), Good p (iter (iterBody p F c b) n s) → s.nextScope = w.ns →
      SEq s (iter (iterBody p F c b) n s) ∧ (iter (iterBody p F c b) n s).nextScope = (iter (iterW p F c.arg b) n w).ns ∧
      (iter (iterW p F c.arg b) n w).log = w.log ∧ (iter (iterW p F c.arg b) n w).steps = w.steps := by
  induction n with
  | zero => intro s w _ hns; exact ⟨⟨rfl, rfl, rfl, rfl, rfl, rfl, rfl⟩, hns, rfl, rfl⟩
  | succ n ihn =>
    intro s w hg hns
    have hg1 : Good p (iterBody p F c b s) := Good.of_mono (iter_mono p F c b n _) hg
    have e1 : iterBody p F c b s = (enter s c b.gs).1 := by
      unfold iterBody at hg1 ⊢
      rw [hb] at hg1 ⊢
      exact lines_nil_good hg1
    have e2 : iterW p F c.arg b w = w.enter b.gs [] := by
      unfold iterW; rw [hb, walk_nil]
    have hns' : (iterBody p F c b s).nextScope = (iterW p F c.arg b w).ns := by
      rw [e1, e2, enter_ns, wenter_ns, hns]
    obtain ⟨h1, h2, h3, h4⟩ := ihn (iterBody p F c b s) (iterW p F c.arg b w) hg hns'
    refine ⟨SEq.trans ?_ h1, h2, ?_, ?_⟩
    · rw [e1]; exact seq_enter s c b.gs
    · show (iter (iterW p F c.arg b) n (iterW p F c.arg b w)).log = w.log
      rw [h3, e2, wenter_log_nil]
    · show (iter (iterW p F c.arg b) n (iterW p F c.arg b w)).steps = w.steps
      rw [h4, e2, enter_steps]

/-- a REPT / IRP / IRPC statement -/
theorem loop_sim {p : Prog} {q : Quirks} {ρ : Int → Nat} (hq : q.emptyPops = false) (F : Nat) (ih : RunStmt p q ρ F)
    (c : Ctx) (s : SSt) (w : Walk) (st : List Frame) (mh : St) (d n : Nat) (k : LKind)
    (hg : Good p (iter (iterBody p F c (getDef p d)) n s))
    (hag : Agree ρ (iter (iterW p F c.arg (getDef p d)) n w.tick).tick.log) (hst : mh.stack = st)
    (hd : Data ρ s mh) (hc : CtxRel ρ c mh) (hcnt : mh.cnt = w.log.length) (hns : s.nextScope = w.ns) :
    ∃ k' ms', Steps p q k' (startLoop p mh c.arg d n k) ms' ∧
      Out ρ c (iter (iterBody p F c (getDef p d)) n s) w.tick (iter (iterW p F c.arg (getDef p d)) n w.tick).tick mh st k' ms' := by
  by_cases hskip : k = .rept ∧ n = 0
  · obtain ⟨rfl, rfl⟩ := hskip
    rw [startLoop_skip]
    exact ⟨0, mh, Steps.refl mh, Nat.le_succ _, hst, hd, hc, rfl, rfl, hcnt, hns⟩
  · rw [startLoop_push p mh c.arg d n k hskip]
    by_cases hemp : (getDef p d).body = [] ∨ n = 0
    · -- the tag is empty from the start
      have hfe : (loopFrame p c.arg d n).isEmpty = true := by
        rcases hemp with h | h
        · simp [loopFrame, h]
        · simp [loopFrame, h]
      have hstep : step p q { mh with stack := loopFrame p c.arg d n :: mh.stack } =
          some (restorer q (loopFrame p c.arg d n) { mh with stack := st }) :=
        step_pop (f := loopFrame p c.arg d n) (below := st) (by rw [← hst]) hfe
      have hnp : ((loopFrame p c.arg d n).kind != .srcFile && !(loopFrame p c.arg d n).gs &&
          (q.emptyPops || (loopFrame p c.arg d n).pushed)) = false := by simp [loopFrame, hq]
      have hh := restorer_nopop q (loopFrame p c.arg d n) { mh with stack := st } hnp
      have hres : SEq s (iter (iterBody p F c (getDef p d)) n s) ∧
          (iter (iterBody p F c (getDef p d)) n s).nextScope = (iter (iterW p F c.arg (getDef p d)) n w.tick).ns ∧
          (iter (iterW p F c.arg (getDef p d)) n w.tick).log = w.log ∧
          (iter (iterW p F c.arg (getDef p d)) n w.tick).steps = w.tick.steps := by
        rcases hemp with h | h
        · exact iter_empty F c (getDef p d) h n s w.tick hg hns
        · subst h; exact ⟨⟨rfl, rfl, rfl, rfl, rfl, rfl, rfl⟩, hns, rfl, rfl⟩
      refine ⟨1, _, Steps.one hstep, ?_, ?_, ?_, ?_, hh.1, hh.2, ?_, hres.2.1⟩
      · show w.tick.steps + 1 ≤ (iter (iterW p F c.arg (getDef p d)) n w.tick).steps + 1
        rw [hres.2.2.2]; exact Nat.le_refl _
      · rw [restorer_stack]
      · exact Data.of_deq (DEq.trans (a := mh) (b := { mh with stack := st }) ⟨rfl, rfl, rfl, rfl, rfl, rfl, rfl, rfl, rfl⟩
          (restorer_deq q _ _).symm) (Data.of_seq hres.1 hd)
      · refine CtxRel.of_eq (a := mh) hh.1.symm hh.2.symm (fun x => ?_) hc
        rw [restorer_use]
        simp [loopFrame]
      · rw [restorer_cnt]
        show mh.cnt = (iter (iterW p F c.arg (getDef p d)) n w.tick).log.length
        rw [hres.2.2.1]; exact hcnt
    · -- the body delivers lines, at least one repetition
      have hb : (getDef p d).body ≠ [] := fun h => hemp (Or.inl h)
      obtain ⟨j, rfl⟩ : ∃ j, n = j + 1 := ⟨n - 1, by have : n ≠ 0 := fun h => hemp (Or.inr h); omega⟩
      have hbe : (getDef p d).body.isEmpty = false := by
        cases hbb : (getDef p d).body with
        | nil => exact absurd hbb hb
        | cons _ _ => rfl
      have hf : LoopF (getDef p d) c.arg j (loopFrame p c.arg d (j + 1)) :=
        ⟨rfl, rfl, rfl, rfl, by simp [loopFrame, hbe], rfl, rfl, rfl, fun _ => rfl, fun h => Bool.noConfusion h⟩
      have hbase : base (loopFrame p c.arg d (j + 1)) { mh with stack := loopFrame p c.arg d (j + 1) :: mh.stack } =
          { mh with stack := loopFrame p c.arg d (j + 1) :: mh.stack } := by
        unfold base; simp [loopFrame]
      obtain ⟨k', ms', hsteps, ho⟩ := loop_iter hq F ih c (getDef p d) hb st j (loopFrame p c.arg d (j + 1)) s w.tick
        { mh with stack := loopFrame p c.arg d (j + 1) :: mh.stack } hf (by rw [← hst]) hg hag
        (Data.of_deq (a := mh) ⟨rfl, rfl, rfl, rfl, rfl, rfl, rfl, rfl, rfl⟩ hd)
        (by rw [hbase]; exact CtxRel.of_eq (a := mh) rfl rfl (fun _ => rfl) hc) hcnt hns
      rw [hbase] at ho
      exact ⟨k', ms', hsteps, ho.steps, ho.stack, ho.data, ho.ctx, ho.mom, ho.hstack, ho.cnt, ho.ns⟩

end AslModel.NestModel
