import AslModel.Model.Files
import AslModel.Model.FilesGen
/-! Helper lemmas for C18: lock-step simulation of two runs of the same file from different carries. -/
namespace AslModel.Files

/-- the two value maps agree on every variable that is *live* under target `cur`:
reset per pass, or reset per target-selection and owned by the current target -/
def Agree (sp : SpecT) (cur : Nat) (f1 f2 : Vals) : Prop :=
  ∀ v, ((sp v).perPass = true ∨ ((sp v).perCpu = true ∧ (sp v).gen = cur)) → f1 v = f2 v

/-- lock-step relation between two machine states -/
structure Sim (sp : SpecT) (s1 s2 : St) : Prop where
  cur : s1.cur = s2.cur
  stack : s1.stack = s2.stack
  errs : s1.errs = s2.errs
  out : s1.out = s2.out
  agree : Agree sp s1.cur s1.vals s2.vals

theorem sim_initPass (sp : SpecT) (dcpu : Nat) (c1 c2 : Carry) :
    Sim sp (initPass sp dcpu c1) (initPass sp dcpu c2) := by
  refine ⟨rfl, rfl, rfl, rfl, ?_⟩
  intro v hv
  simp only [initPass, switchToVals, initPassVals]
  rcases hv with h | ⟨h1, h2⟩
  · simp [h]
  · have h2' : (sp v).gen = dcpu := h2
    simp [h1, h2']

/-- every op whose probe reads a reset variable keeps two runs in lock step -/
theorem sim_step (sp : SpecT) (s1 s2 : St) (op : Op) (h : Sim sp s1 s2)
    (hop : ∀ v bad, op = .probe v bad → Reset sp v) : Sim sp (step sp s1 op) (step sp s2 op) := by
  obtain ⟨f1, cur, stk, er, ou⟩ := s1
  obtain ⟨f2, cur2, stk2, er2, ou2⟩ := s2
  obtain ⟨hc, hs, he, ho, ha⟩ := h
  simp only at hc hs he ho ha
  subst hc hs he ho
  cases op with
  | cpu g =>
    refine ⟨rfl, rfl, rfl, rfl, ?_⟩
    intro v hv
    simp only [step, switchToVals]
    rcases hv with h | ⟨h1, h2⟩
    · by_cases hg : (sp v).gen = g ∧ (sp v).perCpu = true
      · simp [hg]
      · simp [hg]; exact ha v (Or.inl h)
    · have h2' : (sp v).gen = g := h2
      simp [h1, h2']
  | set v x =>
    simp only [step]
    by_cases hg : (sp v).gen = cur
    · simp only [hg, if_true]
      refine ⟨rfl, rfl, rfl, rfl, ?_⟩
      intro w hw
      simp only [upd]
      by_cases hwv : w = v
      · simp [hwv]
      · simp [hwv]; exact ha w hw
    · simp only [hg, if_false]
      exact ⟨rfl, rfl, rfl, rfl, ha⟩
  | probe v bad =>
    simp only [step]
    by_cases hg : (sp v).gen = cur
    · simp only [hg, if_true]
      have hv : f1 v = f2 v := by
        rcases hop v bad rfl with h | h
        · exact ha v (Or.inl h)
        · exact ha v (Or.inr ⟨h, hg⟩)
      exact ⟨rfl, rfl, by simp [hv], by simp [hv], ha⟩
    · simp only [hg, if_false]
      exact ⟨rfl, rfl, rfl, rfl, ha⟩
  | emit b => exact ⟨rfl, rfl, rfl, rfl, ha⟩
  | err => exact ⟨rfl, rfl, rfl, rfl, ha⟩
  | push k => exact ⟨rfl, rfl, rfl, rfl, ha⟩
  | pop k =>
    simp only [step]
    cases stk with
    | nil => exact ⟨rfl, rfl, rfl, rfl, ha⟩
    | cons k' r =>
      by_cases hk : k' = k
      · simp only [hk, if_true]
        exact ⟨rfl, rfl, rfl, rfl, ha⟩
      · simp only [hk, if_false]
        exact ⟨rfl, rfl, rfl, rfl, ha⟩

theorem mem_probed (ops : List Op) (v : Nat) (bad : List Int) : Op.probe v bad ∈ ops → v ∈ probed ops := by
  induction ops with
  | nil => simp
  | cons o r ih =>
    intro h
    cases o <;> simp_all [probed]
    rcases h with h | h
    · exact Or.inl h.1
    · exact Or.inr (ih h)

theorem sim_run (sp : SpecT) (ops : List Op) (s1 s2 : St) (h : Sim sp s1 s2)
    (hp : ∀ v ∈ probed ops, Reset sp v) : Sim sp (run sp s1 ops) (run sp s2 ops) := by
  induction ops generalizing s1 s2 with
  | nil => exact h
  | cons o r ih =>
    have hstep := sim_step sp s1 s2 o h (fun v bad hv => hp v (mem_probed _ v bad (by simp [hv])))
    have hr : ∀ v ∈ probed r, Reset sp v := by
      intro v hv
      apply hp
      cases o <;> simp_all [probed]
    exact ih _ _ hstep hr

/-- the observable result of a pass does not depend on the carry it starts from -/
theorem runPass_result (sp : SpecT) (dcpu : Nat) (c1 c2 : Carry) (ops : List Op)
    (hp : ∀ v ∈ probed ops, Reset sp v) :
    resultOf (runPass sp dcpu c1 ops) = resultOf (runPass sp dcpu c2 ops) ∧
    exitErrs (runPass sp dcpu c1 ops) = exitErrs (runPass sp dcpu c2 ops) := by
  have h := sim_run sp ops _ _ (sim_initPass sp dcpu c1 c2) hp
  unfold resultOf exitErrs runPass
  rw [h.errs, h.stack, h.out]
  exact ⟨rfl, rfl⟩

theorem passLoop_result (sp : SpecT) (dcpu : Nat) (n : Nat) (c1 c2 : Carry) (ops : List Op)
    (hp : ∀ v ∈ probed ops, Reset sp v) :
    (passLoop sp dcpu n c1 ops).1 = (passLoop sp dcpu n c2 ops).1 := by
  induction n generalizing c1 c2 with
  | zero => exact (runPass_result sp dcpu c1 c2 ops hp).1
  | succ n ih =>
    have h := runPass_result sp dcpu c1 c2 ops hp
    simp only [passLoop]
    rw [h.2]
    by_cases he : exitErrs (runPass sp dcpu c2 ops) = 0
    · simp only [he, if_true]; exact ih _ _
    · simp only [he, if_false]; exact h.1

theorem passLoop_extra (sp : SpecT) (dcpu : Nat) (n : Nat) (c : Carry) (ops : List Op)
    (hp : ∀ v ∈ probed ops, Reset sp v) :
    (passLoop sp dcpu n c ops).1 = (passLoop sp dcpu 0 c ops).1 := by
  induction n generalizing c with
  | zero => rfl
  | succ n ih =>
    simp only [passLoop]
    by_cases he : exitErrs (runPass sp dcpu c ops) = 0
    · simp only [he, if_true]
      rw [ih]
      exact (runPass_result sp dcpu _ c ops hp).1
    · simp only [he, if_false]

open AslModel.Generated in
/-- a table row that `isReset` accepts is `Reset` in the model parameter built from the table -/
theorem reset_of_isReset (rows : List GenVar) (dflts : Nat → Int) (v : Nat) (r : GenVar)
    (hr : rows[v]? = some r) (h : isReset r = true) : Reset (specOf rows dflts) v := by
  unfold Reset specOf
  simp only [hr, varSpecOf]
  unfold isReset at h
  cases hi : r.initPass <;> cases hs : r.switchTo <;> cases hc : r.core <;> simp_all
  by_cases hk : r.kind = "cpuarg" <;> simp [hk]

end AslModel.Files
