import AslModel.Lemmas.MacroLabelsWf
/-! C11 labels, the converse of the whole-program refinement: a reference that is bound early in a first pass that is the
only pass lays down another byte than the hand expansion has. -/
namespace AslModel.MacroLabels
open AslModel.MacroLabelsSpec

theorem firstDef_ge (Y : List Xe) (k : Nat) (top : Option Nat) : ∀ b v, firstDef Y b k top = some v → b ≤ v := by
  induction Y with
  | nil => intro b v h; cases h
  | cons y r ih =>
    intro b v h
    simp only [firstDef] at h
    split at h
    · cases h; exact Nat.le_refl _
    · have := ih _ _ h; omega

/-- one label statement enters one key -/
theorem firstDef_inj (Y : List Xe) (k : Nat) (t1 t2 : Option Nat) :
    ∀ b v, firstDef Y b k t1 = some v → firstDef Y b k t2 = some v → t1 = t2 := by
  induction Y with
  | nil => intro b v h; cases h
  | cons y r ih =>
    intro b v h1 h2
    simp only [firstDef] at h1 h2
    cases c1 : hits y k t1 <;> cases c2 : hits y k t2
    · simp only [c1, c2, Bool.false_eq_true, if_false] at h1 h2
      exact ih _ _ h1 h2
    · simp only [c1, c2, Bool.false_eq_true, if_false, if_true, Option.some.injEq] at h1 h2
      have := firstDef_ge _ _ _ _ _ h1; omega
    · simp only [c1, c2, Bool.false_eq_true, if_false, if_true, Option.some.injEq] at h1 h2
      have := firstDef_ge _ _ _ _ _ h2; omega
    · simp only [hits, Bool.and_eq_true, beq_iff_eq] at c1 c2
      rw [← c1.2, ← c2.2]

theorem outs_length (P : List Xe) : ∀ t : Tb, (outs t P).length = P.length := by
  induction P with
  | nil => intro t; rfl
  | cons x r ih => intro t; simp [outs, ih]

theorem outs_append (P S : List Xe) : ∀ t : Tb, outs t (P ++ S) = outs t P ++ outs (runT t P) S := by
  induction P with
  | nil => intro t; rfl
  | cons x r ih =>
    intro t
    have : runT t (x :: r) = runT (stepT t x) r := rfl
    simp only [List.cons_append, outs, ih, this]

theorem agree_prefix (X : List Xe) (full : Bool) (hnd : noDoubleDefL X = true) :
    ∀ (P2 P1 S : List Xe) (t : Tb), X = P1 ++ (P2 ++ S) → Agree X full P1 t → Agree X full (P1 ++ P2) (runT t P2) := by
  intro P2
  induction P2 with
  | nil => intro P1 S t _ a; simpa [runT] using a
  | cons y r ih =>
    intro P1 S t hX a
    have h1 : runT t (y :: r) = runT (stepT t y) r := rfl
    have h2 : P1 ++ y :: r = (P1 ++ [y]) ++ r := by simp
    rw [h1, h2]
    exact ih (P1 ++ [y]) S _ (by simp [hX]) (a.step y (r ++ S) (by simp [hX]) hnd)

theorem earlyBind_split : ∀ (S pre : List Xe), noEarlyBindL pre S = false →
    ∃ P x S', S = P ++ x :: S' ∧ earlyBind (pre ++ P) x = true := by
  intro S
  induction S with
  | nil => intro pre h; simp [noEarlyBindL] at h
  | cons y r ih =>
    intro pre h
    simp only [noEarlyBindL, Bool.and_eq_false_iff, Bool.not_eq_false'] at h
    rcases h with h | h
    · exact ⟨[], y, r, rfl, by simpa using h⟩
    · obtain ⟨P, x, S', e, hb⟩ := ih _ h
      exact ⟨y :: P, x, S', by rw [e]; rfl, by simpa using hb⟩

/-- what the model finds for a reference some key of which is entered: the address of a key that is entered -/
theorem walk_early {X : List Xe} {P : List Xe} {t : Tb} (a : Agree X false P t) (k : Nat)
    (hPX : ∀ κ, defined P k κ = true → ∃ v, firstDef X 0 k κ = some v) :
    ∀ fr : List Fr, ((fr.any fun f => defined P k (some f.h)) || defined P k none) = true →
      ∃ κ, defined P k κ = true ∧
        (match walkF t.ltab k fr with | some v => some v | none => gfind t.gtab k) = firstDef X 0 k κ := by
  intro fr
  induction fr with
  | nil =>
    intro h
    simp only [List.any_nil, Bool.false_or] at h
    exact ⟨none, h, by simp [walkF, a.g, h]⟩
  | cons f r ih =>
    intro h
    simp only [walkF, a.l, Bool.false_or]
    cases hd : defined P k (some f.h) with
    | true =>
      refine ⟨some f.h, hd, ?_⟩
      obtain ⟨v, hv⟩ := hPX _ hd
      simp only [if_true, hv]
    | false =>
      simp only [Bool.false_eq_true, if_false]
      apply ih
      simpa [hd] using h

/-- **a reference bound early in a first pass that stays the only pass: the code is not the hand expansion's** -/
theorem assemble_flat_conv (prog : Items) (hnd : noDoubleDefL (flat prog) = true)
    (hne : noEarlyBindL [] (flat prog) = false) (hany : (pass {} prog).out.any Option.isNone = false) :
    (assemble prog).out.reverse ≠ (flat prog).map (specVal (flat prog)) := by
  have hout : ∀ st : St, (pass st prog).out = (tbOf (pass st prog)).out := fun _ => rfl
  have p1 : tbOf (pass {} prog) = runT ⟨[], [], 0, []⟩ (flat prog) := pass_flat {} prog
  have hasm : (assemble prog).out.reverse = outs ⟨[], [], 0, []⟩ (flat prog) := by
    unfold assemble
    simp only [hany, Bool.false_eq_true, if_false]
    rw [hout, p1, runT_out]; simp
  rw [hasm]
  obtain ⟨P, x, S, hX, hb⟩ := earlyBind_split (flat prog) [] hne
  simp only [List.nil_append] at hb
  have a0 : Agree (flat prog) false [] (⟨[], [], 0, []⟩ : Tb) := ⟨rfl, by intro k h; simp [tfind, defined], by intro k; simp [gfind, defined]⟩
  have aP := agree_prefix (flat prog) false hnd P [] (x :: S) _ (by simpa using hX) a0
  simp only [List.nil_append] at aP
  intro heq
  rw [hX, outs_append, List.map_append] at heq
  have hx := (List.append_inj heq (by simp [outs_length])).2
  simp only [outs, List.map_cons, List.cons.injEq] at hx
  have hv := hx.1
  rw [← hX] at hv
  -- the reference
  simp only [earlyBind, Bool.and_eq_true, Bool.not_eq_true'] at hb
  have hr : x.isDef = false := hb.1.1
  have hPX : ∀ κ, defined P x.name κ = true → ∃ v, firstDef (flat prog) 0 x.name κ = some v := by
    intro κ hd
    apply firstDef_some
    rw [hX, defined_append, hd]; rfl
  obtain ⟨κ, hκ, hw⟩ := walk_early aP x.name hPX x.fr hb.2
  obtain ⟨v, hfv⟩ := hPX κ hκ
  have h1 : val (runT ⟨[], [], 0, []⟩ P) x = some v := by
    simp only [val, hr, Bool.false_eq_true, if_false, lookup_stOf]
    exact hw.trans hfv
  have h2 : specVal (flat prog) x = firstDef (flat prog) 0 x.name (target x.name x.fr) := by simp [specVal, hr]
  rw [h1, h2] at hv
  have := firstDef_inj (flat prog) x.name κ (target x.name x.fr) 0 v hfv hv.symm
  rw [this] at hκ
  rw [hκ] at hb
  simp at hb

/-! ### `NoDoubleDef` in the SPEC's words: no two label statements of the hand expansion have the same (renamed) name -/

def definedEv (evs : List Ev) (k : Nat) (inst : Option Nat) : Bool := evs.any fun e => e.isDef && e.name == k && e.inst == inst

def noDoubleEv : List Ev → Bool
  | [] => true
  | e :: r => (!e.isDef || !definedEv r e.name e.inst) && noDoubleEv r

theorem top_iff_inst {X : List Xe} (wf : WF X) {x y : Xe} (hx : x ∈ X) (hy : y ∈ X) (dx : x.isDef = true) (dy : y.isDef = true) :
    (topH y == topH x) = ((specEv y).inst == (specEv x).inst) := by
  rw [specEv_def wf hx dx, specEv_def wf hy dy]
  unfold topH
  cases hq : y.fr.head? with
  | none => cases hp : x.fr.head? <;> simp
  | some g =>
    cases hp : x.fr.head? with
    | none => simp
    | some f =>
      have hg : g ∈ framesOf X := mem_framesOf hy (List.mem_of_mem_head? hq)
      have hf : f ∈ framesOf X := mem_framesOf hx (List.mem_of_mem_head? hp)
      simp only [Option.map_some]
      by_cases e : g.h = f.h
      · have := wf.h_inj g hg f hf e
        simp [this]
      · have e2 : ¬ g.id = f.id := fun e' => e (by rw [wf.id_inj g hg f hf e'])
        simp
        rw [beq_eq_false_iff_ne.mpr e, beq_eq_false_iff_ne.mpr e2]

theorem defined_specEv {X : List Xe} (wf : WF X) {x : Xe} (hx : x ∈ X) (dx : x.isDef = true) :
    ∀ Y : List Xe, (∀ y ∈ Y, y ∈ X) → defined Y x.name (topH x) = definedEv (Y.map specEv) x.name (specEv x).inst := by
  intro Y hY
  unfold defined definedEv
  rw [List.any_map]
  apply any_congr_mem
  intro y hy
  simp only [Function.comp]
  show (y.isDef && y.name == x.name && topH y == topH x) = (y.isDef && y.name == x.name && (specEv y).inst == (specEv x).inst)
  cases dy : y.isDef with
  | false => simp
  | true => rw [top_iff_inst wf hx (hY y hy) dx dy]

theorem noDoubleDefL_spec {X : List Xe} (wf : WF X) :
    ∀ Y : List Xe, (∀ y ∈ Y, y ∈ X) → noDoubleDefL Y = noDoubleEv (Y.map specEv) := by
  intro Y
  induction Y with
  | nil => intro _; rfl
  | cons x r ih =>
    intro hY
    have hx := hY x List.mem_cons_self
    have hr : ∀ y ∈ r, y ∈ X := fun y hy => hY y (List.mem_cons_of_mem _ hy)
    simp only [noDoubleDefL, List.map_cons, noDoubleEv, ih hr]
    cases dx : x.isDef with
    | false => simp [specEv, dx]
    | true =>
      rw [defined_specEv wf hx dx r hr]
      simp [specEv, dx]

end AslModel.MacroLabels
