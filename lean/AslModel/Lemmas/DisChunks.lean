import AslModel.Model.Dis.Core
/-! Interval-set insertion `ins` (the abstract content of chunks.c `AddChunk`): exactness of the covered set and
preservation of the sorted/separated shape; trace-loop invariant. -/
namespace AslModel.Dis

def covers (c : Chunk) (x : Nat) : Prop := c.start ≤ x ∧ x < c.start + c.len

/-- address `x` lies in one of the ranges -/
def area (l : List Chunk) (x : Nat) : Prop := ∃ c ∈ l, covers c x

/-- sorted by start, non-empty ranges, a gap of at least one address between neighbours -/
def Sep : List Chunk → Prop
  | [] => True
  | c :: l => 0 < c.len ∧ (∀ d ∈ l, c.start + c.len < d.start) ∧ Sep l

theorem area_nil (x : Nat) : ¬ area [] x := by
  intro h; obtain ⟨c, hc, _⟩ := h; cases hc

theorem area_cons (c : Chunk) (l : List Chunk) (x : Nat) : area (c :: l) x ↔ covers c x ∨ area l x := by
  constructor
  · rintro ⟨d, hd, hx⟩
    rcases List.mem_cons.mp hd with rfl | hd
    · exact Or.inl hx
    · exact Or.inr ⟨d, hd, hx⟩
  · rintro (h | ⟨d, hd, hx⟩)
    · exact ⟨c, List.mem_cons_self, h⟩
    · exact ⟨d, List.mem_cons_of_mem _ hd, hx⟩

/-- `ins` adds exactly the new piece to the covered set -/
theorem area_ins (l : List Chunk) : ∀ (s n x : Nat), 0 < n → (area (ins s n l) x ↔ area l x ∨ (s ≤ x ∧ x < s + n)) := by
  induction l with
  | nil =>
    intro s n x _
    simp only [ins, area_cons, covers]
    constructor
    · rintro (h | h)
      · exact Or.inr h
      · exact absurd h (area_nil x)
    · rintro (h | h)
      · exact absurd h (area_nil x)
      · exact Or.inl h
  | cons c cs ih =>
    intro s n x hn
    unfold ins
    split
    · simp only [area_cons, covers]; constructor
      · rintro (h | h | h)
        · exact Or.inr h
        · exact Or.inl (Or.inl h)
        · exact Or.inl (Or.inr h)
      · rintro ((h | h) | h)
        · exact Or.inr (Or.inl h)
        · exact Or.inr (Or.inr h)
        · exact Or.inl h
    · split
      · rw [area_cons, ih s n x hn, area_cons]
        constructor
        · rintro (h | h | h)
          · exact Or.inl (Or.inl h)
          · exact Or.inl (Or.inr h)
          · exact Or.inr h
        · rintro ((h | h) | h)
          · exact Or.inl h
          · exact Or.inr (Or.inl h)
          · exact Or.inr (Or.inr h)
      · rename_i h1 h2
        have hpos : 0 < max (s + n) (c.start + c.len) - min s c.start := by omega
        rw [ih _ _ x hpos, area_cons]
        simp only [covers]
        constructor
        · rintro (h | h)
          · exact Or.inl (Or.inr h)
          · by_cases hc : c.start ≤ x ∧ x < c.start + c.len
            · exact Or.inl (Or.inl hc)
            · right; omega
        · rintro ((h | h) | h)
          · right; omega
          · exact Or.inl h
          · right; omega

theorem ins_lower (l : List Chunk) : ∀ (m s n : Nat), (∀ d ∈ l, m < d.start) → m < s → ∀ d ∈ ins s n l, m < d.start := by
  induction l with
  | nil =>
    intro m s n _ hs d hd
    simp only [ins, List.mem_singleton] at hd
    subst hd; exact hs
  | cons c cs ih =>
    intro m s n hl hs d hd
    have hc : m < c.start := hl c List.mem_cons_self
    have hcs : ∀ d ∈ cs, m < d.start := fun d hd => hl d (List.mem_cons_of_mem _ hd)
    unfold ins at hd
    split at hd
    · rcases List.mem_cons.mp hd with rfl | hd
      · exact hs
      · exact hl d hd
    · split at hd
      · rcases List.mem_cons.mp hd with rfl | hd
        · exact hc
        · exact ih m s n hcs hs d hd
      · exact ih m _ _ hcs (by omega) d hd

/-- `ins` keeps the list sorted and separated -/
theorem sep_ins (l : List Chunk) : ∀ (s n : Nat), 0 < n → Sep l → Sep (ins s n l) := by
  induction l with
  | nil => intro s n hn _; exact ⟨hn, (by intro d hd; cases hd), trivial⟩
  | cons c cs ih =>
    intro s n hn hsep
    obtain ⟨hc, hgap, hrest⟩ := hsep
    unfold ins
    split
    · rename_i h1
      refine ⟨hn, ?_, hc, hgap, hrest⟩
      intro d hd
      rcases List.mem_cons.mp hd with rfl | hd
      · exact h1
      · have := hgap d hd; show s + n < d.start; omega
    · split
      · rename_i h1 h2
        exact ⟨hc, ins_lower cs _ s n hgap h2, ih s n hn hrest⟩
      · exact ih _ _ (by omega) hrest

theorem area_addChunk (l : List Chunk) (s n x : Nat) : area (addChunk l s n) x ↔ area l x ∨ (s ≤ x ∧ x < s + n) := by
  unfold addChunk
  split
  · rename_i h; subst h
    constructor
    · exact Or.inl
    · rintro (h | h)
      · exact h
      · omega
  · exact area_ins l s n x (by omega)

theorem sep_addChunk (l : List Chunk) (s n : Nat) (h : Sep l) : Sep (addChunk l s n) := by
  unfold addChunk
  split
  · exact h
  · exact sep_ins l s n (by omega) h

/-- separated ranges do not share an address -/
theorem sep_disjoint : ∀ (l : List Chunk), Sep l → ∀ c ∈ l, ∀ d ∈ l, ∀ x, covers c x → covers d x → c = d := by
  intro l
  induction l with
  | nil => intro _ c hc; cases hc
  | cons e es ih =>
    intro hsep c hc d hd x hcx hdx
    obtain ⟨_, hgap, hrest⟩ := hsep
    rcases List.mem_cons.mp hc with rfl | hc' <;> rcases List.mem_cons.mp hd with rfl | hd'
    · rfl
    · have := hgap d hd'; unfold covers at hcx hdx; omega
    · have := hgap c hc'; unfold covers at hcx hdx; omega
    · exact ih hrest c hc' d hd' x hcx hdx

/-! ### the tracing loop -/

def inExtents (es : List (Nat × Nat)) (x : Nat) : Prop := ∃ e ∈ es, e.1 ≤ x ∧ x < e.1 + e.2

/-- what the loop maintains: the code list is sorted/separated and covers exactly the traced instruction extents -/
structure TraceInv (s : TState) : Prop where
  sep : Sep s.code
  exact : ∀ x, area s.code x ↔ inExtents s.traced x

theorem traceStep_inv (dis : Disasm) (img : Image) (lower : Bool) (s : TState) (a : Nat) (q : List Nat)
    (h : TraceInv s) : TraceInv (traceStep dis img lower s a q) := by
  constructor
  · exact sep_addChunk _ _ _ h.sep
  · intro x
    simp only [traceStep]
    rw [area_addChunk, h.exact x]
    split
    · rename_i h0; rw [h0]
      constructor
      · rintro (h1 | h1)
        · exact h1
        · omega
      · exact Or.inl
    · constructor
      · rintro (⟨e, he, hx⟩ | h1)
        · exact ⟨e, List.mem_cons_of_mem _ he, hx⟩
        · exact ⟨_, List.mem_cons_self, h1⟩
      · rintro ⟨e, he, hx⟩
        rcases List.mem_cons.mp he with rfl | he
        · exact Or.inr hx
        · exact Or.inl ⟨e, he, hx⟩

theorem traceLoop_inv (dis : Disasm) (img : Image) (lower : Bool) :
    ∀ (fuel : Nat) (s : TState), TraceInv s → TraceInv (traceLoop dis img lower fuel s).1 := by
  intro fuel
  induction fuel with
  | zero => intro s h; exact h
  | succ n ih =>
    intro s h
    unfold traceLoop
    split
    · exact h
    · exact ih _ (traceStep_inv dis img lower s _ _ h)

/-- every extent that the loop records was returned by the callback for a direct (non-data) call -/
def ExtentsFrom (dis : Disasm) (img : Image) (lower : Bool) (es : List (Nat × Nat)) : Prop :=
  ∀ e ∈ es, ∃ syms, (dis img lower syms e.1 false (-1)).1.len = e.2 ∧ 0 < e.2

theorem traceStep_from (dis : Disasm) (img : Image) (lower : Bool) (s : TState) (a : Nat) (q : List Nat)
    (h : ExtentsFrom dis img lower s.traced) : ExtentsFrom dis img lower (traceStep dis img lower s a q).traced := by
  intro e he
  simp only [traceStep] at he
  split at he
  · exact h e he
  · rcases List.mem_cons.mp he with rfl | he
    · exact ⟨s.syms, rfl, by omega⟩
    · exact h e he

theorem traceLoop_from (dis : Disasm) (img : Image) (lower : Bool) :
    ∀ (fuel : Nat) (s : TState), ExtentsFrom dis img lower s.traced →
      ExtentsFrom dis img lower (traceLoop dis img lower fuel s).1.traced := by
  intro fuel
  induction fuel with
  | zero => intro s h; exact h
  | succ n ih =>
    intro s h
    unfold traceLoop
    split
    · exact h
    · exact ih _ (traceStep_from dis img lower s _ _ h)

end AslModel.Dis
