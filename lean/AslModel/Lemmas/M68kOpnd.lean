import AslModel.Spec.OperandPos
import AslModel.Model.M68kOpnd
/-! Helper lemmas for `Props/C01_Opnd.lean`: the SPEC decoder `Spec.OperandPos.M68k` applied to the words the MODEL
`Model.M68kOpnd.encode` produces. -/
namespace AslModel.M68kOpndLemmas
open AslModel.Spec.OperandPos AslModel.Model.M68kOpnd

/-! ### sign extension of the displacement words -/

theorem lo16_val (h : Int) : ((lo16 h : Nat) : Int) = h % 65536 := by
  unfold lo16; omega

theorem hi16_val (h : Int) : ((hi16 h : Nat) : Int) = h / 65536 % 65536 := by
  unfold hi16; omega

theorem lo16_lt (h : Int) : lo16 h < 65536 := by
  have := lo16_val h; omega

theorem hi16_lt (h : Int) : hi16 h < 65536 := by
  have := hi16_val h; omega

theorem sx16_lo16 (h : Int) (h1 : -32768 ≤ h) (h2 : h ≤ 32767) : sx16 (lo16 h) = h := by
  have hx := lo16_val h
  generalize lo16 h = x at *
  unfold sx16
  by_cases hc : x < 32768
  · rw [if_pos hc]; omega
  · rw [if_neg hc]; omega

theorem sx8_lo16 (h : Int) (h1 : -128 ≤ h) (h2 : h ≤ 127) : sx8 (lo16 h % 256) = h := by
  have hx := lo16_val h
  generalize lo16 h = x at *
  unfold sx8
  by_cases hc : x % 256 < 128
  · rw [if_pos hc]; omega
  · rw [if_neg hc]; omega

theorem sx32_hilo (h : Int) : ∃ k : Int, sx32 (hi16 h * 65536 + lo16 h) = h + k * 4294967296 := by
  have hx := lo16_val h
  have hy := hi16_val h
  generalize lo16 h = x at *
  generalize hi16 h = y at *
  unfold sx32
  by_cases hc : y * 65536 + x < 2147483648
  · rw [if_pos hc]; refine ⟨-(h / 4294967296), ?_⟩; omega
  · rw [if_neg hc]; refine ⟨-(h / 4294967296) - 1, ?_⟩; omega

theorem isDisp16_iff (h : Int) : isDisp16 h = true ↔ (-32768 ≤ h ∧ h ≤ 32767) := by
  simp [isDisp16]

theorem isDisp8_iff (h : Int) : isDisp8 h = true ↔ (-128 ≤ h ∧ h ≤ 127) := by
  simp [isDisp8]

/-! ### words and bytes -/

theorem bytesOf_cons (w : Nat) (t : List Nat) : bytesOf (w :: t) = (w / 256 % 256) :: (w % 256) :: bytesOf t := by
  simp [bytesOf]

theorem be16_bytesOf (ws : List Nat) (k : Nat) : be16 (bytesOf ws) (2 * k) = (ws[k]?).map (· % 65536) := by
  induction ws generalizing k with
  | nil => simp [be16, bytesOf]
  | cons w t ih =>
    cases k with
    | zero =>
      simp only [bytesOf_cons, be16]
      simp
      omega
    | succ k =>
      have e : 2 * (k + 1) = 2 * k + 2 := by omega
      have := ih k
      simp only [be16] at this ⊢
      rw [e, bytesOf_cons]
      simpa using this

theorem be32_bytesOf (ws : List Nat) (k : Nat) (x y : Nat) (hx : ws[k]? = some x) (hy : ws[k + 1]? = some y)
    (hx' : x < 65536) (hy' : y < 65536) : be32 (bytesOf ws) (2 * k) = some (x * 65536 + y) := by
  have e : 2 * k + 2 = 2 * (k + 1) := by omega
  unfold be32
  rw [e, be16_bytesOf, be16_bytesOf, hx, hy]
  simp [Nat.mod_eq_of_lt hx', Nat.mod_eq_of_lt hy']

/-- the `j`-th operand word of an instruction with `pre` in front -/
theorem getElem_operand (w0 : Nat) (pre vals : List Nat) (j : Nat) :
    (w0 :: pre ++ vals)[1 + pre.length + j]? = vals[j]? := by
  have e : 1 + pre.length + j = (pre.length + j) + 1 := by omega
  rw [e]
  simp [List.getElem?_append_right]

/-! ### the operation word -/

theorem relPos_eq (c : Cls) : c.relPos = 2 + 2 * c.head.2.length := by
  cases c with
  | plain p => rfl
  | bitsReg i d => rfl
  | bitsImm i n => rfl
  | immOp op sz v =>
    simp only [Cls.relPos, Cls.head]
    by_cases h2 : sz.val = 2
    · simp [h2]
    · by_cases h1 : sz.val = 1 <;> simp [h2, h1]
  | ext1 k w1 => rfl

/-- well-formed class parameters: the immediate operations are SUBI (0), ADDI (2), CMPI (8) -/
def Cls.wf : Cls → Prop
  | .immOp op _ _ => op = 0 ∨ op = 2 ∨ op = 8
  | _ => True

theorem plain_pre : ∀ (p : Plain), M68k.preExt (p.w0 + 0x3a) = some 0 ∧ M68k.preExt (p.w0 + 0x3b) = some 0 ∧
    p.w0 % 64 = 0 ∧ p.w0 + 63 < 65536 := by
  intro p
  cases p with
  | moveToD sz d => revert sz d; decide
  | lea a => revert a; decide
  | chk d => revert d; decide
  | pea => decide
  | jmp => decide
  | jsr => decide
  | tst sz => revert sz; decide
  | arith g d opm => revert g d opm; decide

theorem ext1_pre : ∀ (k : Ext1), M68k.preExt (k.w0 + 0x3a) = some 2 ∧ M68k.preExt (k.w0 + 0x3b) = some 2 ∧
    k.w0 % 64 = 0 ∧ k.w0 + 63 < 65536 := by
  intro k
  cases k with
  | movem l => revert l; decide
  | mulDivL d => revert d; decide
  | callm => decide
  | cmpChk2 sz => revert sz; decide
  | tbl => decide
  | fbits => decide
  | ebits i => revert i; decide
  | fpu => decide
  | pmmu => decide

theorem bitsReg_pre : ∀ (i : Fin 4) (d : Fin 8), M68k.preExt (i.val * 64 + 0x100 + d.val * 512 + 0x3a) = some 0 ∧
    M68k.preExt (i.val * 64 + 0x100 + d.val * 512 + 0x3b) = some 0 ∧ (i.val * 64 + 0x100 + d.val * 512) % 64 = 0 ∧
    i.val * 64 + 0x100 + d.val * 512 + 63 < 65536 := by decide

theorem bitsImm_pre : ∀ (i : Fin 4), M68k.preExt (i.val * 64 + 0x800 + 0x3a) = some 2 ∧
    M68k.preExt (i.val * 64 + 0x800 + 0x3b) = some 2 ∧ (i.val * 64 + 0x800) % 64 = 0 ∧ i.val * 64 + 0x800 + 63 < 65536 := by decide

theorem immOp_pre : ∀ (sz : Fin 3) (op : Fin 9), (op.val = 0 ∨ op.val = 2 ∨ op.val = 8) →
    M68k.preExt (0x400 + sz.val * 64 + op.val * 256 + 0x3a) = some (if sz.val = 2 then 4 else 2) ∧
    M68k.preExt (0x400 + sz.val * 64 + op.val * 256 + 0x3b) = some (if sz.val = 2 then 4 else 2) ∧
    (0x400 + sz.val * 64 + op.val * 256) % 64 = 0 ∧ 0x400 + sz.val * 64 + op.val * 256 + 63 < 65536 := by decide

/-- the operation word of every class tells the SPEC decoder how many bytes lie in front of the operand's extension
words - exactly the words the decode function put there -/
theorem head_pre (c : Cls) (hc : Cls.wf c) :
    M68k.preExt (c.head.1 + 0x3a) = some (2 * c.head.2.length) ∧ M68k.preExt (c.head.1 + 0x3b) = some (2 * c.head.2.length) ∧
    c.head.1 % 64 = 0 ∧ c.head.1 + 63 < 65536 := by
  cases c with
  | plain p => exact plain_pre p
  | bitsReg i d => exact bitsReg_pre i d
  | bitsImm i n => exact bitsImm_pre i
  | ext1 k w1 => exact ext1_pre k
  | immOp op sz v =>
    have hop : op < 9 := by
      simp only [Cls.wf] at hc; omega
    have := immOp_pre sz ⟨op, hop⟩ (by simpa [Cls.wf] using hc)
    simp only [Cls.head]
    by_cases h2 : sz.val = 2
    · simpa [h2] using this
    · by_cases h1 : sz.val = 1
      · simpa [h2, h1] using this
      · simpa [h2, h1] using this

/-! ### the SPEC decoder on an encoded instruction -/

theorem ea_d16 (a p w0 e : Nat) (bs : List Nat) (hw : w0 / 8 % 8 = 7) (hr : w0 % 8 = 2) (he : be16 bs p = some e) :
    ∃ r, M68k.ea a bs w0 p = some r ∧ r.value = wrap32 ((a + p : Nat) + sx16 e) ∧ r.pcrel = true ∧ r.pos = p ∧ r.idx = none := by
  simp [M68k.ea, hw, hr, he]

theorem decode_encoded (c : Cls) (hc : Cls.wf c) (a m : Nat) (hm : m = 0x3a ∨ m = 0x3b) (vals : List Nat) :
    M68k.decode a (bytesOf ((c.head.1 + m) :: c.head.2 ++ vals)) =
      M68k.ea a (bytesOf ((c.head.1 + m) :: c.head.2 ++ vals)) (c.head.1 + m) (2 + 2 * c.head.2.length) := by
  obtain ⟨h1, h2, h3, h4⟩ := head_pre c hc
  have hb : be16 (bytesOf ((c.head.1 + m) :: c.head.2 ++ vals)) 0 = some (c.head.1 + m) := by
    have := be16_bytesOf ((c.head.1 + m) :: c.head.2 ++ vals) 0
    simp only [Nat.mul_zero] at this
    rw [this]
    have hlt : c.head.1 + m < 65536 := by rcases hm with rfl | rfl <;> omega
    simp [Nat.mod_eq_of_lt hlt]
  unfold M68k.decode
  rw [hb]
  rcases hm with rfl | rfl
  · simp [h1]
  · simp [h2]

theorem operand_word (c : Cls) (m : Nat) (vals : List Nat) (j x : Nat) (hx : vals[j]? = some x) (hlt : x < 65536) :
    be16 (bytesOf ((c.head.1 + m) :: c.head.2 ++ vals)) (2 + 2 * c.head.2.length + 2 * j) = some x := by
  have e : 2 + 2 * c.head.2.length + 2 * j = 2 * (1 + c.head.2.length + j) := by omega
  rw [e, be16_bytesOf, getElem_operand, hx]
  simp [Nat.mod_eq_of_lt hlt]

theorem ea_full32 (a p w0 e d : Nat) (bs : List Nat) (hw : w0 / 8 % 8 = 7) (hr : w0 % 8 = 3) (he : be16 bs p = some e)
    (hb : e / 256 % 2 = 1) (hbs : e / 128 % 2 = 0) (hsz : e / 16 % 4 = 3) (hd : be32 bs (p + 2) = some d) :
    ∃ r, M68k.ea a bs w0 p = some r ∧ r.value = wrap32 ((a + p : Nat) + sx32 d) ∧ r.pcrel = true ∧ r.pos = p + 2 ∧
      r.idx = (if e / 64 % 2 = 0 then some (e / 512) else none) := by
  simp [M68k.ea, hw, hr, he, hb, hbs, hsz, hd]

theorem operand_long (c : Cls) (m : Nat) (vals : List Nat) (j x y : Nat) (hx : vals[j]? = some x) (hy : vals[j + 1]? = some y)
    (hx' : x < 65536) (hy' : y < 65536) :
    be32 (bytesOf ((c.head.1 + m) :: c.head.2 ++ vals)) (2 + 2 * c.head.2.length + 2 * j) = some (x * 65536 + y) := by
  have e : 2 + 2 * c.head.2.length + 2 * j = 2 * (1 + c.head.2.length + j) := by omega
  rw [e]
  apply be32_bytesOf _ _ x y _ _ hx' hy'
  · rw [getElem_operand, hx]
  · have e2 : 1 + c.head.2.length + j + 1 = 1 + c.head.2.length + (j + 1) := by omega
    rw [e2, getElem_operand, hy]

theorem wrap32_value (value : Int) (k : Int) (hv0 : 0 ≤ value) (hv1 : value < 4294967296) :
    wrap32 (value + k * 4294967296) = value.toNat := by
  unfold wrap32; omega

theorem ea_brief (a p w0 e : Nat) (bs : List Nat) (hw : w0 / 8 % 8 = 7) (hr : w0 % 8 = 3) (he : be16 bs p = some e)
    (hb : e / 256 % 2 = 0) :
    ∃ r, M68k.ea a bs w0 p = some r ∧ r.value = wrap32 ((a + p : Nat) + sx8 (e % 256)) ∧ r.pcrel = true ∧ r.pos = p + 1 ∧
      r.idx = some (e / 512) := by
  simp [M68k.ea, hw, hr, he, hb]

theorem ea_full16 (a p w0 e d : Nat) (bs : List Nat) (hw : w0 / 8 % 8 = 7) (hr : w0 % 8 = 3) (he : be16 bs p = some e)
    (hb : e / 256 % 2 = 1) (hbs : e / 128 % 2 = 0) (hsz : e / 16 % 4 = 2) (hd : be16 bs (p + 2) = some d) :
    ∃ r, M68k.ea a bs w0 p = some r ∧ r.value = wrap32 ((a + p : Nat) + sx16 d) ∧ r.pcrel = true ∧ r.pos = p + 2 ∧
      r.idx = (if e / 64 % 2 = 0 then some (e / 512) else none) := by
  simp [M68k.ea, hw, hr, he, hb, hbs, hsz, hd]

def Index.wf (x : Index) : Prop := x.reg < 16 ∧ x.scale < 4

theorem bits_mod (x : Index) : x.bits % 512 = 0 := by
  unfold Index.bits; cases x.long <;> simp <;> omega

theorem bits_le (x : Index) (hx : Index.wf x) : x.bits ≤ 65024 := by
  unfold Index.bits; unfold Index.wf at hx; cases x.long <;> simp <;> omega

/-- the three shapes of an operand with the program counter as base: brief word, 16-bit and 32-bit base displacement -/
theorem brief_ok (c : Cls) (hc : Cls.wf c) (epc value : Int) (b : Nat) (rest : List Nat) (hb : b % 512 = 0) (hb' : b ≤ 65024)
    (h0 : 0 ≤ epc) (hv0 : 0 ≤ value) (hv1 : value < 4294967296)
    (hd : isDisp8 (value - (epc + ↑c.relPos)) = true) :
    ∃ r, M68k.decode epc.toNat (bytesOf ((c.head.1 + 0x3b) :: c.head.2 ++ (b + lo16 (value - (epc + ↑c.relPos)) % 256) :: rest)) = some r ∧
      r.value = value.toNat ∧ r.pcrel = true ∧ c.relPos ≤ r.pos ∧ r.pos ≤ c.relPos + 2 := by
  obtain ⟨h1, h2, h3, h4⟩ := head_pre c hc
  have hrel := relPos_eq c
  rw [decode_encoded c hc _ 0x3b (Or.inr rfl)]
  have hw := operand_word c 0x3b ((b + lo16 (value - (epc + ↑c.relPos)) % 256) :: rest) 0 _ rfl (by omega)
  obtain ⟨r, hr, hval, hpcr, hpos, _⟩ := ea_brief epc.toNat (2 + 2 * c.head.2.length) (c.head.1 + 0x3b) _ _ (by omega) (by omega) hw (by omega)
  refine ⟨r, hr, ?_, hpcr, by omega, by omega⟩
  have e : (b + lo16 (value - (epc + ↑c.relPos)) % 256) % 256 = lo16 (value - (epc + ↑c.relPos)) % 256 := by omega
  rw [hval, e, sx8_lo16 _ ((isDisp8_iff _).1 hd).1 ((isDisp8_iff _).1 hd).2]
  have := wrap32_value value 0 hv0 hv1
  rw [← this]
  congr 1
  omega

theorem full16_ok (c : Cls) (hc : Cls.wf c) (epc value : Int) (e : Nat) (rest : List Nat)
    (he : e < 65536) (hb : e / 256 % 2 = 1) (hbs : e / 128 % 2 = 0) (hsz : e / 16 % 4 = 2)
    (h0 : 0 ≤ epc) (hv0 : 0 ≤ value) (hv1 : value < 4294967296)
    (hd : isDisp16 (value - (epc + ↑c.relPos)) = true) :
    ∃ r, M68k.decode epc.toNat (bytesOf ((c.head.1 + 0x3b) :: c.head.2 ++ e :: lo16 (value - (epc + ↑c.relPos)) :: rest)) = some r ∧
      r.value = value.toNat ∧ r.pcrel = true ∧ c.relPos ≤ r.pos ∧ r.pos ≤ c.relPos + 2 := by
  obtain ⟨h1, h2, h3, h4⟩ := head_pre c hc
  have hrel := relPos_eq c
  rw [decode_encoded c hc _ 0x3b (Or.inr rfl)]
  have hw := operand_word c 0x3b (e :: lo16 (value - (epc + ↑c.relPos)) :: rest) 0 _ rfl he
  have hw1 := operand_word c 0x3b (e :: lo16 (value - (epc + ↑c.relPos)) :: rest) 1 _ rfl (lo16_lt _)
  obtain ⟨r, hr, hval, hpcr, hpos, _⟩ := ea_full16 epc.toNat (2 + 2 * c.head.2.length) (c.head.1 + 0x3b) _ _ _ (by omega) (by omega) hw hb hbs hsz hw1
  refine ⟨r, hr, ?_, hpcr, by omega, by omega⟩
  rw [hval, sx16_lo16 _ ((isDisp16_iff _).1 hd).1 ((isDisp16_iff _).1 hd).2]
  have := wrap32_value value 0 hv0 hv1
  rw [← this]
  congr 1
  omega

theorem full32_ok (c : Cls) (hc : Cls.wf c) (epc value : Int) (e : Nat) (rest : List Nat)
    (he : e < 65536) (hb : e / 256 % 2 = 1) (hbs : e / 128 % 2 = 0) (hsz : e / 16 % 4 = 3)
    (h0 : 0 ≤ epc) (hv0 : 0 ≤ value) (hv1 : value < 4294967296) :
    ∃ r, M68k.decode epc.toNat (bytesOf ((c.head.1 + 0x3b) :: c.head.2 ++
        e :: hi16 (value - (epc + ↑c.relPos)) :: lo16 (value - (epc + ↑c.relPos)) :: rest)) = some r ∧
      r.value = value.toNat ∧ r.pcrel = true ∧ c.relPos ≤ r.pos ∧ r.pos ≤ c.relPos + 2 := by
  obtain ⟨h1, h2, h3, h4⟩ := head_pre c hc
  have hrel := relPos_eq c
  rw [decode_encoded c hc _ 0x3b (Or.inr rfl)]
  have hw := operand_word c 0x3b (e :: hi16 (value - (epc + ↑c.relPos)) :: lo16 (value - (epc + ↑c.relPos)) :: rest) 0 _ rfl he
  have hl := operand_long c 0x3b (e :: hi16 (value - (epc + ↑c.relPos)) :: lo16 (value - (epc + ↑c.relPos)) :: rest) 1 _ _ rfl rfl (hi16_lt _) (lo16_lt _)
  obtain ⟨r, hr, hval, hpcr, hpos, _⟩ := ea_full32 epc.toNat (2 + 2 * c.head.2.length) (c.head.1 + 0x3b) _ _ _ (by omega) (by omega) hw hb hbs hsz hl
  refine ⟨r, hr, ?_, hpcr, by omega, by omega⟩
  obtain ⟨k, hk⟩ := sx32_hilo (value - (epc + ↑c.relPos))
  rw [hval, hk]
  have := wrap32_value value k hv0 hv1
  rw [← this]
  congr 1
  omega


/-! ### the three PC-relative operand forms of `DecodeAdr` -/

/-- well-formed operand forms: index register numbers 0..15 (Dn, An), scale 0..3 -/
def EAForm.wf : EAForm → Prop
  | .pcIdx x _ => Index.wf x
  | .pcInd (some x) _ _ _ => Index.wf x
  | _ => True

def EAForm.isPC : EAForm → Prop
  | .abs => False
  | _ => True

theorem pc_case (f : Family) (c : Cls) (len : Option Nat) (epc value : Int) (ws : List Nat) (hc : Cls.wf c)
    (h0 : 0 ≤ epc) (hv0 : 0 ≤ value) (hv1 : value < 4294967296)
    (h : encode f c epc value (.pc len) = .ok ws) :
    ∃ r, M68k.decode epc.toNat (bytesOf ws) = some r ∧ r.value = value.toNat ∧ r.pcrel = true ∧
      c.relPos ≤ r.pos ∧ r.pos ≤ c.relPos + 2 := by
  obtain ⟨h1, h2, h3, h4⟩ := head_pre c hc
  have hrel := relPos_eq c
  simp only [encode, decodeAdr] at h
  by_cases hlen : pcLen f len (value - (epc + ↑c.relPos)) = 1
  · rw [if_pos hlen] at h
    by_cases hd : isDisp16 (value - (epc + ↑c.relPos)) = true
    · simp only [hd, Bool.not_true, Bool.false_eq_true, if_false] at h
      injection h with h
      subst h
      rw [decode_encoded c hc _ 0x3a (Or.inl rfl)]
      have hw := operand_word c 0x3a [lo16 (value - (epc + ↑c.relPos))] 0 _ rfl (lo16_lt _)
      obtain ⟨r, hr, hval, hpcr, hpos, _⟩ := ea_d16 epc.toNat (2 + 2 * c.head.2.length) (c.head.1 + 0x3a) _ _ (by omega) (by omega) hw
      refine ⟨r, hr, ?_, hpcr, by omega, by omega⟩
      rw [hval, sx16_lo16 _ ((isDisp16_iff _).1 hd).1 ((isDisp16_iff _).1 hd).2]
      have := wrap32_value value 0 hv0 hv1
      rw [← this]
      congr 1
      omega
    · simp [hd] at h
  · rw [if_neg hlen] at h
    by_cases hE : f.extAddr = true
    · simp only [hE, Bool.not_true, Bool.false_eq_true, if_false] at h
      injection h with h
      subst h
      exact full32_ok c hc epc value 0x170 [] (by decide) (by decide) (by decide) (by decide) h0 hv0 hv1
    · simp [hE] at h

theorem pcIdx_case (f : Family) (c : Cls) (x : Index) (len : Option Nat) (epc value : Int) (ws : List Nat) (hc : Cls.wf c) (hx : Index.wf x)
    (h0 : 0 ≤ epc) (hv0 : 0 ≤ value) (hv1 : value < 4294967296)
    (h : encode f c epc value (.pcIdx x len) = .ok ws) :
    ∃ r, M68k.decode epc.toNat (bytesOf ws) = some r ∧ r.value = value.toNat ∧ r.pcrel = true ∧
      c.relPos ≤ r.pos ∧ r.pos ≤ c.relPos + 2 := by
  have hm := bits_mod x
  have hl := bits_le x hx
  simp only [encode, decodeAdr] at h
  by_cases hL0 : idxLen f len (value - (epc + ↑c.relPos)) = 0
  · rw [if_pos hL0] at h
    by_cases hd8 : isDisp8 (value - (epc + ↑c.relPos)) = true
    · simp only [hd8, Bool.not_true, Bool.false_eq_true, if_false] at h
      by_cases hs : x.scale ≠ 0 ∧ (!f.scaling) = true
      · rw [if_pos hs] at h; cases h
      · rw [if_neg hs] at h
        injection h with h
        subst h
        exact brief_ok c hc epc value x.bits [] hm hl h0 hv0 hv1 hd8
    · simp [hd8] at h
  · rw [if_neg hL0] at h
    by_cases hE : f.extAddr = true
    · simp only [hE, Bool.not_true, Bool.false_eq_true, if_false] at h
      by_cases hL1 : idxLen f len (value - (epc + ↑c.relPos)) = 1
      · rw [if_pos hL1] at h
        by_cases hd : isDisp16 (value - (epc + ↑c.relPos)) = true
        · simp only [hd, Bool.not_true, Bool.false_eq_true, if_false] at h
          injection h with h
          subst h
          exact full16_ok c hc epc value (x.bits + 0x120) [] (by omega) (by omega) (by omega) (by omega) h0 hv0 hv1 hd
        · simp [hd] at h
      · rw [if_neg hL1] at h
        injection h with h
        subst h
        exact full32_ok c hc epc value (x.bits + 0x130) [] (by omega) (by omega) (by omega) (by omega) h0 hv0 hv1
    · simp [hE] at h

theorem pcInd_case (f : Family) (c : Cls) (x : Option Index) (post : Bool) (od : Option Int) (len : Option Nat) (epc value : Int) (ws : List Nat)
    (hc : Cls.wf c) (hx : EAForm.wf (.pcInd x post od len))
    (h0 : 0 ≤ epc) (hv0 : 0 ≤ value) (hv1 : value < 4294967296)
    (h : encode f c epc value (.pcInd x post od len) = .ok ws) :
    ∃ r, M68k.decode epc.toNat (bytesOf ws) = some r ∧ r.value = value.toNat ∧ r.pcrel = true ∧
      c.relPos ≤ r.pos ∧ r.pos ≤ c.relPos + 2 := by
  simp only [encode, decodeAdr] at h
  cases hM : f.memInd
  · simp [hM] at h
  · simp only [hM, Bool.not_true, Bool.false_eq_true, if_false] at h
    -- the first extension word without the displacement-size and outer-displacement fields
    have hv : indWord0 x post % 16 ≤ 4 ∧ indWord0 x post / 16 % 4 = 0 ∧ indWord0 x post / 128 % 2 = 0 ∧
        indWord0 x post / 256 % 2 = 1 ∧ indWord0 x post ≤ 65284 := by
      unfold indWord0
      cases x with
      | none => simp
      | some i =>
        have hm := bits_mod i
        have hl := bits_le i hx
        cases post <;> simp <;> omega
    obtain ⟨hva, hvb, hvc, hvd, hve⟩ := hv
    generalize indWord0 x post = v0 at *
    by_cases hL : indLen len (value - (epc + ↑c.relPos)) = 1
    · by_cases hd : isDisp16 (value - (epc + ↑c.relPos)) = true
      · simp only [hL, hd, Bool.not_true, Bool.false_eq_true, and_false, if_false, if_true, List.headD_cons, List.tail_cons] at h
        cases od with
        | none =>
          simp only at h
          injection h with h
          subst h
          exact full16_ok c hc epc value (v0 + 0x20 + 1) [] (by omega) (by omega) (by omega) (by omega) h0 hv0 hv1 hd
        | some o =>
          simp only at h
          by_cases ho : isDisp16 o = true
          · rw [if_pos ho] at h
            injection h with h
            subst h
            exact full16_ok c hc epc value (v0 + 0x20 + 2) [lo16 o] (by omega) (by omega) (by omega) (by omega) h0 hv0 hv1 hd
          · rw [if_neg ho] at h
            injection h with h
            subst h
            exact full16_ok c hc epc value (v0 + 0x20 + 3) [hi16 o, lo16 o] (by omega) (by omega) (by omega) (by omega) h0 hv0 hv1 hd
      · simp [hL, hd] at h
    · simp only [hL, false_and, if_false, List.headD_cons, List.tail_cons] at h
      cases od with
      | none =>
        simp only at h
        injection h with h
        subst h
        exact full32_ok c hc epc value (v0 + 0x30 + 1) [] (by omega) (by omega) (by omega) (by omega) h0 hv0 hv1
      | some o =>
        simp only at h
        by_cases ho : isDisp16 o = true
        · rw [if_pos ho] at h
          injection h with h
          subst h
          exact full32_ok c hc epc value (v0 + 0x30 + 2) [lo16 o] (by omega) (by omega) (by omega) (by omega) h0 hv0 hv1
        · rw [if_neg ho] at h
          injection h with h
          subst h
          exact full32_ok c hc epc value (v0 + 0x30 + 3) [hi16 o, lo16 o] (by omega) (by omega) (by omega) (by omega) h0 hv0 hv1

end AslModel.M68kOpndLemmas
