import AslModel.Lemmas.Isa.Common
import AslModel.Spec.Isa.IAvr
/-! Lemmas for C14 / AVR that do not depend on codeavr.c's tables (`Generated/Isa_Avr.lean`): kernel-friendly evaluation
primitives for the table checks, the arithmetic of the relative branches (reach, wrap-around, target reconstruction),
bit fields of OR-composed opcode words, and the immediate-class rows of the opcode map. -/
namespace AslModel.Isa.IAvr
open AslModel.PFile (Byte b b_toNat)
open AslModel.Spec.IAvr

/-- `x & (2^k - 1)` on a two's complement integer (the model's `lowBits`) -/
def lowB (x : Int) (k : Nat) : Nat := (x % 2 ^ k).toNat

theorem mem_all (m : Mn) : m ∈ Mn.all := by cases m <;> decide

/-- all tuples of the given domains -/
def prod : List (List Nat) → List (List Nat)
  | [] => [[]]
  | d :: ds => d.flatMap fun r => (prod ds).map (r :: ·)

theorem cls_ok_lt (cls : RegCls) (r : Nat) (h : cls.ok r = true) : r < 32 := by
  cases cls <;> simp [RegCls.ok] at h <;> omega

theorem toWord_mod (v : Int) (bits : Nat) (hb : bits ≤ 16) : toWord v % 2 ^ bits = (v % 2 ^ bits).toNat := by
  unfold toWord
  have : bits = 0 ∨ bits = 1 ∨ bits = 2 ∨ bits = 3 ∨ bits = 4 ∨ bits = 5 ∨ bits = 6 ∨ bits = 7 ∨ bits = 8 ∨ bits = 9 ∨
      bits = 10 ∨ bits = 11 ∨ bits = 12 ∨ bits = 13 ∨ bits = 14 ∨ bits = 15 ∨ bits = 16 := by omega
  rcases this with h | h | h | h | h | h | h | h | h | h | h | h | h | h | h | h | h <;> subst h <;>
    simp only [Int.reducePow, Nat.reducePow] <;> omega

def isRel : Mn → Bool
  | .BRBS | .BRBC | .RJMP | .RCALL => true
  | _ => false

theorem absolutise_notRel (c : Cpu) (pc : Nat) (m : Mn) (fs : List Nat) (h : isRel m = false) : absolutise c pc m fs = fs := by
  cases m <;> simp [isRel] at h <;> rfl

/-- evaluate `n` once, then continue (the kernel reduces by name: without this every use of a loop variable would
re-evaluate the term it stands for) -/
noncomputable def force {α : Type} (n : Nat) (k : Nat → α) : α := Nat.rec (k 0) (fun m _ => k (Nat.succ m)) n
theorem force_eq {α : Type} (n : Nat) (k : Nat → α) : force n k = k n := by cases n <;> rfl

noncomputable def allL (l : List Nat) (p : Nat → Bool) : Bool := List.rec true (fun a _ ih => force a p && ih) l

theorem allL_spec (l : List Nat) (p : Nat → Bool) (h : allL l p = true) : ∀ a ∈ l, p a = true := by
  induction l with
  | nil => intro a ha; cases ha
  | cons x t ih =>
    have h' : (force x p && allL t p) = true := h
    rw [force_eq] at h'
    simp only [Bool.and_eq_true] at h'
    intro a ha
    rcases List.mem_cons.mp ha with rfl | ha
    · exact h'.1
    · exact ih h'.2 a ha

noncomputable def allProd : List (List Nat) → (List Nat → Bool) → Bool
  | [], p => p []
  | d :: ds, p => allL d fun a => allProd ds fun fs => p (a :: fs)

theorem allProd_spec (ds : List (List Nat)) (p : List Nat → Bool) (h : allProd ds p = true) : ∀ fs ∈ prod ds, p fs = true := by
  induction ds generalizing p with
  | nil => intro fs hfs; simp [prod] at hfs; subst hfs; exact h
  | cons d ds ih =>
    intro fs hfs
    simp only [prod, List.mem_flatMap, List.mem_map] at hfs
    obtain ⟨a, ha, fs', hfs', rfl⟩ := hfs
    have h1 := allL_spec d _ h a ha
    exact ih _ h1 fs' hfs'

def natsBeq : List Nat → List Nat → Bool
  | [], [] => true
  | a :: as, b :: bs => Nat.beq a b && natsBeq as bs
  | _, _ => false

theorem natsBeq_eq (x y : List Nat) (h : natsBeq x y = true) : x = y := by
  induction x generalizing y with
  | nil => cases y <;> simp [natsBeq] at h; rfl
  | cons a t ih =>
    cases y with
    | nil => simp [natsBeq] at h
    | cons c u =>
      simp only [natsBeq, Bool.and_eq_true] at h
      have h1 : a = c := Nat.eq_of_beq_eq_true h.1
      rw [h1, ih u h.2]

def idxMn (i : Nat) : Mn := Mn.all.getD i default
theorem idxMn_ctorIdx (m : Mn) : idxMn m.ctorIdx = m := by cases m <;> rfl
theorem ctorIdx_inj (a c : Mn) (h : a.ctorIdx = c.ctorIdx) : a = c := by
  rw [← idxMn_ctorIdx a, ← idxMn_ctorIdx c, h]

def decBeq (x : Dec) (m : Mn) (fs : List Nat) (w2 : Bool) : Bool :=
  match x with
  | some (m', fs', w2') => Nat.beq m'.ctorIdx m.ctorIdx && natsBeq fs' fs && (Bool.xor w2' w2).not
  | none => false

theorem decBeq_eq (x : Dec) (m : Mn) (fs : List Nat) (w2 : Bool) (h : decBeq x m fs w2 = true) : x = some (m, fs, w2) := by
  unfold decBeq at h
  match x, h with
  | some (m', fs', w2'), h =>
    simp only [Bool.and_eq_true] at h
    have h1 := ctorIdx_inj _ _ (Nat.eq_of_beq_eq_true h.1.1)
    have h2 := natsBeq_eq _ _ h.1.2
    have h3 : w2' = w2 := by
      have := h.2
      cases w2' <;> cases w2 <;> simp_all
    rw [h1, h2, h3]

/-- the distance `relDist` hands on, as a function of target and program counter (`size` = words of program memory) -/
def distOf (size : Int) (wrap : Bool) (pc : Nat) (t : Int) : Int :=
  if wrap then (if (t - ((pc : Int) + 1)) / (size / 2) % 2 ≠ 0 then (t - ((pc : Int) + 1)) % size - size else (t - ((pc : Int) + 1)) % size)
  else t - ((pc : Int) + 1)

theorem ncases (n : Nat) (hn1 : 1 ≤ n) (hn : n ≤ 20) : n = 1 ∨ n = 2 ∨ n = 3 ∨ n = 4 ∨ n = 5 ∨ n = 6 ∨ n = 7 ∨ n = 8 ∨ n = 9 ∨ n = 10 ∨
    n = 11 ∨ n = 12 ∨ n = 13 ∨ n = 14 ∨ n = 15 ∨ n = 16 ∨ n = 17 ∨ n = 18 ∨ n = 19 ∨ n = 20 := by omega

theorem reach_iff (core n : Nat) (wrap : Bool) (pc bits : Nat) (t : Int) :
    reach ⟨core, n, wrap⟩ pc bits t = true ↔
      (if wrap then ((t - ((pc : Int) + 1)) % 2 ^ n < 2 ^ (bits - 1) ∨ (2 : Int) ^ n - 2 ^ (bits - 1) ≤ (t - ((pc : Int) + 1)) % 2 ^ n)
       else (-(2 : Int) ^ (bits - 1) ≤ t - ((pc : Int) + 1) ∧ t - ((pc : Int) + 1) < 2 ^ (bits - 1))) := by
  unfold reach
  cases wrap <;> simp

theorem rel_reach (bits : Nat) (hb : bits = 7 ∨ bits = 12) (n : Nat) (hn1 : 1 ≤ n) (hn : n ≤ 20) (wrap : Bool) (core pc : Nat) (t : Int)
    (ht0 : 0 ≤ t) (ht : t < 2 ^ n) (hpc : (pc : Int) < 2 ^ n) :
    (-(2 : Int) ^ (bits - 1) ≤ distOf (2 ^ n) wrap pc t ∧ distOf (2 ^ n) wrap pc t ≤ 2 ^ (bits - 1) - 1) ↔ reach ⟨core, n, wrap⟩ pc bits t = true := by
  rw [reach_iff]
  cases wrap
  · rcases hb with rfl | rfl <;>
      simp only [distOf, Bool.false_eq_true, if_false, Nat.reduceSub, Int.reducePow] <;> omega
  · rcases hb with rfl | rfl <;>
    rcases ncases n hn1 hn with h | h | h | h | h | h | h | h | h | h | h | h | h | h | h | h | h | h | h | h <;> subst h <;>
      simp only [distOf, if_true, Nat.reduceSub, Int.reducePow, Int.reduceDiv, Int.reduceSub, Int.reduceNeg] at * <;>
      constructor <;> intro hh <;> (repeat' split at hh) <;> (repeat' split) <;> omega

theorem sext_low (bits : Nat) (hb : bits = 7 ∨ bits = 12) (d : Int) (hd : -(2 : Int) ^ (bits - 1) ≤ d ∧ d ≤ 2 ^ (bits - 1) - 1) :
    (if lowB d bits < 2 ^ (bits - 1) then ((lowB d bits : Nat) : Int) else ((lowB d bits : Nat) : Int) - 2 ^ bits) = d := by
  rcases hb with rfl | rfl
  · by_cases h : lowB d 7 < 2 ^ (7 - 1)
    · rw [if_pos h]; simp only [lowB, Nat.reduceSub, Int.reducePow, Nat.reducePow, Int.reduceNeg, Int.reduceSub] at *; omega
    · rw [if_neg h]; simp only [lowB, Nat.reduceSub, Int.reducePow, Nat.reducePow, Int.reduceNeg, Int.reduceSub] at *; omega
  · by_cases h : lowB d 12 < 2 ^ (12 - 1)
    · rw [if_pos h]; simp only [lowB, Nat.reduceSub, Int.reducePow, Nat.reducePow, Int.reduceNeg, Int.reduceSub] at *; omega
    · rw [if_neg h]; simp only [lowB, Nat.reduceSub, Int.reducePow, Nat.reducePow, Int.reduceNeg, Int.reduceSub] at *; omega

theorem target_eq (core n : Nat) (wrap : Bool) (pc bits : Nat) (hb : bits = 7 ∨ bits = 12) (d : Int)
    (hd : -(2 : Int) ^ (bits - 1) ≤ d ∧ d ≤ 2 ^ (bits - 1) - 1) :
    target ⟨core, n, wrap⟩ pc bits (lowB d bits) = (((pc : Int) + 1 + d) % 2 ^ n).toNat := by
  unfold target
  simp only [sext_low bits hb d hd]

theorem distOf_mod (n : Nat) (hn1 : 1 ≤ n) (hn : n ≤ 20) (wrap : Bool) (pc : Nat) (t : Int) (ht0 : 0 ≤ t) (ht : t < 2 ^ n) :
    ((pc : Int) + 1 + distOf (2 ^ n) wrap pc t) % 2 ^ n = t := by
  cases wrap
  · simp only [distOf, Bool.false_eq_true, if_false]
    have : (pc : Int) + 1 + (t - ((pc : Int) + 1)) = t := by omega
    rw [this, Int.emod_eq_of_lt ht0 ht]
  · rcases ncases n hn1 hn with h | h | h | h | h | h | h | h | h | h | h | h | h | h | h | h | h | h | h | h <;> subst h <;>
      simp only [distOf, if_true, Int.reducePow, Int.reduceDiv] at * <;> split <;> omega

theorem rel_target (bits : Nat) (hb : bits = 7 ∨ bits = 12) (n : Nat) (hn1 : 1 ≤ n) (hn : n ≤ 20) (wrap : Bool) (core pc : Nat) (t : Int)
    (ht0 : 0 ≤ t) (ht : t < 2 ^ n)
    (hd : -(2 : Int) ^ (bits - 1) ≤ distOf (2 ^ n) wrap pc t ∧ distOf (2 ^ n) wrap pc t ≤ 2 ^ (bits - 1) - 1) :
    target ⟨core, n, wrap⟩ pc bits (lowB (distOf (2 ^ n) wrap pc t) bits) = t.toNat := by
  rw [target_eq core n wrap pc bits hb _ hd, distOf_mod n hn1 hn wrap pc t ht0 ht]


theorem cpu_eta (c : Cpu) : c = ⟨c.core, c.pcBits, c.wrap⟩ := by cases c; rfl

theorem alias_avail (m : Mn) (h : (flagAlias m).isSome = true) (c : Cpu) (args : List Int) :
    avail c m args = true ∧ modeOk m args = true := by
  cases m <;> simp [flagAlias] at h <;> simp [avail, minCore, minPcBits, modeOk]

theorem pow_le_20 (n : Nat) (h : n ≤ 20) : (2 : Int) ^ n ≤ 1048576 := by
  have h1 : (2 : Nat) ^ n ≤ 2 ^ 20 := Nat.pow_le_pow_right (by decide) h
  have h2 : ((2 ^ n : Nat) : Int) ≤ ((2 ^ 20 : Nat) : Int) := Int.ofNat_le.mpr h1
  simpa using h2

theorem fld_or (x y lo n : Nat) : fld (x ||| y) lo n = fld x lo n ||| fld y lo n := by
  simp only [fld, Nat.or_div_two_pow, Nat.or_mod_two_pow]

/-- register / constant part of the opcode -/
def immX (r c : Nat) : Nat := ((c &&& 0xf0) <<< 4) ||| (c &&& 0x0f) ||| ((r &&& 0x0f) <<< 4)

/-- rows `0011 .. 0111` and `1110` of the opcode map -/
def immMn (t : Nat) : Option Mn :=
  sel16 t none none none (some .CPI) (some .SBCI) (some .SUBI) (some .ORI) (some .ANDI) none none none none none none (some .LDI) none

theorem decode1_imm (w : Nat) (M : Mn) (h : immMn (fld w 12 4) = some M) : decode1 w = decImm M w := by
  have ht : fld w 12 4 < 16 := by simp only [fld]; omega
  unfold decode1
  generalize fld w 12 4 = t at h ht
  have : t = 0 ∨ t = 1 ∨ t = 2 ∨ t = 3 ∨ t = 4 ∨ t = 5 ∨ t = 6 ∨ t = 7 ∨ t = 8 ∨ t = 9 ∨ t = 10 ∨ t = 11 ∨ t = 12 ∨ t = 13 ∨ t = 14 ∨ t = 15 := by omega
  rcases this with h' | h' | h' | h' | h' | h' | h' | h' | h' | h' | h' | h' | h' | h' | h' | h' <;> subst h'
  · have e : immMn 0 = none := by decide
    rw [e] at h; cases h
  · have e : immMn 1 = none := by decide
    rw [e] at h; cases h
  · have e : immMn 2 = none := by decide
    rw [e] at h; cases h
  · have e : immMn 3 = some .CPI := by decide
    rw [e] at h; injection h with h; subst h; rfl
  · have e : immMn 4 = some .SBCI := by decide
    rw [e] at h; injection h with h; subst h; rfl
  · have e : immMn 5 = some .SUBI := by decide
    rw [e] at h; injection h with h; subst h; rfl
  · have e : immMn 6 = some .ORI := by decide
    rw [e] at h; injection h with h; subst h; rfl
  · have e : immMn 7 = some .ANDI := by decide
    rw [e] at h; injection h with h; subst h; rfl
  · have e : immMn 8 = none := by decide
    rw [e] at h; cases h
  · have e : immMn 9 = none := by decide
    rw [e] at h; cases h
  · have e : immMn 10 = none := by decide
    rw [e] at h; cases h
  · have e : immMn 11 = none := by decide
    rw [e] at h; cases h
  · have e : immMn 12 = none := by decide
    rw [e] at h; cases h
  · have e : immMn 13 = none := by decide
    rw [e] at h; cases h
  · have e : immMn 14 = some .LDI := by decide
    rw [e] at h; injection h with h; subst h; rfl
  · have e : immMn 15 = none := by decide
    rw [e] at h; cases h

/-- opcode word of an immediate instruction: `code` in the top four bits, `x` below -/
theorem decode_imm_word (code x : Nat) (M : Mn) (hc0 : code % 4096 = 0) (hc1 : code < 65536) (hx : x < 4096)
    (hM : immMn (code / 4096) = some M) :
    decode1 ((code ||| x) % 65536) = some (M, [16 + fld x 4 4, 16 * fld x 8 4 + fld x 0 4], false) := by
  have hw : code ||| x < 65536 := Nat.or_lt_two_pow (n := 16) hc1 (by omega)
  rw [Nat.mod_eq_of_lt hw]
  have h12 : fld (code ||| x) 12 4 = code / 4096 := by
    rw [fld_or]
    have h1 : fld code 12 4 = code / 4096 := by simp only [fld]; omega
    have h2 : fld x 12 4 = 0 := by simp only [fld]; omega
    rw [h1, h2, Nat.or_zero]
  rw [decode1_imm _ M (by rw [h12]; exact hM)]
  have z4 : fld code 4 4 = 0 := by simp only [fld]; omega
  have z8 : fld code 8 4 = 0 := by simp only [fld]; omega
  have z0 : fld code 0 4 = 0 := by simp only [fld]; omega
  simp only [decImm, fDh, fK8, fld_or, z4, z8, z0, Nat.zero_or]

def modeMn (m : Mn) : Bool := m == .LD || m == .ST || m == .LPM || m == .ELPM

theorem modeOk_other (m : Mn) (hm : modeMn m = false) (args : List Int) : modeOk m args = true := by
  cases m <;> simp [modeMn] at hm <;> rfl

theorem minCore_indep (m : Mn) (hm : modeMn m = false) (a1 a2 : List Int) : minCore m a1 = minCore m a2 := by
  cases m <;> simp [modeMn] at hm <;> rfl

theorem legal_unfold (c : Cpu) (pc : Nat) (m : Mn) (args : List Int) :
    legal c pc ⟨m, args⟩ = (avail c m args && modeOk m args &&
      ((form m).bare && args.isEmpty || !(form m).opds.isEmpty && acceptsAll c pc (form m).opds args)) := rfl

theorem acceptsAll_nil (c : Cpu) (pc : Nat) (os : List Opd) : acceptsAll c pc os [] = os.isEmpty := by cases os <;> rfl
theorem acceptsAll_nil_left (c : Cpu) (pc : Nat) (vs : List Int) : acceptsAll c pc [] vs = vs.isEmpty := by cases vs <;> rfl

theorem lpm_mode (a : Int) : (decide (0 ≤ a ∧ a.toNat ∈ [6, 7])) = ((a == 6 || a == 7) && (decide (0 ≤ a) && decide (a < 9))) := by
  by_cases h6 : a = 6
  · subst h6; decide
  · by_cases h7 : a = 7
    · subst h7; decide
    · have h1 : ¬ (0 ≤ a ∧ a.toNat ∈ [6, 7]) := by
        simp only [List.mem_cons, List.not_mem_nil, or_false]; omega
      have h2 : (a == 6 || a == 7) = false := by simp [h6, h7]
      rw [decide_eq_false h1, h2]; rfl

end AslModel.Isa.IAvr
