import AslModel.Lemmas.Hex
import AslModel.Spec.HexFamilies
import AslModel.Spec.HexImage
/-! Helper lemmas for the format theorems of C06 (`Props/C06_Formats.lean`): Intel 16/32 (extension records, bank
splitting, entry records), MOS last record, Tektronix digit sums, Atmel generic, C array items. -/
namespace AslModel.HexLemmas
open AslModel.Hex AslModel.P2Hex
open AslModel.PFile (b b_toNat Rec)

/-! ### small list / arithmetic facts -/

theorem mapM_nil' {α β : Type} (f : α → Option β) : ([] : List α).mapM f = some [] := by simp

theorem mapM_cons_some {α β : Type} (f : α → Option β) (a : α) (x : List α) (v : β) (rx : List β)
    (ha : f a = some v) (hx : x.mapM f = some rx) : (a :: x).mapM f = some (v :: rx) := by
  simp [List.mapM_cons, ha, hx]

theorem split16' (z : Nat) (hz : z < 65536) : z / 256 % 256 * 256 + z % 256 = z := by omega

/-! ### Intel: one data record with an arbitrary `IntOffset` -/

/-- lines of at least 12 characters are never one of the two short end-of-file variants -/
theorem ihexLineV_long (ev : Nat) (l : List Char) (h : 12 ≤ l.length) : ihexLineV ev l = ihexLine l := by
  unfold ihexLineV
  have h1 : l ≠ ":00000001".toList := by
    intro e
    have : l.length = 9 := by rw [e]; rfl
    omega
  have h2 : l ≠ ":0000000000".toList := by
    intro e
    have : l.length = 11 := by rw [e]; rfl
    omega
  rw [if_neg (by intro hh; exact h1 hh.2), if_neg (by intro hh; exact h2 hh.2)]

theorem bytesHex_length (bs : List Byte) : (bytesHex bs).length = 2 * bs.length := by
  induction bs with
  | nil => rfl
  | cons x xs ih => simp [bytesHex, byte2, ih]; omega

/-- Intel data record as `ProcessFile` prints it for a byte-addressed target (`Gran = 1`, `-m 0`) and any `IntOffset`
below the address: the 16-bit offset field is `ErgStart - IntOffset`. -/
theorem intelLine_data (io a : Nat) (buf : List Byte) (hio : io ≤ a) (ha : a - io < 65536) (h32 : a < two32)
    (hl : buf.length ≤ 255) :
    ihexLine (intelLine 0 1 io a buf) = some (.data (a - io) buf) := by
  have hw : ((a + two32 - io) % two32 * 1) % two32 = a - io := by unfold two32 at *; omega
  have hlen : buf.length % 65536 = buf.length := by omega
  have hmod : ∀ x : Nat, x % 65536 % 256 = x % 256 := by intro x; omega
  unfold intelLine ihexLine
  simp only [outBytes_plain, Nat.zero_lt_succ, if_true, hw, hlen, hex2_eq, lo_neg, hmod, sumN_eq,
    ← bytesHex_append, parseHex_bytesHex, List.cons_append, List.nil_append]
  generalize a - io = w at ha ⊢
  have hcnt : (b buf.length).toNat = buf.length := by rw [b_toNat]; omega
  have hsum : sum8 (b buf.length :: b (w / 256) :: b w :: b 0 ::
      (buf ++ [b ((256 - (lo buf.length + lo (w / 256) + lo w + sum8 buf) % 256) % 256)])) % 256 = 0 := by
    simp only [sum8_cons, sum8_append, sum8_nil, b_toNat, lo]
    omega
  simp only [hcnt, List.length_append, List.length_cons, List.length_nil, hsum, and_self, if_true, b_toNat,
    List.dropLast_concat, Nat.zero_add, Nat.zero_mod]
  have : w / 256 % 256 * 256 + w % 256 = w := by omega
  simp [ihexMk, this]

theorem intelLine_length (mm gran io a : Nat) (buf : List Byte) :
    (intelLine mm gran io a buf).length = 11 + 2 * (outBytes mm gran buf).length := by
  simp [intelLine, List.length_append, bytesHex_length, hex2, byte2]; omega

theorem intelLine_dataV (ev io a : Nat) (buf : List Byte) (hio : io ≤ a) (ha : a - io < 65536) (h32 : a < two32)
    (h1 : 1 ≤ buf.length) (hl : buf.length ≤ 255) :
    ihexLineV ev (intelLine 0 1 io a buf) = some (.data (a - io) buf) := by
  rw [ihexLineV_long _ _ (by rw [intelLine_length, outBytes_plain]; omega)]
  exact intelLine_data io a buf hio ha h32 hl

/-! ### Intel: extension records 02 / 04 -/

theorem ext_prefix : ":020000".toList = ':' :: bytesHex [b 2, b 0, b 0] := by decide

theorem intelExt_line (k h : Nat) (hk : k < 16) (hh : h < 65536) :
    ihexLine (intelExtLine k h) = ihexMk k 0 [b (h / 256), b h] := by
  unfold intelExtLine ihexLine
  simp only [ext_prefix, hex2_eq, hex4, ← bytesHex_append, List.cons_append, List.nil_append, parseHex_bytesHex]
  have hsum : sum8 [b 2, b 0, b 0, b k, b (h / 256), b h, b (lo (256 + 65536 - (k + 2 + lo h + lo (h / 256))))] % 256 = 0 := by
    simp only [sum8_cons, sum8_nil, b_toNat, lo]
    omega
  have hk' : (b k).toNat = k := by rw [b_toNat]; omega
  simp [hsum, b_toNat, hk']

theorem intelExt_seg (h : Nat) (hh : h < 65536) : ihexLine (intelExtLine 2 h) = some (.extSeg h) := by
  rw [intelExt_line 2 h (by decide) hh]
  simp [ihexMk, be2, b_toNat]
  omega

theorem intelExt_lin (h : Nat) (hh : h < 65536) : ihexLine (intelExtLine 4 h) = some (.extLin h) := by
  rw [intelExt_line 4 h (by decide) hh]
  simp [ihexMk, be2, b_toNat]
  omega

theorem intelExtLine_length (k h : Nat) : (intelExtLine k h).length = 15 := by
  have : (":020000".toList).length = 7 := rfl
  unfold intelExtLine
  simp only [List.length_append, this, hex2, hex4, byte2, bytesHex, List.length_cons, List.length_nil]

theorem intelExt_segV (ev h : Nat) (hh : h < 65536) : ihexLineV ev (intelExtLine 2 h) = some (.extSeg h) := by
  rw [ihexLineV_long _ _ (by rw [intelExtLine_length]; decide)]; exact intelExt_seg h hh

theorem intelExt_linV (ev h : Nat) (hh : h < 65536) : ihexLineV ev (intelExtLine 4 h) = some (.extLin h) := by
  rw [ihexLineV_long _ _ (by rw [intelExtLine_length]; decide)]; exact intelExt_lin h hh

/-! ### Intel: cells of a record inside a segment / a linear bank -/

theorem ihexCells_seg (base off : Nat) (d : List Byte) (h : off + d.length ≤ 65536) :
    ihexCells false base off d = cellsFrom (base + off) d := by
  induction d generalizing off with
  | nil => rfl
  | cons x xs ih =>
    simp only [List.length_cons] at h
    simp only [ihexCells, cellsFrom, Bool.false_eq_true, if_false]
    rw [ih (off + 1) (by omega), Nat.mod_eq_of_lt (by omega)]
    rfl

theorem ihexCells_lin (base off : Nat) (d : List Byte) (h : base + off + d.length ≤ 4294967296) :
    ihexCells true base off d = cellsFrom (base + off) d := by
  induction d generalizing off with
  | nil => rfl
  | cons x xs ih =>
    simp only [List.length_cons] at h
    simp only [ihexCells, cellsFrom, if_true]
    rw [ih (off + 1) (by omega), Nat.mod_eq_of_lt (by omega)]
    rfl

theorem ihexRun_dataD (lin : Bool) (base off : Nat) (d : List Byte) (rest : List IRec) :
    ihexRun lin base (.data off d :: rest) = addCellsD (ihexCells lin base off d) (ihexRun lin base rest) :=
  ihexRun_data lin base off d rest

theorem take_drop_cells (a n : Nat) (data : List Byte) (hn : n ≤ data.length) :
    cellsFrom a (data.take n) ++ cellsFrom (a + n) (data.drop n) = cellsFrom a data := by
  have := cellsFrom_append a (data.take n) (data.drop n)
  rw [List.take_append_drop] at this
  rw [this]
  simp [Nat.min_eq_left hn]

/-- a decoder continuation that does not look at the segment / linear base it is started with (terminators, or lines
that start with an extension record) -/
def StateIndep (rest : List IRec) : Prop :=
  ∀ l₁ b₁ l₂ b₂, ihexRun l₁ b₁ rest = ihexRun l₂ b₂ rest

theorem stateIndep_extLin (h : Nat) (rest : List IRec) : StateIndep (.extLin h :: rest) := by
  intro l₁ b₁ l₂ b₂; simp [ihexRun]

theorem stateIndep_extSeg (h : Nat) (rest : List IRec) : StateIndep (.extSeg h :: rest) := by
  intro l₁ b₁ l₂ b₂; simp [ihexRun]

theorem stateIndep_eof (a : Nat) (rest : List IRec) : StateIndep (.eof a :: rest) := by
  intro l₁ b₁ l₂ b₂; simp [ihexRun]

theorem stateIndep_startSeg (c i : Nat) (rest : List IRec) (h : StateIndep rest) : StateIndep (.startSeg c i :: rest) := by
  intro l₁ b₁ l₂ b₂; simp only [ihexRun]; rw [h l₁ b₁ l₂ b₂]

theorem stateIndep_startLin (a : Nat) (rest : List IRec) (h : StateIndep rest) : StateIndep (.startLin a :: rest) := by
  intro l₁ b₁ l₂ b₂; simp only [ihexRun]; rw [h l₁ b₁ l₂ b₂]

/-! ### Intel: the data-line loop -/

theorem intelLoop_nil (mm g ll : Nat) (is32 : Bool) (fuel a io : Nat) (fb : Bool) :
    intelLoop mm g ll is32 fuel a [] io fb = [] := by
  cases fuel <;> simp [intelLoop]

/-- unfolding of one iteration, 8/16-bit formats -/
theorem intelLoop_succ16 (ll f a io : Nat) (fb : Bool) (data : List Byte) (hd : data ≠ []) :
    intelLoop 0 1 ll false (f + 1) a data io fb =
      intelLine 0 1 io a (data.take (min ll data.length)) ::
        intelLoop 0 1 ll false f ((a + min ll data.length) % two32) (data.drop (min ll data.length)) io fb := by
  simp [intelLoop, hd]

theorem addCellsD_congr (x : List Cell) (r s : Option Decoded) (h : r = s) : addCellsD x r = addCellsD x s := by rw [h]

/-- **data-line loop, segment mode** (8-bit format: `io = 0`; 16-bit format: `io` = the paragraph-aligned `IntOffset`) -/
theorem intelLoop_seg (ev ll : Nat) (hll : 1 ≤ ll) (hl : ll ≤ 255) (io : Nat) (fb : Bool) :
    ∀ (fuel a : Nat) (data : List Byte), data.length ≤ fuel → io ≤ a → (a - io) + data.length ≤ 65536 →
      a + data.length ≤ two32 →
      ∃ rs, (intelLoop 0 1 ll false fuel a data io fb).mapM (ihexLineV ev) = some rs ∧
        ∀ base rest, ihexRun false base (rs ++ rest) =
          addCellsD (cellsFrom (base + (a - io)) data) (ihexRun false base rest) := by
  intro fuel
  induction fuel with
  | zero =>
    intro a data hf _ _ _
    have : data = [] := by cases data <;> simp_all
    subst this
    exact ⟨[], by simp [intelLoop], by intro base rest; simp [cellsFrom, addCellsD_nil]⟩
  | succ f ih =>
    intro a data hf hio ha h32
    by_cases hd : data = []
    · subst hd
      exact ⟨[], by simp [intelLoop], by intro base rest; simp [cellsFrom, addCellsD_nil]⟩
    · have hpos : 0 < data.length := List.length_pos_iff.mpr hd
      have hn1 : 1 ≤ min ll data.length := by omega
      have hn2 : min ll data.length ≤ data.length := Nat.min_le_right _ _
      have htl : (data.take (min ll data.length)).length = min ll data.length := by simp
      have hdl : (data.drop (min ll data.length)).length = data.length - min ll data.length := by simp
      have h32' : a < two32 := by omega
      have hline := intelLine_dataV ev io a (data.take (min ll data.length)) hio (by omega) h32' (by omega) (by rw [htl]; omega)
      rw [intelLoop_succ16 _ _ _ _ _ _ hd]
      by_cases hrest : data.drop (min ll data.length) = []
      · refine ⟨[.data (a - io) (data.take (min ll data.length))], ?_, ?_⟩
        · rw [hrest, intelLoop_nil]; exact mapM_cons_some _ _ _ _ _ hline (mapM_nil' _)
        · intro base rest
          have hall : data.take (min ll data.length) = data := by
            have := List.take_append_drop (min ll data.length) data
            rw [hrest, List.append_nil] at this; exact this
          rw [List.cons_append, List.nil_append, ihexRun_dataD, ihexCells_seg _ _ _ (by rw [htl]; omega), hall]
      · have hlt : min ll data.length < data.length := by
          have : 0 < (data.drop (min ll data.length)).length := List.length_pos_iff.mpr hrest
          omega
        have hmod : (a + min ll data.length) % two32 = a + min ll data.length := by
          apply Nat.mod_eq_of_lt; omega
        rw [hmod]
        obtain ⟨rs, h1, h4⟩ := ih (a + min ll data.length) (data.drop (min ll data.length))
          (by rw [hdl]; omega) (by omega) (by rw [hdl]; omega) (by rw [hdl]; omega)
        refine ⟨.data (a - io) (data.take (min ll data.length)) :: rs, mapM_cons_some _ _ _ _ _ hline h1, ?_⟩
        intro base rest
        rw [List.cons_append, ihexRun_dataD, h4, addCellsD_addCellsD, ihexCells_seg _ _ _ (by rw [htl]; omega)]
        congr 1
        have := take_drop_cells (base + (a - io)) (min ll data.length) data hn2
        rw [← this]
        congr 2
        omega



/-- the record length of one Intel32 iteration: up to the end of the 64 KiB bank -/
def n32 (ll a len : Nat) : Nat :=
  if a % 65536 + min ll len ≥ 65536 then (65536 - a % 65536) % 65536 else min ll len

/-- unfolding of one iteration, 32-bit format, no bank record pending -/
theorem intelLoop_succ32 (ll f a io : Nat) (data : List Byte) (hd : data ≠ []) :
    intelLoop 0 1 ll true (f + 1) a data io false =
      intelLine 0 1 io a (data.take (n32 ll a data.length)) ::
        intelLoop 0 1 ll true f ((a + n32 ll a data.length) % two32) (data.drop (n32 ll a data.length)) io
          (decide (a % 65536 + min ll data.length ≥ 65536)) := by
  unfold n32
  by_cases hs : a % 65536 + min ll data.length ≥ 65536
  · simp [intelLoop, hd, hs]
  · simp [intelLoop, hd, hs]

/-- unfolding of one iteration, 32-bit format, bank record pending: `IntOffset += 0x10000`, `:02000004…` -/
theorem intelLoop_succ32b (ll f a io : Nat) (data : List Byte) (hd : data ≠ []) :
    intelLoop 0 1 ll true (f + 1) a data io true =
      intelExtLine 4 (((io + 65536) % two32 / 65536) % 65536) ::
      intelLine 0 1 ((io + 65536) % two32) a (data.take (n32 ll a data.length)) ::
        intelLoop 0 1 ll true f ((a + n32 ll a data.length) % two32) (data.drop (n32 ll a data.length)) ((io + 65536) % two32)
          (decide (a % 65536 + min ll data.length ≥ 65536)) := by
  unfold n32
  by_cases hs : a % 65536 + min ll data.length ≥ 65536
  · simp [intelLoop, hd, hs]
  · simp [intelLoop, hd, hs]



theorem n32_facts (ll a len : Nat) (hll : 1 ≤ ll) (hl : ll ≤ 255) (hpos : 0 < len) :
    1 ≤ n32 ll a len ∧ n32 ll a len ≤ min ll len ∧ a % 65536 + n32 ll a len ≤ 65536 ∧
    (a % 65536 + min ll len ≥ 65536 → a % 65536 + n32 ll a len = 65536) ∧
    (¬ a % 65536 + min ll len ≥ 65536 → a % 65536 + n32 ll a len < 65536) := by
  unfold n32
  by_cases hs : a % 65536 + min ll len ≥ 65536
  · rw [if_pos hs]; omega
  · rw [if_neg hs]; omega

/-- invariant of the Intel32 data-line loop with `fuel` iterations left -/
def Lin32 (ev ll fuel : Nat) : Prop :=
  ∀ (a : Nat) (data : List Byte) (io : Nat) (fb : Bool), data.length ≤ fuel → a + data.length ≤ two32 →
    (fb = false → io = a - a % 65536) → (fb = true → a % 65536 = 0 ∧ io + 65536 = a) →
    ∃ rs, (intelLoop 0 1 ll true fuel a data io fb).mapM (ihexLineV ev) = some rs ∧
      ∀ rest, StateIndep rest → ihexRun true io (rs ++ rest) = addCellsD (cellsFrom a data) (ihexRun true io rest)

/-- one record + the remaining iterations, once `IntOffset` is the bank of `ErgStart` -/
theorem lin32_body (ev ll f : Nat) (hll : 1 ≤ ll) (hl : ll ≤ 255) (ih : Lin32 ev ll f) (a : Nat) (data : List Byte)
    (io : Nat) (hd : data ≠ []) (hf : data.length ≤ f + 1) (h32 : a + data.length ≤ two32) (hio : io = a - a % 65536) :
    ∃ rs, (intelLine 0 1 io a (data.take (n32 ll a data.length)) ::
        intelLoop 0 1 ll true f ((a + n32 ll a data.length) % two32) (data.drop (n32 ll a data.length)) io
          (decide (a % 65536 + min ll data.length ≥ 65536))).mapM (ihexLineV ev) = some rs ∧
      ∀ rest, StateIndep rest → ihexRun true io (rs ++ rest) = addCellsD (cellsFrom a data) (ihexRun true io rest) := by
  have hpos : 0 < data.length := List.length_pos_iff.mpr hd
  obtain ⟨hn1, hn2, hn3, hn4, hn5⟩ := n32_facts ll a data.length hll hl hpos
  generalize hn : n32 ll a data.length = n at *
  have hnle : n ≤ data.length := by omega
  have htl : (data.take n).length = n := by simp; omega
  have hdl : (data.drop n).length = data.length - n := by simp
  have h32' : a < two32 := by omega
  have hoff : a - io = a % 65536 := by omega
  have hline := intelLine_dataV ev io a (data.take n) (by omega) (by omega) h32' (by omega) (by rw [htl]; omega)
  have hcells : ihexCells true io (a - io) (data.take n) = cellsFrom a (data.take n) := by
    rw [ihexCells_lin _ _ _ (by rw [htl]; unfold two32 at h32; omega)]
    congr 1; omega
  by_cases hrest : data.drop n = []
  · refine ⟨[.data (a - io) (data.take n)], ?_, ?_⟩
    · rw [hrest, intelLoop_nil]; exact mapM_cons_some _ _ _ _ _ hline (mapM_nil' _)
    · intro rest _
      have hall : data.take n = data := by
        have := List.take_append_drop n data
        rw [hrest, List.append_nil] at this; exact this
      rw [List.cons_append, List.nil_append, ihexRun_dataD, hcells, hall]
  · have hlt : n < data.length := by
      have : 0 < (data.drop n).length := List.length_pos_iff.mpr hrest
      omega
    have hmod : (a + n) % two32 = a + n := by apply Nat.mod_eq_of_lt; omega
    rw [hmod]
    obtain ⟨rs, h1, h4⟩ := ih (a + n) (data.drop n) io (decide (a % 65536 + min ll data.length ≥ 65536))
      (by rw [hdl]; omega) (by rw [hdl]; omega)
      (by intro h; have h' : ¬ a % 65536 + min ll data.length ≥ 65536 := by simpa using h
          have := hn5 h'; omega)
      (by intro h; have h' : a % 65536 + min ll data.length ≥ 65536 := by simpa using h
          have := hn4 h'; omega)
    refine ⟨.data (a - io) (data.take n) :: rs, mapM_cons_some _ _ _ _ _ hline h1, ?_⟩
    intro rest hrest'
    rw [List.cons_append, ihexRun_dataD, h4 rest hrest', addCellsD_addCellsD, hcells, take_drop_cells a n data hnle]

theorem lin32_all (ev ll : Nat) (hll : 1 ≤ ll) (hl : ll ≤ 255) : ∀ fuel, Lin32 ev ll fuel := by
  intro fuel
  induction fuel with
  | zero =>
    intro a data io fb hf _ _ _
    have : data = [] := by cases data <;> simp_all
    subst this
    exact ⟨[], by simp [intelLoop], by intro rest _; simp [cellsFrom, addCellsD_nil]⟩
  | succ f ih =>
    intro a data io fb hf h32 hfalse htrue
    by_cases hd : data = []
    · subst hd
      exact ⟨[], by simp [intelLoop], by intro rest _; simp [cellsFrom, addCellsD_nil]⟩
    · have hpos : 0 < data.length := List.length_pos_iff.mpr hd
      cases fb with
      | false =>
        rw [intelLoop_succ32 _ _ _ _ _ hd]
        exact lin32_body ev ll f hll hl ih a data io hd hf h32 (hfalse rfl)
      | true =>
        obtain ⟨hz, hio⟩ := htrue rfl
        rw [intelLoop_succ32b _ _ _ _ _ hd]
        have hio' : (io + 65536) % two32 = a := by rw [hio]; apply Nat.mod_eq_of_lt; omega
        rw [hio']
        obtain ⟨rs, h1, h4⟩ := lin32_body ev ll f hll hl ih a data a hd hf h32 (by omega)
        have hext := intelExt_linV ev (a / 65536 % 65536) (Nat.mod_lt _ (by decide))
        refine ⟨.extLin (a / 65536 % 65536) :: rs, mapM_cons_some _ _ _ _ _ hext h1, ?_⟩
        intro rest hrest
        have hb : a / 65536 % 65536 * 65536 = a := by unfold two32 at h32; omega
        rw [List.cons_append]
        simp only [ihexRun]
        rw [hb, h4 rest hrest, hrest true a true io]


/-! ### Intel: entry-address records and the last line -/

theorem pre05 : ":04000005".toList = ':' :: bytesHex [b 4, b 0, b 0, b 5] := by decide
theorem pre03 : ":04000003".toList = ':' :: bytesHex [b 4, b 0, b 0, b 3] := by decide
theorem pre00 : ":00".toList = ':' :: bytesHex [b 0] := by decide
theorem mid01 : "01".toList = bytesHex [b 1] := by decide

/-- start linear address record (05) of `main` -/
theorem intel_startLin (e : Nat) (he : e < 4294967296) :
    ihexLine (":04000005".toList ++ hex8 e ++
      hex2 (lo (0x100 + 0x10000 - (4 + 5 + lo (e / 16777216) + lo (e / 65536) + lo (e / 256) + lo e) % 65536))) =
      some (.startLin e) := by
  unfold ihexLine
  simp only [pre05, hex2_eq, hex8, ← bytesHex_append, List.cons_append, List.nil_append, parseHex_bytesHex]
  have hsum : sum8 [b 4, b 0, b 0, b 5, b (e / 16777216), b (e / 65536), b (e / 256), b e,
      b (lo (256 + 65536 - (4 + 5 + lo (e / 16777216) + lo (e / 65536) + lo (e / 256) + lo e) % 65536))] % 256 = 0 := by
    simp only [sum8_cons, sum8_nil, b_toNat, lo]
    omega
  simp [hsum, b_toNat, ihexMk, be4]
  omega

/-- start segment address record (03) of `main` -/
theorem intel_startSeg (e : Nat) :
    ihexLine (":04000003".toList ++ hex4 (e / 16 % 65536) ++ hex4 (e % 16) ++
      hex2 (lo (0x100 + 0x10000 - (4 + 3 + lo (e / 16 % 65536) + lo (e / 16 % 65536 / 256) + e % 16) % 65536))) =
      some (.startSeg (e / 16 % 65536) (e % 16)) := by
  unfold ihexLine
  simp only [pre03, hex2_eq, hex4, ← bytesHex_append, List.cons_append, List.nil_append, parseHex_bytesHex]
  have hsum : sum8 [b 4, b 0, b 0, b 3, b (e / 16 % 65536 / 256), b (e / 16 % 65536), b (e % 16 / 256), b (e % 16),
      b (lo (256 + 65536 - (4 + 3 + lo (e / 16 % 65536) + lo (e / 16 % 65536 / 256) + e % 16) % 65536))] % 256 = 0 := by
    simp only [sum8_cons, sum8_nil, b_toNat, lo]
    omega
  simp [hsum, b_toNat, ihexMk, be2]
  omega

/-- the standard end-of-file record (`-i 0`) with the 8-bit format's entry address in its address field -/
theorem intel_eofLine (r : Nat) (hr : r < 65536) :
    ihexLine (":00".toList ++ hex4 r ++ "01".toList ++ hex2 (lo (0x100 + 0x10000 - (1 + lo (r / 256) + lo r)))) =
      some (.eof r) := by
  unfold ihexLine
  simp only [pre00, mid01, hex2_eq, hex4, ← bytesHex_append, List.cons_append, List.nil_append, parseHex_bytesHex]
  have hsum : sum8 [b 0, b (r / 256), b r, b 1, b (lo (256 + 65536 - (1 + lo (r / 256) + lo r)))] % 256 = 0 := by
    simp only [sum8_cons, sum8_nil, b_toNat, lo]
    omega
  simp [hsum, b_toNat, ihexMk]
  omega



theorem len9 (s : String) (h : s.toList.length = 9) (x y : List Char) (hx : x.length = 8) :
    12 ≤ (s.toList ++ x ++ y).length := by
  simp [List.length_append, h, hx]; omega

theorem hex4_length (n : Nat) : (hex4 n).length = 4 := by simp [hex4, bytesHex, byte2]
theorem hex8_length (n : Nat) : (hex8 n).length = 8 := by simp [hex8, bytesHex, byte2]

/-- last line of an Intel file for the three `-i` variants (`endRec = 0`) -/
theorem intel_lastLine (imode : Nat) (hi : imode ≤ 2) :
    ihexLineV imode (if imode = 0 then ":00".toList ++ hex4 0 ++ "01".toList ++ hex2 (lo (0x100 + 0x10000 - (1 + lo (0 / 256) + lo 0)))
      else if imode = 1 then ":00000001".toList else ":0000000000".toList) = some (.eof 0) := by
  rcases (by omega : imode = 0 ∨ imode = 1 ∨ imode = 2) with rfl | rfl | rfl <;> decide

theorem intelTerm_none (imode mi : Nat) (hi : imode ≤ 2) :
    (intelTerm imode mi none).mapM (ihexLineV imode) = some [.eof 0] := by
  have := intel_lastLine imode hi
  simp only [intelTerm, List.nil_append]
  exact mapM_cons_some _ _ _ _ _ this (mapM_nil' _)

theorem intelTerm_seg (imode e : Nat) (hi : imode ≤ 2) :
    (intelTerm imode 1 (some e)).mapM (ihexLineV imode) = some [.startSeg (e / 16 % 65536) (e % 16), .eof 0] := by
  have h0 := intel_lastLine imode hi
  have h1 := intel_startSeg e
  rw [← ihexLineV_long imode _ (by
    have := len9 ":04000003" rfl (hex4 (e / 16 % 65536) ++ hex4 (e % 16)) (hex2 (lo (0x100 + 0x10000 - (4 + 3 + lo (e / 16 % 65536) + lo (e / 16 % 65536 / 256) + e % 16) % 65536))) (by simp [hex4_length])
    simpa [List.append_assoc] using this)] at h1
  simp only [intelTerm, if_false, if_true, List.cons_append, List.nil_append, Nat.reduceEqDiff]
  exact mapM_cons_some _ _ _ _ _ h1 (mapM_cons_some _ _ _ _ _ h0 (mapM_nil' _))

theorem intelTerm_lin (imode e : Nat) (hi : imode ≤ 2) (he : e < 4294967296) :
    (intelTerm imode 2 (some e)).mapM (ihexLineV imode) = some [.startLin e, .eof 0] := by
  have h0 := intel_lastLine imode hi
  have h1 := intel_startLin e he
  rw [← ihexLineV_long imode _ (len9 ":04000005" rfl _ _ (hex8_length e))] at h1
  simp only [intelTerm, if_true, List.cons_append, List.nil_append]
  exact mapM_cons_some _ _ _ _ _ h1 (mapM_cons_some _ _ _ _ _ h0 (mapM_nil' _))

theorem intelTerm_8 (e : Nat) :
    (intelTerm 0 0 (some e)).mapM (ihexLineV 0) = some [.eof (e % 65536)] := by
  have h1 := intel_eofLine (e % 65536) (Nat.mod_lt _ (by decide))
  rw [← ihexLineV_zero] at h1
  simp only [intelTerm, if_true, List.nil_append, Nat.reduceEqDiff, if_false]
  exact mapM_cons_some _ _ _ _ _ h1 (mapM_nil' _)


/-! ### MOS -/

theorem mosLoop_nil (q : Quirks) (mm g ll fuel a chk : Nat) : mosLoop q mm g ll fuel a [] chk = ([], chk) := by
  cases fuel <;> simp [mosLoop]

theorem mosLoop_succ (q : Quirks) (ll f a chk : Nat) (data : List Byte) (hd : data ≠ []) :
    (mosLoop q 0 1 ll (f + 1) a data chk).1 =
      (P2Hex.mosLine q 0 1 chk a (data.take (min ll data.length))).1 ::
        (mosLoop q 0 1 ll f ((a + min ll data.length) % two32) (data.drop (min ll data.length))
          (P2Hex.mosLine q 0 1 chk a (data.take (min ll data.length))).2).1 := by
  simp [mosLoop, hd]

def addCellsL (cs0 : List Cell) (r : Option (List Cell)) : Option (List Cell) := r.map (cs0 ++ ·)

theorem addCellsL_nil (r : Option (List Cell)) : addCellsL [] r = r := by cases r <;> simp [addCellsL]
theorem addCellsL_addCellsL (x y : List Cell) (r : Option (List Cell)) :
    addCellsL x (addCellsL y r) = addCellsL (x ++ y) r := by cases r <;> simp [addCellsL]

theorem mosRun_data (n a : Nat) (d : List Byte) (rest : List MRec) :
    mosRun n (.data a d :: rest) = addCellsL (cellsFrom a d) (mosRun (n + 1) rest) := by
  simp only [mosRun, addCellsL]; cases mosRun (n + 1) rest <;> rfl

theorem pre_mos00 : ";00".toList = ';' :: bytesHex [b 0] := by decide

/-- the last record with the record count, as the repaired `main` writes it -/
theorem mosTerm_line (q : Quirks) (hq : q.mosConst4 = false) (n : Nat) (hn : n < 65536) :
    Hex.mosLine (mosTerm q n) = some (.last n) := by
  unfold mosTerm Hex.mosLine
  simp only [hq, Bool.false_eq_true, if_false, pre_mos00, hex4, ← bytesHex_append, List.cons_append, List.nil_append,
    parseHex_bytesHex]
  simp [b_toNat, be2, sum8_cons, sum8_nil, lo]
  omega

/-! ### Tektronix -/

theorem nibSum_bytesHex (bs : List Byte) : nibSum (bytesHex bs) = some (nibbles bs) := by
  induction bs with
  | nil => rfl
  | cons x xs ih =>
    have h1 : x.toNat / 16 < 16 := by have := x.toNat_lt; omega
    have h2 : x.toNat % 16 < 16 := Nat.mod_lt _ (by decide)
    simp only [bytesHex, byte2, List.cons_append, List.nil_append, nibSum, undigit_digit _ h1, undigit_digit _ h2, ih]
    simp [nibbles]; omega

theorem nibbles_append (x y : List Byte) : nibbles (x ++ y) = nibbles x + nibbles y := by simp [nibbles]

theorem bytesHex_take (x y : List Byte) : (bytesHex (x ++ y)).take (2 * x.length) = bytesHex x := by
  rw [bytesHex_append, ← bytesHex_length x]; simp

/-- a Tektronix block whose two checksum bytes are the digit sums decodes to its address and data -/
theorem tekLine_mk (ah al : Byte) (d : List Byte) (h1 : 1 ≤ d.length) (hl : d.length ≤ 255) (c1 c2 : Byte)
    (hc1 : c1.toNat = nibbles [ah, al, b d.length] % 256) (hc2 : c2 = UInt8.ofNat (nibbles d % 256)) :
    Hex.tekLine ('/' :: (bytesHex [ah, al, b d.length, c1] ++ bytesHex (d ++ [c2]))) =
      some (.data (ah.toNat * 256 + al.toNat) d) := by
  have e1 : parseHex [digit (ah.toNat / 16), digit (ah.toNat % 16), digit (al.toNat / 16), digit (al.toNat % 16),
      digit ((b d.length).toNat / 16), digit ((b d.length).toNat % 16), digit (c1.toNat / 16), digit (c1.toNat % 16)] =
      some [ah, al, b d.length, c1] := parseHex_bytesHex [ah, al, b d.length, c1]
  have e2 : nibSum [digit (ah.toNat / 16), digit (ah.toNat % 16), digit (al.toNat / 16), digit (al.toNat % 16),
      digit ((b d.length).toNat / 16), digit ((b d.length).toNat % 16)] = some (nibbles [ah, al, b d.length]) :=
    nibSum_bytesHex [ah, al, b d.length]
  have hcnt : (b d.length).toNat = d.length := by rw [b_toNat]; omega
  have e3 : nibSum ((bytesHex (d ++ [c2])).take (2 * (b d.length).toNat)) = some (nibbles d) := by
    rw [hcnt, bytesHex_take, nibSum_bytesHex]
  have hne : ¬ (b d.length).toNat = 0 := by omega
  show Hex.tekLine ('/' :: digit (ah.toNat / 16) :: digit (ah.toNat % 16) :: digit (al.toNat / 16) :: digit (al.toNat % 16) ::
      digit ((b d.length).toNat / 16) :: digit ((b d.length).toNat % 16) :: digit (c1.toNat / 16) :: digit (c1.toNat % 16) ::
      bytesHex (d ++ [c2])) = _
  unfold Hex.tekLine
  simp only [e1, e2]
  simp only [e3, parseHex_bytesHex]
  simp [hc1, hcnt, hc2]
  intro e; rw [e] at h1; simp at h1



theorem tekLoop_nil (q : Quirks) (mm g ll fuel a : Nat) : tekLoop q mm g ll fuel a [] = [] := by
  cases fuel <;> simp [tekLoop]

theorem tekLoop_succ (q : Quirks) (ll f a : Nat) (data : List Byte) (hd : data ≠ []) :
    tekLoop q 0 1 ll (f + 1) a data =
      P2Hex.tekLine q 0 1 a (data.take (min ll data.length)) ::
        tekLoop q 0 1 ll f ((a + min ll data.length) % two32) (data.drop (min ll data.length)) := by
  simp [tekLoop, hd]

theorem tekRun_data (a : Nat) (d : List Byte) (rest : List TRec) :
    tekRun (.data a d :: rest) = addCells (cellsFrom a d) (tekRun rest) := by
  simp only [tekRun, addCells]; cases tekRun rest <;> rfl

/-! ### Atmel generic -/

/-- `<address bytes>:<hi><lo>` decodes to the address and the word's bytes in memory order -/
theorem atmelLine_mk (ab : List Byte) (hi lo : Byte) :
    Hex.atmelLine (2 * ab.length) (bytesHex ab ++ ':' :: bytesHex [hi, lo]) = some (be ab, [lo, hi]) := by
  unfold Hex.atmelLine
  have hlen : (bytesHex ab ++ ':' :: bytesHex [hi, lo]).length = 2 * ab.length + 5 := by
    simp [bytesHex_length, bytesHex, byte2]
  have hget : (bytesHex ab ++ ':' :: bytesHex [hi, lo]).getD (2 * ab.length) ' ' = ':' := by
    rw [← bytesHex_length ab]; simp [List.getD]
  have htake : (bytesHex ab ++ ':' :: bytesHex [hi, lo]).take (2 * ab.length) = bytesHex ab := by
    rw [← bytesHex_length ab]; simp
  have hdrop : (bytesHex ab ++ ':' :: bytesHex [hi, lo]).drop (2 * ab.length + 1) = bytesHex [hi, lo] := by
    rw [← bytesHex_length ab, List.drop_append]; simp
  rw [if_pos ⟨hlen, hget⟩, htake, hdrop]
  simp only [parseHex_bytesHex]

theorem atmelLoop_nil (avrLen g ll fuel a : Nat) : atmelLoop avrLen g ll fuel a [] = [] := by
  cases fuel <;> simp [atmelLoop]

/-! ### C array -/

theorem undigitAny_digit (n : Nat) (h : n < 16) : undigitAny (digit n) = some n := by
  have : ∀ n, n < 16 → undigitAny (digit n) = some n := by decide
  exact this n h

theorem undigitAny_digitL (n : Nat) (h : n < 16) : undigitAny (digitL n) = some n := by
  have : ∀ n, n < 16 → undigitAny (digitL n) = some n := by decide
  exact this n h

theorem pre0x : "0x".toList = ['0', 'x'] := by decide

theorem byte_of_nibbles (x : Byte) : UInt8.ofNat (x.toNat / 16 * 16 + x.toNat % 16) = x := by
  apply UInt8.toNat_inj.mp
  have := x.toNat_lt
  simp
  omega

/-- the items of one data line parse back to the line's bytes; the group's last byte carries no comma -/
theorem cItems_line (lower : Bool) (g ergLen : Nat) :
    ∀ (buf : List Byte) (z : Nat), z + buf.length ≤ ergLen → cItems (cLineItems lower 0 g ergLen z buf) = some buf := by
  intro buf
  induction buf with
  | nil => intro z _; simp [cLineItems, cItems]
  | cons x xs ih =>
    intro z hz
    have h1 : x.toNat / 16 < 16 := by have := x.toNat_lt; omega
    have h2 : x.toNat % 16 < 16 := Nat.mod_lt _ (by decide)
    have hdig : (if lower then byte2L x else byte2 x) =
        [if lower then digitL (x.toNat / 16) else digit (x.toNat / 16), if lower then digitL (x.toNat % 16) else digit (x.toNat % 16)] := by
      cases lower <;> simp [byte2, byte2L]
    have hu1 : undigitAny (if lower then digitL (x.toNat / 16) else digit (x.toNat / 16)) = some (x.toNat / 16) := by
      cases lower <;> simp [undigitAny_digit _ h1, undigitAny_digitL _ h1]
    have hu2 : undigitAny (if lower then digitL (x.toNat % 16) else digit (x.toNat % 16)) = some (x.toNat % 16) := by
      cases lower <;> simp [undigitAny_digit _ h2, undigitAny_digitL _ h2]
    simp only [List.length_cons] at hz
    cases xs with
    | nil =>
      simp only [cLineItems, cItem, pre0x, hdig, Nat.zero_lt_succ, true_or, if_true, List.cons_append, List.nil_append,
        List.append_nil]
      by_cases hc : ergLen - z > 1
      · simp only [hc, decide_true, if_true, cItems, hu1, hu2, byte_of_nibbles]
      · simp only [hc, decide_false, Bool.false_eq_true, if_false, cItems, hu1, hu2, byte_of_nibbles]
    | cons y ys =>
      have hc : ergLen - z > 1 := by simp only [List.length_cons] at hz; omega
      have ih' := ih (z + 1) (by simp only [List.length_cons] at hz ⊢; omega)
      rw [cLineItems]
      simp only [cItem, pre0x, hdig, Nat.zero_lt_succ, true_or, if_true, List.cons_append, List.nil_append, hc, decide_true]
      simp only [cItems, hu1, hu2, ih', byte_of_nibbles]


theorem closeBrace : "};".toList = ['}', ';'] := by decide
theorem openBrace : "{".toList = ['{'] := by decide

/-- one data line of a C array inside the braces -/
theorem cRun_line (items : List Char) (bs : List Byte) (h : cItems items = some bs) (rest : List (List Char)) (cur : CBlock)
    (acc : List CBlock) :
    cRun ((' ' :: ' ' :: items) :: rest) cur true acc = cRun rest { cur with data := cur.data ++ bs } true acc := by
  rw [cRun]
  simp only [if_true, closeBrace, openBrace, List.cons.injEq, Char.reduceEq, false_and, if_false, h]

theorem cRun_open (rest : List (List Char)) (cur : CBlock) (acc : List CBlock) :
    cRun ("{".toList :: rest) cur true acc = cRun rest cur true acc := by
  simp [cRun, closeBrace, openBrace]

theorem cRun_close (rest : List (List Char)) (cur : CBlock) (acc : List CBlock) :
    cRun ("};".toList :: rest) cur true acc = if cur.ok then cRun rest {} false (cur :: acc) else none := by
  simp [cRun, closeBrace, openBrace]

theorem cLoop_nil (lower : Bool) (mm g ll fuel : Nat) : cLoop lower mm g ll fuel [] = [] := by
  cases fuel <;> simp [cLoop]

theorem cLoop_succ (lower : Bool) (g ll f : Nat) (data : List Byte) (hd : data ≠ []) :
    cLoop lower 0 g ll (f + 1) data =
      (' ' :: ' ' :: cLineItems lower 0 g data.length 0 (data.take (min ll data.length))) ::
        cLoop lower 0 g ll f (data.drop (min ll data.length)) := by
  simp [cLoop, hd]

/-- the data lines of one block: the scanner collects exactly the block's bytes -/
theorem cRun_loop (lower : Bool) (g ll : Nat) (hll : 1 ≤ ll) :
    ∀ (fuel : Nat) (data : List Byte) (cur : CBlock) (acc : List CBlock) (rest : List (List Char)), data.length ≤ fuel →
      cRun (cLoop lower 0 g ll fuel data ++ rest) cur true acc =
        cRun rest { cur with data := cur.data ++ data } true acc := by
  intro fuel
  induction fuel with
  | zero =>
    intro data cur acc rest hf
    have : data = [] := by cases data <;> simp_all
    subst this
    simp [cLoop]
  | succ f ih =>
    intro data cur acc rest hf
    by_cases hd : data = []
    · subst hd; simp [cLoop]
    · have hpos : 0 < data.length := List.length_pos_iff.mpr hd
      have hn2 : min ll data.length ≤ data.length := Nat.min_le_right _ _
      have htl : (data.take (min ll data.length)).length = min ll data.length := by simp
      have hdl : (data.drop (min ll data.length)).length = data.length - min ll data.length := by simp
      have hitems := cItems_line lower g data.length (data.take (min ll data.length)) 0 (by rw [htl]; omega)
      rw [cLoop_succ _ _ _ _ _ hd, List.cons_append, cRun_line _ _ hitems, ih _ _ _ _ (by rw [hdl]; omega)]
      simp [List.append_assoc]


/-! ### record selection (`-r`, `-a`, `-R`) -/

/-- start address of the window part of a record before `-a` / `-R` -/
def clipStart (startOf : Nat → Nat) (r : Rec) : Nat := max (startOf r.seg.toNat) r.start
def clipStop (stopOf : Nat → Nat) (r : Rec) : Nat := min (stopOf r.seg.toNat) (recEnd r)

/-- the bytes of the record inside the window -/
def clipData (startOf stopOf : Nat → Nat) (r : Rec) : List Byte :=
  (r.data.drop ((clipStart startOf r - r.start) * r.gran.toNat)).take
    (((clipStop stopOf r + 1 - clipStart startOf r) * r.gran.toNat) % 65536)

theorem selectRec_fields (o : Opts) (startOf stopOf : Nat → Nat) (r : Rec) (g : Group) (ov : Bool)
    (hsel : selectRec o startOf stopOf r = .ok (some (g, ov))) :
    actFormat o r.cpu.toNat = .ok g.fmt ∧ g.seg = r.seg.toNat ∧ g.gran = r.gran.toNat ∧
    g.ergStop = clipStop stopOf r ∧ g.data = clipData startOf stopOf r ∧
    g.ergStart = ((if o.relAdr then (clipStart startOf r + two32 - startOf r.seg.toNat) % two32 else clipStart startOf r)
      + o.relocate) % two32 ∧ clipStart startOf r ≤ clipStop stopOf r := by
  unfold selectRec at hsel
  cases hf : actFormat o r.cpu.toNat with
  | error e => simp [hf, bind, Except.bind] at hsel
  | ok f =>
    simp only [hf, bind, Except.bind, pure, Except.pure] at hsel
    repeat' (split at hsel)
    all_goals first
      | (simp at hsel; done)
      | (simp only [Except.ok.injEq, Option.some.injEq, Prod.mk.injEq] at hsel
         obtain ⟨hg, _⟩ := hsel
         subst hg
         refine ⟨rfl, rfl, rfl, rfl, rfl, ?_, ?_⟩
         · simp [clipStart, *]
         · unfold clipStart clipStop
           omega)


theorem intelTerm_8v (imode e : Nat) (hi : imode ≤ 2) :
    (intelTerm imode 0 (some e)).mapM (ihexLineV imode) = some [.eof (if imode = 0 then e % 65536 else 0)] := by
  rcases (by omega : imode = 0 ∨ imode = 1 ∨ imode = 2) with rfl | rfl | rfl
  · exact intelTerm_8 e
  · have : ihexLineV 1 ":00000001".toList = some (.eof 0) := by decide
    simp only [intelTerm, List.nil_append, Nat.succ_ne_self, if_false, if_true, Nat.reduceEqDiff]
    exact mapM_cons_some _ _ _ _ _ this (mapM_nil' _)
  · have : ihexLineV 2 ":0000000000".toList = some (.eof 0) := by decide
    simp only [intelTerm, List.nil_append, Nat.succ_ne_self, if_false, if_true, Nat.reduceEqDiff]
    exact mapM_cons_some _ _ _ _ _ this (mapM_nil' _)

/-! ### the formats with address relocation theorems: reader, announced entry, range condition -/

/-- the public reader for the format of a group (Motorola S and the three Intel formats) -/
def readLines (f : Fmt) (imode : Nat) (ls : List (List Char)) : Option Decoded :=
  match f with
  | .moto => decodeSrecLines ls
  | _ => decodeIhexLines imode ls

/-- what the file says about the entry address `e`: (entry records, address field of the Intel end record).
S-records always carry a termination record (address 0 without entry); the 8-bit Intel format has no entry record, the
address field of its end record holds the entry (standard end record only); Intel 16/32 have records 03/05. -/
def announced (f : Fmt) (imode : Nat) (e : Option Nat) : List Nat × Nat :=
  match f with
  | .moto => ([e.getD 0], 0)
  | .intel => ([], if imode = 0 then e.getD 0 % 65536 else 0)
  | _ => (e.toList, 0)

/-- **range condition**: the (relocated) group and the entry address can be expressed in the group's format.
Its negation is the input class of the findings `range-check-ignores-relocation` (the record type / `MaxAdr` test look at the
address *before* `-a`/`-R`), `intel16-segment-truncated-above-1mib`, `intel16-group-longer-than-64k-wraps` and
`moto-count-byte-overflow-linelen-over-252`.  For Motorola the option set is the one of `C06_moto` (`+5`, no `-s`). -/
def Fits (o : Opts) (g : Group) (e : Option Nat) : Prop :=
  match g.fmt with
  | .moto => o.rec5 = false ∧ o.sepMoto = false ∧ o.destFormat = some .moto ∧ o.minMoto ≤ 3 ∧
      o.lineLen + 3 + motoRecType o.minMoto g.ergStop ≤ 255 ∧
      g.ergStart + g.data.length ≤ 65536 * 256 ^ motoRecType o.minMoto g.ergStop ∧
      g.ergStart + g.data.length < 4294967296 ∧ e.getD 0 < 65536 * 256 ^ motoRecType o.minMoto g.ergStop
  | .intel => o.destFormat ≠ some .c ∧ o.lineLen ≤ 255 ∧ o.intelMode ≤ 2 ∧ g.ergStart + g.data.length ≤ 65536
  | .intel16 => o.destFormat ≠ some .c ∧ o.lineLen ≤ 255 ∧ o.intelMode ≤ 2 ∧ g.ergStart < 0x100000 ∧
      g.ergStart % 16 + g.data.length ≤ 65536 ∧ e.getD 0 < 0x100000
  | .intel32 => o.destFormat ≠ some .c ∧ o.lineLen ≤ 255 ∧ o.intelMode ≤ 2 ∧ g.ergStart < 4294967296 ∧
      g.ergStart + g.data.length ≤ 4294967296 ∧ e.getD 0 < 4294967296
  | _ => False

/-! ### default format per family -/

open AslModel.HexFamilies in
/-- the manual's name for a format of the model -/
def fmtClass : Fmt → Option DefClass
  | .moto => some .srec
  | .intel | .intel16 | .intel32 => some .intel
  | .mos => some .mos
  | .dsk => some .dsk
  | .atmel => some .atmel
  | .tek | .mico8 | .c => none

open AslModel.HexFamilies in
/-- what `ProcessFile` does for a record of family `id` without `-F`: `FindFamilyById(id)->HexFormat`, read through the
model's `actFormat` (generated `headids.c` table); `none` = the record is rejected -/
def modelDefault (id : Nat) : Option DefClass :=
  match actFormat {} id with
  | .ok f => fmtClass f
  | .error _ => none

/-- the families whose default format in `headids.c` is not the one the manual's sentence gives
(finding `default-format-differs-from-manual`): XCore, MELPS-4500, 2650, TLCS-9000 -/
def defaultFormatDeviations : List Nat := [0x06, 0x12, 0x37, 0x56]


/-! ### several groups in the extended Intel formats -/

/-- records that contribute `cells` and leave any state-independent continuation untouched -/
def Transparent (rs : List IRec) (cells : List Cell) : Prop :=
  ∀ rest, StateIndep rest → ∀ l b, ihexRun l b (rs ++ rest) = addCellsD cells (ihexRun l b rest)

theorem transparent_nil : Transparent [] [] := by
  intro rest _ l b; simp [addCellsD_nil]

theorem transparent_indep (rs : List IRec) (cells : List Cell) (h : Transparent rs cells) (rest : List IRec)
    (hr : StateIndep rest) : StateIndep (rs ++ rest) := by
  intro l₁ b₁ l₂ b₂
  rw [h rest hr, h rest hr, hr l₁ b₁ l₂ b₂]

theorem transparent_append (r1 r2 : List IRec) (c1 c2 : List Cell) (h1 : Transparent r1 c1) (h2 : Transparent r2 c2) :
    Transparent (r1 ++ r2) (c1 ++ c2) := by
  intro rest hr l b
  rw [List.append_assoc, h1 _ (transparent_indep r2 c2 h2 rest hr), h2 rest hr, addCellsD_addCellsD]

/-- the lines of one Intel32 group (`:02000004…` + data lines with bank records) -/
theorem group32_transparent (ev ll a : Nat) (data : List Byte) (hll : 1 ≤ ll) (hl : ll ≤ 255) (ha : a < 4294967296)
    (h32 : a + data.length ≤ 4294967296) :
    ∃ rs, ((intel32Head 1 a).1 :: intelLoop 0 1 ll true data.length a data (intel32Head 1 a).2 false).mapM (ihexLineV ev) = some rs ∧
      Transparent rs (cellsFrom a data) := by
  have hhead : intel32Head 1 a = (intelExtLine 4 ((a - a % 65536) / 65536 % 65536), a - a % 65536) := by
    simp [intel32Head, two32, Nat.mod_eq_of_lt ha]
  rw [hhead]
  obtain ⟨rs, h1, h4⟩ := lin32_all ev ll hll hl data.length a data (a - a % 65536) false (Nat.le_refl _)
    (by unfold two32; omega) (fun _ => rfl) (by intro h; cases h)
  have hext := intelExt_linV ev ((a - a % 65536) / 65536 % 65536) (Nat.mod_lt _ (by decide))
  have hbase : (a - a % 65536) / 65536 % 65536 * 65536 = a - a % 65536 := by omega
  refine ⟨_, mapM_cons_some _ _ _ _ _ hext h1, ?_⟩
  intro rest hr l b
  rw [List.cons_append]
  simp only [ihexRun]
  rw [hbase, h4 rest hr, hr true (a - a % 65536) l b]

/-- the lines of one Intel16 group (`:02000002…` + data lines) -/
theorem group16_transparent (ev ll a : Nat) (data : List Byte) (hll : 1 ≤ ll) (hl : ll ≤ 255) (ha : a < 0x100000)
    (hseg : a % 16 + data.length ≤ 65536) :
    ∃ rs, ((intel16Head 1 a).1 :: intelLoop 0 1 ll false data.length a data (intel16Head 1 a).2 false).mapM (ihexLineV ev) = some rs ∧
      Transparent rs (cellsFrom a data) := by
  have hhead : intel16Head 1 a = (intelExtLine 2 ((a - a % 16) / 16 % 65536), a - a % 16) := by
    simp [intel16Head, two32, Nat.mod_eq_of_lt (by omega : a < 4294967296)]
  rw [hhead]
  obtain ⟨rs, h1, h4⟩ := intelLoop_seg ev ll hll hl (a - a % 16) false data.length a data (Nat.le_refl _) (by omega)
    (by omega) (by unfold two32; omega)
  have hext := intelExt_segV ev ((a - a % 16) / 16 % 65536) (Nat.mod_lt _ (by decide))
  have hbase : (a - a % 16) / 16 % 65536 * 16 + (a - (a - a % 16)) = a := by omega
  refine ⟨_, mapM_cons_some _ _ _ _ _ hext h1, ?_⟩
  intro rest hr l b
  rw [List.cons_append]
  simp only [ihexRun]
  rw [h4, hbase, hr false _ l b]



/-- a group the 32-bit format can express (byte-addressed target, inside the 32-bit range) -/
def Ok32 (g : Group) : Prop :=
  g.fmt = .intel32 ∧ g.gran = 1 ∧ g.ergStart < 4294967296 ∧ g.ergStart + g.data.length ≤ 4294967296

/-- a group the 16-bit format can express with its single segment record (see `C06_intel16_file`) -/
def Ok16 (g : Group) : Prop :=
  g.fmt = .intel16 ∧ g.gran = 1 ∧ g.ergStart < 0x100000 ∧ g.ergStart % 16 + g.data.length ≤ 65536

/-- the address → byte cells of a list of groups, in file order -/
def imageOf (gs : List Group) : List Cell := gs.flatMap (fun g => cellsFrom g.ergStart g.data)

theorem emitGroups_cons (o : Opts) (st st1 st2 : St) (g : Group) (gs : List Group) (l1 l2 : List P2Hex.Line)
    (h1 : emitGroup o st g = .ok (st1, l1)) (h2 : emitGroups o st1 gs = .ok (st2, l2)) :
    emitGroups o st (g :: gs) = .ok (st2, l1 ++ l2) := by
  simp [emitGroups, h1, h2, bind, Except.bind, pure, Except.pure]

theorem emitGroups_32 (o : Opts) (hmm : o.multiMode = 0) (hll : 1 ≤ o.lineLen) (hl : o.lineLen ≤ 255) :
    ∀ (gs : List Group) (st : St), (∀ g ∈ gs, Ok32 g) →
      ∃ st' ls rs, emitGroups o st gs = .ok (st', ls) ∧ st'.motoOcc = st.motoOcc ∧ st'.mosOcc = st.mosOcc ∧
        (gs ≠ [] → st'.intelOcc = true ∧ st'.maxIntel = max st.maxIntel 2) ∧
        ls.mapM (ihexLineV o.intelMode) = some rs ∧ Transparent rs (imageOf gs) := by
  intro gs
  induction gs with
  | nil =>
    intro st _
    exact ⟨st, [], [], rfl, rfl, rfl, by intro h; exact absurd rfl h, rfl, transparent_nil⟩
  | cons g gs ih =>
    intro st hall
    obtain ⟨hf, hg, ha, h32⟩ := hall g (by simp)
    obtain ⟨fmt, seg, gran, ergStart, ergStop, data⟩ := g
    simp only at hf hg ha h32
    subst hf hg
    obtain ⟨rs1, hm1, ht1⟩ := group32_transparent o.intelMode o.lineLen ergStart data hll hl ha h32
    obtain ⟨st2, l2, rs2, he2, hmo, hms, hint, hm2, ht2⟩ :=
      ih { st with intelOcc := true, maxIntel := max st.maxIntel 2 } (fun g hg => hall g (by simp [hg]))
    refine ⟨st2, _, rs1 ++ rs2, emitGroups_cons o st _ st2 _ gs _ l2 ?_ he2, hmo, hms, ?_,
      mapM_append_some _ _ _ _ _ hm1 hm2, ?_⟩
    · simp [emitGroup, hmm]
    · intro _
      by_cases hgs : gs = []
      · subst hgs
        simp only [emitGroups, Except.ok.injEq, Prod.mk.injEq] at he2
        rw [← he2.1]; exact ⟨rfl, rfl⟩
      · obtain ⟨hi1, hi2⟩ := hint hgs
        refine ⟨hi1, ?_⟩
        rw [hi2]; simp only; omega
    · have : imageOf (⟨.intel32, seg, 1, ergStart, ergStop, data⟩ :: gs) = cellsFrom ergStart data ++ imageOf gs := by
        simp [imageOf]
      rw [this]
      exact transparent_append _ _ _ _ ht1 ht2

theorem emitGroups_16 (o : Opts) (hmm : o.multiMode = 0) (hll : 1 ≤ o.lineLen) (hl : o.lineLen ≤ 255) :
    ∀ (gs : List Group) (st : St), (∀ g ∈ gs, Ok16 g) →
      ∃ st' ls rs, emitGroups o st gs = .ok (st', ls) ∧ st'.motoOcc = st.motoOcc ∧ st'.mosOcc = st.mosOcc ∧
        (gs ≠ [] → st'.intelOcc = true ∧ st'.maxIntel = max st.maxIntel 1) ∧
        ls.mapM (ihexLineV o.intelMode) = some rs ∧ Transparent rs (imageOf gs) := by
  intro gs
  induction gs with
  | nil =>
    intro st _
    exact ⟨st, [], [], rfl, rfl, rfl, by intro h; exact absurd rfl h, rfl, transparent_nil⟩
  | cons g gs ih =>
    intro st hall
    obtain ⟨hf, hg, ha, h32⟩ := hall g (by simp)
    obtain ⟨fmt, seg, gran, ergStart, ergStop, data⟩ := g
    simp only at hf hg ha h32
    subst hf hg
    obtain ⟨rs1, hm1, ht1⟩ := group16_transparent o.intelMode o.lineLen ergStart data hll hl ha h32
    obtain ⟨st2, l2, rs2, he2, hmo, hms, hint, hm2, ht2⟩ :=
      ih { st with intelOcc := true, maxIntel := max st.maxIntel 1 } (fun g hg => hall g (by simp [hg]))
    refine ⟨st2, _, rs1 ++ rs2, emitGroups_cons o st _ st2 _ gs _ l2 ?_ he2, hmo, hms, ?_,
      mapM_append_some _ _ _ _ _ hm1 hm2, ?_⟩
    · simp [emitGroup, hmm]
    · intro _
      by_cases hgs : gs = []
      · subst hgs
        simp only [emitGroups, Except.ok.injEq, Prod.mk.injEq] at he2
        rw [← he2.1]; exact ⟨rfl, rfl⟩
      · obtain ⟨hi1, hi2⟩ := hint hgs
        refine ⟨hi1, ?_⟩
        rw [hi2]; simp only; omega
    · have : imageOf (⟨.intel16, seg, 1, ergStart, ergStop, data⟩ :: gs) = cellsFrom ergStart data ++ imageOf gs := by
        simp [imageOf]
      rw [this]
      exact transparent_append _ _ _ _ ht1 ht2


open AslModel.HexImage (granules recCells granuleCells)

/-! ### the model's window clipping against the SPEC image (`Spec/HexImage.lean`), byte-addressed targets -/

theorem granules_one (f : Nat) (bs : List Byte) (h : bs.length ≤ f) : granules 1 f bs = bs.map (fun x => [x]) := by
  induction f generalizing bs with
  | zero =>
    have : bs = [] := by cases bs <;> simp_all
    subst this; simp [granules]
  | succ f ih =>
    cases bs with
    | nil => simp [granules]
    | cons x xs =>
      simp only [List.length_cons] at h
      simp [granules, ih xs (by omega)]

/-- the SPEC's per-granule cell function for `Gran = 1`, `-m 0` -/
def cellAt (lo hi : Nat) (rel : Bool) (reloc start : Nat) (p : List Byte × Nat) : List Cell :=
  if lo ≤ start + p.2 ∧ start + p.2 ≤ hi then
    granuleCells 0 1 ((start + p.2 - (if rel then lo else 0) + reloc) % HexImage.two32) p.1
  else []

theorem cells_outside (lo hi : Nat) (rel : Bool) (reloc start : Nat) (l : List Byte) (n : Nat)
    (h : ∀ i, n ≤ i → i < n + l.length → ¬ (lo ≤ start + i ∧ start + i ≤ hi)) :
    ((l.map (fun x => [x])).zipIdx n).flatMap (cellAt lo hi rel reloc start) = [] := by
  induction l generalizing n with
  | nil => simp
  | cons x xs ih =>
    simp only [List.map_cons, List.zipIdx_cons, List.flatMap_cons]
    rw [ih (n + 1) (fun i h1 h2 => h i (by omega) (by simp only [List.length_cons]; omega))]
    have := h n (Nat.le_refl _) (by simp only [List.length_cons]; omega)
    simp [cellAt, this]

theorem cells_inside (lo hi : Nat) (rel : Bool) (reloc start : Nat) (l : List Byte) (n : Nat)
    (h : ∀ i, n ≤ i → i < n + l.length → (lo ≤ start + i ∧ start + i ≤ hi))
    (hw : start + n + l.length - (if rel then lo else 0) + reloc ≤ HexImage.two32) :
    ((l.map (fun x => [x])).zipIdx n).flatMap (cellAt lo hi rel reloc start) =
      cellsFrom (start + n - (if rel then lo else 0) + reloc) l := by
  induction l generalizing n with
  | nil => simp [cellsFrom]
  | cons x xs ih =>
    have hin := h n (Nat.le_refl _) (by simp only [List.length_cons]; omega)
    simp only [List.length_cons] at hw
    have hlo : (if rel then lo else 0) ≤ start + n := by
      cases rel <;> simp <;> omega
    simp only [List.map_cons, List.zipIdx_cons, List.flatMap_cons]
    rw [ih (n + 1) (fun i h1 h2 => h i (by omega) (by simp only [List.length_cons]; omega)) (by omega)]
    have hmod : (start + n - (if rel then lo else 0) + reloc) % HexImage.two32 = start + n - (if rel then lo else 0) + reloc := by
      apply Nat.mod_eq_of_lt; omega
    simp only [cellAt, hin, and_self, if_true, granuleCells, hmod, cellsFrom, Nat.mul_one, List.cons_append, List.nil_append]
    congr 2
    omega



theorem recCells_eq (lo hi : Nat) (rel : Bool) (reloc : Nat) (r : Rec) (hg : r.gran.toNat = 1) :
    recCells lo hi rel reloc 0 r =
      ((r.data.map (fun x => [x])).zipIdx 0).flatMap (cellAt lo hi rel reloc r.start) := by
  unfold recCells
  simp only [hg, granules_one _ _ (Nat.le_refl _)]
  congr 1

/-- **window clipping = SPEC image** for one record of a byte-addressed target: the cells of the model's window part
(`clipData` at `clipStart`, shifted by `-a` / `-R`) are exactly the cells `Spec/HexImage.recCells` prescribes granule by granule -/
theorem recCells_clip (startOf stopOf : Nat → Nat) (rel : Bool) (reloc : Nat) (r : Rec) (hg : r.gran.toNat = 1)
    (hlen1 : 1 ≤ r.data.length) (hlen : r.data.length < 65536) (h32 : r.start + r.data.length ≤ 4294967296)
    (hwin : clipStart startOf r ≤ clipStop stopOf r)
    (hw : clipStop stopOf r + 1 - (if rel then startOf r.seg.toNat else 0) + reloc ≤ 4294967296) :
    recCells (startOf r.seg.toNat) (stopOf r.seg.toNat) rel reloc 0 r =
      cellsFrom (clipStart startOf r - (if rel then startOf r.seg.toNat else 0) + reloc) (clipData startOf stopOf r) := by
  rw [recCells_eq _ _ _ _ _ hg]
  generalize hlo : startOf r.seg.toNat = lo at *
  generalize hhi : stopOf r.seg.toNat = hi at *
  have hend : recEnd r = r.start + r.data.length - 1 := by
    unfold recEnd two32; rw [hg, Nat.div_one]; omega
  have hcs : clipStart startOf r = max lo r.start := by unfold clipStart; rw [hlo]
  have hce : clipStop stopOf r = min hi (r.start + r.data.length - 1) := by unfold clipStop; rw [hhi, hend]
  rw [hcs, hce] at hwin
  rw [hce] at hw
  unfold clipData
  rw [hcs, hce, hg, Nat.mul_one, Nat.mul_one]
  generalize hcsv : max lo r.start = cs at *
  generalize hcev : min hi (r.start + r.data.length - 1) = ce at *
  have hk : (ce + 1 - cs) % 65536 = ce + 1 - cs := by apply Nat.mod_eq_of_lt; omega
  rw [hk]
  -- data = pre ++ mid ++ post
  have hsplit : r.data = r.data.take (cs - r.start) ++ ((r.data.drop (cs - r.start)).take (ce + 1 - cs) ++
      (r.data.drop (cs - r.start)).drop (ce + 1 - cs)) := by
    rw [List.take_append_drop, List.take_append_drop]
  have hprelen : (r.data.take (cs - r.start)).length = cs - r.start := by simp; omega
  have hmidlen : ((r.data.drop (cs - r.start)).take (ce + 1 - cs)).length = ce + 1 - cs := by simp; omega
  have hpostlen : ((r.data.drop (cs - r.start)).drop (ce + 1 - cs)).length = r.data.length - (cs - r.start) - (ce + 1 - cs) := by
    simp; omega
  conv => lhs; rw [hsplit]
  simp only [List.map_append, List.zipIdx_append, List.flatMap_append, List.length_map, hprelen, hmidlen, Nat.zero_add]
  rw [cells_outside _ _ _ _ _ _ 0 (by intro i _ hi2; rw [hprelen] at hi2; omega),
    cells_outside _ _ _ _ _ _ (cs - r.start + (ce + 1 - cs)) (by intro i hi1 hi2; rw [hpostlen] at hi2; omega),
    cells_inside _ _ _ _ _ _ (cs - r.start) (by intro i hi1 hi2; rw [hmidlen] at hi2; omega)
      (by rw [hmidlen]; unfold HexImage.two32; cases rel <;> simp at hw ⊢ <;> omega)]
  simp only [List.nil_append, List.append_nil]
  have : r.start + (cs - r.start) = cs := by omega
  rw [this]


end AslModel.HexLemmas
