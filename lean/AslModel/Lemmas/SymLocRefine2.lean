import AslModel.Lemmas.SymLocRefine
/-! helper lemmas for `C13_loc_refines`: the simulation over constructs and statement lists (structural induction over
the program tree; the iterations of a construct by induction over their number). -/
namespace AslModel.SymLoc
open AslModel.Sym AslModel.Generated.Sym
open AslModel.LocScope hiding Name

/-- the handles opened for iterations carry the numbers `m, m+1, …` -/
def NumOK (no : Int → Nat) : List Int → Nat → Prop
  | [], _ => True
  | h :: l, m => no h = m ∧ NumOK no l (m + 1)

theorem NumOK_append (no : Int → Nat) (l1 l2 : List Int) (m : Nat) :
    NumOK no (l1 ++ l2) m ↔ NumOK no l1 m ∧ NumOK no l2 (m + l1.length) := by
  induction l1 generalizing m with
  | nil => simp [NumOK]
  | cons h r ih =>
    simp only [List.cons_append, NumOK, ih, List.length_cons]
    have : m + 1 + r.length = m + (r.length + 1) := by omega
    rw [this, and_assoc]

/-- the labels of the running body text are names of the innermost frame -/
def LabsIn (cs : Bool) (fr : List Fr) (q : LocScope.Items Op) : Prop :=
  match fr with
  | [] => True
  | f :: _ => ∀ k ∈ labelsOf (fold cs) q, k ∈ f.ns

/-- **the table is settled**, iteration by iteration: whenever an iteration opens its space, the local table holds under
the new handle exactly the labels of the body -/
def SettledLoop (glob : Bool) (body : LSt → LSt) (S : LSt → Prop) (labs : List LocScope.Name) : Nat → Bool → LSt → Prop
  | 0, _, _ => True
  | n + 1, first, st =>
    (glob = false → ∀ k, hasKey (iterOpen glob first st).ltab (k, (iterOpen glob first st).mom) = labs.contains k) ∧
      S (iterOpen glob first st) ∧ SettledLoop glob body S labs n false (body (iterOpen glob first st))

mutual
def SettledItem (cs : Bool) : PItem → LSt → Prop
  | .op _, _ => True
  | .con _ _ glob n body, st =>
    SettledLoop glob (execItems body.toModel) (SettledItems cs body) (labelsOf (fold cs) (body.toSpec false)) n true st
def SettledItems (cs : Bool) : PItems → LSt → Prop
  | .nil, _ => True
  | .cons i r, st => SettledItem cs i st ∧ SettledItems cs r (execItem i.toModel st)
end

/-- what the simulation of a piece of program establishes -/
structure Sim (cs : Bool) (no : Int → Nat) (st' : LSt) (fr : List Fr) (a a' : Acc Op) (tr : List Ev) (os : List Int) :
    Prop where
  out : a'.out.map (·.1) = (tr.map (renderWith no)).reverse ++ a.out.map (·.1)
  next : a'.next = a.next + os.length
  inside : InsideT cs st' fr

def ItemsOK (cs : Bool) (no : Int → Nat) (q : PItems) : Prop :=
  ∀ (st : LSt) (fr : List Fr) (a : Acc Op), StackIs st fr → InsideT cs st fr → (∀ f ∈ fr, no f.h = f.id) →
    q.ordinary (!fr.isEmpty) = true → LabsIn cs fr (q.toSpec false) →
    NumOK no (openedItems q.toModel st) a.next → SettledItems cs q st →
    Sim cs no (execItems q.toModel st) fr a (expItems (fold cs) (envOf fr) (q.toSpec false) a)
      (traceItems q.toModel st) (openedItems q.toModel st)

def ItemOK (cs : Bool) (no : Int → Nat) (i : PItem) : Prop :=
  ∀ (st : LSt) (fr : List Fr) (a : Acc Op), StackIs st fr → InsideT cs st fr → (∀ f ∈ fr, no f.h = f.id) →
    i.ordinary (!fr.isEmpty) = true → LabsIn cs fr (.cons (i.toSpec false) .nil) →
    NumOK no (openedItem i.toModel st) a.next → SettledItem cs i st →
    Sim cs no (execItem i.toModel st) fr a (expItem (fold cs) (envOf fr) (i.toSpec false) a)
      (traceItem i.toModel st) (openedItem i.toModel st)

mutual
theorem ordinary_mono_item : ∀ (i : PItem), i.ordinary true = true → ∀ b, i.ordinary b = true
  | .op o, h, b => by cases b <;> simp_all [PItem.ordinary]
  | .con _ _ _ _ body, h, b => by simpa [PItem.ordinary] using h
theorem ordinary_mono : ∀ (q : PItems), q.ordinary true = true → ∀ b, q.ordinary b = true
  | .nil, _, _ => by simp [PItems.ordinary]
  | .cons i r, h, b => by
    simp only [PItems.ordinary, Bool.and_eq_true] at h ⊢
    exact ⟨ordinary_mono_item i h.1 b, ordinary_mono r h.2 b⟩
end

theorem toStmt_label_nobr (cs : Bool) (o : Op) (l : Name) (h : (toStmt o).label = some l) :
    (fold cs l).getLast? ≠ some 93 := by
  have key : ∀ n, unqual n = some l → (fold cs l).getLast? ≠ some 93 := by
    intro n hn
    have := unqual_some hn
    rw [Ne, fold_getLast, this.1]
    exact this.2
  cases o <;> simp only [toStmt] at h
  case label n => exact key n h
  case labelOnly n => exact key n h
  case labelWord n r => exact key n h
  all_goals cases h

mutual
theorem labelsOf_nobr_item (cs : Bool) : ∀ (i : PItem) (k : LocScope.Name),
    k ∈ labelsOf (fold cs) (.cons (i.toSpec false) .nil) → k.getLast? ≠ some 93
  | .op o, k, h => by
    simp only [PItem.toSpec, labelsOf, List.append_nil] at h
    cases hl : (toStmt o).label with
    | none => simp [hl] at h
    | some l =>
      simp only [hl, Option.map_some, Option.toList_some, List.mem_singleton] at h
      subst h
      exact toStmt_label_nobr cs o l hl
  | .con _ _ glob n body, k, h => by
    simp only [PItem.toSpec, labelsOf, List.append_nil] at h
    split at h
    · exact labelsOf_nobr cs body k h
    · simp at h
theorem labelsOf_nobr (cs : Bool) : ∀ (q : PItems) (k : LocScope.Name),
    k ∈ labelsOf (fold cs) (q.toSpec false) → k.getLast? ≠ some 93
  | .nil, k, h => by simp [PItems.toSpec, labelsOf] at h
  | .cons i r, k, h => by
    have hsplit : labelsOf (fold cs) ((PItems.cons i r).toSpec false) =
        labelsOf (fold cs) (.cons (i.toSpec false) .nil) ++ labelsOf (fold cs) (r.toSpec false) := by
      cases i <;> simp [PItems.toSpec, PItem.toSpec, labelsOf]
    rw [hsplit] at h
    cases List.mem_append.mp h with
    | inl h1 => exact labelsOf_nobr_item cs i k h1
    | inr h1 => exact labelsOf_nobr cs r k h1
end

/-! ### the iterations of one construct -/

theorem iterOpen_g (glob first : Bool) (st : LSt) : (iterOpen glob first st).g = st.g := by
  unfold iterOpen pushFresh pushLoc popLoc
  split
  · rfl
  · split
    · rfl
    · split <;> rfl

theorem iterOpen_ltab (glob first : Bool) (st : LSt) : (iterOpen glob first st).ltab = st.ltab := by
  unfold iterOpen pushFresh pushLoc popLoc
  split
  · rfl
  · split
    · rfl
    · split <;> rfl

theorem restorer_g (glob first : Bool) (st : LSt) : (restorer glob first st).g = st.g := by
  unfold restorer popLoc
  split
  · split <;> rfl
  · rfl

theorem restorer_ltab (glob first : Bool) (st : LSt) : (restorer glob first st).ltab = st.ltab := by
  unfold restorer popLoc
  split
  · split <;> rfl
  · rfl

theorem finish_g (wh glob : Bool) (r : LSt × Bool) : (finish wh glob r).g = r.1.g := by
  unfold finish
  split
  · rw [restorer_g, iterOpen_g]
  · rw [restorer_g]

theorem finish_ltab (wh glob : Bool) (r : LSt × Bool) : (finish wh glob r).ltab = r.1.ltab := by
  unfold finish
  split
  · rw [restorer_ltab, iterOpen_ltab]
  · rw [restorer_ltab]

/-- the stack between the iterations: nothing of the construct open yet (`first`, or GLOBALSYMBOLS), or exactly the space
of the previous iteration -/
def LoopStack (glob first : Bool) (st : LSt) (fr : List Fr) : Prop :=
  if glob ∨ first then StackIs st fr else st.conts = fr.map (·.h) ++ [-1]

theorem iterOpen_stack_glob (first : Bool) (st : LSt) : iterOpen true first st = st := by
  simp [iterOpen]

theorem iterOpen_stack (first : Bool) (st : LSt) (fr : List Fr) (h : LoopStack false first st fr) :
    (iterOpen false first st).mom = (st.cnt : Int) ∧ (iterOpen false first st).conts = fr.map (·.h) ++ [-1] := by
  unfold LoopStack at h
  cases first
  · simp only [Bool.false_eq_true, or_self, if_false] at h
    cases hf : fr.map (·.h) ++ [-1] with
    | nil => simp at hf
    | cons c r =>
      rw [hf] at h
      simp [iterOpen, pushFresh, pushLoc, popLoc, h]
  · simp only [or_true, if_true] at h
    unfold StackIs at h
    simp [iterOpen, pushFresh, pushLoc, h]

theorem loop_ok (cs : Bool) (no : Int → Nat) (glob : Bool) (body : PItems) (hb : ItemsOK cs no body) (fr : List Fr)
    (hno : ∀ f ∈ fr, no f.h = f.id) (hord : body.ordinary true = true)
    (hlab : glob = true → LabsIn cs fr (body.toSpec false)) :
    ∀ (n : Nat) (first : Bool) (st : LSt) (a : Acc Op), LoopStack glob first st fr → InsideT cs st fr →
      NumOK no (obsLoop glob (execItems body.toModel) (openedItems body.toModel)
        (fun s => if glob then [] else [s.mom]) n first st) a.next →
      SettledLoop glob (execItems body.toModel) (SettledItems cs body) (labelsOf (fold cs) (body.toSpec false)) n first st →
      Sim cs no (loop glob (execItems body.toModel) n first st).1 fr a
        (repeatN (fun a => expItems (fold cs) (openSpace (fold cs) false glob (body.toSpec false) (envOf fr) a).1
          (body.toSpec false) (openSpace (fold cs) false glob (body.toSpec false) (envOf fr) a).2) n a)
        (obsLoop glob (execItems body.toModel) (traceItems body.toModel) (fun _ => []) n first st)
        (obsLoop glob (execItems body.toModel) (openedItems body.toModel) (fun s => if glob then [] else [s.mom]) n first st) := by
  intro n
  induction n with
  | zero =>
    intro first st a _ hi _ _
    exact ⟨by simp [obsLoop, repeatN], by simp [obsLoop, repeatN], by simpa [loop] using hi⟩
  | succ k ih =>
    intro first st a hst hi hnum hset
    simp only [obsLoop, loop, repeatN] at hnum ⊢
    obtain ⟨hset1, hset2, hset3⟩ := hset
    cases glob with
    | true =>
      simp only [iterOpen_stack_glob] at hnum hset1 hset2 hset3 ⊢
      have hs : StackIs st fr := by simpa [LoopStack] using hst
      simp only [if_true, List.nil_append, NumOK_append] at hnum
      have hordb : body.ordinary (!fr.isEmpty) = true := ordinary_mono body hord _
      have h1 := hb st fr a hs hi hno hordb (hlab rfl) hnum.1 hset2
      have hs' : LoopStack true false (execItems body.toModel st) fr := by
        simpa [LoopStack] using hs.of_frame (execItems_frame _ _)
      have h2 := ih false (execItems body.toModel st) _ hs' h1.inside (by rw [h1.next]; exact hnum.2) hset3
      refine ⟨?_, ?_, h2.inside⟩
      · have e1 : (openSpace (fold cs) false true (body.toSpec false) (envOf fr) a) = (envOf fr, a) := by
          simp [openSpace]
        simp only [e1] at h1 h2 ⊢
        rw [h2.out, h1.out]
        simp
      · have e1 : (openSpace (fold cs) false true (body.toSpec false) (envOf fr) a) = (envOf fr, a) := by
          simp [openSpace]
        simp only [e1] at h1 h2 ⊢
        rw [h2.next, h1.next]
        simp only [if_true, List.nil_append, List.length_append]
        omega
    | false =>
      obtain ⟨hm, hc⟩ := iterOpen_stack first st fr hst
      -- the frame of this iteration
      let f : Fr := ⟨(st.cnt : Int), a.next, dedup (labelsOf (fold cs) (body.toSpec false))⟩
      have hs : StackIs (iterOpen false first st) (f :: fr) := by
        unfold StackIs
        rw [hm, hc]
        rfl
      simp only [Bool.false_eq_true, if_false, List.cons_append, List.nil_append, NumOK, NumOK_append, hm] at hnum
      have hi1 : InsideT cs (iterOpen false first st) (f :: fr) := by
        refine ⟨by rw [iterOpen_g]; exact hi.cs, ?_, ?_, ?_⟩
        · intro g hg
          cases List.mem_cons.mp hg with
          | inl h => subst h; show (st.cnt : Int) ≠ -1; omega
          | inr h => exact hi.hpos g h
        · intro g hg k
          cases List.mem_cons.mp hg with
          | inl h =>
            subst h
            have := hset1 rfl k
            rw [hm] at this
            show hasKey _ (k, (st.cnt : Int)) = (dedup _).contains k
            rw [this, dedup_contains]
          | inr h => rw [iterOpen_ltab]; exact hi.tab g h k
        · intro g hg k hk
          cases List.mem_cons.mp hg with
          | inl h =>
            subst h
            have hk' : k ∈ labelsOf (fold cs) (body.toSpec false) := (dedup_mem k _).mp hk
            exact labelsOf_nobr cs body k hk'
          | inr h => exact hi.nobr g h k hk
      have hno1 : ∀ g ∈ f :: fr, no g.h = g.id := by
        intro g hg
        cases List.mem_cons.mp hg with
        | inl h => subst h; exact hnum.1
        | inr h => exact hno g h
      have hlab1 : LabsIn cs (f :: fr) (body.toSpec false) := fun k hk => (dedup_mem k _).mpr hk
      have e1 : openSpace (fold cs) false false (body.toSpec false) (envOf fr) a =
          (envOf (f :: fr), { a with next := a.next + 1 }) := by
        simp [openSpace, envOf, frBinds, f]
      have h1 := hb (iterOpen false first st) (f :: fr) { a with next := a.next + 1 } hs hi1 hno1
        (by simpa using hord) hlab1 hnum.2.1 hset2
      have hi2 : InsideT cs (execItems body.toModel (iterOpen false first st)) fr :=
        ⟨h1.inside.cs, hi.hpos, fun g hg k => h1.inside.tab g (List.mem_cons_of_mem _ hg) k, hi.nobr⟩
      have hs' : LoopStack false false (execItems body.toModel (iterOpen false first st)) fr := by
        simp only [LoopStack, Bool.false_eq_true, or_self, if_false]
        rw [(execItems_frame _ _).conts, hc]
      have h2 := ih false (execItems body.toModel (iterOpen false first st))
        (expItems (fold cs) (envOf (f :: fr)) (body.toSpec false) { a with next := a.next + 1 }) hs' hi2
        (by rw [h1.next]; exact hnum.2.2) hset3
      simp only [e1] at h2 ⊢
      refine ⟨?_, ?_, h2.inside⟩
      · rw [h2.out, h1.out]
        simp
      · rw [h2.next, h1.next]
        simp only [Bool.false_eq_true, if_false, List.cons_append, List.nil_append, List.length_cons, List.length_append]
        omega

/-! ### the program tree -/

theorem labelsOf_cons_split (cs : Bool) (i : PItem) (r : PItems) :
    labelsOf (fold cs) ((PItems.cons i r).toSpec false) =
      labelsOf (fold cs) (.cons (i.toSpec false) .nil) ++ labelsOf (fold cs) (r.toSpec false) := by
  cases i <;> simp [PItems.toSpec, PItem.toSpec, labelsOf]

theorem LabsIn.split {cs : Bool} {fr : List Fr} {i : PItem} {r : PItems}
    (h : LabsIn cs fr ((PItems.cons i r).toSpec false)) :
    LabsIn cs fr (.cons (i.toSpec false) .nil) ∧ LabsIn cs fr (r.toSpec false) := by
  cases fr with
  | nil => exact ⟨trivial, trivial⟩
  | cons f fr' =>
    unfold LabsIn at *
    simp only [labelsOf_cons_split, List.mem_append] at h
    exact ⟨fun k hk => h k (Or.inl hk), fun k hk => h k (Or.inr hk)⟩

theorem opFits_of (cs : Bool) (fr : List Fr) (o : Op) (hord : (PItem.op o).ordinary (!fr.isEmpty) = true)
    (hlab : LabsIn cs fr (.cons ((PItem.op o).toSpec false) .nil)) : OpFits cs fr o := by
  cases fr with
  | nil => trivial
  | cons f fr' =>
    refine ⟨by simpa [PItem.ordinary] using hord, ?_⟩
    intro l hl
    apply hlab
    simp [PItem.toSpec, labelsOf, hl]

mutual
theorem item_ok (cs : Bool) (no : Int → Nat) : ∀ (i : PItem), ItemOK cs no i
  | .op o => by
    intro st fr a hs hi hno hord hlab _ _
    obtain ⟨h1, h2⟩ := stmt_agree cs no st fr o hs hi hno (opFits_of cs fr o hord hlab)
    refine ⟨?_, ?_, ?_⟩
    · simp only [PItem.toSpec, PItem.toModel, expItem, traceItem, expStmt_out, List.map_cons, List.map_nil,
        List.reverse_cons, List.reverse_nil, List.nil_append, List.singleton_append, h1]
    · simp [PItem.toSpec, PItem.toModel, expItem, openedItem, expStmt_next]
    · simpa [PItem.toModel, execItem] using h2
  | .con m wh glob 0 body => by
    intro st fr a hs hi hno hord hlab _ _
    refine ⟨?_, ?_, ?_⟩
    · simp [PItem.toSpec, PItem.toModel, expItem, traceItem, obsLoop, repeatN]
    · simp [PItem.toSpec, PItem.toModel, expItem, openedItem, obsLoop, repeatN]
    · simp only [PItem.toModel, execItem, loop]
      exact hi.of_eq (by rw [finish_g]) (by rw [finish_ltab])
  | .con m wh glob (n + 1) body => by
    intro st fr a hs hi hno hord hlab hnum hset
    have hb := items_ok cs no body
    have hlab' : glob = true → LabsIn cs fr (body.toSpec false) := by
      intro hg
      subst hg
      cases fr with
      | nil => trivial
      | cons f fr' =>
        intro k hk
        apply hlab
        simp [PItem.toSpec, labelsOf, hk]
    have hl := loop_ok cs no glob body hb fr hno (by simpa [PItem.ordinary] using hord) hlab' (n + 1) true st a
      (by simp [LoopStack, hs]) hi (by simpa [PItem.toModel, openedItem] using hnum)
      (by simpa [SettledItem] using hset)
    refine ⟨?_, ?_, ?_⟩
    · simpa [PItem.toSpec, PItem.toModel, expItem, traceItem] using hl.out
    · simpa [PItem.toSpec, PItem.toModel, expItem, openedItem] using hl.next
    · simp only [PItem.toModel, execItem]
      exact hl.inside.of_eq (by rw [finish_g]) (by rw [finish_ltab])
theorem items_ok (cs : Bool) (no : Int → Nat) : ∀ (q : PItems), ItemsOK cs no q
  | .nil => by
    intro st fr a _ hi _ _ _ _ _
    exact ⟨by simp [PItems.toSpec, PItems.toModel, expItems, traceItems], by simp [PItems.toSpec, PItems.toModel, expItems, openedItems],
      by simpa [PItems.toModel, execItems] using hi⟩
  | .cons i r => by
    intro st fr a hs hi hno hord hlab hnum hset
    simp only [PItems.ordinary, Bool.and_eq_true] at hord
    simp only [PItems.toModel, openedItems, NumOK_append] at hnum
    simp only [SettledItems] at hset
    have h1 := item_ok cs no i st fr a hs hi hno hord.1 hlab.split.1 hnum.1 hset.1
    have hs1 : StackIs (execItem i.toModel st) fr := hs.of_frame (execItem_frame _ _)
    have h2 := items_ok cs no r (execItem i.toModel st) fr _ hs1 h1.inside hno hord.2 hlab.split.2
      (by rw [h1.next]; exact hnum.2) hset.2
    refine ⟨?_, ?_, ?_⟩
    · simp only [PItems.toSpec, PItems.toModel, expItems, traceItems, h2.out, h1.out]
      simp
    · simp only [PItems.toSpec, PItems.toModel, expItems, openedItems, h2.next, h1.next, List.length_append]
      omega
    · simpa [PItems.toModel, execItems] using h2.inside
end

end AslModel.SymLoc
