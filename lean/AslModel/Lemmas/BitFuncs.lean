import AslModel.Model.Expr
/-!
# Lemmas for C08: the 64-step loops of function.c against bit-level specifications
-/
namespace AslModel.Expr
open AslModel.Formula

theorem lsb_iff (y : W) : y.getLsbD 0 = decide (y.toNat % 2 = 1) := by
  simp [BitVec.getLsbD, Nat.testBit_zero]

theorem and_one_eq (y : W) : y &&& 1 = if y.getLsbD 0 then 1 else 0 := by
  apply BitVec.eq_of_toNat_eq
  rw [lsb_iff]
  have h : (y &&& 1).toNat = y.toNat % 2 := by
    rw [BitVec.toNat_and]; exact Nat.and_one_is_mod _
  rw [h]
  by_cases hm : y.toNat % 2 = 1
  · simp [hm]
  · have : y.toNat % 2 = 0 := by omega
    simp [this]

theorem lsb_sshr (x : W) (k : Nat) (hk : k < 64) : (x.sshiftRight k).getLsbD 0 = x.getLsbD k := by
  rw [BitVec.getLsbD_sshiftRight]
  simp [hk]

theorem oddW_sshr (x : W) (k : Nat) (hk : k < 64) : oddW (x.sshiftRight k) = x.getLsbD k := lsb_sshr x k hk

/-- number of set bits among positions `k .. k+n-1` -/
def cntFrom (x : W) (k n : Nat) : Nat := ((List.range' k n).filter fun i => x.getLsbD i).length

theorem cntFrom_succ (x : W) (k n : Nat) :
    cntFrom x k (n + 1) = (if x.getLsbD k then 1 else 0) + cntFrom x (k + 1) n := by
  simp only [cntFrom, List.range'_succ, List.filter_cons]
  cases x.getLsbD k <;> simp <;> omega

theorem bitcntLoop_spec (x : W) : ∀ (n k : Nat) (out : W), k + n ≤ 64 →
    bitcntLoop n (x.sshiftRight k) out = out + BitVec.ofNat 64 (cntFrom x k n) := by
  intro n
  induction n with
  | zero => intro k out _; simp [bitcntLoop, cntFrom]
  | succ n ih =>
    intro k out hk
    rw [bitcntLoop, ← BitVec.sshiftRight_add, ih (k + 1) _ (by omega), and_one_eq, lsb_sshr x k (by omega),
      cntFrom_succ]
    cases x.getLsbD k
    · simp
    · simp only [if_true]
      rw [BitVec.ofNat_add]
      ac_rfl

/-- **BITCNT** = number of one bits, for every 64-bit argument -/
theorem bitcnt_spec (x : W) : bitcntLoop 64 x 0 = bitcntSpec x := by
  have h := bitcntLoop_spec x 64 0 0 (by omega)
  simp only [BitVec.sshiftRight_zero] at h
  rw [h, bitcntSpec, setBits, cntFrom, List.range_eq_range']
  simp

/-- set positions among `k .. k+n-1`, ascending -/
def setFrom (x : W) (k n : Nat) : List Nat := (List.range' k n).filter fun i => x.getLsbD i

theorem setFrom_succ (x : W) (k n : Nat) :
    setFrom x k (n + 1) = if x.getLsbD k then k :: setFrom x (k + 1) n else setFrom x (k + 1) n := by
  simp only [setFrom, List.range'_succ, List.filter_cons]

theorem lastbitLoop_spec (x : W) : ∀ (n k : Nat) (out : Int), k + n ≤ 64 →
    lastbitLoop n k (x.sshiftRight k) out =
      (match (setFrom x k n).getLast? with | some i => (i : Int) | none => out) := by
  intro n
  induction n with
  | zero => intro k out _; simp [lastbitLoop, setFrom]
  | succ n ih =>
    intro k out hk
    rw [lastbitLoop, ← BitVec.sshiftRight_add, ih (k + 1) _ (by omega), oddW_sshr x k (by omega), setFrom_succ]
    cases hb : x.getLsbD k
    · simp
    · simp only [if_true, List.getLast?_cons]
      cases (setFrom x (k + 1) n).getLast? <;> simp

/-- **LASTBIT** = position of the highest one bit, -1 for 0, for every 64-bit argument -/
theorem lastbit_spec (x : W) : wrap (lastbitLoop 64 0 x (-1)) = lastbitSpec x := by
  have h := lastbitLoop_spec x 64 0 (-1) (by omega)
  simp only [BitVec.sshiftRight_zero] at h
  rw [h, lastbitSpec, setBits, List.range_eq_range']
  show wrap (match (setFrom x 0 64).getLast? with | some i => (i : Int) | none => -1) = _
  unfold setFrom
  cases (List.filter (fun i => x.getLsbD i) (List.range' 0 64)).getLast? with
  | none => rfl
  | some i => simp [wrap, BitVec.ofInt_natCast]

/-- `FuncFIRSTBIT` with the shift inside the `if` (the documented behaviour): from position `k` on,
the loop returns the first set position, or 64 -/
theorem firstbitLoop_fixed (x : W) : ∀ (f k : Nat), k < 64 → 64 - k ≤ f →
    firstbitLoop false f (x.sshiftRight k) k =
      (match (setFrom x k (64 - k)).head? with | some i => i | none => 64) := by
  intro f
  induction f with
  | zero => intro k hk hf; omega
  | succ f ih =>
    intro k hk hf
    have e : 64 - k = (64 - (k + 1)) + 1 := by omega
    rw [e, setFrom_succ]
    unfold firstbitLoop
    rw [oddW_sshr x k hk]
    cases hb : x.getLsbD k
    · simp only [Bool.not_false, if_true, Bool.or_true, ← BitVec.sshiftRight_add]
      by_cases hk1 : k + 1 < 64
      · rw [oddW_sshr x (k + 1) hk1]
        cases hb1 : x.getLsbD (k + 1)
        · simp only [hk1, decide_true, Bool.not_false, Bool.and_self, if_true, Bool.false_eq_true, if_false]
          rw [ih (k + 1) hk1 (by omega)]
        · have e2 : 64 - (k + 1) = (64 - (k + 2)) + 1 := by omega
          simp [hk1, e2, setFrom_succ, hb1]
      · have hk64 : k + 1 = 64 := by omega
        simp [hk64, setFrom]
    · simp only [hb]
      simp
      intro _ ho
      rw [oddW_sshr x k hk, hb] at ho
      cases ho

/-- **FIRSTBIT** (documented behaviour, quirk off) = position of the lowest one bit, -1 for 0 -/
theorem firstbit_fixed_spec (x : W) : mFirstbit false x = firstbitSpec x := by
  have h := firstbitLoop_fixed x 200 0 (by omega) (by omega)
  simp only [BitVec.sshiftRight_zero] at h
  unfold mFirstbit firstbitSpec setBits
  rw [h, List.range_eq_range']
  show (if (match (List.filter (fun i => x.getLsbD i) (List.range' 0 64)).head? with | some i => i | none => 64) ≥ 64 then _ else _) = _
  have hmem : ∀ i, (List.filter (fun i => x.getLsbD i) (List.range' 0 64)).head? = some i → i < 64 := by
    intro i hi
    have := List.mem_of_mem_head? hi
    simp [List.mem_filter, List.mem_range'] at this
    omega
  cases hh : (List.filter (fun i => x.getLsbD i) (List.range' 0 64)).head? with
  | none => simp
  | some i =>
    have := hmem i hh
    have hn : ¬ i ≥ 64 := by omega
    have hh' : (setFrom x 0 64).head? = some i := hh
    simp [hn, hh']

end AslModel.Expr
