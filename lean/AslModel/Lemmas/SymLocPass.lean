import AslModel.Lemmas.SymLocSettled
/-! helper lemmas for `C13_loc_refines`: `settled` as a statement about keys; a pass leaves a settled table. -/
namespace AslModel.SymLoc
open AslModel.Sym AslModel.Generated.Sym
open AslModel.LocScope hiding Name

theorem hasKey_iff_mem (t : Tab) (key : Key) : hasKey t key = true ↔ ∃ e, (key, e) ∈ t := by
  induction t with
  | nil => simp [hasKey, tfind]
  | cons p r ih =>
    obtain ⟨k', e'⟩ := p
    unfold hasKey at *
    simp only [tfind]
    by_cases hk : k' = key
    · subst hk; simp
    · simp only [hk, if_false, ih, List.mem_cons, Prod.mk.injEq]
      constructor
      · rintro ⟨e, he⟩; exact ⟨e, Or.inr he⟩
      · rintro ⟨e, he⟩
        cases he with
        | inl h => exact absurd h.1.symm hk
        | inr h => exact ⟨e, h⟩

theorem settled_iff (q : Items) (st : LSt) :
    settled q st = true ↔ ∀ key, hasKey st.ltab key = true ↔ key ∈ labelKeys q st := by
  unfold settled
  simp only [Bool.and_eq_true, List.all_eq_true, List.contains_eq_mem, decide_eq_true_eq]
  constructor
  · rintro ⟨h1, h2⟩ key
    constructor
    · intro hk
      obtain ⟨e, he⟩ := (hasKey_iff_mem _ _).mp hk
      exact h1 (key, e) he
    · intro hk; exact h2 key hk
  · intro h
    refine ⟨?_, fun key hk => (h key).mpr hk⟩
    intro p hp
    exact (h p.1).mp ((hasKey_iff_mem _ _).mpr ⟨p.2, hp⟩)

theorem settled_cover (q : Items) (st : LSt) (h : settled q st = true) (lo hi : Nat) : Cover st.ltab lo hi (labelKeys q st) :=
  ⟨fun key hk => ((settled_iff q st).mp h key).mpr hk, fun key hk _ _ => ((settled_iff q st).mp h key).mp hk⟩

/-- **the refinement for a settled table**, macro expansions read as loops of one iteration -/
theorem refines_settled (p : PItems) (st : LSt) (hm : st.mom = -1) (hc : st.conts = [])
    (hord : p.ordinary false = true) (hset : settled p.toModel st = true) :
    (traceItems p.toModel st).map (render (openedItems p.toModel st)) =
      (expand (fold st.g.cs) (p.toSpec false)).1.map (·.1) := by
  apply refines_settledItems p st hm hc hord
  apply items_settle st.g.cs p st (by unfold WF; rw [hm]; omega) rfl (by simpa [hm] using hord)
  exact settled_cover _ _ hset _ _

/-! ### from one pass to the next -/

theorem hasKey_resetDefined (t : Tab) (key : Key) :
    hasKey (t.map (fun (k, e) => (k, { e with defined := false }))) key = hasKey t key := by
  induction t with
  | nil => rfl
  | cons p r ih =>
    obtain ⟨k', e'⟩ := p
    unfold hasKey at *
    simp only [List.map_cons, tfind]
    split
    · rfl
    · exact ih

theorem initPassL_hasKey (st : LSt) (line0 : Nat) (key : Key) : hasKey (initPassL st line0).ltab key = hasKey st.ltab key := by
  simp only [initPassL]
  exact hasKey_resetDefined _ _

theorem exitPass_cs (g : St) : (exitPass g).cs = g.cs := by
  unfold exitPass
  simp only
  split
  · exact foldl_cs_eq _ (fun s _ => by simp [St.err]) _ _
  · simp only [St.err]
    exact foldl_cs_eq _ (fun s _ => by simp) _ _

theorem exitPassL_of_empty (st : LSt) (hc : st.conts = []) :
    (exitPassL st).ltab = st.ltab ∧ (exitPassL st).conts = [] ∧ (exitPassL st).g.cs = st.g.cs := by
  unfold exitPassL
  simp only [hc, List.length_nil, clearLocStack, exitPass_cs]
  exact ⟨trivial, trivial, trivial⟩

theorem initPassL_agree (a b : LSt) (line0 : Nat) (hc : a.conts = b.conts) (hcs : a.g.cs = b.g.cs) :
    Agree (initPassL a line0) (initPassL b line0) :=
  ⟨rfl, hc, rfl, by simp [initPassL, initPass, hcs]⟩

/-- **a pass leaves a settled table for the next one**: after a pass that started with an empty local table, or with a
settled one, the local table holds exactly the keys the next pass over the same program enters its labels under -/
theorem settled_next_pass (p : PItems) (st : LSt) (line0 : Nat) (hc : st.conts = []) (hord : p.ordinary false = true)
    (h : st.ltab = [] ∨ settled p.toModel (initPassL st line0) = true) :
    settled p.toModel (initPassL (exitPassL (execItems p.toModel (initPassL st line0))) line0) = true ∧
      (exitPassL (execItems p.toModel (initPassL st line0))).conts = [] := by
  have hc1 : (execItems p.toModel (initPassL st line0)).conts = [] := by
    rw [(execItems_frame _ _).conts]; exact hc
  obtain ⟨e1, e2, e3⟩ := exitPassL_of_empty _ hc1
  refine ⟨?_, e2⟩
  rw [settled_iff]
  intro key
  have hag : Agree (initPassL (exitPassL (execItems p.toModel (initPassL st line0))) line0) (initPassL st line0) :=
    initPassL_agree _ _ line0 (by rw [e2, hc]) (by rw [e3, execItems_cs]; simp [initPassL, initPass])
  have hk := (items_agree p _ _ hag (by simpa [initPassL] using hord)).2
  rw [hk, initPassL_hasKey, e1, execItems_hasKey]
  cases h with
  | inl h0 =>
    have : hasKey (initPassL st line0).ltab key = false := by rw [initPassL_hasKey, h0]; rfl
    simp [this]
  | inr hs =>
    have := (settled_iff _ _).mp hs key
    constructor
    · intro hh
      cases hq : hasKey (initPassL st line0).ltab key with
      | true => exact this.mp hq
      | false => rw [hq] at hh; simpa using hh
    · intro hh
      simp [hh]

theorem clearLocStack_g : ∀ (f : Nat) (st : LSt), (clearLocStack f st).g = st.g
  | 0, _ => rfl
  | f + 1, st => by
    simp only [clearLocStack]
    split
    · rfl
    · rw [clearLocStack_g f]
      unfold popLoc
      split <;> rfl

theorem exitPassL_cs (st : LSt) : (exitPassL st).g.cs = st.g.cs := by
  unfold exitPassL
  simp only [exitPass_cs, clearLocStack_g]

/-- the state `assembleL` hands from pass to pass -/
def afterPasses (p : PItems) (line0 : Nat) : Nat → LSt → LSt
  | 0, st => st
  | n + 1, st => afterPasses p line0 n (exitPassL (execItems p.toModel (initPassL st line0)))

theorem afterPasses_settled (p : PItems) (line0 : Nat) (hord : p.ordinary false = true) :
    ∀ (n : Nat) (st : LSt), st.conts = [] → (st.ltab = [] ∨ settled p.toModel (initPassL st line0) = true) →
      settled p.toModel (initPassL (afterPasses p line0 (n + 1) st) line0) = true ∧
        (afterPasses p line0 (n + 1) st).conts = [] := by
  intro n
  induction n with
  | zero => intro st hc h; exact settled_next_pass p st line0 hc hord h
  | succ k ih =>
    intro st hc h
    have h1 := settled_next_pass p st line0 hc hord h
    exact ih _ h1.2 (Or.inr h1.1)


theorem afterPasses_cs (p : PItems) (line0 : Nat) : ∀ (k : Nat) (s : LSt), (afterPasses p line0 k s).g.cs = s.g.cs := by
  intro k
  induction k with
  | zero => intro s; rfl
  | succ j ih =>
    intro s
    simp only [afterPasses]
    rw [ih, exitPassL_cs, execItems_cs]
    simp [initPassL, initPass]

end AslModel.SymLoc
