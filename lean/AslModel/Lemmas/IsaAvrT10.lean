import AslModel.Lemmas.IsaAvrBase
/-! C14 / AVR: table check (`Good`) of a group of `InstTable` entries, decided over the complete field domains.
Split over several modules so that they are checked in parallel. -/
namespace AslModel.Isa.IAvr
open AslModel.Spec.IAvr
set_option maxRecDepth 100000

theorem good_T10_0 : goodAll [.ADIW, .SBIW, .LD, .ST, .LPM, .ELPM, .LDS, .STS, .JMP, .CALL] = true := by decide +kernel
theorem good_T10_1 : goodAll [.BLD, .BST, .SBRC, .SBRS, .CBI, .SBI, .SBIC, .SBIS, .BSET, .BCLR] = true := by decide +kernel

end AslModel.Isa.IAvr
