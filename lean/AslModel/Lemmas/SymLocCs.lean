import AslModel.Lemmas.SymLoc
/-! helper lemmas for `Props/C13_Loc.lean`: no statement changes `CaseSensitive` (the SPEC's `key` is one function for the
whole run), no statement other than a label touches the local table -/
namespace AslModel.Sym
open AslModel.Generated.Sym

theorem enterTree_cs (st : St) (key : Key) (v : Int) (mc : Bool) : (enterTree st key v mc).cs = st.cs := by
  unfold enterTree
  split <;> simp [St.err]

theorem enterSymbol_cs (st : St) (n : Name) (v : Int) (mc : Bool) (res : Int) : (enterSymbol st n v mc res).cs = st.cs := by
  unfold enterSymbol
  try dsimp only
  repeat' split
  all_goals simp [enterTree_cs]

theorem chkTmp3_cs (st : St) (n : Name) (src : SymSource) : (chkTmp3 st n src).1.cs = st.cs := by
  unfold chkTmp3
  repeat' split
  all_goals rfl

theorem chkTmpDef_cs' (st : St) (n : Name) (src : SymSource) : (chkTmpDef st n src).1.cs = st.cs := by
  unfold chkTmpDef
  try dsimp only
  repeat' split
  all_goals (first | rfl | exact chkTmp3_cs _ _ _)

theorem defineSymbol_cs (st : St) (n : Name) (v : Int) (mc : Bool) (src : SymSource) :
    (defineSymbol st n v mc src).cs = st.cs := by
  unfold defineSymbol
  split
  · simp [St.err]
  · simp [St.err]
  · simp only [enterSymbol_cs, chkTmpDef_cs']
  · simp only [enterSymbol_cs, chkTmpDef_cs']

theorem findNode_cs (st : St) (n : Name) : (findNode st n).1.cs = st.cs := by
  unfold findNode
  try dsimp only
  repeat' split
  all_goals rfl

theorem lookupSymbol_cs (st : St) (n : Name) : (lookupSymbol st n).1.cs = st.cs := by
  unfold lookupSymbol
  split
  · rfl
  · dsimp only
    generalize (chkTmp1 st ((chkTmp2Ref st n).getD n)).getD ((chkTmp2Ref st n).getD n) = m
    have := findNode_cs st m
    split <;> (try split) <;> simp_all [St.err]

theorem pushSymbol_cs (st : St) (s k : Name) : (pushSymbol st s k).cs = st.cs := by
  unfold pushSymbol
  cases hfn : findNode st s with
  | mk st1 r =>
    have h1 := findNode_cs st s
    rw [hfn] at h1
    simp only at h1
    cases r with
    | none => simpa [St.err] using h1
    | some p => simpa using h1

theorem popSymbol_cs (st : St) (s k : Name) : (popSymbol st s k).cs = st.cs := by
  unfold popSymbol
  cases hfn : findNode st s with
  | mk st1 r =>
    have h1 := findNode_cs st s
    rw [hfn] at h1
    simp only at h1
    cases r with
    | none => simpa [St.err] using h1
    | some p =>
      dsimp only
      repeat' split
      all_goals simpa [St.err] using h1

theorem foldl_cs_eq {α : Type} (f : St → α → St) (h : ∀ s a, (f s a).cs = s.cs) (l : List α) (st : St) :
    (l.foldl f st).cs = st.cs := by
  induction l generalizing st with
  | nil => rfl
  | cons a r ih => simp [List.foldl, ih, h]

theorem ppSym_cs (st : St) (k : PPKind) (a b : Name) : (ppSym st k a b).cs = st.cs := by
  unfold ppSym
  try dsimp only
  repeat' split
  all_goals simp [St.err]

theorem codePPSyms_cs (st : St) (k : PPKind) (args : List (Name × Name)) : (codePPSyms st k args).cs = st.cs := by
  unfold codePPSyms
  try dsimp only
  split
  · rfl
  · exact foldl_cs_eq _ (fun s (a : Name × Name) => ppSym_cs s k a.1 a.2) _ _

theorem codeSection_cs (st : St) (n : Name) : (codeSection st n).cs = st.cs := by
  unfold codeSection
  try dsimp only
  repeat' split
  all_goals simp [St.err]

theorem undefdForward_cs (st : St) (l : List Fwd) : (undefdForward st l).cs = st.cs := by
  unfold undefdForward
  exact foldl_cs_eq _ (fun s _ => by simp [St.err]) _ _

theorem codeEndSection_cs (st : St) (a : Option Name) : (codeEndSection st a).cs = st.cs := by
  unfold codeEndSection
  repeat' split
  all_goals (try dsimp only)
  all_goals (repeat' split)
  all_goals simp [St.err, undefdForward_cs]

theorem codeEnum_cs (st : St) (items : List (Name × Option Int)) : (codeEnum st items).cs = st.cs := by
  unfold codeEnum
  exact foldl_cs_eq _ (fun s it => by simp [defineSymbol_cs]) _ _

theorem emitWord_cs (st : St) (v : Int) : (emitWord st v).cs = st.cs := rfl

theorem step_cs (st : St) (op : Op) : (step st op).cs = st.cs := by
  cases op <;> simp only [step]
  case section_ n => simp [codeSection_cs]
  case endsection a => simp [codeEndSection_cs]
  case define n v mc => simp [defineSymbol_cs]
  case label n => simp [defineSymbol_cs]
  case use r => simp [emitWord_cs, lookupSymbol_cs]
  case pp k args => simp [codePPSyms_cs]
  case pushv k syms => exact (foldl_cs_eq _ (fun s x => pushSymbol_cs s x k) _ _).trans rfl
  case popv k syms => exact (foldl_cs_eq _ (fun s x => popSymbol_cs s x k) _ _).trans rfl
  case labelOnly n => simp [defineSymbol_cs]
  case labelWord n r => simp [emitWord_cs, lookupSymbol_cs, defineSymbol_cs]
  case labelPc n => simp [defineSymbol_cs]
  case enum_ nx items => split <;> simp [codeEnum_cs]

end AslModel.Sym
