import AslModel.Model.Tags
/-! Lemmas for C11 (processor layer), part 1: the counters of an input tag (`LineZ`, `LineRun`, `ParZ`, `ParIter`,
`ParCnt`) only determine the list of lines the tag still has to deliver (`rem`).  The machine of Model/Tags.lean run on
the concrete tags is simulated by the same machine run on tags that are just `(kind, rem)` (`aops`). -/
namespace AslModel.Tags
open AslModel.MacroSpec AslModel.Macro

/-- abstract tag: the kind and the lines still to be delivered -/
structure ATag where
  kind : TKind
  rem : List SLine

/-- the iterations that start at `ParZ = z, z + inc, ...` as long as `ParZ ≤ ParCnt`; `inc = incm1 + 1` -/
def remIter (g : Nat → List SLine) (incm1 : Nat) (parCnt : Int) (z : Nat) : List SLine :=
  if (z : Int) > parCnt then [] else g z ++ remIter g incm1 parCnt (z + incm1 + 1)
termination_by (parCnt + 1 - z).toNat
decreasing_by omega

def macroFn (t : Tag) : Line → Line := deliverLine (tokArgs t) t.numArgs t.allArgs

def iterBlock (t : Tag) (z : Nat) : List SLine := t.lines.map (SLine.map (iterFn t z))

/-- the lines a tag will still deliver -/
def rem (t : Tag) : List SLine :=
  if t.isEmpty then [] else
  match t.kind with
  | .file => t.lines.drop (t.lineZ - 1)
  | .mac => (t.lines.drop (t.lineZ - 1)).map (SLine.map (macroFn t))
  | _ => (cur t).map (SLine.map (iterFn t t.parZ)) ++
           remIter (iterBlock t) (incOf t - 1) t.parCnt (t.parZ + incOf t)

def abs (t : Tag) : ATag := ⟨t.kind, rem t⟩

def isIter (k : TKind) : Bool :=
  match k with
  | .file => false
  | .mac => false
  | _ => true

/-- invariant of the counters of a tag that is not exhausted -/
def Inv (t : Tag) : Prop :=
  t.isEmpty = true ∨
    (1 ≤ t.lineZ ∧ t.lineZ ≤ t.lineCnt ∧ t.lineCnt = t.lines.length ∧
      (isIter t.kind = true → cur t = t.lines.drop (t.lineZ - 1)))

def aops : TagOps ATag where
  isEmpty a := a.rem.isEmpty
  kind a := a.kind
  next a :=
    match a.rem with
    | [] => none
    | l :: r => some (l, ⟨a.kind, r⟩)
  exitm a := ⟨a.kind, []⟩
  shift l := l
  mkRept n ls := abs (mkRept n ls)
  mkIrp pi ps ls := abs (mkIrp pi ps ls)
  mkIrpc cs ls := abs (mkIrpc cs ls)
  mkMacro q cs m as := abs (expandMacro q cs m as)

/-! ### list helpers -/

theorem drop_tail {α} : ∀ (xs : List α) (k : Nat) (l : α) (r : List α), xs.drop k = l :: r → xs.drop (k + 1) = r
  | [], k, l, r, h => by simp at h
  | x :: xs, 0, l, r, h => by
    simp only [List.drop_zero, List.cons.injEq] at h
    simp [h.2]
  | x :: xs, k + 1, l, r, h => by
    simp only [List.drop_succ_cons] at h ⊢
    exact drop_tail xs k l r h

theorem drop_nonempty {α} (xs : List α) (k : Nat) (h : k < xs.length) : ∃ l r, xs.drop k = l :: r := by
  cases hd : xs.drop k with
  | nil =>
    have := congrArg List.length hd
    simp at this; omega
  | cons l r => exact ⟨l, r, rfl⟩

theorem drop_last {α} (xs : List α) (k : Nat) (l : α) (r : List α) (h : xs.drop k = l :: r)
    (hk : k + 1 ≥ xs.length) : r = [] := by
  have := congrArg List.length h
  simp at this
  cases r with
  | nil => rfl
  | cons a b => simp at this; omega

/-! ### one processor call in terms of `rem` -/

theorem incOf_pos (t : Tag) : 1 ≤ incOf t := by
  unfold incOf parIter1
  cases t.kind <;> simp <;> split <;> omega

theorem rem_iter (t : Tag) (hk : isIter t.kind = true) (hE : t.isEmpty = false) :
    rem t = (cur t).map (SLine.map (iterFn t t.parZ)) ++
      remIter (iterBlock t) (incOf t - 1) t.parCnt (t.parZ + incOf t) := by
  unfold rem
  cases h : t.kind <;> simp_all [isIter]

theorem rem_empty (t : Tag) (hE : t.isEmpty = true) : rem t = [] := by simp [rem, hE]

/-- the tag after the last line of the body: back to line 1, next iteration -/
def wrapTag (t : Tag) (r : List SLine) : Tag :=
  { t with lineRun := r, lineZ := 1, parZ := t.parZ + incOf t,
           isEmpty := decide (((t.parZ + incOf t : Nat) : Int) > t.parCnt) }

theorem remIter_step (g : Nat → List SLine) (m : Nat) (pc : Int) (z : Nat) (h : ¬ (z : Int) > pc) :
    remIter g m pc z = g z ++ remIter g m pc (z + m + 1) := by rw [remIter, if_neg h]

theorem remIter_done (g : Nat → List SLine) (m : Nat) (pc : Int) (z : Nat) (h : (z : Int) > pc) :
    remIter g m pc z = [] := by rw [remIter, if_pos h]

theorem wrapTag_isEmpty (t : Tag) (r : List SLine) :
    (wrapTag t r).isEmpty = decide (((t.parZ + incOf t : Nat) : Int) > t.parCnt) := rfl

theorem rem_wrapTag (t : Tag) (r : List SLine) (hk : isIter t.kind = true) :
    rem (wrapTag t r) = remIter (iterBlock t) (incOf t - 1) t.parCnt (t.parZ + incOf t) := by
  have hinc := incOf_pos t
  have hk' : isIter (wrapTag t r).kind = true := hk
  by_cases hz : ((t.parZ + incOf t : Nat) : Int) > t.parCnt
  · rw [rem_empty (wrapTag t r) (by rw [wrapTag_isEmpty]; exact decide_eq_true hz), remIter_done _ _ _ _ hz]
  · rw [rem_iter (wrapTag t r) hk' (by rw [wrapTag_isEmpty]; exact decide_eq_false hz), remIter_step _ _ _ _ hz]
    have e1 : cur (wrapTag t r) = t.lines := by simp [cur, wrapTag]
    have e2 : iterBlock (wrapTag t r) = iterBlock t := rfl
    have e3 : incOf (wrapTag t r) = incOf t := rfl
    have e4 : (wrapTag t r).parZ = t.parZ + incOf t := rfl
    have e5 : (wrapTag t r).parCnt = t.parCnt := rfl
    have e6 : ∀ z, iterFn (wrapTag t r) z = iterFn t z := fun _ => rfl
    have e7 : t.parZ + incOf t + (incOf t - 1) + 1 = t.parZ + incOf t + incOf t := by omega
    rw [e1, e2, e3, e4, e5, e6, e7]
    rfl

/-- the tag after a line that is not the last of the body -/
def stepTag (t : Tag) (r : List SLine) : Tag := { t with lineRun := r, lineZ := t.lineZ + 1 }

theorem rem_stepTag (t : Tag) (r : List SLine) (hk : isIter t.kind = true) (hE : t.isEmpty = false) (h1 : 1 ≤ t.lineZ) :
    rem (stepTag t r) = r.map (SLine.map (iterFn t t.parZ)) ++
      remIter (iterBlock t) (incOf t - 1) t.parCnt (t.parZ + incOf t) := by
  have hk' : isIter (stepTag t r).kind = true := hk
  have hE' : (stepTag t r).isEmpty = false := hE
  rw [rem_iter (stepTag t r) hk' hE']
  have h0 : t.lineZ ≠ 0 := by omega
  have e1 : cur (stepTag t r) = r := by simp [cur, stepTag, h0]
  rw [e1]
  rfl

theorem next_abs (t : Tag) (hI : Inv t) (hE : t.isEmpty = false) :
    ∃ l t', processor t = some (l, t') ∧ rem t = l :: rem t' ∧ Inv t' ∧ t'.kind = t.kind := by
  rcases hI with hI | ⟨h1, h2, h3, h4⟩
  · rw [hE] at hI; cases hI
  have hlt : t.lineZ - 1 < t.lines.length := by omega
  obtain ⟨l, r, hd⟩ := drop_nonempty t.lines (t.lineZ - 1) hlt
  have hr : t.lines.drop t.lineZ = r := by
    have := drop_tail t.lines (t.lineZ - 1) l r hd
    have e : t.lineZ - 1 + 1 = t.lineZ := by omega
    rwa [e] at this
  by_cases hit : isIter t.kind = true
  · -- REPT / IRP / IRPC
    have hc : cur t = l :: r := by rw [h4 hit, hd]
    have hp : processor t = iterProcessor t := by
      unfold processor; cases hk : t.kind <;> simp_all [isIter]
    by_cases hlast : t.lineZ + 1 > t.lineCnt
    · have hrn : r = [] := drop_last t.lines (t.lineZ - 1) l r hd (by omega)
      refine ⟨l.map (iterFn t t.parZ), wrapTag t r, ?_, ?_, ?_, rfl⟩
      · rw [hp]; simp [iterProcessor, hc, hlast, wrapTag]
      · rw [rem_iter t hit hE, hc, hrn, rem_wrapTag t [] hit]; rfl
      · by_cases hz : ((t.parZ + incOf t : Nat) : Int) > t.parCnt
        · left; rw [wrapTag_isEmpty]; exact decide_eq_true hz
        · right
          refine ⟨by simp [wrapTag], by simp [wrapTag]; omega, h3, ?_⟩
          intro _
          simp [cur, wrapTag]
    · refine ⟨l.map (iterFn t t.parZ), stepTag t r, ?_, ?_, ?_, rfl⟩
      · rw [hp]; simp [iterProcessor, hc, hlast, stepTag]
      · rw [rem_iter t hit hE, hc, rem_stepTag t r hit hE h1]; rfl
      · right
        have h0 : t.lineZ ≠ 0 := by omega
        refine ⟨by simp [stepTag], by simp [stepTag]; omega, h3, ?_⟩
        intro _
        simp [cur, stepTag, h0, hr]
  · -- file / macro
    have hnot : isIter t.kind = false := by simpa using hit
    by_cases hlast : t.lineZ + 1 > t.lineCnt
    · have hrn : r = [] := drop_last t.lines (t.lineZ - 1) l r hd (by omega)
      cases hk : t.kind with
      | file =>
        refine ⟨l, { t with lineZ := t.lineZ + 1, isEmpty := decide (t.lineZ + 1 > t.lineCnt) }, ?_, ?_, ?_, hk⟩
        · simp [processor, hk, fileProcessor, hd]
        · simp [rem, hE, hk, hd, hlast, hrn]
        · left; simp [hlast]
      | mac =>
        refine ⟨l.map (macroFn t), { t with lineZ := t.lineZ + 1, isEmpty := decide (t.lineZ + 1 > t.lineCnt) }, ?_, ?_, ?_, hk⟩
        · simp [processor, hk, macroProcessor, hd, macroFn, tokArgs]
        · simp [rem, hE, hk, hd, hlast, hrn]
        · left; simp [hlast]
      | rept | irp | irpc => all_goals simp [hk, isIter] at hnot
    · cases hk : t.kind with
      | file =>
        refine ⟨l, { t with lineZ := t.lineZ + 1, isEmpty := decide (t.lineZ + 1 > t.lineCnt) }, ?_, ?_, ?_, hk⟩
        · simp [processor, hk, fileProcessor, hd]
        · simp [rem, hE, hk, hd, hlast, hr]
        · right; exact ⟨by simp, by simp; omega, by simp [h3], by simp [hk, isIter]⟩
      | mac =>
        refine ⟨l.map (macroFn t), { t with lineZ := t.lineZ + 1, isEmpty := decide (t.lineZ + 1 > t.lineCnt) }, ?_, ?_, ?_, hk⟩
        · simp [processor, hk, macroProcessor, hd, macroFn, tokArgs]
        · simp [rem, hE, hk, hd, hlast, hr, macroFn, tokArgs]
        · right; exact ⟨by simp, by simp; omega, by simp [h3], by simp [hk, isIter]⟩
      | rept | irp | irpc => all_goals simp [hk, isIter] at hnot

theorem rem_nonempty (t : Tag) (hI : Inv t) (hE : t.isEmpty = false) : rem t ≠ [] := by
  obtain ⟨l, t', _, h, _, _⟩ := next_abs t hI hE
  rw [h]; simp

theorem isEmpty_abs (t : Tag) (hI : Inv t) : aops.isEmpty (abs t) = ops.isEmpty t := by
  show (rem t).isEmpty = t.isEmpty
  cases hE : t.isEmpty with
  | true => simp [rem, hE]
  | false =>
    have := rem_nonempty t hI hE
    cases h : rem t with
    | nil => exact absurd h this
    | cons _ _ => rfl

/-! ### the fresh tags -/

theorem Inv_blank (k : TKind) (ls : List SLine) (t : Tag)
    (h1 : t.isEmpty = ls.isEmpty) (h2 : t.lineZ = 1) (h3 : t.lineCnt = ls.length) (h4 : t.lines = ls) : Inv t := by
  cases ls with
  | nil => left; simpa using h1
  | cons a b =>
    right
    refine ⟨by omega, by rw [h2, h3]; simp, by rw [h3, h4], ?_⟩
    intro _
    simp [cur, h2]

theorem Inv_mkFile (ls : List SLine) : Inv (mkFile ls) := Inv_blank .file ls _ rfl rfl rfl rfl
theorem Inv_mkRept (n : Nat) (ls : List SLine) : Inv (mkRept n ls) := Inv_blank .rept ls _ rfl rfl rfl rfl
theorem Inv_mkIrp (pi : Nat) (ps : List Line) (ls : List SLine) : Inv (mkIrp pi ps ls) :=
  Inv_blank .irp ls _ rfl rfl rfl rfl
theorem Inv_mkIrpc (cs : Line) (ls : List SLine) : Inv (mkIrpc cs ls) := Inv_blank .irpc ls _ rfl rfl rfl rfl
theorem Inv_expandMacro (q : Quirks) (cs : Bool) (m : MacroRec) (as : List CallArg) : Inv (expandMacro q cs m as) :=
  Inv_blank .mac m.lines _ rfl rfl rfl rfl

theorem Inv_exitTag (t : Tag) : Inv (exitTag t) := Or.inl rfl

theorem abs_exitTag (t : Tag) : abs (exitTag t) = aops.exitm (abs t) := by
  simp [abs, exitTag, rem, aops]

/-! ### simulation -/

def mapSt {τ σ : Type} (f : τ → σ) (s : St τ) : St σ :=
  { inp := s.inp.map f, coll := s.coll, macros := s.macros, out := s.out, crashed := s.crashed, shifted := s.shifted }

def AllInv (s : St Tag) : Prop := ∀ t ∈ s.inp, Inv t

/-- the abstract state follows the concrete one until a SHIFT is executed -/
def Sim (s : St Tag) (a : St ATag) : Prop := a.shifted = true ∨ (a = mapSt abs s ∧ AllInv s)

theorem popEmpty_abs : ∀ (inp : List Tag), (∀ t ∈ inp, Inv t) →
    popEmpty aops (inp.map abs) = (popEmpty ops inp).map abs ∧ (∀ t ∈ popEmpty ops inp, Inv t)
  | [], _ => by simp [popEmpty]
  | t :: rest, h => by
    have ht := h t (by simp)
    have hr := popEmpty_abs rest (fun x hx => h x (by simp [hx]))
    simp only [List.map_cons, popEmpty, isEmpty_abs t ht]
    cases hE : ops.isEmpty t with
    | true => simpa using hr
    | false => simpa using h

theorem popEmpty_head_nonempty : ∀ (inp : List Tag) (t : Tag) (rest : List Tag),
    popEmpty ops inp = t :: rest → t.isEmpty = false
  | [], _, _, h => by simp [popEmpty] at h
  | x :: xs, t, rest, h => by
    simp only [popEmpty] at h
    cases hE : ops.isEmpty x with
    | true => rw [hE] at h; exact popEmpty_head_nonempty xs t rest (by simpa using h)
    | false =>
      rw [hE] at h
      simp only [Bool.false_eq_true, if_false, List.cons.injEq] at h
      rw [← h.1]; exact hE

def Fetch.mapF {τ σ : Type} (f : τ → σ) : Fetch τ → Fetch σ
  | .eof => .eof
  | .crash => .crash
  | .line l inp => .line l (inp.map f)

theorem fetch_abs (inp : List Tag) (h : ∀ t ∈ inp, Inv t) :
    fetch aops (inp.map abs) = (fetch ops inp).mapF abs ∧ fetch ops inp ≠ .crash ∧
    (∀ l inp', fetch ops inp = .line l inp' → ∀ t ∈ inp', Inv t) := by
  obtain ⟨hp, hpi⟩ := popEmpty_abs inp h
  unfold fetch
  rw [hp]
  cases hq : popEmpty ops inp with
  | nil => simp [Fetch.mapF]
  | cons t rest =>
    rw [hq] at hpi
    have hE := popEmpty_head_nonempty inp t rest hq
    obtain ⟨l, t', hn, hrem, hI', _⟩ := next_abs t (hpi t (by simp)) hE
    have hn' : ops.next t = some (l, t') := hn
    simp only [List.map_cons, hn']
    have : aops.next (abs t) = some (l, abs t') := by
      show (match (abs t).rem with | [] => none | l :: r => some (l, (⟨(abs t).kind, r⟩ : ATag))) = _
      simp only [abs, hrem]
      rename_i hk
      simp [hk]
    rw [this]
    refine ⟨by simp [Fetch.mapF], by simp, ?_⟩
    intro l2 inp2 he
    simp only [Fetch.line.injEq] at he
    intro x hx
    rw [← he.2] at hx
    rcases List.mem_cons.mp hx with rfl | hx
    · exact hI'
    · exact hpi x (by simp [hx])

theorem sim_finishColl (q : Quirks) (c : Coll) (s : St Tag) (h : AllInv s) :
    finishColl aops q c (mapSt abs s) = mapSt abs (finishColl ops q c s) ∧ AllInv (finishColl ops q c s) := by
  unfold finishColl
  cases c.kind with
  | mac id ps ds => exact ⟨rfl, h⟩
  | rept n =>
    by_cases hn : n > 0
    · simp only [hn, if_true]
      refine ⟨rfl, ?_⟩
      intro t ht
      rcases List.mem_cons.mp ht with rfl | ht
      · exact Inv_mkRept _ _
      · exact h t ht
    · simp only [hn, if_false]; exact ⟨rfl, h⟩
  | irp names params pi =>
    refine ⟨rfl, ?_⟩
    intro t ht
    rcases List.mem_cons.mp ht with rfl | ht
    · exact Inv_mkIrp _ _ _
    · exact h t ht
  | irpc name chars =>
    by_cases hc : (chars.isEmpty && !q.irpcEmptyOnce) = true
    · simp only [hc, if_true]; exact ⟨rfl, h⟩
    · simp only [hc, if_false]
      refine ⟨rfl, ?_⟩
      intro t ht
      rcases List.mem_cons.mp ht with rfl | ht
      · exact Inv_mkIrpc _ _
      · exact h t ht
  | wait => exact ⟨rfl, h⟩

theorem sim_keepLine (cs : Bool) (c : Coll) (l : SLine) (n : Nat) (s : St Tag) (h : AllInv s) :
    keepLine cs c l n (mapSt abs s) = mapSt abs (keepLine cs c l n s) ∧ AllInv (keepLine cs c l n s) := by
  unfold keepLine
  cases c.kind <;> exact ⟨rfl, h⟩

theorem sim_collect (q : Quirks) (cs : Bool) (c : Coll) (l : SLine) (s : St Tag) (h : AllInv s) :
    collect aops q cs c l (mapSt abs s) = mapSt abs (collect ops q cs c l s) ∧ AllInv (collect ops q cs c l s) := by
  unfold collect
  by_cases h1 : l.isStart = true
  · simp only [h1, if_true]; exact sim_keepLine cs c l _ s h
  · simp only [h1]
    by_cases h2 : l.isEnd = true
    · simp only [h2, if_true]
      by_cases h3 : c.nest = 0
      · simp only [h3, if_true]; exact sim_finishColl q c s h
      · simp only [h3]; exact sim_keepLine cs c l _ s h
    · simp only [h2]; exact sim_keepLine cs c l _ s h

theorem sim_execute (q : Quirks) (cs : Bool) (l : SLine) (s : St Tag) (h : AllInv s) :
    Sim (execute ops q cs l s) (execute aops q cs l (mapSt abs s)) := by
  cases l with
  | plain t => exact Or.inr ⟨rfl, h⟩
  | macroDef id ps ds => exact Or.inr ⟨rfl, h⟩
  | rept n => exact Or.inr ⟨rfl, h⟩
  | irp var args => exact Or.inr ⟨rfl, h⟩
  | irpn k rest =>
    simp only [execute]
    split
    · exact Or.inr ⟨rfl, h⟩
    · exact Or.inr ⟨rfl, h⟩
  | irpc var chars => exact Or.inr ⟨rfl, h⟩
  | endm => exact Or.inr ⟨rfl, h⟩
  | exitm =>
    simp only [execute]
    cases hi : s.inp with
    | nil =>
      have : (mapSt abs s).inp = [] := by simp [mapSt, hi]
      rw [this]
      exact Or.inr ⟨rfl, h⟩
    | cons t rest =>
      have : (mapSt abs s).inp = abs t :: rest.map abs := by simp [mapSt, hi]
      rw [this]
      show Sim (if ops.kind t = .file then s else if (ops.kind t = .irp && q.exitmIrpCrash) = true then _ else _)
        (if aops.kind (abs t) = .file then _ else if (aops.kind (abs t) = .irp && q.exitmIrpCrash) = true then _ else _)
      have hk : aops.kind (abs t) = ops.kind t := rfl
      rw [hk]
      by_cases h1 : ops.kind t = .file
      · simp only [h1, if_true]; exact Or.inr ⟨rfl, h⟩
      · simp only [h1, if_false]
        by_cases h2 : (decide (ops.kind t = .irp) && q.exitmIrpCrash) = true
        · simp only [h2, if_true]
          exact Or.inr ⟨rfl, fun x hx => h x (by rw [hi]; exact hx)⟩
        · simp only [h2]
          refine Or.inr ⟨?_, ?_⟩
          · simp [mapSt, abs_exitTag]
            rfl
          · intro x hx
            rcases List.mem_cons.mp hx with rfl | hx
            · exact Inv_exitTag _
            · exact h x (by rw [hi]; simp [hx])
  | shift =>
    simp only [execute]
    cases hi : s.inp with
    | nil =>
      have : (mapSt abs s).inp = [] := by simp [mapSt, hi]
      rw [this]
      exact Or.inr ⟨rfl, h⟩
    | cons t rest =>
      have : (mapSt abs s).inp = abs t :: rest.map abs := by simp [mapSt, hi]
      rw [this]
      have hk : aops.kind (abs t) = ops.kind t := rfl
      simp only [hk]
      by_cases h1 : ops.kind t = .file
      · simp only [h1, if_true]; exact Or.inr ⟨rfl, h⟩
      · simp only [h1, if_false]; exact Or.inl rfl
  | call id args =>
    simp only [execute]
    have : (mapSt abs s).macros = s.macros := rfl
    rw [this]
    cases findMacro s.macros id with
    | none => exact Or.inr ⟨rfl, h⟩
    | some m =>
      refine Or.inr ⟨rfl, ?_⟩
      intro x hx
      rcases List.mem_cons.mp hx with rfl | hx
      · exact Inv_expandMacro _ _ _ _
      · exact h x hx

theorem sim_dispatch (q : Quirks) (cs : Bool) (l : SLine) (s : St Tag) (h : AllInv s) :
    Sim (dispatch ops q cs l s) (dispatch aops q cs l (mapSt abs s)) := by
  unfold dispatch
  have : (mapSt abs s).coll = s.coll := rfl
  rw [this]
  cases s.coll with
  | none => exact sim_execute q cs l s h
  | some c =>
    obtain ⟨e, hi⟩ := sim_collect q cs c l s h
    exact Or.inr ⟨e, hi⟩

/-! ### the `shifted` flag is sticky -/

theorem shifted_finishColl {τ} (o : TagOps τ) (q : Quirks) (c : Coll) (s : St τ) (h : s.shifted = true) :
    (finishColl o q c s).shifted = true := by
  unfold finishColl
  cases c.kind <;> simp only [] <;> (try split) <;> exact h

theorem shifted_keepLine {τ} (cs : Bool) (c : Coll) (l : SLine) (n : Nat) (s : St τ) (h : s.shifted = true) :
    (keepLine cs c l n s).shifted = true := by
  unfold keepLine
  cases c.kind <;> exact h

theorem shifted_dispatch {τ} (o : TagOps τ) (q : Quirks) (cs : Bool) (l : SLine) (s : St τ) (h : s.shifted = true) :
    (dispatch o q cs l s).shifted = true := by
  unfold dispatch
  cases hc : s.coll with
  | some c =>
    simp only []
    unfold collect
    split
    · exact shifted_keepLine cs c l _ s h
    · split
      · split
        · exact shifted_finishColl o q c s h
        · exact shifted_keepLine cs c l _ s h
      · exact shifted_keepLine cs c l _ s h
  | none =>
    simp only []
    cases l <;> simp only [execute, startColl] <;> (repeat' split) <;> first | exact h | rfl

theorem shifted_step {τ} (o : TagOps τ) (q : Quirks) (cs : Bool) (s s' : St τ) (h : s.shifted = true)
    (hs : step o q cs s = some s') : s'.shifted = true := by
  unfold step at hs
  split at hs
  · cases hs
  · split at hs
    · split at hs
      · cases hs
      · simp only [Option.some.injEq] at hs; rw [← hs]; exact h
    · simp only [Option.some.injEq] at hs; rw [← hs]; exact h
    · simp only [Option.some.injEq] at hs; rw [← hs]
      exact shifted_dispatch o q cs _ _ h

theorem shifted_run {τ} (o : TagOps τ) (q : Quirks) (cs : Bool) : ∀ (n : Nat) (s : St τ), s.shifted = true →
    (run o q cs n s).shifted = true
  | 0, s, h => h
  | n + 1, s, h => by
    simp only [run]
    cases hs : step o q cs s with
    | none => exact h
    | some s' => exact shifted_run o q cs n s' (shifted_step o q cs s s' h hs)

/-! ### the simulation theorem -/

theorem sim_step (q : Quirks) (cs : Bool) (s : St Tag) (h : AllInv s) :
    (step ops q cs s = none ∧ step aops q cs (mapSt abs s) = none) ∨
    (∃ s' a', step ops q cs s = some s' ∧ step aops q cs (mapSt abs s) = some a' ∧ Sim s' a') := by
  unfold step
  have hc : (mapSt abs s).crashed = s.crashed := rfl
  rw [hc]
  by_cases hcr : s.crashed = true
  · left; simp [hcr]
  · rw [if_neg hcr, if_neg hcr]
    have hi : (mapSt abs s).inp = s.inp.map abs := rfl
    rw [hi]
    obtain ⟨hf, hnc, hinv⟩ := fetch_abs s.inp h
    rw [hf]
    cases hq : fetch ops s.inp with
    | eof =>
      simp only [Fetch.mapF]
      cases hin : s.inp with
      | nil => left; simp
      | cons t rest =>
        right
        refine ⟨{ s with inp := [] }, { mapSt abs s with inp := [] }, by simp, by simp [mapSt], Or.inr ⟨rfl, ?_⟩⟩
        intro x hx; cases hx
    | crash => exact absurd hq hnc
    | line l inp' =>
      simp only [Fetch.mapF]
      right
      refine ⟨_, _, rfl, rfl, ?_⟩
      have hI : AllInv { s with inp := inp' } := hinv l inp' hq
      exact sim_dispatch q cs l { s with inp := inp' } hI

theorem sim_run (q : Quirks) (cs : Bool) : ∀ (n : Nat) (s : St Tag) (a : St ATag), Sim s a →
    Sim (run ops q cs n s) (run aops q cs n a)
  | 0, _, _, h => h
  | n + 1, s, a, h => by
    rcases h with h | ⟨rfl, hI⟩
    · exact Or.inl (shifted_run aops q cs (n + 1) a h)
    · simp only [run]
      rcases sim_step q cs s hI with ⟨h1, h2⟩ | ⟨s', a', h1, h2, h3⟩
      · rw [h1, h2]; exact Or.inr ⟨rfl, hI⟩
      · rw [h1, h2]; exact sim_run q cs n s' a' h3

/-- what the concrete machine delivers can be read off the abstract run, unless a SHIFT was executed -/
theorem run_of_abstract (q : Quirks) (cs : Bool) (n : Nat) (src : List SLine)
    (hs : (run aops q cs n (initSt (abs (mkFile src)))).shifted = false) :
    mapSt abs (runFile q cs n src) = run aops q cs n (initSt (abs (mkFile src))) := by
  have h0 : Sim (initSt (mkFile src)) (initSt (abs (mkFile src))) := by
    refine Or.inr ⟨rfl, ?_⟩
    intro t ht
    have : t = mkFile src := by simpa [initSt] using ht
    rw [this]; exact Inv_mkFile src
  rcases sim_run q cs n _ _ h0 with h | ⟨h, _⟩
  · rw [hs] at h; cases h
  · exact h.symm

end AslModel.Tags
