import AslModel.Lemmas.AddrLabRefine
/-!
# One line of the whole-program refinement `C10_lab_refine` (`Props/C10_Lab.lean`): `sim_step`, and the run (`sim_run`)
-/
namespace AslModel.AddrLabRefine
open AslModel.PFile (Byte b)
open AslModel.Data AslModel.DataModel AslModel.AddrLab AslModel.AddrLabModel AslModel.AddrLabLemmas

theorem Rel_nolast {m : M} {s : S} (hc : RelC m s) (hl : m.last = none) (hp : s.pending = none) (hs : SymsRel m.syms s.syms) : Rel m s :=
  Rel.ofC hc (by simp [LastRel, hl, hp]) hs

theorem defOwn_syms (s : S) (ln : Line) :
    (defOwn s ln).syms = match ln.label with | some l => define s.syms (symOf s l) (some (AddrLab.epc s)) | none => s.syms := by
  unfold defOwn; cases ln.label <;> rfl

theorem defOwn_keeps (s : S) (ln : Line) :
    (defOwn s ln).pc = s.pc ∧ (defOwn s ln).ph = s.ph ∧ (defOwn s ln).pstack = s.pstack ∧ (defOwn s ln).padding = s.padding ∧
    (defOwn s ln).frame = s.frame ∧ (defOwn s ln).cells = s.cells ∧ (defOwn s ln).errs = s.errs := by
  unfold defOwn; cases ln.label <;> simp

/-- label present on every line that is not STRUCT / ENDSTRUCT -/
theorem labelPresent_of (ln : Line) (h1 : ∀ n u, ln.op ≠ .struct n u) (h2 : ln.op ≠ .endstruct) :
    ∀ l, ln.label = some l → labelPresent ln = true := by
  intro l hl
  unfold labelPresent
  cases hop : ln.op <;> simp_all

/-- a line that only holds a label, or opens a construct -/
theorem sim_label_only (c : Cfg) (m : M) (s : S) (h : Rel m s) (ln : Line) (hop : ln.op = .blank ∨ ln.op = .opener true)
    (hp : preFresh s ln = true) :
    AddrLabModel.step c m ln = some (labelStep m ln) ∧
    Rel (labelStep m ln) (match ln.label with
      | some l => { s with syms := define s.syms (symOf s l) (some (AddrLab.epc s)), pending := some (symOf s l),
                           older := s.older ++ s.pending.toList }
      | none => s) := by
  have hlp : ∀ l, ln.label = some l → labelPresent ln = true :=
    labelPresent_of ln (fun n u hh => by rcases hop with ho | ho <;> rw [ho] at hh <;> cases hh)
      (fun hh => by rcases hop with ho | ho <;> rw [ho] at hh <;> cases hh)
  have hfresh := preFresh_label s ln hp
  refine ⟨?_, ?_⟩
  · rw [step_eq]
    rcases hop with ho | ho <;> simp [ho, decode, opEmpty, resetLast]
  · cases hl : ln.label with
    | none =>
      have : labelStep m ln = m := by simp [labelStep, hl]
      rw [this]; exact h
    | some l =>
      simp only
      have hc1 := labelStep_C m s h.toC ln
      have hsy := nolay_syms m s h ln hlp hfresh (some (AddrLab.epc s)) (fun x hx => by cases hx; rfl)
      rw [hl] at hsy
      exact Rel.ofC ⟨hc1.pc, hc1.pcNonneg, hc1.ph, hc1.pstack, hc1.padding, hc1.frame, hc1.cells, hc1.errs⟩
        (labelStep_last_some m s h ln l hl (hlp l hl) (hfresh l hl)) hsy

/-- what every line that places nothing shares: the label of the line is defined at the program counter, the label memory is
cleared -/
theorem nolay_base (m : M) (s : S) (h : Rel m s) (ln : Line)
    (hlp : ∀ l, ln.label = some l → labelPresent ln = true) (hp : preFresh s ln = true) :
    RelC (labelStep m ln) (forget (defOwn s ln)) ∧ SymsRel (labelStep m ln).syms (forget (defOwn s ln)).syms := by
  have hc1 := labelStep_C m s h.toC ln
  obtain ⟨d1, d2, d3, d4, d5, d6, d7⟩ := defOwn_keeps s ln
  refine ⟨⟨hc1.pc.trans d1.symm, d1 ▸ hc1.pcNonneg, hc1.ph.trans d2.symm, hc1.pstack.trans d3.symm, hc1.padding.trans d4.symm, ?_,
    hc1.cells.trans d6.symm, hc1.errs.trans d7.symm⟩, ?_⟩
  · show FrameOptRel _ (defOwn s ln).frame (defOwn s ln).pc
    rw [d5, d1]; exact hc1.frame
  · show SymsRel _ (defOwn s ln).syms
    rw [defOwn_syms]
    exact nolay_syms m s h ln hlp (preFresh_label s ln hp) _ (fun x hx => by cases hx; rfl)

theorem sim_other (c : Cfg) (big : Bool) (m : M) (s : S) (h : Rel m s) (ln : Line) (hop : ln.op = .other)
    (hp : preFresh s ln = true) (s' : S) (hs : AddrLab.step big s ln = .ok s') :
    ∃ m', AddrLabModel.step c m ln = some m' ∧ Rel m' s' := by
  have hlp := labelPresent_of ln (fun n u hh => by rw [hop] at hh; cases hh) (fun hh => by rw [hop] at hh; cases hh)
  obtain ⟨B, Bs⟩ := nolay_base m s h ln hlp hp
  simp only [AddrLab.step, hop, Step.ok.injEq] at hs
  subst hs
  refine ⟨finish (labelStep m ln), by simp [step_eq, hop, decode, opEmpty, resetLast], ?_⟩
  exact Rel_nolast (RelC_finish B) rfl rfl Bs

theorem sim_padding (c : Cfg) (big : Bool) (m : M) (s : S) (h : Rel m s) (ln : Line) (on : Bool) (hop : ln.op = .padding on)
    (hp : preFresh s ln = true) (s' : S) (hs : AddrLab.step big s ln = .ok s') :
    ∃ m', AddrLabModel.step c m ln = some m' ∧ Rel m' s' := by
  have hlp := labelPresent_of ln (fun n u hh => by rw [hop] at hh; cases hh) (fun hh => by rw [hop] at hh; cases hh)
  obtain ⟨B, Bs⟩ := nolay_base m s h ln hlp hp
  simp only [AddrLab.step, hop, Step.ok.injEq] at hs
  subst hs
  refine ⟨finish { labelStep m ln with padding := on }, by simp [step_eq, hop, decode, opEmpty, resetLast], ?_⟩
  exact Rel_nolast ⟨B.pc, B.pcNonneg, B.ph, B.pstack, rfl, B.frame, B.cells, B.errs⟩ rfl rfl Bs

theorem sim_org (c : Cfg) (big : Bool) (m : M) (s : S) (h : Rel m s) (ln : Line) (v : Nat) (hop : ln.op = .org v)
    (hp : preFresh s ln = true) (s' : S) (hs : AddrLab.step big s ln = .ok s') :
    ∃ m', AddrLabModel.step c m ln = some m' ∧ Rel m' s' := by
  have hlp := labelPresent_of ln (fun n u hh => by rw [hop] at hh; cases hh) (fun hh => by rw [hop] at hh; cases hh)
  obtain ⟨B, Bs⟩ := nolay_base m s h ln hlp hp
  have hc1 := labelStep_C m s h.toC ln
  simp only [AddrLab.step, hop] at hs
  split at hs
  · cases hs
  · rename_i hg
    simp only [Bool.or_eq_true, not_or, Bool.not_eq_true, bne_eq_false_iff_eq] at hg
    obtain ⟨hg1, hg2⟩ := hg
    cases hs
    have hfm : (labelStep m ln).frame.isSome = false := by rw [hc1.frameSome]; exact hg1
    refine ⟨finish { labelStep m ln with pc := (v : Int) - (labelStep m ln).ph }, by simp [step_eq, hop, decode, opEmpty, resetLast, hfm], ?_⟩
    have hf0 : (labelStep m ln).frame = none := by cases hx : (labelStep m ln).frame <;> simp_all
    have hs0 : s.frame = none := by cases hx : s.frame <;> simp_all
    refine Rel_nolast ⟨?_, ?_, B.ph, B.pstack, B.padding, ?_, B.cells, B.errs⟩ rfl rfl Bs
    · show (v : Int) - (labelStep m ln).ph = (v : Int)
      rw [hc1.ph, hg2]; omega
    · show (0 : Int) ≤ (v : Int)
      omega
    · show FrameOptRel (labelStep m ln).frame (defOwn s ln).frame _
      rw [hf0, (defOwn_keeps s ln).2.2.2.2.1, hs0]; trivial

theorem sim_phase (c : Cfg) (big : Bool) (m : M) (s : S) (h : Rel m s) (ln : Line) (v : Nat) (hop : ln.op = .phase v)
    (hp : preFresh s ln = true) (s' : S) (hs : AddrLab.step big s ln = .ok s') :
    ∃ m', AddrLabModel.step c m ln = some m' ∧ Rel m' s' := by
  have hlp := labelPresent_of ln (fun n u hh => by rw [hop] at hh; cases hh) (fun hh => by rw [hop] at hh; cases hh)
  obtain ⟨B, Bs⟩ := nolay_base m s h ln hlp hp
  have hc1 := labelStep_C m s h.toC ln
  simp only [AddrLab.step, hop] at hs
  split at hs
  · cases hs
  · rename_i hg
    simp only [Bool.or_eq_true, not_or, Bool.not_eq_true] at hg
    obtain ⟨hg1, _⟩ := hg
    cases hs
    have hfm : (labelStep m ln).frame.isSome = false := by rw [hc1.frameSome]; exact hg1
    refine ⟨finish { labelStep m ln with pstack := (labelStep m ln).ph :: (labelStep m ln).pstack, ph := (v : Int) - (labelStep m ln).pc },
      by simp [step_eq, hop, decode, opEmpty, resetLast, hfm], ?_⟩
    refine Rel_nolast ⟨B.pc, B.pcNonneg, ?_, ?_, B.padding, B.frame, B.cells, B.errs⟩ rfl rfl Bs
    · show (v : Int) - (labelStep m ln).pc = (v : Int) - s.pc
      rw [hc1.pc]
    · show (labelStep m ln).ph :: (labelStep m ln).pstack = s.ph :: s.pstack
      rw [hc1.ph, hc1.pstack]

theorem sim_dephase (c : Cfg) (big : Bool) (m : M) (s : S) (h : Rel m s) (ln : Line) (hop : ln.op = .dephase)
    (hp : preFresh s ln = true) (s' : S) (hs : AddrLab.step big s ln = .ok s') :
    ∃ m', AddrLabModel.step c m ln = some m' ∧ Rel m' s' := by
  have hlp := labelPresent_of ln (fun n u hh => by rw [hop] at hh; cases hh) (fun hh => by rw [hop] at hh; cases hh)
  obtain ⟨B, Bs⟩ := nolay_base m s h ln hlp hp
  have hc1 := labelStep_C m s h.toC ln
  simp only [AddrLab.step, hop] at hs
  split at hs
  · cases hs
  · rename_i hg
    have hg1 : s.frame.isSome = false := by simpa using hg
    have hfm : (labelStep m ln).frame.isSome = false := by rw [hc1.frameSome]; exact hg1
    cases hst : s.pstack with
    | nil =>
      rw [hst] at hs
      cases hs
      have hmst : (labelStep m ln).pstack = [] := by rw [hc1.pstack]; exact hst
      refine ⟨finish { labelStep m ln with ph := 0 }, by simp [step_eq, hop, decode, opEmpty, resetLast, hfm, hmst], ?_⟩
      exact Rel_nolast ⟨B.pc, B.pcNonneg, rfl, B.pstack, B.padding, B.frame, B.cells, B.errs⟩ rfl rfl Bs
    | cons p rest =>
      rw [hst] at hs
      cases hs
      have hmst : (labelStep m ln).pstack = p :: rest := by rw [hc1.pstack]; exact hst
      refine ⟨finish { labelStep m ln with ph := p, pstack := rest }, by simp [step_eq, hop, decode, opEmpty, resetLast, hfm, hmst], ?_⟩
      exact Rel_nolast ⟨B.pc, B.pcNonneg, rfl, rfl, B.padding, B.frame, B.cells, B.errs⟩ rfl rfl Bs

theorem labelStep_struct (m : M) (ln : Line) (h : labelPresent ln = false) : labelStep m ln = m := by
  unfold labelStep
  cases ln.label <;> simp [h]

theorem sim_struct (c : Cfg) (big : Bool) (m : M) (s : S) (h : Rel m s) (ln : Line) (name : Nat) (u : Bool) (hop : ln.op = .struct name u)
    (s' : S) (hs : AddrLab.step big s ln = .ok s') :
    ∃ m', AddrLabModel.step c m ln = some m' ∧ Rel m' s' := by
  have hl : labelStep m ln = m := labelStep_struct m ln (by simp [labelPresent, hop])
  simp only [AddrLab.step, hop] at hs
  split at hs
  · cases hs
  · rename_i hg
    simp only [Bool.or_eq_true, not_or, Bool.not_eq_true] at hg
    obtain ⟨hg1, _⟩ := hg
    cases hs
    have hfm : m.frame.isSome = false := by rw [h.frameSome]; exact hg1
    refine ⟨finish { m with frame := some ⟨name, u, m.pc, 0⟩, pc := 0 }, by simp [step_eq, hl, hop, decode, opEmpty, resetLast, hfm], ?_⟩
    refine Rel_nolast ⟨rfl, Int.le_refl 0, h.ph, h.pstack, h.padding, ?_, h.cells, h.errs⟩ rfl rfl h.syms
    show FrameRel ⟨name, u, m.pc, 0⟩ ⟨name, u, s.pc, 0⟩ 0
    exact ⟨rfl, rfl, h.pc, h.pcNonneg, fun _ => ⟨rfl, Int.le_refl 0, rfl⟩, fun _ => Int.le_refl 0⟩

theorem sim_endstruct (c : Cfg) (big : Bool) (m : M) (s : S) (h : Rel m s) (ln : Line) (hop : ln.op = .endstruct)
    (hp : preFresh s ln = true) (s' : S) (hs : AddrLab.step big s ln = .ok s') :
    ∃ m', AddrLabModel.step c m ln = some m' ∧ Rel m' s' := by
  have hl : labelStep m ln = m := labelStep_struct m ln (by simp [labelPresent, hop])
  have hf := h.frame
  simp only [AddrLab.step, hop] at hs
  cases hsf : s.frame with
  | none => rw [hsf] at hs; cases hs
  | some fs =>
    rw [hsf] at hs
    simp only at hs
    split at hs
    · cases hs
    · cases hs
      cases hmf : m.frame with
      | none => rw [hmf, hsf] at hf; exact hf.elim
      | some fm =>
        rw [hmf, hsf] at hf
        have hfr : fresh s.syms ⟨some fs.name, none⟩ = true := by
          simp only [preFresh, hop, hsf, Bool.and_eq_true] at hp
          exact hp.2
        have hfrm := fresh_model m.syms s.syms _ h.syms hfr
        refine ⟨finish { m with syms := setSym m.syms ⟨some fm.name, none⟩ (max fm.maxLen m.pc), pc := fm.savePc, frame := none },
          by simp [step_eq, hl, hop, decode, opEmpty, resetLast, hmf], ?_⟩
        refine Rel_nolast ⟨hf.savePc, hf.saveNonneg, h.ph, h.pstack, h.padding, trivial, h.cells, h.errs⟩ rfl rfl ?_
        show SymsRel (setSym m.syms ⟨some fm.name, none⟩ (max fm.maxLen m.pc)) (define s.syms ⟨some fs.name, none⟩ _)
        rw [hf.name, setSym_fresh _ _ _ hfrm]
        refine SymsRel_append _ _ _ _ h.syms ⟨rfl, fun x hx => ?_⟩
        simp only [Option.some.injEq] at hx
        subst hx
        cases hu : fs.isUnion with
        | true =>
          obtain ⟨u1, u2, u3⟩ := hf.union hu
          simp only [h.pc, u1, u3]
          simp; omega
        | false =>
          have := hf.struct hu
          simp only [h.pc]
          simp; omega

/-! ## lines that place an object -/

theorem preLine_parts (c : Cfg) (big : Bool) (s : S) (ln : Line) (hp : preLine c big s ln = true) :
    preFresh s ln = true ∧ preOp c big s ln = true ∧ preKnown c big s ln = true := by
  simp only [preLine, Bool.and_eq_true] at hp
  exact ⟨hp.1.1, hp.1.2, hp.2⟩

theorem isSome_false_iff {α : Type} (o : Option α) : o.isSome = false ↔ o = none := by
  cases o <;> simp

theorem sim_bytes (c : Cfg) (big : Bool) (m : M) (s : S) (h : Rel m s) (ln : Line) (bs : List Byte) (hop : ln.op = .bytes bs)
    (hp : preLine c big s ln = true) (s' : S) (hs : AddrLab.step big s ln = .ok s') :
    ∃ m', AddrLabModel.step c m ln = some m' ∧ Rel m' s' := by
  obtain ⟨hp1, hp2, hp3⟩ := preLine_parts c big s ln hp
  have hlp := labelPresent_of ln (fun n u hh => by rw [hop] at hh; cases hh) (fun hh => by rw [hop] at hh; cases hh)
  have hc1 := labelStep_C m s h.toC ln
  simp only [AddrLab.step, hop] at hs
  have po := place_out s ln 0 bs.length true bs s' hs
  have hsf : s.frame.isSome = false := by
    cases hx : s.frame.isSome with
    | false => rfl
    | true =>
      have hb := po.inFrame hx
      simp [preOp, hop, hx, hb] at hp2
  have hfm : (labelStep m ln).frame.isSome = false := by rw [hc1.frameSome]; exact hsf
  refine ⟨placeM c m ln none bs.length bs, by simp [step_eq, hop, decode, opEmpty, resetLast, hfm, placeM, padStep], ?_⟩
  exact sim_place c m s h ln none 0 bs.length true bs s' hlp (preFresh_label s ln hp1) rfl ⟨by simp, by simp⟩ (by simp)
    (fun hh => absurd rfl hh) hs

theorem sim_obj (c : Cfg) (big : Bool) (m : M) (s : S) (h : Rel m s) (ln : Line) (bs : List Byte) (hop : ln.op = .obj bs)
    (hp : preLine c big s ln = true) (s' : S) (hs : AddrLab.step big s ln = .ok s') :
    ∃ m', AddrLabModel.step c m ln = some m' ∧ Rel m' s' := by
  obtain ⟨hp1, hp2, hp3⟩ := preLine_parts c big s ln hp
  have hlp := labelPresent_of ln (fun n u hh => by rw [hop] at hh; cases hh) (fun hh => by rw [hop] at hh; cases hh)
  have hc1 := labelStep_C m s h.toC ln
  simp only [AddrLab.step, hop] at hs
  split at hs
  · cases hs
  · rename_i hne
    have hne' : bs ≠ [] := by intro hh; simp [hh] at hne
    have po := place_out s ln _ bs.length true bs s' hs
    have hsf : s.frame.isSome = false := by
      cases hx : s.frame.isSome with
      | false => rfl
      | true => exact absurd (po.inFrame hx) hne'
    have hfm : (labelStep m ln).frame.isSome = false := by rw [hc1.frameSome]; exact hsf
    have hK1 := preKnown_K c big s ln hp3
    have hpl : padOfLine big s ln = (if (isOdd (AddrLab.epc s) && s.padding) = true then 1 else 0) := by simp [padOfLine, hop]
    rw [hpl] at hK1
    refine ⟨placeM c m ln (if isOdd (AddrLab.epc s) && s.padding then some false else none) bs.length bs, ?_, ?_⟩
    · simp only [step_eq, hop, decode, hfm, Bool.false_eq_true, if_false, opEmpty, resetLast, Bool.not_false, Bool.and_self, if_true,
        placeM, hc1.epc, hc1.padding, isOdd]
      by_cases h1 : (AddrLab.epc s % 2 == 1) = true <;> by_cases h2 : s.padding = true <;> simp [h1, h2, padStep]
    · refine sim_place c m s h ln _ _ bs.length true bs s' hlp (preFresh_label s ln hp1) ?_ ⟨fun _ => rfl, ?_⟩ (by simp) hK1 hs
      · cases (isOdd (AddrLab.epc s) && s.padding) <;> rfl
      · cases (isOdd (AddrLab.epc s) && s.padding) <;> simp

theorem toNat_odd (x : Int) (hx : 0 ≤ x) : (x.toNat % 2 == 1) = (x % 2 == 1) := by
  rw [Bool.eq_iff_iff]
  simp only [beq_iff_eq]
  constructor <;> intro h <;> omega

theorem padBefore_int (p : Bool) (x : Int) (w : Nat) (hx : 0 ≤ x) :
    padBefore p x.toNat w = if (x % 2 == 1 && p && w != 1) = true then 1 else 0 := by
  unfold padBefore
  rw [toNat_odd x hx]
  cases p <;> cases (x % 2 == 1) <;> by_cases hw : w = 1 <;> simp [hw]

theorem sim_dsx (c : Cfg) (big : Bool) (m : M) (s : S) (h : Rel m s) (ln : Line) (w n : Nat) (hop : ln.op = .dsx w n)
    (hp : preLine c big s ln = true) (s' : S) (hs : AddrLab.step big s ln = .ok s') :
    ∃ m', AddrLabModel.step c m ln = some m' ∧ Rel m' s' := by
  obtain ⟨hp1, hp2, hp3⟩ := preLine_parts c big s ln hp
  have hlp := labelPresent_of ln (fun n u hh => by rw [hop] at hh; cases hh) (fun hh => by rw [hop] at hh; cases hh)
  have hc1 := labelStep_C m s h.toC ln
  simp only [AddrLab.step, hop] at hs
  split at hs
  · cases hs
  · rename_i hg'
    simp only [Bool.or_eq_true, decide_eq_true_eq, not_or] at hg'
    have hnn : 0 ≤ AddrLab.epc s := by omega
    have hg : ¬ (n = 0 || w = 0) = true := by simp only [Bool.or_eq_true, decide_eq_true_eq, not_or]; exact hg'.1
    rw [padBefore_int s.padding _ w hnn] at hs
    have hK1 := preKnown_K c big s ln hp3
    have hpl : padOfLine big s ln = (if (AddrLab.epc s % 2 == 1 && s.padding && w != 1) = true then 1 else 0) := by
      simp only [padOfLine, hop]
      exact padBefore_int s.padding _ w hnn
    rw [hpl] at hK1
    refine ⟨placeM c m ln (if AddrLab.epc s % 2 == 1 && s.padding && w != 1 then some true else none) (n * w) [], ?_, ?_⟩
    · simp only [step_eq, hop, decode, hg, opEmpty, resetLast, Bool.not_false, Bool.and_self, if_true,
        placeM, hc1.epc, hc1.padding]
      by_cases h1 : (AddrLab.epc s % 2 == 1 && s.padding && w != 1) = true <;> simp [h1, padStep]
    · refine sim_place c m s h ln _ _ (n * w) false [] s' hlp (preFresh_label s ln hp1) ?_ ⟨?_, fun _ => rfl⟩ (fun _ => rfl) hK1 hs
      · cases (AddrLab.epc s % 2 == 1 && s.padding && w != 1) <;> rfl
      · cases (AddrLab.epc s % 2 == 1 && s.padding && w != 1) <;> simp

theorem writeCode_zero (m : M) (h : ∀ f, m.frame = some f → f.isUnion = true → 0 ≤ f.maxLen) : writeCode m 0 [] = m := by
  obtain ⟨pc, ph, pstack, padding, frame, last, syms, cells, errs⟩ := m
  cases frame with
  | none => simp [writeCode, cellsAt]
  | some f =>
    obtain ⟨name, isUnion, savePc, maxLen⟩ := f
    cases isUnion with
    | false => simp [writeCode]
    | true =>
      have h0 : 0 ≤ maxLen := h _ rfl rfl
      simp [writeCode]
      omega

theorem place_of_out (s : S) (ln : Line) (pad : Nat) (o : Out) :
    (match o with
     | .data bs => place s ln pad bs.length true bs
     | .space n => place s ln pad n false []
     | .empty => place s ln pad 0 false []) = place s ln pad (outUnits o) (outIsData o) (outBytes o) := by
  cases o <;> rfl

/-- the SPEC's step on a Motorola data statement, with the result of `specStmt` named -/
theorem spec_moto_some (big : Bool) (s : S) (ln : Line) (st : Stmt) (hop : ln.op = .moto st) (hnn : 0 ≤ AddrLab.epc s)
    (pad : Nat) (o : Out) (hsp : specStmt ⟨big, s.padding⟩ (AddrLab.epc s).toNat st = some (pad, o)) :
    AddrLab.step big s ln = place s ln pad (outUnits o) (outIsData o) (outBytes o) := by
  have : ¬ AddrLab.epc s < 0 := by omega
  simp only [AddrLab.step, hop, this, if_false, hsp]
  cases o <;> rfl

/-- SPEC: pad bytes that would have been due in front of a refused `DC` -/
def wouldPadS (s : S) (st : Stmt) : Nat :=
  match st with
  | .dc e _ => padBefore s.padding (AddrLab.epc s).toNat e.bytes
  | _ => 0

/-- SPEC state behind a refused data statement -/
def refusedS (s : S) (ln : Line) : S :=
  let s1 := match ln.label with
    | some l => { s with syms := define s.syms (symOf s l) none }
    | none => s
  { forget s1 with errs := s1.errs ++ [ln.src] }

theorem spec_moto_none (big : Bool) (s : S) (ln : Line) (st : Stmt) (hop : ln.op = .moto st) (hnn : 0 ≤ AddrLab.epc s)
    (hsp : specStmt ⟨big, s.padding⟩ (AddrLab.epc s).toNat st = none) :
    AddrLab.step big s ln = if (wouldPadS s st != 0) = true then .unspecified else .ok (refusedS s ln) := by
  have : ¬ AddrLab.epc s < 0 := by omega
  simp only [AddrLab.step, hop, this, if_false, hsp]
  rfl

theorem refusedS_fields (s : S) (ln : Line) :
    (refusedS s ln).pc = s.pc ∧ (refusedS s ln).ph = s.ph ∧ (refusedS s ln).pstack = s.pstack ∧ (refusedS s ln).padding = s.padding ∧
    (refusedS s ln).frame = s.frame ∧ (refusedS s ln).cells = s.cells ∧ (refusedS s ln).errs = s.errs ++ [ln.src] ∧
    (refusedS s ln).pending = none ∧
    (refusedS s ln).syms = (match ln.label with | some l => define s.syms (symOf s l) none | none => s.syms) := by
  unfold refusedS
  cases ln.label <;> simp [forget]

/-- MODEL: `PadBeforeStart` of a refused `DC` -/
def wouldPadM (m1 : M) (st : Stmt) : Bool :=
  match st with
  | .dc e _ => AddrLabModel.epc m1 % 2 == 1 && m1.padding && e.bytes != 1
  | _ => false

theorem model_moto_none (c : Cfg) (m1 : M) (ln : Line) (st : Stmt) (hop : ln.op = .moto st) (hnn : ¬ AddrLabModel.epc m1 < 0)
    (hmo : modelStmt { c.mc with padding := m1.padding } (AddrLabModel.epc m1).toNat st = none) :
    decode c m1 ln = if wouldPadM m1 st = true then none else some (errAt m1 ln.src) := by
  simp only [decode, hop, hnn, if_false, hmo]
  rfl

theorem model_moto_some (c : Cfg) (m1 : M) (ln : Line) (st : Stmt) (hop : ln.op = .moto st) (hnn : ¬ AddrLabModel.epc m1 < 0)
    (r : SRes) (hmo : modelStmt { c.mc with padding := m1.padding } (AddrLabModel.epc m1).toNat st = some r) :
    decode c m1 ln = match r.out with
      | .data bs => if (padStep c m1 r.pad).frame.isSome then none else some (writeCode (padStep c m1 r.pad) bs.length bs)
      | .space n => some (writeCode (padStep c m1 r.pad) n [])
      | .empty => some (padStep c m1 r.pad) := by
  simp only [decode, hop, hnn, if_false, hmo]
  cases r.pad <;> rfl

theorem wouldPad_eq (m1 : M) (s : S) (hc1 : RelC m1 s) (hnn : 0 ≤ AddrLab.epc s) (st : Stmt) :
    wouldPadM m1 st = (wouldPadS s st != 0) := by
  unfold wouldPadM wouldPadS
  cases st with
  | dc e as =>
    simp only [hc1.epc, hc1.padding, padBefore_int s.padding _ e.bytes hnn]
    cases (AddrLab.epc s % 2 == 1 && s.padding && e.bytes != 1) <;> rfl
  | _ => rfl

theorem step_finish (c : Cfg) (m : M) (ln : Line) (st : Stmt) (hop : ln.op = .moto st) (m2 : M)
    (hd : decode c (labelStep m ln) ln = some m2) : AddrLabModel.step c m ln = some (finish m2) := by
  simp [step_eq, hd, hop, opEmpty, resetLast]

theorem sim_moto (c : Cfg) (big : Bool) (m : M) (s : S) (h : Rel m s) (ln : Line) (st : Stmt) (hop : ln.op = .moto st)
    (hp : preLine c big s ln = true) (s' : S) (hs : AddrLab.step big s ln = .ok s') :
    ∃ m', AddrLabModel.step c m ln = some m' ∧ Rel m' s' := by
  obtain ⟨hp1, hp2, hp3⟩ := preLine_parts c big s ln hp
  have hlp := labelPresent_of ln (fun n u hh => by rw [hop] at hh; cases hh) (fun hh => by rw [hop] at hh; cases hh)
  have hc1 := labelStep_C m s h.toC ln
  have hag : motoAgree c big s st = true := by simpa [preOp, hop] using hp2
  by_cases hneg : AddrLab.epc s < 0
  · simp [AddrLab.step, hop, hneg] at hs
  have hnn : 0 ≤ AddrLab.epc s := by omega
  have hnegm : ¬ AddrLabModel.epc (labelStep m ln) < 0 := by rw [hc1.epc]; exact hneg
  unfold motoAgree at hag
  cases hmo : modelStmt { c.mc with padding := s.padding } (AddrLab.epc s).toNat st with
  | none =>
    cases hsp : specStmt ⟨big, s.padding⟩ (AddrLab.epc s).toNat st with
    | some po => rw [hmo, hsp] at hag; cases hag
    | none =>
      -- refused by both
      rw [spec_moto_none big s ln st hop hnn hsp] at hs
      by_cases hw : (wouldPadS s st != 0) = true
      · simp [hw] at hs
      · have hw' : (wouldPadS s st != 0) = false := by simpa using hw
        rw [hw'] at hs
        simp only [Bool.false_eq_true, if_false, Step.ok.injEq] at hs
        subst hs
        have hmo' : modelStmt { c.mc with padding := (labelStep m ln).padding } (AddrLabModel.epc (labelStep m ln)).toNat st = none := by
          rw [hc1.epc, hc1.padding]; exact hmo
        have hd := model_moto_none c (labelStep m ln) ln st hop hnegm hmo'
        rw [wouldPad_eq _ s hc1 hnn st, hw'] at hd
        simp only [Bool.false_eq_true, if_false] at hd
        refine ⟨finish (errAt (labelStep m ln) ln.src), step_finish c m ln st hop _ hd, ?_⟩
        obtain ⟨f1, f2, f3, f4, f5, f6, f7, f8, f9⟩ := refusedS_fields s ln
        have hsy := nolay_syms m s h ln hlp (preFresh_label s ln hp1) none (fun x hx => by cases hx)
        refine Rel_nolast ⟨hc1.pc.trans f1.symm, f1 ▸ hc1.pcNonneg, hc1.ph.trans f2.symm, hc1.pstack.trans f3.symm,
          hc1.padding.trans f4.symm, ?_, hc1.cells.trans f6.symm, ?_⟩ rfl f8 ?_
        · rw [f5, f1]; exact hc1.frame
        · show (labelStep m ln).errs ++ [ln.src] = _
          rw [f7, hc1.errs]
        · rw [f9]; exact hsy
  | some r =>
    cases hsp : specStmt ⟨big, s.padding⟩ (AddrLab.epc s).toNat st with
    | none => rw [hmo, hsp] at hag; cases hag
    | some po =>
      obtain ⟨pad, o⟩ := po
      rw [hmo, hsp] at hag
      simp only [Bool.and_eq_true, decide_eq_true_eq] at hag
      obtain ⟨⟨⟨hn, hbts⟩, hdat⟩, hpd⟩ := hag
      rw [spec_moto_some big s ln st hop hnn pad o hsp, ← hn, ← hbts] at hs
      have po' := place_out s ln pad _ _ _ s' hs
      have hK1 := preKnown_K c big s ln hp3
      have hpl : padOfLine big s ln = pad := by simp [padOfLine, hop, hsp]
      rw [hpl] at hK1
      have hpad : pad = match r.pad with | some _ => 1 | none => 0 := by
        cases hrp : r.pad with
        | none => rw [hrp] at hpd; simpa using hpd
        | some res => rw [hrp] at hpd; simp only [Bool.and_eq_true, beq_iff_eq] at hpd; exact hpd.1
      have hb : (r.pad = some false → outIsData o = true) ∧ (r.pad = some true → outIsData o = false) := by
        refine ⟨fun hrp => ?_, fun hrp => ?_⟩
        · rw [hrp] at hpd
          simp only [Bool.and_eq_true] at hpd
          have := hpd.2
          cases hd : outIsData o with
          | true => rfl
          | false => rw [hd] at this; exact absurd this (by decide)
        · rw [hrp] at hpd
          simp only [Bool.and_eq_true] at hpd
          have := hpd.2
          cases hd : outIsData o with
          | false => rfl
          | true => rw [hd] at this; exact absurd this (by decide)
      have hwb : outIsData o = false → outBytes r.out = [] := by
        intro hd
        rw [hbts]
        cases o <;> simp_all [outIsData, outBytes]
      have hrel := sim_place c m s h ln r.pad pad (outUnits r.out) (outIsData o) (outBytes r.out) s' hlp (preFresh_label s ln hp1) hpad hb hwb hK1 hs
      refine ⟨placeM c m ln r.pad (outUnits r.out) (outBytes r.out), ?_, hrel⟩
      have hmo' : modelStmt { c.mc with padding := (labelStep m ln).padding } (AddrLabModel.epc (labelStep m ln)).toNat st = some r := by
        rw [hc1.epc, hc1.padding]; exact hmo
      have hd := model_moto_some c (labelStep m ln) ln st hop hnegm r hmo'
      refine step_finish c m ln st hop _ ?_
      rw [hd]
      cases hro : r.out with
      | data bs =>
        simp only [outUnits, outBytes]
        have hne : bs ≠ [] := by
          rw [hro] at hdat
          intro hh; simp [hh] at hdat
        have hsf : s.frame.isSome = false := by
          cases hx : s.frame.isSome with
          | false => rfl
          | true =>
            have := po'.inFrame hx
            rw [hro] at this
            exact absurd this hne
        have hmf : (labelStep m ln).frame = none := by
          have := hc1.frameSome
          rw [hsf] at this
          exact (isSome_false_iff _).mp this
        have := (padStep_none c (labelStep m ln) r.pad hmf).1
        simp [this]
      | space n => simp [outUnits, outBytes]
      | empty =>
        simp only [outUnits, outBytes]
        rw [writeCode_zero]
        intro f hf hu
        -- a UNION: no pad byte (the SPEC would have stopped), so the frame is the one behind the label part
        have hfr := hc1.frame
        cases hsf : s.frame with
        | none =>
          rw [hsf] at hfr
          have hmf : (labelStep m ln).frame = none := by
            cases hx : (labelStep m ln).frame with
            | none => rfl
            | some g => rw [hx] at hfr; exact hfr.elim
          rw [(padStep_none c (labelStep m ln) r.pad hmf).1] at hf
          cases hf
        | some fs =>
          rw [hsf] at hfr
          cases hmf : (labelStep m ln).frame with
          | none => rw [hmf] at hfr; exact hfr.elim
          | some fm =>
            rw [hmf] at hfr
            cases hus : fs.isUnion with
            | false =>
              have hum : fm.isUnion = false := hfr.isUnion.trans hus
              rw [(padStep_struct c (labelStep m ln) r.pad fm hmf hum).1] at hf
              cases hf
              rw [hum] at hu
              cases hu
            | true =>
              have hp0 := (po'.union fs hsf hus).1
              have hrn : r.pad = none := by
                cases hrp : r.pad with
                | none => rfl
                | some res => rw [hrp, hp0] at hpad; simp at hpad
              rw [hrn] at hf
              simp only [padStep] at hf
              rw [hmf] at hf
              cases hf
              obtain ⟨u1, u2, _⟩ := hfr.union hus
              rw [u1]; exact u2

/-! ## one line, any line -/

theorem eraseLine_plain' (ln : Line) (h : isOpener ln.op = false) : eraseLine ln = [ln] := by
  obtain ⟨src, l, op⟩ := ln
  exact eraseLine_plain src l op h

theorem stepE_plain (big : Bool) (s : S) (ln : Line) (h : isOpener ln.op = false) : stepE big s ln = AddrLab.step big s ln := by
  simp [stepE, eraseLine_plain' ln h]

theorem stepE_opener (big : Bool) (s : S) (ln : Line) (ok : Bool) (h : ln.op = .opener ok) :
    stepE big s ln = .ok (match ln.label with
      | some l => { s with syms := define s.syms (symOf s l) (some (AddrLab.epc s)), pending := some (symOf s l),
                           older := s.older ++ s.pending.toList }
      | none => s) := by
  obtain ⟨src, l, op⟩ := ln
  simp only at h
  subst h
  cases l <;> simp [stepE, eraseLine, AddrLab.step]

theorem step_blank (big : Bool) (s : S) (ln : Line) (h : ln.op = .blank) :
    AddrLab.step big s ln = .ok (match ln.label with
      | some l => { s with syms := define s.syms (symOf s l) (some (AddrLab.epc s)), pending := some (symOf s l),
                           older := s.older ++ s.pending.toList }
      | none => s) := by
  simp only [AddrLab.step, h]
  cases ln.label <;> rfl

/-- **one line**: from related states, under the side conditions of the line, if the SPEC accepts what the manual makes of the
line, the MODEL accepts the line and the states are related again -/
theorem sim_step (c : Cfg) (big : Bool) (m : M) (s : S) (h : Rel m s) (ln : Line) (hp : preLine c big s ln = true)
    (s' : S) (hs : stepE big s ln = .ok s') :
    ∃ m', AddrLabModel.step c m ln = some m' ∧ Rel m' s' := by
  obtain ⟨hp1, hp2, hp3⟩ := preLine_parts c big s ln hp
  cases hop : ln.op with
  | opener ok =>
    have hok : ok = true := by simpa [preOp, hop] using hp2
    subst hok
    rw [stepE_opener big s ln true hop] at hs
    cases hs
    obtain ⟨q1, q2⟩ := sim_label_only c m s h ln (Or.inr hop) hp1
    exact ⟨_, q1, q2⟩
  | blank =>
    rw [stepE_plain big s ln (by simp [hop, isOpener]), step_blank big s ln hop] at hs
    cases hs
    obtain ⟨q1, q2⟩ := sim_label_only c m s h ln (Or.inl hop) hp1
    exact ⟨_, q1, q2⟩
  | moto st => rw [stepE_plain big s ln (by simp [hop, isOpener])] at hs; exact sim_moto c big m s h ln st hop hp s' hs
  | dsx w n => rw [stepE_plain big s ln (by simp [hop, isOpener])] at hs; exact sim_dsx c big m s h ln w n hop hp s' hs
  | obj bs => rw [stepE_plain big s ln (by simp [hop, isOpener])] at hs; exact sim_obj c big m s h ln bs hop hp s' hs
  | bytes bs => rw [stepE_plain big s ln (by simp [hop, isOpener])] at hs; exact sim_bytes c big m s h ln bs hop hp s' hs
  | pbyte =>
    rw [stepE_plain big s ln (by simp [hop, isOpener])] at hs
    simp [AddrLab.step, hop] at hs
  | org v => rw [stepE_plain big s ln (by simp [hop, isOpener])] at hs; exact sim_org c big m s h ln v hop hp1 s' hs
  | phase v => rw [stepE_plain big s ln (by simp [hop, isOpener])] at hs; exact sim_phase c big m s h ln v hop hp1 s' hs
  | dephase => rw [stepE_plain big s ln (by simp [hop, isOpener])] at hs; exact sim_dephase c big m s h ln hop hp1 s' hs
  | padding on => rw [stepE_plain big s ln (by simp [hop, isOpener])] at hs; exact sim_padding c big m s h ln on hop hp1 s' hs
  | other => rw [stepE_plain big s ln (by simp [hop, isOpener])] at hs; exact sim_other c big m s h ln hop hp1 s' hs
  | struct name u => rw [stepE_plain big s ln (by simp [hop, isOpener])] at hs; exact sim_struct c big m s h ln name u hop s' hs
  | endstruct => rw [stepE_plain big s ln (by simp [hop, isOpener])] at hs; exact sim_endstruct c big m s h ln hop hp1 s' hs

/-! ## the run -/

theorem eraseLine_shape (ln : Line) : eraseLine ln = [] ∨ ∃ x, eraseLine ln = [x] := by
  obtain ⟨src, l, op⟩ := ln
  cases op <;> cases l <;> simp [eraseLine]

/-- the SPEC's run over what the manual makes of `ln :: rest` -/
theorem run_erase_cons (big : Bool) (s : S) (ln : Line) (rest : List Line) (i : Nat) :
    AddrLab.run big s (erase (ln :: rest)) i =
      match stepE big s ln with
      | .unspecified => (s, some i)
      | .ok s1 => AddrLab.run big s1 (erase rest) (i + (eraseLine ln).length) := by
  rcases eraseLine_shape ln with h0 | ⟨x, hx⟩
  · simp [erase, stepE, h0]
  · simp only [erase, stepE, hx, List.singleton_append, AddrLab.run, List.length_singleton]
    cases AddrLab.step big s x <;> rfl

/-- **the run**: the MODEL runs without leaving the transcription over the lines up to the one where the SPEC stops (all lines
when the SPEC judges the program to its end) and ends in a state related to the SPEC's -/
theorem sim_run (c : Cfg) (big : Bool) : ∀ (ls : List Line) (m : M) (s : S) (i j : Nat), Rel m s → runPre c big s ls = true →
    ∃ k m', k ≤ ls.length ∧ AddrLabModel.run c m (ls.take k) j = (m', none) ∧ Rel m' (AddrLab.run big s (erase ls) i).1 ∧
      ((AddrLab.run big s (erase ls) i).2 = none → k = ls.length)
  | [], m, s, i, j, h, _ => ⟨0, m, Nat.le_refl _, rfl, h, fun _ => rfl⟩
  | ln :: rest, m, s, i, j, h, hpre => by
    simp only [runPre, Bool.and_eq_true] at hpre
    obtain ⟨hp, hrest⟩ := hpre
    rw [run_erase_cons]
    cases hE : stepE big s ln with
    | unspecified => exact ⟨0, m, Nat.zero_le _, rfl, h, fun hh => by cases hh⟩
    | ok s1 =>
      rw [hE] at hrest
      obtain ⟨m1, hm1, hr1⟩ := sim_step c big m s h ln hp s1 hE
      obtain ⟨k, m', hk, hrun, hrel, hend⟩ := sim_run c big rest m1 s1 (i + (eraseLine ln).length) (j + 1) hr1 hrest
      refine ⟨k + 1, m', by simp only [List.length_cons]; omega, ?_, hrel, fun hh => by simp only [List.length_cons]; rw [hend hh]⟩
      simp only [List.take_succ_cons, AddrLabModel.run, hm1]
      exact hrun

/-! ## programs whose Motorola data statements are reservations: the statement-level agreement is a theorem -/

/-- BYT/FCB, ADR/FDB, DC.x with a non-empty list of `?` / `[n]?` operands -/
def resStmt : Stmt → Bool
  | .byt as => resStmtArgs as
  | .adr as => resStmtArgs as
  | .dc _ as => resStmtArgs as
  | _ => false

theorem outBytes_mkOut_space (n : Int) : outBytes (mkOut true n []) = [] := by
  by_cases h : n ≤ 0 <;> simp [mkOut, h, outBytes]

theorem mkOut_space_nodata (n : Int) : (match mkOut true n [] with | .data bs => !bs.isEmpty | _ => true) = true := by
  by_cases h : n ≤ 0 <;> simp [mkOut, h]

/-- the four conjuncts of `motoAgree` for a reservation of `n` units -/
theorem agree_space (rpad : Option Bool) (n pad : Nat) : ((rpad = none ∧ pad = 0) ∨ (rpad = some true ∧ pad = 1)) →
    (decide (outUnits (mkOut true (n : Int) []) = outUnits (.space n)) && decide (outBytes (mkOut true (n : Int) []) = outBytes (.space n)) &&
      (match mkOut true (n : Int) [] with | .data bs => !bs.isEmpty | _ => true) &&
      (match rpad with
       | none => pad == 0
       | some res => pad == 1 && (res == !outIsData (.space n)))) = true := by
  intro hp
  rw [outUnits_eq (mkOut true (n : Int) []), (mkOut_space_adv n).1, outBytes_mkOut_space, mkOut_space_nodata]
  rcases hp with ⟨h1, h2⟩ | ⟨h1, h2⟩ <;> subst h1 <;> subst h2 <;> simp [outUnits, outBytes, outIsData]

/-- **reservation statements lay down the same in MODEL and SPEC** (`moto8_res`, `motoDC_res`, `spec_res_stmt`) -/
theorem motoAgree_res (c : Cfg) (big : Bool) (s : S) (st : Stmt) (h : resStmt st = true) : motoAgree c big s st = true := by
  unfold motoAgree
  cases st with
  | byt as =>
    have hm := moto8_res { c.mc with padding := s.padding } false as h
    have hsp := spec_res_stmt elemByte big as h
    simp only [modelStmt, specStmt, hm, hsp, Option.map_some]
    exact agree_space none (cellBytes false * cellCount as) 0 (Or.inl ⟨rfl, rfl⟩)
  | adr as =>
    have hm := moto8_res { c.mc with padding := s.padding } true as h
    have hsp := spec_res_stmt elemWord big as h
    simp only [modelStmt, specStmt, hm, hsp, Option.map_some]
    exact agree_space none (cellBytes true * cellCount as) 0 (Or.inl ⟨rfl, rfl⟩)
  | dc e as =>
    have hm := motoDC_res { c.mc with padding := s.padding } (AddrLab.epc s).toNat e as h
    have hsp := spec_res_stmt e big as h
    simp only [modelStmt, specStmt, hm, hsp, Option.map_some]
    refine agree_space _ (e.bytes * cellCount as) _ ?_
    unfold padBefore
    cases s.padding <;> cases ((AddrLab.epc s).toNat % 2 == 1) <;> by_cases hb : e.bytes = 1 <;> simp [hb]
  | fcc as => simp [resStmt] at h
  | dfs n => simp [resStmt] at h
  | dx e as => simp [resStmt] at h
  | ds n => simp [resStmt] at h

/-- `preOp` with "the data statement is a reservation" in the place of "MODEL and SPEC agree on the data statement" -/
def preOpRes (s : S) (ln : Line) : Bool :=
  match ln.op with
  | .opener ok => ok
  | .bytes bs => !(s.frame.isSome && bs.isEmpty)
  | .moto st => resStmt st
  | _ => true

def preLineRes (c : Cfg) (big : Bool) (s : S) (ln : Line) : Bool := preFresh s ln && preOpRes s ln && preKnown c big s ln

def runPreRes (c : Cfg) (big : Bool) : S → List Line → Bool
  | _, [] => true
  | s, ln :: rest =>
    preLineRes c big s ln &&
    match stepE big s ln with
    | .ok s' => runPreRes c big s' rest
    | .unspecified => true

theorem preLine_of_res (c : Cfg) (big : Bool) (s : S) (ln : Line) (h : preLineRes c big s ln = true) : preLine c big s ln = true := by
  simp only [preLineRes, Bool.and_eq_true] at h
  simp only [preLine, Bool.and_eq_true]
  refine ⟨⟨h.1.1, ?_⟩, h.2⟩
  have h2 := h.1.2
  unfold preOpRes at h2
  unfold preOp
  cases hop : ln.op <;> simp_all
  exact motoAgree_res c big s _ h2

theorem runPre_of_res (c : Cfg) (big : Bool) : ∀ (ls : List Line) (s : S), runPreRes c big s ls = true → runPre c big s ls = true
  | [], _, _ => rfl
  | ln :: rest, s, h => by
    simp only [runPreRes, Bool.and_eq_true] at h
    simp only [runPre, Bool.and_eq_true]
    refine ⟨preLine_of_res c big s ln h.1, ?_⟩
    cases hE : stepE big s ln with
    | unspecified => rfl
    | ok s1 =>
      have h2 := h.2
      rw [hE] at h2
      exact runPre_of_res c big rest s1 h2

/-! ## what is observable -/

/-- **the observations agree**: the symbol tables hold the same symbols in the same order of definition and every value the
text determines is the MODEL's (`SymsRel`), the cells (address, byte), the load counter, the PHASE offset, the address labels
read and the lines with errors are equal -/
structure ObsAgree (m : M) (s : S) : Prop where
  syms : SymsRel m.syms s.syms
  cells : m.cells = s.cells
  pc : m.pc = s.pc
  ph : m.ph = s.ph
  dollar : AddrLabModel.epc m = AddrLab.epc s
  errs : m.errs = s.errs

theorem Rel.obs {m : M} {s : S} (h : Rel m s) : ObsAgree m s := ⟨h.syms, h.cells, h.pc, h.ph, h.epc, h.errs⟩

/-- a symbol the SPEC gives a value reads that value in the MODEL -/
theorem SymsRel_lookup (k : Sym) (v : Int) : ∀ (ms : List (Sym × Int)) (ss : List (Sym × Option Int)), SymsRel ms ss →
    lookupS ss k = some (some v) → lookup ms k = some v
  | [], [], _, h => by simp [lookupS] at h
  | [], _ :: _, h, _ => h.elim
  | _ :: _, [], h, _ => h.elim
  | e :: ms, f :: ss, h, hl => by
    have h1 := h.1
    unfold SymRel at h1
    by_cases hk : f.1 = k
    · have hk' : e.1 = k := h1.1.trans hk
      have hv : f.2 = some v := by simpa [lookupS, hk] using hl
      simp [lookup, hk', h1.2 v hv]
    · have hk' : ¬ e.1 = k := fun hh => hk (h1.1.symm.trans hh)
      have hl' : lookupS ss k = some (some v) := by simpa [lookupS, hk] using hl
      have := SymsRel_lookup k v ms ss h.2 hl'
      simpa [lookup, hk'] using this

/-- the same symbols are defined -/
theorem SymsRel_defined (k : Sym) : ∀ (ms : List (Sym × Int)) (ss : List (Sym × Option Int)), SymsRel ms ss →
    ((lookup ms k).isSome = (lookupS ss k).isSome)
  | [], [], _ => rfl
  | [], _ :: _, h => h.elim
  | _ :: _, [], h => h.elim
  | e :: ms, f :: ss, h => by
    have h1 := h.1
    unfold SymRel at h1
    by_cases hk : f.1 = k
    · have hk' : e.1 = k := h1.1.trans hk
      simp [lookup, lookupS, hk, hk']
    · have hk' : ¬ e.1 = k := fun hh => hk (h1.1.symm.trans hh)
      have := SymsRel_defined k ms ss h.2
      simpa [lookup, lookupS, hk, hk'] using this

/-- the precondition of `C10_moto_res_refine`: the same with "every Motorola data statement is a reservation" in the place of
"MODEL and SPEC agree on the data statement" -/
def PreRes (c : Cfg) (big : Bool) (s : S) (prog : Nodes) : Bool := srcNodes prog && runPreRes c big s (flatM 0 prog)

end AslModel.AddrLabRefine
