import AslModel.Lemmas.MacroNest
import AslModel.Lemmas.NestSpecAux
/-! Helper definitions and lemmas for `C11_nest_refines` (Props/C11_Nest.lean), data side: counted runs of the machine
(`Steps`), the relation between the machine's local-symbol handles and the SPEC's scopes (`Data`, `CtxRel`: handle h
stands for scope `ρ h`, handle -1 for the global scope 0), and what the label operations do to it. -/
namespace AslModel.NestModel
open AslModel.NestSpec

/-! ### counted runs -/

inductive Steps (p : Prog) (q : Quirks) : Nat → St → St → Prop where
  | refl (s : St) : Steps p q 0 s s
  | cons {k : Nat} {s s1 s2 : St} : step p q s = some s1 → Steps p q k s1 s2 → Steps p q (k + 1) s s2

theorem Steps.one {p : Prog} {q : Quirks} {s s' : St} (h : step p q s = some s') : Steps p q 1 s s' :=
  Steps.cons h (Steps.refl s')

theorem Steps.trans {p : Prog} {q : Quirks} {k1 k2 : Nat} {a b c : St} (h1 : Steps p q k1 a b) (h2 : Steps p q k2 b c) :
    Steps p q (k1 + k2) a c := by
  induction h1 with
  | refl => simpa using h2
  | @cons k s s1 s2 hs _ ih =>
    have := Steps.cons hs (ih h2)
    rwa [show k + 1 + k2 = k + k2 + 1 by omega]

theorem runPass_steps {p : Prog} {q : Quirks} {k : Nat} {s s' : St} (h : Steps p q k s s') (n : Nat) :
    runPass p q (k + n) s = runPass p q n s' := by
  induction h with
  | refl => simp
  | @cons k s s1 s2 hs _ ih =>
    rw [show k + 1 + n = (k + n) + 1 by omega]
    show (match step p q s with | none => s | some s' => runPass p q (k + n) s') = _
    rw [hs]
    exact ih

theorem runPass_done (p : Prog) (q : Quirks) (n : Nat) (s : St) (h : s.stack = []) : runPass p q n s = s := by
  cases n with
  | zero => rfl
  | succ n =>
    show (match step p q s with | none => s | some s' => runPass p q n s') = _
    have : step p q s = none := by unfold step; rw [h]
    rw [this]

/-! ### handles and scopes -/

/-- the scope a handle stands for: increasing, the global table (-1) is scope 0 -/
structure RhoOK (ρ : Int → Nat) : Prop where
  base : ρ (-1) = 0
  mono : ∀ a b : Int, -1 ≤ a → a < b → ρ a < ρ b

theorem RhoOK.inj {ρ : Int → Nat} (h : RhoOK ρ) (a b : Int) (ha : -1 ≤ a) (hb : -1 ≤ b) : ρ a = ρ b ↔ a = b := by
  constructor
  · intro e
    rcases Int.lt_trichotomy a b with hlt | heq | hgt
    · have := h.mono a b ha hlt; omega
    · exact heq
    · have := h.mono b a hb hgt; omega
  · intro e; rw [e]

def symOf (ρ : Int → Nat) (e : LSym) : Sym := ⟨e.label, ρ e.handle, e.value, e.pass⟩

/-- what does not depend on the place in the program -/
structure Data (ρ : Int → Nat) (s : SSt) (ms : St) : Prop where
  pc : ms.pc = s.pc
  out : ms.out = s.out
  dbl : ms.dbl = s.dbl
  pass : ms.pass = s.pass
  undef1 : ms.pass = 1 → ms.undef = 0
  undef2 : ms.pass ≠ 1 → ms.undef = s.undef
  repass : ms.repass = (decide (ms.pass = 1) && decide (0 < s.undef))
  syms : s.syms = ms.syms.map (symOf ρ)
  symsOK : ∀ e ∈ ms.syms, -1 ≤ e.handle
  refused : ms.refused = 0
  maxUse : ms.maxUse = s.maxOpen

/-- the handle in force and the saved ones: handles ≥ 0, the -1 of the top level at the bottom -/
def HOK (mom : Int) (hstack : List Int) : Prop := ∃ hs : List Int, mom :: hstack = hs ++ [-1] ∧ ∀ h ∈ hs, 0 ≤ h

/-- the place in the program: scope chain, recursion counters -/
structure CtxRel (ρ : Int → Nat) (c : Ctx) (ms : St) : Prop where
  chain : c.chain = (ms.mom :: ms.hstack).map ρ
  hok : HOK ms.mom ms.hstack
  use : ∀ m, ms.use m = countOpen c m

theorem HOK.mom_ge {mom : Int} {hstack : List Int} (h : HOK mom hstack) : -1 ≤ mom := by
  obtain ⟨hs, e, hall⟩ := h
  cases hs with
  | nil => simp at e; omega
  | cons a hs =>
    simp only [List.cons_append, List.cons.injEq] at e
    have := hall a (by simp)
    omega

theorem HOK.push {mom : Int} {hstack : List Int} (h : HOK mom hstack) (n : Nat) : HOK (Int.ofNat n) (mom :: hstack) := by
  obtain ⟨hs, e, hall⟩ := h
  refine ⟨Int.ofNat n :: hs, by rw [e]; rfl, fun x hx => ?_⟩
  simp only [List.mem_cons] at hx
  rcases hx with rfl | hx
  · exact Int.natCast_nonneg n
  · exact hall x hx

theorem findSym_map {ρ : Int → Nat} (hρ : RhoOK ρ) (t : List LSym) (hall : ∀ e ∈ t, -1 ≤ e.handle) (l : Nat) (h : Int)
    (hh : -1 ≤ h) : NestSpec.findSym (t.map (symOf ρ)) l (ρ h) = (findSym t l h).map (symOf ρ) := by
  induction t with
  | nil => rfl
  | cons e t ih =>
    have he : -1 ≤ e.handle := hall e (by simp)
    have ih' := ih (fun x hx => hall x (by simp [hx]))
    unfold NestSpec.findSym findSym at *
    simp only [List.map_cons, List.find?_cons]
    have hc : ((symOf ρ e).label == l && (symOf ρ e).scope == ρ h) = (e.label == l && e.handle == h) := by
      show (e.label == l && ρ e.handle == ρ h) = _
      have := hρ.inj e.handle h he hh
      by_cases hx : e.handle = h
      · rw [hx]; simp
      · have hne : ¬ ρ e.handle = ρ h := fun x => hx (this.1 x)
        have h1 : (ρ e.handle == ρ h) = false := beq_eq_false_iff_ne.2 hne
        have h2 : (e.handle == h) = false := beq_eq_false_iff_ne.2 hx
        rw [h1, h2]
    rw [hc]
    cases hcc : (e.label == l && e.handle == h)
    · exact ih'
    · rfl

/-- `FindLocNode`'s walk over the saved handles followed by the global table is the SPEC's lookup along the scopes -/
theorem findUp_lookup {ρ : Int → Nat} (hρ : RhoOK ρ) (t : List LSym) (hall : ∀ e ∈ t, -1 ≤ e.handle) (l : Nat)
    (hs : List Int) (hpos : ∀ h ∈ hs, 0 ≤ h) :
    (match findUp t l (hs ++ [-1]) with
      | some v => some v
      | none => (findSym t l (-1)).map (·.value)) = lookup (t.map (symOf ρ)) l ((hs ++ [-1]).map ρ) := by
  induction hs with
  | nil =>
    show (match findUp t l [-1] with | some v => some v | none => _) = lookup _ l [ρ (-1)]
    unfold lookup findUp
    rw [findSym_map hρ t hall l (-1) (by omega)]
    have h1 : ((-1 : Int) == -1) = true := by decide
    simp only [h1, if_true]
    cases findSym t l (-1) <;> rfl
  | cons h hs ih =>
    have hh : 0 ≤ h := hpos h (by simp)
    have ih' := ih (fun x hx => hpos x (by simp [hx]))
    show (match findUp t l (h :: (hs ++ [-1])) with | some v => some v | none => _) = lookup _ l (ρ h :: (hs ++ [-1]).map ρ)
    unfold lookup findUp
    rw [findSym_map hρ t hall l h (by omega)]
    have : (h == -1) = false := by
      have : h ≠ -1 := by omega
      simpa using this
    simp only [this, Bool.false_eq_true, if_false]
    cases findSym t l h with
    | some e => rfl
    | none => exact ih'

theorem findLabel_lookup {ρ : Int → Nat} (hρ : RhoOK ρ) {c : Ctx} {s : SSt} {ms : St} (hd : Data ρ s ms) (hc : CtxRel ρ c ms)
    (l : Nat) : findLabel ms l = lookup s.syms l c.chain := by
  rw [hd.syms, hc.chain]
  obtain ⟨hs, e, hpos⟩ := hc.hok
  rw [e]
  cases hs with
  | nil =>
    simp only [List.nil_append, List.cons.injEq] at e
    have := findUp_lookup hρ ms.syms hd.symsOK l [] (by simp)
    rw [← this]
    unfold findLabel
    simp [e.1, findUp]
  | cons h hs =>
    simp only [List.cons_append, List.cons.injEq] at e
    have hh : 0 ≤ h := hpos h (by simp)
    have := findUp_lookup hρ ms.syms hd.symsOK l hs (fun x hx => hpos x (by simp [hx]))
    show _ = lookup _ l (ρ h :: (hs ++ [-1]).map ρ)
    unfold lookup
    rw [findSym_map hρ ms.syms hd.symsOK l h (by omega), ← this]
    unfold findLabel
    have hm : (h == -1) = false := by
      have : h ≠ -1 := by omega
      simpa using this
    simp only [e.1, e.2, hm, Bool.false_eq_true, if_false]
    cases findSym ms.syms l h with
    | some e => rfl
    | none => rfl

end AslModel.NestModel
