import AslModel.Model.Dis.HexLoad
import AslModel.Spec.Hex
/-! The line level of dasl's hex loader (`HexLoad.parseLine` = das.c `GetByte` + the checks of `CMD_HexFile`) against the
independent Intel-HEX line decoder of `Spec/Hex.lean`: every line the format definition accepts as a data record is read by the
model as exactly that record. -/
namespace AslModel.Dis.HexLoad
open AslModel

theorem xdigit_of_undigit (c : Char) (v : Nat) (h : Hex.undigit c = some v) : xdigit c = some v ∧ v < 16 := by
  unfold Hex.undigit at h
  unfold xdigit
  simp only at h ⊢
  by_cases h1 : 48 ≤ c.toNat ∧ c.toNat ≤ 57
  · rw [if_pos h1] at h ⊢
    have := Option.some.inj h
    exact ⟨h, by omega⟩
  · rw [if_neg h1] at h ⊢
    by_cases h2 : 65 ≤ c.toNat ∧ c.toNat ≤ 70
    · rw [if_pos h2] at h ⊢
      have := Option.some.inj h
      exact ⟨h, by omega⟩
    · rw [if_neg h2] at h
      cases h

theorem getByte_of_parse2 (a b : Char) (x : UInt8) (rest : List Char) (h : Hex.parse2 a b = some x) :
    getByte (a :: b :: rest) = some (x.toNat, rest) := by
  unfold Hex.parse2 at h
  cases ha : Hex.undigit a with
  | none => simp [ha] at h
  | some v =>
    cases hb : Hex.undigit b with
    | none => simp [ha, hb] at h
    | some w =>
      simp only [ha, hb, Option.some.injEq] at h
      obtain ⟨hv, hv16⟩ := xdigit_of_undigit a v ha
      obtain ⟨hw, hw16⟩ := xdigit_of_undigit b w hb
      unfold getByte
      simp only [hv, hw]
      subst h
      have : (UInt8.ofNat (v * 16 + w)).toNat = v * 16 + w := by
        rw [UInt8.toNat_ofNat']
        omega
      rw [this]

/-- one byte of a line the spec decoder accepts -/
theorem parseHex_cons (cs : List Char) (x : UInt8) (xs : List UInt8) (h : Hex.parseHex cs = some (x :: xs)) :
    ∃ rest, getByte cs = some (x.toNat, rest) ∧ Hex.parseHex rest = some xs := by
  match cs, h with
  | [], h => simp [Hex.parseHex] at h
  | [_], h => simp [Hex.parseHex] at h
  | a :: b :: rest, h =>
    unfold Hex.parseHex at h
    cases hp : Hex.parse2 a b with
    | none => simp [hp] at h
    | some y =>
      cases hr : Hex.parseHex rest with
      | none => simp [hp, hr] at h
      | some ys =>
        simp only [hp, hr, Option.some.injEq, List.cons.injEq] at h
        obtain ⟨rfl, rfl⟩ := h
        exact ⟨rest, getByte_of_parse2 a b y rest hp, hr⟩

theorem parseHex_getBytes : ∀ (n : Nat) (cs : List Char) (bs : List UInt8), Hex.parseHex cs = some bs → n ≤ bs.length →
    ∃ rest, getBytes n cs = some ((bs.take n).map UInt8.toNat, rest) ∧ Hex.parseHex rest = some (bs.drop n) := by
  intro n
  induction n with
  | zero => intro cs bs h _; exact ⟨cs, by simp [getBytes], by simpa using h⟩
  | succ n ih =>
    intro cs bs h hn
    match bs, h, hn with
    | [], _, hn => simp at hn
    | x :: xs, h, hn =>
      obtain ⟨rest, hg, hr⟩ := parseHex_cons cs x xs h
      obtain ⟨rest2, hg2, hr2⟩ := ih rest xs hr (by simpa using hn)
      refine ⟨rest2, ?_, by simpa using hr2⟩
      unfold getBytes
      simp [hg, hg2]

theorem ihexMk_data (typ addr : Nat) (body : List UInt8) (off : Nat) (d : List UInt8)
    (h : Hex.ihexMk typ addr body = some (.data off d)) : typ = 0 ∧ off = addr ∧ d = body := by
  unfold Hex.ihexMk at h
  by_cases h0 : typ = 0
  · rw [if_pos h0] at h
    simp only [Option.some.injEq, Hex.IRec.data.injEq] at h
    exact ⟨h0, h.1.symm, h.2.symm⟩
  · rw [if_neg h0] at h
    repeat' (split at h)
    all_goals (first | cases h | (simp at h))

theorem sum_map_toNat_append (xs : List UInt8) (c : UInt8) :
    ((xs ++ [c]).map (·.toNat)).sum = (xs.map (·.toNat)).sum + c.toNat := by
  simp

theorem map_comp_ofNat_toNat (xs : List UInt8) : xs.map (UInt8.ofNat ∘ UInt8.toNat) = xs := by
  induction xs with
  | nil => rfl
  | cons x xs ih => simp [ih]

theorem sum8_eq (bs : List UInt8) : Hex.sum8 bs = (bs.map UInt8.toNat).sum := rfl

theorem map_ofNat_toNat (xs : List UInt8) : (xs.map UInt8.toNat).map UInt8.ofNat = xs := by
  induction xs with
  | nil => rfl
  | cons x xs ih => simp [ih]

/-- every line the Intel-HEX definition reads as a data record `(off, d)` is read by the loader's line parser as that record -/
theorem parseLine_of_spec (l : List Char) (off : Nat) (d : List UInt8) (h : Hex.ihexLine l = some (.data off d)) :
    ∃ r, parseLine l = .data r ∧ r.start = off ∧ r.data = d := by
  match l, h with
  | [], h => simp [Hex.ihexLine] at h
  | c :: rest, h =>
    by_cases hcol : c = ':'
    case neg =>
      unfold Hex.ihexLine at h
      split at h
      · rename_i heq
        exact absurd (List.cons.inj heq).1 hcol
      · cases h
    subst hcol
    unfold Hex.ihexLine at h
    simp only at h
    cases hp : Hex.parseHex rest with
    | none => simp [hp] at h
    | some bs =>
      match bs, hp with
      | [], hp => simp [hp] at h
      | [_], hp => simp [hp] at h
      | [_, _], hp => simp [hp] at h
      | [_, _, _], hp => simp [hp] at h
      | cnt :: ah :: al :: typ :: body, hp =>
        simp only [hp] at h
        split at h
        · rename_i hc
          obtain ⟨hlen, hsum⟩ := hc
          obtain ⟨ht, ho, hd⟩ := ihexMk_data _ _ _ _ _ h
          obtain ⟨r1, g1, p1⟩ := parseHex_cons rest cnt _ hp
          obtain ⟨r2, g2, p2⟩ := parseHex_cons r1 ah _ p1
          obtain ⟨r3, g3, p3⟩ := parseHex_cons r2 al _ p2
          obtain ⟨r4, g4, p4⟩ := parseHex_cons r3 typ _ p3
          obtain ⟨r5, g5, p5⟩ := parseHex_getBytes cnt.toNat r4 body p4 (by omega)
          have hdl : (body.drop cnt.toNat).length = 1 := by simp [hlen]
          obtain ⟨ck, hck⟩ := List.length_eq_one_iff.mp hdl
          rw [hck] at p5
          obtain ⟨r6, g6, _⟩ := parseHex_cons r5 _ _ p5
          have hbody : body = body.take cnt.toNat ++ [ck] := by rw [← hck, List.take_append_drop]
          have htake : body.dropLast = body.take cnt.toNat := by
            rw [List.dropLast_eq_take, hlen]; simp
          rw [htake] at hd
          refine ⟨⟨ah.toNat * 256 + al.toNat, body.take cnt.toNat⟩, ?_, ho.symm, hd.symm⟩
          unfold parseLine
          simp only [g1, g2, g3, g4, g5, g6]
          have hs : (cnt.toNat + ah.toNat + al.toNat + typ.toNat + ((body.take cnt.toNat).map UInt8.toNat).sum + ck.toNat) % 256 = 0 := by
            rw [sum8_eq, hbody] at hsum
            simp only [List.map_cons, List.sum_cons, List.map_append, List.sum_append, List.map_nil, List.sum_nil] at hsum
            omega
          have hs' : (cnt.toNat + ah.toNat + al.toNat + (List.take cnt.toNat (body.map UInt8.toNat)).sum + ck.toNat) % 256 = 0 := by
            rw [← List.map_take]; omega
          simp [hs', ht, map_comp_ofNat_toNat]
        · cases h

end AslModel.Dis.HexLoad
