import AslModel.Spec.OperandPos
import AslModel.Model.M6809Pcr
/-! Helper lemmas for `Props/C01_Opnd.lean`, 6809 part: the SPEC decoder `Spec.OperandPos.M6809` applied to the bytes of
`Model.M6809Pcr.encode`. -/
namespace AslModel.M6809PcrLemmas
open AslModel.Spec.OperandPos AslModel.Model.M6809Pcr

/-- heads the SPEC decoder knows as indexed-mode instructions -/
def Head.wf (h6309 : Bool) : Head → Prop
  | .page1 op => (op / 16 = 6 ∨ op / 16 = 10 ∨ op / 16 = 14 ∨ (48 ≤ op ∧ op ≤ 51)) ∧ (h6309 = true → M6809.hasImm op = false)
  | .page23 pre op => (pre = 16 ∨ pre = 17) ∧ (op / 16 = 10 ∨ op / 16 = 14)
  | .imm op _ => h6309 = true ∧ (op = 0x61 ∨ op = 0x62 ∨ op = 0x65 ∨ op = 0x6b)

theorem sx8_lo (d : Int) (h1 : -128 ≤ d) (h2 : d < 128) : sx8 (lo d) = d := by
  have : ((lo d : Nat) : Int) = d % 256 := by unfold lo; omega
  generalize lo d = x at *
  unfold sx8
  by_cases hc : x < 128
  · rw [if_pos hc]; omega
  · rw [if_neg hc]; omega

theorem sx16_hilo (d : Int) (h1 : -32768 ≤ d) (h2 : d < 32768) : sx16 (hi d * 256 + lo d) = d := by
  have hl : ((lo d : Nat) : Int) = d % 256 := by unfold lo; omega
  have hh : ((hi d : Nat) : Int) = d / 256 % 256 := by unfold hi; omega
  generalize lo d = x at *
  generalize hi d = y at *
  unfold sx16
  by_cases hc : y * 256 + x < 32768
  · rw [if_pos hc]; omega
  · rw [if_neg hc]; omega

/-- the SPEC decoder finds the postbyte where the decode function put it -/
theorem decode_head (h6309 : Bool) (h : Head) (hw : Head.wf h6309 h) (a : Nat) (rest : List Nat) :
    M6809.decode a (h.bytes ++ rest) h6309 = M6809.postbyte a (h.bytes ++ rest) h.opcodeLen := by
  cases h with
  | page1 op =>
    obtain ⟨hop, himm⟩ := hw
    have h1 : ¬ (op = 16 ∨ op = 17) := by omega
    have h2 : ¬ (op = 22 ∨ op = 23) := by omega
    have h3 : ¬ (op = 141 ∨ op / 16 = 2) := by omega
    have h4 : ¬ (op / 16 = 7 ∨ op / 16 = 11 ∨ op / 16 = 15) := by omega
    have h5 : ¬ (op / 16 = 9 ∨ op / 16 = 13 ∨ op / 16 = 0) := by omega
    have h6 : ¬ (h6309 = true ∧ M6809.hasImm op = true) := by
      cases h6309 <;> simp_all
    have h7 : ¬ (op = 16 ∧ op / 16 = 2) := by omega
    simp [M6809.decode, Head.bytes, Head.opcodeLen, h1, h2, h3, h4, h6, h7]
    rw [if_neg (by omega), if_pos (by omega)]
  | page23 pre op =>
    obtain ⟨hpre, hop⟩ := hw
    have h4 : ¬ (op / 16 = 7 ∨ op / 16 = 11 ∨ op / 16 = 15) := by omega
    have h5 : ¬ (op / 16 = 9 ∨ op / 16 = 13) := by omega
    have h7 : ¬ (op / 16 = 2) := by omega
    rcases hpre with rfl | rfl
    · simp [M6809.decode, Head.bytes, Head.opcodeLen, h4, h5, h7]
      omega
    · simp [M6809.decode, Head.bytes, Head.opcodeLen, h4, h5]
      omega
  | imm op v =>
    obtain ⟨h63, hop⟩ := hw
    subst h63
    rcases hop with rfl | rfl | rfl | rfl <;> simp [M6809.decode, Head.bytes, Head.opcodeLen, M6809.hasImm]

theorem postbyte8 (a q : Nat) (bs : List Nat) (pb d : Nat) (hpb : bs[q]? = some pb) (hd : bs[q + 1]? = some d)
    (h : pb = 140 ∨ pb = 156) :
    ∃ r, M6809.postbyte a bs q = some r ∧ r.value = wrap16 ((a + q + 2 : Nat) + sx8 d) ∧ r.pcrel = true ∧ r.pos = q + 1 := by
  rcases h with rfl | rfl <;> simp [M6809.postbyte, hpb, hd]

theorem postbyte16 (a q : Nat) (bs : List Nat) (pb x y : Nat) (hpb : bs[q]? = some pb) (hx : bs[q + 1]? = some x) (hy : bs[q + 1 + 1]? = some y)
    (h : pb = 141 ∨ pb = 157) :
    ∃ r, M6809.postbyte a bs q = some r ∧ r.value = wrap16 ((a + q + 3 : Nat) + sx16 (x * 256 + y)) ∧ r.pcrel = true ∧ r.pos = q + 1 := by
  rcases h with rfl | rfl <;> simp [M6809.postbyte, be16, hpb, hx, hy]

theorem bytes_len (h : Head) : h.bytes.length = h.opcodeLen := by cases h <;> rfl

theorem getElem_behind (h : Head) (rest : List Nat) (j : Nat) : (h.bytes ++ rest)[h.opcodeLen + j]? = rest[j]? := by
  rw [← bytes_len h]
  simp [List.getElem?_append_right]

theorem int16_range (i : Int) : -32768 ≤ int16 i ∧ int16 i < 32768 ∧ (int16 i - i) % 65536 = 0 := by
  unfold int16; omega

theorem pcr_resolved (h6309 : Bool) (h : Head) (ind : Bool) (zm : ZeroMode) (epc value : Int) (bs : List Nat)
    (hw : Head.wf h6309 h) (h0 : 0 ≤ epc) (he : encode h ind zm epc value = .ok bs) :
    ∃ r, M6809.decode epc.toNat bs h6309 = some r ∧ r.value = (value % 65536).toNat ∧ r.pcrel = true ∧
      r.pos = h.opcodeLen + 1 := by
  simp only [encode, decodeAdrPcr] at he
  obtain ⟨ha1, ha2, ha3⟩ := int16_range (int16 value - (epc + 2 + ↑h.opcodeLen))
  obtain ⟨hb1, hb2, hb3⟩ := int16_range value
  generalize int16 (int16 value - (epc + 2 + ↑h.opcodeLen)) = adr at *
  by_cases hs : zm = ZeroMode.short ∨ zm = ZeroMode.auto ∧ mayShort adr = true
  · rw [if_pos hs] at he
    by_cases hm : mayShort adr = true
    · simp only [hm, Bool.not_true, Bool.false_eq_true, if_false] at he
      injection he with he
      subst he
      rw [decode_head h6309 h hw]
      have hms : -128 ≤ adr ∧ adr < 127 := by simpa [mayShort] using hm
      obtain ⟨r, hr, hv, hp, hpos⟩ := postbyte8 epc.toNat h.opcodeLen (h.bytes ++ [(if ind = true then 16 else 0) + 0x8c, lo adr])
        ((if ind = true then 16 else 0) + 0x8c) (lo adr)
        (by have := getElem_behind h [(if ind = true then 16 else 0) + 0x8c, lo adr] 0; simpa using this)
        (by have := getElem_behind h [(if ind = true then 16 else 0) + 0x8c, lo adr] 1; simpa using this)
        (by cases ind <;> simp)
      refine ⟨r, hr, ?_, hp, hpos⟩
      rw [hv, sx8_lo adr hms.1 (by omega)]
      unfold wrap16
      omega
    · simp [hm] at he
  · rw [if_neg hs] at he
    injection he with he
    subst he
    rw [decode_head h6309 h hw]
    obtain ⟨hc1, hc2, hc3⟩ := int16_range (adr - 1)
    generalize int16 (adr - 1) = adr' at *
    obtain ⟨r, hr, hv, hp, hpos⟩ := postbyte16 epc.toNat h.opcodeLen (h.bytes ++ [(if ind = true then 16 else 0) + 0x8d, hi adr', lo adr'])
      ((if ind = true then 16 else 0) + 0x8d) (hi adr') (lo adr')
      (by have := getElem_behind h [(if ind = true then 16 else 0) + 0x8d, hi adr', lo adr'] 0; simpa using this)
      (by have := getElem_behind h [(if ind = true then 16 else 0) + 0x8d, hi adr', lo adr'] 1; simpa using this)
      (by have := getElem_behind h [(if ind = true then 16 else 0) + 0x8d, hi adr', lo adr'] 2; simpa using this)
      (by cases ind <;> simp)
    refine ⟨r, hr, ?_, hp, hpos⟩
    rw [hv, sx16_hilo adr' hc1 hc2]
    unfold wrap16
    omega

end AslModel.M6809PcrLemmas
