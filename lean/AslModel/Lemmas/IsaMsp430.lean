import AslModel.Lemmas.Isa.Common
import AslModel.Model.Isa.IMsp430
/-! Lemmas for C14 / MSP430.

1. words ↔ bytes, the bit fields of the three instruction formats (`|` of disjoint fields = `+`);
2. `DecodeAdr` / `FillAdrPartsImm`: what an accepted operand looks like to the SPEC's operand decoders,
   and which operands are accepted;
3. one round-trip lemma per instruction format (`ConstructTwoOp` → `decodeI`, one-operand word → `decodeII`,
   jump word → `decodeJ`);
4. the facts about the regenerated `InstTable` (`Good`, decided over the complete table). -/
namespace AslModel.Isa.IMsp430
open AslModel.PFile (Byte b b_toNat)
open AslModel.Spec.IMsp430
open AslModel.Generated.IsaMsp430
open AslModel.Generated (itInt8 itInt16 itUInt16)

theorem mem_all (m : Mn) : m ∈ Mn.all := by cases m <;> decide

/-! ## range checks -/

theorem evalInt_if (typ : Nat) (l h : Int) (hh : ∀ v, rangeCheck v typ = (decide (l ≤ v) && decide (v ≤ h))) (v : Int) :
    evalInt typ v = if l ≤ v ∧ v ≤ h then .ok v else .error .overRange := by
  by_cases hc : l ≤ v ∧ v ≤ h
  · rw [(evalInt_ok typ l h hh v).1 hc]; simp [hc]
  · rw [(evalInt_ok typ l h hh v).2 hc]; simp [hc]

theorem evalI16 (v : Int) : evalInt itInt16 v = if -32768 ≤ v ∧ v ≤ 65535 then .ok v else .error .overRange :=
  evalInt_if _ _ _ rangeCheck_Int16 v
theorem evalI8 (v : Int) : evalInt itInt8 v = if -128 ≤ v ∧ v ≤ 255 then .ok v else .error .overRange :=
  evalInt_if _ _ _ rangeCheck_Int8 v
theorem evalU16 (v : Int) : evalInt itUInt16 v = if 0 ≤ v ∧ v ≤ 65535 then .ok v else .error .overRange :=
  evalInt_if _ _ _ rangeCheck_UInt16 v

theorem evalImm (byte : Bool) (v : Int) :
    evalInt (if byte = true then itInt8 else itInt16) v = if immOk byte v = true then .ok v else .error .overRange := by
  cases byte
  · simp only [Bool.false_eq_true, if_false, evalI16, immOk, inRange, Bool.and_eq_true, decide_eq_true_eq]
  · simp only [if_true, evalI8, immOk, inRange, Bool.and_eq_true, decide_eq_true_eq]

/-! ## words and bytes -/

theorem word_cons0 (w : Nat) (rest : List Byte) : word (b (lo w) :: b (hi w) :: rest) 0 = some (w % 65536) := by
  simp only [word, List.getElem?_cons_zero, List.getElem?_cons_succ, b_toNat, lo, hi]
  congr 1; omega

theorem word_cons_succ (x y : Byte) (rest : List Byte) (i : Nat) : word (x :: y :: rest) (i + 2) = word rest i := by
  simp only [word, List.getElem?_cons_succ]

theorem word_nil (i : Nat) : word [] i = none := by simp [word]

theorem wordsToBytes_length (ws : List Nat) : (wordsToBytes ws).length = 2 * ws.length := by
  induction ws with
  | nil => rfl
  | cons w ws ih => simp only [wordsToBytes, List.length_cons, ih]; omega

/-! ## bit fields: `|` of disjoint fields is `+` -/

theorem or_low_dec : (List.range 16).all (fun a => (List.range 2).all fun bb => (List.range 2).all fun c =>
    (List.range 4).all fun d => (List.range 16).all fun e =>
      ((a <<< 8) ||| ((bb <<< 7) ||| ((c * 64) ||| ((d <<< 4) ||| e)))) == a * 256 + bb * 128 + c * 64 + d * 16 + e) = true := by
  decide +kernel

/-- format I word -/
theorem or_fields (op a bb c d e : Nat) (ha : a < 16) (hb : bb < 2) (hc : c < 2) (hd : d < 4) (he : e < 16) :
    (op * 4096 ||| (a <<< 8) ||| (bb <<< 7) ||| (c * 64) ||| (d <<< 4) ||| e) = op * 4096 + a * 256 + bb * 128 + c * 64 + d * 16 + e := by
  have h := or_low_dec
  simp only [List.all_eq_true, List.mem_range, beq_iff_eq] at h
  have h2 := h a ha bb hb c hc d hd e he
  simp only [Nat.or_assoc]
  rw [h2]
  have : a * 256 + bb * 128 + c * 64 + d * 16 + e < 2 ^ 12 := by omega
  have h3 := Nat.two_pow_add_eq_or_of_lt this op
  have h4 : 2 ^ 12 * op = op * 4096 := by omega
  rw [h4] at h3
  omega

/-- format II word: `k` = opcode bits 7.. -/
theorem or_fields2 (k c d e : Nat) (hc : c < 2) (hd : d < 4) (he : e < 16) :
    (k * 128 ||| (c * 64) ||| (d <<< 4) ||| e) = k * 128 + c * 64 + d * 16 + e := by
  have h := or_low_dec
  simp only [List.all_eq_true, List.mem_range, beq_iff_eq] at h
  have h2 := h 0 (by omega) 0 (by omega) c hc d hd e he
  simp only [Nat.zero_shiftLeft, Nat.zero_or, Nat.zero_mul, Nat.zero_add] at h2
  simp only [Nat.or_assoc]
  rw [h2]
  have : c * 64 + d * 16 + e < 2 ^ 7 := by omega
  have h3 := Nat.two_pow_add_eq_or_of_lt this k
  have h4 : 2 ^ 7 * k = k * 128 := by omega
  rw [h4] at h3
  omega

/-- jump word -/
theorem or_fields3 (k e : Nat) (he : e < 1024) : (k * 1024 ||| e) = k * 1024 + e := by
  have : e < 2 ^ 10 := by omega
  have h3 := Nat.two_pow_add_eq_or_of_lt this k
  have h4 : 2 ^ 10 * k = k * 1024 := by omega
  rw [h4] at h3
  omega

theorem getBW_eq (byte : Bool) : getBW byte = (if byte = true then 1 else 0) * 64 := by
  cases byte <;> rfl

/-! ## round trip of the instruction formats -/

/-- the first word `ConstructTwoOp` writes -/
theorem twoOp_word (op : Nat) (byte : Bool) (s d : AdrParts) (hop : op < 16)
    (hs1 : s.mode < 4) (hs2 : s.part < 16) (hd1 : d.mode < 2) (hd2 : d.part < 16) :
    constructTwoOp (op * 4096) byte s d =
      (op * 4096 + s.part * 256 + d.mode * 128 + (if byte = true then 1 else 0) * 64 + s.mode * 16 + d.part) :: (adrVals s ++ adrVals d) := by
  unfold constructTwoOp
  rw [getBW_eq, or_fields op s.part d.mode _ s.mode d.part hs2 hd1 (by cases byte <;> simp) hs1 hd2]
  congr 1
  have : (if byte = true then 1 else 0) < 2 := by cases byte <;> simp
  omega

theorem srcOpd_noext (byte : Bool) (as reg x ea : Nat) (has : as < 4) (h : srcExt as reg = false) :
    srcOpd byte as reg x ea = srcOpd byte as reg 0 ea := by
  have : as = 0 ∨ as = 1 ∨ as = 2 ∨ as = 3 := by omega
  rcases this with h1 | h1 | h1 | h1 <;> subst h1 <;> simp [srcExt] at h <;> simp [srcOpd, h]

theorem two_roundtrip (pc op : Nat) (m : Mn) (byte : Bool) (s d : AdrParts)
    (hop : op < 16) (hm : op2 op = some m)
    (hs1 : s.mode < 4) (hs2 : s.part < 16) (hs3 : s.cnt = if srcExt s.mode s.part = true then 1 else 0)
    (hd1 : d.mode < 2) (hd2 : d.part < 16) (hd3 : d.cnt = d.mode) :
    decode pc (wordsToBytes (constructTwoOp (op * 4096) byte s d)) =
      (dstOpd d.mode d.part (d.val % 65536) (pc + 2 + 2 * s.cnt)).map fun dd =>
        (Instr.two m byte (srcOpd byte s.mode s.part (s.val % 65536) (pc + 2)) dd,
          (wordsToBytes (constructTwoOp (op * 4096) byte s d)).length) := by
  have hop4 : 4 ≤ op := by
    rcases Nat.lt_or_ge op 4 with h | h
    · have : op = 0 ∨ op = 1 ∨ op = 2 ∨ op = 3 := by omega
      rcases this with h | h | h | h <;> subst h <;> simp [op2] at hm
    · exact h
  rw [twoOp_word op byte s d hop hs1 hs2 hd1 hd2]
  have hc : (if byte = true then 1 else 0) < 2 := by cases byte <;> simp
  generalize hw : op * 4096 + s.part * 256 + d.mode * 128 + (if byte = true then 1 else 0) * 64 + s.mode * 16 + d.part = w
  have f0 : w % 65536 = w := by omega
  have f1 : w / 4096 = op := by omega
  have f2 : w / 256 % 16 = s.part := by omega
  have f3 : w / 128 % 2 = d.mode := by omega
  have f4 : (w / 64 % 2 == 1) = byte := by
    cases byte
    · have : w / 64 % 2 = 0 := by simp at hw; omega
      simp [this]
    · have : w / 64 % 2 = 1 := by simp at hw; omega
      simp [this]
  have f5 : w / 16 % 4 = s.mode := by omega
  have f6 : w % 16 = d.part := by omega
  have hge : w / 4096 ≥ 4 := by omega
  have w2 : ∀ (x y : Byte) (rest : List Byte), word (x :: y :: rest) 2 = word rest 0 := fun x y rest => word_cons_succ x y rest 0
  have w4 : ∀ (x y z u : Byte) (rest : List Byte), word (x :: y :: z :: u :: rest) 4 = word rest 0 := fun x y z u rest => by
    rw [word_cons_succ x y _ 2, word_cons_succ z u _ 0]
  have hd : d.mode = 0 ∨ d.mode = 1 := by omega
  cases he : srcExt s.mode s.part
  · rw [he] at hs3
    simp only [Bool.false_eq_true, if_false] at hs3
    rcases hd with hd | hd
    · simp [wordsToBytes, decode, word_cons0, f0, hop4, decodeI, f1, f2, f3, f4, f5, f6, hm, adrVals, hs3, hd3, hd, he, dstOpd]
      exact (srcOpd_noext byte s.mode s.part _ _ hs1 he).symm
    · simp [wordsToBytes, decode, word_cons0, f0, hop4, decodeI, f1, f2, f3, f4, f5, f6, hm, adrVals, hs3, hd3, hd, he, w2]
      cases dstOpd 1 d.part (d.val % 65536) (pc + 2) <;> simp
      exact (srcOpd_noext byte s.mode s.part _ _ hs1 he).symm
  · rw [he] at hs3
    simp only [if_true] at hs3
    rcases hd with hd | hd
    · simp [wordsToBytes, decode, word_cons0, f0, hop4, decodeI, f1, f2, f3, f4, f5, f6, hm, adrVals, hs3, hd3, hd, he, w2, dstOpd]
    · simp [wordsToBytes, decode, word_cons0, f0, hop4, decodeI, f1, f2, f3, f4, f5, f6, hm, adrVals, hs3, hd3, hd, he, w2, w4]
      cases dstOpd 1 d.part (d.val % 65536) (pc + 2 + 2) <;> simp

theorem one_roundtrip (pc k : Nat) (m : Mn) (byte : Bool) (p : AdrParts)
    (hk : k / 8 = 4) (hm : op1 (k % 8) = some m) (hwo : (byte && wordOnly m) = false)
    (hp1 : p.mode < 4) (hp2 : p.part < 16) (hp3 : p.cnt = if srcExt p.mode p.part = true then 1 else 0) :
    decode pc (wordsToBytes (((k * 128 ||| getBW byte ||| (p.mode <<< 4) ||| p.part) % 65536) :: adrVals p)) =
      some (Instr.one m byte (srcOpd byte p.mode p.part (p.val % 65536) (pc + 2)),
        (wordsToBytes (((k * 128 ||| getBW byte ||| (p.mode <<< 4) ||| p.part) % 65536) :: adrVals p)).length) := by
  have hc : (if byte = true then 1 else 0) < 2 := by cases byte <;> simp
  rw [getBW_eq, or_fields2 k _ p.mode p.part hc hp1 hp2]
  have hk6 : k % 8 ≠ 6 := by
    intro h; rw [h] at hm; simp [op1] at hm
  generalize hw : k * 128 + (if byte = true then 1 else 0) * 64 + p.mode * 16 + p.part = w
  have f0 : w % 65536 = w := by omega
  have f1 : ¬ (w / 4096 ≥ 4) := by omega
  have f2 : w / 1024 = 4 := by omega
  have f3 : w / 128 % 8 = k % 8 := by omega
  have f4 : (w / 64 % 2 == 1) = byte := by
    cases byte
    · have : w / 64 % 2 = 0 := by simp at hw; omega
      simp [this]
    · have : w / 64 % 2 = 1 := by simp at hw; omega
      simp [this]
  have f5 : w / 16 % 4 = p.mode := by omega
  have f6 : w % 16 = p.part := by omega
  have w2 : ∀ (x y : Byte) (rest : List Byte), word (x :: y :: rest) 2 = word rest 0 := fun x y rest => word_cons_succ x y rest 0
  cases he : srcExt p.mode p.part
  · rw [he] at hp3
    simp only [Bool.false_eq_true, if_false] at hp3
    simp [wordsToBytes, decode, word_cons0, f0, f1, f2, decodeII, f3, f4, f5, f6, hm, hk6, hwo, adrVals, hp3, he]
    exact (srcOpd_noext byte p.mode p.part _ _ hp1 he).symm
  · rw [he] at hp3
    simp only [if_true] at hp3
    simp [wordsToBytes, decode, word_cons0, f0, f1, f2, decodeII, f3, f4, f5, f6, hm, hk6, hwo, adrVals, hp3, he, w2]

theorem jump_roundtrip (pc k e : Nat) (hk : k / 8 = 1) (he : e < 1024) :
    decode pc (wordsToBytes [(k * 1024 ||| e) % 65536]) =
      some (Instr.jump (k % 8) ((pc + 2 + 2 * e + (if e ≥ 512 then 63488 else 0)) % 65536), 2) := by
  rw [or_fields3 k e he]
  generalize hw : k * 1024 + e = w
  have f0 : w % 65536 = w := by omega
  have f1 : ¬ (w / 4096 ≥ 4) := by omega
  have f2 : ¬ (w / 1024 = 4) := by omega
  have f3 : w / 8192 = 1 := by omega
  have f4 : w / 1024 % 8 = k % 8 := by omega
  have f5 : w % 1024 = e := by omega
  simp [wordsToBytes, decode, word_cons0, f0, f1, f2, f3, decodeJ, f4, f5]


/-! ## operands -/

/-- the constant-generator encoding of the six constants: (As, register) -/
def cgEnc (byte : Bool) (v : Int) : Option (Nat × Nat) :=
  if v = 0 then some (0, 3) else if v = 1 then some (1, 3) else if v = 2 then some (2, 3)
  else if v = 4 then some (2, 2) else if v = 8 then some (3, 2)
  else if v = -1 ∨ (byte = true ∧ v = 255) ∨ (byte = false ∧ v = 65535) then some (3, 3) else none

theorem cgEnc_isCg (byte : Bool) (v : Int) : (cgEnc byte v).isSome = isCg byte v := by
  unfold cgEnc isCg
  cases byte <;> simp <;> (repeat' split) <;> simp_all <;> omega

theorem fillImm_eq (byte : Bool) (r : Int) (hr : immOk byte r = true) :
    fillImm byte (toLong r) false =
      match cgEnc byte r with
      | some (as, reg) => ⟨as, reg, 0, toLong r⟩
      | none => ⟨3, 0, 1, toLong r⟩ := by
  have hrange : -32768 ≤ r ∧ r ≤ 65535 := by
    cases byte <;> simp [immOk, inRange] at hr <;> omega
  by_cases h0 : r = 0
  · subst h0; cases byte <;> rfl
  by_cases h1 : r = 1
  · subst h1; cases byte <;> rfl
  by_cases h2 : r = 2
  · subst h2; cases byte <;> rfl
  by_cases h4 : r = 4
  · subst h4; cases byte <;> rfl
  by_cases h8 : r = 8
  · subst h8; cases byte <;> rfl
  by_cases hm1 : r = -1
  · subst hm1; cases byte <;> rfl
  by_cases h255 : r = 255
  · subst h255; cases byte <;> rfl
  by_cases h65535 : r = 65535
  · subst h65535; cases byte
    · rfl
    · simp [immOk, inRange] at hr
  have hc : cgEnc byte r = none := by
    unfold cgEnc; simp [h0, h1, h2, h4, h8, hm1, h255, h65535]
  rw [hc]
  have t0 : toLong r ≠ 0 := by unfold toLong; omega
  have t1 : toLong r ≠ 1 := by unfold toLong; omega
  have t2 : toLong r ≠ 2 := by unfold toLong; omega
  have t4 : toLong r ≠ 4 := by unfold toLong; omega
  have t8 : toLong r ≠ 8 := by unfold toLong; omega
  have tm1 : toLong r ≠ 4294967295 := by unfold toLong; omega
  have t255 : toLong r ≠ 255 := by unfold toLong; omega
  have t65535 : toLong r ≠ 65535 := by unfold toLong; omega
  have b0 : (toLong r == 0) = false := by rw [beq_eq_false_iff_ne]; exact t0
  have b1 : (toLong r == 1) = false := by rw [beq_eq_false_iff_ne]; exact t1
  have b2 : (toLong r == 2) = false := by rw [beq_eq_false_iff_ne]; exact t2
  have b4 : (toLong r == 4) = false := by rw [beq_eq_false_iff_ne]; exact t4
  have b8 : (toLong r == 8) = false := by rw [beq_eq_false_iff_ne]; exact t8
  simp [fillImm, cgTable, List.lookup, b0, b1, b2, b4, b8, tm1, t255, t65535]

/-- what an accepted source-type operand looks like to the SPEC's operand decoder -/
structure SrcGood (byte : Bool) (ea : Nat) (a : Arg) (p : AdrParts) : Prop where
  mode : p.mode < 4
  part : p.part < 16
  cnt : p.cnt = if srcExt p.mode p.part = true then 1 else 0
  opd : srcOpd byte p.mode p.part (p.val % 65536) ea = srcMeaning byte ea a
  words : p.cnt = srcWords byte a

theorem fillImm_good (byte : Bool) (r : Int) (hr : immOk byte r = true) (ea : Nat) :
    SrcGood byte ea (.imm r) (fillImm byte (toLong r) false) := by
  have hrange : -32768 ≤ r ∧ r ≤ 65535 := by
    cases byte <;> simp [immOk, inRange] at hr <;> omega
  by_cases h0 : r = 0
  · subst h0; cases byte <;> exact ⟨by decide, by decide, by decide, rfl, by decide⟩
  by_cases h1 : r = 1
  · subst h1; cases byte <;> exact ⟨by decide, by decide, by decide, rfl, by decide⟩
  by_cases h2 : r = 2
  · subst h2; cases byte <;> exact ⟨by decide, by decide, by decide, rfl, by decide⟩
  by_cases h4 : r = 4
  · subst h4; cases byte <;> exact ⟨by decide, by decide, by decide, rfl, by decide⟩
  by_cases h8 : r = 8
  · subst h8; cases byte <;> exact ⟨by decide, by decide, by decide, rfl, by decide⟩
  by_cases hm1 : r = -1
  · subst hm1; cases byte <;> exact ⟨by decide, by decide, by decide, rfl, by decide⟩
  by_cases h255 : r = 255
  · subst h255; cases byte <;> exact ⟨by decide, by decide, by decide, rfl, by decide⟩
  by_cases h65535 : r = 65535
  · subst h65535; cases byte
    · exact ⟨by decide, by decide, by decide, rfl, by decide⟩
    · simp [immOk, inRange] at hr
  have hc : cgEnc byte r = none := by
    unfold cgEnc; simp [h0, h1, h2, h4, h8, hm1, h255, h65535]
  have hcg : isCg byte r = false := by rw [← cgEnc_isCg, hc]; rfl
  rw [fillImm_eq byte r hr, hc]
  show SrcGood byte ea (.imm r) ⟨3, 0, 1, toLong r⟩
  refine ⟨by simp, by simp, by simp [srcExt], ?_, ?_⟩
  · simp only [srcOpd, srcMeaning, immVal, toLong]
    cases byte
    · simp; omega
    · simp [immOk, inRange] at hr
      simp; omega
  · simp [srcWords, hcg]

theorem testBit15 (m : Nat) (h : m < 4) : Nat.testBit 15 m = true := by
  have : m = 0 ∨ m = 1 ∨ m = 2 ∨ m = 3 := by omega
  rcases this with h | h | h | h <;> subst h <;> decide

theorem chkAdr15 (p : AdrParts) (h : p.mode < 4) : chkAdr 15 p = .ok p := by
  simp [chkAdr, testBit15 _ h]

theorem toLong_eq_zero (x : Int) (h1 : -32768 ≤ x) (h2 : x ≤ 65535) : toLong x = 0 ↔ x = 0 := by
  unfold toLong; omega

theorem toLong_w16 (x : Int) : toLong x % 65536 = w16 x := by
  unfold toLong w16; omega

theorem decodeAdr_src_good (fl : Flags) (pc dist : Nat) (byte : Bool) (a : Arg) (p : AdrParts)
    (h : decodeAdr fl pc dist byte 15 true a = .ok p)
    (hinc : a ≠ .inc 0) (hz : fl.zeroDispPcInd = true → a ≠ .idx 0 0) : SrcGood byte (pc + dist) a p := by
  cases a with
  | reg n =>
    simp only [decodeAdr] at h
    split at h
    · cases h
    split at h
    · cases h
    rename_i h1 h2
    rw [chkAdr15 _ (by simp)] at h
    cases h
    refine ⟨by simp, by simp; omega, by simp [srcExt], by simp [srcOpd, srcMeaning, h2], by simp [srcWords]⟩
  | idx n x =>
    simp only [decodeAdr, evalI16] at h
    split at h
    · cases h
    rename_i h1
    split at h
    · rename_i hx
      simp only [andThen_ok] at h
      split at h
      · cases h
      rename_i h2
      have hn2 : n ≠ 2 := by omega
      have hn3 : n ≠ 3 := by omega
      simp only [toLong_eq_zero x hx.1 hx.2] at h
      split at h
      · rename_i h3
        rw [chkAdr15 _ (by simp)] at h
        cases h
        obtain ⟨hx0, _, hf⟩ := h3
        subst hx0
        have hn0 : n ≠ 0 := by
          intro hn; subst hn
          rcases hf with hf | hf
          · exact hz hf rfl
          · exact hf rfl
        refine ⟨by simp, by simp; omega, by simp [srcExt], by simp [srcOpd, srcMeaning, hn0, hn2, hn3], by simp [srcWords, hn0]⟩
      · rename_i h3
        rw [chkAdr15 _ (by simp)] at h
        cases h
        have hx0 : n = 0 ∨ x ≠ 0 := by
          by_cases hn : n = 0
          · exact Or.inl hn
          · right; intro hx0; apply h3; exact ⟨hx0, by decide, Or.inr hn⟩
        refine ⟨by simp, by simp; omega, by simp [srcExt, hn3], ?_, ?_⟩
        · simp only [srcOpd, srcMeaning, toLong_w16]
          rcases hx0 with hn | hx0
          · simp [hn]
          · by_cases hn : n = 0
            · simp [hn]
            · simp [hn, hn2, hn3, hx0]
        · simp only [srcWords]
          rcases hx0 with hn | hx0
          · simp [hn]
          · simp [hx0]
    · simp at h
  | sym t =>
    simp only [decodeAdr, evalU16] at h
    split at h
    · rename_i ht
      simp only [andThen_ok] at h
      rw [chkAdr15 _ (by simp)] at h
      cases h
      refine ⟨by simp, by simp, by simp [srcExt], ?_, by simp [srcWords]⟩
      simp only [srcOpd, srcMeaning, w16]
      simp
      omega
    · simp at h
  | abs t =>
    simp only [decodeAdr, evalU16] at h
    split at h
    · rename_i ht
      simp only [andThen_ok] at h
      rw [chkAdr15 _ (by simp)] at h
      cases h
      refine ⟨by simp, by simp, by simp [srcExt], ?_, by simp [srcWords]⟩
      simp [srcOpd, srcMeaning, toLong_w16]
    · simp at h
  | ind n =>
    simp only [decodeAdr] at h
    split at h
    · cases h
    split at h
    · cases h
    rename_i h1 h2
    have t2 : Nat.testBit 15 2 = true := by decide
    simp only [t2, Bool.not_true, Bool.false_eq_true, if_false] at h
    rw [chkAdr15 _ (by simp)] at h
    cases h
    have hn2 : n ≠ 2 := by omega
    have hn3 : n ≠ 3 := by omega
    refine ⟨by simp, by simp; omega, by simp [srcExt], by simp [srcOpd, srcMeaning, hn2, hn3], by simp [srcWords]⟩
  | inc n =>
    simp only [decodeAdr] at h
    split at h
    · cases h
    split at h
    · cases h
    rename_i h1 h2
    rw [chkAdr15 _ (by simp)] at h
    cases h
    have hn0 : n ≠ 0 := by intro hn; subst hn; exact hinc rfl
    have hn2 : n ≠ 2 := by omega
    have hn3 : n ≠ 3 := by omega
    refine ⟨by simp, by simp; omega, by simp [srcExt, hn0], by simp [srcOpd, srcMeaning, hn0, hn2, hn3], by simp [srcWords]⟩
  | imm v =>
    simp only [decodeAdr, evalImm] at h
    simp only [Bool.not_true, Bool.false_eq_true, if_false] at h
    split at h
    · rename_i hv
      simp only [andThen_ok] at h
      have hg := fillImm_good byte v hv (pc + dist)
      rw [chkAdr15 _ hg.mode] at h
      cases h
      exact hg
    · simp at h
  | immL v =>
    simp only [decodeAdr, evalImm] at h
    simp only [Bool.not_true, Bool.false_eq_true, if_false] at h
    split at h
    · rename_i hv
      simp only [andThen_ok] at h
      have hf : fillImm byte (toLong v) true = ⟨3, 0, 1, toLong v⟩ := by simp [fillImm]
      rw [hf, chkAdr15 _ (by simp)] at h
      cases h
      refine ⟨by simp, by simp, by simp [srcExt], ?_, by simp [srcWords]⟩
      simp only [srcOpd, srcMeaning, immVal, toLong]
      cases byte
      · simp; omega
      · simp [immOk, inRange] at hv
        simp; omega
    · simp at h


/-- what an accepted destination operand looks like to the SPEC's operand decoder -/
structure DstGood (ea : Nat) (a : Arg) (p : AdrParts) : Prop where
  mode : p.mode < 2
  part : p.part < 16
  cnt : p.cnt = p.mode
  opd : dstOpd p.mode p.part (p.val % 65536) ea = some (dstMeaning ea a)

/-- the constant-generator choice for a datum other than 0 and 1 is no destination mode -/
theorem fillImm_mode_ge2 (byte : Bool) (v : Int) (hv : immOk byte v = true) (h0 : v ≠ 0) (h1 : v ≠ 1) :
    2 ≤ (fillImm byte (toLong v) false).mode := by
  rw [fillImm_eq byte v hv]
  cases hc : cgEnc byte v with
  | none => simp
  | some x =>
    obtain ⟨as, reg⟩ := x
    simp only
    unfold cgEnc at hc
    simp only [h0, h1, if_false] at hc
    (repeat' split at hc) <;> simp_all
    all_goals omega

theorem decodeAdr_dst (fl : Flags) (pc dist : Nat) (byte : Bool) (mask : Nat) (mi : Bool) (a : Arg) (p : AdrParts)
    (hm0 : mask.testBit 0 = true) (hm1 : mask.testBit 1 = true) (hm2 : mask.testBit 2 = false)
    (h : decodeAdr fl pc dist byte mask mi a = .ok p) (hmi : mi = true → mask.testBit 3 = false ∧ a ≠ .imm 0 ∧ a ≠ .imm 1) :
    DstGood (pc + dist) a p ∨ (∃ n, a = .inc n ∧ p = ⟨3, n, 0, 0⟩ ∧ mask.testBit 3 = true ∧ ptr n = true) := by
  cases a with
  | reg n =>
    left
    simp only [decodeAdr] at h
    split at h
    · cases h
    split at h
    · cases h
    rename_i h1 h2
    simp only [chkAdr, hm0, if_true] at h
    cases h
    exact ⟨by simp, by simp; omega, by simp, by simp [dstOpd, dstMeaning]⟩
  | idx n x =>
    left
    simp only [decodeAdr, evalI16] at h
    split at h
    · cases h
    rename_i h1
    split at h
    · rename_i hx
      simp only [andThen_ok] at h
      split at h
      · cases h
      rename_i h2
      have hn2 : n ≠ 2 := by omega
      have hn3 : n ≠ 3 := by omega
      simp only [hm2, Bool.false_eq_true, false_and, and_false, if_false, chkAdr, hm1, if_true] at h
      cases h
      refine ⟨by simp, by simp; omega, by simp, ?_⟩
      simp only [dstOpd, dstMeaning, toLong_w16]
      by_cases hn : n = 0
      · simp [hn]
      · simp [hn, hn2, hn3]
    · simp at h
  | sym t =>
    left
    simp only [decodeAdr, evalU16] at h
    split at h
    · rename_i ht
      simp only [andThen_ok, chkAdr, hm1, if_true] at h
      cases h
      refine ⟨by simp, by simp, by simp, ?_⟩
      simp only [dstOpd, dstMeaning, w16]
      simp
      omega
    · simp at h
  | abs t =>
    left
    simp only [decodeAdr, evalU16] at h
    split at h
    · rename_i ht
      simp only [andThen_ok, chkAdr, hm1, if_true] at h
      cases h
      refine ⟨by simp, by simp, by simp, ?_⟩
      simp [dstOpd, dstMeaning, toLong_w16]
    · simp at h
  | ind n =>
    left
    simp only [decodeAdr] at h
    split at h
    · cases h
    split at h
    · cases h
    rename_i h1 h2
    simp only [hm2, Bool.not_false, if_true, chkAdr, hm1] at h
    cases h
    have hn2 : n ≠ 2 := by omega
    have hn3 : n ≠ 3 := by omega
    refine ⟨by simp, by simp; omega, by simp, ?_⟩
    simp only [dstOpd, dstMeaning]
    by_cases hn : n = 0
    · simp [hn]
    · simp [hn, hn2, hn3]
  | inc n =>
    right
    simp only [decodeAdr] at h
    split at h
    · cases h
    split at h
    · cases h
    rename_i h1 h2
    simp only [chkAdr] at h
    split at h
    · rename_i h3
      cases h
      exact ⟨n, rfl, rfl, h3, by simp [ptr]; omega⟩
    · cases h
  | imm v =>
    exfalso
    simp only [decodeAdr, evalImm] at h
    cases mi
    · simp at h
    · simp only [Bool.not_true, Bool.false_eq_true, if_false] at h
      split at h
      · rename_i hv
        simp only [andThen_ok, chkAdr] at h
        have := hmi rfl
        have hge := fillImm_mode_ge2 byte v hv (by intro h; subst h; exact this.2.1 rfl) (by intro h; subst h; exact this.2.2 rfl)
        have hlt := (fillImm_good byte v hv 0).mode
        have hm : (fillImm byte (toLong v) false).mode = 2 ∨ (fillImm byte (toLong v) false).mode = 3 := by omega
        rcases hm with hm | hm <;> simp [hm, hm2, this.1] at h
      · simp at h
  | immL v =>
    exfalso
    simp only [decodeAdr, evalImm] at h
    cases mi
    · simp at h
    · simp only [Bool.not_true, Bool.false_eq_true, if_false] at h
      split at h
      · simp only [andThen_ok, chkAdr] at h
        have hf : fillImm byte (toLong v) true = ⟨3, 0, 1, toLong v⟩ := by simp [fillImm]
        simp [hf, (hmi rfl).1] at h
      · simp at h


theorem isOk_ite {α : Type} (c : Prop) [Decidable c] (x y : Except Err α) : isOk (if c then x else y) = if c then isOk x else isOk y := by
  split <;> rfl

theorem src_isOk (fl : Flags) (pc dist : Nat) (byte : Bool) (a : Arg) :
    isOk (decodeAdr fl pc dist byte 15 true a) = srcOk byte a := by
  cases a with
  | reg n =>
    simp only [decodeAdr, srcOk, gpr]
    by_cases h1 : n ≥ 16
    · have : ¬ n < 16 := by omega
      simp [h1, this, isOk]
    · by_cases h3 : n = 3
      · simp [h3, isOk]
      · have : n < 16 := by omega
        simp [h1, h3, this, chkAdr15, isOk]
  | idx n x =>
    simp only [decodeAdr, srcOk, ptr, evalI16, inRange]
    by_cases h1 : n ≥ 16
    · have : ¬ n < 16 := by omega
      simp [h1, this, isOk]
    · have hlt : n < 16 := by omega
      by_cases hx : -32768 ≤ x ∧ x ≤ 65535
      · by_cases h23 : n = 2 ∨ n = 3
        · rcases h23 with h | h <;> simp [h, hx, isOk]
        · have h2 : n ≠ 2 := by omega
          have h3 : n ≠ 3 := by omega
          simp only [h1, if_false, hx, and_self, if_true, andThen_ok, h23, hlt, decide_true, Bool.true_and]
          split <;> simp [chkAdr15, isOk, h2, h3]
      · simp only [h1, if_false, hx, andThen_error, isOk]
        by_cases hx1 : -32768 ≤ x
        · have : ¬ x ≤ 65535 := fun h => hx ⟨hx1, h⟩
          simp [this]
        · simp [hx1]
  | sym t =>
    simp only [decodeAdr, srcOk, evalU16, inRange]
    by_cases hx : 0 ≤ t ∧ t ≤ 65535
    · simp [hx, chkAdr15, isOk]
    · simp only [hx, if_false, andThen_error, isOk]
      by_cases hx1 : 0 ≤ t
      · have : ¬ t ≤ 65535 := fun h => hx ⟨hx1, h⟩
        simp [this]
      · simp [hx1]
  | abs t =>
    simp only [decodeAdr, srcOk, evalU16, inRange]
    by_cases hx : 0 ≤ t ∧ t ≤ 65535
    · simp [hx, chkAdr15, isOk]
    · simp only [hx, if_false, andThen_error, isOk]
      by_cases hx1 : 0 ≤ t
      · have : ¬ t ≤ 65535 := fun h => hx ⟨hx1, h⟩
        simp [this]
      · simp [hx1]
  | ind n =>
    simp only [decodeAdr, srcOk, ptr]
    by_cases h1 : n ≥ 16
    · have : ¬ n < 16 := by omega
      simp [h1, this, isOk]
    · have hlt : n < 16 := by omega
      by_cases h23 : n = 2 ∨ n = 3
      · rcases h23 with h | h <;> simp [h, isOk]
      · have h2 : n ≠ 2 := by omega
        have h3 : n ≠ 3 := by omega
        have t2 : Nat.testBit 15 2 = true := by decide
        simp [h1, hlt, t2, chkAdr15, isOk, h2, h3]
  | inc n =>
    simp only [decodeAdr, srcOk, ptr]
    by_cases h1 : n ≥ 16
    · have : ¬ n < 16 := by omega
      simp [h1, this, isOk]
    · have hlt : n < 16 := by omega
      by_cases h23 : n = 2 ∨ n = 3
      · rcases h23 with h | h <;> simp [h, isOk]
      · have h2 : n ≠ 2 := by omega
        have h3 : n ≠ 3 := by omega
        simp [h1, hlt, chkAdr15, isOk, h2, h3]
  | imm v =>
    simp only [decodeAdr, srcOk, evalImm]
    cases hv : immOk byte v
    · simp [isOk]
    · simp [chkAdr15 _ (fillImm_good byte v hv 0).mode, isOk]
  | immL v =>
    simp only [decodeAdr, srcOk, evalImm]
    cases hv : immOk byte v
    · simp [isOk]
    · have hf : fillImm byte (toLong v) true = ⟨3, 0, 1, toLong v⟩ := by simp [fillImm]
      simp [hf, chkAdr15, isOk]


/-- the extra operand `@Rn+` a mask with bit 3 lets through -/
def incOk : Arg → Bool
  | .inc n => ptr n
  | _ => false

/-- acceptance of a destination-type operand (mask without `eModeIReg`), immediates allowed or not -/
theorem dst_isOk (fl : Flags) (pc dist : Nat) (byte : Bool) (mask : Nat) (mi : Bool) (a : Arg)
    (hm0 : mask.testBit 0 = true) (hm1 : mask.testBit 1 = true) (hm2 : mask.testBit 2 = false)
    (hmi : mi = true → mask.testBit 3 = false) :
    isOk (decodeAdr fl pc dist byte mask mi a) =
      (dstOk a || (mask.testBit 3 && incOk a) || (mi && (a == .imm 0 || a == .imm 1))) := by
  cases a with
  | reg n =>
    simp only [decodeAdr, dstOk, gpr, incOk]
    by_cases h1 : n ≥ 16
    · have : ¬ n < 16 := by omega
      simp [h1, this, isOk]
    · by_cases h3 : n = 3
      · simp [h3, isOk]
      · have : n < 16 := by omega
        simp [h1, h3, this, chkAdr, hm0, isOk]
  | idx n x =>
    simp only [decodeAdr, dstOk, ptr, evalI16, inRange, incOk]
    by_cases h1 : n ≥ 16
    · have : ¬ n < 16 := by omega
      simp [h1, this, isOk]
    · have hlt : n < 16 := by omega
      by_cases hx : -32768 ≤ x ∧ x ≤ 65535
      · by_cases h23 : n = 2 ∨ n = 3
        · rcases h23 with h | h <;> simp [h, hx, isOk]
        · have h2 : n ≠ 2 := by omega
          have h3 : n ≠ 3 := by omega
          simp [h1, hx, hlt, hm2, chkAdr, hm1, isOk, h2, h3]
      · simp only [h1, if_false, hx, andThen_error, isOk]
        by_cases hx1 : -32768 ≤ x
        · have : ¬ x ≤ 65535 := fun h => hx ⟨hx1, h⟩
          simp [this]
        · simp [hx1]
  | sym t =>
    simp only [decodeAdr, dstOk, evalU16, inRange, incOk]
    by_cases hx : 0 ≤ t ∧ t ≤ 65535
    · simp [hx, chkAdr, hm1, isOk]
    · simp only [hx, if_false, andThen_error, isOk]
      by_cases hx1 : 0 ≤ t
      · have : ¬ t ≤ 65535 := fun h => hx ⟨hx1, h⟩
        simp [this]
      · simp [hx1]
  | abs t =>
    simp only [decodeAdr, dstOk, evalU16, inRange, incOk]
    by_cases hx : 0 ≤ t ∧ t ≤ 65535
    · simp [hx, chkAdr, hm1, isOk]
    · simp only [hx, if_false, andThen_error, isOk]
      by_cases hx1 : 0 ≤ t
      · have : ¬ t ≤ 65535 := fun h => hx ⟨hx1, h⟩
        simp [this]
      · simp [hx1]
  | ind n =>
    simp only [decodeAdr, dstOk, ptr, incOk]
    by_cases h1 : n ≥ 16
    · have : ¬ n < 16 := by omega
      simp [h1, this, isOk]
    · have hlt : n < 16 := by omega
      by_cases h23 : n = 2 ∨ n = 3
      · rcases h23 with h | h <;> simp [h, isOk]
      · have h2 : n ≠ 2 := by omega
        have h3 : n ≠ 3 := by omega
        simp [h1, hlt, hm2, chkAdr, hm1, isOk, h2, h3]
  | inc n =>
    simp only [decodeAdr, dstOk, ptr, incOk]
    by_cases h1 : n ≥ 16
    · have : ¬ n < 16 := by omega
      simp [h1, this, isOk]
    · have hlt : n < 16 := by omega
      by_cases h23 : n = 2 ∨ n = 3
      · rcases h23 with h | h <;> simp [h, isOk]
      · have h2 : n ≠ 2 := by omega
        have h3 : n ≠ 3 := by omega
        cases h3b : mask.testBit 3 <;> simp [h1, hlt, chkAdr, h3b, isOk, h2, h3]
  | imm v =>
    simp only [decodeAdr, dstOk, evalImm, incOk]
    cases mi
    · simp [isOk]
    · have hb3 := hmi rfl
      cases hv : immOk byte v
      · have h0 : v ≠ 0 := by intro h; subst h; cases byte <;> simp [immOk, inRange] at hv
        have h1 : v ≠ 1 := by intro h; subst h; cases byte <;> simp [immOk, inRange] at hv
        simp [isOk, h0, h1]
      · by_cases h0 : v = 0
        · subst h0
          have : fillImm byte (toLong 0) false = ⟨0, 3, 0, 0⟩ := by cases byte <;> rfl
          simp [this, chkAdr, hm0, isOk]
        by_cases h1 : v = 1
        · subst h1
          have : fillImm byte (toLong 1) false = ⟨1, 3, 0, 1⟩ := by cases byte <;> rfl
          simp [this, chkAdr, hm1, isOk]
        have hge := fillImm_mode_ge2 byte v hv h0 h1
        have hlt := (fillImm_good byte v hv 0).mode
        have hm : (fillImm byte (toLong v) false).mode = 2 ∨ (fillImm byte (toLong v) false).mode = 3 := by omega
        rcases hm with hm | hm <;> simp [chkAdr, hm, hm2, hb3, isOk, h0, h1]
  | immL v =>
    simp only [decodeAdr, dstOk, evalImm, incOk]
    cases mi
    · simp [isOk]
    · have hb3 := hmi rfl
      have hf : fillImm byte (toLong v) true = ⟨3, 0, 1, toLong v⟩ := by simp [fillImm]
      cases hv : immOk byte v <;> simp [hf, chkAdr, hb3, isOk]


/-! ## the decode handlers -/

theorem isOk_andThen_const {α β : Type} (x : Except Err α) (f : α → Except Err β) (c : Bool) (h : ∀ v, isOk (f v) = c) :
    isOk (andThen x f) = (isOk x && c) := by
  cases x with
  | error e => rfl
  | ok v => rw [andThen_ok, h v]; rfl

theorem tb3 : Nat.testBit 3 0 = true ∧ Nat.testBit 3 1 = true ∧ Nat.testBit 3 2 = false ∧ Nat.testBit 3 3 = false := by decide
theorem tb11 : Nat.testBit 11 0 = true ∧ Nat.testBit 11 1 = true ∧ Nat.testBit 11 2 = false ∧ Nat.testBit 11 3 = true := by decide

theorem shl1 (n : Nat) : n <<< 1 = 2 * n := by rw [Nat.shiftLeft_eq]; omega

/-- a destination operand under mask 3 without immediates -/
theorem dst3_good (fl : Flags) (pc dist : Nat) (byte : Bool) (a : Arg) (p : AdrParts)
    (h : decodeAdr fl pc dist byte 3 false a = .ok p) : DstGood (pc + dist) a p := by
  rcases decodeAdr_dst fl pc dist byte 3 false a p tb3.1 tb3.2.1 tb3.2.2.1 h (by simp) with hg | ⟨n, _, _, h3, _⟩
  · exact hg
  · simp [tb3.2.2.2] at h3

theorem twoOp_sound (fl : Flags) (pc op : Nat) (m : Mn) (byte : Bool) (ops : List Arg) (bs : List Byte)
    (hop : op < 16) (hm : op2 op = some m)
    (hinc : ∀ a d, ops = [a, d] → a ≠ .inc 0) (hz : fl.zeroDispPcInd = true → ∀ a d, ops = [a, d] → a ≠ .idx 0 0)
    (h : decodeTwoOp fl (op * 4096) pc byte ops = .ok bs) :
    ∃ a d, ops = [a, d] ∧
      decode pc bs = some (.two m byte (srcMeaning byte (pc + 2) a) (dstMeaning (pc + 2 + 2 * srcWords byte a) d), bs.length) := by
  unfold decodeTwoOp at h
  split at h
  · rename_i a d
    refine ⟨a, d, rfl, ?_⟩
    simp only [twoSrcMask, twoSrcMayImm, twoDstMask, twoDstMayImm] at h
    cases hs : decodeAdr fl pc 2 byte 15 true a with
    | error e => rw [hs] at h; cases h
    | ok s =>
      rw [hs, andThen_ok] at h
      cases hd : decodeAdr fl pc (2 + (s.cnt <<< 1)) byte 3 false d with
      | error e => rw [hd] at h; cases h
      | ok dd =>
        rw [hd, andThen_ok] at h
        cases h
        have sg := decodeAdr_src_good fl pc 2 byte a s hs (hinc a d rfl) (fun hf => hz hf a d rfl)
        have dg := dst3_good fl pc _ byte d dd hd
        rw [two_roundtrip pc op m byte s dd hop hm sg.mode sg.part sg.cnt dg.mode dg.part dg.cnt]
        have e1 : pc + (2 + (s.cnt <<< 1)) = pc + 2 + 2 * s.cnt := by rw [shl1]; omega
        rw [← e1, dg.opd, sg.opd, ← sg.words, e1]
        rfl
  · cases h

theorem twoOp_isOk (fl : Flags) (code pc : Nat) (byte : Bool) (ops : List Arg) :
    isOk (decodeTwoOp fl code pc byte ops) = (match ops with | [a, d] => srcOk byte a && dstOk d | _ => false) := by
  unfold decodeTwoOp
  split
  · rename_i a d
    simp only [twoSrcMask, twoSrcMayImm, twoDstMask, twoDstMayImm]
    rw [isOk_andThen_const _ _ (dstOk d), src_isOk]
    intro s
    rw [isOk_andThen_const _ _ true (fun _ => rfl), dst_isOk fl pc _ byte 3 false d tb3.1 tb3.2.1 tb3.2.2.1 (by simp)]
    simp [tb3.2.2.2]
  · simp only [isOk]

theorem and_8000 (v : Nat) : v &&& 0x8000 = (v / 32768 % 2) * 32768 := by
  have h1 : (v &&& 2 ^ 15) % 2 ^ 15 = 0 := by
    rw [Nat.and_mod_two_pow]; simp
  have h2 : (v &&& 2 ^ 15) / 2 ^ 15 = v / 2 ^ 15 % 2 := by
    rw [Nat.and_div_two_pow]; simp [Nat.and_one_is_mod]
  have h3 := Nat.div_add_mod (v &&& 2 ^ 15) (2 ^ 15)
  rw [h1, h2] at h3
  have e : (2 : Nat) ^ 15 = 32768 := by decide
  rw [e] at h3
  show v &&& 32768 = _
  omega

/-- explicit result of `DecodeAdr` for a destination-type mask (no `eModeIReg`) without immediates -/
theorem decodeAdr_dst_inv (fl : Flags) (pc dist : Nat) (byte : Bool) (mask : Nat) (a : Arg) (p : AdrParts)
    (hm0 : mask.testBit 0 = true) (hm1 : mask.testBit 1 = true) (hm2 : mask.testBit 2 = false)
    (h : decodeAdr fl pc dist byte mask false a = .ok p) :
    (∃ n, a = .reg n ∧ n < 16 ∧ n ≠ 3 ∧ p = ⟨0, n, 0, 0⟩) ∨
    (∃ n x, a = .idx n x ∧ n < 16 ∧ n ≠ 2 ∧ n ≠ 3 ∧ -32768 ≤ x ∧ x ≤ 65535 ∧ p = ⟨1, n, 1, toLong x⟩) ∨
    (∃ t, a = .sym t ∧ 0 ≤ t ∧ t ≤ 65535 ∧ p = ⟨1, 0, 1, ((t - ((pc + dist : Nat) : Int)) % 65536).toNat⟩) ∨
    (∃ t, a = .abs t ∧ 0 ≤ t ∧ t ≤ 65535 ∧ p = ⟨1, 2, 1, toLong t⟩) ∨
    (∃ n, a = .ind n ∧ n < 16 ∧ n ≠ 2 ∧ n ≠ 3 ∧ p = ⟨1, n, 1, 0⟩) ∨
    (∃ n, a = .inc n ∧ n < 16 ∧ n ≠ 2 ∧ n ≠ 3 ∧ mask.testBit 3 = true ∧ p = ⟨3, n, 0, 0⟩) := by
  cases a with
  | reg n =>
    simp only [decodeAdr] at h
    split at h
    · cases h
    split at h
    · cases h
    rename_i h1 h2
    simp only [chkAdr, hm0, if_true] at h
    cases h
    exact Or.inl ⟨n, rfl, by omega, h2, rfl⟩
  | idx n x =>
    simp only [decodeAdr, evalI16] at h
    split at h
    · cases h
    rename_i h1
    split at h
    · rename_i hx
      simp only [andThen_ok] at h
      split at h
      · cases h
      rename_i h2
      simp only [hm2, Bool.false_eq_true, false_and, and_false, if_false, chkAdr, hm1, if_true] at h
      cases h
      exact Or.inr (Or.inl ⟨n, x, rfl, by omega, by omega, by omega, hx.1, hx.2, rfl⟩)
    · simp at h
  | sym t =>
    simp only [decodeAdr, evalU16] at h
    split at h
    · rename_i ht
      simp only [andThen_ok, chkAdr, hm1, if_true] at h
      cases h
      exact Or.inr (Or.inr (Or.inl ⟨t, rfl, ht.1, ht.2, rfl⟩))
    · simp at h
  | abs t =>
    simp only [decodeAdr, evalU16] at h
    split at h
    · rename_i ht
      simp only [andThen_ok, chkAdr, hm1, if_true] at h
      cases h
      exact Or.inr (Or.inr (Or.inr (Or.inl ⟨t, rfl, ht.1, ht.2, rfl⟩)))
    · simp at h
  | ind n =>
    simp only [decodeAdr] at h
    split at h
    · cases h
    split at h
    · cases h
    rename_i h1 h2
    simp only [hm2, Bool.not_false, if_true, chkAdr, hm1] at h
    cases h
    exact Or.inr (Or.inr (Or.inr (Or.inr (Or.inl ⟨n, rfl, by omega, by omega, by omega, rfl⟩))))
  | inc n =>
    simp only [decodeAdr] at h
    split at h
    · cases h
    split at h
    · cases h
    rename_i h1 h2
    simp only [chkAdr] at h
    split at h
    · rename_i h3
      cases h
      exact Or.inr (Or.inr (Or.inr (Or.inr (Or.inr ⟨n, rfl, by omega, by omega, by omega, h3, rfl⟩))))
    · cases h
  | imm v => simp [decodeAdr] at h
  | immL v => simp [decodeAdr] at h


theorem oneOp_sound (fl : Flags) (pc k : Nat) (m : Mn) (mayByte byte : Bool) (ops : List Arg) (bs : List Byte)
    (hk : k / 8 = 4) (hm : op1 (k % 8) = some m) (hwo : wordOnly m = !mayByte)
    (hinc : ∀ a, ops = [a] → a ≠ .inc 0) (hz : fl.zeroDispPcInd = true → ∀ a, ops = [a] → a ≠ .idx 0 0)
    (h : decodeOneOp fl mayByte (k * 128) pc byte ops = .ok bs) :
    ∃ a, ops = [a] ∧ decode pc bs = some (.one m byte (srcMeaning byte (pc + 2) a), bs.length) := by
  unfold decodeOneOp at h
  split at h
  · rename_i a
    refine ⟨a, rfl, ?_⟩
    split at h
    · cases h
    rename_i hb
    simp only [oneMask, oneMayImm] at h
    cases hs : decodeAdr fl pc 2 byte 15 true a with
    | error e => rw [hs] at h; cases h
    | ok s =>
      rw [hs, andThen_ok] at h
      cases h
      have sg := decodeAdr_src_good fl pc 2 byte a s hs (hinc a rfl) (fun hf => hz hf a rfl)
      have hwo' : (byte && wordOnly m) = false := by
        rw [hwo]; cases byte <;> cases mayByte <;> simp_all
      rw [one_roundtrip pc k m byte s hk hm hwo' sg.mode sg.part sg.cnt, sg.opd]
  · cases h

theorem oneOp_isOk (fl : Flags) (mayByte : Bool) (code pc : Nat) (byte : Bool) (ops : List Arg) :
    isOk (decodeOneOp fl mayByte code pc byte ops) = (match ops with | [a] => !(byte && !mayByte) && srcOk byte a | _ => false) := by
  unfold decodeOneOp
  split
  · rename_i a
    simp only [oneMask, oneMayImm]
    split
    · rename_i hb; simp [hb, isOk]
    · rename_i hb
      rw [isOk_andThen_const _ _ true (fun _ => rfl), src_isOk]
      simp [hb]
  · simp only [isOk]

theorem br_sound (fl : Flags) (pc op size : Nat) (m : Mn) (ops : List Arg) (bs : List Byte)
    (hop : op < 16) (hm : op2 op = some m)
    (hinc : ∀ a, ops = [a] → a ≠ .inc 0) (hz : fl.zeroDispPcInd = true → ∀ a, ops = [a] → a ≠ .idx 0 0)
    (h : decodeBR fl (op * 4096) pc size ops = .ok bs) :
    ∃ a, ops = [a] ∧ decode pc bs = some (.two m false (srcMeaning false (pc + 2) a) (.reg 0), bs.length) := by
  unfold decodeBR at h
  split at h
  · rename_i a
    refine ⟨a, rfl, ?_⟩
    split at h
    · cases h
    simp only [brMask, brMayImm] at h
    cases hs : decodeAdr fl pc 2 false 15 true a with
    | error e => rw [hs] at h; cases h
    | ok s =>
      rw [hs, andThen_ok] at h
      cases h
      have sg := decodeAdr_src_good fl pc 2 false a s hs (hinc a rfl) (fun hf => hz hf a rfl)
      rw [two_roundtrip pc op m false s ⟨0, 0, 0, 0⟩ hop hm sg.mode sg.part sg.cnt (by simp) (by simp) rfl, sg.opd]
      rfl
  · cases h

theorem br_isOk (fl : Flags) (code pc size : Nat) (ops : List Arg) :
    isOk (decodeBR fl code pc size ops) = (match ops with | [a] => size == 0 && srcOk false a | _ => false) := by
  unfold decodeBR
  split
  · rename_i a
    simp only [brMask, brMayImm]
    split
    · rename_i hb; simp [hb, isOk]
    · rename_i hb
      rw [isOk_andThen_const _ _ true (fun _ => rfl), src_isOk]
      simp at hb
      simp [hb]
  · simp only [isOk]

theorem pop_sound (fl : Flags) (pc op : Nat) (m : Mn) (byte : Bool) (ops : List Arg) (bs : List Byte)
    (hop : op < 16) (hm : op2 op = some m)
    (hmi : fl.popMayImm = true → ∀ d, ops = [d] → d ≠ .imm 0 ∧ d ≠ .imm 1)
    (h : decodePOP fl (op * 4096) pc byte ops = .ok bs) :
    ∃ d, ops = [d] ∧ decode pc bs = some (.two m byte (.inc 1) (dstMeaning (pc + 2) d), bs.length) := by
  unfold decodePOP at h
  split at h
  · rename_i d
    refine ⟨d, rfl, ?_⟩
    simp only [popMask] at h
    cases hd : decodeAdr fl pc 2 byte 3 fl.popMayImm d with
    | error e => rw [hd] at h; cases h
    | ok dd =>
      rw [hd, andThen_ok] at h
      cases h
      have dg : DstGood (pc + 2) d dd := by
        rcases decodeAdr_dst fl pc 2 byte 3 fl.popMayImm d dd tb3.1 tb3.2.1 tb3.2.2.1 hd
          (fun hf => ⟨tb3.2.2.2, hmi hf d rfl⟩) with hg | ⟨n, _, _, h3, _⟩
        · exact hg
        · simp [tb3.2.2.2] at h3
      rw [two_roundtrip pc op m byte ⟨3, 1, 0, 0⟩ dd hop hm (by simp) (by simp) (by simp [srcExt]) dg.mode dg.part dg.cnt]
      simp only [Nat.mul_zero, Nat.add_zero, dg.opd]
      rfl
  · cases h

theorem pop_isOk (fl : Flags) (code pc : Nat) (byte : Bool) (ops : List Arg) :
    isOk (decodePOP fl code pc byte ops) =
      (match ops with | [d] => dstOk d || (fl.popMayImm && (d == .imm 0 || d == .imm 1)) | _ => false) := by
  unfold decodePOP
  split
  · rename_i d
    simp only [popMask]
    rw [isOk_andThen_const _ _ true (fun _ => rfl), dst_isOk fl pc 2 byte 3 fl.popMayImm d tb3.1 tb3.2.1 tb3.2.2.1 (fun _ => tb3.2.2.2)]
    simp [tb3.2.2.2]
  · simp only [isOk]

theorem fixed_isOk (code size : Nat) (ops : List Arg) :
    isOk (decodeFixed code size ops) = (match ops with | [] => size == 0 | _ => false) := by
  unfold decodeFixed
  split
  · split <;> simp_all [isOk]
  · simp only [isOk]


theorem emulC_sound (fl : Flags) (pc op code spec : Nat) (m : Mn) (byte : Bool) (ops : List Arg) (bs : List Byte)
    (hop : op < 16) (hm : op2 op = some m) (hhi : code &&& 0xff00 = op * 4096) (hlo : lo code = spec)
    (hspec : spec = 0 ∨ spec = 1 ∨ spec = 2 ∨ spec = 255)
    (h : decodeEmul fl code pc byte ops = .ok bs) :
    ∃ d, ops = [d] ∧
      decode pc bs = some (.two m byte (.imm (if spec = 255 then allOnes byte else spec)) (dstMeaning (pc + 2) d), bs.length) := by
  unfold decodeEmul at h
  simp only [hlo, hhi] at h
  have hna : spec ≠ 0xaa := by omega
  split at h
  · rename_i d
    refine ⟨d, rfl, ?_⟩
    simp only [hna, if_false, Nat.or_zero] at h
    cases hd : decodeAdr fl pc 2 byte 3 false d with
    | error e => rw [hd] at h; cases h
    | ok dd =>
      rw [hd, andThen_ok] at h
      cases h
      have dg := dst3_good fl pc 2 byte d dd hd
      rcases hspec with hs | hs | hs | hs <;> subst hs
      · have hf : fillImm byte (if 0 = 255 then 4294967295 else 0) false = ⟨0, 3, 0, 0⟩ := by cases byte <;> rfl
        rw [hf, two_roundtrip pc op m byte ⟨0, 3, 0, 0⟩ dd hop hm (by simp) (by simp) (by simp [srcExt]) dg.mode dg.part dg.cnt]
        simp only [Nat.mul_zero, Nat.add_zero, dg.opd]
        rfl
      · have hf : fillImm byte (if 1 = 255 then 4294967295 else 1) false = ⟨1, 3, 0, 1⟩ := by cases byte <;> rfl
        rw [hf, two_roundtrip pc op m byte ⟨1, 3, 0, 1⟩ dd hop hm (by simp) (by simp) (by simp [srcExt]) dg.mode dg.part dg.cnt]
        simp only [Nat.mul_zero, Nat.add_zero, dg.opd]
        rfl
      · have hf : fillImm byte (if 2 = 255 then 4294967295 else 2) false = ⟨2, 3, 0, 2⟩ := by cases byte <;> rfl
        rw [hf, two_roundtrip pc op m byte ⟨2, 3, 0, 2⟩ dd hop hm (by simp) (by simp) (by simp [srcExt]) dg.mode dg.part dg.cnt]
        simp only [Nat.mul_zero, Nat.add_zero, dg.opd]
        rfl
      · have hf : fillImm byte (if 255 = 255 then 4294967295 else 255) false = ⟨3, 3, 0, 4294967295⟩ := by cases byte <;> rfl
        rw [hf, two_roundtrip pc op m byte ⟨3, 3, 0, 4294967295⟩ dd hop hm (by simp) (by simp) (by simp [srcExt]) dg.mode dg.part dg.cnt]
        simp only [Nat.mul_zero, Nat.add_zero, dg.opd]
        rfl
  · cases h

theorem emulC_isOk (fl : Flags) (code pc : Nat) (byte : Bool) (ops : List Arg) (hna : lo code ≠ 0xaa) :
    isOk (decodeEmul fl code pc byte ops) = (match ops with | [d] => dstOk d | _ => false) := by
  unfold decodeEmul
  simp only [hna, if_false, Nat.or_zero]
  split
  · rename_i d
    rw [isOk_andThen_const _ _ true (fun _ => rfl), dst_isOk fl pc 2 byte 3 false d tb3.1 tb3.2.1 tb3.2.2.1 (by simp)]
    simp [tb3.2.2.2]
  · simp only [isOk]

theorem jmpEmit_sound (pc k : Nat) (t A : Int) (bs : List Byte) (hk : k / 8 = 1) (ht : 0 ≤ t ∧ t ≤ 65535)
    (hA : A = (t - ((pc : Int) + 2) + 32768) % 65536 - 32768) (h : jmpEmit (k * 1024) A = .ok bs) :
    decode pc bs = some (.jump (k % 8) (w16 t), bs.length) := by
  unfold jmpEmit at h
  simp only [jmpMin, jmpMax] at h
  by_cases hodd : A % 2 ≠ 0
  · simp only [hodd, ne_eq, not_false_eq_true, if_true] at h; cases h
  simp only [hodd, if_false] at h
  by_cases hr : A < -1024 ∨ A > 1022
  · simp only [hr, if_true] at h; cases h
  simp only [hr, if_false] at h
  cases h
  have he : ((A / 2) % 1024).toNat < 1024 := by omega
  rw [jump_roundtrip pc k _ hk he]
  simp only [wordsToBytes, List.length_cons, List.length_nil]
  have key : (pc + 2 + 2 * ((A / 2) % 1024).toNat + (if ((A / 2) % 1024).toNat ≥ 512 then 63488 else 0)) % 65536 = w16 t := by
    unfold w16
    by_cases hge : ((A / 2) % 1024).toNat ≥ 512
    · simp only [hge, if_true]; omega
    · simp only [hge, if_false]; omega
  rw [key]

theorem jmpEmit_isOk (code : Nat) (A : Int) :
    isOk (jmpEmit code A) = (decide (A % 2 = 0) && decide (-1024 ≤ A) && decide (A ≤ 1022)) := by
  unfold jmpEmit
  simp only [jmpMin, jmpMax]
  by_cases hodd : A % 2 = 0
  · by_cases h1 : -1024 ≤ A
    · by_cases h2 : A ≤ 1022
      · have : ¬ (A < -1024 ∨ A > 1022) := by omega
        simp [hodd, h1, h2, this, isOk]
      · have : (A < -1024 ∨ A > 1022) := by omega
        simp [hodd, h1, h2, this, isOk]
    · have : (A < -1024 ∨ A > 1022) := by omega
      simp [hodd, h1, this, isOk]
  · simp [hodd, isOk]

theorem toInteger_pc (pc : Nat) (t : Int) :
    toInteger (t - ((pc + jmpPcOfs : Nat) : Int)) = wrap16 (t - ((pc : Int) + 2)) := by
  unfold toInteger wrap16 jmpPcOfs; simp

theorem jmp_sound (pc k : Nat) (byte : Bool) (ops : List Arg) (bs : List Byte) (hk : k / 8 = 1)
    (h : decodeJmp (k * 1024) pc byte ops = .ok bs) :
    ∃ t, ops = [.sym t] ∧ decode pc bs = some (.jump (k % 8) (w16 t), bs.length) := by
  unfold decodeJmp at h
  split at h
  · rename_i a
    split at h
    · cases h
    split at h
    · rename_i t
      refine ⟨t, rfl, ?_⟩
      simp only [evalU16] at h
      split at h
      · rename_i ht
        simp only [andThen_ok] at h
        exact jmpEmit_sound pc k t _ bs hk ht (by rw [toInteger_pc]; rfl) h
      · simp at h
    · cases h
  · cases h

theorem jmp_isOk (code pc : Nat) (byte : Bool) (ops : List Arg) :
    isOk (decodeJmp code pc byte ops) =
      (match ops with | [.sym t] => !byte && inRange 0 65535 t && jumpOk pc t | _ => false) := by
  unfold decodeJmp
  split
  · rename_i a
    cases byte
    · simp only [Bool.false_eq_true, if_false, Bool.not_false, Bool.true_and]
      cases a with
      | sym t =>
        simp only [evalU16, inRange, jumpOk]
        by_cases ht : 0 ≤ t ∧ t ≤ 65535
        · simp only [ht, and_self, if_true, andThen_ok, decide_true, Bool.true_and]
          rw [jmpEmit_isOk, toInteger_pc]
        · simp only [ht, if_false, andThen_error, isOk]
          by_cases hx1 : 0 ≤ t
          · have : ¬ t ≤ 65535 := fun h => ht ⟨hx1, h⟩
            simp [this]
          · simp [hx1]
      | _ => simp [isOk]
    · simp only [if_true, isOk, Bool.not_true, Bool.false_and]
      split <;> rfl
  · rename_i hne
    simp only [isOk]
    split
    · rename_i t; exact absurd rfl (hne _)
    · rfl

/-- the words of the instructions without operand, as the SPEC's emulation table defines them -/
def encFixed : Mn → Nat
  | .RETI => 0x1300 | .CLRC => 0xc312 | .CLRN => 0xc222 | .CLRZ => 0xc322 | .DINT => 0xc232 | .EINT => 0xd232
  | .NOP => 0x4303 | .RET => 0x4130 | .SETC => 0xd312 | .SETN => 0xd222 | .SETZ => 0xd322
  | _ => 0

theorem fixed_sound (m : Mn) (hf : form m = .none) (pc : Nat) :
    decode pc (wordsToBytes [encFixed m]) = some (fixedMeaning m, 2) := by
  cases m <;> simp [form] at hf <;> rfl

theorem srcExt_1_0 : srcExt 1 0 = true := by decide

/-- `ADD x(PC),(x-2)(PC)`: both operands name the same location -/
theorem pcrel_dup (pc op : Nat) (m : Mn) (byte : Bool) (V T : Nat) (hop : op < 16) (hm : op2 op = some m)
    (hT : (pc + 2 + V % 65536) % 65536 = T) :
    decode pc (wordsToBytes (constructTwoOp (op * 4096) byte ⟨1, 0, 1, V⟩ ⟨1, 0, 1, (V + 4294967296 - 2) % 4294967296⟩)) =
      some (.two m byte (.sym T) (.sym T),
        (wordsToBytes (constructTwoOp (op * 4096) byte ⟨1, 0, 1, V⟩ ⟨1, 0, 1, (V + 4294967296 - 2) % 4294967296⟩)).length) := by
  rw [two_roundtrip pc op m byte ⟨1, 0, 1, V⟩ ⟨1, 0, 1, _⟩ hop hm (by simp) (by simp) (by simp [srcExt]) (by simp) (by simp) rfl]
  have e1 : ∀ x ea, srcOpd byte 1 0 x ea = .sym ((ea + x) % 65536) := fun _ _ => rfl
  have e2 : ∀ x ea, dstOpd 1 0 x ea = some (.sym ((ea + x) % 65536)) := fun _ _ => rfl
  rw [e1, e2, Option.map_some, hT]
  have e3 : (pc + 2 + 2 * 1 + (V + 4294967296 - 2) % 4294967296 % 65536) % 65536 = T := by omega
  show some (Instr.two m byte (Opd.sym T) (Opd.sym ((pc + 2 + 2 * 1 + (V + 4294967296 - 2) % 4294967296 % 65536) % 65536)), _) = _
  rw [e3]

theorem emulAA_sound (fl : Flags) (pc op code : Nat) (m : Mn) (byte : Bool) (ops : List Arg) (bs : List Byte)
    (hop : op < 16) (hm : op2 op = some m) (hhi : code &&& 0xff00 = op * 4096) (hlo : lo code = 0xaa)
    (hinc : ∀ d, ops = [d] → d ≠ .inc 0)
    (habs : fl.rlaAbsZeroInd = true → ops ≠ [.abs 0])
    (h : decodeEmul fl code pc byte ops = .ok bs) :
    ∃ d, ops = [d] ∧ decode pc bs = some (.two m byte (dupMeaning byte pc d).1 (dupMeaning byte pc d).2, bs.length) := by
  unfold decodeEmul at h
  simp only [hlo, hhi] at h
  split at h
  · rename_i d
    refine ⟨d, rfl, ?_⟩
    simp only [if_true] at h
    rw [show (3 ||| 8 : Nat) = 11 from by decide] at h
    cases hd : decodeAdr fl pc 2 byte 11 false d with
    | error e => rw [hd] at h; cases h
    | ok dp =>
      rw [hd, andThen_ok] at h
      unfold emulDup at h
      rcases decodeAdr_dst_inv fl pc 2 byte 11 d dp tb11.1 tb11.2.1 tb11.2.2.1 hd with
        ⟨n, rfl, hn, hn3, rfl⟩ | ⟨n, x, rfl, hn, hn2, hn3, hx1, hx2, rfl⟩ | ⟨t, rfl, ht1, ht2, rfl⟩ |
        ⟨t, rfl, ht1, ht2, rfl⟩ | ⟨n, rfl, hn, hn2, hn3, rfl⟩ | ⟨n, rfl, hn, hn2, hn3, _, rfl⟩
      · -- Rn
        simp at h
        cases h
        rw [two_roundtrip pc op m byte ⟨0, n, 0, 0⟩ ⟨0, n, 0, 0⟩ hop hm (by simp) (by simpa using hn) (by simp [srcExt]) (by simp) (by simpa using hn) rfl]
        simp [dstOpd, srcOpd, dupMeaning, hn3]
      · -- x(Rn)
        by_cases hn0 : n = 0
        · subst hn0
          simp only [and_self, if_true] at h
          by_cases hc : fl.rlaDistCheck = true ∧ (toLong x + 4294967296 - 2) % 4294967296 &&& 32768 ≠ toLong x &&& 32768
          · simp only [hc, and_self, ne_eq, not_false_eq_true, if_true] at h; cases h
          · simp only [hc, if_false] at h
            cases h
            rw [pcrel_dup pc op m byte (toLong x) ((pc + 2 + w16 x) % 65536) hop hm (by rw [toLong_w16])]
            simp [dupMeaning]
        · by_cases hx0 : x = 0
          · subst hx0
            have : toLong 0 = 0 := rfl
            simp [this, hn0, hn2] at h
            cases h
            rw [two_roundtrip pc op m byte ⟨2, n, 0, 0⟩ ⟨1, n, 1, 0⟩ hop hm (by simp) (by simpa using hn) (by simp [srcExt]) (by simp) (by simpa using hn) rfl]
            simp [dstOpd, srcOpd, dupMeaning, hn0, hn2, hn3]
          · have hL : toLong x ≠ 0 := by rw [Ne, toLong_eq_zero x hx1 hx2]; exact hx0
            simp [hn0, hL] at h
            cases h
            rw [two_roundtrip pc op m byte ⟨1, n, 1, toLong x⟩ ⟨1, n, 1, toLong x⟩ hop hm (by simp) (by simpa using hn) (by simp [srcExt, hn3]) (by simp) (by simpa using hn) rfl]
            simp [dstOpd, srcOpd, dupMeaning, hn0, hn2, hn3, hx0, toLong_w16]
      · -- ADDR
        simp only [and_self, if_true] at h
        generalize hV : ((t - ((pc + 2 : Nat) : Int)) % 65536).toNat = V at h
        by_cases hc : fl.rlaDistCheck = true ∧ (V + 4294967296 - 2) % 4294967296 &&& 32768 ≠ V &&& 32768
        · simp only [hc, and_self, ne_eq, not_false_eq_true, if_true] at h; cases h
        · simp only [hc, if_false] at h
          cases h
          rw [pcrel_dup pc op m byte V (w16 t) hop hm (by rw [← hV]; unfold w16; simp; omega)]
          simp [dupMeaning]
      · -- &ADDR
        by_cases hc : toLong t = 0 ∧ fl.rlaAbsZeroInd = true
        · exfalso
          have ht0 : t = 0 := (toLong_eq_zero t (by omega) ht2).mp hc.1
          subst ht0
          exact habs hc.2 rfl
        · have hc' : ¬ (toLong t = 0 ∧ (fl.rlaAbsZeroInd = true ∨ (2 : Nat) ≠ 2)) := by
            intro hh; apply hc; exact ⟨hh.1, by simpa using hh.2⟩
          simp only [true_and, hc', if_false, reduceCtorEq] at h
          simp at h
          cases h
          rw [two_roundtrip pc op m byte ⟨1, 2, 1, toLong t⟩ ⟨1, 2, 1, toLong t⟩ hop hm (by simp) (by simp) (by simp [srcExt]) (by simp) (by simp) rfl]
          simp [dstOpd, srcOpd, dupMeaning, toLong_w16]
      · -- @Rn
        by_cases hn0 : n = 0
        · subst hn0
          simp only [and_self, if_true] at h
          by_cases hc : fl.rlaDistCheck = true ∧ (0 + 4294967296 - 2) % 4294967296 &&& 32768 ≠ 0 &&& 32768
          · simp only [hc, and_self, ne_eq, not_false_eq_true, if_true] at h; cases h
          · simp only [hc, if_false] at h
            cases h
            rw [pcrel_dup pc op m byte 0 ((pc + 2) % 65536) hop hm (by simp)]
            simp [dupMeaning]
        · simp [hn0, hn2] at h
          cases h
          rw [two_roundtrip pc op m byte ⟨2, n, 0, 0⟩ ⟨1, n, 1, 0⟩ hop hm (by simp) (by simpa using hn) (by simp [srcExt]) (by simp) (by simpa using hn) rfl]
          simp [dstOpd, srcOpd, dupMeaning, hn0, hn2, hn3]
      · -- @Rn+
        have hn0 : n ≠ 0 := by intro hh; subst hh; exact hinc _ rfl rfl
        simp at h
        cases h
        rw [two_roundtrip pc op m byte ⟨3, n, 0, 0⟩ ⟨1, n, 1, _⟩ hop hm (by simp) (by simpa using hn) (by simp [srcExt, hn0]) (by simp) (by simpa using hn) rfl]
        cases byte <;> simp [dstOpd, srcOpd, dupMeaning, hn0, hn2, hn3, memLen]
  · cases h


/-- displacement of a PC-relative operand of `RLA/RLC` (relative to its first extension word at `pc + 2`) -/
def pcDisp (pc : Nat) : Arg → Option Nat
  | .sym t => some (((t - ((pc : Int) + 2)) % 65536).toNat)
  | .idx n x => if n = 0 then some (w16 x) else none
  | .ind n => if n = 0 then some 0 else none
  | _ => none

/-- the displacements `DecodeEmulOneToTwo`'s sign test refuses: 0, 1, 8000h, 8001h -/
def distBad (pc : Nat) (d : Arg) : Bool :=
  match pcDisp pc d with
  | some v => decide (v % 32768 < 2)
  | none => false

theorem dstIncOk_eq (d : Arg) : dstIncOk d = (dstOk d || incOk d) := by
  cases d <;> simp [dstIncOk, dstOk, incOk]

theorem signDiffer (V : Nat) (hV : V < 4294967296) :
    ((V + 4294967296 - 2) % 4294967296 &&& 0x8000 ≠ V &&& 0x8000) ↔ V % 32768 < 2 := by
  rw [and_8000, and_8000]
  omega

theorem emulDup_isOk (fl : Flags) (code' : Nat) (byte : Bool) (dp : AdrParts) (hV : dp.val < 4294967296) :
    isOk (emulDup fl code' byte dp) =
      !(fl.rlaDistCheck && decide (dp.mode = 1 ∧ dp.part = 0) && decide (dp.val % 32768 < 2)) := by
  unfold emulDup
  by_cases h3 : dp.mode = 3
  · simp [h3, isOk]
  rw [if_neg h3]
  by_cases h10 : dp.mode = 1 ∧ dp.part = 0
  · rw [if_pos h10]
    simp only [h10, and_self, decide_true, Bool.and_true]
    by_cases hc : fl.rlaDistCheck = true ∧ (dp.val + 4294967296 - 2) % 4294967296 &&& 0x8000 ≠ dp.val &&& 0x8000
    · rw [if_pos hc]
      have := (signDiffer dp.val hV).mp hc.2
      simp [isOk, hc.1, this]
    · rw [if_neg hc]
      cases hfl : fl.rlaDistCheck
      · simp [isOk]
      · have : ¬ (dp.val % 32768 < 2) := by
          intro hh; exact hc ⟨hfl, (signDiffer dp.val hV).mpr hh⟩
        simp [isOk, this]
  · rw [if_neg h10]
    have : decide (dp.mode = 1 ∧ dp.part = 0) = false := by simp [h10]
    rw [this]
    split <;> simp [isOk]

theorem emulAA_isOk (fl : Flags) (code pc : Nat) (byte : Bool) (ops : List Arg) (hlo : lo code = 0xaa) :
    isOk (decodeEmul fl code pc byte ops) =
      (match ops with | [d] => dstIncOk d && !(fl.rlaDistCheck && distBad pc d) | _ => false) := by
  unfold decodeEmul
  simp only [hlo]
  split
  · rename_i d
    simp only [if_true]
    rw [show (3 ||| 8 : Nat) = 11 from by decide]
    have hacc := dst_isOk fl pc 2 byte 11 false d tb11.1 tb11.2.1 tb11.2.2.1 (by simp)
    simp only [tb11.2.2.2, Bool.true_and, Bool.false_and, Bool.or_false] at hacc
    rw [← dstIncOk_eq] at hacc
    cases hd : decodeAdr fl pc 2 byte 11 false d with
    | error e =>
      rw [hd] at hacc
      simp only [andThen_error, isOk, ← hacc, Bool.false_and]
    | ok dp =>
      rw [hd] at hacc
      have hacc' : dstIncOk d = true := by rw [← hacc]; rfl
      rw [andThen_ok, hacc', Bool.true_and]
      rcases decodeAdr_dst_inv fl pc 2 byte 11 d dp tb11.1 tb11.2.1 tb11.2.2.1 hd with
        ⟨n, rfl, hn, hn3, rfl⟩ | ⟨n, x, rfl, hn, hn2, hn3, hx1, hx2, rfl⟩ | ⟨t, rfl, ht1, ht2, rfl⟩ |
        ⟨t, rfl, ht1, ht2, rfl⟩ | ⟨n, rfl, hn, hn2, hn3, rfl⟩ | ⟨n, rfl, hn, hn2, hn3, _, rfl⟩
      · rw [emulDup_isOk _ _ _ _ (by simp)]
        simp [distBad, pcDisp]
      · have hb : toLong x < 4294967296 := by unfold toLong; omega
        rw [emulDup_isOk _ _ _ _ (by simpa using hb)]
        have hw : toLong x % 32768 < 2 ↔ w16 x % 32768 < 2 := by
          have := toLong_w16 x; omega
        by_cases hn0 : n = 0
        · simp [distBad, pcDisp, hn0, hw]
        · simp [distBad, pcDisp, hn0]
      · have hb : ((t - ((pc + 2 : Nat) : Int)) % 65536).toNat < 4294967296 := by omega
        rw [emulDup_isOk _ _ _ _ (by simpa using hb)]
        simp [distBad, pcDisp]
      · have hb : toLong t < 4294967296 := by unfold toLong; omega
        rw [emulDup_isOk _ _ _ _ (by simpa using hb)]
        simp [distBad, pcDisp]
      · rw [emulDup_isOk _ _ _ _ (by simp)]
        by_cases hn0 : n = 0
        · simp [distBad, pcDisp, hn0]
        · simp [distBad, pcDisp, hn0]
      · rw [emulDup_isOk _ _ _ _ (by simp)]
        simp [distBad, pcDisp]
  · simp only [isOk]


/-! ## the regenerated tables -/

/-- what the SPEC demands of one `InstTable` entry: the handler kind fits the mnemonic's operand form and the
opcode word carries the bit pattern the SPEC's decoder maps back to the mnemonic (for the emulated instructions:
to the core operation and constant of TI's emulation table) -/
def Good (m : Mn) : Handler → Bool
  | .fixed code => form m == .none && code == encFixed m
  | .twoOp code => form m == .two && code % 4096 == 0 && decide (code / 4096 < 16) && op2 (code / 4096) == some m
  | .emul code =>
    let c := code &&& 0xff00
    c % 4096 == 0 && decide (c / 4096 < 16) && op2 (c / 4096) == some (emulOf m).1 &&
    ((form m == .dstInc && lo code == 0xaa) ||
     (form m == .dst && (match (emulOf m).2 with
        | some k => lo code == k && decide (k ≤ 2)
        | none => lo code == 255)))
  | .br code => form m == .br && code == 0x4000
  | .pop code => form m == .pop && code == 0x4000
  | .oneOp mayByte code =>
    (if mayByte then form m == .one else form m == .oneW) && code % 128 == 0 && code / 1024 == 4 &&
      op1 (code / 128 % 8) == some m && wordOnly m == !mayByte
  | .jmp code => form m == .jump && code % 1024 == 0 && code / 8192 == 1 && code / 1024 % 8 == cond m

theorem table_good : Mn.all.all (fun m => match lookup m with | some h => Good m h | none => false) = true := by
  decide +kernel

theorem lookup_good (m : Mn) : ∃ h, lookup m = some h ∧ Good m h = true := by
  have := List.all_eq_true.mp table_good m (mem_all m)
  cases hl : lookup m with
  | none => simp [hl] at this
  | some h => exact ⟨h, rfl, by simpa [hl] using this⟩

/-- the constants extracted from `DecodeTwoOp/DecodeOneOp/DecodeBR/DecodePOP/DecodeJmp/FillAdrPartsImm` are the ones
the lemmas above were proved with; every constant-generator row reads back as its constant without an extension word -/
theorem consts_good :
    twoSrcMask = 15 ∧ twoSrcMayImm = true ∧ twoDstMask = 3 ∧ twoDstMayImm = false ∧ oneMask = 15 ∧ oneMayImm = true ∧
    brMask = 15 ∧ brMayImm = true ∧ popMask = 3 ∧ jmpPcOfs = 2 ∧ jmpMin = -1024 ∧ jmpMax = 1022 ∧
    (cgTable.all fun r => !srcExt r.2.2 r.2.1 && srcOpd false r.2.2 r.2.1 0 0 == .imm r.1 && srcOpd true r.2.2 r.2.1 0 0 == .imm r.1) = true ∧
    (cgTable.map (·.1) = [0, 1, 2, 4, 8]) ∧
    srcExt cgMinusOne.2 cgMinusOne.1 = false ∧ srcOpd false cgMinusOne.2 cgMinusOne.1 0 0 = .imm 65535 ∧
    srcOpd true cgMinusOne.2 cgMinusOne.1 0 0 = .imm 255 := by
  decide

/-! ## statements on which a flagged behaviour of the pinned tree departs from the SPEC -/

/-- no operand is the raw immediate mode `@PC+` (its datum is not part of the statement) -/
def plain (s : Src) : Bool := s.ops.all fun a => a != .inc 0

def srcFirst : Form → Bool
  | .two | .one | .oneW | .br => true
  | _ => false

/-- `0(PC)` in source position -/
def hitsZeroPc (s : Src) : Bool := srcFirst (form s.mn) && s.ops.head? == some (.idx 0 0)
/-- `POP #0`, `POP #1` -/
def hitsPopImm (s : Src) : Bool := form s.mn == .pop && (s.ops == [.imm 0] || s.ops == [.imm 1])
/-- `RLA/RLC &0` -/
def hitsRlaAbs0 (s : Src) : Bool := form s.mn == .dstInc && s.ops == [.abs 0]
/-- `RLA/RLC` with a PC-relative operand at displacement 0, 1, 8000h, 8001h -/
def hitsRlaDist (pc : Nat) (s : Src) : Bool :=
  form s.mn == .dstInc && (match s.ops with | [d] => distBad pc d | _ => false)

def affectedSound (fl : Flags) (s : Src) : Bool :=
  (fl.zeroDispPcInd && hitsZeroPc s) || (fl.popMayImm && hitsPopImm s) || (fl.rlaAbsZeroInd && hitsRlaAbs0 s)

def affectedRange (fl : Flags) (pc : Nat) (s : Src) : Bool :=
  (fl.popMayImm && hitsPopImm s) || (fl.rlaDistCheck && hitsRlaDist pc s)

theorem sizeOk_gt (f : Form) (n : Nat) (h : n > 2) : sizeOk f n = false := by
  cases f <;> simp [sizeOk] <;> omega

theorem decodeI_not_jump (pc w : Nat) (bs : List Byte) (c T n : Nat) : decodeI pc w bs ≠ some (.jump c T, n) := by
  unfold decodeI
  intro h
  split at h
  · cases h
  · simp only at h
    split at h
    · split at h
      · cases h
      · cases h
    · cases h

theorem decodeII_not_jump (pc w : Nat) (bs : List Byte) (c T n : Nat) : decodeII pc w bs ≠ some (.jump c T, n) := by
  unfold decodeII
  intro h
  simp only at h
  split at h
  · split at h <;> cases h
  · split at h
    · cases h
    · split at h
      · cases h
      · split at h <;> cases h

/-- a decoded jump is a two-byte instruction whose target is `pc + 2 + 2·sext10(offset)` in the 16-bit address space -/
theorem decode_jump_inv (pc : Nat) (bs : List Byte) (c T n : Nat) (h : decode pc bs = some (.jump c T, n)) :
    ∃ w, word bs 0 = some w ∧ n = 2 ∧ c = w / 1024 % 8 ∧
      T = (pc + 2 + 2 * (w % 1024) + (if w % 1024 ≥ 512 then 63488 else 0)) % 65536 := by
  unfold decode at h
  split at h
  · cases h
  · rename_i w hw
    refine ⟨w, hw, ?_⟩
    split at h
    · exact absurd h (decodeI_not_jump pc w bs c T n)
    · split at h
      · exact absurd h (decodeII_not_jump pc w bs c T n)
      · split at h
        · simp only [decodeJ, Option.some.injEq, Prod.mk.injEq, Instr.jump.injEq] at h
          exact ⟨h.2.symm, h.1.1.symm, h.1.2.symm⟩
        · cases h


end AslModel.Isa.IMsp430
