import AslModel.Model.MacroLabelsFlat
import AslModel.Lemmas.MacroLabels
/-! C11 labels, step 1 of the whole-program refinement: the model is the table machine `runT` over the list of executed
statements `flatItems` (`execItems_flat`), the SPEC's hand expansion is `specEv` mapped over the same list (`expItems_flat`). -/
namespace AslModel.MacroLabels
open AslModel.MacroLabelsSpec

/-! ### SPEC side -/

theorem envOf_cons (f : Fr) (fr : List Fr) : envOf (f :: fr) = (f.names, f.id) :: envOf fr := rfl

def accOf (r : List Xe × Cs) (a : Acc) : Acc := ⟨(r.1.map specEv).reverse ++ a.out, r.2.next⟩

theorem repeat_flat (glob : Bool) (fr : List Fr) (names : List Nat) (bodyF : List Fr → Cs → List Xe × Cs) (f : Acc → Acc)
    (hf : ∀ c a, a.next = c.next → f a = accOf (iterF glob fr names bodyF c) a) :
    ∀ n c a, a.next = c.next → repeatN f n a = accOf (loopF glob fr names bodyF n c) a := by
  intro n
  induction n with
  | zero => intro c a h; cases a; simp_all [repeatN, loopF, accOf]
  | succ n ih =>
    intro c a h
    simp only [repeatN, loopF]
    rw [hf c a h, ih (iterF glob fr names bodyF c).2 _ rfl]
    simp [accOf]

theorem finishF_fst (wh glob : Bool) (r : List Xe × Cs) : (finishF wh glob r).1 = r.1 := by
  unfold finishF; split <;> rfl
theorem finishF_next (wh glob : Bool) (r : List Xe × Cs) : (finishF wh glob r).2.next = r.2.next := by
  unfold finishF; split <;> rfl
theorem finishF_cnt (wh glob : Bool) (r : List Xe × Cs) :
    (finishF wh glob r).2.cnt = r.2.cnt + (if wh && !glob then 1 else 0) := by
  unfold finishF; split <;> simp_all

mutual
theorem expItem_flat : ∀ (i : Item) (fr : List Fr) (c : Cs) (a : Acc), a.next = c.next →
    expItem (envOf fr) i a = accOf (flatItem fr i c) a
  | .lab k, fr, c, a, h => by cases a; simp_all [expItem, flatItem, accOf, specEv]
  | .ref k, fr, c, a, h => by cases a; simp_all [expItem, flatItem, accOf, specEv]
  | .con wh glob n body, fr, c, a, h => by
    simp only [expItem, flatItem]
    rw [repeat_flat glob fr (labelsOf body) (fun fr c => flatItems fr body c) _ ?_ n c a h]
    · simp [accOf, finishF_fst, finishF_next]
    · intro c a h
      unfold iterF
      by_cases hg : glob = true
      · simp only [hg, if_true]
        exact expItems_flat body fr c a h
      · simp only [hg]
        have := expItems_flat body (⟨c.cnt, labelsOf body, c.next⟩ :: fr) ⟨c.cnt + 1, c.next + 1⟩
          { a with next := a.next + 1 } (by simp [h])
        rw [envOf_cons] at this
        simp only [← h] at this ⊢
        simpa [accOf] using this
theorem expItems_flat : ∀ (is : Items) (fr : List Fr) (c : Cs) (a : Acc), a.next = c.next →
    expItems (envOf fr) is a = accOf (flatItems fr is c) a
  | .nil, fr, c, a, h => by cases a; simp_all [expItems, flatItems, accOf]
  | .cons i r, fr, c, a, h => by
    simp only [expItems, flatItems]
    rw [expItem_flat i fr c a h, expItems_flat r fr (flatItem fr i c).2 _ rfl]
    simp [accOf]
end

/-- the hand expansion is the list of executed statements seen through `specEv` -/
theorem expand_flat (prog : Items) : expand prog = (flat prog).map specEv := by
  unfold expand flat
  rw [show (([] : List (List Nat × Nat))) = envOf [] from rfl, expItems_flat prog [] ⟨0, 0⟩ {} rfl]
  simp [accOf]

/-! ### model side -/

theorem runT_append (t : Tb) (a b : List Xe) : runT t (a ++ b) = runT (runT t a) b := by
  simp [runT, List.foldl_append]

theorem tbOf_popLoc (s : St) : tbOf (popLoc s) = tbOf s ∧ (popLoc s).cnt = s.cnt := by
  unfold popLoc; split <;> exact ⟨rfl, rfl⟩

theorem step_lab (fr : List Fr) (st : St) (k : Nat) (hm : st.mom = momOf fr) (_hc : st.conts = contsOf fr) :
    tbOf (execItem (.lab k) st) = stepT (tbOf st) ⟨true, k, fr⟩ := by
  simp only [execItem, stepT, if_true]
  unfold defineLabel
  by_cases h : momOf fr = -1 <;> simp [stOf, tbOf, emit, hm, h]

theorem step_ref (fr : List Fr) (st : St) (k : Nat) (hm : st.mom = momOf fr) (hc : st.conts = contsOf fr) :
    tbOf (execItem (.ref k) st) = stepT (tbOf st) ⟨false, k, fr⟩ := by
  have hl : lookup st k = lookup (stOf fr (tbOf st)) k := by
    unfold lookup findLocNode
    simp only [stOf, tbOf, hm, hc]
    first | rfl | congr
  simp only [execItem, stepT, hl]
  simp [stOf, tbOf, emit]

/-- stack condition of the loop of a construct whose enclosing chain is `fr` -/
def StkInv (glob first : Bool) (fr : List Fr) (st : St) : Prop :=
  if glob ∨ first then st.mom = momOf fr ∧ st.conts = contsOf fr else st.conts = momOf fr :: contsOf fr

theorem loop_flat (glob : Bool) (fr : List Fr) (names : List Nat) (bodyF : List Fr → Cs → List Xe × Cs) (body : St → St)
    (hb : ∀ fr' st c, st.mom = momOf fr' → st.conts = contsOf fr' → st.cnt = c.cnt →
      tbOf (body st) = runT (tbOf st) (bodyF fr' c).1 ∧ (body st).cnt = (bodyF fr' c).2.cnt)
    (hfr : ∀ st, Frame st (body st)) :
    ∀ (n : Nat) (first : Bool) (st : St) (c : Cs), st.cnt = c.cnt → StkInv glob first fr st →
      tbOf (loop glob body n first st).1 = runT (tbOf st) (loopF glob fr names bodyF n c).1 ∧
      (loop glob body n first st).1.cnt = (loopF glob fr names bodyF n c).2.cnt ∧
      StkInv glob (loop glob body n first st).2 fr (loop glob body n first st).1 := by
  intro n
  induction n with
  | zero => intro first st c hc hs; simpa [loop, loopF, runT] using ⟨hc, hs⟩
  | succ n ih =>
    intro first st c hc hs
    simp only [loop, loopF, runT_append]
    by_cases hg : glob = true
    · subst hg
      simp only [StkInv, true_or, if_true] at hs
      have h1 := hb fr st c hs.1 hs.2 hc
      have hf := hfr st
      have := ih false (body st) (bodyF fr c).2 h1.2
        (by simp only [StkInv, true_or, if_true]; exact ⟨hf.mom.trans hs.1, hf.conts.trans hs.2⟩)
      simp only [iterOpen, iterF, if_true]
      rw [← h1.1]
      exact this
    · have hg' : glob = false := by cases glob <;> simp_all
      subst hg'
      -- the state the iteration starts in
      have key : (iterOpen false first st).mom = (c.cnt : Int) ∧ (iterOpen false first st).conts = momOf fr :: contsOf fr ∧
          (iterOpen false first st).cnt = c.cnt + 1 ∧ tbOf (iterOpen false first st) = tbOf st := by
        cases first
        · simp only [StkInv, Bool.false_eq_true, or_self, if_false] at hs
          simp [iterOpen, pushFresh, pushLoc, popLoc, hs, hc, tbOf]
        · simp only [StkInv, or_true, if_true] at hs
          simp [iterOpen, pushFresh, pushLoc, hs.1, hs.2, hc, tbOf]
      have h1 := hb (⟨c.cnt, names, c.next⟩ :: fr) (iterOpen false first st) ⟨c.cnt + 1, c.next + 1⟩ key.1 key.2.1 key.2.2.1
      have hf := hfr (iterOpen false first st)
      have := ih false (body (iterOpen false first st)) (bodyF (⟨c.cnt, names, c.next⟩ :: fr) ⟨c.cnt + 1, c.next + 1⟩).2 h1.2
        (by simp only [StkInv, Bool.false_eq_true, or_self, if_false]; rw [hf.conts]; exact key.2.1)
      simp only [iterF, Bool.false_eq_true, if_false]
      rw [← key.2.2.2, ← h1.1]
      exact this

theorem finish_tb (wh glob : Bool) (fr : List Fr) (r : St × Bool) (hs : StkInv glob r.2 fr r.1) :
    tbOf (finish wh glob r) = tbOf r.1 ∧ (finish wh glob r).cnt = r.1.cnt + (if wh && !glob then 1 else 0) := by
  obtain ⟨s, first⟩ := r
  cases wh <;> cases glob <;> cases first <;>
    simp [finish, restorer, iterOpen, pushFresh, pushLoc, popLoc, tbOf] <;>
    (try (cases hq : s.conts <;> simp [tbOf]))

mutual
theorem execItem_flat : ∀ (i : Item) (fr : List Fr) (st : St) (c : Cs), st.mom = momOf fr → st.conts = contsOf fr →
    st.cnt = c.cnt →
    tbOf (execItem i st) = runT (tbOf st) (flatItem fr i c).1 ∧ (execItem i st).cnt = (flatItem fr i c).2.cnt
  | .lab k, fr, st, c, hm, hc, hn => by
    refine ⟨by rw [step_lab fr st k hm hc]; simp [flatItem, runT], ?_⟩
    simp only [execItem, flatItem, emit]
    unfold defineLabel; split <;> exact hn
  | .ref k, fr, st, c, hm, hc, hn => by
    refine ⟨by rw [step_ref fr st k hm hc]; simp [flatItem, runT], ?_⟩
    simpa [execItem, flatItem, emit] using hn
  | .con wh glob n body, fr, st, c, hm, hc, hn => by
    have hl := loop_flat glob fr (labelsOf body) (fun fr c => flatItems fr body c) (execItems body)
      (fun fr' st c h1 h2 h3 => execItems_flat body fr' st c h1 h2 h3) (fun s => execItems_frame body s) n true st c hn
      (by simp only [StkInv, or_true, if_true]; exact ⟨hm, hc⟩)
    have hf := finish_tb wh glob fr _ hl.2.2
    simp only [execItem, flatItem, finishF_fst, finishF_cnt]
    exact ⟨hf.1.trans hl.1, by rw [hf.2, hl.2.1]⟩
theorem execItems_flat : ∀ (is : Items) (fr : List Fr) (st : St) (c : Cs), st.mom = momOf fr → st.conts = contsOf fr →
    st.cnt = c.cnt →
    tbOf (execItems is st) = runT (tbOf st) (flatItems fr is c).1 ∧ (execItems is st).cnt = (flatItems fr is c).2.cnt
  | .nil, fr, st, c, hm, hc, hn => by simpa [execItems, flatItems, runT] using hn
  | .cons i r, fr, st, c, hm, hc, hn => by
    have h1 := execItem_flat i fr st c hm hc hn
    have hf := execItem_frame i st
    have h2 := execItems_flat r fr (execItem i st) (flatItem fr i c).2 (hf.mom.trans hm) (hf.conts.trans hc) h1.2
    simp only [execItems, flatItems, runT_append]
    rw [← h1.1]
    exact h2
end

/-- one pass of the model is the table machine over the executed statements -/
theorem pass_flat (st : St) (prog : Items) :
    tbOf (pass st prog) = runT ⟨st.ltab, st.gtab, 0, []⟩ (flat prog) := by
  unfold pass flat
  exact (execItems_flat prog [] (initPass st) ⟨0, 0⟩ rfl rfl rfl).1

end AslModel.MacroLabels
